/-
  C09 — Summary vectors obey their definitions, accumulation and group hierarchy laws.

  Only property statements, their one-line proofs from `Proofs/SumFunsTable.lean` (facts about
  the table generated from Summary.cpp on every run) and `Proofs/SumFuns.lean` (the evaluator
  over an arbitrary linearly ordered field `K`), and non-vacuity examples.
  Quantifiers: every well list, every group chain / tree of any depth, every step list.
-/
import OpmVerif.Proofs.SumFunsTable
import OpmVerif.Proofs.SumFuns
import OpmVerif.Proofs.SumFunsLevels
import OpmVerif.Proofs.SumFunsCalendar
import Mathlib.Algebra.Order.Field.Rat
import Mathlib.Tactic.NormNum

namespace OpmVerif.Props.C09
open OpmVerif.SumFuns OpmVerif.SumFuns.Table OpmVerif.SumFuns.Proofs

variable {K : Type} [Field K] [LinearOrder K] [IsStrictOrderedRing K]

/-! ## the table as it is in Summary.cpp now -/

/-- No summary key is defined twice in `funs`. -/
theorem table_keys_unique : (Gen.funsK.map (·.1)).Nodup := keys_nodup

/-- `XOPR/XWPR/XGPR` are production rates of oil/water/gas, `XOIR/XWIR/XGIR` injection rates,
for X ∈ {W, G, F}. -/
theorem table_phase_rates :
    levels.all (fun x =>
      lookupFun (lvl x "OPR") == some (prodR .oil) && lookupFun (lvl x "WPR") == some (prodR .wat) &&
      lookupFun (lvl x "GPR") == some (prodR .gas) && lookupFun (lvl x "OIR") == some (injR .oil) &&
      lookupFun (lvl x "WIR") == some (injR .wat) && lookupFun (lvl x "GIR") == some (injR .gas)) = true :=
  phase_rates

/-- For X ∈ {W, G, F}: `XLPR = XWPR + XOPR`, `XWCT = XWPR / (XWPR + XOPR)`, `XGOR = XGPR / XOPR`,
`XGLR = XGPR / (XWPR + XOPR)`, `XLPT = (XWPR + XOPR) · duration` — as combinations of the very
entries of the constituents. -/
theorem table_derived_definitions :
    levels.all (fun x =>
      match lookupFun (lvl x "OPR"), lookupFun (lvl x "WPR"), lookupFun (lvl x "GPR") with
      | some o, some w, some g =>
        lookupFun (lvl x "LPR") == some (.sum w o) &&
        lookupFun (lvl x "WCT") == some (.div w (.sum w o)) &&
        lookupFun (lvl x "GOR") == some (.div g o) &&
        lookupFun (lvl x "GLR") == some (.div g (.sum w o)) &&
        lookupFun (lvl x "LPT") == some (.mul (.sum w o) .duration)
      | _, _, _ => false) = true :=
  derived_definitions

/-- `XVPR` / `XVIR` are the sums of the three reservoir-volume rates. -/
theorem table_voidage_definitions :
    levels.all (fun x =>
      lookupFun (lvl x "VPR") ==
        some (.sum (.sum (prodR .reservoir_water) (prodR .reservoir_oil)) (prodR .reservoir_gas)) &&
      lookupFun (lvl x "VIR") ==
        some (.sum (.sum (injR .reservoir_water) (injR .reservoir_oil)) (injR .reservoir_gas))) = true :=
  voidage_definitions

/-- History keys map to the history combinators of the same phase, derived history keys are
built from them like the simulated ones. -/
theorem table_history_definitions :
    levels.all (fun x =>
      lookupFun (lvl x "OPRH") == some (.prodHist .oil) && lookupFun (lvl x "WPRH") == some (.prodHist .water) &&
      lookupFun (lvl x "GPRH") == some (.prodHist .gas) &&
      lookupFun (lvl x "OIRH") == some (.injHist .oil) && lookupFun (lvl x "WIRH") == some (.injHist .water) &&
      lookupFun (lvl x "GIRH") == some (.injHist .gas) &&
      lookupFun (lvl x "LPRH") == some (.sum (.prodHist .water) (.prodHist .oil)) &&
      lookupFun (lvl x "WCTH") == some (.div (.prodHist .water) (.sum (.prodHist .water) (.prodHist .oil))) &&
      lookupFun (lvl x "GORH") == some (.div (.prodHist .gas) (.prodHist .oil)) &&
      lookupFun (lvl x "GLRH") == some (.div (.prodHist .gas) (.sum (.prodHist .water) (.prodHist .oil)))) = true :=
  history_definitions

/-- Every W/G/F key that accumulates in `SummaryState` is `mul (…R expression) duration` of the
SAME expression as its rate twin (`WOPT`/`WOPR`, `GLPTH`/`GLPRH`, …), except the four listed
keys (completion liquid total, gas consumption / import). A copy-paste slip in one entry
(e.g. `WLPT` built from `rate<gas>`) makes this theorem false. -/
theorem table_totals_are_rate_times_duration :
    Gen.funsK.all (fun p =>
      !(isWGFK p.1 && stateIsTotalK p.1) || totalOK lookupK p.1 p.2 || memK totalExceptionsK p.1) = true :=
  totals_are_rate_times_duration

/-- Conversely every W/G/F entry of shape `mul _ duration` accumulates (except the dead `FLIT`). -/
theorem table_rate_times_duration_accumulates :
    Gen.funsK.all (fun p =>
      !(isWGFK p.1 && (match p.2 with | .mul _ .duration => true | _ => false)) ||
        stateIsTotalK p.1 || Nat.beq p.1 (keyCode "FLIT")) = true :=
  rate_times_duration_accumulates

/-- W/G/F variants of a key share one expression (they differ only in the well set). -/
theorem table_variants_share_expression :
    Gen.funsK.all (fun p =>
      !isWGFK p.1 || memK variantExceptionsK p.1 ||
        levelCodes.all (fun c =>
          match lookupK (variantKeyK c p.1) with
          | some e => sameUpToDistribution p.2 e
          | none => true)) = true :=
  variants_share_expression

/-- `SummaryState::is_total` (accumulate) and `SummaryConfig`'s `Type::Total` (which selects the
efficiency-factor rule) agree on every W/G/F entry outside the listed energy / brine / gas
consumption keys. -/
theorem table_classifications_agree :
    Gen.funsK.all (fun p =>
      !isWGFK p.1 || memK classificationMismatchK p.1 || Nat.beq p.1 (keyCode "FLIT") ||
        stateIsTotalK p.1 == configIsTotalK p.1) = true :=
  classifications_agree

/-- The unit tag of an entry (what `from_si` is applied with) is the measure of the quantity:
values are reported in deck units of the right dimension. -/
theorem table_unit_tags :
    levels.all (fun x =>
      (lookupFun (lvl x "OPR")).bind unitOf == some "liquid_surface_rate" &&
      (lookupFun (lvl x "WPR")).bind unitOf == some "liquid_surface_rate" &&
      (lookupFun (lvl x "LPR")).bind unitOf == some "liquid_surface_rate" &&
      (lookupFun (lvl x "GPR")).bind unitOf == some "gas_surface_rate" &&
      (lookupFun (lvl x "VPR")).bind unitOf == some "rate" &&
      (lookupFun (lvl x "OPT")).bind unitOf == some "liquid_surface_volume" &&
      (lookupFun (lvl x "WIT")).bind unitOf == some "liquid_surface_volume" &&
      (lookupFun (lvl x "LPT")).bind unitOf == some "liquid_surface_volume" &&
      (lookupFun (lvl x "GPT")).bind unitOf == some "gas_surface_volume" &&
      (lookupFun (lvl x "GIT")).bind unitOf == some "gas_surface_volume" &&
      (lookupFun (lvl x "VPT")).bind unitOf == some "volume" &&
      (lookupFun (lvl x "VIT")).bind unitOf == some "volume" &&
      (lookupFun (lvl x "WCT")).bind unitOf == some "water_cut" &&
      (lookupFun (lvl x "GOR")).bind unitOf == some "gas_oil_ratio" &&
      (lookupFun (lvl x "OPRH")).bind unitOf == some "liquid_surface_rate" &&
      (lookupFun (lvl x "GPTH")).bind unitOf == some "gas_surface_volume") = true :=
  unit_tags

/-- Deck units of totals: the unit tag of every (atom-free) accumulating W/G/F key is the time
integral of the unit tag of its rate twin. -/
theorem table_totals_units_integrate :
    Gen.funsK.all (fun p =>
      !(isWGFK p.1 && stateIsTotalK p.1 && noAtom p.2) || unitIntegrates lookupK p.1 p.2 ||
        memK totalExceptionsK p.1) = true :=
  totals_units_integrate

/-! ## `rate<phase,injection>` -/

/-- `rate_sem`: for any number of wells, `⟦rate p inj⟧ = ± Σ_w keep_inj (q_w(p) · efac(w))`
where `q_w` is 0 for wells that are absent or dynamically shut and `keep` is the sign rule. -/
theorem rate_sem (p : Rt) (inj : Bool) (c : Ctx K) :
    evalRate p inj c = (if inj then 1 else -1) * (c.wells.map (contrib p inj c.efac)).sum :=
  evalRate_eq p inj c

/-- With non-negative efficiency factors: `⟦rate p inj⟧ = ± Σ_w efac(w) · keep_inj (q_w(p))`. -/
theorem rate_sem_factor (p : Rt) (inj : Bool) (c : Ctx K) (he : ∀ w ∈ c.wells, 0 ≤ c.efac w.name) :
    evalRate p inj c =
      (if inj then 1 else -1) * (c.wells.map (fun w => c.efac w.name * keep inj (q p w))).sum :=
  evalRate_factor p inj c he

/-- Shut (and absent) wells contribute nothing: dropping them changes no rate. -/
theorem shut_wells_contribute_nothing (p : Rt) (inj : Bool) (c : Ctx K) :
    evalRate p inj { c with wells := c.wells.filter flowing } = evalRate p inj c :=
  evalRate_filter_flowing p inj c

/-- If no well of the set flows, the rate is zero. -/
theorem all_shut_zero (p : Rt) (inj : Bool) (c : Ctx K) (h : ∀ w ∈ c.wells, flowing w = false) :
    evalRate p inj c = 0 :=
  evalRate_all_shut p inj c h

/-- The order in which the wells are visited (`sort_wells_by_insert_index`) does not matter over
a field: any permutation of the well list gives the same rate. -/
theorem well_order_irrelevant (p : Rt) (inj : Bool) (c : Ctx K) (ws : List (WellIn K))
    (h : ws.Perm c.wells) :
    evalRate p inj { c with wells := ws } = evalRate p inj c :=
  evalRate_perm p inj c ws h

/-- Injection / production split by sign: injection rate − production rate = `Σ efac · q`. -/
theorem injection_production_split (p : Rt) (c : Ctx K) (he : ∀ w ∈ c.wells, 0 ≤ c.efac w.name) :
    evalRate p true c - evalRate p false c = (c.wells.map (fun w => c.efac w.name * q p w)).sum :=
  inj_minus_prod p c he

/-- Both parts are non-negative. -/
theorem rates_nonneg (p : Rt) (inj : Bool) (c : Ctx K) (he : ∀ w ∈ c.wells, 0 ≤ c.efac w.name) :
    0 ≤ evalRate p inj c :=
  evalRate_nonneg p inj c he

/-- History vectors: efficiency-weighted sum of the schedule's observed rates of the flowing
wells. -/
theorem history_sem (c : Ctx K) (ph : HPhase) :
    evalE c (.prodHist ph) = some ((c.wells.map (hcontrib (fun w => w.hprod ph) c.efac)).sum) ∧
    evalE c (.injHist ph) = some ((c.wells.map (hcontrib (fun w => w.hinj ph) c.efac)).sum) :=
  evalHist_eq c ph

/-- Derived vectors equal the defining expression of their constituents (value level). -/
theorem derived_sum (c : Ctx K) (a b : E) (x y : K) (ha : evalE c a = some x) (hb : evalE c b = some y) :
    evalE c (.sum a b) = some (x + y) :=
  evalE_sum c a b x y ha hb

theorem derived_ratio (c : Ctx K) (a b : E) (x y : K) (ha : evalE c a = some x) (hb : evalE c b = some y) :
    evalE c (.div a b) = some (if y = 0 then 0 else x / y) :=
  evalE_div c a b x y ha hb

/-- Liquid = water + oil, on the W, G and F level: the value of the table entry `XLPR` is the
sum of the two phase rates (table fact and evaluator together). -/
theorem liquid_is_water_plus_oil (c : Ctx K) :
    ∀ x ∈ levels, (lookupFun (lvl x "LPR")).bind (evalE c) =
      some (evalRate .wat false c + evalRate .oil false c) :=
  liquid_value c

/-- Water cut = water / (water + oil), 0 when nothing is produced. -/
theorem water_cut_definition (c : Ctx K) :
    ∀ x ∈ levels, (lookupFun (lvl x "WCT")).bind (evalE c) =
      some (if evalRate .wat false c + evalRate .oil false c = 0 then 0
            else evalRate .wat false c / (evalRate .wat false c + evalRate .oil false c)) :=
  water_cut_value c

/-- GOR = gas / oil, 0 when no oil is produced. -/
theorem gor_definition (c : Ctx K) :
    ∀ x ∈ levels, (lookupFun (lvl x "GOR")).bind (evalE c) =
      some (if evalRate .oil false c = 0 then 0 else evalRate .gas false c / evalRate .oil false c) :=
  gor_value c

/-- Gas-liquid ratio = gas / (water + oil), 0 when no liquid is produced (W, G and F level). -/
theorem glr_definition (c : Ctx K) :
    ∀ x ∈ levels, (lookupFun (lvl x "GLR")).bind (evalE c) =
      some (if evalRate .wat false c + evalRate .oil false c = 0 then 0
            else evalRate .gas false c / (evalRate .wat false c + evalRate .oil false c)) :=
  glr_value c

/-- `WOGR` = oil / gas and `WWGR` = water / gas, 0 when no gas is produced. -/
theorem well_gas_ratio_definition (c : Ctx K) :
    (lookupFun "WOGR").bind (evalE c) =
      some (if evalRate .gas false c = 0 then 0 else evalRate .oil false c / evalRate .gas false c) ∧
    (lookupFun "WWGR").bind (evalE c) =
      some (if evalRate .gas false c = 0 then 0 else evalRate .wat false c / evalRate .gas false c) :=
  well_gas_ratio_value c

/-- The history ratios `XWCTH`, `XGORH`, `XGLRH` (X ∈ {W, G, F}) are the same expressions of the
observed (schedule) rates, `histProd c ph` being the efficiency-weighted sum of the observed
rates of phase `ph` over the flowing wells (`history_sem`). -/
theorem history_ratio_definition (c : Ctx K) :
    ∀ x ∈ levels,
      (lookupFun (lvl x "WCTH")).bind (evalE c) =
        some (if histProd c .water + histProd c .oil = 0 then 0
              else histProd c .water / (histProd c .water + histProd c .oil)) ∧
      (lookupFun (lvl x "GORH")).bind (evalE c) =
        some (if histProd c .oil = 0 then 0 else histProd c .gas / histProd c .oil) ∧
      (lookupFun (lvl x "GLRH")).bind (evalE c) =
        some (if histProd c .water + histProd c .oil = 0 then 0
              else histProd c .gas / (histProd c .water + histProd c .oil)) :=
  history_ratio_value c

/-- `quantity::operator/` has no threshold: for every non-zero denominator — however small, in
whatever unit system — the reported ratio times the denominator is the numerator. -/
theorem ratio_has_no_threshold (c : Ctx K) (a b : E) (x y r : K) (ha : evalE c a = some x)
    (hb : evalE c b = some y) (hy : y ≠ 0) (hr : evalE c (.div a b) = some r) : r * y = x :=
  evalE_div_mul c a b x y r ha hb hy hr

/-- A ratio vector is reported as zero only if its numerator or its denominator is exactly zero. -/
theorem ratio_zero_only_for_zero (c : Ctx K) (a b : E) (x y : K) (ha : evalE c a = some x)
    (hb : evalE c b = some y) : evalE c (.div a b) = some 0 ↔ (y = 0 ∨ x = 0) :=
  evalE_div_eq_zero c a b x y ha hb

/-- Voidage production rate = sum of the three reservoir-volume rates. -/
theorem voidage_definition (c : Ctx K) :
    ∀ x ∈ levels, (lookupFun (lvl x "VPR")).bind (evalE c) =
      some (evalRate .reservoir_water false c + evalRate .reservoir_oil false c +
            evalRate .reservoir_gas false c) :=
  voidage_value c

/-- The two spellings of "free gas total" (`WGPTF` vs `GGPTF`) have the same value. -/
theorem distribute_duration (c : Ctx K) (a b : E) :
    evalE c (.sub (.mul a .duration) (.mul b .duration)) = evalE c (.mul (.sub a b) .duration) :=
  evalE_distribute c a b

/-! ## efficiency factors -/

/-- `efac_sem`: along a parent chain of any depth the `setFactors` loop yields
`acc · Π gefac` over the chain members met before the stop group. -/
theorem efac_sem (parent : String → Option String) (gefac : String → K) (stop : Option String)
    (g : String) (rest : List String) (hch : IsChain parent (g :: rest)) (fuel : Nat)
    (hf : (g :: rest).length ≤ fuel) (acc : K) :
    walkUp parent gefac stop fuel g acc =
      acc * prodL (((g :: rest).takeWhile (fun x => decide (stop ≠ some x))).map gefac) :=
  walkUp_chain parent gefac stop (g :: rest) g rest rfl hch fuel hf acc

/-- totals, field and region nodes: all ancestors. -/
theorem efac_sem_total (parent : String → Option String) (gefac : String → K)
    (g : String) (rest : List String) (hch : IsChain parent (g :: rest)) (fuel : Nat)
    (hf : (g :: rest).length ≤ fuel) (wefac : K) :
    walkUp parent gefac none fuel g wefac = wefac * prodL ((g :: rest).map gefac) :=
  walkUp_all parent gefac g rest hch fuel hf wefac

/-- group rates: only the ancestors strictly below the node's own group. -/
theorem efac_sem_group_rate (parent : String → Option String) (gefac : String → K) (node : String)
    (below above : List String) (hn : node ∉ below) (g : String) (rest : List String)
    (hsplit : g :: rest = below ++ node :: above)
    (hch : IsChain parent (g :: rest)) (fuel : Nat) (hf : (g :: rest).length ≤ fuel) (wefac : K) :
    walkUp parent gefac (some node) fuel g wefac = wefac * prodL (below.map gefac) :=
  walkUp_below parent gefac node below above hn g rest hsplit hch fuel hf wefac

omit [IsStrictOrderedRing K] in
/-- well-level rates get no factor at all (`setFactors` returns early). -/
theorem efac_sem_well_rate (gs : List (GroupIn K)) (node : String) (ws : List (WellIn K)) :
    setFactors gs .well false node ws = none := by
  simp [setFactors]

/-- In the evaluator update the factor applied to a well of the node's well set *is* the walk
(1 for well-level keys that are not totals). -/
theorem efac_used_by_update (gs : List (GroupIn K)) (ws : List (WellIn K)) (cat : Cat) (node key : String)
    (dt : K) (hn : ((findWells gs ws cat node).map (·.name)).Nodup)
    (w : WellIn K) (hw : w ∈ findWells gs ws cat node) :
    (nodeCtx gs ws cat node key dt).efac w.name =
      if cat = .well ∧ configIsTotal key = false then 1
      else walkUp (parentOf gs) (gefacOf gs)
        (if cat = .group ∧ configIsTotal key = false then some node else none)
        (gs.length + 1) w.group w.wefac :=
  nodeCtx_efac gs ws cat node key dt hn w hw

/-- The walk and the tree agree: when the parent pointers realise a well's path in the forest,
the walked factor is the forest factor. -/
theorem efac_walk_is_forest_factor (parent : String → Option String) (gefac : String → K)
    (node : String) (above : List String) (w : WellIn K) (path : List (String × K))
    (hn : node ∉ path.map (·.1)) (hg : ∀ x ∈ path, gefac x.1 = x.2)
    (g : String) (rest : List String) (hsplit : g :: rest = path.map (·.1) ++ node :: above)
    (hgrp : w.group = g) (hch : IsChain parent (g :: rest)) (fuel : Nat)
    (hf : (g :: rest).length ≤ fuel) :
    walkUp parent gefac (some node) fuel w.group w.wefac = prodL (path.map (·.2)) * w.wefac :=
  walk_eq_forest_factor parent gefac node above w path hn hg g rest hsplit hgrp hch fuel hf

/-! ## group hierarchy -/

/-- `group_additivity` (any `s`): value of a node = Σ over child groups `gefac(c) · value(c)` +
Σ over own wells `wefac(w) · s(w)`, by induction on the tree. -/
theorem group_additivity (s : WellIn K → K) (f : Forest K) : f.value s 1 = (f.items s).sum :=
  Forest.value_items s f

/-- `group_additivity` for the model's `rate<>`: `G·R(g) = Σ_c gefac(c) · G·R(c) +
Σ_w wefac(w) · W·R(w)`; with `f` the content of FIELD this is the field rate. -/
theorem group_additivity_rates (p : Rt) (inj : Bool) (dt : K) (f : Forest K)
    (hn : f.names.Nodup) (hp : f.NonNeg) :
    evalRate p inj (forestCtx f dt) = (f.rateItems p inj dt).sum :=
  group_additivity_rate p inj dt f hn hp

/-- `group_total_over_changing_trees`: in a history whose group tree changes between evaluations
(GRUPTREE re-parenting, wells moved or added, GEFAC / WEFAC changed at later report steps) evaluation `i`
uses the forest `h.1` of its own step: the accumulated group (or field) total is the initial value plus
Σ_i factor × (Σ_c gefac_i(c) · G·R_i(c) + Σ_w wefac_i(w) · W·R_i(w)) × dt_i with children, wells and
factors all taken from the tree of step `i`; any number of evaluations, any trees. -/
theorem group_total_over_changing_trees (key : String) (htot : stateIsTotal key = true) (f : K)
    (p : Rt) (inj : Bool) (hs : List (Forest K × K)) (t0 : K)
    (hn : ∀ h ∈ hs, h.1.names.Nodup) (hp : ∀ h ∈ hs, h.1.NonNeg) :
    accumulate key f (.mul (.rate p inj) .duration) (hs.map (fun h => forestCtx h.1 h.2)) t0 =
      some (t0 + (hs.map (fun h => f * ((h.1.rateItems p inj h.2).sum * h.2))).sum) :=
  Proofs.group_total_changing_trees key htot f p inj hs t0 hn hp

/-! ## accumulation -/

/-- `cumulative_step`: after one evaluation with step length `dt` a total key holds the
previous value plus factor × rate × dt. -/
theorem cumulative_step (key : String) (htot : stateIsTotal key = true) (f : K) (r : E) (c : Ctx K)
    (R prev : K) (hR : evalE c r = some R) :
    (evalE c (.mul r .duration)).map (fun v => stateUpdate key prev (fromSi f v)) =
      some (prev + f * (R * c.dt)) :=
  cumulative_one key htot f r c R prev hR

/-- The same through the whole evaluator update (`find_wells`, `setFactors`, table lookup,
`from_si`, `SummaryState::update`): T_{n+1} = T_n + factor · R · dt for a total key whose entry is
`mul r duration`, `R` being `r` evaluated with the node's wells and efficiency factors. -/
theorem cumulative_step_update (gs : List (GroupIn K)) (ws : List (WellIn K)) (cat : Cat)
    (node key : String) (dt f prev R : K) (r : E) (u : String)
    (hk : lookupFun key = some (.mul r .duration)) (htot : stateIsTotal key = true)
    (hu : unitOf (.mul r .duration) = some u)
    (hR : evalE (nodeCtx gs ws cat node key dt) r = some R) :
    (nodeValue gs ws cat node key dt).map (fun vu => stateUpdate key prev (fromSi f vu.1)) =
      some (prev + f * (R * dt)) :=
  node_cumulative gs ws cat node key dt f prev R r u hk htot hu hR

/-- … and after any number of steps: initial value + Σ factor × rate_i × dt_i. -/
theorem cumulative_steps (key : String) (htot : stateIsTotal key = true) (f : K) (r : E)
    (cs : List (Ctx K)) (t0 : K) (hr : ∀ c ∈ cs, (evalE c r).isSome) :
    accumulate key f (.mul r .duration) cs t0 =
      some (t0 + (cs.map (fun c => f * (((evalE c r).getD 0) * c.dt))).sum) :=
  Proofs.cumulative_steps key htot f r cs t0 hr

/-- a key that is not a total holds the last evaluated value (in deck units). -/
theorem non_total_is_last_value (key : String) (hnt : stateIsTotal key = false) (f : K) (e : E)
    (cs : List (Ctx K)) (c : Ctx K) (t0 : K) (hr : ∀ x ∈ cs ++ [c], (evalE x e).isSome) :
    accumulate key f e (cs ++ [c]) t0 = (evalE c e).map (fun v => f * v) :=
  non_total_last key hnt f e cs c t0 hr

/-! ## calendar

`calendar_round_trip` and `calendar_valid_date` are the full statement (every day number, no
finite check): DAY / MONTH / YEAR of the model are a valid date of the proleptic Gregorian
calendar whose day count is START's day count + the elapsed days.  The real code's `gmtime` is
tied to this date function by the `sumfuns.time` correspondence op and by property mode.
`calendar_era_periodic_partial` is the earlier partial result, kept. -/

/-- The date the model reports for day number `z` has day count `z`: `daysFromCivil ∘
civilFromDays = id` on all of ℤ. -/
theorem calendar_round_trip (z : Int) :
    daysFromCivil (civilFromDays z).1 (civilFromDays z).2.1 (civilFromDays z).2.2 = z :=
  Calendar.civil_roundtrip z

/-- It is a valid date: month 1…12, day 1…length of the month (Gregorian leap rule). -/
theorem calendar_valid_date (z : Int) :
    Calendar.Valid (civilFromDays z).1 (civilFromDays z).2.1 (civilFromDays z).2.2 :=
  Calendar.civil_valid z

/-- DAY / MONTH / YEAR follow the schedule's dates: `n` days after START `(y0, m0, d0)` the
reported date is the valid date whose day count is START's plus `n` — for every START and every
number of elapsed days (any number of steps of any lengths: only their sum enters). -/
theorem calendar_date_follows_schedule (y0 m0 d0 n : Int) :
    let r := civilFromDays (daysFromCivil y0 m0 d0 + n)
    Calendar.Valid r.1 r.2.1 r.2.2 ∧ daysFromCivil r.1 r.2.1 r.2.2 = daysFromCivil y0 m0 d0 + n :=
  ⟨Calendar.civil_valid _, Calendar.civil_roundtrip _⟩

/-- anchors: day 0 is 1970-01-01, an era of 400 years has 146 097 days -/
theorem calendar_epoch : civilFromDays 0 = (1970, 1, 1) ∧ daysFromCivil 1970 1 1 = 0 ∧
    daysFromCivil 2370 1 1 = 146097 := Calendar.epoch

/-! ## below the well level, regions, network nodes -/

/-- Every accumulating C/S/R key is `mul (expression of its …R twin) duration` (`COPT`/`COPR`,
`CWITL`/`CWIRL`, `SOFT`/`SOFR`, `ROPT`/`ROPR`, …); the two solvent totals have no twin. -/
theorem table_level_totals_are_rate_times_duration :
    Gen.funsK.all (fun p =>
      !(isCSRK p.1 && stateIsTotalK p.1) || totalOK lookupK p.1 p.2 || memK levelTotalExceptionsK p.1) = true :=
  level_totals_are_rate_times_duration

/-- For every C/S/R entry: shape `mul _ duration` ⇔ accumulates in `SummaryState` ⇔ typed `Total`
by `SummaryConfig` (whole efficiency chain) — no exception. -/
theorem table_level_classifications :
    Gen.funsK.all (fun p =>
      !isCSRK p.1 ||
        ((match p.2 with | .mul _ .duration => true | _ => false) == stateIsTotalK p.1 &&
          stateIsTotalK p.1 == configIsTotalK p.1)) = true :=
  level_classifications

/-- unit of every atom-free accumulating C/S/R key = time integral of the unit of its rate twin -/
theorem table_level_totals_units_integrate :
    Gen.funsK.all (fun p =>
      !(isCSRK p.1 && stateIsTotalK p.1 && noAtom p.2) || unitIntegrates lookupK p.1 p.2 ||
        memK levelTotalExceptionsK p.1) = true :=
  level_totals_units_integrate

/-- the positions `segpress i` refers to are the ones of `data::SegmentPressures::Value` -/
theorem table_segpress_names :
    Gen.segPressNames = ["Pressure", "PDrop", "PDropHydrostatic", "PDropAccel", "PDropFriction"] :=
  segpress_names

/-- `rate_unit` of every component of `data::Rates::opt` as the rate leaves report it (energy
falls back to `liquid_surface_rate`: the code as it is). -/
theorem table_rate_units_by_phase :
    Rt.all.map rateLeafUnit =
      ["liquid_surface_rate", "liquid_surface_rate", "gas_surface_rate", "mass_rate", "gas_surface_rate",
       "liquid_surface_rate", "gas_surface_rate", "liquid_surface_rate", "rate", "rate", "rate",
       "liquid_productivity_index", "liquid_productivity_index", "gas_productivity_index",
       "liquid_surface_rate", "liquid_surface_rate", "gas_surface_rate",
       "mass_rate", "liquid_surface_rate", "liquid_surface_rate", "liquid_surface_rate", "liquid_surface_rate",
       "mass_rate"] :=
  rate_units_by_phase

/-- What the keys below the well level, the region keys and the node keys are: `crate<>` / `crate_resv<>` / `cpr` per connection, `ratel<>` / `cratel<>` per completion, `srate<>` / `segpress<>` per segment, `region_rate<>` per region, node pressures; ratios built from the same leaves. -/
theorem table_level_definitions :
    (lookupFun "COPR" == some (.crate .oil false) && lookupFun "CWPR" == some (.crate .wat false) &&
     lookupFun "CGPR" == some (.crate .gas false) && lookupFun "COIR" == some (.crate .oil true) &&
     lookupFun "CWIR" == some (.crate .wat true) && lookupFun "CGIR" == some (.crate .gas true) &&
     lookupFun "CVPR" == some (.crateResv false) && lookupFun "CVIR" == some (.crateResv true) &&
     lookupFun "CCIR" == some (.crate .polymer true) && lookupFun "CSIR" == some (.crate .brine true) &&
     lookupFun "CPR" == some .cpr &&
     lookupFun "CWCT" == some (.div (.crate .wat false) (.sum (.crate .wat false) (.crate .oil false))) &&
     lookupFun "CGOR" == some (.div (.crate .gas false) (.crate .oil false)) &&
     lookupFun "COFR" == some (.sub (.crate .oil false) (.crate .oil true)) &&
     lookupFun "WOPRL" == some (.ratel .oil false) && lookupFun "WWPRL" == some (.ratel .wat false) &&
     lookupFun "WGPRL" == some (.ratel .gas false) && lookupFun "WWIRL" == some (.ratel .wat true) &&
     lookupFun "WGIRL" == some (.ratel .gas true) &&
     lookupFun "COPRL" == some (.cratel .oil false) && lookupFun "CWPRL" == some (.cratel .wat false) &&
     lookupFun "CGPRL" == some (.cratel .gas false) && lookupFun "CWIRL" == some (.cratel .wat true) &&
     lookupFun "CGIRL" == some (.cratel .gas true) &&
     lookupFun "SOFR" == some (.srate .oil) && lookupFun "SWFR" == some (.srate .wat) &&
     lookupFun "SGFR" == some (.srate .gas) &&
     lookupFun "SWCT" == some (.div (.srate .wat) (.sum (.srate .wat) (.srate .oil))) &&
     lookupFun "SGOR" == some (.div (.srate .gas) (.srate .oil)) &&
     lookupFun "SPR" == some (.segpress 0) && lookupFun "SPRD" == some (.segpress 1) &&
     lookupFun "SPRDH" == some (.segpress 2) && lookupFun "SPRDA" == some (.segpress 3) &&
     lookupFun "SPRDF" == some (.segpress 4) &&
     lookupFun "ROPR" == some (.regionRate .oil false) && lookupFun "RWPR" == some (.regionRate .wat false) &&
     lookupFun "RGPR" == some (.regionRate .gas false) && lookupFun "ROIR" == some (.regionRate .oil true) &&
     lookupFun "RWIR" == some (.regionRate .wat true) && lookupFun "RGIR" == some (.regionRate .gas true) &&
     lookupFun "GPR" == some (.nodePressure false) && lookupFun "NPR" == some (.nodePressure true) &&
     lookupFun "GNETPR" == some (.nodePressure true)) = true :=
  level_definitions

/-- Unit of each vector below the well level, of region and of node vectors. -/
theorem table_level_unit_tags :
    ((lookupFun "COPR").bind unitOf == some "liquid_surface_rate" &&
     (lookupFun "CWIR").bind unitOf == some "liquid_surface_rate" &&
     (lookupFun "CGPR").bind unitOf == some "gas_surface_rate" &&
     (lookupFun "CVPR").bind unitOf == some "rate" && (lookupFun "CVIT").bind unitOf == some "volume" &&
     (lookupFun "CCIR").bind unitOf == some "mass_rate" && (lookupFun "CSPR").bind unitOf == some "mass_rate" &&
     (lookupFun "CCIT").bind unitOf == some "mass" && (lookupFun "CSPT").bind unitOf == some "mass" &&
     (lookupFun "COPT").bind unitOf == some "liquid_surface_volume" &&
     (lookupFun "CGIT").bind unitOf == some "gas_surface_volume" &&
     (lookupFun "CNIT").bind unitOf == some "gas_surface_volume" &&
     (lookupFun "CWCT").bind unitOf == some "water_cut" && (lookupFun "CGOR").bind unitOf == some "gas_oil_ratio" &&
     (lookupFun "CPR").bind unitOf == some "pressure" &&
     (lookupFun "WOPRL").bind unitOf == some "liquid_surface_rate" &&
     (lookupFun "WGPTL").bind unitOf == some "gas_surface_volume" &&
     (lookupFun "COPTL").bind unitOf == some "liquid_surface_volume" &&
     (lookupFun "CGORL").bind unitOf == some "gas_oil_ratio" &&
     (lookupFun "SOFR").bind unitOf == some "liquid_surface_rate" &&
     (lookupFun "SGFR").bind unitOf == some "gas_surface_rate" &&
     (lookupFun "SGFRS").bind unitOf == some "gas_surface_rate" &&
     (lookupFun "SOFT").bind unitOf == some "liquid_surface_volume" &&
     (lookupFun "SGFT").bind unitOf == some "gas_surface_volume" &&
     (lookupFun "SWCT").bind unitOf == some "water_cut" && (lookupFun "SOGR").bind unitOf == some "oil_gas_ratio" &&
     (lookupFun "SPR").bind unitOf == some "pressure" && (lookupFun "SPRDF").bind unitOf == some "pressure" &&
     (lookupFun "ROPR").bind unitOf == some "liquid_surface_rate" &&
     (lookupFun "RGIR").bind unitOf == some "gas_surface_rate" &&
     (lookupFun "RWIT").bind unitOf == some "liquid_surface_volume" &&
     (lookupFun "RGPT").bind unitOf == some "gas_surface_volume" &&
     (lookupFun "GPR").bind unitOf == some "pressure" && (lookupFun "NPR").bind unitOf == some "pressure") = true :=
  level_unit_tags

/-- Energy vectors carry the liquid volume measures (no `rate_unit<rt::energy>`): the code as it is. -/
theorem table_energy_vectors_carry_liquid_units :
    levels.all (fun x =>
      (lookupFun (lvl x "EPR")).bind unitOf == some "liquid_surface_rate" &&
      (lookupFun (lvl x "EIR")).bind unitOf == some "liquid_surface_rate" &&
      (lookupFun (lvl x "EPT")).bind unitOf == some "liquid_surface_volume" &&
      (lookupFun (lvl x "EIT")).bind unitOf == some "liquid_surface_volume") = true :=
  energy_vectors_carry_liquid_units

/-- Polymer and brine vectors are masses / mass rates, solvent vectors gas volumes, `XGMIR/XGMIT` gas mass, on all three levels. -/
theorem table_other_phase_unit_tags :
    levels.all (fun x =>
      (lookupFun (lvl x "CPR")).bind unitOf == some "mass_rate" &&
      (lookupFun (lvl x "CIR")).bind unitOf == some "mass_rate" &&
      (lookupFun (lvl x "CPT")).bind unitOf == some "mass" &&
      (lookupFun (lvl x "CIT")).bind unitOf == some "mass" &&
      (lookupFun (lvl x "SPR")).bind unitOf == some "mass_rate" &&
      (lookupFun (lvl x "SIR")).bind unitOf == some "mass_rate" &&
      (lookupFun (lvl x "SIT")).bind unitOf == some "mass" &&
      (lookupFun (lvl x "NPR")).bind unitOf == some "gas_surface_rate" &&
      (lookupFun (lvl x "NIR")).bind unitOf == some "gas_surface_rate" &&
      (lookupFun (lvl x "NPT")).bind unitOf == some "gas_surface_volume" &&
      (lookupFun (lvl x "NIT")).bind unitOf == some "gas_surface_volume" &&
      (lookupFun (lvl x "GMIR")).bind unitOf == some "mass_rate" &&
      (lookupFun (lvl x "GMIT")).bind unitOf == some "mass") = true :=
  other_phase_unit_tags

/-- `crate_sem`: a connection vector of a flowing well under the matching control type is
`± q_conn · efac` (producers negated, no sign filter). -/
theorem connection_rate_sem (p : Rt) (inj : Bool) (c : Ctx K) (w : WellIn K) (ws : List (WellIn K))
    (d : WellDyn K) (g : Nat) (hw : c.wells = w :: ws) (hd : w.dyn = some d) (hs : d.shut = false)
    (ht : d.isProducer = !inj) (hn : c.num = g + 1) :
    evalCrate p inj c = sgn inj * (connQ p d.conns g * c.efac w.name) :=
  evalCrate_eq p inj c w ws d g hw hd hs ht hn

/-- Shut / absent wells contribute nothing to connection, completion and segment vectors. -/
theorem levels_shut_wells_contribute_nothing (p : Rt) (inj : Bool) (i : Nat) (c : Ctx K) (w : WellIn K)
    (ws : List (WellIn K)) (hw : c.wells = w :: ws) (h : flowing w = false) :
    evalCrate p inj c = 0 ∧ evalCrateResv inj c = 0 ∧ evalCpr c = 0 ∧ evalRatel p inj c = 0 ∧
      evalCratel p inj c = 0 ∧ evalSrate p c = 0 ∧ evalSegpress i c = 0 :=
  levels_zero_not_flowing p inj i c w ws hw h

/-- A well running under the other control type reports zero for the direction asked. -/
theorem levels_wrong_control_type_zero (p : Rt) (inj : Bool) (c : Ctx K) (w : WellIn K) (ws : List (WellIn K))
    (d : WellDyn K) (hw : c.wells = w :: ws) (hd : w.dyn = some d) (hs : d.shut = false)
    (ht : d.isProducer = inj) :
    evalCrate p inj c = 0 ∧ evalCrateResv inj c = 0 ∧ evalRatel p inj c = 0 ∧ evalCratel p inj c = 0 :=
  levels_zero_wrong_type p inj c w ws d hw hd hs ht

/-- **Completion = sum over its connections**: `W…L` of completion `k` equals the sum of the
connection vectors over the connections the schedule assigns to `k` — any number of connections. -/
theorem completion_is_sum_of_connections (p : Rt) (inj : Bool) (c : Ctx K) (w : WellIn K) (ws : List (WellIn K))
    (d : WellDyn K) (k : Nat) (hw : c.wells = w :: ws) (hd : w.dyn = some d) (hs : d.shut = false)
    (ht : d.isProducer = !inj) :
    evalRatel p inj { c with num := k } =
      ((complConns w.sconns k).map fun g => evalCrate p inj { c with num := g + 1 }).sum :=
  ratel_is_sum_of_crates p inj c w ws d k hw hd hs ht

/-- `C…L` of a connection is the `W…L` value of the completion it belongs to; zero for a
connection that is in no completion of the schedule. -/
theorem connection_completion_view (p : Rt) (inj : Bool) (c : Ctx K) (w : WellIn K) (ws : List (WellIn K))
    (hw : c.wells = w :: ws) :
    (∀ k, complOfConn w.sconns c.num = some k → evalCratel p inj c = evalRatel p inj { c with num := k }) ∧
    (complOfConn w.sconns c.num = none → evalCratel p inj c = 0) :=
  ⟨fun k hk => cratel_eq_ratel p inj c w ws k hw hk, fun hk => cratel_unknown_connection p inj c w ws hw hk⟩

/-- **Well = sum over its connections** where the simulator's numbers are consistent (well
component = sum of the connection components, no cross-flowing connection): `W·PR = Σ C·PR`. -/
theorem well_is_sum_of_connections (p : Rt) (w : WellIn K) (d : WellDyn K) (dt : K) (gs : List Nat)
    (hd : w.dyn = some d) (hs : d.shut = false) (ht : d.isProducer = true)
    (hsum : lookupRate d.rates p = (gs.map fun g => connQ p d.conns g).sum)
    (hsign : ∀ g ∈ gs, connQ p d.conns g ≤ 0) :
    evalRate p false (wellCtx w dt) =
      (gs.map fun g => evalCrate p false { wellCtx w dt with num := g + 1 }).sum :=
  well_rate_is_sum_of_connections p w d dt gs hd hs ht hsum hsign

/-- `srate_sem`: segment flow = `−q_seg · efac` (sign convention opposite to the simulator's),
zero without results for the segment. -/
theorem segment_rate_sem (p : Rt) (c : Ctx K) (w : WellIn K) (ws : List (WellIn K)) (d : WellDyn K)
    (hw : c.wells = w :: ws) (hd : w.dyn = some d) (hs : d.shut = false) :
    evalSrate p c =
      match findSeg d.segs c.num with
      | none => 0
      | some s => -(lookupRate s.rates p) * c.efac w.name :=
  evalSrate_eq p c w ws d hw hd hs

/-- segment pressure vectors echo the segment's pressure item -/
theorem segment_pressure_sem (i : Nat) (c : Ctx K) (w : WellIn K) (ws : List (WellIn K)) (d : WellDyn K)
    (hw : c.wells = w :: ws) (hd : w.dyn = some d) (hs : d.shut = false) :
    evalSegpress i c =
      match findSeg d.segs c.num with
      | none => 0
      | some s => getD0 s.press i :=
  evalSegpress_eq i c w ws d hw hd hs

/-- `region_rate_sem`: signed sum over the region's connections of connection rate × efficiency
factor, each clamped to the direction; connections of wells reported SHUT add nothing. -/
theorem region_rate_sem (p : Rt) (inj : Bool) (c : Ctx K) :
    evalRegionRate p inj c = sgn inj * (c.rconns.map (regionTerm p inj c.efac c.dyns)).sum :=
  evalRegionRate_eq p inj c

/-- **Shut wells contribute nothing to region vectors** (as on the well, connection, group and
field level): a region all of whose connections belong to SHUT wells has rate 0 whatever the
connection results say, and a SHUT well's connection can be dropped from any region. -/
theorem region_shut_wells_contribute_nothing (p : Rt) (inj : Bool) (c : Ctx K) :
    ((∀ wc ∈ c.rconns, dynShut c.dyns wc.1 = true) → evalRegionRate p inj c = 0) ∧
    (∀ (wc : String × Nat) (rest : List (String × Nat)), dynShut c.dyns wc.1 = true →
      evalRegionRate p inj { c with rconns := wc :: rest } = evalRegionRate p inj { c with rconns := rest }) :=
  ⟨region_all_shut_zero p inj c, fun wc rest h => region_shut_connection_irrelevant p inj c wc rest h⟩

/-- **Regions add up**: the rate over a concatenation of connection lists is the sum of the
rates over the pieces — any number of regions; two region sets that partition the same
connections therefore have the same total. -/
theorem region_rates_sum (p : Rt) (inj : Bool) (c : Ctx K) (ls : List (List (String × Nat))) :
    evalRegionRate p inj { c with rconns := ls.flatten } =
      (ls.map fun l => evalRegionRate p inj { c with rconns := l }).sum :=
  region_rates_add p inj c ls

/-- region rates are never negative (injection / production split by sign per connection) -/
theorem region_rate_nonneg (p : Rt) (inj : Bool) (c : Ctx K) : 0 ≤ evalRegionRate p inj c :=
  evalRegionRate_nonneg p inj c

/-- Connection / completion / segment nodes use the well rule of `setFactors`, region nodes the
field rule: for a region every well gets the whole chain, for rates as well. -/
theorem node_kind_efac_rules (gs : List (GroupIn K)) (isTotal : Bool) (node : String) (ws : List (WellIn K)) :
    setFactors gs Kind.single.cat isTotal node ws = setFactors gs .well isTotal node ws ∧
    setFactors gs Kind.region.cat isTotal node ws =
      some (ws.map fun w => (w.name, walkUp (parentOf gs) (gefacOf gs) none (gs.length + 1) w.group w.wefac)) :=
  ⟨(kind_rules gs isTotal node ws).1, region_efac_whole_chain gs isTotal node ws⟩

/-- network node pressure: the node's reported (converged) pressure, 0 without results -/
theorem node_pressure_sem (conv : Bool) (c : Ctx K) :
    evalNodePressure conv c =
      match c.nodeP with
      | none => 0
      | some (pr, pc) => if conv then pc else pr :=
  evalNodePressure_eq conv c

/-- `civilFromDays` is periodic with the Gregorian era: 146 097 days later is the same day and
month 400 years later. -/
theorem calendar_era_periodic_partial (z : Int) : civilFromDays (z + 146097) =
    ((civilFromDays z).1 + 400, (civilFromDays z).2.1, (civilFromDays z).2.2) :=
  civilFromDays_era_shift z

/-! ## non-vacuity: concrete instances over ℚ -/

section Examples

def wProd (name grp : String) (wefac qo qw : ℚ) : WellIn ℚ :=
  { name := name, group := grp, seq := 0, wefac := wefac,
    dyn := some { shut := false, rates := [(.oil, qo), (.wat, qw)] },
    hprod := fun _ => 5, hinj := fun _ => 0 }

def wShut (name grp : String) : WellIn ℚ :=
  { name := name, group := grp, seq := 1, wefac := 1,
    dyn := some { shut := true, rates := [(.oil, -100)] }, hprod := fun _ => 7, hinj := fun _ => 0 }

/-- two producers (one with an efficiency factor and cross-flowing water), one shut well -/
def ctx1 : Ctx ℚ :=
  { wells := [wProd "P1" "G1" 1 (-10) (-3), wShut "P2" "G1", wProd "P3" "G2" (1/2) (-4) 2],
    efac := fun n => if n = "P3" then 1/2 else 1, dt := 10 }

example : evalRate .oil false ctx1 = 12 := by
  simp [evalRate, rateLoop, ctx1, wProd, wShut, lookupRate]; norm_num
example : evalRate .wat true ctx1 = 1 := by
  simp [evalRate, rateLoop, ctx1, wProd, wShut, lookupRate]
example : ∀ w ∈ ctx1.wells, (0 : ℚ) ≤ ctx1.efac w.name := by
  intro w hw; simp only [ctx1] at hw ⊢; split <;> norm_num
example : stateIsTotal "WOPT" = true ∧ stateIsTotal "WOPR" = false := by decide +kernel
example : lookupFun "WOPT" = some (.mul (.rate .oil false) .duration) := by
  unfold lookupFun; rw [lookupK_eq]; decide +kernel

/-- a chain FIELD ← PLAT ← G1 of depth 3 -/
def parent1 : String → Option String
  | "G1" => some "PLAT" | "PLAT" => some "FIELD" | _ => none

example : IsChain parent1 ["G1", "PLAT", "FIELD"] := ⟨rfl, rfl, rfl⟩

/-- a two-level tree: P1 and sub-group G2 (with P3) under the node -/
def forest1 : Forest ℚ :=
  .well (wProd "P1" "G1" 1 (-10) (-3)) (.group "G2" (3/4) (.well (wProd "P3" "G2" (1/2) (-4) 2) .nil) .nil)

example : forest1.names.Nodup := by decide
example : forest1.NonNeg := by simp [forest1, Forest.NonNeg, wProd]; norm_num
example : forest1.facs 1 = [(wProd "P1" "G1" 1 (-10) (-3), 1), (wProd "P3" "G2" (1/2) (-4) 2, 3/8)] := by
  simp [forest1, Forest.facs, wProd]; norm_num

/-- the same node one report step later: sub-group G2 (with P3) has been moved elsewhere by GRUPTREE -/
def forest1Later : Forest ℚ := .well (wProd "P1" "G1" 1 (-10) (-3)) .nil

/-- hypotheses of `group_total_over_changing_trees` are met by a two-step history whose tree changes,
and the total really follows the tree of each step: 10·(10 + 3/4·(1/2·4)) + 5·10 -/
example : (∀ h ∈ [(forest1, (10 : ℚ)), (forest1Later, 5)], h.1.names.Nodup) ∧
    (∀ h ∈ [(forest1, (10 : ℚ)), (forest1Later, 5)], h.1.NonNeg) ∧ stateIsTotal "GOPT" = true := by
  refine ⟨?_, ?_, by decide +kernel⟩
  · intro h hh; simp only [List.mem_cons, List.mem_nil_iff, or_false] at hh
    rcases hh with rfl | rfl <;> decide
  · intro h hh; simp only [List.mem_cons, List.mem_nil_iff, or_false] at hh
    rcases hh with rfl | rfl <;> (simp [forest1, forest1Later, Forest.NonNeg, wProd]; try norm_num)
example : ([(forest1, (10 : ℚ)), (forest1Later, 5)].map
      (fun h => (1 : ℚ) * ((h.1.rateItems .oil false h.2).sum * h.2))).sum = 165 := by
  simp [forest1, forest1Later, Forest.rateItems, evalRate, rateLoop, wellCtx, forestCtx, Forest.facs, efacLookup, wProd, lookupRate]
  norm_num

/-- hypotheses of `cumulative_step_update` are met by `WOPT` -/
example : lookupFun "WOPT" = some (.mul (.rate .oil false) .duration) ∧ stateIsTotal "WOPT" = true ∧
    unitOf (.mul (.rate .oil false) .duration) = some "liquid_surface_volume" := by
  refine ⟨?_, ?_, ?_⟩
  · unfold lookupFun; rw [lookupK_eq]; decide +kernel
  · decide +kernel
  · decide +kernel

example : civilFromDays 0 = (1970, 1, 1) ∧ civilFromDays 19782 = (2024, 2, 29) ∧
    daysFromCivil 2024 2 29 = 19782 ∧ simDate 1577836800 (86400 * 1000000000 * 60) = (2020, 3, 1) := by
  decide +kernel

/-- a nearly dead well: oil 1e-12, gas 1e-3 (SI): the gas-oil ratio is 1e9, not 0 -/
def ctxTiny : Ctx ℚ :=
  { wells := [{ name := "P1", group := "G1", seq := 0, wefac := 1,
                dyn := some { shut := false, rates := [(.oil, -1 / 1000000000000), (.gas, -1 / 1000)] },
                hprod := fun _ => 1 / 10000, hinj := fun _ => 0 }],
    efac := fun _ => 1, dt := 1 }

example : evalE ctxTiny (.div (.rate .gas false) (.rate .oil false)) = some 1000000000 := by
  simp [evalE, evalRate, rateLoop, ctxTiny, lookupRate]; norm_num
example : evalRate .oil false ctxTiny ≠ 0 := by
  simp [evalRate, rateLoop, ctxTiny, lookupRate]

/-- a producer with two connections in completion 1 and one in completion 2, one segment -/
def wConn : WellIn ℚ :=
  { name := "P1", group := "G1", seq := 0, wefac := 1 / 2,
    dyn := some { shut := false, rates := [(.oil, -10)], isProducer := true,
                  conns := [⟨11, [(.oil, -4)], -5, 200⟩, ⟨111, [(.oil, -6)], -7, 210⟩, ⟨211, [(.oil, -1)], -1, 220⟩],
                  segs := [⟨2, [(.oil, -3)], [100, 1, 2, 3, 4]⟩] },
    hprod := fun _ => 0, hinj := fun _ => 0, sconns := [(11, 1), (111, 1), (211, 2)] }

/-- hypotheses of `connection_rate_sem`, `completion_is_sum_of_connections`, `segment_rate_sem` -/
example : ∃ d : WellDyn ℚ, (wellCtx wConn 1).wells = wConn :: [] ∧ wConn.dyn = some d ∧ d.shut = false ∧
    d.isProducer = !false ∧ complConns wConn.sconns 1 = [11, 111] ∧ complOfConn wConn.sconns 112 = some 1 :=
  ⟨_, rfl, rfl, rfl, rfl, by decide, by decide⟩
example : evalRatel .oil false { wellCtx wConn 1 with num := 1 } = 10 := by
  simp [evalRatel, frontDyn, wellCtx, wConn, complConns, connSum, findConn, lookupRate, efacLookup]; norm_num
example : evalCrate .oil false { wellCtx wConn 1 with num := 112 } = 6 := by
  simp [evalCrate, frontDyn, wellCtx, wConn, connOfNum, findConn, lookupRate, efacLookup]
example : evalSrate .oil { wellCtx wConn 1 with num := 2 } = 3 := by
  simp [evalSrate, evalSeg, frontDyn, wellCtx, wConn, findSeg, lookupRate, efacLookup]
/-- hypotheses of `well_is_sum_of_connections`: the three connection rates sum to the well rate, ≤ 0 -/
example : lookupRate [((.oil : Rt), (-11 : ℚ))] .oil =
    ([11, 111, 211].map fun g => connQ .oil [⟨11, [(.oil, -4)], -5, 200⟩, ⟨111, [(.oil, -6)], -7, 210⟩, ⟨211, [(.oil, -1)], -1, 220⟩] g).sum := by
  simp [lookupRate, connQ, findConn]; norm_num
/-- a region with connections of two wells, one of them injecting -/
def ctxReg : Ctx ℚ :=
  { wells := [], efac := fun n => if n = "P1" then 1 / 2 else 1, dt := 1,
    dyns := [("P1", { shut := false, rates := [], conns := [⟨11, [(.oil, -4)], 0, 0⟩] }),
             ("I1", { shut := false, rates := [], conns := [⟨12, [(.oil, 3)], 0, 0⟩] })],
    rconns := [("P1", 11), ("I1", 12)] }
example : evalRegionRate .oil false ctxReg = 2 ∧ evalRegionRate .oil true ctxReg = 3 := by
  constructor <;> simp [evalRegionRate, regionLoop, ctxReg, connRate, dynShut, findConn, lookupRate] <;> norm_num
/-- the same region when the simulator reports P1 as SHUT but still carries its connection rate -/
def ctxRegShut : Ctx ℚ :=
  { ctxReg with dyns := [("P1", { shut := true, rates := [], conns := [⟨11, [(.oil, -4)], 0, 0⟩] }),
                         ("I1", { shut := false, rates := [], conns := [⟨12, [(.oil, 3)], 0, 0⟩] })] }
example : dynShut ctxRegShut.dyns "P1" = true ∧ evalRegionRate .oil false ctxRegShut = 0 := by
  constructor
  · simp [dynShut, ctxRegShut]
  · simp [evalRegionRate, regionLoop, ctxRegShut, ctxReg, connRate, dynShut, findConn, lookupRate]
example : Calendar.Valid 2024 2 29 ∧ ¬ Calendar.Valid 2023 2 29 := by
  unfold Calendar.Valid Calendar.daysInMonth Calendar.isLeap; decide

end Examples

end OpmVerif.Props.C09
