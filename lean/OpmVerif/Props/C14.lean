/-
  C14 — Black-oil PVT functions honour the input tables and are self-consistent.

  Everything is stated over an arbitrary linearly ordered field `K` (ℚ, ℝ, …), for tables of
  any length ≥ 2 with strictly increasing sample positions, any sample values, any argument.
  `nth xs i` is `xValues_[i]`.  The same definitions, run at IEEE double, are compared bit
  for bit with the C++ by `harness/pvt.cpp`.
-/
import Mathlib.Tactic.NormNum
import Mathlib.Algebra.Order.Field.Rat
import OpmVerif.Proofs.Pvt
import OpmVerif.Proofs.PvtFill
import OpmVerif.Proofs.PvtFillDesc
import OpmVerif.Proofs.PvtSat
import OpmVerif.Proofs.Tab2DGuide
import OpmVerif.Proofs.Tab1DDeriv
import OpmVerif.Proofs.PvtRegion
import OpmVerif.Gen.PvtRegion
import OpmVerif.Gen.Tab2D

namespace OpmVerif.Props.C14
open OpmVerif.Tab1D OpmVerif.Tab2D OpmVerif.Pvt OpmVerif.PvtRegion

variable {K : Type} [Field K] [LinearOrder K] [IsStrictOrderedRing K]

/-! ## Tabulated1DFunction -/

/-- For strictly increasing `xs` of any length ≥ 2 and `xs[0] ≤ x ≤ xs.last`,
`findSegmentIndex` (end shortcuts + bisection) succeeds, whatever the `extrapolate` flag, and
the returned index `i` satisfies `xs[i] ≤ x ≤ xs[i+1]`. -/
theorem bisect_correct {xs : List K} (hs : StrictInc xs) (hn : 2 ≤ xs.length) (x : K)
    (hlo : nth xs 0 ≤ x) (hhi : x ≤ nth xs (xs.length - 1)) (ex : Bool) :
    ∃ i, findSegmentIndex xs x ex = .ok i ∧ i + 1 < xs.length ∧ nth xs i ≤ x ∧ x ≤ nth xs (i + 1) :=
  Tab1D.bisect_correct hs hn x hlo hhi ex

/-- With extrapolation allowed no run-time check of `findSegmentIndex` can fire for any
argument: the "Problematic interpolation/extrapolation segment" throw is unreachable. -/
theorem problematic_segment_unreachable {xs : List K} (hs : StrictInc xs) (hn : 2 ≤ xs.length) (x : K) :
    findSegmentIndex xs x true = .ok (segIdx xs x) :=
  findSegmentIndex_extrap hs hn x

/-- The bisection loop alone: from `xs[lo] ≤ x < xs[hi]`, `lo < hi`, with `hi - lo` units of
fuel it ends on an adjacent bracketing pair (the loop invariant; `fuel = length` suffices). -/
theorem bisect_invariant (xs : List K) (x : K) (fuel lo hi : Nat) (h : lo < hi) (hf : hi - lo ≤ fuel)
    (h1 : nth xs lo ≤ x) (h2 : x < nth xs hi) :
    lo ≤ bisect xs x fuel lo hi ∧ bisect xs x fuel lo hi + 1 ≤ hi ∧
    nth xs (bisect xs x fuel lo hi) ≤ x ∧ x < nth xs (bisect xs x fuel lo hi + 1) :=
  bisect_spec xs x fuel lo hi h hf h1 h2

/-- Outside the range and without extrapolation the call is refused. -/
theorem outside_range_refused (xs : List K) (x : K)
    (h : ¬ (nth xs 0 ≤ x ∧ x ≤ nth xs (xs.length - 1))) :
    findSegmentIndex xs x false = .error .outOfRange :=
  findSegmentIndex_outside xs x h

/-- The interpolant returns every tabulated value exactly at its node. -/
theorem eval_node {xs : List K} (ys : List K) (hs : StrictInc xs) (hn : 2 ≤ xs.length)
    (k : Nat) (hk : k < xs.length) : eval xs ys (nth xs k) true = .ok (nth ys k) := by
  rw [eval_extrap ys hs hn, evalX_node ys hs hn k hk]

/-- Continuity: at an interior node the segment to its left and the segment to its right give
the same value, the tabulated one. -/
theorem eval_continuous_at_nodes {xs : List K} (ys : List K) (hs : StrictInc xs) (i : Nat)
    (hi : i + 1 < xs.length) :
    evalSeg xs ys i (nth xs (i + 1)) = nth ys (i + 1) ∧
    evalSeg xs ys (i + 1) (nth xs (i + 1)) = nth ys (i + 1) :=
  evalSeg_continuous_at_node ys hs i hi

/-- In range the value lies between the two bracketing node values. -/
theorem eval_between {xs : List K} (ys : List K) (hs : StrictInc xs) (hn : 2 ≤ xs.length) (x : K)
    (hlo : nth xs 0 ≤ x) (hhi : x ≤ nth xs (xs.length - 1)) :
    min (nth ys (segIdx xs x)) (nth ys (segIdx xs x + 1)) ≤ evalX xs ys x ∧
    evalX xs ys x ≤ max (nth ys (segIdx xs x)) (nth ys (segIdx xs x + 1)) :=
  evalX_between ys hs hn x hlo hhi

/-- Monotone node values give a monotone function (extrapolated parts included). -/
theorem eval_monotone {xs ys : List K} (hs : StrictInc xs) (hn : 2 ≤ xs.length)
    (hl : ys.length = xs.length) (hm : MonoInc ys) {x x' : K} (h : x ≤ x') :
    evalX xs ys x ≤ evalX xs ys x' :=
  evalX_mono hs hn hl hm h

/-- Strictly increasing node values give a strictly increasing, hence injective, function:
the saturated Rs(p) relation has at most one saturation pressure for a given Rs. -/
theorem eval_strict_monotone {xs ys : List K} (hs : StrictInc xs) (hn : 2 ≤ xs.length)
    (hl : ys.length = xs.length) (hm : StrictIncY ys) {x x' : K} (h : x < x') :
    evalX xs ys x < evalX xs ys x' :=
  evalX_strictMono hs hn hl hm h

/-- The value returned by `evalDerivative` is the slope of `eval`: for two arguments strictly
inside the same table segment `i` the difference quotient equals it, and it is the chord
slope `(y[i+1]-y[i])/(x[i+1]-x[i])`. -/
theorem evalDerivative_is_slope {xs : List K} (ys : List K) (hs : StrictInc xs) (hn : 2 ≤ xs.length)
    (i : Nat) (hi : i + 1 < xs.length) (x x' : K)
    (h1 : nth xs i < x) (h2 : x < nth xs (i + 1)) (h1' : nth xs i < x') (h2' : x' < nth xs (i + 1)) :
    evalX xs ys x' - evalX xs ys x = derivX xs ys x * (x' - x) ∧
    derivX xs ys x = (nth ys (i + 1) - nth ys i) / (nth xs (i + 1) - nth xs i) :=
  derivX_is_slope_open ys hs hn i hi x x' h1 h2 h1' h2'

/-! ## UniformXTabulated2DFunction -/

/-- On a sample column the 2-D function is the 1-D interpolation along that column, for every
interpolation guide. -/
theorem tab2d_on_column (t : Table K) (hs : StrictInc t.xPos) (hn : 2 ≤ t.xPos.length)
    (k : Nat) (hk : k < t.xPos.length) (y : K) :
    Tab2D.eval t (nth t.xPos k) y = evalX (col t.colY k) (col t.colV k) y :=
  eval_on_column t hs hn k hk y

/-- Every sample point of the 2-D table is returned exactly. -/
theorem tab2d_node (t : Table K) (hs : StrictInc t.xPos) (hn : 2 ≤ t.xPos.length)
    (k : Nat) (hk : k < t.xPos.length) (hc : StrictInc (col t.colY k)) (hcn : 2 ≤ (col t.colY k).length)
    (j : Nat) (hj : j < (col t.colY k).length) :
    Tab2D.eval t (nth t.xPos k) (nth (col t.colY k) j) = nth (col t.colV k) j :=
  Tab2D.eval_node t hs hn k hk hc hcn j hj

/-- Along an under-saturated branch (a sample column with any number of rows), between two
adjacent rows the 2-D function is the straight line through exactly these two rows: segment
`j` of the branch is interpolated from rows `j`, `j+1`, never extrapolated from a neighbouring
segment (the `ySegmentIndex` bisection returns the right segment for every column length). -/
theorem tab2d_branch_segment (t : Table K) (hs : StrictInc t.xPos) (hn : 2 ≤ t.xPos.length)
    (k : Nat) (hk : k < t.xPos.length) (hc : StrictInc (col t.colY k)) (hcn : 2 ≤ (col t.colY k).length)
    (j : Nat) (hj : j + 1 < (col t.colY k).length) (y : K)
    (h1 : nth (col t.colY k) j ≤ y) (h2 : y ≤ nth (col t.colY k) (j + 1)) :
    Tab2D.eval t (nth t.xPos k) y = evalSeg (col t.colY k) (col t.colV k) j y :=
  eval_on_branch_segment t hs hn k hk hc hcn j hj y h1 h2

/-- On the guide curve the two columns are evaluated at their guide points: the 2-D value is
the linear blend of the columns' values there (this is what makes the under-saturated surface
meet the saturated curve between the nodes). -/
theorem tab2d_on_guide (t : Table K) (x : K)
    (hg : t.guide = .leftExtreme ∨
      (t.guide = .rightExtreme ∧
        0 < nth t.yPos (segIdx t.xPos x) * (1 - xToAlpha t x (segIdx t.xPos x)) +
            nth t.yPos (segIdx t.xPos x + 1) * xToAlpha t x (segIdx t.xPos x))) :
    Tab2D.eval t x (nth t.yPos (segIdx t.xPos x) * (1 - xToAlpha t x (segIdx t.xPos x)) +
              nth t.yPos (segIdx t.xPos x + 1) * xToAlpha t x (segIdx t.xPos x)) =
      colEval t (segIdx t.xPos x) (nth t.yPos (segIdx t.xPos x)) * (1 - xToAlpha t x (segIdx t.xPos x)) +
      colEval t (segIdx t.xPos x + 1) (nth t.yPos (segIdx t.xPos x + 1)) * xToAlpha t x (segIdx t.xPos x) :=
  eval_on_guide t x hg

/-- The construction as repaired: the first sample of a column becomes its guide point under
LeftExtreme (PVTO pressures are handed over in ascending order, so this is the saturated one). -/
theorem guide_set_by_first_sample (t : Table K) (i : Nat) (y v : K)
    (he : (col t.colY i).isEmpty = true) (hg : t.guide = .leftExtreme ∨ t.guide = .rightExtreme) :
    ∃ t', appendSamplePoint true t i y v = some t' ∧ t'.yPos = setAt t.yPos i y ∧
      t'.colY = setAt t.colY i [y] ∧ t'.colV = setAt t.colV i (col t.colV i ++ [v]) ∧ t'.guide = t.guide ∧ t'.xPos = t.xPos :=
  appendSamplePoint_first_sets_guide t i y v he hg

/-- **undersat_meets_sat** (2-D table level, full strength in `p`): under the LeftExtreme
guide with strictly increasing keys `xPos` (Rs) and guide points `yPos` (the saturated
pressures), for *every* `p` — nodes, between nodes, extrapolated ends — the 2-D function on the
saturated curve `(Rs_sat(p), p)` equals the saturated 1-D table of the columns' guide-point
values `sv`. -/
theorem undersat_meets_sat (t : Table K) (hg : t.guide = .leftExtreme)
    (hx : StrictInc t.xPos) (hy : StrictInc t.yPos) (hn : 2 ≤ t.xPos.length)
    (hl : t.yPos.length = t.xPos.length) (sv : List K)
    (hsv : ∀ k, k < t.xPos.length → colEval t k (nth t.yPos k) = nth sv k) (p : K) :
    Tab2D.eval t (evalX t.yPos t.xPos p) p = evalX t.yPos sv p :=
  eval_meets_saturated t hg hx hy hn hl sv hsv p

/-- The same in the words of the live-oil model: if the saturated tables of `L` are laid out
as `initEnd` lays them out (abscissae = the guide points of the `1/B` table, Rs table = its
keys, saturated `1/B` = the columns' values at their guide points) then
`1/B(p, Rs_sat(p)) = 1/B_sat(p)` for every `p`.  (That `liveOil` produces this layout is
compared bit for bit on the dumped tables; `filltable_layout` proves the column part.) -/
theorem undersat_meets_sat_liveoil (L : Live K) (hg : L.invB.guide = .leftExtreme)
    (hx : StrictInc L.invB.xPos) (hy : StrictInc L.invB.yPos) (hn : 2 ≤ L.invB.xPos.length)
    (hl : L.invB.yPos.length = L.invB.xPos.length)
    (h1 : L.rX = L.invB.yPos) (h2 : L.rY = L.invB.xPos) (h3 : L.satX = L.invB.yPos)
    (hsv : ∀ k, k < L.invB.xPos.length → colEval L.invB k (nth L.invB.yPos k) = nth L.invSatB k) (p : K) :
    L.invBAt (L.rsAt p) p = L.satInvBAt p := by
  unfold Live.invBAt Live.rsAt Live.satInvBAt
  rw [h1, h2, h3]
  exact eval_meets_saturated L.invB hg hx hy hn hl L.invSatB hsv p

/-- **undersat_meets_sat for the live-oil model itself** (`initFromState` + `initEnd` with the
repaired `appendSamplePoint`): from `liveOil true … recs = some L` alone — records after the
extension with strictly increasing Rs keys and saturated pressures, every branch ≥ 2 rows
strictly increasing in pressure — for *every* pressure `p` (saturated nodes, between them,
beyond the table) `1/B(p, Rs_sat(p)) = 1/B_sat(p)`.  The index bookkeeping (guide points =
first sample of every record through `appendAll`/`fillTable`, the `List.range`-indexed
saturated lists, keys and first rows kept by the extension) is proved, not assumed. -/
theorem undersat_meets_sat_liveoil_model (g : Bool) (c : Consts K) (recs ext : List (Rec K)) (L : Live K)
    (h : liveOil true g c recs = some L) (he : extendAll c recs = some ext)
    (hk : StrictInc (ext.map fun r => r.key)) (hsat : StrictInc (ext.map firstY)) (hn : 2 ≤ ext.length)
    (hrows : ∀ r ∈ ext, StrictInc (r.rows.map fun row => row.1) ∧ 2 ≤ r.rows.length) (p : K) :
    L.invBAt (L.rsAt p) p = L.satInvBAt p :=
  liveOil_undersat_meets_sat g c recs ext L h he hk hsat hn hrows p

/-- The code's shape is the repaired one (regenerated from the header on every run). -/
theorem guide_rule_is_the_repaired_one : Gen.Tab2D.firstAppendSetsLeftGuide = true := by decide

/-! ## PVT classes -/

/-- PVDO: at every table node `B = 1/(1/B)` and `mu = (1/B)/((1/B)/mu)` are the tabulated
numbers. -/
theorem pvt_node_honour_pvdo {p B mu : List K} (hs : StrictInc p) (hn : 2 ≤ p.length)
    (hB : B.length = p.length) (hmu : mu.length = p.length)
    (k : Nat) (hk : k < p.length) (hBk : nth B k ≠ 0) (hmk : nth mu k ≠ 0) :
    1 / (deadOil p B mu).invBAt (nth p k) = nth B k ∧ (deadOil p B mu).muAt (nth p k) = nth mu k :=
  deadOil_node hs hn hB hmu k hk hBk hmk

/-- PVDG likewise (`1/(B mu)` is tabulated as `(1/B)*(1/mu)`). -/
theorem pvt_node_honour_pvdg {p B mu : List K} (hs : StrictInc p) (hn : 2 ≤ p.length)
    (hB : B.length = p.length) (hmu : mu.length = p.length)
    (k : Nat) (hk : k < p.length) (hBk : nth B k ≠ 0) (hmk : nth mu k ≠ 0) :
    1 / (dryGas p B mu).invBAt (nth p k) = nth B k ∧ (dryGas p B mu).muAt (nth p k) = nth mu k :=
  dryGas_node hs hn hB hmu k hk hBk hmk

/-- Between nodes the interpolated quantity `1/B` is bracketed by its node values. -/
theorem pvt_invB_between {p B mu : List K} (hs : StrictInc p) (hn : 2 ≤ p.length)
    (x : K) (hlo : nth p 0 ≤ x) (hhi : x ≤ nth p (p.length - 1)) :
    min (nth (deadOil p B mu).invB (segIdx p x)) (nth (deadOil p B mu).invB (segIdx p x + 1))
      ≤ (deadOil p B mu).invBAt x ∧
    (deadOil p B mu).invBAt x ≤
      max (nth (deadOil p B mu).invB (segIdx p x)) (nth (deadOil p B mu).invB (segIdx p x + 1)) :=
  dead_invB_between hs hn x hlo hhi

/-- Between nodes the viscosity — a quotient of two linear interpolants — is a weighted
harmonic mean of the two node viscosities and therefore bracketed by them. -/
theorem pvt_mu_between (b0 b1 m0 m1 t : K) (hb0 : 0 < b0) (hb1 : 0 < b1) (hm0 : 0 < m0) (hm1 : 0 < m1)
    (ht0 : 0 ≤ t) (ht1 : t ≤ 1) :
    min m0 m1 ≤ (b0 * (1 - t) + b1 * t) / (b0 / m0 * (1 - t) + b1 / m1 * t) ∧
    (b0 * (1 - t) + b1 * t) / (b0 / m0 * (1 - t) + b1 / m1 * t) ≤ max m0 m1 :=
  mu_between b0 b1 m0 m1 t hb0 hb1 hm0 hm1 ht0 ht1

/-- PVCDO / PVTW: at the reference pressure `B = Bref` and `mu = mu_ref`. -/
theorem pvt_node_honour_constcomp (c : Consts K) (t : ConstComp K) (hb : t.bRef ≠ 0) :
    1 / t.invBAt c t.pRef = t.bRef ∧ t.muAt c t.pRef = t.mu :=
  constComp_ref c t hb

/-- Newton on a line converges in one step: within one linear segment `saturationPressure`
inverts the saturated relation exactly.  Partial: says nothing about starts in another segment (with the former
equidistant initial guess the iteration could cycle there — design.d/C14.md, finding 2);
`psat_inverts` below is the full statement for the repaired initial guess. -/
theorem psat_inverts_partial (c : Consts K) (xs ys : List K) (p q r : K) (prob : Bool) (k : Nat)
    (heps : 0 < c.eps) (htiny : 0 < c.tiny) (hq0 : 0 < q)
    (hseg : segIdx xs p = segIdx xs q)
    (hslope : ¬ Pvt.abs (derivX xs ys q) < c.tiny)
    (hr : evalX xs ys q = r) :
    newton c xs ys r (k + 2) p prob = some q :=
  Pvt.psat_inverts_partial c xs ys p q r prob k heps htiny hq0 hseg hslope hr

/-- The table of nodes with its columns swapped is the exact inverse of a strictly increasing
piecewise-linear relation, for every argument (this is the initial guess of
`saturationPressure` since the repair of `updateSaturationPressure_`). -/
theorem swapped_table_is_inverse {xs ys : List K} (hs : StrictInc xs) (hy : StrictIncY ys)
    (hn : 2 ≤ xs.length) (hl : ys.length = xs.length) (q : K) :
    evalX ys xs (evalX xs ys q) = q :=
  evalX_swap_inverse hs hy hn hl q

/-- **psat_inverts** — full strength for the code as repaired: on every strictly increasing
saturated table (any length ≥ 2, any slopes) `saturationPressure(Rs(q))` returns exactly `q`
for every `q > 0` lying on a segment whose slope is not "zero": the initial guess is already
the solution and the Newton loop stops in its first iteration. -/
theorem psat_inverts (c : Consts K) {xs ys : List K} (hs : StrictInc xs) (hy : StrictIncY ys)
    (hn : 2 ≤ xs.length) (hl : ys.length = xs.length) (q : K) (k : Nat)
    (heps : 0 < c.eps) (hq0 : 0 < q) (hslope : ¬ Pvt.abs (derivX xs ys q) < c.tiny) :
    newton c xs ys (evalX xs ys q) (k + 1) (evalX ys xs (evalX xs ys q)) false = some q :=
  Pvt.psat_inverts c hs hy hn hl q k heps hq0 hslope

/-- Building that initial-guess table: for strictly ascending Rs the pruning of adjacent
duplicates and the sort by Rs leave the node list as it is. -/
theorem psat_guess_table_is_node_list (l : List (K × K)) (h : AscFst l) :
    dedupAdj l = l ∧ sortPairs l = l :=
  ⟨dedupAdj_of_asc l h, sortPairs_of_asc l h⟩

/-! ## The derivative as a limit (over ℝ) -/

/-- **evalDerivative is the derivative.**  Over ℝ, for strictly increasing sample positions of
any length ≥ 2 and every `x` strictly inside a table segment `i`, the interpolant `z ↦ eval(z)`
is differentiable at `x` (`HasDerivAt`), its derivative is the number `evalDerivative(x)`
returns, and that is the chord slope of segment `i`. -/
theorem eval_hasDerivAt_slope {xs : List ℝ} (ys : List ℝ) (hs : StrictInc xs) (hn : 2 ≤ xs.length)
    (i : Nat) (hi : i + 1 < xs.length) (x : ℝ) (h1 : nth xs i < x) (h2 : x < nth xs (i + 1)) :
    HasDerivAt (fun z => evalX xs ys z) (derivX xs ys x) x ∧
    derivX xs ys x = (nth ys (i + 1) - nth ys i) / (nth xs (i + 1) - nth xs i) :=
  Tab1D.evalX_hasDerivAt ys hs hn i hi x h1 h2

/-- The same on the two extrapolated rays (first and last node included): left of the second
sample the derivative is the slope of the first segment, right of the last-but-one sample that
of the last segment. -/
theorem eval_hasDerivAt_extrapolated {xs : List ℝ} (ys : List ℝ) (hs : StrictInc xs) (hn : 2 ≤ xs.length) (x : ℝ) :
    (x < nth xs 1 → HasDerivAt (fun z => evalX xs ys z) (derivX xs ys x) x ∧ derivX xs ys x = derivSeg xs ys 0) ∧
    (nth xs (xs.length - 2) < x → HasDerivAt (fun z => evalX xs ys z) (derivX xs ys x) x ∧
      derivX xs ys x = derivSeg xs ys (xs.length - 2)) :=
  ⟨Tab1D.evalX_hasDerivAt_left xs ys x, Tab1D.evalX_hasDerivAt_right ys hs hn x⟩

/-- **Continuity at the nodes** (topological, over ℝ): at every interior node the interpolant
is continuous — and it is continuous on the whole line. -/
theorem eval_continuous_real {xs : List ℝ} (ys : List ℝ) (hs : StrictInc xs) (hn : 2 ≤ xs.length) :
    (∀ k, 0 < k → k + 1 < xs.length → ContinuousAt (fun z => evalX xs ys z) (nth xs k)) ∧
    Continuous (fun z => evalX xs ys z) :=
  ⟨fun k h0 hk => Tab1D.evalX_continuousAt_node ys hs hn k h0 hk, Tab1D.evalX_continuous ys hs hn⟩

/-- On the closed segment `j` (first/last segment: with its ray) the function is segment `j`'s
line, whichever adjacent segment the index search returns at a node. -/
theorem eval_on_closed_segment {xs : List K} (ys : List K) (hs : StrictInc xs) (hn : 2 ≤ xs.length)
    (x : K) (j : Nat) (hj : j + 1 < xs.length)
    (h1 : 0 < j → nth xs j ≤ x) (h2 : j + 2 < xs.length → x ≤ nth xs (j + 1)) :
    evalX xs ys x = evalSeg xs ys j x :=
  Tab1D.evalX_eq_evalSeg_of_mem ys hs hn x j hj h1 h2

/-! ## Master-table extension of PVTO / PVTG branches without under-saturated rows

`extendRows c last m` are the rows `extendPvtoTable_` / `extendPvtgTable_` append to a record
that has the saturated row `last` only, from the master rows `m`; `rowAt b j` is row `j`
`(y, B, mu)` of a branch. -/

/-- **Closed form**: row `j` of the extended branch is the master's row `j` shifted in `y` to
start at the given row and scaled in `B` and in `mu`:
`(last.y + (m[j].y - m[0].y), last.B * m[j].B / m[0].B, last.mu * m[j].mu / m[0].mu)` — for
master branches of any length with positive `B`, `mu`. -/
theorem extended_branch_closed_form (c : Consts K) (hc : c.two = 2) (m : List (K × K × K))
    (last : K × K × K) (hp : AllPos m) (j : Nat) (hj : j < m.length) :
    rowAt (last :: extendRows c last m) j =
      (last.1 + ((rowAt m j).1 - (rowAt m 0).1),
       last.2.1 * (rowAt m j).2.1 / (rowAt m 0).2.1,
       last.2.2 * (rowAt m j).2.2 / (rowAt m 0).2.2) :=
  Pvt.extended_branch_closed_form c hc m last hp j hj

/-- **The extended values reproduce the master branch's compressibility and viscosibility**:
between rows `j`, `j+1` the relative change `(b' - b)/((b' + b)/2)` of `B` and of `mu` and the
step in `y` are those of the master branch between its rows `j`, `j+1`. -/
theorem extended_branch_same_compressibility (c : Consts K) (hc : c.two = 2)
    (m : List (K × K × K)) (last : K × K × K) (hp : AllPos m) (hl : 0 < last.2.1 ∧ 0 < last.2.2)
    (j : Nat) (hj : j + 1 < m.length) :
    let b := last :: extendRows c last m
    relChange (rowAt b j).2.1 (rowAt b (j + 1)).2.1 = relChange (rowAt m j).2.1 (rowAt m (j + 1)).2.1 ∧
    relChange (rowAt b j).2.2 (rowAt b (j + 1)).2.2 = relChange (rowAt m j).2.2 (rowAt m (j + 1)).2.2 ∧
    (rowAt b (j + 1)).1 - (rowAt b j).1 = (rowAt m (j + 1)).1 - (rowAt m j).1 :=
  Pvt.extended_branch_same_compressibility c hc m last hp hl j hj

/-- The extended branch has as many rows as the master and its `B`, `mu` stay positive. -/
theorem extended_branch_positive (c : Consts K) (hc : c.two = 2)
    (m : List (K × K × K)) (last : K × K × K) (hp : AllPos m) (hl : 0 < last.2.1 ∧ 0 < last.2.2)
    (j : Nat) (hj : j < m.length) :
    (last :: extendRows c last m).length = 1 + (m.length - 1) ∧
    0 < (rowAt (last :: extendRows c last m) j).2.1 ∧ 0 < (rowAt (last :: extendRows c last m) j).2.2 :=
  ⟨by rw [List.length_cons, extendRows_length]; omega, Pvt.extended_branch_positive c hc m last hp hl j hj⟩

/-- The master branch is the *first* later record that has under-saturated rows. -/
theorem extension_master_is_first_complete (rest : List (Rec K)) (m : Rec K) (h : findMaster rest = some m) :
    ∃ k, k < rest.length ∧ rest[k]? = some m ∧ 1 < m.rows.length ∧
      ∀ k', k' < k → ∀ r, rest[k']? = some r → r.rows.length ≤ 1 :=
  findMaster_spec rest m h

/-- **Node values are kept**: the extension returns one record per deck record with the same
key; records with under-saturated rows are unchanged; a record with the saturated row only
becomes that row followed by `extendRows` from the first later complete record. -/
theorem extension_keeps_deck_rows (c : Consts K) (recs ext : List (Rec K)) (h : extendAll c recs = some ext) :
    ext.length = recs.length ∧
    ∀ i r, recs[i]? = some r → ∃ e, ext[i]? = some e ∧ e.key = r.key ∧
      ((1 < r.rows.length ∧ e = r) ∨
       (∃ row m, r.rows = [row] ∧ findMaster (recs.drop (i + 1)) = some m ∧
          e.rows = row :: extendRows c row m.rows)) :=
  extendAll_spec c recs ext h

/-- A table whose last record has no under-saturated rows is refused. -/
theorem extension_last_must_be_complete (c : Consts K) (recs : List (Rec K)) (r : Rec K)
    (h : r.rows.length ≤ 1) : extendAll c (recs ++ [r]) = none :=
  extendAll_last_must_be_complete c recs r h

/-- **`fillTable` bookkeeping** (`appendXPos` + `appendSamplePoint` per row, ascending `y`): the
records become the columns, in order, rows in order — any number of records and rows. -/
theorem filltable_layout (fix : Bool) (c : Consts K) (val : K × K × K → K) (recs : List (Rec K))
    (t : Table K) (hl : t.colV.length = t.colY.length)
    (hs : ∀ r ∈ recs, StrictInc (r.rows.map (fun row => row.1))) :
    ∃ t', fillTable fix c val t t.colY.length recs = some t' ∧ t'.guide = t.guide ∧
      t'.xPos = t.xPos ++ recs.map (fun r => r.key) ∧
      t'.colY = t.colY ++ recs.map (fun r => r.rows.map (fun row => row.1)) ∧
      t'.colV = t.colV ++ recs.map (fun r => r.rows.map val) :=
  fillTable_spec fix c val recs t hl hs

/-- **Node honouring of the live-oil model, extended branches included**: at every row of
every record after the extension (deck rows and added rows) `1/B(p, Rs)` and the `mu` table
return the row's `1/B` and `mu`. -/
theorem liveoil_node_honour_extended (fix g : Bool) (c : Consts K) (recs ext : List (Rec K)) (L : Live K)
    (h : liveOil fix g c recs = some L) (he : extendAll c recs = some ext)
    (hk : StrictInc (ext.map fun r => r.key)) (hn : 2 ≤ ext.length)
    (hrows : ∀ r ∈ ext, StrictInc (r.rows.map fun row => row.1) ∧ 2 ≤ r.rows.length)
    (i : Nat) (r : Rec K) (hi : ext[i]? = some r) (j : Nat) (row : K × K × K) (hj : r.rows[j]? = some row) :
    L.invBAt r.key row.1 = 1 / row.2.1 ∧ Tab2D.eval L.muT r.key row.1 = row.2.2 :=
  liveOil_node_honour fix g c recs ext L h he hk hn hrows i r hi j row hj

/-- `fillTable` for rows handed over in *descending* `y` (PVTG: Rv from the saturated value
down; every sample after the first takes the prepend branch): each column is the record's rows
reversed. -/
theorem filltable_layout_descending (fix : Bool) (c : Consts K) (val : K × K × K → K) (recs : List (Rec K))
    (t : Table K) (hl : t.colV.length = t.colY.length)
    (hs : ∀ r ∈ recs, StrictInc (r.rows.map (fun row => row.1)).reverse) :
    ∃ t', fillTable fix c val t t.colY.length recs = some t' ∧ t'.guide = t.guide ∧
      t'.xPos = t.xPos ++ recs.map (fun r => r.key) ∧
      t'.colY = t.colY ++ recs.map (fun r => (r.rows.map (fun row => row.1)).reverse) ∧
      t'.colV = t.colV ++ recs.map (fun r => (r.rows.map val).reverse) :=
  fillTable_spec_desc fix c val recs t hl hs

/-- **Node honouring of the wet-gas model, extended branches included** (keys = gas pressure
ascending, rows = Rv descending). -/
theorem wetgas_node_honour_extended (fix g : Bool) (c : Consts K) (recs ext : List (Rec K)) (L : Live K)
    (h : wetGas fix g c recs = some L) (he : extendAll c recs = some ext)
    (hk : StrictInc (ext.map fun r => r.key)) (hn : 2 ≤ ext.length)
    (hrows : ∀ r ∈ ext, StrictInc (r.rows.map fun row => row.1).reverse ∧ 2 ≤ r.rows.length)
    (i : Nat) (r : Rec K) (hi : ext[i]? = some r) (j : Nat) (row : K × K × K) (hj : r.rows[j]? = some row) :
    L.invBAt r.key row.1 = 1 / row.2.1 ∧ Tab2D.eval L.muT r.key row.1 = row.2.2 :=
  wetGas_node_honour fix g c recs ext L h he hk hn hrows i r hi j row hj

/-! ## Several PVT regions: which table is in effect (`PvtxTable`, simple table containers)

`β` is whatever a deck record carries.  A keyword is described by the table of region 1 (`t`)
and the tables of the further regions (`us`; `[]` = the region is defaulted with a lone `/`);
`encode t us` is its flat record list with terminator records, as `PvtxTable::init` sees it. -/

/-- `recordRanges` recovers exactly the regions' tables from the keyword's records (any number
of regions, any table lengths, any pattern of defaulted regions). -/
theorem region_ranges_recover_tables {β : Type} (t : List β) (us : List (List β)) :
    (recordRanges (encode t us)).map (slice (encode t us)) = t :: us :=
  recordRanges_encode t us

/-- The backward search of `PvtxTable::init`: the result `s` is at or before `k`, everything
strictly between `s` and `k` is defaulted, and `s` itself is not defaulted when region 1 is
not. -/
theorem region_source_is_last_nonempty (e : Nat → Bool) (k : Nat) (h0 : e 0 = false) :
    searchBack e k ≤ k ∧ e (searchBack e k) = false ∧
    ∀ j, searchBack e k < j → j ≤ k → e j = true :=
  ⟨searchBack_le e k, searchBack_nonempty e k h0, fun j => searchBack_skipped e k j⟩

/-- … and it is the only such index: *the* last non-defaulted table at or before region `k`
(in particular not the first non-defaulted one of the keyword). -/
theorem region_source_unique (e : Nat → Bool) (k s : Nat) (hs : s ≤ k) (hne : e s = false)
    (hskip : ∀ j, s < j → j ≤ k → e j = true) : searchBack e k = s :=
  searchBack_unique e k s hs hne hskip

/-- `PvtxTable::init(keyword, k)` for every region `k` of every keyword whose first region is
not defaulted: the records of the table found by that search. -/
theorem region_init_spec {β : Type} (t : List β) (us : List (List β)) (k : Nat)
    (hk : k < us.length + 1) (ht : t ≠ []) :
    PvtRegion.init (encode t us) k =
      .ok ((t :: us).getD (searchBack (fun j => ((t :: us).getD j []).isEmpty) k) []) :=
  init_encode t us k hk ht

/-- Specification of the whole resolution: region `k` receives table `s ≤ k`, that table is
not defaulted, and every region strictly between `s` and `k` is defaulted. -/
theorem region_table_is_last_given {β : Type} (ts rs : List (List β)) (h : resolve ts = some rs)
    (k : Nat) (hk : k < ts.length) :
    ∃ s, s ≤ k ∧ rs.getD k [] = ts.getD s [] ∧ ts.getD s [] ≠ [] ∧
      ∀ j, s < j → j ≤ k → ts.getD j [] = [] :=
  resolve_spec ts rs h k hk

/-- `TableManager::initFullTables` over a keyword = `resolve` over its regions' tables. -/
theorem region_keyword_resolution {β : Type} (t : List β) (us : List (List β)) (ht : t ≠ []) :
    (resolve (t :: us)).map Except.ok = some (initAll (encode t us) : Except PvtRegion.Err _) :=
  initAll_encode t us ht

/-- Region 1 must not be defaulted: `init` refuses, and so does the whole keyword. -/
theorem region_first_must_be_given {β : Type} (us : List (List β)) :
    PvtRegion.init (encode ([] : List β) us) 0 = .error .cannotDefaultFirst ∧
    initAll (encode ([] : List β) us) = .error .cannotDefaultFirst ∧
    resolve (([] : List β) :: us) = none :=
  ⟨init_encode_first_defaulted us, initAll_encode_first_defaulted us, resolve_first_defaulted us⟩

/-- Without defaulted regions nothing changes; after the resolution no region is defaulted;
resolving twice is resolving once. -/
theorem region_resolution_idempotent {β : Type} (ts rs : List (List β)) (h : resolve ts = some rs) :
    (∀ t ∈ rs, t ≠ []) ∧ resolve rs = some rs ∧ rs.length = ts.length :=
  ⟨resolve_all_nonempty ts rs h, resolve_idempotent ts rs h, resolve_length ts rs h⟩

theorem region_no_defaults_identity {β : Type} (ts : List (List β)) (h : ∀ t ∈ ts, t ≠ []) :
    resolve ts = some ts :=
  resolve_no_defaults ts h

/-- PVDO/PVDG (`initSimpleTableContainer`, the `lastComplete` bookkeeping) and PVTO/PVTG
(`PvtxTable::init`, the backward search) implement the same rule. -/
theorem region_simple_tables_same_rule {β : Type} (ts : List (List β)) :
    simpleResolve ts = resolve ts :=
  simpleResolve_eq_resolve ts

/-- The keyword routing regenerated from `TableManager.cpp`: PVTO and PVTG are built by
`initFullTables` (`PvtxTable::init`), PVDO and PVDG by `initSimpleTableContainer`. -/
theorem region_keyword_routing :
    "PVTO" ∈ Gen.PvtRegion.fullTableKeywords ∧ "PVTG" ∈ Gen.PvtRegion.fullTableKeywords ∧
    "PVDO" ∈ Gen.PvtRegion.simpleContainerKeywords ∧ "PVDG" ∈ Gen.PvtRegion.simpleContainerKeywords := by
  decide

/-! ## Non-vacuity -/

example : StrictInc ([1, 2, 4] : List ℚ) := strictInc_three (by norm_num) (by norm_num)
example : MonoInc ([10, 20, 20] : List ℚ) := monoInc_three (by norm_num) (by norm_num)
example : findSegmentIndex ([1, 2, 4, 8, 16] : List ℚ) 5 false = .ok 2 := by
  simp [findSegmentIndex, nth, bisect]; norm_num
example : evalX ([1, 2, 4] : List ℚ) [10, 20, 15] 3 = 35 / 2 := by
  simp [evalX, segIdx, evalSeg, nth, bisect]; norm_num
example : (deadOil ([100, 200, 400] : List ℚ) [12 / 10, 11 / 10, 1] [1, 2, 3]).muAt 200 = 2 := by
  have h := pvt_node_honour_pvdo (p := ([100, 200, 400] : List ℚ)) (B := [12 / 10, 11 / 10, 1]) (mu := [1, 2, 3])
    (strictInc_three (by norm_num) (by norm_num)) (by simp) rfl rfl 1 (by simp) (by simp [nth]) (by simp [nth])
  simpa [nth] using h.2
/-- a steep segment between two flat ones: the table of finding 2 (bar, sm3/sm3) -/
example : StrictInc ([100, 200, 210, 400] : List ℚ) ∧ StrictIncY ([10, 20, 60, 79] : List ℚ) := by
  constructor <;> intro i j hij hj <;>
    (have : j = 1 ∨ j = 2 ∨ j = 3 := by simp at hj; omega) <;>
    rcases this with rfl | rfl | rfl <;>
    (have : i = 0 ∨ i = 1 ∨ i = 2 := by omega) <;>
    rcases this with rfl | rfl | rfl <;> first | omega | (simp [nth]; try norm_num)

/-- three regions `T1, T2, /`: region 3 gets T2 (the last given), not T1 (the first given) -/
example : resolve [[1, 2], [3], ([] : List Nat)] = some [[1, 2], [3], [3]] := by decide
example : resolve [[1, 2], ([] : List Nat), [3], [], []] = some [[1, 2], [1, 2], [3], [3], [3]] := by decide
example : PvtRegion.init (encode [1, 2] [[3], ([] : List Nat)]) 2 = .ok [3] := by decide
example : encode [1, 2] [[3], ([] : List Nat)] = [some 1, some 2, none, some 3, none] := by decide
example : recordRanges [some 1, some 2, none, some 3, none] = [(0, 2), (3, 4), (5, 5)] := by decide
example : PvtRegion.init ([none, some 1] : List (Option Nat)) 0 = .error .cannotDefaultFirst := by decide
example : simpleResolve [[1, 2], ([] : List Nat), [3], []] = some [[1, 2], [1, 2], [3], [3]] := by decide
/-- a 7-row branch: segment 2 of the column is the line through rows 2 and 3 -/
example : evalX ([1, 2, 3, 4, 5, 6, 7] : List ℚ) [10, 20, 40, 80, 160, 320, 640] (7 / 2) = 60 := by
  simp [evalX, segIdx, evalSeg, nth, bisect]; norm_num

/-- the derivative inside segment 1 of a three-node table over ℝ -/
example : HasDerivAt (fun z => evalX ([1, 2, 4] : List ℝ) [10, 20, 15] z) ((15 - 20) / (4 - 2)) 3 := by
  have h := eval_hasDerivAt_slope (xs := ([1, 2, 4] : List ℝ)) [10, 20, 15]
    (strictInc_three (by norm_num) (by norm_num)) (by simp) 1 (by simp) 3
    (by simp [nth]; norm_num) (by simp [nth]; norm_num)
  have h2 := h.2
  simp [nth] at h2
  have h1 := h.1
  rw [h2] at h1
  exact h1
def qc : Consts ℚ := { low := -1, tiny := 1 / 1000, eps := 1 / 1000, two := 2, ofNat := fun n => n }
/-- one-row record (50, B=1, mu=3) extended from the master rows (100, 12/10, 1), (200, 11/10, 2) -/
example : extendRows qc ((50, 1, 3) : ℚ × ℚ × ℚ) [(100, 12 / 10, 1), (200, 11 / 10, 2)] = [(150, 11 / 12, 6)] := by
  simp [extendRows, qc]; norm_num
example : AllPos ([(100, 12 / 10, 1), (200, 11 / 10, 2)] : List (ℚ × ℚ × ℚ)) := by
  intro row h; simp at h; rcases h with rfl | rfl <;> norm_num
example : findMaster ([⟨1, [(1, 1, 1)]⟩, ⟨2, [(1, 1, 1), (2, 1, 1)]⟩, ⟨3, [(1, 1, 1), (2, 1, 1), (3, 1, 1)]⟩] : List (Rec ℚ))
    = some ⟨2, [(1, 1, 1), (2, 1, 1)]⟩ := by simp [findMaster]
example : extendAll qc ([⟨1, [(1, 1, 1)]⟩] : List (Rec ℚ)) = none := by simp [extendAll, findMaster]
example : relChange (2 : ℚ) 6 = 1 := by norm_num [relChange]
/-- a two-column LeftExtreme table whose guide points are the columns' first samples: the
hypotheses of `undersat_meets_sat` hold, and at p = 150 (between the nodes) both sides are 2 -/
def qt : Table ℚ := { xPos := [0, 10], yPos := [100, 200], colY := [[100, 300], [200, 400]],
                      colV := [[1, 2], [3, 4]], guide := .leftExtreme }
example : ∀ k, k < qt.xPos.length → colEval qt k (nth qt.yPos k) = nth ([1, 3] : List ℚ) k := by
  intro k hk
  have : k = 0 ∨ k = 1 := by simp [qt] at hk; omega
  rcases this with rfl | rfl <;>
    simp [qt, colEval, colBlend, yToBeta, segIdx, nth, col]
example : Tab2D.eval qt (evalX qt.yPos qt.xPos 150) 150 = 2 := by
  simp [qt, Tab2D.eval, evalX, evalSeg, shift, xToAlpha, colEval, colBlend, yToBeta, segIdx, nth, col]; norm_num
/-- a PVTG-like branch: Rv descending 3, 2, 0 — reversed it is strictly increasing -/
example : StrictInc ((([(3, 1, 1), (2, 1, 1), (0, 1, 1)] : List (ℚ × ℚ × ℚ)).map fun row => row.1).reverse) := by
  simpa using strictInc_three (a := (0 : ℚ)) (b := 2) (c := 3) (by norm_num) (by norm_num)
/-- two PVTO-like records (Rs 0 and 10, saturated pressures 100 and 200): the hypotheses of
`undersat_meets_sat_liveoil_model` on keys, saturated pressures and rows are satisfiable -/
example : StrictInc (([⟨0, [(100, 1, 1), (300, 1, 1)]⟩, ⟨10, [(200, 1, 1), (400, 1, 1)]⟩] : List (Rec ℚ)).map firstY) := by
  simpa [firstY] using strictInc_two (a := (100 : ℚ)) (b := 200) (by norm_num)

end OpmVerif.Props.C14
