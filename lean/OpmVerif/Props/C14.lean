/-
  C14 — Black-oil PVT functions honour the input tables and are self-consistent.

  Everything is stated over an arbitrary linearly ordered field `K` (ℚ, ℝ, …), for tables of
  any length ≥ 2 with strictly increasing sample positions, any sample values, any argument.
  `nth xs i` is `xValues_[i]`.  The same definitions, run at IEEE double, are compared bit
  for bit with the C++ by `harness/pvt.cpp`.
-/
import Mathlib.Tactic.NormNum
import Mathlib.Algebra.Order.Field.Rat
import OpmVerif.Proofs.Pvt
import OpmVerif.Proofs.PvtRegion
import OpmVerif.Gen.PvtRegion

namespace OpmVerif.Props.C14
open OpmVerif.Tab1D OpmVerif.Tab2D OpmVerif.Pvt OpmVerif.PvtRegion

variable {K : Type} [Field K] [LinearOrder K] [IsStrictOrderedRing K]

/-! ## Tabulated1DFunction -/

/-- For strictly increasing `xs` of any length ≥ 2 and `xs[0] ≤ x ≤ xs.last`,
`findSegmentIndex` (end shortcuts + bisection) succeeds, whatever the `extrapolate` flag, and
the returned index `i` satisfies `xs[i] ≤ x ≤ xs[i+1]`. -/
theorem bisect_correct {xs : List K} (hs : StrictInc xs) (hn : 2 ≤ xs.length) (x : K)
    (hlo : nth xs 0 ≤ x) (hhi : x ≤ nth xs (xs.length - 1)) (ex : Bool) :
    ∃ i, findSegmentIndex xs x ex = .ok i ∧ i + 1 < xs.length ∧ nth xs i ≤ x ∧ x ≤ nth xs (i + 1) :=
  Tab1D.bisect_correct hs hn x hlo hhi ex

/-- With extrapolation allowed no run-time check of `findSegmentIndex` can fire for any
argument: the "Problematic interpolation/extrapolation segment" throw is unreachable. -/
theorem problematic_segment_unreachable {xs : List K} (hs : StrictInc xs) (hn : 2 ≤ xs.length) (x : K) :
    findSegmentIndex xs x true = .ok (segIdx xs x) :=
  findSegmentIndex_extrap hs hn x

/-- The bisection loop alone: from `xs[lo] ≤ x < xs[hi]`, `lo < hi`, with `hi - lo` units of
fuel it ends on an adjacent bracketing pair (the loop invariant; `fuel = length` suffices). -/
theorem bisect_invariant (xs : List K) (x : K) (fuel lo hi : Nat) (h : lo < hi) (hf : hi - lo ≤ fuel)
    (h1 : nth xs lo ≤ x) (h2 : x < nth xs hi) :
    lo ≤ bisect xs x fuel lo hi ∧ bisect xs x fuel lo hi + 1 ≤ hi ∧
    nth xs (bisect xs x fuel lo hi) ≤ x ∧ x < nth xs (bisect xs x fuel lo hi + 1) :=
  bisect_spec xs x fuel lo hi h hf h1 h2

/-- Outside the range and without extrapolation the call is refused. -/
theorem outside_range_refused (xs : List K) (x : K)
    (h : ¬ (nth xs 0 ≤ x ∧ x ≤ nth xs (xs.length - 1))) :
    findSegmentIndex xs x false = .error .outOfRange :=
  findSegmentIndex_outside xs x h

/-- The interpolant returns every tabulated value exactly at its node. -/
theorem eval_node {xs : List K} (ys : List K) (hs : StrictInc xs) (hn : 2 ≤ xs.length)
    (k : Nat) (hk : k < xs.length) : eval xs ys (nth xs k) true = .ok (nth ys k) := by
  rw [eval_extrap ys hs hn, evalX_node ys hs hn k hk]

/-- Continuity: at an interior node the segment to its left and the segment to its right give
the same value, the tabulated one. -/
theorem eval_continuous_at_nodes {xs : List K} (ys : List K) (hs : StrictInc xs) (i : Nat)
    (hi : i + 1 < xs.length) :
    evalSeg xs ys i (nth xs (i + 1)) = nth ys (i + 1) ∧
    evalSeg xs ys (i + 1) (nth xs (i + 1)) = nth ys (i + 1) :=
  evalSeg_continuous_at_node ys hs i hi

/-- In range the value lies between the two bracketing node values. -/
theorem eval_between {xs : List K} (ys : List K) (hs : StrictInc xs) (hn : 2 ≤ xs.length) (x : K)
    (hlo : nth xs 0 ≤ x) (hhi : x ≤ nth xs (xs.length - 1)) :
    min (nth ys (segIdx xs x)) (nth ys (segIdx xs x + 1)) ≤ evalX xs ys x ∧
    evalX xs ys x ≤ max (nth ys (segIdx xs x)) (nth ys (segIdx xs x + 1)) :=
  evalX_between ys hs hn x hlo hhi

/-- Monotone node values give a monotone function (extrapolated parts included). -/
theorem eval_monotone {xs ys : List K} (hs : StrictInc xs) (hn : 2 ≤ xs.length)
    (hl : ys.length = xs.length) (hm : MonoInc ys) {x x' : K} (h : x ≤ x') :
    evalX xs ys x ≤ evalX xs ys x' :=
  evalX_mono hs hn hl hm h

/-- Strictly increasing node values give a strictly increasing, hence injective, function:
the saturated Rs(p) relation has at most one saturation pressure for a given Rs. -/
theorem eval_strict_monotone {xs ys : List K} (hs : StrictInc xs) (hn : 2 ≤ xs.length)
    (hl : ys.length = xs.length) (hm : StrictIncY ys) {x x' : K} (h : x < x') :
    evalX xs ys x < evalX xs ys x' :=
  evalX_strictMono hs hn hl hm h

/-- The value returned by `evalDerivative` is the slope of `eval`: for two arguments strictly
inside the same table segment `i` the difference quotient equals it, and it is the chord
slope `(y[i+1]-y[i])/(x[i+1]-x[i])`. -/
theorem evalDerivative_is_slope {xs : List K} (ys : List K) (hs : StrictInc xs) (hn : 2 ≤ xs.length)
    (i : Nat) (hi : i + 1 < xs.length) (x x' : K)
    (h1 : nth xs i < x) (h2 : x < nth xs (i + 1)) (h1' : nth xs i < x') (h2' : x' < nth xs (i + 1)) :
    evalX xs ys x' - evalX xs ys x = derivX xs ys x * (x' - x) ∧
    derivX xs ys x = (nth ys (i + 1) - nth ys i) / (nth xs (i + 1) - nth xs i) :=
  derivX_is_slope_open ys hs hn i hi x x' h1 h2 h1' h2'

/-! ## UniformXTabulated2DFunction -/

/-- On a sample column the 2-D function is the 1-D interpolation along that column, for every
interpolation guide. -/
theorem tab2d_on_column (t : Table K) (hs : StrictInc t.xPos) (hn : 2 ≤ t.xPos.length)
    (k : Nat) (hk : k < t.xPos.length) (y : K) :
    Tab2D.eval t (nth t.xPos k) y = evalX (col t.colY k) (col t.colV k) y :=
  eval_on_column t hs hn k hk y

/-- Every sample point of the 2-D table is returned exactly. -/
theorem tab2d_node (t : Table K) (hs : StrictInc t.xPos) (hn : 2 ≤ t.xPos.length)
    (k : Nat) (hk : k < t.xPos.length) (hc : StrictInc (col t.colY k)) (hcn : 2 ≤ (col t.colY k).length)
    (j : Nat) (hj : j < (col t.colY k).length) :
    Tab2D.eval t (nth t.xPos k) (nth (col t.colY k) j) = nth (col t.colV k) j :=
  Tab2D.eval_node t hs hn k hk hc hcn j hj

/-- Along an under-saturated branch (a sample column with any number of rows), between two
adjacent rows the 2-D function is the straight line through exactly these two rows: segment
`j` of the branch is interpolated from rows `j`, `j+1`, never extrapolated from a neighbouring
segment (the `ySegmentIndex` bisection returns the right segment for every column length). -/
theorem tab2d_branch_segment (t : Table K) (hs : StrictInc t.xPos) (hn : 2 ≤ t.xPos.length)
    (k : Nat) (hk : k < t.xPos.length) (hc : StrictInc (col t.colY k)) (hcn : 2 ≤ (col t.colY k).length)
    (j : Nat) (hj : j + 1 < (col t.colY k).length) (y : K)
    (h1 : nth (col t.colY k) j ≤ y) (h2 : y ≤ nth (col t.colY k) (j + 1)) :
    Tab2D.eval t (nth t.xPos k) y = evalSeg (col t.colY k) (col t.colV k) j y :=
  eval_on_branch_segment t hs hn k hk hc hcn j hj y h1 h2

/-- On the guide curve the two columns are evaluated at their guide points: the 2-D value is
the linear blend of the columns' values there (this is what makes the under-saturated surface
meet the saturated curve between the nodes). -/
theorem tab2d_on_guide (t : Table K) (x : K)
    (hg : t.guide = .leftExtreme ∨
      (t.guide = .rightExtreme ∧
        0 < nth t.yPos (segIdx t.xPos x) * (1 - xToAlpha t x (segIdx t.xPos x)) +
            nth t.yPos (segIdx t.xPos x + 1) * xToAlpha t x (segIdx t.xPos x))) :
    Tab2D.eval t x (nth t.yPos (segIdx t.xPos x) * (1 - xToAlpha t x (segIdx t.xPos x)) +
              nth t.yPos (segIdx t.xPos x + 1) * xToAlpha t x (segIdx t.xPos x)) =
      colEval t (segIdx t.xPos x) (nth t.yPos (segIdx t.xPos x)) * (1 - xToAlpha t x (segIdx t.xPos x)) +
      colEval t (segIdx t.xPos x + 1) (nth t.yPos (segIdx t.xPos x + 1)) * xToAlpha t x (segIdx t.xPos x) :=
  eval_on_guide t x hg

/-- The construction as repaired: the first sample of a column becomes its guide point under
LeftExtreme (PVTO pressures are handed over in ascending order, so this is the saturated one). -/
theorem guide_set_by_first_sample (t : Table K) (i : Nat) (y v : K)
    (he : (col t.colY i).isEmpty = true) (hg : t.guide = .leftExtreme ∨ t.guide = .rightExtreme) :
    ∃ t', appendSamplePoint true t i y v = some t' ∧ t'.yPos = setAt t.yPos i y ∧
      t'.colY = setAt t.colY i [y] ∧ t'.colV = setAt t.colV i (col t.colV i ++ [v]) ∧ t'.guide = t.guide ∧ t'.xPos = t.xPos :=
  appendSamplePoint_first_sets_guide t i y v he hg

/-! ## PVT classes -/

/-- PVDO: at every table node `B = 1/(1/B)` and `mu = (1/B)/((1/B)/mu)` are the tabulated
numbers. -/
theorem pvt_node_honour_pvdo {p B mu : List K} (hs : StrictInc p) (hn : 2 ≤ p.length)
    (hB : B.length = p.length) (hmu : mu.length = p.length)
    (k : Nat) (hk : k < p.length) (hBk : nth B k ≠ 0) (hmk : nth mu k ≠ 0) :
    1 / (deadOil p B mu).invBAt (nth p k) = nth B k ∧ (deadOil p B mu).muAt (nth p k) = nth mu k :=
  deadOil_node hs hn hB hmu k hk hBk hmk

/-- PVDG likewise (`1/(B mu)` is tabulated as `(1/B)*(1/mu)`). -/
theorem pvt_node_honour_pvdg {p B mu : List K} (hs : StrictInc p) (hn : 2 ≤ p.length)
    (hB : B.length = p.length) (hmu : mu.length = p.length)
    (k : Nat) (hk : k < p.length) (hBk : nth B k ≠ 0) (hmk : nth mu k ≠ 0) :
    1 / (dryGas p B mu).invBAt (nth p k) = nth B k ∧ (dryGas p B mu).muAt (nth p k) = nth mu k :=
  dryGas_node hs hn hB hmu k hk hBk hmk

/-- Between nodes the interpolated quantity `1/B` is bracketed by its node values. -/
theorem pvt_invB_between {p B mu : List K} (hs : StrictInc p) (hn : 2 ≤ p.length)
    (x : K) (hlo : nth p 0 ≤ x) (hhi : x ≤ nth p (p.length - 1)) :
    min (nth (deadOil p B mu).invB (segIdx p x)) (nth (deadOil p B mu).invB (segIdx p x + 1))
      ≤ (deadOil p B mu).invBAt x ∧
    (deadOil p B mu).invBAt x ≤
      max (nth (deadOil p B mu).invB (segIdx p x)) (nth (deadOil p B mu).invB (segIdx p x + 1)) :=
  dead_invB_between hs hn x hlo hhi

/-- Between nodes the viscosity — a quotient of two linear interpolants — is a weighted
harmonic mean of the two node viscosities and therefore bracketed by them. -/
theorem pvt_mu_between (b0 b1 m0 m1 t : K) (hb0 : 0 < b0) (hb1 : 0 < b1) (hm0 : 0 < m0) (hm1 : 0 < m1)
    (ht0 : 0 ≤ t) (ht1 : t ≤ 1) :
    min m0 m1 ≤ (b0 * (1 - t) + b1 * t) / (b0 / m0 * (1 - t) + b1 / m1 * t) ∧
    (b0 * (1 - t) + b1 * t) / (b0 / m0 * (1 - t) + b1 / m1 * t) ≤ max m0 m1 :=
  mu_between b0 b1 m0 m1 t hb0 hb1 hm0 hm1 ht0 ht1

/-- PVCDO / PVTW: at the reference pressure `B = Bref` and `mu = mu_ref`. -/
theorem pvt_node_honour_constcomp (c : Consts K) (t : ConstComp K) (hb : t.bRef ≠ 0) :
    1 / t.invBAt c t.pRef = t.bRef ∧ t.muAt c t.pRef = t.mu :=
  constComp_ref c t hb

/-- Newton on a line converges in one step: within one linear segment `saturationPressure`
inverts the saturated relation exactly.  Partial: says nothing about starts in another segment (with the former
equidistant initial guess the iteration could cycle there — design.d/C14.md, finding 2);
`psat_inverts` below is the full statement for the repaired initial guess. -/
theorem psat_inverts_partial (c : Consts K) (xs ys : List K) (p q r : K) (prob : Bool) (k : Nat)
    (heps : 0 < c.eps) (htiny : 0 < c.tiny) (hq0 : 0 < q)
    (hseg : segIdx xs p = segIdx xs q)
    (hslope : ¬ Pvt.abs (derivX xs ys q) < c.tiny)
    (hr : evalX xs ys q = r) :
    newton c xs ys r (k + 2) p prob = some q :=
  Pvt.psat_inverts_partial c xs ys p q r prob k heps htiny hq0 hseg hslope hr

/-- The table of nodes with its columns swapped is the exact inverse of a strictly increasing
piecewise-linear relation, for every argument (this is the initial guess of
`saturationPressure` since the repair of `updateSaturationPressure_`). -/
theorem swapped_table_is_inverse {xs ys : List K} (hs : StrictInc xs) (hy : StrictIncY ys)
    (hn : 2 ≤ xs.length) (hl : ys.length = xs.length) (q : K) :
    evalX ys xs (evalX xs ys q) = q :=
  evalX_swap_inverse hs hy hn hl q

/-- **psat_inverts** — full strength for the code as repaired: on every strictly increasing
saturated table (any length ≥ 2, any slopes) `saturationPressure(Rs(q))` returns exactly `q`
for every `q > 0` lying on a segment whose slope is not "zero": the initial guess is already
the solution and the Newton loop stops in its first iteration. -/
theorem psat_inverts (c : Consts K) {xs ys : List K} (hs : StrictInc xs) (hy : StrictIncY ys)
    (hn : 2 ≤ xs.length) (hl : ys.length = xs.length) (q : K) (k : Nat)
    (heps : 0 < c.eps) (hq0 : 0 < q) (hslope : ¬ Pvt.abs (derivX xs ys q) < c.tiny) :
    newton c xs ys (evalX xs ys q) (k + 1) (evalX ys xs (evalX xs ys q)) false = some q :=
  Pvt.psat_inverts c hs hy hn hl q k heps hq0 hslope

/-- Building that initial-guess table: for strictly ascending Rs the pruning of adjacent
duplicates and the sort by Rs leave the node list as it is. -/
theorem psat_guess_table_is_node_list (l : List (K × K)) (h : AscFst l) :
    dedupAdj l = l ∧ sortPairs l = l :=
  ⟨dedupAdj_of_asc l h, sortPairs_of_asc l h⟩

/-! ## Several PVT regions: which table is in effect (`PvtxTable`, simple table containers)

`β` is whatever a deck record carries.  A keyword is described by the table of region 1 (`t`)
and the tables of the further regions (`us`; `[]` = the region is defaulted with a lone `/`);
`encode t us` is its flat record list with terminator records, as `PvtxTable::init` sees it. -/

/-- `recordRanges` recovers exactly the regions' tables from the keyword's records (any number
of regions, any table lengths, any pattern of defaulted regions). -/
theorem region_ranges_recover_tables {β : Type} (t : List β) (us : List (List β)) :
    (recordRanges (encode t us)).map (slice (encode t us)) = t :: us :=
  recordRanges_encode t us

/-- The backward search of `PvtxTable::init`: the result `s` is at or before `k`, everything
strictly between `s` and `k` is defaulted, and `s` itself is not defaulted when region 1 is
not. -/
theorem region_source_is_last_nonempty (e : Nat → Bool) (k : Nat) (h0 : e 0 = false) :
    searchBack e k ≤ k ∧ e (searchBack e k) = false ∧
    ∀ j, searchBack e k < j → j ≤ k → e j = true :=
  ⟨searchBack_le e k, searchBack_nonempty e k h0, fun j => searchBack_skipped e k j⟩

/-- … and it is the only such index: *the* last non-defaulted table at or before region `k`
(in particular not the first non-defaulted one of the keyword). -/
theorem region_source_unique (e : Nat → Bool) (k s : Nat) (hs : s ≤ k) (hne : e s = false)
    (hskip : ∀ j, s < j → j ≤ k → e j = true) : searchBack e k = s :=
  searchBack_unique e k s hs hne hskip

/-- `PvtxTable::init(keyword, k)` for every region `k` of every keyword whose first region is
not defaulted: the records of the table found by that search. -/
theorem region_init_spec {β : Type} (t : List β) (us : List (List β)) (k : Nat)
    (hk : k < us.length + 1) (ht : t ≠ []) :
    PvtRegion.init (encode t us) k =
      .ok ((t :: us).getD (searchBack (fun j => ((t :: us).getD j []).isEmpty) k) []) :=
  init_encode t us k hk ht

/-- Specification of the whole resolution: region `k` receives table `s ≤ k`, that table is
not defaulted, and every region strictly between `s` and `k` is defaulted. -/
theorem region_table_is_last_given {β : Type} (ts rs : List (List β)) (h : resolve ts = some rs)
    (k : Nat) (hk : k < ts.length) :
    ∃ s, s ≤ k ∧ rs.getD k [] = ts.getD s [] ∧ ts.getD s [] ≠ [] ∧
      ∀ j, s < j → j ≤ k → ts.getD j [] = [] :=
  resolve_spec ts rs h k hk

/-- `TableManager::initFullTables` over a keyword = `resolve` over its regions' tables. -/
theorem region_keyword_resolution {β : Type} (t : List β) (us : List (List β)) (ht : t ≠ []) :
    (resolve (t :: us)).map Except.ok = some (initAll (encode t us) : Except PvtRegion.Err _) :=
  initAll_encode t us ht

/-- Region 1 must not be defaulted: `init` refuses, and so does the whole keyword. -/
theorem region_first_must_be_given {β : Type} (us : List (List β)) :
    PvtRegion.init (encode ([] : List β) us) 0 = .error .cannotDefaultFirst ∧
    initAll (encode ([] : List β) us) = .error .cannotDefaultFirst ∧
    resolve (([] : List β) :: us) = none :=
  ⟨init_encode_first_defaulted us, initAll_encode_first_defaulted us, resolve_first_defaulted us⟩

/-- Without defaulted regions nothing changes; after the resolution no region is defaulted;
resolving twice is resolving once. -/
theorem region_resolution_idempotent {β : Type} (ts rs : List (List β)) (h : resolve ts = some rs) :
    (∀ t ∈ rs, t ≠ []) ∧ resolve rs = some rs ∧ rs.length = ts.length :=
  ⟨resolve_all_nonempty ts rs h, resolve_idempotent ts rs h, resolve_length ts rs h⟩

theorem region_no_defaults_identity {β : Type} (ts : List (List β)) (h : ∀ t ∈ ts, t ≠ []) :
    resolve ts = some ts :=
  resolve_no_defaults ts h

/-- PVDO/PVDG (`initSimpleTableContainer`, the `lastComplete` bookkeeping) and PVTO/PVTG
(`PvtxTable::init`, the backward search) implement the same rule. -/
theorem region_simple_tables_same_rule {β : Type} (ts : List (List β)) :
    simpleResolve ts = resolve ts :=
  simpleResolve_eq_resolve ts

/-- The keyword routing regenerated from `TableManager.cpp`: PVTO and PVTG are built by
`initFullTables` (`PvtxTable::init`), PVDO and PVDG by `initSimpleTableContainer`. -/
theorem region_keyword_routing :
    "PVTO" ∈ Gen.PvtRegion.fullTableKeywords ∧ "PVTG" ∈ Gen.PvtRegion.fullTableKeywords ∧
    "PVDO" ∈ Gen.PvtRegion.simpleContainerKeywords ∧ "PVDG" ∈ Gen.PvtRegion.simpleContainerKeywords := by
  decide

/-! ## Non-vacuity -/

example : StrictInc ([1, 2, 4] : List ℚ) := strictInc_three (by norm_num) (by norm_num)
example : MonoInc ([10, 20, 20] : List ℚ) := monoInc_three (by norm_num) (by norm_num)
example : findSegmentIndex ([1, 2, 4, 8, 16] : List ℚ) 5 false = .ok 2 := by
  simp [findSegmentIndex, nth, bisect]; norm_num
example : evalX ([1, 2, 4] : List ℚ) [10, 20, 15] 3 = 35 / 2 := by
  simp [evalX, segIdx, evalSeg, nth, bisect]; norm_num
example : (deadOil ([100, 200, 400] : List ℚ) [12 / 10, 11 / 10, 1] [1, 2, 3]).muAt 200 = 2 := by
  have h := pvt_node_honour_pvdo (p := ([100, 200, 400] : List ℚ)) (B := [12 / 10, 11 / 10, 1]) (mu := [1, 2, 3])
    (strictInc_three (by norm_num) (by norm_num)) (by simp) rfl rfl 1 (by simp) (by simp [nth]) (by simp [nth])
  simpa [nth] using h.2
/-- a steep segment between two flat ones: the table of finding 2 (bar, sm3/sm3) -/
example : StrictInc ([100, 200, 210, 400] : List ℚ) ∧ StrictIncY ([10, 20, 60, 79] : List ℚ) := by
  constructor <;> intro i j hij hj <;>
    (have : j = 1 ∨ j = 2 ∨ j = 3 := by simp at hj; omega) <;>
    rcases this with rfl | rfl | rfl <;>
    (have : i = 0 ∨ i = 1 ∨ i = 2 := by omega) <;>
    rcases this with rfl | rfl | rfl <;> first | omega | (simp [nth]; try norm_num)

/-- three regions `T1, T2, /`: region 3 gets T2 (the last given), not T1 (the first given) -/
example : resolve [[1, 2], [3], ([] : List Nat)] = some [[1, 2], [3], [3]] := by decide
example : resolve [[1, 2], ([] : List Nat), [3], [], []] = some [[1, 2], [1, 2], [3], [3], [3]] := by decide
example : PvtRegion.init (encode [1, 2] [[3], ([] : List Nat)]) 2 = .ok [3] := by decide
example : encode [1, 2] [[3], ([] : List Nat)] = [some 1, some 2, none, some 3, none] := by decide
example : recordRanges [some 1, some 2, none, some 3, none] = [(0, 2), (3, 4), (5, 5)] := by decide
example : PvtRegion.init ([none, some 1] : List (Option Nat)) 0 = .error .cannotDefaultFirst := by decide
example : simpleResolve [[1, 2], ([] : List Nat), [3], []] = some [[1, 2], [1, 2], [3], [3]] := by decide
/-- a 7-row branch: segment 2 of the column is the line through rows 2 and 3 -/
example : evalX ([1, 2, 3, 4, 5, 6, 7] : List ℚ) [10, 20, 40, 80, 160, 320, 640] (7 / 2) = 60 := by
  simp [evalX, segIdx, evalSeg, nth, bisect]; norm_num

end OpmVerif.Props.C14
