/-
  C13 — Grid indexing and geometry are coherent across input forms and EGRID files.

  Only property statements, their one-line proofs from `Proofs/GridIndex.lean`,
  `Proofs/GridVol.lean`, `Proofs/Grid.lean`, `Proofs/GridEgrid.lean`, and non-vacuity examples.

  Quantifiers: every grid size, every global / (i,j,k) / active index, every ACTNUM list (any
  integers; `> 0` = active), every corner array over an arbitrary field `K` of characteristic 0
  (ordered where positivity is stated), every DX (depending on i) / DY (on j) / DZ (any) / TOPS
  (any) input, every DXV/DYV/DZV/DEPTHZ input.  The volume formula is the *generated*
  `Gen/CellVol.lean` (tables and `C` regenerated from calculateCellVol.cpp on every run).

  Not provable and only observed by the harness: independence of the number of OpenMP threads
  (a theorem cannot exhibit scheduling; per-cell volumes are compared bit for bit between
  OMP_NUM_THREADS = 1, 4, 16 runs of the real code), IEEE rounding (theorems are over a field;
  the `Float` run of the same definitions is compared bit for bit with the C++).

  Second round ("One object, many operations"): the state machine of one `EclipseGrid` object
  (`Model/GridState.lean`: volume cache, ACTNUM and index maps, remembered input arrays;
  operations activeVolume / resetACTNUM() / resetACTNUM(mask) / the two copy constructors /
  save), quantified over every operation sequence; what the two `resetACTNUM` forms and the
  ZCORN-replacing copy constructor do with the cache and with `m_input_zcorn` is regenerated
  from EclipseGrid.cpp on every run (`Gen/GridCopy.lean`).

  Third round (`Model/GridExt.lean`): the MINPV / MINPORV / MINPVV activity rule and the ACTNUM
  mask of a MINPV pass on the object model (activity changes exactly by the rule, geometry of no
  cell changes), the active ↔ global bijection for every ACTNUM, identities between
  getCellDepth / getCellCenter / getCellThickness / getCellDims for arbitrary distorted cells and
  under subdivision, RADIAL grids (`calculateCylindricalCellVol`, the radial branch of
  `getCellVolume`, additivity and the annulus total), GRIDUNIT rescaling (volumes scale with the
  cube), `MapAxes::transform` / `inv_transform` as mutually inverse maps.

  Fourth round (`Model/GridTops.lean`): `createTOPSVector` (TOPS given for any number of layers:
  first layer kept, layers beyond the input stacked bit for bit, given layers snapped to the stack
  within the tolerance and kept otherwise; fixed point; what the geometry makes of it),
  numerical-aquifer cells (forced ACTNUM = 1 inside `resetACTNUM(const int*)`, AQUNUM depth
  override of `getCellDepth`), `getCellAndBottomCenterNormal`.
-/
import OpmVerif.Proofs.Grid
import OpmVerif.Proofs.GridEgrid
import OpmVerif.Proofs.GridState
import OpmVerif.Proofs.GridPos
import OpmVerif.Proofs.GridFixup
import OpmVerif.Proofs.GridExt
import OpmVerif.Proofs.GridTops
import OpmVerif.Props.C07

namespace OpmVerif.Props.C13
open OpmVerif.Grid OpmVerif.Gen.CellVol

/-! ## Indexing -/

/-- global → (i,j,k) → global is the identity (for every `g`, every grid with `nx, ny > 0` or not). -/
theorem global_ijk_roundtrip (d : Dims) (g : Nat) :
    getGlobalIndex d (getIJK d g).1 (getIJK d g).2.1 (getIJK d g).2.2 = g :=
  getGlobalIndex_getIJK d g

/-- (i,j,k) → global → (i,j,k) is the identity on the index box. -/
theorem ijk_global_roundtrip (d : Dims) {i j k : Nat} (hi : i < d.nx) (hj : j < d.ny) :
    getIJK d (getGlobalIndex d i j k) = (i, j, k) :=
  getIJK_getGlobalIndex d hi hj

/-- The two maps respect the ranges: `g < nx·ny·nz ⇒ (i,j,k)` in the box, and conversely. -/
theorem index_ranges (d : Dims) :
    (∀ g, g < d.size → (getIJK d g).1 < d.nx ∧ (getIJK d g).2.1 < d.ny ∧ (getIJK d g).2.2 < d.nz) ∧
    (∀ i j k, i < d.nx → j < d.ny → k < d.nz → getGlobalIndex d i j k < d.size) :=
  ⟨fun _ hg => getIJK_lt d hg, fun _ _ _ hi hj hk => getGlobalIndex_lt d hi hj hk⟩

/-- Sizes of the maps built by `resetACTNUM`: `m_global_to_active` has one entry per cell,
`m_active_to_global` has `m_nactive` entries, `m_nactive` = number of cells with ACTNUM > 0. -/
theorem active_map_sizes (act : List Int) :
    (resetACTNUM act).g2a.length = act.length ∧
    (resetACTNUM act).a2g.length = (resetACTNUM act).nactive ∧
    (resetACTNUM act).nactive = act.countP (fun a => a > 0) ∧
    (resetACTNUM act).nactive ≤ act.length :=
  resetACTNUM_lengths act

/-- active → global → active is the identity on `[0, nactive)`, and lands on an in-range cell
with ACTNUM > 0. -/
theorem active_global_active (act : List Int) {a : Nat} (ha : a < (resetACTNUM act).nactive) :
    ∃ g, globalOfActive (resetACTNUM act) a = some g ∧ g < act.length ∧
      activeIndex (resetACTNUM act) g = some a ∧ ∃ v, act[g]? = some v ∧ v > 0 :=
  activeIndex_globalOfActive act ha

/-- global → active → global is the identity on the cells with ACTNUM > 0. -/
theorem global_active_global (act : List Int) {g : Nat} {v : Int} (hv : act[g]? = some v) (hpos : v > 0) :
    ∃ a, activeIndex (resetACTNUM act) g = some a ∧ a < (resetACTNUM act).nactive ∧
      globalOfActive (resetACTNUM act) a = some g :=
  globalOfActive_activeIndex act hv hpos

/-- `activeIndex` refuses exactly the cells with ACTNUM ≤ 0. -/
theorem inactive_has_no_active_index (act : List Int) {g : Nat} {v : Int} (hv : act[g]? = some v)
    (hneg : ¬ v > 0) : activeIndex (resetACTNUM act) g = none :=
  activeIndex_inactive act hv hneg

/-- Active numbering follows the global (natural) ordering. -/
theorem active_numbering_monotone (act : List Int) {a b ga gb : Nat} (hab : a < b)
    (ha : globalOfActive (resetACTNUM act) a = some ga)
    (hb : globalOfActive (resetACTNUM act) b = some gb) : ga < gb :=
  globalOfActive_strictMono act hab ha hb

/-- `ZcornMapper::index` is a bijection between (cell, corner) pairs and `[0, 8·nx·ny·nz)`:
in range, and inverted by `zcornDecode`. -/
theorem zcorn_slots_bijective (d : Dims) {i j k c : Nat} (hi : i < d.nx) (hj : j < d.ny)
    (hk : k < d.nz) (hc : c < 8) :
    zcornIdx d i j k c < 8 * d.size ∧ zcornDecode d (zcornIdx d i j k c) = (i, j, k, c) :=
  ⟨zcornIdx_lt d hi hj hk hc, zcornDecode_zcornIdx d hi hj hc⟩

/-- The index arithmetic inlined in `getCellCorners` is `ZcornMapper::index(i,j,k,c)`, and
`ZcornMapper::index(g,c)` is the same through `getIJK`. -/
theorem zcorn_index_arithmetic_coherent (d : Dims) (i j k n g c : Nat) (hn : n < 8) (hg : g < d.size) :
    cornerZind d i j k n = zcornIdx d i j k n ∧
    zcornIndexG d g c = zcornIndex d (getIJK d g).1 (getIJK d g).2.1 (getIJK d g).2.2 c :=
  ⟨cornerZind_eq d i j k n hn, zcornIndexG_eq d c hg⟩

/-! ## Volume (generated formula) -/

section
variable {K : Type} [Field K] [CharZero K]

/-- Axis-aligned box ⇒ `signedVol = dx·dy·dz`. -/
theorem vol_box (x0 dx y0 dy z0 dz : K) :
    signedVol (rectX x0 dx) (rectY y0 dy) (boxZ z0 dz) = dx * dy * dz :=
  signedVol_box x0 dx y0 dy z0 dz

/-- The signed volume does not change under translation of the cell. -/
theorem vol_translation_invariant (X Y Z : Nat → K) (tx ty tz : K) :
    signedVol (fun n => X n + tx) (fun n => Y n + ty) (fun n => Z n + tz) = signedVol X Y Z :=
  signedVol_translate X Y Z tx ty tz

/-- Vertical pillars over a rectangle with arbitrary (also non-planar) top and bottom corner
depths ⇒ `dx·dy·`mean thickness. -/
theorem vol_pillar (x0 dx y0 dy : K) (Z : Nat → K) :
    signedVol (rectX x0 dx) (rectY y0 dy) Z
      = dx * dy * (((Z 4 - Z 0) + (Z 5 - Z 1) + (Z 6 - Z 2) + (Z 7 - Z 3)) / 4) :=
  signedVol_pillar x0 dx y0 dy Z

/-- Sheared box (parallelepiped with edge vectors `a, b, c`): `signedVol = det [a b c]`.  All
six rows of the `permutation` table and their alternating sign enter here. -/
theorem vol_parallelepiped (ox ax bx cx oy ay «by» cy oz az bz cz : K) :
    signedVol (paraCoord ox ax bx cx) (paraCoord oy ay «by» cy) (paraCoord oz az bz cz)
      = ax * («by» * cz - bz * cy) - bx * (ay * cz - az * cy) + cx * (ay * bz - az * «by») :=
  signedVol_parallelepiped ox ax bx cx oy ay «by» cy oz az bz cz

/-- **The generated formula is the divergence-theorem volume, for every cell**: for arbitrary
corner positions (24 free coordinates) `calculateCellVol` before `fabs` equals
`1/12 · Σ_{6 faces} (det of the 4 origin-apex tetrahedra of the two triangulations of the face)`,
i.e. the exact volume of the polyhedron when the faces are planar (sheared / faulted
corner-point cells), and the mean of the two triangulated polyhedra otherwise.  Every entry of
the `permutation` and `pqr_array` tables and every branch of `C` enters this identity. -/
theorem vol_eq_face_formula (X Y Z : Nat → K) : signedVol X Y Z = faceVol X Y Z :=
  signedVol_eq_faceVol X Y Z

/-- **Additivity under k-subdivision, full strength**: for *arbitrary* corner positions (24 free
coordinates, twisted cells included) the two cells obtained by cutting at the midpoints of the
four vertical edges have signed volumes adding up to the signed volume of the cell. -/
theorem vol_additive_k (c : Corners K) :
    signedVolume (splitLower c) + signedVolume (splitUpper c) = signedVolume c :=
  signedVolume_split c

/-- The same for subdivision in the `i` and in the `j` direction; hence for every refinement
obtained by repeated midpoint bisection in any directions. -/
theorem vol_additive_ij (c : Corners K) :
    signedVolume (splitLowerI c) + signedVolume (splitUpperI c) = signedVolume c ∧
    signedVolume (splitLowerJ c) + signedVolume (splitUpperJ c) = signedVolume c :=
  ⟨signedVolume_splitI c, signedVolume_splitJ c⟩

end

section
variable {K : Type} [Field K] [LinearOrder K] [IsStrictOrderedRing K]

/-- Positivity for boxes with positive extents: `getCellVolume = |signedVol| = dx·dy·dz > 0`. -/
theorem vol_positive_box (x0 dx y0 dy z0 dz : K) (hx : 0 < dx) (hy : 0 < dy) (hz : 0 < dz) :
    cellVolume (fun v => |v|) ⟨rectX x0 dx, rectY y0 dy, boxZ z0 dz⟩ = dx * dy * dz ∧
      0 < cellVolume (fun v => |v|) ⟨rectX x0 dx, rectY y0 dy, boxZ z0 dz⟩ :=
  cellVolume_box_pos x0 dx y0 dy z0 dz hx hy hz

/-- Positivity for vertical-pillar cells (positive footprint, no inverted edge, one edge of
positive length) — a special case kept from the first round; the general statement is
`vol_positive_general` below. -/
theorem vol_positive_partial (x0 dx y0 dy : K) (Z : Nat → K) (hx : 0 < dx) (hy : 0 < dy)
    (h0 : Z 0 ≤ Z 4) (h1 : Z 1 ≤ Z 5) (h2 : Z 2 ≤ Z 6) (h3 : Z 3 ≤ Z 7)
    (hs : Z 0 < Z 4 ∨ Z 1 < Z 5 ∨ Z 2 < Z 6 ∨ Z 3 < Z 7) :
    0 < signedVol (rectX x0 dx) (rectY y0 dy) Z :=
  signedVol_pillar_pos x0 dx y0 dy Z hx hy h0 h1 h2 h3 hs

/-- **General positivity under an explicit non-degeneracy hypothesis.**  For arbitrary corners:
if none of the fifteen tetrahedra spanned by corner 0 and (a) the four triangles of the two
triangulations of each of the three faces not containing corner 0, (b) the far triangle of each
of the three faces containing corner 0, is inverted, and one of them has positive volume, then
the generated formula is positive.  (For planar faces the three tetrahedra (b) are flat.) -/
theorem vol_positive_general (X Y Z : Nat → K) (h : ∀ t ∈ cornerTets X Y Z, 0 ≤ t)
    (hp : ∃ t ∈ cornerTets X Y Z, 0 < t) : 0 < signedVol X Y Z :=
  signedVol_pos_of_cornerTets X Y Z h hp

end

/-- The identity behind it: for arbitrary corners over any field of characteristic 0 the
generated volume is one twelfth of the sum of those fifteen tetrahedron determinants. -/
theorem vol_eq_corner_tetrahedra {K : Type} [Field K] [CharZero K] (X Y Z : Nat → K) :
    signedVol X Y Z = (cornerTets X Y Z).sum / 12 :=
  signedVol_eq_cornerTets X Y Z

/-! ## Input forms -/

section
variable {K : Type} [Field K] [DecidableEq K]

/-- **DX/DY/DZ/TOPS ≡ corner-point description.**  For DX depending on `i` only, DY on `j` only
(any DZ, any TOPS): every cell `(i,j,k)` read back through the real `getCellCorners` index
arithmetic from the COORD/ZCORN arrays generated by `initDTOPSGrid` is the axis-aligned box
`[Σ_{i'<i} dx, +dx_i] × [Σ_{j'<j} dy, +dy_j] × [T, T + dz_{ijk}]`, `T = tops_{ij} + Σ_{k'<k} dz`. -/
theorem dxdydz_vs_cornerpoint (d : Dims) {dx dy dxv dyv : Nat → K} (dz tops : Nat → K)
    (hx : 0 < d.nx) (hy : 0 < d.ny) (hz : 0 < d.nz) (hdx : DependsOnI d dx dxv)
    (hdy : DependsOnJ d dy dyv) {i j k : Nat} (hi : i < d.nx) (hj : j < d.ny) :
    IsBox (cellCorners d (coordDTops d dx dy dz tops) (zcornDTops d dz tops) i j k)
      (runSum dxv i) (dxv i) (runSum dyv j) (dyv j)
      (zTopsAt d dz tops i j k) (dz (i + j * d.nx + k * d.nx * d.ny)) :=
  fun _ hn => dtops_cell_is_box d dz tops hx hy hz hdx hdy hi hj hn

/-- DXV/DYV/DZV (through `scatterDim`) satisfy the hypotheses of `dxdydz_vs_cornerpoint`. -/
theorem dxv_form_is_dx_form (d : Dims) (dxv dyv : Nat → K) :
    DependsOnI d (scatterDim d 0 dxv) dxv ∧ DependsOnJ d (scatterDim d 1 dyv) dyv :=
  ⟨scatterDim_dependsOnI d dxv, scatterDim_dependsOnJ d dyv⟩

/-- DXV/DYV/DZV + TOPS (flat) and DXV/DYV/DZV + DEPTHZ (flat) generate COORD/ZCORN arrays that
give the same 8 corners for every cell. -/
theorem dxv_tops_vs_dxv_depthz (d : Dims) (dxv dyv dzv : Nat → K) (top : K)
    (hx : 0 < d.nx) (hy : 0 < d.ny) (hz : 0 < d.nz)
    {i j k n : Nat} (hi : i < d.nx) (hj : j < d.ny) (hk : k < d.nz) (hn : n < 8) :
    let c1 := cellCorners d
      (coordDTops d (scatterDim d 0 dxv) (scatterDim d 1 dyv) (scatterDim d 2 dzv) (fun _ => top))
      (zcornDTops d (scatterDim d 2 dzv) (fun _ => top)) i j k
    let c2 := cellCorners d (coordDepthz d dxv dyv dzv (fun _ => top))
      (zcornDepthz d dzv (fun _ => top)) i j k
    c1.X n = c2.X n ∧ c1.Y n = c2.Y n ∧ c1.Z n = c2.Z n :=
  dxv_tops_eq_dxv_depthz d dxv dyv dzv top hx hy hz hi hj hk hn

/-- DXV/DYV/DZV/DEPTHZ with arbitrary DEPTHZ: vertical pillars at the cumulative positions,
corner depths `DEPTHZ(pillar) + Σ_{k'<k(+1)} dzv` (a `vol_pillar` cell). -/
theorem depthz_vs_cornerpoint (d : Dims) (dxv dyv dzv depthz : Nat → K)
    {i j k n : Nat} (hi : i < d.nx) (hj : j < d.ny) (hn : n < 8) :
    let c := cellCorners d (coordDepthz d dxv dyv dzv depthz) (zcornDepthz d dzv depthz) i j k
    c.X n = rectX (runSum dxv i) (dxv i) n ∧ c.Y n = rectY (runSum dyv j) (dyv j) n ∧
      c.Z n = depthz ((i + n % 2) + (j + n / 2 % 2) * (d.nx + 1)) + runSum dzv (k + n / 4) :=
  depthz_corners d dxv dyv dzv depthz hi hj hn

variable [CharZero K]

/-- Consequently volume, centre, depth, thickness and dims of a box cell are those of the box,
whatever input form produced it (`sqrt` is a parameter of `getCellDims`). -/
theorem box_cell_queries {c : Corners K} {x0 dx y0 dy z0 dz : K} (sqrt : K → K)
    (h : IsBox c x0 dx y0 dy z0 dz) :
    signedVolume c = dx * dy * dz ∧
    cellCenter c = (x0 + dx / 2, y0 + dy / 2, z0 + dz / 2) ∧
    cellDepth c = z0 + dz / 2 ∧ cellThickness c = dz ∧
    cellDims sqrt c = (sqrt (dx * dx), sqrt (dy * dy), dz) :=
  ⟨box_signedVolume h, box_center h, (box_depth_thickness h).1, (box_depth_thickness h).2, box_dims sqrt h⟩

end

/-! ## EGRID -/

/-- Saving to an (unformatted) EGRID file and reading the file back returns exactly the arrays
`EclipseGrid::save` wrote — FILEHEAD, MAPUNITS, MAPAXES, GRIDUNIT, GRIDHEAD, COORD, ZCORN, ACTNUM,
ENDGRID, NNCHEAD, NNC1, NNC2 — for every grid size below 2^31 elements.  Corollary of C07. -/
theorem egrid_roundtrip (d : Dims) (unitName : String) (coordF zcornF : List Float32)
    (actnum : List Int) (mapaxes : Option (List Float32)) (mapunits : Option String)
    (nnc : List (Int × Int))
    (hc : coordF.length < 2147483648) (hz : zcornF.length < 2147483648)
    (ha : actnum.length < 2147483648) (hm : ∀ m, mapaxes = some m → m.length < 2147483648)
    (hn : nnc.length < 2147483648) :
    OpmVerif.Ecl.decodeFile (OpmVerif.Ecl.encodeFile
        (egridArrays d unitName coordF zcornF actnum mapaxes mapunits nnc))
      = .ok (egridArrays d unitName coordF zcornF actnum mapaxes mapunits nnc) :=
  OpmVerif.Props.C07.roundtrip_unformatted _ (egridArrays_WF d unitName coordF zcornF actnum mapaxes mapunits nnc hc hz ha hm hn)

/-! ## Non-vacuity -/

def d345 : Dims := ⟨3, 4, 5⟩

example : getIJK d345 37 = (1, 0, 3) ∧ getGlobalIndex d345 1 0 3 = 37 ∧ (37 : Nat) < d345.size := by decide

def sampleAct : List Int := [1, 0, 2, 1, -1, 0, 1]

example : resetACTNUM sampleAct =
    { g2a := [some 0, none, some 1, some 2, none, none, some 3], a2g := [0, 2, 3, 6], nactive := 4 } := by
  decide

example : (2 : Nat) < (resetACTNUM sampleAct).nactive ∧ sampleAct[3]? = some 1 := by decide

example : zcornIdx d345 2 3 4 7 < 8 * d345.size ∧ zcornDecode d345 (zcornIdx d345 2 3 4 7) = (2, 3, 4, 7) := by
  decide

/-- A genuinely twisted cell over ℚ: all 24 coordinates different, volume non-zero, and the two
halves add up (checked by evaluation, independently of the theorem). -/
def twisted : Corners Rat :=
  { X := fun n => [0, 10, 1, 12, 2, 11, 3, 14].getD n 0,
    Y := fun n => [0, 1, 8, 9, -1, 2, 7, 11].getD n 0,
    Z := fun n => [100, 101, 102, 104, 110, 113, 111, 117].getD n 0 }

instance : NatCast Rat := ⟨fun n => (n : Rat)⟩

example : signedVolume twisted ≠ 0 ∧
    signedVolume (splitLower twisted) + signedVolume (splitUpper twisted) = signedVolume twisted := by
  decide +kernel

example : signedVolume (splitLowerI twisted) + signedVolume (splitUpperI twisted) = signedVolume twisted ∧
    signedVolume (splitLowerJ twisted) + signedVolume (splitUpperJ twisted) = signedVolume twisted ∧
    signedVolume (splitLowerI twisted) ≠ signedVolume (splitUpperI twisted) := by
  decide +kernel

/-- The face formula evaluated on the twisted cell: non-zero, so `vol_eq_face_formula` is not an
identity between zeros. -/
example : faceVol twisted.X twisted.Y twisted.Z = signedVolume twisted ∧ faceVol twisted.X twisted.Y twisted.Z ≠ 0 := by
  constructor
  · exact (vol_eq_face_formula twisted.X twisted.Y twisted.Z).symm
  · rw [← vol_eq_face_formula]; decide +kernel

/-- **Witness (model mirrors the code as it is).**  When DX varies with `j` the hypothesis
`DependsOnI` of `dxdydz_vs_cornerpoint` fails and the generated corner-point cell is *not* the
DX·DY·DZ box: 2×2×1 grid, DX = 10 10 / 20 20, DY = 10, DZ = 1 — cell (0,0) gets volume 150, not
100 (the real `EclipseGrid(deck).getCellVolume(0,0,0)` returns 150 as well). -/
theorem dx_varying_in_j_witness :
    let d : Dims := ⟨2, 2, 1⟩
    let dx : Nat → Rat := fun g => ([10, 10, 20, 20] : List Rat).getD g 0
    signedVolume (cellCorners d (coordDTops d dx (fun _ => 10) (fun _ => 1) (fun _ => 1000))
      (zcornDTops d (fun _ => 1) (fun _ => 1000)) 0 0 0) = 150 := by
  decide +kernel

/-- A 2×1×2 DX/DY/DZ/TOPS input over ℚ satisfying the hypotheses of `dxdydz_vs_cornerpoint`
with DZ varying per cell. -/
def dIn : Dims := ⟨2, 1, 2⟩

example : DependsOnI dIn (fun g => ([5, 7, 5, 7] : List Rat).getD g 0) (fun i => ([5, 7] : List Rat).getD i 0) := by
  intro i j k hi hj hk
  have h1 : i < 2 := hi
  have h2 : j < 1 := hj
  have h3 : k < 2 := hk
  obtain rfl : j = 0 := by omega
  obtain rfl | rfl : i = 0 ∨ i = 1 := by omega
  all_goals (obtain rfl | rfl : k = 0 ∨ k = 1 := by omega) <;> rfl

/-- Hypotheses of `vol_positive_partial` met by a non-planar pillar cell over ℚ. -/
example : let Z : Nat → ℚ := fun n => ([0, 0, 0, 0, 1, 2, 1, 3] : List ℚ).getD n 0
    (0 : ℚ) < 3 ∧ (0 : ℚ) < 4 ∧ Z 0 ≤ Z 4 ∧ Z 1 ≤ Z 5 ∧ Z 2 ≤ Z 6 ∧ Z 3 ≤ Z 7 ∧ Z 0 < Z 4 := by
  norm_num

/-- Hypotheses of `vol_positive_general` met by the twisted (non-planar faces, inclined pillars)
cell over ℚ: all fifteen tetrahedra positive. -/
example : (∀ t ∈ cornerTets twisted.X twisted.Y twisted.Z, 0 ≤ t) ∧
    (∃ t ∈ cornerTets twisted.X twisted.Y twisted.Z, 0 < t) := by
  decide +kernel

/-! ## One object, many operations (cache, resetACTNUM, copy constructors, save) -/

section Object
variable {α : Type} [Add α] [Sub α] [Mul α] [Div α] [Neg α] [NatCast α] [BEq α]

/-- **Source fact (generated).**  In the working tree `resetACTNUM()` and
`resetACTNUM(const int*)` assign `active_volume = std::nullopt` on every path
(`translate/gridcopy.py` → `Gen/GridCopy.lean`); fails to build when the translator reads
anything else off the two function bodies. -/
theorem reset_drops_cache_in_source : Effects.source.DropsCache := by decide

/-- `resetACTNUM()` (iota maps, `m_nactive = size`) is `resetACTNUM(mask)` on the all-ones
mask, for every grid size. -/
theorem reset_all_is_reset_ones (n : Nat) : iotaMaps n = resetACTNUM (allActive n) :=
  iotaMaps_eq n

/-- A freshly constructed corner-point grid (`actnum` = nullptr or one entry per cell) satisfies
the object invariant: maps = `resetACTNUM` of the ACTNUM, no cache. -/
theorem fresh_object_coherent (abs : α → α) (fix : Dims → (Nat → α) → Nat × (Nat → α)) (d : Dims)
    (coord zcorn : Nat → α) (act : Option (List Int)) (hact : ∀ a, act = some a → a.length = d.size) :
    (initCornerPoint fix d coord zcorn act).Inv abs :=
  inv_initCornerPoint abs fix d coord zcorn act hact

/-- **Every operation sequence keeps the object coherent** (induction over the sequence):
ACTNUM has one entry per cell, the index maps are those of the current ACTNUM, and the volume
cache — when present — holds the geometric volumes of the *current* COORD/ZCORN at the
*current* active→global map.  For the operations as they are in the working tree. -/
theorem object_invariant (abs : α → α) (fix : Dims → (Nat → α) → Nat × (Nat → α)) (s : GState α)
    (h : s.Inv abs) (ops : List (Op α)) : (run abs fix s ops).Inv abs :=
  inv_runWith Effects.source reset_drops_cache_in_source abs fix s h ops

/-- The same for any variant of the source in which both `resetACTNUM` forms drop the cache. -/
theorem object_invariant_of_drops_cache (e : Effects) (he : e.DropsCache) (abs : α → α)
    (fix : Dims → (Nat → α) → Nat × (Nat → α)) (s : GState α) (h : s.Inv abs) (ops : List (Op α)) :
    (runWith e abs fix s ops).Inv abs :=
  inv_runWith e he abs fix s h ops

/-- **`getCellVolume` after any history.**  After every operation sequence on a corner-point
grid, `getCellVolume(g)` of every cell is `|calculateCellVol|` of the corners of `g` in the
object's current COORD/ZCORN — independent of the cache, of ACTNUM and of the order of the
operations — and throws exactly beyond the grid. -/
theorem cell_volume_after_any_sequence (abs : α → α) (fix : Dims → (Nat → α) → Nat × (Nat → α))
    (d : Dims) (coord zcorn : Nat → α) (act : Option (List Int))
    (hact : ∀ a, act = some a → a.length = d.size) (ops : List (Op α)) (g : Nat) :
    let s := run abs fix (initCornerPoint fix d coord zcorn act) ops
    s.getCellVolume abs g =
      if g < d.size then some (cellVolume abs (cellCornersG d coord s.zcorn g)) else none := by
  intro s
  have hinv : s.Inv abs := object_invariant abs fix _ (inv_initCornerPoint abs fix d coord zcorn act hact) ops
  have hd : s.d = d := runWith_d Effects.source abs fix _ ops
  have hc : s.coord = coord := runWith_coord Effects.source abs fix _ ops
  by_cases hg : g < d.size
  · rw [if_pos hg, getCellVolume_eq_geom abs s hinv (by rw [hd]; exact hg), GState.geomVolume, hd, hc]
  · rw [if_neg hg, getCellVolume_out_of_range abs s (by rw [hd]; omega)]

/-- **`activeVolume()` after any history**: one entry per active cell of the current ACTNUM,
entry `a` being the geometric volume of the `a`-th active cell. -/
theorem active_volume_after_any_sequence (abs : α → α) (fix : Dims → (Nat → α) → Nat × (Nat → α))
    (s0 : GState α) (h0 : s0.Inv abs) (ops : List (Op α)) :
    let s := run abs fix s0 ops
    (s.activeVolumeResult abs).length = numActive s.actnum ∧
    ∀ a g, globalOfActive s.maps a = some g →
      (s.activeVolumeResult abs)[a]? = some (s.geomVolume abs g) := by
  intro s
  have hinv : s.Inv abs := object_invariant abs fix s0 h0 ops
  have := activeVolumeResult_spec abs s hinv
  refine ⟨?_, this.2⟩
  rw [this.1, hinv.maps]; rfl

/-- Two objects with the same COORD/ZCORN report the same `getCellVolume` for every cell,
whatever their ACTNUM masks, caches and histories are. -/
theorem cell_volume_depends_on_geometry_only (abs : α → α) (s t : GState α) (hs : s.Inv abs)
    (ht : t.Inv abs) (hd : s.d = t.d) (hc : s.coord = t.coord) (hz : s.zcorn = t.zcorn) (g : Nat) :
    s.getCellVolume abs g = t.getCellVolume abs g := by
  by_cases hg : g < s.d.size
  · rw [getCellVolume_eq_geom abs s hs hg, getCellVolume_eq_geom abs t ht (hd ▸ hg)]
    simp only [GState.geomVolume, hd, hc, hz]
  · rw [getCellVolume_out_of_range abs s (by omega), getCellVolume_out_of_range abs t (by rw [← hd]; omega)]

/-- **What `save()` writes.**  Let `fix` be idempotent on the arrays of this grid size
(`fixupZCORN` is: `fixup_idempotent`).  After every operation sequence on a
corner-point grid — excluding the ZCORN-replacing copy constructor as long as the source keeps
`m_input_zcorn` in it (hypothesis vacuous once the generated mode is `reset` or `store`) — the
COORD array `save()` writes is the current COORD and the ZCORN array it writes becomes the
current ZCORN under the fix-up every reader applies.  (Float narrowing and the unit factor are
outside this statement; they are compared bit for bit in the correspondence.) -/
theorem save_writes_current_geometry (abs : α → α) (fix : Dims → (Nat → α) → Nat × (Nat → α))
    (d : Dims) (hidem : ∀ z, (fix d (fix d z).2).2 = (fix d z).2) (coord zcorn : Nat → α)
    (act : Option (List Int)) (ops : List (Op α))
    (hops : Effects.source.copyZ = .keep → ∀ op ∈ ops, op.isCopyZ = false) :
    let s := run abs fix (initCornerPoint fix d coord zcorn act) ops
    s.savedCoord = s.coord ∧ (fix s.d s.savedZcorn).2 = s.zcorn :=
  saved_geometry fix _ (inputOK_runWith Effects.source abs fix _ hidem
    (inputOK_initCornerPoint fix d hidem coord zcorn act) ops hops)

/-- The same for every variant of the source, in particular for all sequences when the copy
constructor resets or re-stores `m_input_zcorn`. -/
theorem save_writes_current_geometry_of (e : Effects) (abs : α → α)
    (fix : Dims → (Nat → α) → Nat × (Nat → α)) (s0 : GState α)
    (hidem : ∀ z, (fix s0.d (fix s0.d z).2).2 = (fix s0.d z).2) (h0 : s0.InputOK fix)
    (ops : List (Op α)) (hops : e.copyZ = .keep → ∀ op ∈ ops, op.isCopyZ = false) :
    let s := runWith e abs fix s0 ops
    s.savedCoord = s.coord ∧ (fix s.d s.savedZcorn).2 = s.zcorn :=
  saved_geometry fix _ (inputOK_runWith e abs fix s0 hidem h0 ops hops)

end Object

/-! ## `fixupZCORN` -/

section Fixup
variable {K : Type} [Field K] [LinearOrder K] [IsStrictOrderedRing K]

/-- Along every vertical corner line the adjusted ZCORN has no inversion in the direction of
`sign` (every list length, every `sign`): `(y_{n+1} - y_n)·sign < 0` never holds. -/
theorem fixup_line_monotone (sign x : K) (xs : List K) :
    ∃ ys, fixLine sign (x :: xs) = x :: ys ∧ ChainNoInv sign x ys :=
  fixLine_chain sign x xs

/-- The adjustment is the running maximum of the line when `sign = 1` and the running minimum
when `sign = -1` (one step of the recursion). -/
theorem fixup_step_is_running_extremum (p x : K) :
    clamp ((1 : Nat) : K) p x = max p x ∧ clamp (-((1 : Nat) : K)) p x = min p x :=
  ⟨clamp_one p x, clamp_neg_one p x⟩

/-- A line without inversion is left alone, and `cells_adjusted` counts 0 on a line exactly when
no slot of it changes. -/
theorem fixup_line_unchanged_iff_count_zero (sign x : K) (xs : List K) :
    (ChainNoInv sign x xs → fixLine sign (x :: xs) = x :: xs) ∧
    (lineCount sign (x :: xs) = 0 ↔ fixLine sign (x :: xs) = x :: xs) := by
  refine ⟨fun h => fixLine_eq_of_chain h, ?_⟩
  show clampCount sign x xs = 0 ↔ x :: clampList sign x xs = x :: xs
  rw [clampCount_eq_zero_iff]; simp

/-- **`fixupZCORN` is idempotent** on whole ZCORN arrays of every grid with `nx, ny, nz ≥ 1`: the
lines of the adjusted array are the adjusted lines (`ZcornMapper::index` is a bijection), the
direction `sign` read off the adjusted array is that of the input, and a second call adjusts
nothing and returns 0. -/
theorem fixup_idempotent (d : Dims) (hx : 0 < d.nx) (hy : 0 < d.ny) (hz : 0 < d.nz) (z : Nat → K) :
    (fixupG d (fixupG d z).2).2 = (fixupG d z).2 ∧ (fixupG d (fixupG d z).2).1 = 0 :=
  ⟨fixupG_idem d hx hy hz z, fixupCount_fixupEntry d hx hy hz z⟩

/-- `save_writes_current_geometry` with the real fix-up: no idempotence hypothesis left. -/
theorem save_writes_current_geometry_fixup (abs : K → K) (d : Dims) (hx : 0 < d.nx) (hy : 0 < d.ny)
    (hz : 0 < d.nz) (coord zcorn : Nat → K) (act : Option (List Int)) (ops : List (Op K))
    (hops : Effects.source.copyZ = .keep → ∀ op ∈ ops, op.isCopyZ = false) :
    let s := run abs fixupG (initCornerPoint fixupG d coord zcorn act) ops
    s.savedCoord = s.coord ∧ (fixupG s.d s.savedZcorn).2 = s.zcorn :=
  save_writes_current_geometry abs fixupG d (fun z => fixupG_idem d hx hy hz z) coord zcorn act ops hops

end Fixup

/-- A line over ℚ with two inversions: adjusted to its running maximum, two stores counted. -/
example : fixLine (1 : ℚ) [1, 3, 2, 5, 4] = [1, 3, 3, 5, 5] ∧ lineCount (1 : ℚ) [1, 3, 2, 5, 4] = 2 ∧
    fixLine (-1 : ℚ) [5, 3, 4, 1] = [5, 3, 3, 1] := by
  decide +kernel

/-- **Witness (finding).**  With a copy constructor that keeps the source's `m_input_zcorn`
(the working tree at the time of writing), `EclipseGrid(src, zcorn', actnum)` followed by
`save()` writes the *old* ZCORN: in memory the bottom corner is at 2, the saved one at 1. -/
theorem copyZ_keep_breaks_save :
    let s := runWith { resetAll := .drop, resetMask := .drop, copyZ := .keep } (fun x => x) witnessFix
      witnessState witnessOps
    s.zcorn 4 = 2 ∧ s.savedZcorn 4 = 1 :=
  OpmVerif.Grid.copyZ_keep_breaks_save

/-- … and with `m_input_zcorn.reset()` in that constructor the saved corner is the current one. -/
theorem copyZ_reset_saves_current :
    let s := runWith { resetAll := .drop, resetMask := .drop, copyZ := .reset } (fun x => x) witnessFix
      witnessState witnessOps
    s.zcorn 4 = 2 ∧ s.savedZcorn 4 = 2 :=
  OpmVerif.Grid.copyZ_reset_saves_current

/-- Non-vacuity: a 2×1×1 grid over ℤ with one active cell; the cache is filled, ACTNUM is set to
the other cell (same number of active cells) and the cache is filled again: the object then
holds a cache for the *new* active cell, and the hypotheses of `object_invariant` hold. -/
example :
    let s0 : GState Int := initCornerPoint witnessFix ⟨2, 1, 1⟩ (fun i => (i : Int)) (fun i => if i < 8 then 0 else 1) (some [1, 0])
    let s := run (fun x => x) witnessFix s0 [.activeVolume, .reset [0, 1], .activeVolume]
    s0.Inv (fun x => x) ∧ s.maps.a2g = [1] ∧ s.cache.isSome = true ∧ s.actnum = [0, 1] := by
  refine ⟨inv_initCornerPoint _ _ _ _ _ _ (by intro a h; cases h; rfl), by decide, by decide, by decide⟩

/-- Non-vacuity of `save_writes_current_geometry`: the trivial fix-up is idempotent and a
sequence without ZCORN replacement satisfies the side condition. -/
example : (∀ z, (witnessFix ⟨1, 1, 1⟩ (witnessFix ⟨1, 1, 1⟩ z).2).2 = (witnessFix ⟨1, 1, 1⟩ z).2) ∧
    (∀ op ∈ ([.activeVolume, .copyA [1], .save] : List (Op Int)), op.isCopyZ = false) := by
  refine ⟨fun _ => rfl, ?_⟩
  intro op hop
  simp only [List.mem_cons, List.mem_nil_iff, or_false] at hop
  rcases hop with rfl | rfl | rfl <;> rfl

/-! # Third round: MINPV, bijection, distorted-cell identities, radial grids, GRIDUNIT, MapAxes -/

open OpmVerif.GridExt

/-- **global ↔ active is a bijection for every ACTNUM** (any integers, `> 0` = active):
`a ↦ m_active_to_global[a]` is defined exactly on `[0, nactive)`, maps into the cells with
ACTNUM > 0 (with `activeIndex` as inverse), is injective, and reaches every cell with ACTNUM > 0. -/
theorem active_global_bijection (act : List Int) :
    let m := resetACTNUM act
    (∀ a, a < m.nactive ↔ ∃ g, globalOfActive m a = some g) ∧
    (∀ a g, globalOfActive m a = some g → g < act.length ∧ (∃ v, act[g]? = some v ∧ v > 0) ∧
        activeIndex m g = some a) ∧
    (∀ a b g, globalOfActive m a = some g → globalOfActive m b = some g → a = b) ∧
    (∀ g v, act[g]? = some v → v > 0 → ∃ a, a < m.nactive ∧ globalOfActive m a = some g) :=
  active_map_bijection act

example : (resetACTNUM [0, 2, -1, 1, 1]).a2g = [1, 3, 4] ∧ (resetACTNUM [0, 2, -1, 1, 1]).nactive = 3 := by
  decide

section MinpvRule
variable {α : Type} [LE α] [DecidableLE α]

/-- **`cellActiveAfterMINPV`**: for every cell in range the answer is: ACTNUM > 0 and (MINPV mode
`Inactive` or `porv ≥ m_minpvVector[g]`); beyond the grid it throws. -/
theorem minpv_cell_rule (n : Nat) (actnum : List Int) (s : Minpv α) (g : Nat) (porv : α) :
    (n ≤ g → cellActiveAfterMINPV n actnum s g porv = none) ∧
    (∀ a m, g < n → actnum[g]? = some a → s.vec[g]? = some m →
      ∃ b, cellActiveAfterMINPV n actnum s g porv = some b ∧
        (b = true ↔ a > 0 ∧ (s.mode = .inactive ∨ m ≤ porv))) := by
  refine ⟨fun h => by unfold cellActiveAfterMINPV; rw [if_pos h], fun a m hg ha hm => ?_⟩
  exact ⟨_, cellActiveAfterMINPV_eq n actnum s g porv hg ha hm, keeps_iff _ _ _ _⟩

end MinpvRule

section Minpv
variable {α : Type} [Add α] [Sub α] [Mul α] [Div α] [Neg α] [NatCast α] [BEq α] [LE α] [DecidableLE α]

/-- **A MINPV pass on one object** (`resetACTNUM` with the mask the rule produces), after any
history satisfying the object invariant, for the operations as they are in the working tree:
dims / COORD / ZCORN untouched, invariant re-established, `getCellVolume` of **every** cell —
kept or removed — unchanged, cell `g` active afterwards iff it was active and (mode `Inactive` or
`porv[g] ≥ minpv[g]`), and the number of active cells does not grow. -/
theorem minpv_pass_changes_activity_only (abs : α → α) (fix : Dims → (Nat → α) → Nat × (Nat → α))
    (s : GState α) (h : s.Inv abs) (mp : Minpv α) (porv : List α)
    (hm : mp.vec.length = s.d.size) (hp : porv.length = s.d.size) :
    let s' := step abs fix s (.reset (minpvMask s.actnum mp porv))
    s'.d = s.d ∧ s'.coord = s.coord ∧ s'.zcorn = s.zcorn ∧ s'.Inv abs ∧
    (∀ g, s'.getCellVolume abs g = s.getCellVolume abs g) ∧
    (∀ g a m p, s.actnum[g]? = some a → mp.vec[g]? = some m → porv[g]? = some p →
      (s'.cellActive g = true ↔ a > 0 ∧ (mp.mode = .inactive ∨ m ≤ p))) ∧
    s'.maps.nactive ≤ s.maps.nactive :=
  minpv_pass Effects.source reset_drops_cache_in_source abs fix s h mp porv hm hp

end Minpv

section MinpvRule2
variable {α : Type} [LE α] [DecidableLE α]

/-- The pass is idempotent, and with MINPV not in use it leaves the index maps as they are. -/
theorem minpv_pass_idempotent (actnum : List Int) (mp : Minpv α) (porv : List α) :
    minpvMask (minpvMask actnum mp porv) mp porv = minpvMask actnum mp porv :=
  maskGo_idem _ _ _ _

theorem minpv_inactive_mode_keeps_maps (actnum : List Int) (v porv : List α)
    (hv : actnum.length = v.length) (hp : actnum.length = porv.length) :
    resetACTNUM (minpvMask actnum { mode := .inactive, vec := v } porv) = resetACTNUM actnum := by
  simp only [resetACTNUM, minpvMask, maskGo_inactive_g2a _ _ _ _ hv hp, maskGo_inactive_a2g _ _ _ _ hv hp,
    maskGo_inactive_num _ _ _ hv hp]

end MinpvRule2

/-- `setMINPVV` replaces the vector (and switches MINPV on) for a vector of the grid's size and
throws otherwise; `MINPV`/`MINPORV` fill the vector with one value. -/
theorem minpv_setters {α : Type} [NatCast α] (n : Nat) (s : Minpv α) (v : List α) (x : α) :
    (v.length = n → Minpv.setMINPVV n s v = some { mode := .eclStd, vec := v }) ∧
    (v.length ≠ n → Minpv.setMINPVV n s v = none) ∧
    (Minpv.init n (some x)).vec.length = n ∧ (Minpv.init n (none : Option α)).mode = .inactive := by
  refine ⟨fun h => by simp [Minpv.setMINPVV, h], fun h => by simp [Minpv.setMINPVV, h], ?_, rfl⟩
  simp [Minpv.init]

/-- Non-vacuity: three cells over ℤ, thresholds 5; the first falls below, the second is inactive
anyway, the third stays. -/
example : minpvMask [1, 0, 2] ({ mode := .eclStd, vec := [5, 5, 5] } : Minpv Int) [4, 9, 5] = [0, 0, 2] ∧
    minpvMask [1, 0, 2] ({ mode := .inactive, vec := [5, 5, 5] } : Minpv Int) [4, 9, 5] = [1, 0, 2] ∧
    cellActiveAfterMINPV 3 [1, 0, 2] ({ mode := .eclStd, vec := [5, 5, 5] } : Minpv Int) 2 5 = some true := by
  decide

section DistortedCells
variable {K : Type} [Field K] [CharZero K]

/-- **Queries of one distorted cell are coherent**, for arbitrary corners (24 free coordinates):
`getCellDepth` is the z of `getCellCenter`, `getCellDims[2]` is `getCellThickness`. -/
theorem depth_center_thickness_coherent (sqrt : K → K) (c : Corners K) :
    cellDepth c = (cellCenter c).2.2 ∧ (cellDims sqrt c).2.2 = cellThickness c :=
  ⟨depth_eq_center_z c, rfl⟩

/-- **Subdivision, arbitrary corners**: cutting in k: thicknesses add up, depth and centre of the
parent are the means of the halves; cutting in i or j: centre and thickness are the means. -/
theorem queries_under_subdivision (c : Corners K) :
    cellThickness (splitLower c) + cellThickness (splitUpper c) = cellThickness c ∧
    cellDepth c = (cellDepth (splitLower c) + cellDepth (splitUpper c)) / 2 ∧
    cellThickness c = (cellThickness (splitLowerI c) + cellThickness (splitUpperI c)) / 2 ∧
    cellThickness c = (cellThickness (splitLowerJ c) + cellThickness (splitUpperJ c)) / 2 :=
  ⟨thickness_additive_k c, depth_split_k c, thickness_split_i c, thickness_split_j c⟩

theorem center_under_subdivision (c : Corners K) :
    cellCenter c =
      (((cellCenter (splitLower c)).1 + (cellCenter (splitUpper c)).1) / 2,
       ((cellCenter (splitLower c)).2.1 + (cellCenter (splitUpper c)).2.1) / 2,
       ((cellCenter (splitLower c)).2.2 + (cellCenter (splitUpper c)).2.2) / 2) ∧
    cellCenter c =
      (((cellCenter (splitLowerI c)).1 + (cellCenter (splitUpperI c)).1) / 2,
       ((cellCenter (splitLowerI c)).2.1 + (cellCenter (splitUpperI c)).2.1) / 2,
       ((cellCenter (splitLowerI c)).2.2 + (cellCenter (splitUpperI c)).2.2) / 2) ∧
    cellCenter c =
      (((cellCenter (splitLowerJ c)).1 + (cellCenter (splitUpperJ c)).1) / 2,
       ((cellCenter (splitLowerJ c)).2.1 + (cellCenter (splitUpperJ c)).2.1) / 2,
       ((cellCenter (splitLowerJ c)).2.2 + (cellCenter (splitUpperJ c)).2.2) / 2) :=
  ⟨center_split_k c, center_split_i c, center_split_j c⟩

/-- **GRIDUNIT**: multiplying every coordinate by `s` multiplies the signed volume by `s³`
(arbitrary corners). -/
theorem vol_scales_with_cube (s : K) (c : Corners K) :
    signedVolume (scaleCorners s c) = s ^ 3 * signedVolume c :=
  signedVolume_scaleCorners s c

end DistortedCells

/-- `getCellCorners` commutes with `apply_GRIDUNIT` on COORD and ZCORN (`s ≠ 0`; degenerate
pillars `zt == zb` stay degenerate), for every cell of every grid. -/
theorem gridunit_rescales_corners {K : Type} [Field K] [DecidableEq K] {s : K} (hs : s ≠ 0) (d : Dims)
    (coord zcorn : Nat → K) (i j k : Nat) :
    let c := cellCorners d (applyGridunit s coord) (applyGridunit s zcorn) i j k
    let c0 := scaleCorners s (cellCorners d coord zcorn i j k)
    (∀ n, c.X n = c0.X n) ∧ (∀ n, c.Y n = c0.Y n) ∧ (∀ n, c.Z n = c0.Z n) :=
  cellCorners_applyGridunit hs d coord zcorn i j k

/-- Non-vacuity: a twisted cell over ℚ scaled by 3: volume × 27. -/
example :
    let c : Corners ℚ := { X := fun n => if n % 2 = 1 then 2 else 0,
                            Y := fun n => if n / 2 % 2 = 1 then 3 else 0,
                            Z := fun n => if n = 7 then 5 else if n ≥ 4 then 4 else 0 }
    signedVolume (scaleCorners 3 c) = 27 * signedVolume c := by
  intro c
  have := vol_scales_with_cube (3 : ℚ) c
  rw [this]; norm_num

section RadialGrids
variable {K : Type} [Field K] [LinearOrder K] [IsStrictOrderedRing K]

/-- **Radial cell volume** (`calculateCylindricalCellVol`) is non-negative and additive under
subdivision of a cell in r, in θ and in z (`0 ≤ r_i ≤ r_m ≤ r_o`, non-negative Δθ, Δz). -/
theorem radial_volume_additive (pi ri rm ro t1 t2 z1 z2 : K) (hpi : 0 ≤ pi) (h0 : 0 ≤ ri) (h1 : ri ≤ rm)
    (h2 : rm ≤ ro) (ht1 : 0 ≤ t1) (ht2 : 0 ≤ t2) (hz1 : 0 ≤ z1) (hz2 : 0 ≤ z2) :
    0 ≤ cylVol pi (fun x => |x|) ri ro t1 z1 ∧
    cylVol pi (fun x => |x|) ri rm t1 z1 + cylVol pi (fun x => |x|) rm ro t1 z1 = cylVol pi (fun x => |x|) ri ro t1 z1 ∧
    cylVol pi (fun x => |x|) ri ro t1 z1 + cylVol pi (fun x => |x|) ri ro t2 z1 = cylVol pi (fun x => |x|) ri ro (t1 + t2) z1 ∧
    cylVol pi (fun x => |x|) ri ro t1 z1 + cylVol pi (fun x => |x|) ri ro t1 z2 = cylVol pi (fun x => |x|) ri ro t1 (z1 + z2) :=
  ⟨cylVol_nonneg pi ri ro t1 z1 hpi, cylVol_additive_r pi ri rm ro t1 z1 h0 h1 h2 ht1 hz1,
   cylVol_additive_theta pi ri ro t1 t2 z1 h0 (le_trans h1 h2) ht1 ht2 hz1,
   cylVol_additive_z pi ri ro t1 z1 z2 h0 (le_trans h1 h2) ht1 hz1 hz2⟩

/-- **A layer of a RADIAL grid** with any number of rings (DRV ≥ 0, INRAD ≥ 0) and sectors
(DTHETAV ≥ 0): the cell volumes add up to `π (R² − r₀²) (ΣΔθ / 360) Δz`, the exact volume of the
annulus sector. -/
theorem radial_layer_total (pi inrad dz : K) (drv dth : Nat → K) (h0 : 0 ≤ inrad) (hd : ∀ n, 0 ≤ drv n)
    (ht : ∀ j, 0 ≤ dth j) (hz : 0 ≤ dz) (nx ny : Nat) :
    runSum (fun i => runSum (fun j =>
        cylVol pi (fun x => |x|) (radii inrad drv i) (radii inrad drv (i + 1)) (dth j) dz) ny) nx =
      pi * ((radii inrad drv nx * radii inrad drv nx - inrad * inrad) * totalAngle dth ny * dz) / 360 :=
  layer_total pi inrad dz drv dth h0 hd ht hz nx ny

end RadialGrids

/-- **`getCellVolume` of a RADIAL grid**: for the ZCORN array `initSpiderwebOrCylindricalGrid`
builds, read back through the real corner index arithmetic, the radial branch returns the
cylinder-sector volume of ring `i`, sector `j` with the cell's own DZ — for every cell of every
grid, every COORD. -/
theorem radial_cell_volume {K : Type} [Field K] [DecidableEq K] (pi : K) (abs : K → K) (d : Dims)
    (rv thetav coord dz tops : Nat → K) {i j k : Nat} (hi : i < d.nx) (hj : j < d.ny) :
    radialCellVolume pi abs d rv thetav coord (zcornRadial d dz tops) (getGlobalIndex d i j k) =
      cylVol pi abs (rv i) (rv (i + 1)) (thetav j) (dz (i + j * d.nx + k * d.nx * d.ny)) :=
  radialCellVolume_eq pi abs d rv thetav coord dz tops hi hj

/-- Non-vacuity over ℚ (π replaced by 3): two rings, two sectors of 180°, `r = 1, 2, 4`:
total = 3·(16 − 1)·(360/360)·2 = 90. -/
example :
    runSum (fun i => runSum (fun j =>
        cylVol (3 : ℚ) (fun x => |x|) (radii 1 (fun n => if n = 0 then 1 else 2) i)
          (radii 1 (fun n => if n = 0 then 1 else 2) (i + 1)) ((fun _ => 180) j) 2) 2) 2 = 90 := by
  rw [radial_layer_total (3 : ℚ) 1 2 _ _ (by norm_num) (fun n => by split <;> norm_num) (fun _ => by norm_num)
    (by norm_num)]
  simp [radii, totalAngle, runSum]; norm_num

section MapAxesThms
variable {K : Type} [Field K]

/-- **`MapAxes::inv_transform` and `MapAxes::transform` are mutually inverse** for the object built
by `MapAxes::init` from three non-collinear points (whatever `length_factor`, whatever non-zero
values the two `hypot` calls returned). -/
theorem mapaxes_transform_inverse (lf x1 y1 x2 y2 x3 y3 hx hy : K) (hhx : hx ≠ 0) (hhy : hy ≠ 0)
    (hcol : (x3 - x2) * (y1 - y2) - (y3 - y2) * (x1 - x2) ≠ 0) (x y : K) :
    let m := MapAxes.init lf x1 y1 x2 y2 x3 y3 hx hy
    m.invTransform (m.transform x y).1 (m.transform x y).2 = (x, y) ∧
    m.transform (m.invTransform x y).1 (m.invTransform x y).2 = (x, y) :=
  mapaxes_init_inverse lf x1 y1 x2 y2 x3 y3 hx hy hhx hhy hcol x y

end MapAxesThms

/-- Non-vacuity over ℚ: axes `(0,5) (0,0) (3,0)` with exact norms 3 and 5, origin shifted. -/
example :
    let m := MapAxes.init (1 : ℚ) 10 25 10 20 13 20 3 5
    m.transform 2 7 = (12, 27) ∧ m.invTransform 12 27 = (2, 7) := by
  decide +kernel

/-! ## Fourth round: TOPS for more than one layer, numerical-aquifer cells, bottom-face normal -/

section TopsThms
open OpmVerif.GridTops
variable {α : Type} [Add α] [Sub α] [LT α] [DecidableLT α]

/-- **`createTOPSVector`, layer by layer** — every `abs`, every tolerance, every number `n0` of TOPS
values in the deck, every DZ, every grid size with `nx, ny ≥ 1` (`A = nx·ny`):
fewer than `A` values ⇒ throws; otherwise the result `T` satisfies
(1) first layer: `T[t]` is the input value;
(2) **layers for which no TOPS was given are contiguous**: `T[t] = T[t-A] + DZ[t-A]` (top of layer
`k+1` = bottom of layer `k`, the same double);
(3) layers for which TOPS was given: either the bottom of the layer above is closer than the
tolerance to the given value and replaces it (contiguous, the same double), or the given value is
kept exactly. -/
theorem tops_vector_layers (abs : α → α) (tol : α) (d : Dims) (n0 : Nat) (dz inp : Nat → α)
    (hx : 0 < d.nx) (hy : 0 < d.ny) :
    (n0 < d.nx * d.ny → createTOPS abs tol d n0 dz inp = none) ∧
    (d.nx * d.ny ≤ n0 → ∃ T, createTOPS abs tol d n0 dz inp = some T ∧
      (∀ t, t < d.nx * d.ny → T t = inp t) ∧
      (∀ t, d.nx * d.ny ≤ t → n0 ≤ t → T t = T (t - d.nx * d.ny) + dz (t - d.nx * d.ny)) ∧
      (∀ t, d.nx * d.ny ≤ t → t < n0 →
        (abs (T (t - d.nx * d.ny) + dz (t - d.nx * d.ny) - inp t) < tol ∧
          T t = T (t - d.nx * d.ny) + dz (t - d.nx * d.ny)) ∨
        (¬ abs (T (t - d.nx * d.ny) + dz (t - d.nx * d.ny) - inp t) < tol ∧ T t = inp t))) := by
  have ha : 0 < d.nx * d.ny := Nat.mul_pos hx hy
  refine ⟨fun h => by unfold createTOPS; rw [if_pos h], fun h => ⟨_, by unfold createTOPS; rw [if_neg (by omega)], ?_, ?_, ?_⟩⟩
  · exact fun t ht => topsEntry_first abs tol _ n0 dz inp ht
  · exact fun t ht hn => topsEntry_stacked abs tol _ n0 dz inp ha ht hn
  · exact fun t ht hn => topsEntry_given abs tol _ n0 dz inp ha ht hn

/-- **The result is a fixed point**: written back as a complete TOPS keyword (or any longer one),
`createTOPSVector` returns it unchanged — every entry of the `nz` layers. -/
theorem tops_vector_fixed_point (abs : α → α) (tol : α) (d : Dims) (n0 n0' : Nat) (dz inp : Nat → α)
    (hx : 0 < d.nx) (hy : 0 < d.ny) (hcov : d.nx * d.ny * d.nz ≤ n0') {t : Nat}
    (ht : t < d.nx * d.ny * d.nz) :
    topsEntry abs tol (d.nx * d.ny) n0' dz (topsEntry abs tol (d.nx * d.ny) n0 dz inp) t =
      topsEntry abs tol (d.nx * d.ny) n0 dz inp t :=
  topsEntry_idem abs tol _ n0 dz inp n0' d.nz (Nat.mul_pos hx hy) hcov ht

/-- **What the geometry reads** (the code as it is): the ZCORN `makeZcornDzTops` builds from the
vector returned by `createTOPSVector` is that of the input's first layer stacked with DZ, whatever
was given for the lower layers. -/
theorem tops_geometry_reads_first_layer (abs : α → α) (tol : α) (d : Dims) (n0 : Nat) (dz inp : Nat → α)
    {i j : Nat} (hi : i < d.nx) (hj : j < d.ny) (k c : Nat) :
    zcornCellDTops d dz (topsEntry abs tol (d.nx * d.ny) n0 dz inp) i j k c =
      zcornCellDTops d dz inp i j k c :=
  zcornCell_of_created abs tol n0 dz inp d hi hj k c

/-- **Whichever layers `makeZcornDzTops` reads** (`Gen/GridTops.lean`, regenerated from the working
tree: the first layer only — the tree as found — or every layer — the candidate patch of finding
11): when the column has no given gap / overlap of the tolerance or more, the ZCORN corner built
from the created vector is the first-layer stack of the input. -/
theorem tops_geometry_gap_free (m : Gen.GridTops.TopsLayers) (abs : α → α) (tol : α) (d : Dims) (n0 : Nat)
    (dz inp : Nat → α) {i j : Nat} (hi : i < d.nx) (hj : j < d.ny)
    (hstack : ∀ k, i + j * d.nx + (k + 1) * (d.nx * d.ny) < n0 →
      abs (zTopsAt d dz inp i j k + dz (i + j * d.nx + k * d.nx * d.ny) -
        inp (i + j * d.nx + (k + 1) * (d.nx * d.ny))) < tol) (k c : Nat) :
    zcornCellOf m d dz (topsEntry abs tol (d.nx * d.ny) n0 dz inp) i j k c =
      zcornCellDTops d dz inp i j k c := by
  cases m
  · exact zcornCell_of_created abs tol n0 dz inp d hi hj k c
  · exact zcornCellFull_eq_stack abs tol n0 dz inp d hi hj hstack k c

/-- With the every-layer reading the top of every cell *is* its TOPS-vector entry and the bottom
is that entry plus DZ — gaps kept by `createTOPSVector` reach the geometry. -/
theorem tops_geometry_every_layer (d : Dims) (dz T : Nat → α) (i j k : Nat) :
    zcornCellOf .everyLayer d dz T i j k 0 = T (i + j * d.nx + k * d.nx * d.ny) ∧
    zcornCellOf .everyLayer d dz T i j k 4 =
      T (i + j * d.nx + k * d.nx * d.ny) + dz (i + j * d.nx + k * d.nx * d.ny) :=
  ⟨rfl, rfl⟩

end TopsThms

/-- Non-vacuity and witness of the recorded observation (ℤ, tolerance 1): one column of three
layers, DZ = 2, TOPS `10 12 20`: layer 2 is snapped/contiguous (12 = 10 + 2), layer 3 keeps its
gap in the TOPS vector (20, not 14) — but the ZCORN built from that vector puts the top of layer 3
at 14: the retained gap does not reach the geometry. -/
example :
    let inp : Nat → Int := fun t => [10, 12, 20].getD t 0
    let T := GridTops.topsEntry (fun x : Int => if x < 0 then -x else x) 1 1 3 (fun _ => 2) inp
    (T 0, T 1, T 2) = (10, 12, 20) ∧
    zcornCellDTops ⟨1, 1, 3⟩ (fun _ => 2) T 0 0 2 0 = 14 ∧
    GridTops.zcornCellOf .everyLayer ⟨1, 1, 3⟩ (fun _ => 2) T 0 0 2 0 = 20 := by
  decide

/-- Only two of three layers given, the second 3 below the stack: kept; the third is stacked on it. -/
example :
    let inp : Nat → Int := fun t => [10, 15].getD t 0
    let T := GridTops.topsEntry (fun x : Int => if x < 0 then -x else x) 1 1 2 (fun _ => 2) inp
    (T 0, T 1, T 2) = (10, 15, 17) := by
  decide

section TopsField
open OpmVerif.GridTops
variable {K : Type} [Field K] [LinearOrder K] [IsStrictOrderedRing K]

/-- **Given TOPS are honoured**: every entry for which a value was given differs from it by less
than the tolerance (ordered field, `abs = |·|`, `tol > 0`). -/
theorem tops_given_honoured (tol : K) (htol : 0 < tol) (d : Dims) (n0 : Nat) (dz inp : Nat → K)
    (hx : 0 < d.nx) (hy : 0 < d.ny) {t : Nat} (hn : t < n0) :
    |topsEntry (fun x => |x|) tol (d.nx * d.ny) n0 dz inp t - inp t| < tol :=
  topsEntry_near_input tol htol _ n0 dz inp (Nat.mul_pos hx hy) hn

/-- **The grid of a DX/DY/DZ/TOPS deck with TOPS for any number of layers** (DX depending on `i`,
DY on `j`): cell `(i,j,k)` read back through the real corner arithmetic from the arrays of
`initDTOPSGrid` (`createTOPSVector` → `makeCoordDxDyDzTops` / `makeZcornDzTops`) is the box with
top `tops_{ij} + Σ_{k'<k} dz`; and when the column has no given gap / overlap of `tol` or more,
that top *is* the TOPS-vector entry of the cell, within `tol` of the given value: given TOPS are
honoured by the geometry, stacked layers are contiguous. -/
theorem tops_deck_geometry (tol : K) (htol : 0 < tol) (d : Dims) (n0 : Nat) {dx dy dxv dyv : Nat → K}
    (dz inp : Nat → K) (hx : 0 < d.nx) (hy : 0 < d.ny) (hz : 0 < d.nz) (hdx : DependsOnI d dx dxv)
    (hdy : DependsOnJ d dy dyv) {i j k : Nat} (hi : i < d.nx) (hj : j < d.ny) :
    let T := topsEntry (fun x => |x|) tol (d.nx * d.ny) n0 dz inp
    IsBox (cellCorners d (coordDTops d dx dy dz T) (zcornDTops d dz T) i j k)
      (runSum dxv i) (dxv i) (runSum dyv j) (dyv j)
      (zTopsAt d dz inp i j k) (dz (i + j * d.nx + k * d.nx * d.ny)) ∧
    ((∀ k', i + j * d.nx + (k' + 1) * (d.nx * d.ny) < n0 →
        |zTopsAt d dz inp i j k' + dz (i + j * d.nx + k' * d.nx * d.ny) -
          inp (i + j * d.nx + (k' + 1) * (d.nx * d.ny))| < tol) →
      zTopsAt d dz inp i j k = T (i + j * d.nx + k * (d.nx * d.ny)) ∧
      (i + j * d.nx + k * (d.nx * d.ny) < n0 →
        |T (i + j * d.nx + k * (d.nx * d.ny)) - inp (i + j * d.nx + k * (d.nx * d.ny))| < tol)) :=
  ⟨tops_deck_cell_is_box tol d n0 dz inp hx hy hz hdx hdy hi hj,
   fun hs => tops_deck_top_is_tops_entry tol htol d n0 dz inp hi hj hs k⟩

end TopsField

/-- Non-vacuity over ℚ: 1×1×2, DZ = 1, TOPS `1000 1001.0000005` (tolerance 10⁻⁶): honoured within
the tolerance, and snapped to the stack. -/
example :
    let inp : Nat → ℚ := fun t => [1000, 1001 + 5 / 10000000].getD t 0
    GridTops.topsEntry (fun x : ℚ => |x|) (1 / 1000000) 1 2 (fun _ => 1) inp 1 = 1001 := by
  simp [GridTops.topsEntry, GridTops.topsAt, GridTops.topsStep]
  norm_num [abs_lt]

/-! ### Numerical-aquifer cells -/

section Aquifer
open OpmVerif.GridTops

/-- **Aquifer cells are active whatever the mask**: after `resetACTNUM(mask)` on an object whose
deck named the cells `aq` in AQUNUM, every such cell has ACTNUM 1, an active index, and the active
index maps back to it — every mask, every set of aquifer cells. -/
theorem aquifer_cells_forced_active (aq : List Nat) (mask : List Int) {g : Nat} (hg : g < mask.length)
    (hq : g ∈ aq) :
    (forceAq aq 0 mask)[g]? = some 1 ∧
    ∃ a, activeIndex (resetACTNUMAq aq mask) g = some a ∧ a < (resetACTNUMAq aq mask).nactive ∧
      globalOfActive (resetACTNUMAq aq mask) a = some g :=
  aquifer_cell_active aq mask hg hq

/-- **All other cells follow the mask** (value kept; active iff `> 0`). -/
theorem aquifer_other_cells_follow_mask (aq : List Nat) (mask : List Int) {g : Nat} {v : Int}
    (hv : mask[g]? = some v) (hq : g ∉ aq) :
    (forceAq aq 0 mask)[g]? = some v ∧
    (v > 0 → ∃ a, activeIndex (resetACTNUMAq aq mask) g = some a) ∧
    (¬ v > 0 → activeIndex (resetACTNUMAq aq mask) g = none) :=
  non_aquifer_cell aq mask hv hq

/-- The forcing keeps the length, is idempotent (a second `resetACTNUM` with the stored ACTNUM
changes nothing), never lowers the number of active cells, is the identity without AQUNUM, and the
resulting maps are those of the plain `resetACTNUM` loop on the forced mask — so every index
theorem of the first three rounds (`active_global_bijection`, …) applies to them. -/
theorem aquifer_forcing_laws (aq : List Nat) (mask : List Int) :
    (forceAq aq 0 mask).length = mask.length ∧
    forceAq aq 0 (forceAq aq 0 mask) = forceAq aq 0 mask ∧
    (resetACTNUM mask).nactive ≤ (resetACTNUMAq aq mask).nactive ∧
    forceAq [] 0 mask = mask ∧
    resetACTNUMAq aq mask = resetACTNUM (forceAq aq 0 mask) :=
  ⟨forceAq_length aq 0 mask, forceAq_idem aq 0 mask, nactive_forceAq_ge aq mask, forceAq_nil 0 mask, rfl⟩

/-- **Depth override**: `getCellDepth(g)` is the geometric depth for every cell that is not named
in AQUNUM and for every aquifer cell whose records all default DEPTH; it is `v` when a record
`(g, v)` is not followed by another record of `g` with an explicit DEPTH (later records with a
defaulted DEPTH do not remove the override). -/
theorem aquifer_depth_override {α : Type} (geom : Nat → α) :
    (∀ rs : List (AquRecord α), ∀ g, g ∉ aquCells rs → cellDepthAq rs geom g = geom g) ∧
    (∀ rs : List (AquRecord α), ∀ g, (∀ r ∈ rs, r.cell = g → r.depth = none) → cellDepthAq rs geom g = geom g) ∧
    (∀ (rs₁ rs₂ : List (AquRecord α)) (g : Nat) (v : α), (∀ r ∈ rs₂, r.cell = g → r.depth = none) →
      cellDepthAq (rs₁ ++ ⟨g, some v⟩ :: rs₂) geom g = v) :=
  ⟨fun rs _ h => cellDepthAq_not_aquifer rs geom h, fun rs _ h => cellDepthAq_no_depth rs geom h,
   fun rs₁ rs₂ g v h => by unfold cellDepthAq; rw [aquDepth_last rs₁ rs₂ g v h]⟩

end Aquifer

/-- Non-vacuity: cells 0 and 3 are aquifer cells, the mask deactivates everything but cell 2;
cell 0 has two explicit depths (the later one wins) followed by a defaulted one. -/
example :
    GridTops.forceAq [0, 3] 0 [0, 0, 5, 0, -1] = [1, 0, 5, 1, -1] ∧
    (GridTops.resetACTNUMAq [0, 3] [0, 0, 5, 0, -1]).a2g = [0, 2, 3] ∧
    (let rs : List (GridTops.AquRecord Int) := [⟨0, some 7⟩, ⟨3, none⟩, ⟨0, some 9⟩, ⟨0, none⟩]
     (List.range 5).map (GridTops.cellDepthAq rs (fun g => 100 + g)) = [9, 101, 102, 103, 104]) := by
  decide

/-! ### getCellAndBottomCenterNormal -/

section BottomNormal
open OpmVerif.GridTops
variable {K : Type} [Field K] [CharZero K]

/-- **The bottom-face normal of `getCellAndBottomCenterNormal`** for arbitrary corners (planar or
not) is half the cross product of the face diagonals, `½ (P₇ − P₄) × (P₆ − P₅)` — the area vector
of the quadrilateral 4-5-7-6, independent of the centre point the four triangles are hung on. -/
theorem bottom_normal_is_half_diagonal_cross (c : Corners K) :
    (bottomCenterNormal (1 / 2 : K) c).2.2 =
      ((1 / 2 : K) * (cross (vsub (cornerPt c 7) (cornerPt c 4)) (vsub (cornerPt c 6) (cornerPt c 5))).1,
       (1 / 2 : K) * (cross (vsub (cornerPt c 7) (cornerPt c 4)) (vsub (cornerPt c 6) (cornerPt c 5))).2.1,
       (1 / 2 : K) * (cross (vsub (cornerPt c 7) (cornerPt c 4)) (vsub (cornerPt c 6) (cornerPt c 5))).2.2) :=
  bottomNormal_eq_diagonals c

/-- On a box cell (whatever input form produced it): bottom centre = centre of the bottom
rectangle, normal = `(0, 0, dx·dy)` (area of the face, pointing to larger depth); the first
component is `getCellCenter` by definition. -/
theorem bottom_normal_of_box [DecidableEq K] {c : Corners K} {x0 dx y0 dy z0 dz : K}
    (h : IsBox c x0 dx y0 dy z0 dz) :
    (bottomCenterNormal (1 / 2 : K) c).1 = cellCenter c ∧
    (bottomCenterNormal (1 / 2 : K) c).2.1 = (x0 + dx / 2, y0 + dy / 2, z0 + dz) ∧
    (bottomCenterNormal (1 / 2 : K) c).2.2 = (0, 0, dx * dy) :=
  ⟨rfl, box_bottomCenterNormal h⟩

end BottomNormal

/-- Non-vacuity over ℚ: a sheared, non-planar bottom face. -/
example :
    let c : Corners ℚ := ⟨fun n => [0, 2, 0, 2, 1, 3, 1, 4].getD n 0, fun n => [0, 0, 3, 3, 0, 0, 3, 3].getD n 0,
      fun n => [0, 0, 0, 0, 5, 5, 6, 7].getD n 0⟩
    (GridTops.bottomCenterNormal (1 / 2 : ℚ) c).2.2 = (-3 / 2, -7 / 2, 15 / 2) := by
  intro c
  rw [bottom_normal_is_half_diagonal_cross]
  simp [GridTops.cross, GridTops.vsub, GridTops.cornerPt, c]
  norm_num

/-- **`isValidCellGeomtry`** (any linear order, any `abs`, any threshold / separation): the answer
is `true` exactly when every corner coordinate is below the threshold in absolute value and at
least one of the four vertical edges is longer than the minimum separation. -/
theorem cell_validity_rule {K : Type} [LinearOrder K] [Sub K] (abs : K → K) (thr minSep : K) (c : Corners K) :
    GridTops.isValidCellGeometry abs thr minSep c = true ↔
      ((∀ n, n < 8 → abs (c.X n) < thr ∧ abs (c.Y n) < thr ∧ abs (c.Z n) < thr) ∧
       ∃ n, n < 4 ∧ minSep < c.Z (n + 4) - c.Z n) :=
  GridTops.isValidCellGeometry_iff abs thr minSep c

/-- Non-vacuity (ℤ): a wedge cell with one open edge is valid, the fully pinched one is not. -/
example :
    GridTops.isValidCellGeometry (fun x : Int => if x < 0 then -x else x) 1000 1
      ⟨fun n => (n % 2 : Nat), fun n => (n / 2 % 2 : Nat), fun n => if n = 7 then 12 else 10⟩ = true ∧
    GridTops.isValidCellGeometry (fun x : Int => if x < 0 then -x else x) 1000 1
      ⟨fun n => (n % 2 : Nat), fun n => (n / 2 % 2 : Nat), fun _ => 10⟩ = false := by
  decide

end OpmVerif.Props.C13
