/-
  C05 — A restarted run continues from the same dynamic state and the same schedule.   proof (partial)

  Proved here, for every number of wells / connections, every window size, every unit system with
  reciprocal conversion factors, every narrowing function:
    * the window arithmetic of WindowedArray / WindowedMatrix never lets entity i disturb entity j;
    * the slot tables regenerated from AggregateWellData.cpp / AggregateConnectionData.cpp (writer) and
      rst/well.cpp, rst/connection.cpp, LoadRestart.cpp (readers) agree slot by slot, measure by measure
      and offset by offset on every field whose shape the translator recognises;
    * for those fields decode (encode x) = x (integers exactly, reals over any field, single precision
      as an idempotent `narrow`);
    * solution / extra arrays: unit inverse ∘ array-file round trip (C07) ∘ unified-file history (C08).
    * groups (second round): IGRP window layout for every NWGMAX / NGMAXZ / child count, and the IGRP / SGRP / XGRP
      tables regenerated from AggregateGroupData.{cpp,hpp} and rst/group.cpp agree item by item and measure by measure.
    * multi-segment wells (third round): the hand-written segment → ISEG / RSEG window arithmetic of the writer
      (AggregateMSWData.cpp) and of both readers (LoadRestart.cpp, rst/well.cpp), regenerated as index expressions, selects
      the same flat position for every segment number; hence a whole segment set — any numbering, gaps, any storage
      order — comes back segment number by segment number.
  NOT proved (correspondence / property mode only, counted in the evidence): right-hand sides emitted
  as `opaque`, computed-index (tracer) slots, MSW / UDQ / ACTIONX / network arrays, and the schedule
  rebuilt from the restart file — that one is *observed* on the real code, member-wise at every step
  (harness/rstsched.cpp): see design.d/C05.md, Second round.
-/
import OpmVerif.Proofs.RstSlots
import OpmVerif.Proofs.RstSolution
import OpmVerif.Proofs.RstGroup
import OpmVerif.Proofs.RstMsw
import OpmVerif.Proofs.RstSegWin

namespace OpmVerif.Props.C05
open OpmVerif.RstWindow OpmVerif.RstSlot OpmVerif.Gen.RstSlots OpmVerif.Ecl OpmVerif.Unrst

/-- `WindowedArray(n, w)`: for all n, w and i ≠ j < n, windows i and j share no position and lie
inside `[0, n·w)`. -/
theorem window_disjoint_inbounds (n w i j : Nat) (hi : i < n) (hj : j < n) (hne : i ≠ j) :
    (∀ p, ¬ (InWindow w i p ∧ InWindow w j p)) ∧
    (∀ p, InWindow w i p → p < n * w) ∧ (∀ p, InWindow w j p → p < n * w) :=
  ⟨fun p => windows_disjoint w i j p hne, fun p => window_inbounds n w i p hi, fun p => window_inbounds n w j p hj⟩

/-- `WindowedMatrix(rows, cols, w)`: distinct (row, col) pairs select distinct windows of the underlying
array, all below `rows·cols`; hence their position ranges are disjoint and in bounds. -/
theorem matrix_window_disjoint_inbounds (nrows ncols w r c r' c' : Nat)
    (hr : r < nrows) (hc : c < ncols) (hr' : r' < nrows) (hc' : c' < ncols) (hne : (r, c) ≠ (r', c')) :
    matIdx ncols r c < nrows * ncols ∧ matIdx ncols r' c' < nrows * ncols ∧
    (∀ p, ¬ (InWindow w (matIdx ncols r c) p ∧ InWindow w (matIdx ncols r' c') p)) := by
  refine ⟨matIdx_lt nrows ncols r c hr hc, matIdx_lt nrows ncols r' c' hr' hc', fun p => ?_⟩
  apply windows_disjoint
  intro h
  obtain ⟨h1, h2⟩ := matIdx_inj ncols r c r' c' hc hc' h
  exact hne (by rw [h1, h2])

/-- Writing a slot table into window `i` (a sequence of `window[slot] = value`, later stores win) and
reading slot `s` of the same window returns the value of the last store to `s` (the old content if
the table does not store to `s`). -/
theorem read_after_write {α : Type} (n w i s : Nat) (xs : List α) (tab : List (Nat × α))
    (hlen : xs.length = n * w) (hi : i < n) (hs : s < w) :
    readSlot w i (writeWindow w i xs tab) s =
      match lastWrite tab s with
      | some v => some v
      | none => readSlot w i xs s :=
  RstWindow.read_after_write n w i s xs tab hlen hi hs

/-- … and with pairwise distinct slots, reading `s` returns *the* value written for `s`. -/
theorem read_after_write_injective {α : Type} (n w i s : Nat) (v : α) (xs : List α) (tab : List (Nat × α))
    (hlen : xs.length = n * w) (hi : i < n) (hs : s < w)
    (hnd : (tab.map (·.1)).Nodup) (hm : (s, v) ∈ tab) :
    readSlot w i (writeWindow w i xs tab) s = some v := by
  rw [RstWindow.read_after_write n w i s xs tab hlen hi hs, lastWrite_of_nodup tab hnd s v hm]

/-- Writing entity `i` leaves every slot of every other entity `j` untouched (any number of entities). -/
theorem write_does_not_disturb_others {α : Type} (n w i j t : Nat) (xs : List α) (tab : List (Nat × α))
    (hlen : xs.length = n * w) (hj : j < n) (hne : i ≠ j) (ht : t < w) (hr : ∀ sv ∈ tab, sv.1 < w) :
    readSlot w j (writeWindow w i xs tab) t = readSlot w j xs t :=
  write_other_window n w i j t xs tab hlen hj hne ht hr

/-- Generated tables: in each index enum distinct slot names have distinct indices; every named
writer entry uses the enum's index for its slot, below the window size CreateInteHead.cpp sets; the
window size never shrinks when tracers are added; every encoder maps distinct cases to distinct integers. -/
theorem slots_injective :
    (∀ q ∈ indexEnums, ((enumOf q).map (·.2)).Nodup) ∧
    (∀ e ∈ writer, e.cls = "named" →
      (enumOf (nsOfArr e.arr ++ ".index")).lookup e.slot = some e.idx ∧ 0 ≤ e.idx ∧ e.idx.toNat < windowSize e.arr 0) ∧
    (∀ e ∈ reader ++ loader, 0 ≤ e.idx → e.idx.toNat < windowSize e.arr 0) ∧
    (∀ arr nt, windowSize arr 0 ≤ windowSize arr nt) ∧
    (∀ t ∈ encTables, (t.2.map (·.2)).Nodup) :=
  ⟨index_enums_injective, writer_slots_in_window, reader_slots_in_window, window_size_mono, enc_tables_injective⟩

/-- The item numbers of IWEL/SWEL/XWEL/ZWEL/ICON/SCON/XCON, of the InteHEAD items and of the IWEL value
codes are the pinned on-disk layout (Model/RstLayout.lean): a consistent renumbering on writer and
reader side would still round-trip inside OPM but change the file format. -/
theorem layout_pinned : ∀ q ∈ RstLayout.pinned, ∀ nv ∈ q.2, (enumOf q.1).lookup nv.1 = some nv.2 :=
  RstSlot.layout_pinned

/-- Generated tables: every (writer entry, reader entry) pair that meets on one array element — same
array, same *index* — with both shapes recognised is in a compatible class (same measure, inverse
offset, matching Boolean / enum coding, same summary key), for RstWell / RstConnection and for
LoadRestart.cpp; the only exception is the declared one (wtest_remaining), which is a real disagreement. -/
theorem field_tables_agree :
    (∀ p ∈ pairs writer reader,
      (pairCls p ≠ .mismatch ∧ (declaredExceptions.lookup p.2.field).isNone) ∨
      (pairCls p = .mismatch ∧ (declaredExceptions.lookup p.2.field).isSome)) ∧
    (∀ p ∈ pairs writer loader, pairCls p ≠ .mismatch) ∧
    (∀ x ∈ declaredExceptions, ∃ p ∈ pairs writer reader, p.2.field = x.1 ∧ pairCls p = .mismatch) ∧
    unpairedReaderFields = ["well.prevent_thpctrl_if_unstable", "well.liquid_rate", "well.gas_fvf"] :=
  ⟨reader_pairs_classified, loader_pairs_classified, exceptions_all_occur, unpaired_reader_fields⟩

/-- Every reader field fed from a summary vector (rates, pressures, ratios, totals of RstWell /
RstConnection / data::Wells) receives exactly the vectors of its stated meaning, and every such field is fed. -/
theorem field_meanings :
    (∀ p ∈ pairs writer (reader ++ loader), ∀ allowed, fieldMeaning.lookup p.2.field = some allowed →
      ∀ k ∈ p.1.rpre.core.smryKeys, k ∈ allowed) ∧
    (∀ fm ∈ fieldMeaning, ∃ p ∈ pairs writer (reader ++ loader), p.2.field = fm.1 ∧ p.1.rpre.core.smryKeys ≠ []) :=
  ⟨RstSlot.field_meanings, field_meanings_fed⟩

/-- INTE arrays (IWEL, ICON): for every pair of shapes in class `exact`, decode (encode x) = x for every
integer x (Boolean sources: 0/1). -/
theorem field_roundtrip_int (pre : Pre) (post : Post) (h : classify "int" pre post = .exact)
    (x : Int) (hx : validSrcI pre x) : (encI pre x).bind (decI post) = some x :=
  int_roundtrip pre post h x hx

/-- REAL / DOUB arrays (SWEL, SCON, XWEL, XCON), over any field, any unit system with reciprocal
factors, any narrowing: for every pair of shapes in class `exact`, if the stored element is
representable (`nar y = y`, automatic for DOUB) and not the 1e20 sentinel, the reader returns the
source value (narrowed once more when the reader itself is `as_float(...)`). -/
theorem field_roundtrip_real {F : Type} [Field F] (narrow : F → F) (isSentinel : F → Bool) (u : UnitSys F)
    (hu : u.Good) (nar : F → F) (pre : Pre) (post : Post) (ty : String) (hty : ty ≠ "int")
    (h : classify ty pre post = .exact) (x y : F)
    (hy : rawR narrow isSentinel u pre x = some y) (hrep : nar y = y) (hns : isSentinel y = false) :
    (encR (fieldOps narrow isSentinel) u nar pre x).bind (decR (fieldOps narrow isSentinel) u post)
      = some (expectR narrow post x) :=
  real_roundtrip narrow isSentinel u hu nar pre post ty hty h x y hy hrep hns

/-- Single-precision clause: storing the decoded value again reproduces the stored element, assuming only
`narrow (narrow z) = narrow z`. -/
theorem field_restart_stable {F : Type} [Field F] (narrow : F → F) (isSentinel : F → Bool) (u : UnitSys F)
    (hu : u.Good) (hn : ∀ z, narrow (narrow z) = narrow z) (m : String) (x : F) :
    let o := fieldOps narrow isSentinel
    narrow (fromSI o u m (toSI o u m (narrow (fromSI o u m x)))) = narrow (fromSI o u m x) :=
  encode_decode_encode narrow isSentinel u hu hn m x

/-- Summary vectors copied into XWEL / XCON (output units, sign flipped for injection rates) and read
with the vector's own measure come back as ± the SI value. -/
theorem field_roundtrip_summary {F : Type} [Field F] (narrow : F → F) (isSentinel : F → Bool) (u : UnitSys F)
    (hu : u.Good) (m : String) (hoff : u.off m = 0) (neg : Bool) (x : F) :
    let o := fieldOps narrow isSentinel
    toSI o u m (if neg then o.neg (fromSI o u m x) else fromSI o u m x) = if neg then -x else x :=
  smry_roundtrip narrow isSentinel u hu m hoff neg x

/-- Nested conversions (class `exactScale`; SCON StaticDFacCorrCoeff = [D]·[viscosity], written through the helper
`staticDFacCorrCoeff` which the translator inlines): with offset-free measures the reader's
`to_si(m1, to_si(m2, …))` returns the value the writer's `from_si(m1, from_si(m2, …))` was given; likewise the k-fold
length-unit factor the MSW writer uses for areas and volumes. -/
theorem field_roundtrip_chain {F : Type} [Field F] (narrow : F → F) (isSentinel : F → Bool) (u : UnitSys F)
    (hu : u.Good) (ms : List String) (hoff : ∀ m ∈ ms, u.off m = 0) (x : F) (m : String) (k : Nat) (hm : u.off m = 0) :
    toSIChain (fieldOps narrow isSentinel) u ms (fromSIChain (fieldOps narrow isSentinel) u ms x) = x ∧
    toSIChain (fieldOps narrow isSentinel) u (List.replicate k m)
      ((fieldOps narrow isSentinel).mul (fromSIChain (fieldOps narrow isSentinel) u (List.replicate k m) ((fieldOps narrow isSentinel).ofInt 1)) x) = x :=
  ⟨chain_roundtrip narrow isSentinel u hu ms hoff x, unitpow_roundtrip narrow isSentinel u hu m k hm x⟩

/-- Enum-coded connection fields: direction and open/shut state decode to what was encoded. -/
theorem field_roundtrip_enum_tables :
    (∀ nv ∈ (connEnums.lookup "Direction").getD [],
      ((decTables.lookup "from_int<Connection::Direction>").getD []).lookup nv.2 = some nv.1) ∧
    ((decEq.lookup "from_int<Connection::State>") = some (1, "OPEN", "SHUT") ∧
     (writer.filter fun e => e.arr = "ICON" ∧ e.slot = "ConnStat").map (·.pre) = [.sel 1 0]) :=
  ⟨conn_dir_roundtrip, conn_state_roundtrip⟩

/-- Solution / extra arrays, values: convertToSI ∘ (bytes) ∘ convertFromSI is the identity on
representable values (every value with `write_double`). -/
theorem solution_roundtrip {F : Type} [Field F] (narrow : F → F) (isSentinel : F → Bool) (u : UnitSys F)
    (hu : u.Good) (nar : F → F) (toBytes : F → Bytes) (ofBytes : Bytes → F)
    (hb : ∀ y, ofBytes (toBytes y) = y) (m : String) (xs : List F)
    (hrep : ∀ x ∈ xs, nar (fromSI (fieldOps narrow isSentinel) u m x) = fromSI (fieldOps narrow isSentinel) u m x) :
    decodeCells narrow isSentinel u ofBytes m (encodeCells narrow isSentinel u nar toBytes m xs) = xs :=
  cells_roundtrip narrow isSentinel u hu nar toBytes ofBytes hb m xs hrep

/-- Solution / extra arrays, files: after any history of report-step writes into a unified restart file
(rewinds included) the file decodes to exactly the arrays of the surviving steps (C08 ∘ C07). -/
theorem solution_file_roundtrip (n : Nat) (as : List Arr) (h : List (Nat × List Arr))
    (hx : StepWF (n, as)) (hh : ∀ s ∈ h, StepWF s) :
    ∃ file, runHistory none ((n, as) :: h) = .ok (some file) ∧
      decodeFile file = .ok (allArrs (specRun [] ((n, as) :: h))) :=
  file_after_history n as h hx hh

/-! ## Groups (second round): IGRP / SGRP / XGRP tables regenerated from AggregateGroupData.{cpp,hpp} and rst/group.cpp -/

open OpmVerif.RstGroup OpmVerif.Gen.RstGroup in
/-- IGRP window layout, for every NWGMAX, NGMAXZ and child count: the child list `[0, nchild)` and the named items
`nwgmax + k` (k below the named size) never share a position and both lie inside the window of size
`base + max(NWGMAX, NGMAXZ)` that CreateInteHead.cpp announces; reading position i of the child list gives the i-th child. -/
theorem group_window_layout (nwgmax ngmaxz : Nat) (children : List Int) (i k : Nat)
    (hn : children.length ≤ nwgmax) (hi : i < children.length) (hk : k < nigrpzBase) :
    i ≠ igrpPos nwgmax k ∧ igrpPos nwgmax k < sizeNIGRPZ nwgmax ngmaxz ∧ i < sizeNIGRPZ nwgmax ngmaxz ∧
    (childPrefix nwgmax children).lookup i = children[i]? :=
  ⟨(igrp_prefix_disjoint nwgmax ngmaxz children.length i k hn hi hk).1, (igrp_prefix_disjoint nwgmax ngmaxz children.length i k hn hi hk).2.1,
   (igrp_prefix_disjoint nwgmax ngmaxz children.length i k hn hi hk).2.2, childPrefix_lookup nwgmax children i hi⟩

open OpmVerif.RstGroup OpmVerif.Gen.RstGroup in
/-- Generated group tables: item names of IGRP / SGRP (its three enums together) / XGRP are injective; every named
writer entry uses its enum's item number inside the window; reader items are inside the window; the summary-vector →
XGRP item maps are injective, inside the window, total on the vectors the writer loops over, and the FIELD map mirrors
the group map. -/
theorem group_slots_injective :
    (((genumOf "IGroup.index").map (·.2)).Nodup ∧ (sgroupItems.map (·.2)).Nodup ∧ ((genumOf "XGroup.index").map (·.2)).Nodup) ∧
    (∀ e ∈ gwriter, e.cls = "named" →
      ((e.slot.front = '#' ∨ (gitems e.arr).lookup e.slot = some e.idx) ∧ 0 ≤ e.idx ∧ e.idx.toNat < gwindow e.arr)) ∧
    (∀ e ∈ greader, 0 ≤ e.idx ∧ e.idx.toNat < gwindow e.arr) ∧
    ((∀ kv ∈ groupKeyToIndex ++ fieldKeyToIndex, 0 ≤ kv.2 ∧ kv.2.toNat < sizeNXGRPZ) ∧
     (groupKeyToIndex.map (·.2)).Nodup ∧ (fieldKeyToIndex.map (·.2)).Nodup ∧
     (∀ k ∈ restartGroupKeys, (groupKeyToIndex.lookup k).isSome) ∧ (∀ k ∈ restartFieldKeys, (fieldKeyToIndex.lookup k).isSome)) ∧
    (∀ kv ∈ fieldKeyToIndex, groupKeyToIndex.lookup (String.ofList ('G' :: kv.1.toList.drop 1)) = some kv.2) :=
  ⟨group_index_enums_injective, gwriter_slots_in_window, greader_slots_in_window, xgrp_key_maps_sound, xgrp_field_map_mirrors_group_map⟩

open OpmVerif.RstGroup OpmVerif.Gen.RstGroup in
/-- Generated group tables agree: every (writer entry, reader entry) pair on one IGRP / SGRP item is in a compatible
class (the decode ∘ encode theorems `field_roundtrip_int` / `field_roundtrip_real` apply to class exact) except the one
declared member (exceed_action under GCONPROD FLD), which is a real information loss; every XGRP member of RstGroup
reads the item its summary vector is written to with that vector's measure, for groups and FIELD alike, except the four
declared members (liquid_production_rate reads the item that holds GVPR; voidage_production_total, oil/water_production_potential
convert with another measure than the vector has) — and those really disagree; every IGRP / SGRP member with a stated
meaning is fed from the source quantity of that meaning by the writer function of its own phase. -/
theorem group_tables_agree :
    (∀ p ∈ gpairs gwriter greader, gpairCls p ≠ .mismatch ∨ (gdeclaredExceptions.lookup p.2.field).isSome) ∧
    (∀ x ∈ gdeclaredExceptions, ∃ p ∈ gpairs gwriter greader, p.2.field = x.1 ∧ gpairCls p = .mismatch) ∧
    (∀ r ∈ greader, r.arr = "XGRP" →
      (xcls groupKeyToIndex 'G' r = xcls fieldKeyToIndex 'F' r) ∧
      xcls groupKeyToIndex 'G' r = (xdeclaredExceptions.lookup r.field).getD .ok) ∧
    (∀ r ∈ greader, r.arr = "XGRP" → (groupFieldMeaning.lookup r.field).isSome) ∧
    (∀ p ∈ gpairs gwriter greader, ∀ allowed, groupSourceMeaning.lookup p.2.field = some allowed →
      p.1.src ∈ allowed ∧ (groupPhaseOfFn p.1.fn = "any" ∨ groupPhaseOfField p.2.field = "any" ∨ groupPhaseOfFn p.1.fn = groupPhaseOfField p.2.field)) :=
  ⟨group_pairs_classified, group_exceptions_all_occur, xgrp_members_agree, xgrp_every_member_has_meaning, group_source_meanings⟩

open OpmVerif.RstGroup OpmVerif.Gen.RstGroup in
/-- Group limits the reader keeps in output units (UDA values): the writer's measure is the measure of the dimension
that converts them later (rates: liquid / gas surface rate, reservoir rate). -/
theorem group_raw_units_measures :
    ∀ p ∈ gpairs gwriter greader, gpairCls p = .rawUnits →
      (groupRawMeasure.lookup p.2.field).isSome ∧ Pre.measure? p.1.rpre = groupRawMeasure.lookup p.2.field :=
  OpmVerif.RstGroup.group_raw_units_measures

open OpmVerif.RstMsw OpmVerif.Gen.RstMsw in
/-- Multi-segment wells (second round): the ISEG / RSEG tables regenerated from AggregateMSWData.cpp (stores at
`<segment base> + item`) and rst/segment.cpp: item names injective, named entries use their enum's item number, and
every (writer entry, reader entry) pair on one item is in a compatible class — lengths, densities, viscosities exact,
areas as k-fold length-unit factors (`exactScale`), pressure from the WBHP summary vector — except four declared
members of RstSegment (volume, total_flow, transition_region_width, max_valid_flow_rate), each a real disagreement. -/
theorem msw_tables_agree :
    (((senumOf "ISeg.index").map (·.2)).Nodup ∧ ((senumOf "RSeg.index").map (·.2)).Nodup) ∧
    ((∀ e ∈ swriter, e.cls = "named" → e.slot.front ≠ '#' →
        (senumOf (if e.arr = "ISEG" then "ISeg.index" else "RSeg.index")).lookup e.slot = some e.idx) ∧
     (∀ e ∈ sreader, 0 ≤ e.idx → (senumOf (if e.arr = "ISEG" then "ISeg.index" else "RSeg.index")).lookup e.slot = some e.idx)) ∧
    ((∀ p ∈ spairs swriter sreader, spairCls p ≠ .mismatch ∨ (sdeclaredExceptions.lookup p.2.field).isSome) ∧
     (∀ x ∈ sdeclaredExceptions, ∃ p ∈ spairs swriter sreader, p.2.field = x.1 ∧ spairCls p = .mismatch)) :=
  ⟨msw_index_enums_injective, msw_named_slots, msw_pairs_classified⟩

open OpmVerif.RstSegWin OpmVerif.Gen.RstSegWin in
/-- Multi-segment wells (third round): the index expressions regenerated from the sources — the writer's
`auto iS = …` of ISeg::staticContrib and RSeg::staticContrib (top segment and loop) inside window `msw-1` of
`entriesPerMSW` elements, LoadRestart's `getDataWindow ∘ SegmentVectors::rseg ∘ restoreSegmentQuantities(mswID - 1, …)`,
and `iseg_offset` / `rseg_offset` of the RstWell constructor at candidate window `is = segno - 1` — all denote the one
position `((msw-1)·NSEGMX + (segno-1))·elems`, for EVERY INTEHEAD, every well, every segment number and — the point —
every storage position `idx` of the segment in the well's segment set.  LoadRestart files the segment under its number;
RstWell gives window `is` the number `segno` exactly when `is = segno - 1`.  The sources of the variables (`segNumber` is
`….segmentNumber()`, `mswID` is `IWEL[MsWID]`) and the list of accesses that do NOT go through the segment base are pinned: the only ISEG item
stored by storage position is `SegNo`, and the item RstWell tests to decide that window `is` holds a segment is `BranchNo`
(stored at the segment base; before ffeaf0779 it was `SegNo`, so gapped numberings came back with phantom / lost segments). -/
theorem segment_windows_coincide (s : Seg) :
    (∀ b ∈ writerIsegBases, writerPos writerIsegEntriesPerMSW b s.nisegz s = canon s.nisegz s) ∧
    (∀ b ∈ writerRsegBases, writerPos writerRsegEntriesPerMSW b s.nrsegz s = canon s.nrsegz s) ∧
    loaderRsegOff.eval (loaderEnv s) = canon s.nrsegz s ∧ loaderKey.eval (loaderEnv s) = s.segno ∧
    (rstIsegOff.eval (rstEnv s (s.segno - 1)) = canon s.nisegz s ∧ rstRsegOff.eval (rstEnv s (s.segno - 1)) = canon s.nrsegz s ∧
      rstSegNumber.eval (rstEnv s (s.segno - 1)) = s.segno) ∧
    (∀ is, rstSegNumber.eval (rstEnv s is) = s.segno ↔ is = s.segno - 1) ∧
    (writerIsegSegNumberSrc = ["segment.segmentNumber()"] ∧ writerRsegSegNumberSrc = ["segment0.segmentNumber()", "segment.segmentNumber()"] ∧
      writerIsegElemsSrc = "nisegz(inteHead)" ∧ writerRsegElemsSrc = "nrsegz(inteHead)" ∧
      loaderSegNumberSrc = "segSet[segID].segmentNumber()" ∧ loaderMswSrc = "iwel[VI::IWell::index::MsWID]" ∧
      writerIsegOther = [("iSeg", "ind*noElmSeg+Ix::SegNo")] ∧ writerRsegOther = [("rSeg", "8")] ∧
      rstExistsSrc = "iseg[iseg_offset+VI::ISeg::BranchNo]") :=
  ⟨writer_iseg_pos s, writer_rseg_pos s, loader_rseg_pos s, loader_key s, rst_pos s, rst_number_inj s,
   by decide, by decide, by decide, by decide, by decide, by decide, by decide, by decide, by decide⟩

open OpmVerif.RstSegWin in
/-- … and that canonical integer is the natural-number window position the round trip below is stated with. -/
theorem segment_canon_is_window (nsegmx nisegz nrsegz w m idx n : Nat) (hm : 1 ≤ m) (hn : 1 ≤ n) :
    canon (w : Int) ⟨nsegmx, nisegz, nrsegz, m, idx, n⟩ = ((segPos nsegmx w m n 0 : Nat) : Int) :=
  canon_eq_segPos nsegmx nisegz nrsegz w m idx n hm hn

open OpmVerif.RstSegWin in
/-- Round trip of a whole segment set: for every number of MS wells, NSEGMX, window size, item, every MS well `m` and
EVERY list of segments `(number, value)` in storage order whose numbers are pairwise distinct and lie in `1 … NSEGMX`
(any numbering, any gaps, any order): after the writer has stored each value at `item` of the window of the segment's
number (a sequence of stores into the flat array), the window of segment number `n` holds, at `item`, the value of
segment `n` — for every segment of the set. -/
theorem segment_set_roundtrip {α : Type} (nmsw nsegmx w item m : Nat) (segs : List (Nat × α)) (xs : List α)
    (hlen : xs.length = (nmsw * nsegmx) * w) (hm : 1 ≤ m ∧ m ≤ nmsw) (hitem : item < w)
    (hnum : ∀ s ∈ segs, 1 ≤ s.1 ∧ s.1 ≤ nsegmx) (hnd : (segs.map (·.1)).Nodup) :
    ∀ s ∈ segs, (writeFlat xs (segs.map fun t => (segPos nsegmx w m t.1 item, t.2)))[segPos nsegmx w m s.1 item]? = some s.2 :=
  seg_roundtrip nmsw nsegmx w item m segs xs hlen hm hitem hnum hnd

open OpmVerif.RstSegWin in
/-- A reader that selects the window by storage position reads a different element whenever position + 1 ≠ number. -/
theorem segment_position_reader_differs (nsegmx w m n idx item : Nat) (hn : 1 ≤ n ∧ n ≤ nsegmx) (hidx : idx < nsegmx)
    (hitem : item < w) (hne : idx + 1 ≠ n) :
    segPos nsegmx w m (idx + 1) item ≠ segPos nsegmx w m n item :=
  position_reader_differs nsegmx w m n idx item hn hidx hitem hne

/-! Non-vacuity. -/

-- segment numbers with gaps, stored in an order that is not the numbering order (branch 2 = {12, 6}), second MS well of
-- two, NSEGMX = 20, window size 3, item 1: every hypothesis of `segment_set_roundtrip` holds and segment 12 (storage
-- position 3) reads its own value, which a reader going by position (window 3 = segment 4) would not
example : let segs : List (Nat × Nat) := [(1, 101), (2, 102), (3, 103), (12, 112), (6, 106), (7, 107), (8, 108)]
    (∀ s ∈ segs, 1 ≤ s.1 ∧ s.1 ≤ 20) ∧ (segs.map (·.1)).Nodup ∧
    (OpmVerif.RstWindow.writeFlat (List.replicate (2 * 20 * 3) 0) (segs.map fun t => (OpmVerif.RstSegWin.segPos 20 3 2 t.1 1, t.2)))[OpmVerif.RstSegWin.segPos 20 3 2 12 1]? = some 112 ∧
    (OpmVerif.RstWindow.writeFlat (List.replicate (2 * 20 * 3) 0) (segs.map fun t => (OpmVerif.RstSegWin.segPos 20 3 2 t.1 1, t.2)))[OpmVerif.RstSegWin.segPos 20 3 2 (3 + 1) 1]? = some 0 := by decide
example : OpmVerif.RstSegWin.canon 11 ⟨20, 7, 11, 2, 3, 12⟩ = (20 + 11) * 11 := by decide

example : (OpmVerif.RstMsw.spairs OpmVerif.Gen.RstMsw.swriter OpmVerif.Gen.RstMsw.sreader).length = 44 := by decide +kernel
-- group tables: sizes of what the theorems range over, and an IGRP window with three children under NWGMAX = 5
example : (OpmVerif.RstGroup.gpairs OpmVerif.Gen.RstGroup.gwriter OpmVerif.Gen.RstGroup.greader).length = 37 := by decide +kernel
example : (OpmVerif.Gen.RstGroup.greader.filter fun r => r.arr = "XGRP").length = 24 := by decide +kernel
example : (OpmVerif.RstGroup.childPrefix 5 [3, 1, 2]).lookup 1 = some 1 ∧ (OpmVerif.RstGroup.childPrefix 5 [3, 1, 2]).lookup 5 = some 3 := by decide
example : OpmVerif.RstGroup.xcls OpmVerif.Gen.RstGroup.groupKeyToIndex 'G'
    ⟨"group.oil_production_potential", "XGRP", "OilPrPot", 22, .toSI "liquid_surface_volume", [], "double"⟩ = .wrongMeasure := by decide +kernel


-- three wells, window size 4: writing well 1 and reading it back; well 0 and 2 untouched
example : readSlot 4 1 (writeWindow 4 1 (List.replicate 12 0) [(0, 7), (2, 9), (0, 8)]) 0 = some 8 := by decide
example : readSlot 4 2 (writeWindow 4 1 (List.replicate 12 0) [(0, 7), (2, 9), (0, 8)]) 0 = some 0 := by decide
example : ([(0, 7), (2, 9)].map (·.1)).Nodup ∧ (2, 9) ∈ [(0, 7), (2, 9)] := by decide

-- the generated tables contain pairs of every kind used by the theorems
example : classify "int" .plus1 .minus1 = .exact := by decide
example : validSrcI .plus1 41 := by simp [validSrcI, Pre.core]
example : (encI .plus1 41).bind (decI .minus1) = some 41 := by decide
example : classify "float" (.fromSI "length") (.toSI "length") = .exact := by decide
example : classify "double" (.fromSI "length") (.toSI "pressure") = .mismatch := by decide
example : (pairs writer reader).length = 135 ∧ (pairs writer loader).length = 49 := by decide +kernel
example : ((pairs writer reader).filter fun p => pairCls p = .exactScale).length = 1 := by decide +kernel
example : ((pairs writer reader).filter fun p => pairCls p = .exact).length = 68 := by decide +kernel

-- a unit system satisfying `Good` over ℚ (length in feet: 1/0.3048)
def sampleUnits : UnitSys Rat :=
  { ffrom := fun m => if m = "length" then 1 / (3048 / 10000) else 1,
    fto := fun m => if m = "length" then 3048 / 10000 else 1,
    off := fun _ => 0 }

example : sampleUnits.Good :=
  ⟨by intro m; simp only [sampleUnits]; split <;> norm_num, by simp [sampleUnits], by simp [sampleUnits], rfl⟩

end OpmVerif.Props.C05
