/-
  C10 — Every summary value written can be read back at its vector and ministep.

  Quantifiers: every vector count (any number of PARAMS elements, crossing any number of
  1000-element record blocks), every vector position p, every ministep/report-step sequence.
-/
import OpmVerif.Proofs.Smry
import OpmVerif.Proofs.SmryFmt
import OpmVerif.Proofs.ExtESmry
import OpmVerif.Proofs.ExtESmryChain

namespace OpmVerif.Props.C10
open OpmVerif.Ecl OpmVerif.Smry

/-- Unformatted files: the per-element seek expression of `ESmry::loadData(vectList)`
addresses exactly element `p` of the PARAMS record, for every record length. -/
theorem params_offset_bin (es : List Bytes) (hes : ∀ e ∈ es, e.length = 4) (p : Nat) (hp : p < es.length) :
    ((encodeData .real es).drop (elementPosBin p)).take 4 = es[p] :=
  elementPosBin_points es hes p hp

/-- Formatted files: the per-element seek expression addresses exactly the 17-character
field of element `p` in what `writeFormattedArray` lays out (true because the 1000-element
block length is a multiple of the 4 columns and 4000 = 4·1000; both facts are re-checked
against the regenerated constants by this proof). -/
theorem params_offset_fmt (fields : List (List Char))
    (hw : ∀ f ∈ fields, f.length = Gen.EclIO.columnWidthReal) (p : Nat) (hp : p < fields.length) :
    ((fmtRealArray fields).drop (elementPosFmt p)).take Gen.EclIO.columnWidthReal = fields[p] :=
  elementPosFmt_points fields hw p hp

/-- Whole-array reading and per-element seeking see the same element: the block reset of
the writer's column counter never shifts a field. -/
theorem fmt_layout_is_four_per_line (fields : List (List Char)) :
    fmtRealArray fields = simpleLoop Gen.EclIO.numColumnsReal 0 fields :=
  fmtLoop_eq_simple _ _ (by decide) (by decide) (by decide) fields 0 (by decide)

/-- Every (vector, ministep) value of a unified unformatted summary data file is read back
at its vector position and ministep (SEQHDR / MINISTEP / PARAMS structure, any step list). -/
theorem write_read_series (steps : List MiniStep) (hwf : ∀ m ∈ steps, m.WF) (prev : Int) (p : Nat) :
    (match decodeFile (encodeFile (writeSteps prev steps)) with
     | .ok as => some (series p (paramsOf as))
     | .error _ => none) = some (steps.map fun m => m.params[p]?) :=
  series_roundtrip steps hwf prev p

/-- `splitSummaryNumber ∘ combineSummaryNumbers = id` on the documented domain. -/
theorem split_combine (n1 n2 : Int) (h1 : 0 ≤ n1) (h1' : n1 < 32768) (h2 : -10 ≤ n2) :
    splitSummaryNumber (combineSummaryNumbers n1 n2) = (n1, n2) :=
  Smry.split_combine n1 n2 h1 h1' h2

/-- **Formatted** unified summary data: the formatted reader (header-line index,
`sizeOnDiskFormatted` skipping over any number of 1000-value blocks, blank separated tokens)
delivers, for every ministep and every vector, the 17-character field that was written for
it (followed at most by the line break) as the token given to `strtod`.  The digits
themselves (`snprintf`/`strtod`) are compared bit for bit by the C07 correspondence. -/
theorem write_read_series_formatted (steps : List SmryFmt.MiniStep) (hwf : ∀ m ∈ steps, m.WF) (prev : Int) :
    ∃ ds, EclFmt.decodeFmtFile (EclFmt.encodeFmtFile (SmryFmt.writeSteps prev steps)) = some ds ∧
      EclFmt.All2 (fun (m : SmryFmt.MiniStep) (ts : List (List Char)) => EclFmt.All2 EclFmt.TokRel m.fields ts)
        steps (SmryFmt.paramsOf ds) :=
  SmryFmt.series_roundtrip steps hwf prev

/-- **ESMRY container**: the position `ExtESmry::load_esmry` computes for vector `k`
(`rstep_offset + sizeOnDisk(REAL)·k + 2·sizeOnDisk(INTE) + 2·24 + 24·k`, regenerated from the
source on every run) is the first byte of the header of `V<k>` in what the writer lays out
behind RSTEP — for every number of time steps (any number of 1000-value record blocks), every
number of vectors, every `k`, whatever precedes RSTEP. -/
theorem esmry_vector_offset (nm : Nat → Bytes) (hnm : ∀ k, (nm k).length = 8) (pre : Bytes) (n : Nat)
    (rstep tstep : List Bytes) (vs : List (List Bytes))
    (hr : rstep.length = n ∧ ∀ e ∈ rstep, e.length = 4) (ht : tstep.length = n ∧ ∀ e ∈ tstep, e.length = 4)
    (hv : ∀ v ∈ vs, v.length = n ∧ ∀ e ∈ v, e.length = 4) (k : Nat) (hk : k < vs.length) :
    ∃ B, (pre ++ encodeFile ({ name := ExtESmry.rstepName, ty := .inte, elems := rstep } ::
          { name := ExtESmry.tstepName, ty := .inte, elems := tstep } :: ExtESmry.vecArrsN nm 0 vs)).drop
            (ExtESmry.vecPos pre.length n k) =
        encodeArr { name := nm k, ty := .real, elems := vs[k] } ++ B :=
  ExtESmry.vec_at_pos nm hnm pre n rstep tstep vs hr ht hv k hk

/-- The writer emits RSTEP, TSTEP and the vectors last and in this order (array order of
`ExtSmryOutput::write`, regenerated from the source). -/
theorem esmry_write_order :
    Gen.ExtESmrySeek.writeOrder.drop (Gen.ExtESmrySeek.writeOrder.length - 3) = ["RSTEP", "TSTEP", "V*"] := by
  decide

/-- **Restart chains in the ESMRY reader** ("a run that continues a base run reads as the base
run's history up to the restart step followed by its own steps"): the part of a base run that
enters the combined history ends with the time step completing report step `rstNum` and holds
exactly `rstNum - own` completed report steps, where `own` is the report step the base run was
itself restarted from (0 if it is not a restart) — for every RSTEP flag list.  The start value
of the counter is regenerated from `ExtESmry.cpp`; with the value the code had before fix
d9c100bd0 (zero) the statement is false for nested chains (witness in `Proofs/ExtESmryChain.lean`,
found on the real code by the property-mode chain probe). -/
theorem esmry_base_part_ends_at_restart_step (own rstNum : Int) (rstep : List Int) (h1 : own < rstNum)
    (h2 : rstNum - own ≤ (ExtESmry.ones rstep : Int)) :
    let ind := ExtESmry.cutIndex (ExtESmry.countStart own) rstNum rstep
    ind < rstep.length ∧ rstep[ind]? = some 1 ∧
      (ExtESmry.ones (rstep.take (ind + 1)) : Int) = rstNum - own :=
  ExtESmry.base_part_ends_at_restart_step own rstNum rstep h1 h2

/-- The same for the SMSPEC reader (`ESmry`), whose scan counts SEQHDR groups and stops with
`>=`: the time steps taken from a base run end with the step completing the restart step and
hold `rstNum - own` report steps (counter start regenerated from `ESmry.cpp`) … -/
theorem esmry_base_part_ends_at_restart_step_smspec (own rstNum : Int) (rstep : List Int) (h1 : own < rstNum)
    (h2 : rstNum - own ≤ (ExtESmry.ones rstep : Int)) :
    let n := ExtESmry.scanCount (ExtESmry.esmryCountStart own) rstNum rstep
    1 ≤ n ∧ n ≤ rstep.length ∧ rstep[n - 1]? = some 1 ∧
      (ExtESmry.ones (rstep.take n) : Int) = rstNum - own :=
  ExtESmry.esmry_base_part own rstNum rstep h1 h2

/-- … and the two readers take the same number of time steps of a base run. -/
theorem both_readers_take_the_same_base_part (own rstNum : Int) (rstep : List Int) (h1 : own < rstNum)
    (h2 : rstNum - own ≤ (ExtESmry.ones rstep : Int)) :
    ExtESmry.scanCount own rstNum rstep = ExtESmry.cutIndex own rstNum rstep + 1 :=
  ExtESmry.readers_agree_on_base_part own rstNum rstep h1 h2

/-! Non-vacuity -/

example : ExtESmry.cutIndex (ExtESmry.countStart 2) 4 [0, 1, 1, 0, 1, 1] = 2 := by decide

example : ExtESmry.vecPos 219 2500 3 = 219 + 2 * (24 + 10024) + 3 * (24 + 10024) := by decide +kernel

def fmtStep (seq id : Nat) : SmryFmt.MiniStep :=
  { seq := seq, id := id,
    fields := ["   0.10000000E+01".toList, "  -0.25000000E-03".toList, "   0.00000000E+00".toList,
               "   0.12345678E+09".toList, "   0.99999999E+38".toList] }

example : EclFmt.decodeFmtFile (EclFmt.encodeFmtFile (SmryFmt.writeSteps (-1) [fmtStep 0 0, fmtStep 0 1, fmtStep 1 2])) ≠ none ∧
    (SmryFmt.writeSteps (-1) [fmtStep 0 0, fmtStep 0 1, fmtStep 1 2]).length = 8 := by
  decide +kernel

/-- A PARAMS record of 2501 elements (three record blocks) meets the hypotheses, and the
theorem then speaks about an element in the third block. -/
example : ∃ es : List Bytes, (∀ e ∈ es, e.length = 4) ∧ 2500 < es.length :=
  ⟨List.replicate 2501 [1, 2, 3, 4], by intro e he; rw [List.eq_of_mem_replicate he]; rfl,
   by rw [List.length_replicate]; omega⟩

example : elementPosBin 2500 = 10020 ∧ elementPosFmt 4001 = 69017 := by decide +kernel

example : MiniStep.WF { seq := 1, id := 0, params := [[0, 0, 0, 0], [63, 128, 0, 0]] } := by
  simp [MiniStep.WF]

end OpmVerif.Props.C10
