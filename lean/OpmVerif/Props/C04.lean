/-
  C04 — Applying an ACTIONX equals inlining its keywords; earlier steps are immutable.  (proof)

  Model: `Model/SchedAction.lean` (`applyAction` on (stored blocks, snapshots), on top of the C03
  core semantics of `Model/SchedCore.lean`: 23 record operations, among them the deferred
  WPIMULT factors and `end_report`).  Proved for every schedule, step, body and matching-well set:

    * `apply_past_untouched`, `apply_sequence_past`: immutability of the past, also for any
      sequence of applications at steps ≥ n0;
    * `close_commutes`: running the handlers of admissible keywords on a report step that is
      already closed (deferred WPIMULT applied, wells whose connections are all shut shut in) and
      closing it again equals running them before closing — `end_report` and the deferred WPIMULT
      commute with every property-channel handler of the modelled keyword set and with COMPLUMP;
    * `apply_eq_inline`: apply = the schedule of the deck with the substituted body written at
      the end of block n: same snapshots before n, `Sim` at n (everything but the marker) and at
      every step > n (where also the markers agree: both empty) — under the property's own
      exception only: the body contains no keyword that opens or shuts connections (COMPDAT,
      WELOPEN on connections) and no WPIMULT (`noConnKw`; COMPLUMP is allowed);
    * `apply_sequence`: any list of applications with non-decreasing steps equals inlining all
      bodies in that order (induction over the list, with the stored blocks — which keep the
      bodies verbatim with `?` — as part of the invariant);
    * `sim_observation`: `Sim` states with equal markers print the same observation record;
    * `subst_matches`: what '?' expands to;
    * `apply_closes_steps`, `schedule_steps_closed`: the end-of-step closing (deferred WPIMULT
      applied, `checkIfAllConnectionsIsShut`) is an invariant of every snapshot: after `applyAction`
      at step n every snapshot from n on has no pending factor and every well all of whose
      connections are shut is SHUT — for ANY body (COMPDAT-only bodies included; the closing does
      not depend on a handler having reported an affected well);
    * `apply_eq_inline_closed_step`: bodies WITH connection keywords (COMPDAT, WELOPEN on
      connections, WPIMULT in both forms, several all-default WPIMULT records hitting the same
      well): when the keywords of block n themselves left the step closed (`Closed s1`: no pending
      all-default WPIMULT record, no unshut well with all connections shut), the per-step
      exception is void and apply = inline holds with the same conclusion as `apply_eq_inline`;
    * `apply_eq_inline_closed_step_events`: … and also in the WELL_STATUS_CHANGE events
      (`SimE` = `Sim` + the same status-change events): at state n and at every later state — e.g. a
      well the body plugs gets its status-change event at step n on both sides and none at n+1;
      `full_observation`: `SimE` states with equal markers print the same full record.

  `Sim a b` = equal property channel, equal connection channel, equal status of every well.  (The
  status channel is an association list; the two sides may list its keys in a different order,
  which no handler and no observation can see.)

  Observed only (correspondence with the real `Schedule::applyAction`, sequences included, and
  property mode real-apply vs real-inlined-deck): handler-time resolution of '?' (the model
  resolves it once per application); decreasing steps.
-/
import OpmVerif.Proofs.SchedCommute
import OpmVerif.Proofs.SchedClosed
import OpmVerif.Proofs.SchedEvents
import OpmVerif.Proofs.SchedObs

namespace OpmVerif.Props.C04
open OpmVerif.Sched

/-- States before n are untouched by an application at n. -/
theorem apply_past_untouched (k : Consts) (bs : List (List CKw)) (ss : List State) (n : Nat) (body : List CKw)
    (W : List String) (bs' : List (List CKw)) (ss' : List State)
    (h : applyAction k bs ss n body W = .ok (bs', ss')) : ss'.take n = ss.take n :=
  applyAction_past k bs ss n body W bs' ss' h

/-- `end_report` (and the deferred WPIMULT) commutes with the handlers of non-connection
keywords: run on the closed state and closed again = run on the open state and closed once. -/
theorem close_commutes (k : Consts) (s t' : State) (body : List CKw) (hnc : body.all noConnKw = true)
    (h : runBody k (closeBlock s) body = .ok t') :
    ∃ t, runBody k s body = .ok t ∧ Sim (closeBlock t') (closeBlock t) :=
  OpmVerif.Sched.close_commutes k s t' body hnc h

/-- Applying at step n = a.length equals building the schedule from the deck with the
substituted body written at the end of block n: the snapshots before n are literally the same
(`sa`), state n agrees in everything but the marker (`Sim sn' x`), every state after n agrees
(`All2 Sim tail tail2`) and carries an empty marker on both sides.  The only hypothesis on the
body is the property's exception: no keyword that opens/shuts connections and no WPIMULT
(`noConnKw`) — `end_report` may well have shut wells when step n was closed. -/
theorem apply_eq_inline (k : Consts) (a : List (List CKw)) (blk : List CKw) (c : List (List CKw))
    (sa : List State) (s1 : State) (tail0 : List State) (body : List CKw) (W : List String)
    (bs' : List (List CKw)) (ss' : List State)
    (ha : runFrom k (init k) a = .ok sa)
    (h1 : runKws k none (beginBlock (sa.getLastD (init k)) blk) blk = .ok s1)
    (hp : body.all plainKw = true) (hnc : body.all noConnKw = true)
    (happ : applyAction k (a ++ blk :: c) (sa ++ closeBlock s1 :: tail0) a.length body W = .ok (bs', ss')) :
    ∃ sn' tail x tail2, ss' = sa ++ sn' :: tail ∧
      run k (inlineAt (a ++ blk :: c) a.length (substBody (sortW (names s1.p.wells) W) body)) = .ok (sa ++ x :: tail2) ∧
      Sim sn' x ∧ All2 Sim tail tail2 ∧ x.mark = [] ∧ (∀ s ∈ tail, s.mark = []) ∧ (∀ s ∈ tail2, s.mark = []) :=
  applyAction_eq_inline_gen k a blk c sa s1 tail0 body W bs' ss' ha h1 hp
    (bodyTransfer_noConn k _ s1 _ (Sim.refl _) (substBody_noConn _ body hnc)) happ

/-- The same for bodies WITH connection keywords — COMPDAT, WELOPEN on connections, WPIMULT with
and without connection items, in any number and overlap — at a step whose own keywords left it
closed (`Closed s1`: after the keywords of block n no all-default WPIMULT factor is pending and no
well with all connections shut is still unshut).  Closing step n then changed nothing, the
property's per-step exception is void, and the conclusion is that of `apply_eq_inline`: state n
agrees in everything but the marker — in particular a well whose connections the body has all
shut is SHUT on both sides — and every later state agrees. -/
theorem apply_eq_inline_closed_step (k : Consts) (a : List (List CKw)) (blk : List CKw) (c : List (List CKw))
    (sa : List State) (s1 : State) (tail0 : List State) (body : List CKw) (W : List String)
    (bs' : List (List CKw)) (ss' : List State)
    (ha : runFrom k (init k) a = .ok sa)
    (h1 : runKws k none (beginBlock (sa.getLastD (init k)) blk) blk = .ok s1)
    (hp : body.all plainKw = true) (hcl : Closed s1)
    (happ : applyAction k (a ++ blk :: c) (sa ++ closeBlock s1 :: tail0) a.length body W = .ok (bs', ss')) :
    ∃ sn' tail x tail2, ss' = sa ++ sn' :: tail ∧
      run k (inlineAt (a ++ blk :: c) a.length (substBody (sortW (names s1.p.wells) W) body)) = .ok (sa ++ x :: tail2) ∧
      Sim sn' x ∧ All2 Sim tail tail2 ∧ x.mark = [] ∧ (∀ s ∈ tail, s.mark = []) ∧ (∀ s ∈ tail2, s.mark = []) :=
  applyAction_eq_inline_gen k a blk c sa s1 tail0 body W bs' ss' ha h1 hp
    (bodyTransfer_closed k _ s1 _ (Sim.refl _) hcl) happ

/-- … and the WELL_STATUS_CHANGE events agree as well (`SimE`): the events of state n (those of
block n, of the body's handlers and of the automatic shut-in after the body) and of every later
state are the same on the apply side and in the schedule of the inlined deck. -/
theorem apply_eq_inline_closed_step_events (k : Consts) (a : List (List CKw)) (blk : List CKw) (c : List (List CKw))
    (sa : List State) (s1 : State) (tail0 : List State) (body : List CKw) (W : List String)
    (bs' : List (List CKw)) (ss' : List State)
    (ha : runFrom k (init k) a = .ok sa)
    (h1 : runKws k none (beginBlock (sa.getLastD (init k)) blk) blk = .ok s1)
    (hp : body.all plainKw = true) (hcl : Closed s1)
    (happ : applyAction k (a ++ blk :: c) (sa ++ closeBlock s1 :: tail0) a.length body W = .ok (bs', ss')) :
    ∃ sn' tail x tail2, ss' = sa ++ sn' :: tail ∧
      run k (inlineAt (a ++ blk :: c) a.length (substBody (sortW (names s1.p.wells) W) body)) = .ok (sa ++ x :: tail2) ∧
      SimE sn' x ∧ All2 SimE tail tail2 :=
  applyAction_simE_inline_closed k a blk c sa s1 tail0 body W bs' ss' ha h1 hp hcl happ

/-- `SimE` states with equal markers print the same full observation record (`showFull`: the
record of `sim_observation` plus the wells with a status-change event) — what the correspondence
compares. -/
theorem full_observation (a b : State) (h : SimE a b) (hm : a.mark = b.mark) : showFull a = showFull b :=
  showFull_congr a b h hm

/-- The end-of-step closing is part of what `applyAction` does, unconditionally: after an
application at step n every snapshot from n on is `Closed` — no deferred WPIMULT factor pending,
every well all of whose connections are shut has status SHUT — for ANY body and matching set (a
body consisting of COMPDAT records only, which reports no affected well, included). -/
theorem apply_closes_steps (k : Consts) (bs : List (List CKw)) (ss : List State) (n : Nat) (body : List CKw)
    (W : List String) (bs' : List (List CKw)) (ss' : List State)
    (h : applyAction k bs ss n body W = .ok (bs', ss')) : ∀ x ∈ ss'.drop n, Closed x :=
  applyAction_closed k bs ss n body W bs' ss' h

/-- … as is every snapshot of the schedule itself. -/
theorem schedule_steps_closed (k : Consts) (bs : List (List CKw)) (ss : List State) (h : run k bs = .ok ss) :
    ∀ x ∈ ss, Closed x :=
  runFrom_closed k bs (init k) ss h

/-- State-level core: re-running the handlers on the closed snapshot (or any state `Sim` to it)
and closing it again equals — up to the marker — running block n with the body appended. -/
theorem apply_state_eq_inline (k : Consts) (s0 s1 sn : State) (blk body : List CKw) (W : List String) (sn' : State)
    (h1 : runKws k none s0 blk = .ok s1) (hsn : Sim sn (closeBlock s1))
    (hp : body.all plainKw = true) (hnc : body.all noConnKw = true)
    (ha : applyAtState k sn body W = .ok sn') :
    ∃ t, runKws k none s0 (blk ++ substBody (sortW (names s1.p.wells) W) body) = .ok t ∧ Sim sn' (closeBlock t) :=
  applyAtState_sim_inline k s0 s1 sn blk body W sn' h1 hsn hp hnc ha

/-- Sequences, immutability half: whatever is applied, in any number and order, at steps ≥ n0
leaves the snapshots before n0 as they were. -/
theorem apply_sequence_past (k : Consts) (n0 : Nat) (apps : List App) (bs : List (List CKw)) (ss : List State)
    (bs' : List (List CKw)) (ss' : List State) (hl : ss.length = bs.length)
    (hge : ∀ a ∈ apps, n0 ≤ a.1)
    (h : applyList k bs ss apps = .ok (bs', ss')) : ss'.take n0 = ss.take n0 :=
  applyList_past k n0 apps bs ss bs' ss' hl hge h

/-- Sequences, equality half: applying actions one after another with non-decreasing steps
equals inlining all of them in that order — the inlined deck is accepted and every snapshot is
`Sim` to the one the applications produced.  `bodiesOK` = every applied body, as registered at
its step in the deck inlined so far, is plain and has no connection keyword. -/
theorem apply_sequence (k : Consts) (bs : List (List CKw)) (apps : List App) (bs' : List (List CKw)) (ss' : List State)
    (hnd : nonDecr 0 apps = true) (hok : bodiesOK k bs apps = true) (h : applySeq k bs apps = .ok (bs', ss')) :
    ∃ bsI ssI, inlineSeq k bs apps = .ok bsI ∧ run k bsI = .ok ssI ∧ All2 Sim ss' ssI :=
  applySeq_sim_inline k bs apps bs' ss' hnd hok h

/-- `Sim` states with equal markers have the same observation record (the string the
correspondence run compares with the dump of the real `ScheduleState`). -/
theorem sim_observation (a b : State) (h : Sim a b) (hm : a.mark = b.mark) : showState a = showState b :=
  showState_congr a b h hm

/-- '?' expands to exactly the matching wells that exist, in well order, one record each;
other records are unchanged. -/
theorem subst_matches (order W ws : List String) (r : ROp) :
    (∀ w, w ∈ sortW order W ↔ w ∈ order ∧ w ∈ W) ∧ (sortW order W).Sublist order ∧
    (r.wpat ≠ some "?" → substOp ws r = [r]) ∧
    (r.wpat = some "?" → substOp ws r = ws.map (fun w => r.setPat w) ∧ ∀ w, (r.setPat w).wpat = some w) :=
  ⟨mem_sortW order W, sortW_sublist order W, substOp_other ws r,
   fun h => ⟨substOp_q ws r h, fun w => setPat_wpat w r h⟩⟩

/-! ### non-vacuity -/

def k0 : Consts := { one := "1", zero := "-", bhpProd := "b", bhpInj := "B", num0 := "0", siP := "sP", siLRate := "sL",
                     siTime := "sT", bhpProdSI := "bS", bhpHistSI := "bH", bhpInjHSI := "bI" }

/-- P1 gets one connection, is opened by WCONPROD, then its only connection is shut: `end_report`
shuts the well when step 0 is closed (the old hypothesis `endReport s1 = s1` fails here).  Action
A (registered at step 1) changes the efficiency factor and opens the matching wells. -/
def blocks0 : List (List CKw) :=
  [[.ops "WELSPECS" [.welspecs "P1" "G1" (some 1) (some 1), .welspecs "P2" "G1" (some 2) (some 2)],
    .ops "COMPDAT" [.compdat "P*" 0 0 1 1 1],
    .ops "WELOPEN" [.welopenW "P*" .open_],
    .ops "WPIMULT" [.wpimultG "P1" "f"]],
   [.actionx "A", .ops "WEFAC" [.wefac "?" "e"], .ops "WELOPEN" [.welopenW "?" .open_], .ops "COMPLUMP" [.complump "?" 0 0 0 0 7], .endactio,
    .ops "WELOPEN" [.welopenC "P1" (some 2) 0 0 0 0 0]],
   [.ops "GEFAC" []]]
def bodyA : List CKw := [.ops "WEFAC" [.wefac "?" "e"], .ops "WELOPEN" [.welopenW "?" .open_], .ops "COMPLUMP" [.complump "?" 0 0 0 0 7]]
def apps0 : List App := [(1, "A", ["P2", "P1"]), (2, "A", ["P1"])]

def obs (s : State) : List (String × Status × Val × Nat) :=
  s.p.wells.map fun (n, w) => (n, statusOf s.st n, w.efac, ((connsOf s.c.m n).map (·.complnum)).sum)

example : bodyA.all plainKw = true ∧ bodyA.all noConnKw = true := by decide
example : nonDecr 0 apps0 = true := by decide
example : bodiesOK k0 blocks0 apps0 = true := by decide +kernel
-- end_report really shut P1 at step 1, and the deferred WPIMULT of block 0 was applied at its end
example : ((run k0 blocks0).toOption.map fun ss => ss.map fun s => (statusOf s.st "P1", (connsOf s.c.m "P1").map (·.pimult))) =
    some [(.open_, ["mul(1,f)"]), (.shut, ["mul(1,f)"]), (.shut, ["mul(1,f)"])] := by decide +kernel
example : ((applySeq k0 blocks0 apps0).toOption.map fun r => r.2.map obs) =
    some [[("P1", .open_, "1", 1), ("P2", .open_, "1", 1)], [("P1", .shut, "e", 7), ("P2", .open_, "e", 7)], [("P1", .shut, "e", 7), ("P2", .open_, "e", 7)]] := by
  decide +kernel
example : ((inlineSeq k0 blocks0 apps0).toOption.bind fun b => (run k0 b).toOption.map fun ss => ss.map obs) =
    some [[("P1", .open_, "1", 1), ("P2", .open_, "1", 1)], [("P1", .shut, "e", 7), ("P2", .open_, "e", 7)], [("P1", .shut, "e", 7), ("P2", .open_, "e", 7)]] := by
  decide +kernel
/-! connection-keyword bodies at a step that its own keywords left closed: PLUG re-specifies every
connection of the open well P1 as SHUT (COMPDAT only — no handler reports an affected well), STIM
has two all-default WPIMULT records that both select P1 (the last one counts) -/
def blocks1 : List (List CKw) :=
  [[.ops "WELSPECS" [.welspecs "P1" "G1" (some 1) (some 1), .welspecs "P2" "G1" (some 2) (some 2)],
    .ops "COMPDAT" [.compdat "P1" 0 0 1 2 1, .compdat "P2" 0 0 1 1 1],
    .ops "WELOPEN" [.welopenW "P*" .open_]],
   [.actionx "PLUG", .ops "COMPDAT" [.compdat "P1" 1 1 1 2 2], .endactio,
    .actionx "STIM", .ops "WPIMULT" [.wpimultG "P*" "f", .wpimultG "P1" "g"], .endactio],
   [.ops "GEFAC" []]]
def obs1 (s : State) : List (String × Status × List Val) :=
  s.p.wells.map fun (n, _) => (n, statusOf s.st n, (connsOf s.c.m n).map fun c => (if c.state = 2 then "S" else "O") ++ c.pimult)

-- block 1 leaves its step closed (hypothesis `Closed s1` of `apply_eq_inline_closed_step`) …
example : ((run k0 (blocks1.take 1)).toOption.bind fun sa => (runKws k0 none (beginBlock (sa.getLastD (init k0)) (blocks1.getD 1 [])) (blocks1.getD 1 [])).toOption.map closedB) = some true := by
  decide +kernel
-- … the bodies are plain and do contain connection keywords
example : ([.ops "COMPDAT" [.compdat "P1" 1 1 1 2 2]] : List CKw).all plainKw = true ∧
    ([.ops "COMPDAT" [.compdat "P1" 1 1 1 2 2]] : List CKw).all noConnKw = false ∧
    ([.ops "WPIMULT" [.wpimultG "P*" "f", .wpimultG "P1" "g"]] : List CKw).all noConnKw = false := by decide
-- STIM then PLUG at step 1: P1 ends SHUT at step 1 and 2 with the LAST factor only, P2 keeps f
example : ((applySeq k0 blocks1 [(1, "STIM", []), (1, "PLUG", [])]).toOption.map fun r => r.2.map obs1) =
    some [[("P1", .open_, ["O1", "O1"]), ("P2", .open_, ["O1"])],
          [("P1", .shut, ["S1", "S1"]), ("P2", .open_, ["Omul(1,f)"])],
          [("P1", .shut, ["S1", "S1"]), ("P2", .open_, ["Omul(1,f)"])]] := by decide +kernel
example : ((applySeq k0 blocks1 [(1, "STIM", [])]).toOption.map fun r => r.2.map obs1) =
    some [[("P1", .open_, ["O1", "O1"]), ("P2", .open_, ["O1"])],
          [("P1", .open_, ["Omul(1,g)", "Omul(1,g)"]), ("P2", .open_, ["Omul(1,f)"])],
          [("P1", .open_, ["Omul(1,g)", "Omul(1,g)"]), ("P2", .open_, ["Omul(1,f)"])]] := by decide +kernel
-- and the inlined decks give the same
example : ((inlineSeq k0 blocks1 [(1, "STIM", [])]).toOption.bind fun b => (run k0 b).toOption.map fun ss => ss.map obs1) =
    some [[("P1", .open_, ["O1", "O1"]), ("P2", .open_, ["O1"])],
          [("P1", .open_, ["Omul(1,g)", "Omul(1,g)"]), ("P2", .open_, ["Omul(1,f)"])],
          [("P1", .open_, ["Omul(1,g)", "Omul(1,g)"]), ("P2", .open_, ["Omul(1,f)"])]] := by decide +kernel
example : ((inlineSeq k0 blocks1 [(1, "PLUG", [])]).toOption.bind fun b => (run k0 b).toOption.map fun ss => ss.map obs1) =
    ((applySeq k0 blocks1 [(1, "PLUG", [])]).toOption.map fun r => r.2.map obs1) ∧
    ((applySeq k0 blocks1 [(1, "PLUG", [])]).toOption.map fun r => r.2.map fun s => statusOf s.st "P1") = some [.open_, .shut, .shut] := by
  decide +kernel
-- the status-change events: opening at step 0, the automatic shut-in of the plugged well at step 1, none at step 2
example : ((applySeq k0 blocks1 [(1, "PLUG", [])]).toOption.map fun r => r.2.map (·.ev)) = some [["P1", "P2"], ["P1"], []] ∧
    ((inlineSeq k0 blocks1 [(1, "PLUG", [])]).toOption.bind fun b => (run k0 b).toOption.map fun ss => ss.map (·.ev)) = some [["P1", "P2"], ["P1"], []] := by
  decide +kernel
-- `Closed` is not vacuous: a state with a pending factor, or an open well with all connections shut, is not closed
example : closedB { p := { wells := [] }, c := { g := [("P1", "f")] } } = false := by decide
example : ((run k0 blocks1).toOption.map fun ss => ss.map closedB) = some [true, true, true] := by decide +kernel

example : sortW ["P1", "I1", "P2"] ["P2", "P1", "X"] = ["P1", "P2"] := by decide
example : substOp ["P1", "P2"] (.welopenW "?" .shut) = [.welopenW "P1" .shut, .welopenW "P2" .shut] := by decide

end OpmVerif.Props.C04
