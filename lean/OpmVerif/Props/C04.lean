/-
  C04 — Applying an ACTIONX equals inlining its keywords; earlier steps are immutable.  (proof, partial)

  Model: `Model/SchedAction.lean` (`applyAction` on (stored blocks, snapshots), on top of the C03
  core semantics).  Proved for every schedule, step, body and matching-well set:
    * `apply_past_untouched`, `apply_sequence_partial` (immutability of the past, also for any
      sequence of applications at steps ≥ n0);
    * `apply_eq_inline_partial`: apply = inline at every step > n and at n up to the marker,
      under the hypothesis that `end_report` had nothing to shut at step n (`endReport s1 = s1`);
      the full statement replaces that hypothesis by "the body contains no connection keyword"
      (the per-step exception of the property) and needs the commutation of `end_report` with the
      property-channel handlers — the channel typing of `stepP`/`stepC` is prepared for it, the
      proof is not done;
    * `subst_matches`: what '?' expands to.
  Observed only (correspondence with the real `Schedule::applyAction`, sequences included, and
  property mode real-apply vs real-inlined-deck): the "equals inlining all in that order" half of
  the sequence claim; handler-time resolution of '?' (the model resolves it once per application).
-/
import OpmVerif.Proofs.SchedAction

namespace OpmVerif.Props.C04
open OpmVerif.Sched

/-- States before n are untouched by an application at n. -/
theorem apply_past_untouched (k : Consts) (bs : List (List CKw)) (ss : List State) (n : Nat) (body : List CKw)
    (W : List String) (bs' : List (List CKw)) (ss' : List State)
    (h : applyAction k bs ss n body W = .ok (bs', ss')) : ss'.take n = ss.take n :=
  applyAction_past k bs ss n body W bs' ss' h

/-- Applying at step n = a.length equals building the schedule from the deck with the
substituted body written at the end of block n: same snapshots before n (`sa`), same at every
step > n (`tail`), and at n up to the marker.  PARTIAL: assumes `endReport s1 = s1` (no well
was auto-shut when step n was closed); see the header for the full shape. -/
theorem apply_eq_inline_partial (k : Consts) (a : List (List CKw)) (blk : List CKw) (c : List (List CKw))
    (sa : List State) (s1 : State) (tail0 : List State) (body : List CKw) (W : List String)
    (bs' : List (List CKw)) (ss' : List State)
    (ha : runFrom k (init k) a = .ok sa)
    (h1 : runKws k none (createNext (sa.getLastD (init k))) blk = .ok s1)
    (hno : endReport s1 = s1) (hp : body.all plainKw = true)
    (happ : applyAction k (a ++ blk :: c) (sa ++ endReport s1 :: tail0) a.length body W = .ok (bs', ss')) :
    ∃ sn' tail, ss' = sa ++ sn' :: tail ∧
      run k (inlineAt (a ++ blk :: c) a.length (substBody (sortW (names s1.p.wells) W) body)) =
        .ok (sa ++ setMark s1.mark sn' :: tail) := by
  have e : inlineAt (a ++ blk :: c) a.length (substBody (sortW (names s1.p.wells) W) body) =
      a ++ (blk ++ substBody (sortW (names s1.p.wells) W) body) :: c := by
    simp [inlineAt, appendAt, modify_at_length]
  rw [e]
  exact applyAction_eq_inline k a blk c sa s1 tail0 body W bs' ss' ha h1 hno hp happ

/-- State-level core: re-running the handlers on the closed snapshot and closing it again
equals (up to the marker) running block n with the body appended. -/
theorem apply_state_eq_inline_partial (k : Consts) (s0 s1 : State) (blk body : List CKw) (W : List String) (sn' : State)
    (h1 : runKws k none s0 blk = .ok s1) (hno : endReport s1 = s1) (hp : body.all plainKw = true)
    (ha : applyAtState k (endReport s1) body W = .ok sn') :
    ∃ t, runKws k none s0 (blk ++ substBody (sortW (names s1.p.wells) W) body) = .ok t ∧
         endReport t = setMark s1.mark sn' :=
  applyAtState_eq_inline k s0 s1 blk body W sn' h1 hno hp ha

/-- Sequences (immutability half): whatever is applied, in any number and order, at steps ≥ n0
leaves the snapshots before n0 as they were.  PARTIAL: the other half of the property's sequence
clause (equality with inlining all bodies in that order, for non-decreasing steps) is validated
against the real code only. -/
theorem apply_sequence_partial (k : Consts) (n0 : Nat) (apps : List App) (bs : List (List CKw)) (ss : List State)
    (bs' : List (List CKw)) (ss' : List State) (hl : ss.length = bs.length)
    (hge : ∀ a ∈ apps, n0 ≤ a.1)
    (h : applyList k bs ss apps = .ok (bs', ss')) : ss'.take n0 = ss.take n0 :=
  applyList_past k n0 apps bs ss bs' ss' hl hge h

/-- '?' expands to exactly the matching wells that exist, in well order, one record each;
other records are unchanged. -/
theorem subst_matches (order W ws : List String) (r : ROp) :
    (∀ w, w ∈ sortW order W ↔ w ∈ order ∧ w ∈ W) ∧ (sortW order W).Sublist order ∧
    (r.wpat ≠ some "?" → substOp ws r = [r]) ∧
    (r.wpat = some "?" → substOp ws r = ws.map (fun w => r.setPat w) ∧ ∀ w, (r.setPat w).wpat = some w) :=
  ⟨mem_sortW order W, sortW_sublist order W, substOp_other ws r,
   fun h => ⟨substOp_q ws r h, fun w => setPat_wpat w r h⟩⟩

/-! ### non-vacuity: an action that re-parents a group, applied at step 1 -/

def k0 : Consts := { one := "1", zero := "-", bhpProd := "b", bhpInj := "B" }
def blocks0 : List (List CKw) :=
  [[.ops "GRUPTREE" [.gruptree "G1" "FIELD", .gruptree "G2" "G1"]],
   [.actionx "A", .ops "GRUPTREE" [.gruptree "G2" "FIELD"], .endactio],
   [.ops "GEFAC" []]]
def bodyA : List CKw := [.ops "GRUPTREE" [.gruptree "G2" "FIELD"]]

example : bodyA.all plainKw = true := by decide
example : ((applySeq k0 blocks0 [(1, "A", [])]).toOption.map fun r => (r.2.length, r.2.map fun s => (lookup s.p.groups "G2").map (·.parent))) =
    some (3, [some "G1", some "FIELD", some "FIELD"]) := by decide +kernel
example : ((run k0 (inlineAt blocks0 1 bodyA)).toOption.map fun ss => ss.map fun s => (lookup s.p.groups "G2").map (·.parent)) =
    some [some "G1", some "FIELD", some "FIELD"] := by decide +kernel
example : sortW ["P1", "I1", "P2"] ["P2", "P1", "X"] = ["P1", "P2"] := by decide
example : substOp ["P1", "P2"] (.welopenW "?" .shut) = [.welopenW "P1" .shut, .welopenW "P2" .shut] := by decide

end OpmVerif.Props.C04
