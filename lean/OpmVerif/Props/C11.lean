/-
  C11 — Serialization round trip yields an observably identical object.

  Only property statements, one-line proofs from `Proofs/Serial*.lean`, and non-vacuity
  examples.  This property is **proof (partial)** by design:
    * the combinator algebra of `Serializer<MemPacker>` (three passes PACKSIZE/PACK/UNPACK over
      pod, string, vector, vector<bool>, array, optional, unique_ptr, variant, pair/tuple,
      set/map/unordered, class) is proved for ALL type descriptors and ALL well-typed values;
    * per-class completeness (`members_covered`, `eq_covers_serialized`) is a finite check,
      decided by the kernel over the table regenerated from the C++ headers on every run;
    * observational identity of real objects is the correspondence / property-mode run.
  Full statement that is NOT proved: "for every C++ object x of every class reachable from
  Schedule/EclipseState/…, unpack(pack(x)) answers every public query like x" — it needs the
  semantics of the query functions; what is proved is that every *listed member* comes back
  bit-identical (`struct_roundtrip`) and that the lists are complete up to the documented
  exceptions.
-/
import OpmVerif.Proofs.Serial
import OpmVerif.Proofs.SerialGraph
import OpmVerif.Proofs.SerialCoverage

namespace OpmVerif.Props.C11
open OpmVerif.Serial OpmVerif.Serial.Coverage OpmVerif.Gen.SerialClasses

/-! ## combinator algebra (all types, all values) -/

/-- UNPACK ∘ PACK = id: for every type descriptor, every well-typed value and every fresh
target (e.g. a value-initialised object), unpacking the packed bytes — followed by any
other bytes — returns exactly the value and leaves exactly the other bytes. -/
theorem unpack_pack (t : Ty) (v tgt : Val) (rest : Bytes) (hv : wt t v = true) (hf : fresh t tgt = true) :
    unpack t tgt (pack t v ++ rest) = .ok (v, rest) :=
  OpmVerif.Serial.unpack_pack t v tgt rest hv hf

/-- A value-initialised object is a fresh target, for every type. -/
theorem default_is_fresh (t : Ty) : fresh t (dflt t) = true :=
  fresh_dflt t

/-- PACKSIZE agrees with PACK: the buffer sized by the first pass is exactly filled by the
second. -/
theorem packsize_exact (t : Ty) (v : Val) (hv : wt t v = true) : (pack t v).length = size t v :=
  pack_length t v hv

/-- UNPACK consumes exactly the bytes that were packed: `position()` after `unpack` equals
the PACKSIZE of the object, and the object read back is the one packed. -/
theorem unpack_consumes_exactly (t : Ty) (v : Val) (hv : wt t v = true) :
    roundTrip t v = .ok (v, size t v) :=
  roundTrip_eq t v hv

/-- Packing again what was unpacked gives the same bytes (same length, same meaning). -/
theorem repack_same (t : Ty) (v v' : Val) (rest : Bytes) (hv : wt t v = true)
    (h : unpack t (dflt t) (pack t v) = .ok (v', rest)) : pack t v' = pack t v ∧ rest = [] :=
  repack_of_unpack t v v' rest hv h

/-- A class whose `serializeOp` lists members of types `ts` round-trips exactly those
members, whatever the default constructor left in them as long as it is fresh. -/
theorem struct_roundtrip (ts : List Ty) (ms tgt : List Val) (rest : Bytes)
    (hv : wts ts ms = true) (hf : freshs ts tgt = true) :
    unpack (.struct ts) (.list tgt) (pack (.struct ts) (.list ms) ++ rest) = .ok (.list ms, rest) :=
  OpmVerif.Serial.unpack_pack (.struct ts) (.list ms) (.list tgt) rest (by simpa [wt] using hv) (by simpa [fresh, elems] using hf)

/-- PACK is injective and prefix-free on well-typed values: two objects with the same bytes
(even when followed by different data) are the same object. -/
theorem pack_injective (t : Ty) (v v' : Val) (r r' : Bytes) (hv : wt t v = true) (hv' : wt t v' = true)
    (h : pack t v ++ r = pack t v' ++ r') : v = v' ∧ r = r' :=
  pack_inj t v v' r r' hv hv' h

/-- PACK ∘ UNPACK = id on types without `unique_ptr` and associative containers: whatever
buffer UNPACK accepts (into ANY target), the value it returns is well typed and packs to
exactly the bytes consumed — every accepted buffer is canonical, nothing is read that PACK
would not have written. -/
theorem repack_accepted_buffer (t : Ty) (tgt v : Val) (bs rest : Bytes) (hfl : flat t = true)
    (h : unpack t tgt bs = .ok (v, rest)) : pack t v ++ rest = bs ∧ wt t v = true :=
  pack_unpack t tgt v bs rest hfl h

/-- …and it consumed exactly PACKSIZE bytes. -/
theorem unpack_consumed_size (t : Ty) (tgt v : Val) (bs rest : Bytes) (hfl : flat t = true)
    (h : unpack t tgt bs = .ok (v, rest)) : bs.length = size t v + rest.length :=
  unpack_consumed t tgt v bs rest hfl h

/-- `flat` is necessary: a `unique_ptr` flag other than 0/1 is accepted as "null" (the code
tests `ptr == 1`), and a set accepts entries in any order, so those buffers are not canonical. -/
example : unpack (.uptr (.pod 1)) .none [5, 0, 0, 0] = .ok (.none, []) ∧ pack (.uptr (.pod 1)) .none = [0, 0, 0, 0] := by
  decide +kernel

example : unpack (.set true (.pod 1)) (.list []) [2, 0, 0, 0, 0, 0, 0, 0, 9, 3] = .ok (.list [.pod [3], .pod [9]], []) := by
  decide +kernel

example : flat (.struct [.str, .vec (.opt (.int 4)), .var [.pod 8, .tup [.vecBool, .arr 3 (.pod 2)]]]) = true := by decide

/-- `time_point` round trip: every `int64_t` millisecond count — sub-second times and times
before the epoch included — is read back exactly, whatever follows in the buffer.  (The wire
format is the full tick count since fix e3efc3a5b; the earlier `time_t` encoding lost the
milliseconds, finding F7.) -/
theorem time_point_roundtrip (ms : Int) (rest : Bytes) (hlo : -two63 ≤ ms) (hhi : ms < two63) :
    unpackTime (packTime ms ++ rest) = .ok (ms, rest) :=
  unpackTime_packTime ms rest hlo hhi

/-- non-vacuity: 1.5 s after and 0.864 s before the epoch survive -/
example : unpackTime (packTime 1500) = .ok (1500, []) ∧ unpackTime (packTime (-864)) = .ok (-864, []) := by
  decide +kernel

/-! ## per-class completeness over the generated table -/

/-- Data members that are deliberately not serialized, with the reason. -/
def exceptions : List Exc := [
  ("Opm::EclipseState", "m_inputGrid", "documented: the grid is distributed separately"),
  ("Opm::EclipseState", "field_props", "documented: field properties are distributed separately"),
  ("Opm::Carfin", "m_globalGridDims_", "LGR host-grid data, rebuilt from the grid (distributed separately)"),
  ("Opm::Carfin", "m_globalIsActive_", "std::function into the host grid, process-local"),
  ("Opm::Carfin", "m_globalActiveIdx_", "std::function into the host grid, process-local"),
  ("Opm::Carfin", "parent_name_grid", "LGR host-grid data (distributed separately)"),
  ("Opm::Carfin", "m_active_index_list", "LGR host-grid index list, rebuilt from the grid"),
  ("Opm::Carfin", "m_global_index_list", "LGR host-grid index list, rebuilt from the grid"),
  ("Opm::MULTREGTScanner", "fp", "process-local back-pointer to the FieldPropsManager"),
  ("Opm::Action::PyAction", "run_module", "process-local handle of the loaded Python module"),
  ("Opm::ScheduleStatic", "m_python_handle", "process-local Python interpreter handle"),
  ("Opm::UnitSystem", "measure_table_to_si_offset", "rebuilt by init() inside serializeOp on unpack"),
  ("Opm::UnitSystem", "measure_table_from_si", "rebuilt by init() inside serializeOp on unpack"),
  ("Opm::UnitSystem", "measure_table_to_si", "rebuilt by init() inside serializeOp on unpack"),
  ("Opm::UnitSystem", "unit_name_table", "rebuilt by init() inside serializeOp on unpack"),
  ("Opm::Well", "unit_system", "process-local back-pointer, re-established by Schedule::serializeOp"),
  ("Opm::ScheduleStatic", "sumthin", "construction-time input: read only by Schedule::create_first, which copies it into ScheduleState::m_sumthin (serialized)"),
  ("Opm::ScheduleStatic", "rptonly", "construction-time input: read only by Schedule::create_first, which copies it into ScheduleState::m_rptonly (serialized)"),
  ("Opm::ScheduleStatic", "oilVap", "construction-time input: read only by Schedule::create_first, which copies it into ScheduleState::oilvap (serialized)")
]

/-- Data members that are still NOT serialized and are read after construction (open candidates).
Empty: the eight members found by this check that a public query demonstrably lost (F7–F14, the last
two `ScheduleStatic::slave_mode` and `EclipseState::m_restart_network_pressures`) were fixed in /repo
and are serialized now; their property-mode probes are armed (lib/props/C11.py). -/
def knownUnserialized : List Exc := []

/-- Serialized members that `operator==` (including the member functions it calls) does not
mention on the unchanged tree.  `operator==` is weaker than the serialized state there, so
for these members equality of the copy is decided by the byte-equal re-pack, not by `==`. -/
def eqExceptions : List Exc := [
  ("Opm::Carfin", "name_grid", "not compared"),
  ("Opm::Connection", "m_wpimult", "not compared"),
  ("Opm::DeckItem", "rsval", "not compared"), ("Opm::DeckItem", "uval", "not compared"),
  ("Opm::DeckItem", "active_dimensions", "not compared"), ("Opm::DeckItem", "default_dimensions", "not compared"),
  ("Opm::DeckKeyword", "m_location", "not compared"), ("Opm::DeckKeyword", "m_isDataKeyword", "not compared"),
  ("Opm::DeckKeyword", "m_slashTerminated", "not compared"), ("Opm::DeckKeyword", "m_isDoubleRecordKeyword", "not compared"),
  ("Opm::EquilContainer", "m_records", "compared through data(), a non-member path"),
  ("Opm::GPMaint", "m_pressure_target", "not compared"), ("Opm::GPMaint", "m_prop_constant", "not compared"),
  ("Opm::GPMaint", "m_time_constant", "not compared"),
  ("Opm::GuideRateModel", "default_model", "not compared"), ("Opm::GuideRateModel", "alpha", "not compared"),
  ("Opm::GuideRateModel", "beta", "not compared"), ("Opm::GuideRateModel", "gamma", "not compared"),
  ("Opm::Network::ExtNetwork", "m_is_standard_network", "not compared"),
  ("Opm::OilVaporizationProperties", "m_psi", "not compared"), ("Opm::OilVaporizationProperties", "m_omega", "not compared"),
  ("Opm::ScheduleDeck", "skiprest", "not compared"), ("Opm::ScheduleDeck", "m_location", "not compared"),
  ("Opm::ScheduleState", "aqufluxs", "not compared"), ("Opm::ScheduleState", "bcprop", "not compared"),
  ("Opm::ScheduleStatic", "output_interval", "not compared"),
  ("Opm::Segment", "m_inlet_segments", "not compared"),
  ("Opm::SimulationConfig", "m_useEnthalpy", "not compared"),
  ("Opm::SummaryConfigNode", "loc", "not compared"), ("Opm::SummaryConfigNode", "type_", "not compared"),
  ("Opm::SummaryConfigNode", "fip_region_", "not compared"), ("Opm::SummaryConfigNode", "userDefined_", "not compared"),
  ("Opm::TableManager", "m_pvtsolTables", "not compared"), ("Opm::TableManager", "m_rockTable", "not compared"),
  ("Opm::ThresholdPressure", "m_irreversible", "not compared"), ("Opm::ThresholdPressure", "m_thresholdFaultTable", "not compared"),
  ("Opm::UDQASTNode", "sign", "not compared"),
  ("Opm::UDQParams", "m_true_rng", "random engine state, not comparable"), ("Opm::UDQParams", "m_sim_rng", "random engine state, not comparable"),
  ("Opm::UnitSystem", "m_use_count", "usage counter, not part of the value"),
  ("Opm::Valve", "m_udq_default", "not compared"),
  ("Opm::WList", "name", "not compared"),
  ("Opm::WListManager", "well_wlist_names", "not compared"), ("Opm::WListManager", "no_wlists_well", "not compared"),
  ("Opm::Well::WellInjectionProperties", "name", "not compared"), ("Opm::Well::WellProductionProperties", "name", "not compared"),
  ("Opm::WellConnections", "headI", "not compared"), ("Opm::WellConnections", "headJ", "not compared"),
  ("Opm::WellEconProductionLimits", "m_end_run", "not compared")
]

/-- The classes the property names must all be in the generated table. -/
def requiredClasses : List String := [
  "Opm::Schedule", "Opm::ScheduleState", "Opm::Well", "Opm::Group", "Opm::Connection", "Opm::WellConnections",
  "Opm::UDQConfig", "Opm::Action::ActionX", "Opm::SummaryState", "Opm::UDQState", "Opm::Action::State",
  "Opm::WellTestState", "Opm::RestartValue", "Opm::EclipseState", "Opm::SummaryConfig"]

-- Diagnostic for the check's log: names the offending class.member before the theorems fail.
#eval show IO Unit from do
  let u := uncovered (exceptions ++ knownUnserialized) classes
  if !u.isEmpty then
    throw (IO.userError s!"C11 members_covered: data member(s) missing from serializeOp: {showPairs u}")
  let e := eqUncovered eqExceptions classes
  if !e.isEmpty then
    throw (IO.userError s!"C11 eq_covers_serialized: serialized member(s) not compared by operator==: {showPairs e}")
  if !(badKeys classes).isEmpty then
    throw (IO.userError s!"C11: translator/class-key mismatch for {badKeys classes}")
  let up := unmodelledPtr classes
  if !up.isEmpty then
    throw (IO.userError s!"C11 pointer_members_modelled: serialized member(s) with a shared_ptr under an unmodelled combinator or a raw pointer: {showPairs up}")
  let s := staleExceptions (exceptions ++ knownUnserialized) classes ++ staleEqExceptions eqExceptions classes
  if !s.isEmpty then
    throw (IO.userError s!"C11 exceptions_tight: stale exception(s): {showPairs s}")

/-- Every data member of every class reachable from the root classes is named in that
class's `serializeOp`, or is on the exception lists above. -/
theorem members_covered : uncovered (exceptions ++ knownUnserialized) classes = [] := by decide +kernel

/-- Every serialized member is also compared by `operator==` (or is on `eqExceptions`), so a
member forgotten in both places cannot hide behind `==`. -/
theorem eq_covers_serialized : eqUncovered eqExceptions classes = [] := by decide +kernel

/-- The exception lists are tight: every entry (candidates included) names an existing member
that really is not serialized / not compared (a stale entry would mask a later regression). -/
theorem exceptions_tight :
    staleExceptions (exceptions ++ knownUnserialized) classes = [] ∧ staleEqExceptions eqExceptions classes = [] := by
  decide +kernel

/-- Every serialized member that holds a `shared_ptr` holds it under combinators of the pointer layer
(`GTy`: shared_ptr, vector, optional, unique_ptr, array, value of a (unordered_)map, pair/tuple), and
no raw pointer is serialized — so the member types of the real classes are instances of the shapes
`shared_unpack_pack` is about (shape computed by the translator from the compiler's type). -/
theorem pointer_members_modelled : unmodelledPtr classes = [] := by decide +kernel

/-- All classes named by the property are covered by the table.  (Classes are looked up by the
numeric `key` first and by name second, so a wrong key can only make a lookup fail — i.e. make
these theorems fail — never succeed wrongly.) -/
theorem roots_present : missing requiredClasses classes = [] := by decide +kernel


/-! ## shared_ptr and the identity map `m_ptrmap` (all pointer-holding types, all object graphs)

`GTy` adds `shared_ptr` (and optional / unique_ptr / vector / array / (unordered_)map with
pointer-free key / pair-tuple-class around it) on top of the pointer-free descriptors (`GTy.flat`).  PACK writes the
ADDRESS of the pointee and the pointee only at its first occurrence; UNPACK makes one new object
per address (`ρ a` = its address) and lets every later pointer with that address share it.  `H`
is the heap the object is a view of (`GVal.cons H v`: equal addresses show equal pointees). -/

/-- UNPACK ∘ PACK on object graphs, in the middle of a traversal: whatever the pointer maps hold
(`S` during PACK, `M` during UNPACK, related by `PInv`), unpacking the packed bytes — followed by
any other bytes — into a fresh target returns the SAME GRAPH at the new addresses, leaves exactly
the other bytes, and the two maps are related again afterwards. -/
theorem shared_unpack_pack (ρ : Nat → Nat) (H : Nat → GVal) (t : GTy) (v tgt : GVal) (S : Seen) (M : PtrMap)
    (rest : Bytes) (hv : gwt t v = true) (hc : GVal.cons H v) (hf : gfresh t tgt = true) (hi : PInv ρ H S M) :
    ∃ M', gunpack ρ t tgt M ((gpack t S v).1 ++ rest) = .ok (GVal.rename ρ v, M', rest)
      ∧ PInv ρ H (gpack t S v).2 M' :=
  gunpack_gpackW ρ H t v tgt S M rest hv hc hf hi

/-- A whole `pack(x)`, `unpack(y)` with `y` value-initialised: the object graph comes back at the
new addresses and `position()` equals PACKSIZE. -/
theorem shared_roundtrip (ρ : Nat → Nat) (H : Nat → GVal) (t : GTy) (v : GVal) (hv : gwt t v = true)
    (hc : GVal.cons H v) : groundTrip ρ t v = .ok (GVal.rename ρ v, (gsize t [] v).1) :=
  groundTrip_eq ρ H t v hv hc

/-- PACKSIZE agrees with PACK on object graphs: same number of bytes and the same pointer map
afterwards, from any state of the map. -/
theorem shared_packsize_exact (t : GTy) (S : Seen) (v : GVal) (hv : gwt t v = true) :
    (gpack t S v).1.length = (gsize t S v).1 ∧ (gpack t S v).2 = (gsize t S v).2 :=
  gpackW_length id t S v hv

/-- Pointer identity is transported exactly: the addresses of the copy are the image of the
original's under `ρ`, so (new objects being distinct, `ρ` injective) the i-th and j-th pointer
of the copy are one object iff they were one object — two `shared_ptr` to one object come back
as one object, two pointers to two equal objects come back as two. -/
theorem shared_alias_preserved (ρ : Nat → Nat) (hρ : ∀ a b, ρ a = ρ b → a = b) (v : GVal) (i j : Nat) :
    (GVal.addrs (GVal.rename ρ v))[i]? = (GVal.addrs (GVal.rename ρ v))[j]? ↔
      (GVal.addrs v)[i]? = (GVal.addrs v)[j]? :=
  alias_iff ρ hρ v i j

/-- Packing the copy again gives the original buffer with every address field `a` replaced by
`ρ a` (`gpackW ρ` = PACK writing `ρ a` for `a`), and the pointer map renamed: same layout, same
meaning. -/
theorem shared_repack (ρ : Nat → Nat) (hρ : ∀ a b, ρ a = ρ b → a = b) (h0 : ∀ a, ¬ a = 0 → ¬ ρ a = 0)
    (t : GTy) (S : Seen) (v : GVal) (hv : gwt t v = true) :
    gpack t (S.map ρ) (GVal.rename ρ v) = ((gpackW ρ t S v).1, (gpackW ρ t S v).2.map ρ) :=
  gpackW_rename ρ hρ h0 t S v hv

/-- … in particular to a buffer of the same length. -/
theorem shared_repack_length (ρ : Nat → Nat) (hρ : ∀ a b, ρ a = ρ b → a = b) (h0 : ∀ a, ¬ a = 0 → ¬ ρ a = 0)
    (t : GTy) (v : GVal) (hv : gwt t v = true) :
    (gpack t [] (GVal.rename ρ v)).1.length = (gpack t [] v).1.length :=
  grepack_length ρ hρ h0 t v hv

/-- PACK is injective and prefix-free on object graphs: two graphs (each a view of some heap) with
the same bytes are the same graph — same contents AND same addresses, hence the same aliasing. -/
theorem shared_pack_injective (H H' : Nat → GVal) (t : GTy) (v v' : GVal) (r r' : Bytes)
    (hv : gwt t v = true) (hv' : gwt t v' = true) (hc : GVal.cons H v) (hc' : GVal.cons H' v')
    (h : (gpack t [] v).1 ++ r = (gpack t [] v').1 ++ r') : v = v' ∧ r = r' :=
  gpack_inj H H' t v v' r r' hv hv' hc hc' h

/-- A value-initialised object graph is a fresh target. -/
theorem shared_default_is_fresh (t : GTy) : gfresh t (gdflt t) = true :=
  gfresh_gdflt t

/-! ## non-vacuity -/

/-- a Well-like class: name, head (i, j), optional limit, connections keyed by (i, j), flags -/
def sampleTy : Ty :=
  .struct [.str, .tup [.int 4, .int 4], .opt (.pod 8), .map true (.tup [.int 4, .int 4]) (.vec (.pod 8)),
           .vecBool, .var [.int 4, .str], .uptr .str, .set false .str]

def sampleVal : Val :=
  .list [.str [80, 49], .list [.pod [3, 0, 0, 0], .pod [255, 255, 255, 255]], .some (.pod [0, 0, 0, 0, 0, 0, 240, 63]),
         .list [.list [.list [.pod [255, 255, 255, 255], .pod [1, 0, 0, 0]], .list [.pod [1, 2, 3, 4, 5, 6, 7, 8]]],
                .list [.list [.pod [2, 0, 0, 0], .pod [0, 0, 0, 0]], .list []]],
         .bools [true, false, true], .alt 1 (.str [65]), .some (.str [66, 67]), .list [.str [90], .str [65]]]

example : wt sampleTy sampleVal = true := by decide +kernel
example : fresh sampleTy (dflt sampleTy) = true := by decide +kernel
example : (pack sampleTy sampleVal).length = 143 := by decide +kernel
example : size sampleTy sampleVal = 143 := by decide +kernel

/-- Freshness of the target is necessary: unpacking into a map that already holds an
equivalent key keeps the OLD entry (`insert` does not overwrite), and a null `unique_ptr`
in the buffer leaves a stale pointee in place. -/
example : unpack (.map true (.int 4) (.pod 1)) (.list [.list [.pod [1, 0, 0, 0], .pod [9]]])
      (pack (.map true (.int 4) (.pod 1)) (.list [.list [.pod [1, 0, 0, 0], .pod [7]]]))
    = .ok (.list [.list [.pod [1, 0, 0, 0], .pod [9]]], []) := by decide +kernel

example : unpack (.uptr (.pod 1)) (.some (.pod [5])) (pack (.uptr (.pod 1)) .none) = .ok (.some (.pod [5]), []) := by
  decide +kernel


/-! non-vacuity of the pointer layer: a Schedule-like graph — a vector of two "report steps", each
holding a `shared_ptr` to a string and an unordered map name ↦ `shared_ptr<Well>`, a "well" holding
an int and a `shared_ptr` to a double.  Step 2 shares the string and well W1 with step 1; well W2 of
step 2 is a different object that shares the inner double with W1. -/
def sampleGTy : GTy :=
  .vec (.struct [.sptr (.flat .str), .map false .str (.sptr (.struct [.flat (.int 4), .sptr (.flat (.pod 8))]))])

def sampleInner : GVal := .ptr 4096 (.flat (.pod [0, 0, 0, 0, 0, 0, 240, 63]))
def sampleW1 : GVal := .ptr 8192 (.list [.flat (.pod [7, 0, 0, 0]), sampleInner])
def sampleW2 : GVal := .ptr 8256 (.list [.flat (.pod [7, 0, 0, 0]), sampleInner])
def sampleName : GVal := .ptr 12288 (.flat (.str [83]))

def sampleG : GVal :=
  .list [.list [sampleName, .list [.list [.flat (.str [87, 49]), sampleW1]]],
         .list [sampleName, .list [.list [.flat (.str [87, 49]), sampleW1], .list [.flat (.str [87, 50]), sampleW2]]]]

def sampleHeap (a : Nat) : GVal :=
  if a = 4096 then gpointee sampleInner else if a = 8192 then gpointee sampleW1
  else if a = 8256 then gpointee sampleW2 else gpointee sampleName

example : gwt sampleGTy sampleG = true := by decide +kernel
example : GVal.cons sampleHeap sampleG := by
  simp [sampleG, sampleName, sampleW1, sampleW2, sampleInner, sampleHeap, gpointee, GVal.cons, GVal.consList]
example : PInv (fun a => a + 1000) sampleHeap [] [] := PInv_nil _ _
example : gfresh sampleGTy (gdflt sampleGTy) = true := by decide +kernel
/-- 7 pointers, 4 objects: the second pointer to an object costs 8 bytes -/
example : GVal.addrs sampleG = [12288, 8192, 4096, 12288, 8192, 4096, 8256, 4096] := by decide +kernel
example : (gpack sampleGTy [] sampleG).1.length = 135 := by decide +kernel
example : (gsize sampleGTy [] sampleG) = (135, [8256, 8192, 4096, 12288]) := by decide +kernel
example : (∀ a b, (fun a => a + 1000) a = (fun a => a + 1000) b → a = b) ∧ (∀ a, ¬ a = 0 → ¬ (fun a => a + 1000) a = 0) := by
  constructor
  · intro a b h; simp at h; exact h
  · intro a _; simp

/-- Freshness of a `shared_ptr` target is necessary: a null on the wire leaves a stale owner in
place (UNPACK returns before touching the pointer). -/
example : (match gunpack id (.sptr (.flat (.pod 1))) (.ptr 5 (.flat (.pod [5]))) [] (gpack (.sptr (.flat (.pod 1))) [] .null).1 with
           | .ok (v, _, _) => GVal.addrs v | .error _ => []) = [5] := by decide +kernel

/-- Consistency of the heap is necessary: of two pointers with one address only the first pointee
travels, the second comes back showing the first's. -/
example : (match groundTrip id (.struct [.sptr (.flat (.pod 1)), .sptr (.flat (.pod 1))])
              (.list [.ptr 5 (.flat (.pod [1])), .ptr 5 (.flat (.pod [2]))]) with
           | .ok (.list [_, .ptr _ (.flat (.pod b))], _) => b | _ => []) = [1] := by decide +kernel

example : (classes.length > 200) = true := by decide +kernel
/-- the pointer layer is not idle: `Well`'s thirteen members, `ptr_member`, `map_member`, the AST nodes … -/
example : ((modelledPtr classes).length ≥ 20) = true := by decide +kernel

end OpmVerif.Props.C11
