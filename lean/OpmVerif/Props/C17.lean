/-
  C17 — UDQ expressions evaluate according to the documented expression semantics.

  Only property statements, one-line proofs from `Proofs/UdqParse.lean` / `Proofs/UdqEval.lean`,
  and non-vacuity examples.  Quantifiers: every abstract syntax tree of the documented grammar
  (any depth, any operator combination), every value type `α` with any operation record `F`,
  every set length, every ASSIGN/DEFINE/UPDATE event list.
-/
import OpmVerif.Proofs.UdqParse
import OpmVerif.Proofs.UdqEval

namespace OpmVerif.Props.C17
open OpmVerif.Udq OpmVerif.Gen.UdqEnums

/-- The parser implements the documented precedence and associativity for **all** operator
combinations: print any tree `e` of the documented grammar with the documented ranks
(functions/parentheses/unary sign > `^` > `* /` > `+ -` > comparisons > union operators;
`* / + -` left-associative; `^`, comparisons and union operators right-associative as the code
has them; parentheses only where the ranks demand them) and `parse_set` returns exactly `e` and
consumes every token — for every fuel from some bound on.

`_partial`: the full statement is `parse (render e) = .ast e` with the model's own fuel
`fuelFor ts = 8 * ts.length + 8`; what is missing is the arithmetic lemma that this fuel is above
the bound (`fuelFor (render e) ≥ f0`), i.e. fuel monotonicity + sufficiency.  The executable model
is run with `fuelFor` in the correspondence and never reported `fuel` there. -/
theorem parse_render_partial (e : Ast) (hw : WF e) :
    ∃ f0, ∀ f, f0 ≤ f → parseSet f (render e) = .ok e [] :=
  parseSet_render_ev e hw

/-- The same inside any context: the rank-`lvl` parser applied to the rank-`lvl` print-out of `e`
followed by arbitrary further tokens `rest` returns `e` and leaves exactly `rest`, provided `rest`
does not start with an operator that binds at rank `lvl` or tighter (`okRest`). -/
theorem parse_render_in_context (e : Ast) (hw : WF e) (lvl : Nat) (rest : List Tok) (hl : lvl ≤ 5)
    (ho : okRest lvl rest) :
    ∃ f0, ∀ f, f0 ≤ f → parseAt lvl f (renderAt lvl e ++ rest) = .ok e rest :=
  (main_inv e hw).1 lvl rest hl ho

/-- `* /` (and likewise `+ -`) chains are folded to the left by the `nodes` vector of `parse_mul`:
the loop state (first node, reversed operator list) is equivalent to one accumulated left operand. -/
theorem mul_loop_is_left_fold (f : Nat) (n0 : Ast) (acc : List (Head × Ast)) (rest : List Tok) :
    parseMulLoop f n0 acc rest = parseMulLoop f (build n0 acc) [] rest :=
  parseMulLoop_collapse f n0 acc rest

theorem add_loop_is_left_fold (f : Nat) (n0 : Ast) (acc : List (Head × Ast)) (rest : List Tok) :
    parseAddLoop f n0 acc rest = parseAddLoop f (build n0 acc) [] rest :=
  parseAddLoop_collapse f n0 acc rest

/-- Element-wise evaluation: two sets over the same well/group list combine position by position,
keeping names and kind; an element is defined iff both inputs are defined and the result is finite. -/
theorem eval_elementwise {α : Type} (F : Fns α) (f : α → α → α) (l r : USet α)
    (hvt : l.vt = r.vt) (hlen : l.vals.length = r.vals.length) :
    arith F f l r = .ok ⟨l.vt, List.zipWith (fun a b => (a.1, opt2 F f a.2 b.2)) l.vals r.vals⟩ :=
  arith_elementwise F f l r hvt hlen

/-- Undefined operands propagate. -/
theorem undefined_propagates {α : Type} (F : Fns α) (f : α → α → α) (a : Option α) :
    opt2 F f none a = none ∧ opt2 F f a none = none :=
  ⟨opt2_none_left F f a, opt2_none_right F f a⟩

/-- Scalar broadcasting: a defined scalar combined with a well/group set is the scalar copied to
every element of that set, then the element-wise operation (both operand orders). -/
theorem eval_broadcast {α : Type} (F : Fns α) (f : α → α → α) (n : String) (x : α)
    (rest : List (String × Option α)) (vt : VT) (hs : vt = .scalar ∨ vt = .field) (s : USet α)
    (hset : s.vt = .well ∨ s.vt = .group) :
    arith F f ⟨vt, (n, some x) :: rest⟩ s = arith F f (USet.fill F s.vt (s.vals.map (·.1)) x) s ∧
    arith F f s ⟨vt, (n, some x) :: rest⟩ = arith F f s (USet.fill F s.vt (s.vals.map (·.1)) x) :=
  ⟨arith_broadcast_left F f n x rest vt hs s hset, arith_broadcast_right F f n x rest vt hs s hset⟩

/-- Reductions are their list definitions over the defined elements (in element order);
on a set without defined elements they return the empty set. -/
theorem reductions_def {α : Type} (F : Fns α) (u : USet α) (x : α) (xs : List α)
    (h : definedValues u = x :: xs) :
    scalarFn F .scalar_func_sum u = .ok (USet.scalar F (some ((x :: xs).foldl F.add (F.ofNat 0)))) ∧
    scalarFn F .scalar_func_prod u = .ok (USet.scalar F (some ((x :: xs).foldl F.mul (F.ofNat 1)))) ∧
    scalarFn F .scalar_func_avea u
      = .ok (USet.scalar F (some (F.div ((x :: xs).foldl F.add (F.ofNat 0)) (F.ofNat (xs.length + 1))))) ∧
    scalarFn F .scalar_func_norm1 u
      = .ok (USet.scalar F (some ((x :: xs).foldl (fun s y => F.add s (F.abs y)) (F.ofNat 0)))) ∧
    scalarFn F .scalar_func_norm2 u
      = .ok (USet.scalar F (some (F.sqrt ((x :: xs).foldl (fun s y => F.add s (F.mul y y)) (F.ofNat 0))))) :=
  ⟨scalarFn_sum F u x xs h, scalarFn_prod F u x xs h, scalarFn_avea F u x xs h, scalarFn_norm1 F u x xs h,
   scalarFn_norm2 F u x xs h⟩

theorem reductions_empty {α : Type} (F : Fns α) (t : TT) (u : USet α) (h : definedValues u = []) :
    scalarFn F t u = .ok USet.empty :=
  scalarFn_empty F t u h

/-- MAX / MIN return one of the defined elements. -/
theorem max_min_attained {α : Type} (F : Fns α) (m : α) (xs : List α) :
    (maxElem F m xs = m ∨ maxElem F m xs ∈ xs) ∧ (minElem F m xs = m ∨ minElem F m xs ∈ xs) :=
  ⟨maxElem_mem F m xs, minElem_mem F m xs⟩

/-- ASSIGN / DEFINE / UPDATE as a state machine.  (1) After an ASSIGN (DEFINE) record the
quantity's kind is assignment (definition with status ON), whatever came before.  (2) In
`eval_define`, walking the quantities in input order: a quantity whose last record is a DEFINE
that is not switched OFF gets the value of its expression in the state reached at its turn; a
quantity whose last record is an ASSIGN, or whose definition is OFF, keeps its value; no other
quantity's value is touched.  (3) NEXT becomes OFF after one evaluation. -/
theorem assign_define_order {α : Type} (plus : Option α → Option α → Option α) (fin : α → Option α) :
    (∀ (c : Hist.Cfg α) n v, ∃ c' q, Hist.applyEvent c (.assign n v) = some c' ∧ Hist.find? c'.qs n = some q ∧
        q.action = .assign ∧ q.assignVal = some v ∧ n ∈ c'.pending) ∧
    (∀ (c : Hist.Cfg α) n e, ∃ c' q, Hist.applyEvent c (.define n e) = some c' ∧ Hist.find? c'.qs n = some q ∧
        q.action = .define ∧ q.defn = some (e, .on)) ∧
    (∀ (q : Hist.Q α) qs vs e st, q.action = .define → q.defn = some (e, st) → st ≠ .off →
        (∀ q' ∈ qs, q'.name ≠ q.name) →
        Hist.getVal (Hist.evalDefine plus fin (q :: qs) vs).2 q.name = Hist.evalExpr plus fin vs e) ∧
    (∀ (q : Hist.Q α) qs vs, (q.action = .assign ∨ (∃ e, q.defn = some (e, .off)) ∨ q.defn = none) →
        (∀ q' ∈ qs, q'.name ≠ q.name) →
        Hist.getVal (Hist.evalDefine plus fin (q :: qs) vs).2 q.name = Hist.getVal vs q.name) ∧
    (∀ (m : String) (qs : List (Hist.Q α)) vs, (∀ q ∈ qs, q.name ≠ m) →
        Hist.getVal (Hist.evalDefine plus fin qs vs).2 m = Hist.getVal vs m) ∧
    (∀ (q : Hist.Q α) qs vs e, q.action = .define → q.defn = some (e, .next) →
        ((Hist.evalDefine plus fin (q :: qs) vs).1.head?.map (·.defn)) = some (some (e, .off))) :=
  ⟨Hist.applyEvent_assign, Hist.applyEvent_define,
   fun q qs vs e st => Hist.evalDefine_head_define plus fin q qs vs e st,
   fun q qs vs => Hist.evalDefine_head_keep plus fin q qs vs,
   fun m qs vs => Hist.evalDefine_other plus fin m qs vs,
   fun q qs vs e => Hist.evalDefine_next_off plus fin q qs vs e⟩

/-- `^` has the same set semantics as the arithmetic operators (cast + element-wise + undefined
propagation), so `eval_elementwise`, `eval_broadcast` and `undefined_propagates` apply to it. -/
theorem pow_is_elementwise {α : Type} (F : Fns α) (l r : USet α) : powSet F l r = arith F F.pow l r :=
  powSet_eq_arith F l r

/-! ### Non-vacuity -/

def num (x : Nat) : Ast := .leaf ⟨.number, .num x.toUInt64, [], false⟩
def op (t : TT) (s : String) : Head := ⟨t, .str s, [], false⟩

/-- `-(2 + 3) * SUM(WOPR 'P*') ^ 2 ^ 3 <= 4 UADD 5 - 6 - 7` as a tree -/
def sample : Ast :=
  .bin (op .binary_op_uadd "UADD")
    (.bin (op .binary_cmp_le "<=")
      (.bin (op .binary_op_mul "*")
        (.bin ⟨.binary_op_add, .str "+", [], true⟩ (num 2) (num 3))
        (.bin (op .binary_op_pow "^")
          (.un (op .scalar_func_sum "SUM") (.leaf ⟨.ecl_expr, .str "WOPR", ["P*"], false⟩))
          (.bin (op .binary_op_pow "^") (num 2) (num 3))))
      (num 4))
    (.bin (op .binary_op_sub "-") (.bin (op .binary_op_sub "-") (num 5) (num 6)) (num 7))

example : WF sample := by
  simp [sample, WF, num, op]
  decide

example : parse (render sample) = .ast sample := by decide +kernel

example : (render sample).length = 23 := by decide +kernel

/-- the repaired precedence (F2): `2 ^ 3 * 4` is `(2 ^ 3) * 4` -/
example : parse [⟨.number, .num 2, []⟩, ⟨.binary_op_pow, .str "^", []⟩, ⟨.number, .num 3, []⟩,
    ⟨.binary_op_mul, .str "*", []⟩, ⟨.number, .num 4, []⟩]
    = .ast (.bin (op .binary_op_mul "*") (.bin (op .binary_op_pow "^") (num 2) (num 3)) (num 4)) := by
  decide +kernel

/-- end of input inside `parse_factor` is a parse error -/
example : parse [lpTok] = .invalid := by decide +kernel

example : okRest 3 [⟨.binary_op_add, .str "+", []⟩] := by simp [okRest, allowed]; decide

end OpmVerif.Props.C17
