/-
  C17 — UDQ expressions evaluate according to the documented expression semantics.

  Only property statements, one-line proofs from `Proofs/UdqParse.lean` / `Proofs/UdqEval.lean`,
  and non-vacuity examples.  Quantifiers: every abstract syntax tree of the documented grammar
  (any depth, any operator combination), every value type `α` with any operation record `F`,
  every set length, every ASSIGN/DEFINE/UPDATE event list.
-/
import OpmVerif.Proofs.UdqParse
import OpmVerif.Proofs.UdqEval
import OpmVerif.Proofs.UdqFuel
import OpmVerif.Proofs.UdqState
import OpmVerif.Proofs.UdqType
import OpmVerif.Proofs.UdqLex
import OpmVerif.Proofs.UdqUnion
import OpmVerif.Proofs.UdqMatch
import OpmVerif.Proofs.UdqSort
import OpmVerif.Proofs.UdqSortOrder

namespace OpmVerif.Props.C17
open OpmVerif.Udq OpmVerif.Gen.UdqEnums

/-- The parser implements the documented precedence and associativity for **all** operator
combinations: print any tree `e` of the documented grammar with the documented ranks
(functions/parentheses/unary sign > `^` > `* /` > `+ -` > comparisons > union operators;
`* / + -` left-associative; `^`, comparisons and union operators right-associative as the code
has them; parentheses only where the ranks demand them) and the model of `parseUDQExpression`,
run with its OWN fuel `fuelFor ts = 8 * ts.length + 8`, returns exactly `e`.
(`NoErr`: no leaf of token type `error`, which `UDQASTNode::valid()` rejects.) -/
theorem parse_render (e : Ast) (hw : WF e) (hn : NoErr e) : parse (render e) = .ast e :=
  parse_render_valid e hw hn

/-- The same one level below the validity test: `parse_set` on the printed tokens returns `e`
and consumes every token, with the model's own fuel, for every well-formed tree. -/
theorem parse_render_tokens (e : Ast) (hw : WF e) : parseTokens (render e) = .ok e [] :=
  parseTokens_render e hw

/-- Fuel monotonicity: more fuel never changes an answer of `parse_set`. -/
theorem parser_fuel_monotone {n m : Nat} {ts : List Tok} {a : Ast} {rest : List Tok}
    (h : parseSet n ts = .ok a rest) (hnm : n ≤ m) : parseSet m ts = .ok a rest :=
  parseSet_mono h hnm

/-- Parser totality (the C20-relevant statement for the UDQ parser after the end-of-input
repair): on EVERY token list — well-formed or not, of any length — the parser terminates with its
own fuel in one of the three outcomes of `parseUDQExpression`: a valid tree, "extra unhandled
data", or "failed to parse" (a tree with an error node).  The out-of-fuel outcome is impossible,
and the tokens left over are never more than the input (`parse_set` only moves forward). -/
theorem parser_total (ts : List Tok) :
    ((∃ a, parse ts = .ast a ∧ a.valid = true) ∨ parse ts = .extra ∨ parse ts = .invalid) ∧
    parse ts ≠ .fuel ∧
    (∃ a rest, parseTokens ts = .ok a rest ∧ rest.length ≤ ts.length) :=
  ⟨parse_outcome ts, parse_ne_fuel ts, parseTokens_total ts⟩

/-- The same inside any context: the rank-`lvl` parser applied to the rank-`lvl` print-out of `e`
followed by arbitrary further tokens `rest` returns `e` and leaves exactly `rest`, provided `rest`
does not start with an operator that binds at rank `lvl` or tighter (`okRest`). -/
theorem parse_render_in_context (e : Ast) (hw : WF e) (lvl : Nat) (rest : List Tok) (hl : lvl ≤ 5)
    (ho : okRest lvl rest) :
    ∃ f0, ∀ f, f0 ≤ f → parseAt lvl f (renderAt lvl e ++ rest) = .ok e rest :=
  (main_inv e hw).1 lvl rest hl ho

/-- `* /` (and likewise `+ -`) chains are folded to the left by the `nodes` vector of `parse_mul`:
the loop state (first node, reversed operator list) is equivalent to one accumulated left operand. -/
theorem mul_loop_is_left_fold (f : Nat) (n0 : Ast) (acc : List (Head × Ast)) (rest : List Tok) :
    parseMulLoop f n0 acc rest = parseMulLoop f (build n0 acc) [] rest :=
  parseMulLoop_collapse f n0 acc rest

theorem add_loop_is_left_fold (f : Nat) (n0 : Ast) (acc : List (Head × Ast)) (rest : List Tok) :
    parseAddLoop f n0 acc rest = parseAddLoop f (build n0 acc) [] rest :=
  parseAddLoop_collapse f n0 acc rest

/-- Element-wise evaluation: two sets over the same well/group list combine position by position,
keeping names and kind; an element is defined iff both inputs are defined and the result is finite. -/
theorem eval_elementwise {α : Type} (F : Fns α) (f : α → α → α) (l r : USet α)
    (hvt : l.vt = r.vt) (hlen : l.vals.length = r.vals.length) :
    arith F f l r = .ok ⟨l.vt, List.zipWith (fun a b => (a.1, opt2 F f a.2 b.2)) l.vals r.vals⟩ :=
  arith_elementwise F f l r hvt hlen

/-- Undefined operands propagate. -/
theorem undefined_propagates {α : Type} (F : Fns α) (f : α → α → α) (a : Option α) :
    opt2 F f none a = none ∧ opt2 F f a none = none :=
  ⟨opt2_none_left F f a, opt2_none_right F f a⟩

/-- Scalar broadcasting: a defined scalar combined with a well/group set is the scalar copied to
every element of that set, then the element-wise operation (both operand orders). -/
theorem eval_broadcast {α : Type} (F : Fns α) (f : α → α → α) (n : String) (x : α)
    (rest : List (String × Option α)) (vt : VT) (hs : vt = .scalar ∨ vt = .field) (s : USet α)
    (hset : s.vt = .well ∨ s.vt = .group) :
    arith F f ⟨vt, (n, some x) :: rest⟩ s = arith F f (USet.fill F s.vt (s.vals.map (·.1)) x) s ∧
    arith F f s ⟨vt, (n, some x) :: rest⟩ = arith F f s (USet.fill F s.vt (s.vals.map (·.1)) x) :=
  ⟨arith_broadcast_left F f n x rest vt hs s hset, arith_broadcast_right F f n x rest vt hs s hset⟩

/-- Reductions are their list definitions over the defined elements (in element order);
on a set without defined elements they return the empty set. -/
theorem reductions_def {α : Type} (F : Fns α) (u : USet α) (x : α) (xs : List α)
    (h : definedValues u = x :: xs) :
    scalarFn F .scalar_func_sum u = .ok (USet.scalar F (some ((x :: xs).foldl F.add (F.ofNat 0)))) ∧
    scalarFn F .scalar_func_prod u = .ok (USet.scalar F (some ((x :: xs).foldl F.mul (F.ofNat 1)))) ∧
    scalarFn F .scalar_func_avea u
      = .ok (USet.scalar F (some (F.div ((x :: xs).foldl F.add (F.ofNat 0)) (F.ofNat (xs.length + 1))))) ∧
    scalarFn F .scalar_func_norm1 u
      = .ok (USet.scalar F (some ((x :: xs).foldl (fun s y => F.add s (F.abs y)) (F.ofNat 0)))) ∧
    scalarFn F .scalar_func_norm2 u
      = .ok (USet.scalar F (some (F.sqrt ((x :: xs).foldl (fun s y => F.add s (F.mul y y)) (F.ofNat 0))))) :=
  ⟨scalarFn_sum F u x xs h, scalarFn_prod F u x xs h, scalarFn_avea F u x xs h, scalarFn_norm1 F u x xs h,
   scalarFn_norm2 F u x xs h⟩

theorem reductions_empty {α : Type} (F : Fns α) (t : TT) (u : USet α) (h : definedValues u = []) :
    scalarFn F t u = .ok (USet.scalar F none) :=
  scalarFn_empty F t u h

/-- MAX / MIN return one of the defined elements. -/
theorem max_min_attained {α : Type} (F : Fns α) (m : α) (xs : List α) :
    (maxElem F m xs = m ∨ maxElem F m xs ∈ xs) ∧ (minElem F m xs = m ∨ minElem F m xs ∈ xs) :=
  ⟨maxElem_mem F m xs, minElem_mem F m xs⟩

/-- ASSIGN / DEFINE / UPDATE as a state machine.  (1) After an ASSIGN (DEFINE) record the
quantity's kind is assignment (definition with status ON), whatever came before.  (2) In
`eval_define`, walking the quantities in input order: a quantity whose last record is a DEFINE
that is not switched OFF gets the value of its expression in the state reached at its turn; a
quantity whose last record is an ASSIGN, or whose definition is OFF, keeps its value; no other
quantity's value is touched.  (3) NEXT becomes OFF after one evaluation. -/
theorem assign_define_order {α : Type} (plus : Option α → Option α → Option α) (fin : α → Option α) :
    (∀ (c : Hist.Cfg α) n v, ∃ c' q, Hist.applyEvent c (.assign n v) = some c' ∧ Hist.find? c'.qs n = some q ∧
        q.action = .assign ∧ q.assignVal = some v ∧ n ∈ c'.pending) ∧
    (∀ (c : Hist.Cfg α) n e, ∃ c' q, Hist.applyEvent c (.define n e) = some c' ∧ Hist.find? c'.qs n = some q ∧
        q.action = .define ∧ q.defn = some (e, .on)) ∧
    (∀ (q : Hist.Q α) qs vs e st, q.action = .define → q.defn = some (e, st) → st ≠ .off →
        (∀ q' ∈ qs, q'.name ≠ q.name) →
        Hist.getVal (Hist.evalDefine plus fin (q :: qs) vs).2 q.name = Hist.evalExpr plus fin vs e) ∧
    (∀ (q : Hist.Q α) qs vs, (q.action = .assign ∨ (∃ e, q.defn = some (e, .off)) ∨ q.defn = none) →
        (∀ q' ∈ qs, q'.name ≠ q.name) →
        Hist.getVal (Hist.evalDefine plus fin (q :: qs) vs).2 q.name = Hist.getVal vs q.name) ∧
    (∀ (m : String) (qs : List (Hist.Q α)) vs, (∀ q ∈ qs, q.name ≠ m) →
        Hist.getVal (Hist.evalDefine plus fin qs vs).2 m = Hist.getVal vs m) ∧
    (∀ (q : Hist.Q α) qs vs e, q.action = .define → q.defn = some (e, .next) →
        ((Hist.evalDefine plus fin (q :: qs) vs).1.head?.map (·.defn)) = some (some (e, .off))) :=
  ⟨Hist.applyEvent_assign, Hist.applyEvent_define,
   fun q qs vs e st => Hist.evalDefine_head_define plus fin q qs vs e st,
   fun q qs vs => Hist.evalDefine_head_keep plus fin q qs vs,
   fun m qs vs => Hist.evalDefine_other plus fin m qs vs,
   fun q qs vs e => Hist.evalDefine_next_off plus fin q qs vs e⟩

/-- `UDQState::add_define` / `add_assign` over ANY history of results (oldest first; any mix of
quantities, kinds, well lists): the element stored for well/group `w` of quantity `key` is what the
LAST result that mentions `(key, w)` says — its value if defined there, nothing if undefined there
— and is what it was before the history if no result mentions it.  In particular no value
survives the element becoming undefined later. -/
theorem state_history {α : Type} (evs : List (String × Hist.RSet α)) (s s' : Hist.State α)
    (h : s.run evs = some s') (k : Hist.Kind) (hk : k ≠ .scalar) (key w : String) :
    s'.elem k key w = (match Hist.lastTouch k key w evs with | some v => v | none => s.elem k key w) :=
  Hist.run_elem evs s s' h k hk key w

/-- …and for field-level (scalar) quantities. -/
theorem state_history_scalar {α : Type} (evs : List (String × Hist.RSet α)) (s s' : Hist.State α)
    (h : s.run evs = some s') (key : String) :
    s'.scalar key = (match Hist.lastTouchS key evs with | some v => v | none => s.scalar key) :=
  Hist.run_scalar evs s s' h key

/-- After any history the state holds EXACTLY the defined elements of the last evaluation `r` of
`key` (other quantities may have been evaluated since): with each well/group named once in `r`
and nothing outside these names stored for `key` before, `(w, x)` is stored iff `r` contains the
defined element `(w, some x)`. -/
theorem state_is_last_evaluation {α : Type} (pre post : List (String × Hist.RSet α)) (key : String)
    (r : Hist.RSet α) (s0 s : Hist.State α) (hk : r.kind ≠ .scalar)
    (hrun : s0.run (pre ++ (key, r) :: post) = some s)
    (hpost : ∀ e ∈ post, ¬ (e.1 = key ∧ e.2.kind = r.kind))
    (hnd : (r.vals.map (·.1)).Nodup)
    (hold : ∀ w, w ∉ r.vals.map (·.1) → Hist.lastTouch r.kind key w pre = none ∧ s0.elem r.kind key w = none)
    (w : String) (x : α) :
    s.elem r.kind key w = some x ↔ (w, some x) ∈ r.vals :=
  Hist.state_is_last_evaluation pre post key r s0 s hk hrun hpost hnd hold w x

/-- `var_type` / static type check (`Model/UdqType.lean`: the typed parser computes the
`UDQASTNode::var_type` of every node as `set_left` / `set_right` / `UDQ::coerce` do).
(1) Whenever `parseUDQExpression` accepts a DEFINE for a target type, the tree is the one the
untyped parser builds: the type computation never changes the tree.  (2) It terminates with the
model's own fuel on every token list. -/
theorem typed_parser_same_tree (target : VarT) (ts : List Tok) (a : Ast) (vt : VarT)
    (h : parseTyped target ts = .ast a vt) : parse ts = .ast a :=
  parseTyped_tree target ts a vt h

theorem typed_parser_total (target : VarT) (ts : List Tok) : parseTyped target ts ≠ .fuel :=
  parseTyped_ne_fuel target ts

/-- The top type of a `* /` or `+ -` chain is the type of ANY restricted (well / group / segment /
…) operand in it, wherever it stands (the chain is folded from the left). -/
theorem chain_type (t0 : VarT) (acc : TAcc) (v : VarT) (h : buildT t0 acc = some v)
    (t : VarT) (ht : t = t0 ∨ t ∈ acc.map (·.2.2)) (hn : isNoMix t = true) : v = t :=
  buildT_restricted_wins t0 acc v h t ht hn

/-- DEFINE record tokenisation (`Model/UdqLex.lean`: `quote_split`, `next_token`,
`normalize_string_tokens`, `make_udq_tokens` of UDQDefine.cpp).  `next_token` always returns a
non-empty prefix of the rest of the item, so the `while (offset < item.size())` loop terminates on
every string … -/
theorem next_token_progress (c : Char) (r : Lex.Str) :
    Lex.nextToken (c :: r) ≠ [] ∧ ∃ rest, c :: r = Lex.nextToken (c :: r) ++ rest :=
  Lex.nextToken_prefix c r

/-- … and the raw tokens of an item concatenate to the item: no character is lost, duplicated or
reordered by the splitting (numbers, names, operators, blanks), for every string. -/
theorem define_tokens_concat (s : Lex.Str) : (Lex.rawTokens s.length s).flatten = s :=
  Lex.item_tokens_concat s

/-- `^` has the same set semantics as the arithmetic operators (cast + element-wise + undefined
propagation), so `eval_elementwise`, `eval_broadcast` and `undefined_propagates` apply to it. -/
theorem pow_is_elementwise {α : Type} (F : Fns α) (l r : USet α) : powSet F l r = arith F F.pow l r :=
  powSet_eq_arith F l r

/-! ### Set union operators UADD / UMUL / UMIN / UMAX -/

section Union
variable {K : Type} [Field K] [LinearOrder K] [IsStrictOrderedRing K]

/-- **Union semantics.**  Over every linearly ordered field, for all sets `l`, `r` of equal size
(any kind, any names, any values, any definedness) and each of the four operators, the model of
`l op r` is the set with the kind and the names of `l` whose element `i` is `unionElem`: `x + y`,
`x * y`, `min x y`, `max x y` when both elements are defined, the defined element's value when
exactly one is, undefined when neither is. -/
theorem union_semantics {F : Fns K} (h : Exact F) (o : UOp) (l r : USet K)
    (hlen : l.vals.length = r.vals.length) :
    binFn F o.name l r
      = .ok ⟨l.vt, List.zipWith (fun a b => (a.1, unionElem o.fn a.2 b.2)) l.vals r.vals⟩ :=
  binFn_union_exact h o l r hlen

/-- The same per element. -/
theorem union_element {F : Fns K} (h : Exact F) (o : UOp) (l r : USet K)
    (hlen : l.vals.length = r.vals.length) (i : Nat) (a b : String × Option K)
    (ha : l.vals[i]? = some a) (hb : r.vals[i]? = some b) :
    ∃ u, binFn F o.name l r = .ok u ∧ u.vt = l.vt ∧ u.vals.length = l.vals.length ∧
      u.vals[i]? = some (a.1, unionElem o.fn a.2 b.2) :=
  union_elem_exact h o l r hlen i a b ha hb

/-- Sets of different size: the evaluation throws. -/
theorem union_size_mismatch {α : Type} (F : Fns α) (o : UOp) (l r : USet α)
    (hlen : l.vals.length ≠ r.vals.length) : binFn F o.name l r = .error () := by
  rw [binFn_union]; exact unionSet_size_mismatch F _ l r hlen

/-- **One-sided elements**, for EVERY number type and operation record (in particular IEEE
doubles with rounding): whatever the operator, an element defined in exactly one operand takes
that operand's value `x` (as `UDQScalar::assign` stores it: `fin F x`, i.e. `x` itself when it is
finite — negative, zero, tiny or huge alike), and an element undefined in both stays undefined. -/
theorem union_one_sided {α : Type} (F : Fns α) (o : UOp) (l r u : USet α)
    (hu : binFn F o.name l r = .ok u) (i : Nat) (a b : String × Option α)
    (ha : l.vals[i]? = some a) (hb : r.vals[i]? = some b) :
    (∀ x, a.2 = some x → b.2 = none → u.vals[i]? = some (a.1, fin F x)) ∧
    (∀ y, a.2 = none → b.2 = some y → u.vals[i]? = some (a.1, fin F y)) ∧
    (a.2 = none → b.2 = none → u.vals[i]? = some (a.1, none)) :=
  union_one_sided_any F o l r u hu i a b ha hb

/-- **Commutativity**: `l op r` and `r op l` carry the same values (the names are those of the
respective left operand). -/
theorem union_commutative {F : Fns K} (h : Exact F) (o : UOp) (l r : USet K)
    (hlen : l.vals.length = r.vals.length) :
    ∃ u u', binFn F o.name l r = .ok u ∧ binFn F o.name r l = .ok u' ∧
      u.vals.map (·.2) = u'.vals.map (·.2) :=
  union_comm_exact h o l r hlen

/-- **UMAX bounds**: element `i` of `l UMAX r` is defined as soon as one operand is, is not below
any defined operand, and is one of the operands' values. -/
theorem umax_upper_bound {F : Fns K} (h : Exact F) (l r : USet K)
    (hlen : l.vals.length = r.vals.length) (i : Nat) (a b : String × Option K)
    (ha : l.vals[i]? = some a) (hb : r.vals[i]? = some b) :
    ∃ u v, binFn F "UMAX" l r = .ok u ∧ u.vals[i]? = some (a.1, v) ∧
      (∀ x, a.2 = some x → ∃ z, v = some z ∧ x ≤ z) ∧
      (∀ y, b.2 = some y → ∃ z, v = some z ∧ y ≤ z) ∧
      (∀ z, v = some z → a.2 = some z ∨ b.2 = some z) := by
  obtain ⟨u, hu, _, _, hi⟩ := union_elem_exact h .umax l r hlen i a b ha hb
  exact ⟨u, _, hu, hi, (unionElem_max_ge a.2 b.2).1, (unionElem_max_ge a.2 b.2).2,
    unionElem_max_mem a.2 b.2⟩

/-- **UMIN bounds**, dually. -/
theorem umin_lower_bound {F : Fns K} (h : Exact F) (l r : USet K)
    (hlen : l.vals.length = r.vals.length) (i : Nat) (a b : String × Option K)
    (ha : l.vals[i]? = some a) (hb : r.vals[i]? = some b) :
    ∃ u v, binFn F "UMIN" l r = .ok u ∧ u.vals[i]? = some (a.1, v) ∧
      (∀ x, a.2 = some x → ∃ z, v = some z ∧ z ≤ x) ∧
      (∀ y, b.2 = some y → ∃ z, v = some z ∧ z ≤ y) ∧
      (∀ z, v = some z → a.2 = some z ∨ b.2 = some z) := by
  obtain ⟨u, hu, _, _, hi⟩ := union_elem_exact h .umin l r hlen i a b ha hb
  exact ⟨u, _, hu, hi, (unionElem_min_le a.2 b.2).1, (unionElem_min_le a.2 b.2).2,
    unionElem_min_mem a.2 b.2⟩

/-- **An operand without any defined element is the identity** of each union operator:
`l op r = l` when all of `r` is undefined, and `l op r` has the values of `r` when all of `l` is. -/
theorem union_undefined_operand_identity {F : Fns K} (h : Exact F) (o : UOp) (l r : USet K)
    (hlen : l.vals.length = r.vals.length) :
    ((∀ p ∈ r.vals, p.2 = none) → binFn F o.name l r = .ok l) ∧
    ((∀ p ∈ l.vals, p.2 = none) → ∃ u, binFn F o.name l r = .ok u ∧ u.vals.map (·.2) = r.vals.map (·.2)) :=
  ⟨union_undefined_right_exact h o l r hlen, union_undefined_left_exact h o l r hlen⟩

/-- Why the one-sided case cannot be implemented by substituting a constant for the undefined
operand of UMAX / UMIN: in an ordered field no `e` is neutral for `max` (nor for `min`);
`max x e = x` holds exactly for `x ≥ e`. -/
theorem umax_umin_no_neutral_element (e : K) :
    (∃ x : K, max x e ≠ x) ∧ (∃ x : K, min x e ≠ x) ∧ (∀ x : K, max x e = x ↔ e ≤ x) :=
  ⟨max_no_neutral e, min_no_neutral e, max_neutral_iff e⟩

end Union

/-! ### Non-vacuity -/

def num (x : Nat) : Ast := .leaf ⟨.number, .num x.toUInt64, [], false⟩
def op (t : TT) (s : String) : Head := ⟨t, .str s, [], false⟩

/-- `-(2 + 3) * SUM(WOPR 'P*') ^ 2 ^ 3 <= 4 UADD 5 - 6 - 7` as a tree -/
def sample : Ast :=
  .bin (op .binary_op_uadd "UADD")
    (.bin (op .binary_cmp_le "<=")
      (.bin (op .binary_op_mul "*")
        (.bin ⟨.binary_op_add, .str "+", [], true⟩ (num 2) (num 3))
        (.bin (op .binary_op_pow "^")
          (.un (op .scalar_func_sum "SUM") (.leaf ⟨.ecl_expr, .str "WOPR", ["P*"], false⟩))
          (.bin (op .binary_op_pow "^") (num 2) (num 3))))
      (num 4))
    (.bin (op .binary_op_sub "-") (.bin (op .binary_op_sub "-") (num 5) (num 6)) (num 7))

example : WF sample := by
  simp [sample, WF, num, op]
  decide

example : parse (render sample) = .ast sample := by decide +kernel

example : (render sample).length = 23 := by decide +kernel

example : NoErr sample := by simp [sample, NoErr, num, op]

/-- a malformed token list of the kind that used to run off the end: still one of the outcomes -/
example : parse [lpTok, minusTok] = .invalid := by decide +kernel

/-- definedness history: P1 defined, then undefined, P2 the other way round; the state holds the last -/
example :
    let r1 : Hist.RSet Nat := ⟨.well, [("P1", some 5), ("P2", none)]⟩
    let r2 : Hist.RSet Nat := ⟨.well, [("P1", none), ("P2", some 7)]⟩
    (match Hist.State.empty.run [("WUA", r1), ("FUX", ⟨.scalar, [("", some 1)]⟩), ("WUA", r2)] with
     | some s => (s.elem .well "WUA" "P1", s.elem .well "WUA" "P2", s.scalar "FUX")
     | none => (none, none, none)) = (none, some 7, some 1) := by
  decide +kernel

/-- the repaired precedence (F2): `2 ^ 3 * 4` is `(2 ^ 3) * 4` -/
example : parse [⟨.number, .num 2, []⟩, ⟨.binary_op_pow, .str "^", []⟩, ⟨.number, .num 3, []⟩,
    ⟨.binary_op_mul, .str "*", []⟩, ⟨.number, .num 4, []⟩]
    = .ast (.bin (op .binary_op_mul "*") (.bin (op .binary_op_pow "^") (num 2) (num 3)) (num 4)) := by
  decide +kernel

/-- end of input inside `parse_factor` is a parse error -/
example : parse [lpTok] = .invalid := by decide +kernel

/-! static type check: independent of the operand order -/
def wopr : Tok := ⟨.ecl_expr, .str "WOPR", []⟩
def one : Tok := ⟨.number, .num 0x3ff0000000000000, []⟩
def plusTok : Tok := ⟨.binary_op_add, .str "+", []⟩

/-- `DEFINE FUX WOPR + 1` is rejected … -/
example : parseTyped .field_var [wopr, plusTok, one] = .typeError := by decide +kernel
/-- … and so are `DEFINE FUX WOPR + 1 + 1` … -/
example : parseTyped .field_var [wopr, plusTok, one, plusTok, one] = .typeError := by decide +kernel
/-- … and the same tree written `(WOPR + 1) + 1`. -/
example : parseTyped .field_var [lpTok, wopr, plusTok, one, rpTok, plusTok, one] = .typeError := by decide +kernel
example : buildT .well_var [(op .binary_op_add "+", num 1, .scalar), (op .binary_op_add "+", num 1, .scalar)] = some .well_var := by
  decide +kernel

/-- `WOPR'P*'*1.5E-3-(2)` -/
example : (match Lex.tokenize ["WOPR'P*'*1.5E-3-(2)".toList] with
    | .ok ts => ts.map (fun t => String.ofList t.text) | _ => []) = ["WOPR", "*", "1.5E-3", "-", "(", "2", ")"] := by
  decide +kernel
/-- a table look-up without `]` is an input error -/
example : (match Lex.tokenize ["TU_FBHP[FOPR".toList] with | .missingBracket => true | _ => false) = true := by decide +kernel

example : okRest 3 [⟨.binary_op_add, .str "+", []⟩] := by simp [okRest, allowed]; decide

/-! union operators: an exact operation record exists (`ratFns` over `ℚ`), and a concrete pair of
well sets with all four definedness patterns, one-sided NEGATIVE and ZERO values included -/
example : Exact ratFns := ratFns_exact

def uL : USet ℚ := ⟨.well, [("P1", some (-5)), ("P2", none), ("P3", some 2), ("P4", none), ("P5", some 0)]⟩
def uR : USet ℚ := ⟨.well, [("P1", none), ("P2", some 0), ("P3", some (-3)), ("P4", none), ("P5", none)]⟩

example : uL.vals.length = uR.vals.length := rfl
example : binFn ratFns "UMAX" uL uR
    = .ok ⟨.well, [("P1", some (-5)), ("P2", some 0), ("P3", some 2), ("P4", none), ("P5", some 0)]⟩ := by
  rw [show "UMAX" = UOp.umax.name from rfl, union_semantics ratFns_exact .umax uL uR rfl]
  simp [uL, uR, unionElem, UOp.fn]; norm_num
example : binFn ratFns "UMIN" uL uR
    = .ok ⟨.well, [("P1", some (-5)), ("P2", some 0), ("P3", some (-3)), ("P4", none), ("P5", some 0)]⟩ := by
  rw [show "UMIN" = UOp.umin.name from rfl, union_semantics ratFns_exact .umin uL uR rfl]
  simp [uL, uR, unionElem, UOp.fn]; norm_num
example : binFn ratFns "UADD" uL uR
    = .ok ⟨.well, [("P1", some (-5)), ("P2", some 0), ("P3", some (-1)), ("P4", none), ("P5", some 0)]⟩ := by
  rw [show "UADD" = UOp.uadd.name from rfl, union_semantics ratFns_exact .uadd uL uR rfl]
  simp [uL, uR, unionElem, UOp.fn]; norm_num
example : binFn ratFns "UMUL" uL uR
    = .ok ⟨.well, [("P1", some (-5)), ("P2", some 0), ("P3", some (-6)), ("P4", none), ("P5", some 0)]⟩ := by
  rw [show "UMUL" = UOp.umul.name from rfl, union_semantics ratFns_exact .umul uL uR rfl]
  simp [uL, uR, unionElem, UOp.fn]; norm_num
/-- hypotheses of `union_one_sided` / `umax_upper_bound`: element 0 is defined (negative) on the left only -/
example : uL.vals[0]? = some ("P1", some (-5 : ℚ)) ∧ uR.vals[0]? = some ("P1", none) := ⟨rfl, rfl⟩
/-- all of `r` undefined -/
example : ∀ p ∈ (⟨.well, [("P1", none), ("P2", none)]⟩ : USet ℚ).vals, p.2 = none := by simp
/-- the seeded defect in numbers: with the positive constant `e = 1/2` standing in for an
undefined operand, `max (-5) e = e ≠ -5` -/
example : max (-5 : ℚ) (1/2) ≠ -5 := by norm_num

/-! ### fourth round: name matching and sort ranks inside the model -/

/-- `Opm::shmatch` (fnmatch, flags 0) on the `*` / `?` / literal subset: a pattern without `*` and
`?` matches exactly itself — every pattern, every name.  (This is also what makes
`UDQSet::assign(wgname, …)`, which uses the WELL NAME as a pattern, hit exactly that well.) -/
theorem match_literal (p : List Char) (h : literal p) (s : List Char) : glob p s = decide (p = s) :=
  glob_literal p h s

/-- `*` matches every name -/
theorem match_star (s : List Char) : glob ['*'] s = true := glob_star s

/-- `<literal>*` matches exactly the names that begin with the literal (`'P*'`) -/
theorem match_prefix_star (p : List Char) (h : literal p) (s : List Char) :
    glob (p ++ ['*']) s = p.isPrefixOf s := glob_literal_star p h s

/-- `?` consumes exactly one character, `*` nothing or one more: the recursion equations of fnmatch -/
theorem match_question (p : List Char) (d : Char) (s : List Char) : glob ('?' :: p) (d :: s) = glob p s :=
  glob_question p d s
theorem match_star_step (p : List Char) (d : Char) (s : List Char) :
    glob ('*' :: p) (d :: s) = (glob p (d :: s) || glob ('*' :: p) s) := glob_star_cons p d s

/-- `WellMatcher::wells(pattern)` for a wildcard pattern that is neither a well list (`*…`) nor
escaped: exactly the wells of the schedule the pattern matches, in schedule order; entering the
wells in another order permutes the answer and nothing else. -/
theorem matcher_wildcard (m : Matcher) (c : Char) (rest : List Char) (pattern : String)
    (hp : pattern.toList = c :: rest) (hc : c ≠ '*' ∧ c ≠ '\\') (hs : (c :: rest).contains '*' = true) :
    m.matching pattern = .ok (plainMatch m.wells (c :: rest)) ∧
    (∀ w, w ∈ plainMatch m.wells (c :: rest) ↔ w ∈ m.wells ∧ glob (c :: rest) w.toList = true) ∧
    (plainMatch m.wells (c :: rest)).Sublist m.wells ∧
    (∀ wells', m.wells.Perm wells' → (plainMatch m.wells (c :: rest)).Perm (plainMatch wells' (c :: rest))) :=
  ⟨matching_wildcard m c rest pattern hp hc hs, mem_plainMatch _ _, plainMatch_sublist _ _,
   fun _ h => plainMatch_perm _ _ h _⟩

/-- The set `WOPR 'pattern'` as `eval_well_expression` builds it (`UDQSet::wells(all)` + one
`assign(wname, value)` — by PATTERN — per matching well): with literal well names it has exactly one
entry per well of the schedule, in schedule order, carrying the well's finite value where the
pattern matches and undefined elsewhere.  Every pattern, every well list, every value source. -/
theorem well_set_of_pattern {α : Type} (F : Fns α) (wells : List String) (patt : List Char) (get : String → Option α)
    (hlit : ∀ w ∈ wells, literal w.toList) :
    wellSetBy F .well wells (plainMatch wells patt) get =
      .ok ⟨.well, wells.map fun w => (w, if glob patt w.toList then (get w).bind (fin F) else none)⟩ :=
  wellSet_of_pattern F wells patt get hlit

/-- the same for any selection out of the schedule's wells (a well list, `*` = all wells) -/
theorem well_set_of_selection {α : Type} (F : Fns α) (vt : VT) (all sel : List String) (get : String → Option α)
    (hlit : ∀ w ∈ all, literal w.toList) (hsub : ∀ s ∈ sel, s ∈ all) :
    wellSetBy F vt all sel get = .ok (wellSetOf F vt all sel get) :=
  wellSetBy_spec F vt all sel get hlit hsub

/-- the elements of `WOPR 'pattern'` do not depend on the order of the well list -/
theorem well_set_order_independent {α : Type} (F : Fns α) (wells wells' : List String) (patt : List Char)
    (get : String → Option α) (hlit : ∀ w ∈ wells, literal w.toList) (hperm : wells.Perm wells') :
    ∃ u u', wellSetBy F .well wells (plainMatch wells patt) get = .ok u ∧
      wellSetBy F .well wells' (plainMatch wells' patt) get = .ok u' ∧ u.vals.Perm u'.vals :=
  wellSet_of_pattern_order_independent F wells wells' patt get hlit hperm

/-- SORTA / SORTD (`sortOrder`): for EVERY comparison and every set the ranks handed to the defined
entries are a permutation of `1..n` (`n` = number of defined entries) … -/
theorem sort_ranks_permutation {α : Type} (before : α → α → Bool) (vs : List (Option α)) :
    ((sortRanks before vs).filterMap id).Perm (List.range' 1 (vs.filterMap id).length) :=
  sortRanks_perm before vs

/-- … an entry has a rank exactly when it is defined, and the result set keeps type and names. -/
theorem sort_ranks_defined {α : Type} (before : α → α → Bool) (vs : List (Option α)) :
    (sortRanks before vs).map Option.isSome = vs.map Option.isSome ∧ (sortRanks before vs).length = vs.length :=
  ⟨sortRanks_defined before vs, sortRanks_length before vs⟩
/-- … and with a transitive, asymmetric comparison (`std::less` / `std::greater` on the defined values) an
entry whose value is strictly before another's gets the smaller rank: SORTA ranks ascend with the values,
SORTD ranks descend, ties in any case get distinct neighbouring ranks (`sort_ranks_permutation`). -/
theorem sort_ranks_ordered {α : Type} (before : α → α → Bool)
    (htrans : ∀ a b c, before a b = true → before b c = true → before a c = true)
    (hasym : ∀ a b, before a b = true → before b a = false)
    (vs : List (Option α)) (i j : Nat) (x y : α) (a b : Nat)
    (hi : vs[i]? = some (some x)) (hj : vs[j]? = some (some y))
    (ha : (sortRanks before vs)[i]? = some (some a)) (hb : (sortRanks before vs)[j]? = some (some b))
    (hxy : before x y = true) : a < b :=
  sortRanks_ordered before htrans hasym vs i j x y a b hi hj ha hb hxy
/-- the hypotheses are met by `<` (here on ℕ), and the conclusion is not vacuous -/
example : (∀ a b c : Nat, decide (a < b) = true → decide (b < c) = true → decide (a < c) = true) ∧
    (∀ a b : Nat, decide (a < b) = true → decide (b < a) = false) ∧
    sortRanks (fun a b : Nat => decide (a < b)) [some 5, none, some 2, some 5, some 1] = [some 3, none, some 2, some 4, some 1] := by
  refine ⟨?_, ?_, by decide⟩
  · intro a b c h1 h2; simp at *; omega
  · intro a b h; simp at *; omega
theorem sort_set_shape {α : Type} (F : Fns α) (before : α → α → Bool) (u : USet α) :
    (sortSet F before u).vt = u.vt ∧ (sortSet F before u).vals.map (·.1) = u.vals.map (·.1) :=
  sortSet_names F before u

/-! non-vacuity -/
example : literal "P1".toList := by decide
example : glob "P*1".toList "PB31".toList = true ∧ glob "P*1".toList "PB3".toList = false
    ∧ glob "P?*".toList "P".toList = false ∧ glob "?*".toList "I".toList = true := by decide
example : (⟨["P2", "I1", "P1"], none⟩ : Matcher).matching "P*" = .ok ["P2", "P1"] := by decide
example : (⟨["P2", "I1", "P1"], some [("*L1", ["P1", "P2"]), ("*L2", ["I1"])]⟩ : Matcher).matching "*L1" = .ok ["P2", "P1"]
    ∧ (⟨["P2", "I1", "P1"], some [("*L1", ["P1", "P2"]), ("*L2", ["I1"])]⟩ : Matcher).matching "*L*" = .ok ["P2", "I1", "P1"]
    ∧ (⟨["P2", "I1", "P1"], some [("*L1", ["P1", "NOWELL"])]⟩ : Matcher).matching "*L1" = .error () := by decide
example : "P*".toList = 'P' :: ['*'] ∧ ('P' ≠ '*' ∧ 'P' ≠ '\\') ∧ ('P' :: ['*']).contains '*' = true := by decide
example : ∀ w ∈ ["P2", "I1", "P1"], literal w.toList := by decide
example : ["P2", "I1", "P1"].Perm ["P1", "P2", "I1"] := by decide
/-- a set with ties and undefined entries: ranks 1..4 over the four defined ones, stable on the tie -/
example : sortRanks (fun (a b : Nat) => decide (a < b)) [some 5, none, some 2, some 5, some 1]
    = [some 3, none, some 2, some 4, some 1] := by decide
example : sortRanks (fun (a b : Nat) => decide (b < a)) [some 5, none, some 2, some 5, some 1]
    = [some 1, none, some 3, some 2, some 4] := by decide
example : isSortRank (fun (a b : Nat) => decide (a < b)) [some 5, none, some 2, some 5, some 1]
      [some 4, none, some 2, some 3, some 1] = true   -- the other admissible tie order
    ∧ isSortRank (fun (a b : Nat) => decide (a < b)) [some 5, none, some 2, some 5, some 1]
      [some 4, none, some 1, some 3, some 2] = false := by decide

end OpmVerif.Props.C17
