/-
  C15 — Saturation functions honour tables, end-point scaling and hysteresis rules.

  Over an arbitrary linearly ordered field `K`; tables of any length ≥ 2, any scaling points,
  any saturation history.  Table lookup = `PiecewiseLinearTwoPhaseMaterial` (own search code,
  constant extension), whose segment formula is the one of C14's `Tabulated1DFunction`, so the
  per-segment lemmas of C14 are instantiated.

  Second round (deck level, `Model/SatDeck.lean`): the table scanners of
  SatfuncPropertyInitializers (critical saturations), the override of the table end-points by
  the per-cell arrays, `EclEpsScalingPoints::init`, family I / family II effective tables incl.
  the conditional reversal of `PiecewiseLinearTwoPhaseMaterialParams::finalize`, the three-phase
  combination of `EclDefaultMaterial`, descending tables, three-point inverse and monotonicity,
  scanning-curve monotonicity, Killough's non-wetting model (`_partial`).  WAG, capillary
  pressure hysteresis, Killough for the wetting phase, Stone 1/2 and the LET / gas-water
  families are not covered by theorems (see design.d/C15.md).

  Third round (`Model/HystFull.lean`): the complete hysteresis object without WAG — relperm models
  −1…4 (Killough for the wetting phase included), Killough's capillary-pressure hysteresis with the
  initial-imbibition branch, the three two-phase system types, `update(pcSw, krwSw, krnSw)` with
  independent saturations: bookkeeping (running minima / maximum, idempotent update, repeated
  history), derived members consistent after every history, trapped saturation and scanning-curve
  end points and ranges, Carlson identity for the complete object.
-/
import Mathlib.Tactic.NormNum
import Mathlib.Algebra.Order.Field.Rat
import OpmVerif.Proofs.Satfunc
import OpmVerif.Proofs.Satfunc3
import OpmVerif.Proofs.SatDeck
import OpmVerif.Proofs.HystFull
import OpmVerif.Proofs.Killough5
import OpmVerif.Proofs.SatDeckKr

namespace OpmVerif.Props.C15
open OpmVerif.Tab1D OpmVerif.Eps OpmVerif.Hyst OpmVerif.SatDeck

variable {K : Type} [Field K] [LinearOrder K] [IsStrictOrderedRing K]

/-! ## Tables -/

/-- Every tabulated value is returned at its node. -/
theorem table_node {xs ys : List K} (hs : StrictInc xs) (hn : 2 ≤ xs.length) (hl : ys.length = xs.length)
    (k : Nat) (hk : k < xs.length) : plAsc xs ys (nth xs k) = nth ys k :=
  plAsc_node hs hn hl k hk

/-- Inside the table the lookup evaluates a segment containing the argument and the value lies
between the two neighbouring tabulated values. -/
theorem table_between {xs : List K} (ys : List K) (hs : StrictInc xs) (hn : 2 ≤ xs.length) (x : K)
    (h0 : nth xs 0 < x) (h1 : x < nth xs (xs.length - 1)) :
    ∃ i, i + 1 < xs.length ∧ nth xs i < x ∧ x ≤ nth xs (i + 1) ∧
      min (nth ys i) (nth ys (i + 1)) ≤ plAsc xs ys x ∧ plAsc xs ys x ≤ max (nth ys i) (nth ys (i + 1)) :=
  plAsc_between ys hs hn x h0 h1

/-- Outside the table the first resp. last tabulated value is returned. -/
theorem table_constant_outside (xs ys : List K) (x : K) :
    (x ≤ nth xs 0 → plAsc xs ys x = nth ys 0) ∧
    (nth xs 0 < x → nth xs (xs.length - 1) ≤ x → plAsc xs ys x = nth ys (ys.length - 1)) :=
  plAsc_outside xs ys x

/-- For a monotone column the value stays in `[ys[0], ys.last]` for every argument: relative
permeabilities stay in `[0, max]`. -/
theorem table_range {xs ys : List K} (hs : StrictInc xs) (hn : 2 ≤ xs.length) (hl : ys.length = xs.length)
    (hm : MonoInc ys) (x : K) : nth ys 0 ≤ plAsc xs ys x ∧ plAsc xs ys x ≤ nth ys (ys.length - 1) :=
  plAsc_range hs hn hl hm x

/-- The bisection of `findSegmentIndex_` (loop invariant, any table length). -/
theorem table_search_invariant (xs : List K) (x : K) (fuel lo hi : Nat) (h : lo < hi) (hf : hi - lo ≤ fuel)
    (h1 : nth xs lo < x) (h2 : x ≤ nth xs hi) :
    lo ≤ bisectAsc xs x fuel lo hi ∧ bisectAsc xs x fuel lo hi + 1 ≤ hi ∧
    nth xs (bisectAsc xs x fuel lo hi) < x ∧ x ≤ nth xs (bisectAsc xs x fuel lo hi + 1) :=
  bisectAsc_spec xs x fuel lo hi h hf h1 h2

/-! ## End-point scaling -/

/-- Two-point scaling maps the scaled end-points onto the table's end-points. -/
theorem twopoint_endpoints (u sc : Pts K) (h : sc.p0 ≠ sc.p2) :
    s2uTwo sc.p0 u sc = u.p0 ∧ s2uTwo sc.p2 u sc = u.p2 :=
  Eps.twopoint_endpoints u sc h

/-- … and is monotone. -/
theorem twopoint_monotone (u sc : Pts K) (hs : sc.p0 < sc.p2) (hu : u.p0 ≤ u.p2) {s s' : K} (h : s ≤ s') :
    s2uTwo s u sc ≤ s2uTwo s' u sc :=
  Eps.twopoint_monotone u sc hs hu h

/-- Three-point scaling maps all three scaled points onto the table's points and is clamped
outside `[sL, sU]`. -/
theorem threepoint_endpoints (u sc : Pts K) (h01 : sc.p0 < sc.p1) (h12 : sc.p1 < sc.p2)
    (u01 : u.p0 ≤ u.p1) (u12 : u.p1 ≤ u.p2) :
    s2uThree sc.p0 u sc = u.p0 ∧ s2uThree sc.p1 u sc = u.p1 ∧ s2uThree sc.p2 u sc = u.p2 ∧
    (∀ s, s ≤ sc.p0 → s2uThree s u sc = u.p0) ∧ (∀ s, sc.p2 ≤ s → s2uThree s u sc = u.p2) :=
  Eps.threepoint_endpoints u sc h01 h12 u01 u12

/-- The three-point image always lies in `[uL, uU]`. -/
theorem threepoint_clamped (u sc : Pts K) (h01 : sc.p0 < sc.p1) (h12 : sc.p1 < sc.p2)
    (u01 : u.p0 ≤ u.p1) (u12 : u.p1 ≤ u.p2) (s : K) :
    u.p0 ≤ s2uThree s u sc ∧ s2uThree s u sc ≤ u.p2 :=
  Eps.threepoint_clamped u sc h01 h12 u01 u12 s

/-- Identity scaling, horizontal: with the table's own points the two-point mapping is the
identity everywhere, the three-point mapping on `[sL, sU]`. -/
theorem scaling_identity_saturation (u : Pts K) (h01 : u.p0 < u.p1) (h12 : u.p1 < u.p2) (s : K) :
    s2uTwo s u u = s ∧ (u.p0 ≤ s → s ≤ u.p2 → s2uThree s u u = s) :=
  ⟨twopoint_identity u (ne_of_lt (lt_trans h01 h12)) s, threepoint_identity u h01 h12 s⟩

/-- Identity scaling, complete: scaled points = table points ⇒ the scaled krw is the table's
krw on `[sL, sU]`, for every combination of the scaling switches (two- or three-point horizontal,
pure / three-point vertical), in the normal case `0 < KRWR < KRW`. -/
theorem scaling_identity_krw (c : Config) (t : PLParams K) (u : Points K) (sw : K)
    (h01 : u.satKrw.p0 < u.satKrw.p1) (h12 : u.satKrw.p1 < u.satKrw.p2)
    (hlo : u.satKrw.p0 ≤ sw) (hhi : sw ≤ u.satKrw.p2)
    (h0 : u.krwr ≠ 0) (h1 : u.krwr < u.maxKrw) (hm : u.maxKrw ≠ 0) :
    epsKrw c t u u sw = t.krwAt sw :=
  eps_identity_krw c t u sw h01 h12 hlo hhi h0 h1 hm

theorem scaling_identity_krn (c : Config) (t : PLParams K) (u : Points K) (sw : K)
    (h01 : u.satKrn.p0 < u.satKrn.p1) (h12 : u.satKrn.p1 < u.satKrn.p2)
    (hlo : u.satKrn.p0 ≤ sw) (hhi : sw ≤ u.satKrn.p2)
    (h0 : u.krnr ≠ 0) (h1 : u.krnr < u.maxKrn) (hm : u.maxKrn ≠ 0) :
    epsKrn c t u u sw = t.krnAt sw :=
  eps_identity_krn c t u sw h01 h12 hlo hhi h0 h1 hm

theorem scaling_identity_pc (c : Config) (u : Points K) (pc : K) (hl : c.leverett = false) :
    vertPc c u u pc = pc :=
  vertPc_identity c u pc hl

/-- `unscaledToScaledSat ∘ scaledToUnscaledSat = id` and vice versa (two-point, non-degenerate
point sets). -/
theorem unscaled_scaled_inverse (u sc : Pts K) (hu : u.p0 ≠ u.p2) (hs : sc.p0 ≠ sc.p2) (s : K) :
    u2sTwo (s2uTwo s u sc) u sc = s ∧ s2uTwo (u2sTwo s u sc) u sc = s :=
  twopoint_inverse u sc hu hs s

/-! ## Hysteresis (Carlson) -/

/-- After any saturation history `krnSwMdc` is the minimum of its start value and the history. -/
theorem hyst_invariant (c : Curves K) (h : List K) (st : State K) :
    (run c st h).mdc = h.foldl min st.mdc ∧
    (run c st h).mdc ≤ st.mdc ∧ ∀ s ∈ h, (run c st h).mdc ≤ s := by
  rw [run_mdc]
  exact ⟨rfl, foldl_min_le h st.mdc⟩

/-- `deltaSwImbKrn` is always up to date: `KrnInv_imb(Krn_drain(SwMdc)) − SwMdc`. -/
theorem hyst_delta_consistent (c : Curves K) (start : K) (h : List K) :
    Consistent c (run c (init c start) h) :=
  run_consistent c h _ (init_consistent c start)

/-- The non-wetting relative permeability follows the drainage curve until the saturation
first reverses. -/
theorem hyst_drainage_until_reversal (c : Curves K) (st : State K) (h : List K) (sw : K)
    (hsw : sw ≤ st.mdc) (hall : ∀ s ∈ h, sw ≤ s) :
    krn c (run c st h) sw = c.krnD sw :=
  drainage_until_reversal c st h sw hsw hall

/-- The scanning curve starts on the drainage curve at the reversal point, provided the
imbibition curve is inverted correctly there (explicit hypothesis; true for a strictly
monotone imbibition table whose range contains the drainage value). -/
theorem hyst_scan_continuous (c : Curves K) (st : State K) (hc : Consistent c st)
    (hinv : c.krnI (c.krnIInv (c.krnD st.mdc)) = c.krnD st.mdc) :
    c.krnI (st.mdc + st.delta) = c.krnD st.mdc ∧ krn c st st.mdc = c.krnD st.mdc :=
  scan_continuous c st hc hinv

/-- Carlson with identical drainage and imbibition curves changes nothing, for every history. -/
theorem carlson_identity (f fInv : K → K) (start : K) (h : List K)
    (hinv : ∀ s, s = start ∨ s ∈ h → fInv (f s) = s) (sw : K) :
    krn ⟨f, f, fInv⟩ (run ⟨f, f, fInv⟩ (init ⟨f, f, fInv⟩ start) h) sw = f sw :=
  carlson_identity_history f fInv start h hinv sw


/-! ## Second round: descending tables, family I = family II on the table level -/

/-- A descending table (family I gas-oil tables are stored against `So = 1 - Swco - Sg`) returns
every tabulated value at its node … -/
theorem table_descending_node {xs ys : List K} (hs : StrictDec xs) (hn : 2 ≤ xs.length) (hl : ys.length = xs.length)
    (k : Nat) (hk : k < xs.length) : plDesc xs ys (nth xs k) = nth ys k :=
  plDesc_node hs hn hl k hk

/-- … brackets in between, and is constant outside. -/
theorem table_descending_between {xs : List K} (ys : List K) (hs : StrictDec xs) (hn : 2 ≤ xs.length) (x : K)
    (h0 : x < nth xs 0) (h1 : nth xs (xs.length - 1) < x) :
    ∃ i, i + 1 < xs.length ∧ nth xs (i + 1) < x ∧ x ≤ nth xs i ∧
      min (nth ys i) (nth ys (i + 1)) ≤ plDesc xs ys x ∧ plDesc xs ys x ≤ max (nth ys i) (nth ys (i + 1)) :=
  plDesc_between ys hs hn x h0 h1

/-- **family_equiv** (table level): a table and the same samples in the opposite order define
the same function — ascending and descending search + evaluation code agree everywhere. -/
theorem family_equiv_reverse {xs ys : List K} (hs : StrictInc xs) (hn : 2 ≤ xs.length)
    (hl : ys.length = xs.length) (x : K) : plEval xs.reverse ys.reverse x = plEval xs ys x :=
  plEval_reverse hs hn hl x

/-- **family_equiv** under the `So = 1 − Sw` re-indexing: the SOF3/SOF2 table of a curve, converted
back by the manager, is the SWOF `krow(Sw)` function. -/
theorem family_equiv_so {sw krow : List K} (hs : StrictInc sw) (hn : 2 ≤ sw.length)
    (hl : krow.length = sw.length) (so kro : List K)
    (hso : so = (sw.map (fun s => 1 - s)).reverse) (hkro : kro = krow.reverse) (x : K) :
    plEval (so.map (fun s => 1 - s)) kro x = plEval sw krow x :=
  Eps.family_equiv_so hs hn hl so kro hso hkro x

/-- **family_equiv** under the `So = (1 − Swco) − Sg` re-indexing (gas-oil system). -/
theorem family_equiv_sg {sg krog : List K} (c : K) (hs : StrictInc sg) (hn : 2 ≤ sg.length)
    (hl : krog.length = sg.length) (so1 so2 k2 : List K)
    (h1 : so1 = sg.map (fun g => c - g)) (h2 : so2 = so1.reverse) (hk : k2 = krog.reverse) (x : K) :
    plEval so2 k2 x = plEval so1 krog x :=
  Eps.family_equiv_sg c hs hn hl so1 so2 k2 h1 h2 hk x

/-- Inserting an interpolated node (family II's SOF3 lists both oil relperms on the union of the
two node sets) does not change the function. -/
theorem table_refine_invariant {xs ys : List K} (hs : StrictInc xs) (hl : ys.length = xs.length)
    (i : Nat) (hi : i + 1 < xs.length) (a : K) (h1 : nth xs i < a) (h2 : a < nth xs (i + 1))
    (xs' ys' : List K) (hxs' : xs' = xs.take (i + 1) ++ a :: xs.drop (i + 1))
    (hys' : ys' = ys.take (i + 1) ++ evalSeg xs ys i a :: ys.drop (i + 1)) (x : K) :
    plAsc xs' ys' x = plAsc xs ys x :=
  plAsc_refine hs hl i hi a h1 h2 xs' ys' hxs' hys' x

/-- `PiecewiseLinearTwoPhaseMaterialParams::finalize()` reverts a descending curve only when its
first saturation exceeds its last *value*; either way the function is unchanged. -/
theorem finalize_invariant {xs ys : List K} (h : StrictInc xs ∨ StrictDec xs) (hn : 2 ≤ xs.length)
    (hl : ys.length = xs.length) (x : K) :
    plEval (finalizeCurve xs ys).1 (finalizeCurve xs ys).2 x = plEval xs ys x :=
  finalizeCurve_eval h hn hl x

/-! ## Second round: three-point scaling -/

/-- The three-point map is monotone over the whole axis. -/
theorem threepoint_monotone (u sc : Pts K) (h01 : sc.p0 < sc.p1) (h12 : sc.p1 < sc.p2)
    (u01 : u.p0 ≤ u.p1) (u12 : u.p1 ≤ u.p2) {s s' : K} (h : s ≤ s') : s2uThree s u sc ≤ s2uThree s' u sc :=
  Eps.threepoint_monotone u sc h01 h12 u01 u12 h

/-- `unscaledToScaledSat ∘ scaledToUnscaledSat = id` on `[sL, sU]` and vice versa on `[uL, uU]`,
three-point scaling. -/
theorem unscaled_scaled_inverse_threepoint (u sc : Pts K) (h01 : sc.p0 < sc.p1) (h12 : sc.p1 < sc.p2)
    (u01 : u.p0 < u.p1) (u12 : u.p1 < u.p2) :
    (∀ s, sc.p0 ≤ s → s ≤ sc.p2 → u2sThree (s2uThree s u sc) u sc = s) ∧
    (∀ x, u.p0 ≤ x → x ≤ u.p2 → s2uThree (u2sThree x u sc) u sc = x) :=
  threepoint_inverse u sc h01 h12 u01 u12

/-! ## Second round: table-derived end-points (SatfuncPropertyInitializers) -/

/-- Loop invariant of the `std::lower_bound` the scanners are written with. -/
theorem scanner_search_invariant (p : K → Bool) (xs : List K) (hp : Partitioned p xs) :
    critIndex p xs ≤ xs.length ∧ (∀ i, i < critIndex p xs → p (nth xs i) = true) ∧
    (∀ j, critIndex p xs ≤ j → j < xs.length → p (nth xs j) = false) :=
  critIndex_spec p xs hp

/-- The critical saturation of an increasing relperm column (SWCR, SGCR, family II's SOWCR and
SOGCR) is the table saturation of the last sample with `kr ≤ TOLCRIT`. -/
theorem critical_increasing {sat kr : List K} (tol : K) (hm : MonoInc kr) (hn : 0 < kr.length)
    (h0 : nth kr 0 ≤ tol) :
    ∃ k, k < kr.length ∧ critInc sat kr tol = nth sat k ∧ nth kr k ≤ tol ∧
      (∀ i, i ≤ k → nth kr i ≤ tol) ∧ (∀ j, k < j → j < kr.length → tol < nth kr j) :=
  critInc_last tol hm hn h0

/-- The critical saturation of a decreasing relperm column (family I's oil columns) is the table
saturation of the first sample with `kr ≤ TOLCRIT`. -/
theorem critical_decreasing {sat kr : List K} (tol : K) (hm : MonoDec kr) (hn : 0 < kr.length)
    (hz : nth kr (kr.length - 1) ≤ tol) :
    ∃ k, k < kr.length ∧ critDec sat kr tol = nth sat k ∧ nth kr k ≤ tol ∧
      (∀ i, i < k → tol < nth kr i) ∧ (∀ j, k ≤ j → j < kr.length → nth kr j ≤ tol) :=
  critDec_first tol hm hn hz

/-- Both keyword families find the same critical oil saturation. -/
theorem family_equiv_critical (f : K → K) {sat kr : List K} (tol : K) (hm : MonoDec kr) (hn : 0 < kr.length)
    (hl : sat.length = kr.length) (hz : nth kr (kr.length - 1) ≤ tol) :
    critInc (sat.map f).reverse kr.reverse tol = f (critDec sat kr tol) :=
  critInc_reverse f tol hm hn hl hz

/-- **family_equiv**, deck level, end-points: the family II tables of the same curves yield the
same unscaled end-points (all eight saturations, both maximum capillary pressures, the maximum
relperms, KRWR and KRGR). -/
theorem family_equiv_endpoints (a : Fam1 K) (tol : K) (hsh : Shared a)
    (hw : MonoDec a.krow) (hg : MonoDec a.krog) (hnw : 0 < a.sw.length)
    (hlw : a.krow.length = a.sw.length) (hlg : a.krog.length = a.sg.length)
    (hzw : nth a.krow (a.krow.length - 1) ≤ tol) (hzg : nth a.krog (a.krog.length - 1) ≤ tol) :
    let i1 := unscaledInfo1 a tol
    let i2 := unscaledInfo2 (toFam2 a) tol
    i2.Swl = i1.Swl ∧ i2.Sgl = i1.Sgl ∧ i2.Swcr = i1.Swcr ∧ i2.Sgcr = i1.Sgcr ∧
    i2.Sowcr = i1.Sowcr ∧ i2.Sogcr = i1.Sogcr ∧ i2.Swu = i1.Swu ∧ i2.Sgu = i1.Sgu ∧
    i2.maxPcow = i1.maxPcow ∧ i2.maxPcgo = i1.maxPcgo ∧ i2.maxKrw = i1.maxKrw ∧ i2.maxKrg = i1.maxKrg ∧
    i2.maxKrow = i1.maxKrow ∧ i2.Krwr = i1.Krwr ∧ i2.Krgr = i1.Krgr :=
  SatDeck.family_equiv_endpoints a tol hsh hw hg hnw hlw hlg hzw hzg

/-- **family_equiv**, deck level, effective tables: all six unscaled curves the manager builds
from the family II tables are the same functions as those built from family I (after
TOLCRIT normalisation and `finalize()`). -/
theorem family_equiv (a : Fam1 K) (tol swco : K) (hsh : Shared a)
    (hs : StrictInc a.sw) (hn : 2 ≤ a.sw.length) (hlw : a.krow.length = a.sw.length)
    (hsg : StrictInc a.sg) (hlg : a.krog.length = a.sg.length) (x : K) :
    (effOW (.f2 (toFam2 a)) tol).krnAt x = (effOW (.f1 a) tol).krnAt x ∧
    (effOW (.f2 (toFam2 a)) tol).krwAt x = (effOW (.f1 a) tol).krwAt x ∧
    (effOW (.f2 (toFam2 a)) tol).pcnw x = (effOW (.f1 a) tol).pcnw x ∧
    (effGO (.f2 (toFam2 a)) tol (nth a.sw 0)).krwAt x = (effGO (.f1 a) tol (nth a.sw 0)).krwAt x ∧
    (effGO (.f2 (toFam2 a)) tol swco).krnAt x = (effGO (.f1 a) tol swco).krnAt x ∧
    (effGO (.f2 (toFam2 a)) tol swco).pcnw x = (effGO (.f1 a) tol swco).pcnw x :=
  SatDeck.family_equiv a tol swco hsh hs hn hlw hsg hlg x

/-- TOLCRIT normalisation keeps a relperm column monotone. -/
theorem normalize_monotone (tol : K) (ht : 0 ≤ tol) {kr : List K} (hm : MonoInc kr) : MonoInc (normalize tol kr) :=
  normalize_mono tol ht hm

/-! ## Second round: the cell's end-points and the three-phase combination -/

/-- Without end-point arrays in the deck the cell's end-points are the table's. -/
theorem deck_endpoint_default (u : Info K) (mask : List Bool) (arr : List K) (h : ∀ k, mask.getD k false = false) :
    scaledInfo u mask arr = u :=
  scaledInfo_none u mask arr h

/-- Scaled end-points map onto table end-points, in terms of the deck quantities
(SWCR→table SWCR, SWU→table SWU; SWL/SWU for Pc; SGU/SGCR for the gas relperm). -/
theorem deck_twopoint_endpoints (u s : Info K) (hw : s.Swcr ≠ s.Swu) (hp : s.Swl ≠ s.Swu)
    (hg : 1 - s.Swl - s.Sgu ≠ 1 - s.Swl - s.Sgcr) :
    s2uTwo s.Swcr (pointsOW u).satKrw (pointsOW s).satKrw = u.Swcr ∧
    s2uTwo s.Swu (pointsOW u).satKrw (pointsOW s).satKrw = u.Swu ∧
    s2uTwo s.Swl (pointsOW u).satPc (pointsOW s).satPc = u.Swl ∧
    s2uTwo s.Swu (pointsOW u).satPc (pointsOW s).satPc = u.Swu ∧
    s2uTwo (1 - s.Swl - s.Sgu) (pointsGO u).satKrn (pointsGO s).satKrn = 1 - u.Swl - u.Sgu ∧
    s2uTwo (1 - s.Swl - s.Sgcr) (pointsGO u).satKrn (pointsGO s).satKrn = 1 - u.Swl - u.Sgcr :=
  SatDeck.deck_twopoint_endpoints u s hw hp hg

/-- Identity scaling at deck level (water). -/
theorem deck_identity_krw (c : Config) (t : PLParams K) (u s : Info K) (h : s = u) (sw : K)
    (h01 : u.Swcr < 1 - u.Sowcr - u.Sgl) (h12 : 1 - u.Sowcr - u.Sgl < u.Swu)
    (hlo : u.Swcr ≤ sw) (hhi : sw ≤ u.Swu) (h0 : u.Krwr ≠ 0) (h1 : u.Krwr < u.maxKrw) (hm : u.maxKrw ≠ 0) :
    epsKrw c t (pointsOW u) (pointsOW s) sw = t.krwAt sw :=
  SatDeck.deck_identity_krw c t u s h sw h01 h12 hlo hhi h0 h1 hm

/-- Identity scaling at deck level (gas; argument `x = 1 - Swl - Sg`). -/
theorem deck_identity_krg (c : Config) (t : PLParams K) (u s : Info K) (h : s = u) (x : K)
    (h01 : 1 - u.Swl - u.Sgu < u.Sogcr) (h12 : u.Sogcr < 1 - u.Swl - u.Sgcr)
    (hlo : 1 - u.Swl - u.Sgu ≤ x) (hhi : x ≤ 1 - u.Swl - u.Sgcr) (h0 : u.Krgr ≠ 0) (h1 : u.Krgr < u.maxKrg) (hm : u.maxKrg ≠ 0) :
    epsKrn c t (pointsGO u) (pointsGO s) x = t.krnAt x :=
  SatDeck.deck_identity_krg c t u s h x h01 h12 hlo hhi h0 h1 hm

/-- The three-phase oil relperm of `EclDefaultMaterial` lies between the two two-phase oil
relperms (all three branches: regular, regularised near `Sw + Sg = Swco`, blend). -/
theorem threephase_oil_range (k : Consts K) (hk : 0 < k.eps) (h2 : k.two = 2) (swco : K) (krnOW krwGO : K → K)
    (sw sg : K) (hg : 0 ≤ sg) :
    min (krnOW (sg + maxA swco sw)) (krwGO (1 - (sg + maxA swco sw))) ≤ defaultKrn k swco krnOW krwGO sw sg ∧
    defaultKrn k swco krnOW krwGO sw sg ≤ max (krnOW (sg + maxA swco sw)) (krwGO (1 - (sg + maxA swco sw))) :=
  defaultKrn_between k hk h2 swco krnOW krwGO sw sg hg

/-- … and reduces to the oil-water curve without gas, to the gas-oil curve at connate water. -/
theorem threephase_oil_limits (k : Consts K) (hk : 0 < k.eps) (swco : K) (krnOW krwGO : K → K) :
    (∀ sw, k.eps ≤ sw - swco → defaultKrn k swco krnOW krwGO sw 0 = krnOW sw) ∧
    (∀ sw sg, sw ≤ swco → k.eps ≤ sg → defaultKrn k swco krnOW krwGO sw sg = krwGO (1 - (sg + swco))) :=
  ⟨fun sw h => defaultKrn_oil_water k swco krnOW krwGO sw h hk,
   fun sw sg h1 h2 => defaultKrn_gas_oil k swco krnOW krwGO sw sg h1 h2 hk⟩

/-- `updateHysteresis` of a cell: both reversal saturations are running minima of `1 − So` and
`1 − Swl − Sg` (clamped saturations) — third round: for the complete hysteresis object, i.e. every
EHYSTR model; `krwSwMdc_` is the running maximum and (flag PC / BOTH) `pcSwMdc_` the running minimum
of `Sw` resp. `So`. -/
theorem deck_hyst_minimum (c : Cell K) (st : CellState K) (s : Sat K) (h : c.ow.enabled = true) :
    (updateCell c st s).ow.krnMdc = min st.ow.krnMdc (1 - clamp01 s.so) ∧
    (updateCell c st s).go.krnMdc = min st.go.krnMdc (1 - c.swl - clamp01 s.sg) ∧
    (updateCell c st s).ow.krwMdc = max st.ow.krwMdc (clamp01 s.sw) ∧
    (updateCell c st s).go.krwMdc = max st.go.krwMdc (clamp01 s.so) ∧
    (c.ow.cfg.pcModel = 0 → (updateCell c st s).ow.pcMdc = min st.ow.pcMdc (clamp01 s.sw)) ∧
    (c.go.cfg.pcModel = 0 → (updateCell c st s).go.pcMdc = min st.go.pcMdc (clamp01 s.so)) :=
  updateCell_mdc c st s h

/-! ## Second round: hysteresis -/

/-- The scanning curve is non-increasing in the wetting saturation … -/
theorem scan_monotone (c : Curves K) (st : State K) (hI : ∀ a b, a ≤ b → c.krnI b ≤ c.krnI a)
    {a b : K} (ha : st.mdc < a) (hab : a ≤ b) : krn c st b ≤ krn c st a :=
  Hyst.scan_monotone c st hI ha hab

/-- … and the hysteretic relperm is non-increasing on the whole axis when the scanning curve
starts at or below the drainage value. -/
theorem hyst_krn_antitone (c : Curves K) (st : State K)
    (hD : ∀ a b, a ≤ b → c.krnD b ≤ c.krnD a) (hI : ∀ a b, a ≤ b → c.krnI b ≤ c.krnI a)
    (hj : c.krnI (st.mdc + st.delta) ≤ c.krnD st.mdc) {a b : K} (hab : a ≤ b) : krn c st b ≤ krn c st a :=
  krn_antitone c st hD hI hj hab

/- Killough (krHysteresisModel 2 and 3), non-wetting phase.  Full shape of the claim: for every
history the relperm follows the drainage curve until the first reversal, the scanning curve is
continuous at the reversal point and ends at the trapped saturation of Land's formula — for the
non-wetting AND (model 4) the wetting phase, with or without capillary-pressure hysteresis.
Proved here: the non-wetting phase on the second round's model; the third round's section below adds
model 4's wetting-phase curve and the capillary-pressure hysteresis on the complete object
(`hyst_refines_killough` ties the two); still missing: WAG. -/

theorem killough_mdc_min_partial (p : Killough.Static K) (tiny : K) (h : List K) (st : Killough.State K) :
    (Killough.run p tiny st h).mdc = h.foldl min st.mdc :=
  Killough.killough_mdc_min_partial p tiny h st

theorem killough_drainage_until_reversal_partial (p : Killough.Static K) (tiny : K) (st : Killough.State K)
    (h : List K) (sw : K) (hsw : sw ≤ st.mdc) (hall : ∀ s ∈ h, sw ≤ s) :
    Killough.krn p (Killough.run p tiny st h) sw = p.krnD sw :=
  Killough.killough_drainage_until_reversal_partial p tiny st h sw hsw hall

/-- Endpoint continuity at the reversal point: needs the two curves to meet at the maximum
non-wetting saturation (`krnI (1 − Snmaxd) = KrndMax`). -/
theorem killough_scan_continuous_partial (p : Killough.Static K) (st : Killough.State K)
    (hc : st.KrndHy = p.krnD st.mdc) (hd : (1 - st.mdc) - st.Sncrt ≠ 0) (hm : p.KrndMax ≠ 0)
    (hmeet : p.krnI (1 - p.Snmaxd) = p.KrndMax) :
    Killough.scan p st st.mdc = p.krnD st.mdc ∧ Killough.krn p st st.mdc = p.krnD st.mdc :=
  (Killough.killough_scan_continuous_partial p st hc hd hm hmeet).2

/-- The other end of the scanning curve: at `Sw = 1 − Sncrt` the imbibition curve is evaluated at
its critical saturation. -/
theorem killough_trapped_endpoint_partial (p : Killough.Static K) (st : Killough.State K) :
    Killough.snorm p st (1 - st.Sncrt) = p.Sncri ∧
    (p.krnI (1 - p.Sncri) = 0 → Killough.scan p st (1 - st.Sncrt) = 0) :=
  ⟨(Killough.killough_trapped_endpoint_partial p st).1, (Killough.killough_trapped_endpoint_partial p st).2.2.1⟩

/-- Land's trapped saturation lies between the drainage critical saturation and the historical
maximum. -/
theorem killough_land_bounds_partial (p : Killough.Static K) (tiny sn : K)
    (h1 : p.Sncrd < sn) (h2 : sn ≤ p.Snmaxd) (h3 : 0 < p.Sncri - p.Sncrd + tiny)
    (h4 : p.Sncri + tiny ≤ p.Snmaxd) (h5 : 0 ≤ p.modParam) :
    p.Sncrd < Killough.land p tiny sn ∧ Killough.land p tiny sn ≤ sn :=
  Killough.killough_land_bounds_partial p tiny sn h1 h2 h3 h4 h5

/-! ## Third round: the complete hysteresis object (`EclHysteresisTwoPhaseLawParams` without WAG) -/

section full
open OpmVerif.HystFull
variable (c : Cfg K) (l : Lits K) (f : Laws K) (p : HystFull.Static K)

/-- Reversal bookkeeping of `update(pcSw, krwSw, krnSw)` over every history of saturation triples:
`krnSwMdc_` is the running minimum of the `krnSw`, `krwSwMdc_` the running maximum of the `krwSw`,
`pcSwMdc_` the running minimum of the `pcSw` (when capillary-pressure hysteresis is on). -/
theorem hyst_reversal_bookkeeping (h : List (Triple K)) (st : HystFull.State K) :
    (HystFull.run c l f p st h).krnMdc = (h.map Triple.krn).foldl min st.krnMdc ∧
    (HystFull.run c l f p st h).krwMdc = (h.map Triple.krw).foldl max st.krwMdc ∧
    (c.pcModel = 0 → (HystFull.run c l f p st h).pcMdc = (h.map Triple.pc).foldl min st.pcMdc) :=
  ⟨run_krnMdc c l f p h st, run_krwMdc c l f p h st, run_pcMdc c l f p h st⟩

/-- **Idempotent update**: telling the object the same saturations twice is the same as once — for
every relperm / capillary-pressure model, every state. -/
theorem hyst_update_idempotent (st : HystFull.State K) (s : Triple K) :
    HystFull.update c l f p (HystFull.update c l f p st s) s = HystFull.update c l f p st s :=
  update_self c l f p st s

/-- **Repeated saturation history**: running any history a second time changes nothing (all `pcSw`
below 2.0, the start value of `pcSwMdc_`). -/
theorem hyst_history_idempotent (h : List (Triple K)) (st : HystFull.State K) (h2 : ∀ s ∈ h, s.pc < l.two) :
    HystFull.run c l f p (HystFull.run c l f p st h) h = HystFull.run c l f p st h :=
  run_repeat c l f p h st h2

/-- After `finalize()` and any history all derived members (`deltaSwImbKrn_`, `Sncrt_`, `Swcrt_`,
`Krwd_sncrt_`, `KrndHy_`, `KrwdHy_`) are up to date with `krnSwMdc_`. -/
theorem hyst_derived_consistent (he : c.enabled = true) (h : List (Triple K)) :
    Consistent c f p (HystFull.run c l f p (HystFull.init c l f p) h) :=
  HystFull.run_consistent c l f p h _ (HystFull.init_consistent c l f p he)

/-- Drainage until the first reversal, every model (Carlson, Killough, model 4, off). -/
theorem hyst_full_drainage_until_reversal (st : HystFull.State K) (h : List (Triple K)) (sw : K)
    (h0 : sw ≤ st.krnMdc) (hall : ∀ s ∈ h, sw ≤ s.krn) :
    HystFull.krn c f p (HystFull.run c l f p st h) sw = f.krnD sw :=
  krn_drainage_until_reversal c l f p st h sw h0 hall

/-- Carlson identity for the complete object: identical curves, any history of triples, any
capillary-pressure setting. -/
theorem carlson_identity_full (he : c.enabled = true) (hm : c.krModel = 0 ∨ c.krModel = 1)
    (fn fInv : K → K) (hD : f.krnD = fn) (hI : f.krnI = fn) (hInv : f.krnIInv = fInv) (h : List (Triple K))
    (hinv : ∀ s, s = l.two ∨ s ∈ h.map Triple.krn → fInv (fn s) = s) (sw : K) :
    HystFull.krn c f p (HystFull.run c l f p (HystFull.init c l f p) h) sw = fn sw :=
  HystFull.carlson_identity_full c l f p he hm fn fInv hD hI hInv h hinv sw

/-- For Killough's models the complete object's `twoPhaseSatKrn` is the second round's Killough
model on the members (`krnSwMdc_`, `KrndHy_`, `Sncrt_`) — the `killough_*` theorems apply to it. -/
theorem hyst_refines_killough (he : c.enabled = true) (hm : 2 ≤ c.krModel) (st : HystFull.State K) (sw : K) :
    HystFull.krn c f p st sw = Killough.krn (toK c f p) (kill st) sw :=
  krn_killough c f p he hm st sw

/-- The trapped non-wetting saturation lies in `[Sncrd, max(Sncrd, Snhy)]` after every history. -/
theorem killough_trapped_bounds (he : c.enabled = true) (h : List (Triple K)) (hk : c.killough = true)
    (hC : p.C = 1 / (p.Sncri - p.Sncrd + l.tiny) - 1 / (p.Snmaxd - p.Sncrd))
    (h2 : 1 - (HystFull.run c l f p (HystFull.init c l f p) h).krnMdc ≤ p.Snmaxd)
    (h3 : 0 < p.Sncri - p.Sncrd + l.tiny) (h4 : p.Sncri + l.tiny ≤ p.Snmaxd) (h5 : 0 ≤ c.modParam) :
    p.Sncrd ≤ (HystFull.run c l f p (HystFull.init c l f p) h).Sncrt ∧
    (HystFull.run c l f p (HystFull.init c l f p) h).Sncrt ≤
      max p.Sncrd (1 - (HystFull.run c l f p (HystFull.init c l f p) h).krnMdc) :=
  sncrt_bounds c l f p _ (HystFull.run_consistent c l f p h _ (HystFull.init_consistent c l f p he)) hk hC h2 h3 h4 h5

/-- Scanning-curve end points: the normalised saturation the imbibition curve is read at is `Snmaxd`
at the reversal point, `Sncri` at the trapped saturation, and stays between them in between. -/
theorem killough_scan_endpoints (st : HystFull.State K) (hi : p.Sncri ≤ p.Snmaxd) (hd : st.Sncrt < 1 - st.krnMdc) :
    HystFull.snorm p st st.krnMdc = p.Snmaxd ∧ HystFull.snorm p st (1 - st.Sncrt) = p.Sncri ∧
    ∀ sw, st.krnMdc ≤ sw → sw ≤ 1 - st.Sncrt → p.Sncri ≤ HystFull.snorm p st sw ∧ HystFull.snorm p st sw ≤ p.Snmaxd :=
  ⟨snorm_reversal p st (by intro h; rw [sub_eq_zero] at h; exact absurd h (ne_of_gt hd)), snorm_trapped p st,
   fun sw h1 h2 => snorm_range p st sw hi hd h1 h2⟩

/-- **Range `[0, max]` of the hysteretic non-wetting relperm — every model, every history, every
saturation** (drainage curve within `[0, KrndMax]`, imbibition curve within `[0, M]`). -/
theorem hyst_krn_range (he : c.enabled = true) (h : List (Triple K)) (sw M : K) (hm : 0 < p.KrndMax)
    (hD : ∀ x, 0 ≤ f.krnD x ∧ f.krnD x ≤ p.KrndMax) (hI : ∀ x, 0 ≤ f.krnI x ∧ f.krnI x ≤ M) :
    0 ≤ HystFull.krn c f p (HystFull.run c l f p (HystFull.init c l f p) h) sw ∧
    HystFull.krn c f p (HystFull.run c l f p (HystFull.init c l f p) h) sw ≤ max p.KrndMax M :=
  krn_range c f p _ (HystFull.run_consistent c l f p h _ (HystFull.init_consistent c l f p he)) sw M hm hD hI

/-- Killough, non-wetting phase: the scanning curve starts on the drainage curve (curves meeting at
`Snmaxd`) and ends at zero at the trapped saturation. -/
theorem killough_krn_scan_ends (st : HystFull.State K) (hc : st.KrndHy = f.krnD st.krnMdc)
    (hd : (1 - st.krnMdc) - st.Sncrt ≠ 0) (hm : p.KrndMax ≠ 0) (hmeet : f.krnI (1 - p.Snmaxd) = p.KrndMax)
    (hz : f.krnI (1 - p.Sncri) = 0) :
    krnScan f p st st.krnMdc = f.krnD st.krnMdc ∧ krnScan f p st (1 - st.Sncrt) = 0 :=
  ⟨krnScan_continuous f p st hc hd hm hmeet, krnScan_trapped f p st hz⟩

/-- Killough, wetting phase (model 4): the scanning curve starts on the drainage curve at the
reversal point and ends at `Krwi_snr` at the trapped saturation. -/
theorem killough_krw_scan_ends (st : HystFull.State K) (hd : (1 - st.krnMdc) - st.Sncrt ≠ 0)
    (hs : p.Krwi_snmax = f.krwI (1 - p.Snmaxd)) (hs' : p.Krwi_snrmax = f.krwI (1 - p.Sncri))
    (hne : p.Krwi_snrmax - p.Krwi_snmax ≠ 0) :
    krwScan l f p st st.krnMdc = st.KrwdHy ∧ krwScan l f p st (1 - st.Sncrt) = krwiSnr l p st :=
  ⟨krwScan_continuous l f p st hd hs, krwScan_trapped l f p st hs' hne⟩

/-- Killough capillary pressure, primary branch: drainage curve up to `pcSwMdc_`, imbibition curve
beyond the trapped saturation. -/
theorem killough_pc_branches (st : HystFull.State K) (he : c.enabled = true) (h0 : c.pcModel = 0) (hi : st.initialImb = false) :
    (∀ sw, sw ≤ st.pcMdc → pcnw c l f p st sw = f.pcD sw) ∧
    (∀ sw, st.pcMdc < sw → 1 - st.Sncrt ≤ sw → pcnw c l f p st sw = f.pcI sw) :=
  ⟨fun sw h => pcnw_drainage c l f p st sw hi h, fun sw h h2 => pcnw_imbibition c l f p st sw he h0 hi h h2⟩

/-- … and the scanning curve in between: `Pcd + F·(w·Pci − Pcd)` with `F ∈ [0,1]` (0 at the reversal
point, so it starts continuously), between the two bounding curves. -/
theorem killough_pc_scanning (st : HystFull.State K) (sw : K) (he : c.enabled = true) (h0 : c.pcModel = 0)
    (hi : st.initialImb = false) (h : st.pcMdc < sw) (h2 : sw < 1 - st.Sncrt) (hcv : 0 < p.curv) :
    ∃ F, 0 ≤ F ∧ F ≤ 1 ∧ F = kF p.curv (sw - st.pcMdc) ((1 - st.Sncrt) - st.pcMdc) ∧
      pcnw c l f p st sw = f.pcD sw + F * (pcWght l f p * f.pcI sw - f.pcD sw) ∧
      min (f.pcD sw) (pcWght l f p * f.pcI sw) ≤ pcnw c l f p st sw ∧
      pcnw c l f p st sw ≤ max (f.pcD sw) (pcWght l f p * f.pcI sw) :=
  pcnw_scanning c l f p st sw he h0 hi h h2 hcv

theorem killough_pc_factor (cv d : K) (h : 1 / (d + cv) - 1 / cv ≠ 0) : kF cv 0 d = 0 ∧ kF cv d d = 1 :=
  ⟨kF_zero cv d, kF_one cv d h⟩

/-- No initial-imbibition branch outside the oil-water system. -/
theorem hyst_initial_imbibition_only_oil_water (h : List (Triple K)) (how : p.ow = false) :
    (HystFull.run c l f p (HystFull.init c l f p) h).initialImb = false :=
  run_initialImb_false c l f p h _ how (init_initialImb c l f p)

end full

/-! ## Non-vacuity -/

example : plAsc ([2 / 10, 5 / 10, 1] : List ℚ) [0, 3 / 10, 1] (5 / 10) = 3 / 10 := by
  have h := table_node (xs := ([2 / 10, 5 / 10, 1] : List ℚ)) (ys := [0, 3 / 10, 1])
    (strictInc_three (by norm_num) (by norm_num)) (by simp) rfl 1 (by simp)
  simpa [nth] using h
example : s2uTwo (3 / 10 : ℚ) ⟨2 / 10, 4 / 10, 1⟩ ⟨3 / 10, 5 / 10, 9 / 10⟩ = 2 / 10 :=
  (twopoint_endpoints ⟨2 / 10, 4 / 10, 1⟩ ⟨3 / 10, 5 / 10, 9 / 10⟩ (by norm_num)).1
example : s2uThree (5 / 10 : ℚ) ⟨2 / 10, 4 / 10, 1⟩ ⟨3 / 10, 5 / 10, 9 / 10⟩ = 4 / 10 :=
  (threepoint_endpoints ⟨2 / 10, 4 / 10, 1⟩ ⟨3 / 10, 5 / 10, 9 / 10⟩ (by norm_num) (by norm_num) (by norm_num) (by norm_num)).2.1
/-- a history with a reversal: 0.8, 0.5, 0.7 — the minimum 0.5 is kept -/
example (c : Curves ℚ) : (run c (init c 2) [8 / 10, 5 / 10, 7 / 10]).mdc = 5 / 10 := by
  rw [(hyst_invariant c _ _).1]; simp [init, refresh]; norm_num
/-- identical, invertible curves: `f s = 1 - s` -/
example (sw : ℚ) : krn ⟨fun s => 1 - s, fun s => 1 - s, fun y => 1 - y⟩
    (run ⟨fun s => 1 - s, fun s => 1 - s, fun y => 1 - y⟩ (init ⟨fun s => 1 - s, fun s => 1 - s, fun y => 1 - y⟩ 2) [8 / 10, 5 / 10, 7 / 10]) sw = 1 - sw :=
  carlson_identity (fun s => 1 - s) (fun y => 1 - y) 2 _ (by intro s _; ring) sw

/-! ### Non-vacuity, second round (further instances beside the lemmas in Proofs/Satfunc3) -/

/-- SWOF-like column `krw = [0, 0, 0.2, 0.7]` on `Sw = [0.2, 0.3, 0.6, 1]`: SWCR = 0.3 -/
example : critInc ([2 / 10, 3 / 10, 6 / 10, 1] : List ℚ) [0, 0, 2 / 10, 7 / 10] 0 = 3 / 10 := by
  decide +kernel
/-- `krow = [0.9, 0.4, 0, 0]`: first sample with krow ≤ 0 is `Sw = 0.6`, SOWCR = 0.4 -/
example : critDec ([2 / 10, 3 / 10, 6 / 10, 1] : List ℚ) [9 / 10, 4 / 10, 0, 0] 0 = 6 / 10 := by
  decide +kernel
example : ∃ k, k < 3 ∧ critInc ([2 / 10, 3 / 10, 1] : List ℚ) [0, 0, 7 / 10] 0 = nth [2 / 10, 3 / 10, 1] k ∧
    nth ([0, 0, 7 / 10] : List ℚ) k ≤ 0 ∧ (∀ i, i ≤ k → nth ([0, 0, 7 / 10] : List ℚ) i ≤ 0) ∧
    (∀ j, k < j → j < 3 → 0 < nth ([0, 0, 7 / 10] : List ℚ) j) :=
  critical_increasing (sat := ([2 / 10, 3 / 10, 1] : List ℚ)) (kr := [0, 0, 7 / 10]) 0
    (monoInc_three (by norm_num) (by norm_num)) (by simp) (by norm_num [nth])
/-- the same oil curve as an SOF3 column: scanning upwards gives `1 − 0.6` -/
example : critInc (([2 / 10, 3 / 10, 6 / 10, 1] : List ℚ).map (fun s => 1 - s)).reverse ([9 / 10, 4 / 10, 0, 0] : List ℚ).reverse 0 = 1 - 6 / 10 := by
  decide +kernel
/-- three-phase oil relperm: `Swco = 0.2`, `Sw = 0.5`, `Sg = 0.1` with constant two-phase values 0.3 and 0.6 -/
example : (3 / 10 : ℚ) ≤ defaultKrn ⟨1 / 100000, 2⟩ (2 / 10) (fun _ => 3 / 10) (fun _ => 6 / 10) (5 / 10) (1 / 10) ∧
    defaultKrn (⟨1 / 100000, 2⟩ : Consts ℚ) (2 / 10) (fun _ => 3 / 10) (fun _ => 6 / 10) (5 / 10) (1 / 10) ≤ 6 / 10 := by
  have h := threephase_oil_range (⟨1 / 100000, 2⟩ : Consts ℚ) (by norm_num) rfl (2 / 10) (fun _ => 3 / 10) (fun _ => 6 / 10) (5 / 10) (1 / 10) (by norm_num)
  beta_reduce at h
  rw [min_eq_left (by norm_num : (3 / 10 : ℚ) ≤ 6 / 10), max_eq_right (by norm_num : (3 / 10 : ℚ) ≤ 6 / 10)] at h
  exact h
/-- a descending gas-oil curve that `finalize()` leaves descending (first saturation 0.8 ≤ last value 0.9) -/
example (x : ℚ) : plEval (finalizeCurve ([8 / 10, 4 / 10, 0] : List ℚ) [0, 3 / 10, 9 / 10]).1 (finalizeCurve ([8 / 10, 4 / 10, 0] : List ℚ) [0, 3 / 10, 9 / 10]).2 x
    = plEval [8 / 10, 4 / 10, 0] [0, 3 / 10, 9 / 10] x :=
  finalize_invariant (xs := ([8 / 10, 4 / 10, 0] : List ℚ)) (ys := [0, 3 / 10, 9 / 10])
    (Or.inr (strictDec_three (by norm_num) (by norm_num))) (by simp) rfl x

/-! ### Non-vacuity, third round -/

section fullExamples
open OpmVerif.HystFull

/-- a concrete Killough object over ℚ: `Sncrd = 0.1`, `Sncri = 0.2`, `Snmaxd = 0.8`, linear curves -/
def exLits : Lits ℚ := { tiny := 1 / 1000000000000, micro := 1 / 1000000, two := 2, m17 := -17 }
def exCfg : Cfg ℚ := { enabled := true, krModel := 2, pcModel := 0, modParam := 1 / 10, curvature := 1 / 10 }
def exLaws : Laws ℚ :=
  { krwD := fun s => s, krnD := fun s => 1 - s, pcD := fun s => 2 - s, krwI := fun s => s / 2,
    krnI := fun s => (1 - s) / 2, pcI := fun s => 1 - s, krnIInv := fun k => 1 - 2 * k }
def exInfo : HInfo ℚ :=
  { Swl := 2 / 10, Sgl := 0, Swcr := 25 / 100, Sgcr := 5 / 100, Sowcr := 1 / 10, Sogcr := 1 / 10, Swu := 1, Sgu := 8 / 10,
    maxPcow := 2, maxPcgo := 1 }
def exStatic : HystFull.Static ℚ := mkStatic .ow exCfg exLits exLaws exInfo { exInfo with Sowcr := 2 / 10 }
def exHist : List (Triple ℚ) := [⟨6 / 10, 6 / 10, 7 / 10⟩, ⟨4 / 10, 4 / 10, 5 / 10⟩, ⟨5 / 10, 5 / 10, 6 / 10⟩]

/-- a history with a reversal: `krnSwMdc_` is 0.5, the history seen twice leaves the object unchanged -/
example : (HystFull.run exCfg exLits exLaws exStatic (HystFull.init exCfg exLits exLaws exStatic) exHist).krnMdc = 5 / 10 := by
  rw [(hyst_reversal_bookkeeping exCfg exLits exLaws exStatic exHist _).1]
  simp [exHist, exLits]; norm_num
example : HystFull.run exCfg exLits exLaws exStatic
      (HystFull.run exCfg exLits exLaws exStatic (HystFull.init exCfg exLits exLaws exStatic) exHist) exHist =
    HystFull.run exCfg exLits exLaws exStatic (HystFull.init exCfg exLits exLaws exStatic) exHist :=
  hyst_history_idempotent exCfg exLits exLaws exStatic exHist _ (by
    intro s hs; simp [exHist] at hs; rcases hs with rfl | rfl | rfl <;> norm_num [exLits])
/-- the hypotheses of `killough_trapped_bounds` hold for this object and history (Land's constant is
the one `finalize()` computes) -/
example : exStatic.Sncrd ≤ (HystFull.run exCfg exLits exLaws exStatic (HystFull.init exCfg exLits exLaws exStatic) exHist).Sncrt ∧
    (HystFull.run exCfg exLits exLaws exStatic (HystFull.init exCfg exLits exLaws exStatic) exHist).Sncrt ≤
      max exStatic.Sncrd (1 - (HystFull.run exCfg exLits exLaws exStatic (HystFull.init exCfg exLits exLaws exStatic) exHist).krnMdc) := by
  apply killough_trapped_bounds exCfg exLits exLaws exStatic rfl exHist
  · rfl
  · simp [exStatic, mkStatic, exCfg, Cfg.killough, exInfo, exLits]
  · rw [(hyst_reversal_bookkeeping exCfg exLits exLaws exStatic exHist _).1]
    simp [exHist, exLits, exStatic, mkStatic, exCfg, Cfg.killough, exInfo]; norm_num
  · simp [exStatic, mkStatic, exCfg, Cfg.killough, exInfo, exLits]; norm_num
  · simp [exStatic, mkStatic, exCfg, Cfg.killough, exInfo, exLits]; norm_num
  · norm_num [exCfg]
/-- Killough's interpolation factor half-way: curvature 0.1, distance 0.2 of 0.4 -/
example : (0 : ℚ) ≤ kF (1 / 10) (2 / 10) (4 / 10) ∧ kF (1 / 10 : ℚ) (2 / 10) (4 / 10) ≤ 1 :=
  HystFull.kF_range _ _ _ (by norm_num) (by norm_num) (by norm_num) (by norm_num)
/-- the range theorem's hypotheses: both curves within `[0, 1]` on the unit interval are *not* needed
pointwise outside it — take clamped linear curves -/
example (sw : ℚ) (h : List (Triple ℚ)) :
    0 ≤ HystFull.krn exCfg ⟨fun s => s, fun s => max 0 (min 1 (1 - s)), fun s => s, fun s => s, fun s => max 0 (min (1 / 2) ((1 - s) / 2)), fun s => s, fun k => k⟩
          { exStatic with KrndMax := 1 }
          (HystFull.run exCfg exLits ⟨fun s => s, fun s => max 0 (min 1 (1 - s)), fun s => s, fun s => s, fun s => max 0 (min (1 / 2) ((1 - s) / 2)), fun s => s, fun k => k⟩ { exStatic with KrndMax := 1 }
            (HystFull.init exCfg exLits ⟨fun s => s, fun s => max 0 (min 1 (1 - s)), fun s => s, fun s => s, fun s => max 0 (min (1 / 2) ((1 - s) / 2)), fun s => s, fun k => k⟩ { exStatic with KrndMax := 1 }) h) sw :=
  (hyst_krn_range exCfg exLits _ { exStatic with KrndMax := 1 } rfl h sw (1 / 2) (by norm_num)
    (fun x => ⟨le_max_left _ _, max_le (by norm_num) (min_le_left _ _)⟩)
    (fun x => ⟨le_max_left _ _, max_le (by norm_num) (min_le_left _ _)⟩)).1

end fullExamples

/-! ## Fifth round — Killough's non-wetting scanning curve and Land's formula outside its domain -/

section killough5
open OpmVerif.HystFull
variable (c : Cfg K) (l : Lits K) (f : Laws K) (p : HystFull.Static K)

/-- Killough, non-wetting phase, **arbitrary** drainage and imbibition curves: at the reversal point
the scanning curve has the value `Krnd(Shy)·Krni(Snmaxd)/Krnd(Snmaxd)`; it equals the drainage value
there — the scanning curve "starts continuously" — **iff** the imbibition curve meets the drainage
curve at the drainage maximum saturation `Snmaxd`. -/
theorem killough_krn_scan_start (st : HystFull.State K) (hc : st.KrndHy = f.krnD st.krnMdc)
    (hd : (1 - st.krnMdc) - st.Sncrt ≠ 0) (hm : p.KrndMax ≠ 0) (hne : f.krnD st.krnMdc ≠ 0) :
    krnScan f p st st.krnMdc = st.KrndHy / p.KrndMax * f.krnI (1 - p.Snmaxd) ∧
    (krnScan f p st st.krnMdc = f.krnD st.krnMdc ↔ f.krnI (1 - p.Snmaxd) = p.KrndMax) :=
  ⟨krnScan_reversal_value f p st hd, krnScan_continuous_iff f p st hc hd hm hne⟩

/-- The Killough scanning curve is monotone (non-increasing in the wetting saturation) for every
monotone imbibition curve, every state with the reversal above the trapped saturation. -/
theorem killough_krn_scan_monotone (st : HystFull.State K) (s t : K) (h0 : 0 ≤ st.KrndHy) (hm : 0 < p.KrndMax)
    (hi : p.Sncri ≤ p.Snmaxd) (hd : st.Sncrt < 1 - st.krnMdc) (hst : s ≤ t)
    (hmono : ∀ x y, x ≤ y → f.krnI y ≤ f.krnI x) : krnScan f p st t ≤ krnScan f p st s :=
  krnScan_antitone f p st s t h0 hm hi hd hst hmono

/-- The bound that holds on the whole scanning curve: its start value; for curves that meet at
`Snmaxd` this is the drainage value at the reversal point. -/
theorem killough_krn_scan_bound (st : HystFull.State K) (sw : K) (hc : st.KrndHy = f.krnD st.krnMdc)
    (h0 : 0 ≤ f.krnD st.krnMdc) (hm : 0 < p.KrndMax) (hi : p.Sncri ≤ p.Snmaxd) (hd : st.Sncrt < 1 - st.krnMdc)
    (h1 : st.krnMdc ≤ sw) (hmono : ∀ x y, x ≤ y → f.krnI y ≤ f.krnI x) :
    krnScan f p st sw ≤ st.KrndHy / p.KrndMax * f.krnI (1 - p.Snmaxd) ∧
    (f.krnI (1 - p.Snmaxd) = p.KrndMax → krnScan f p st sw ≤ f.krnD st.krnMdc) :=
  ⟨krnScan_le_start f p st sw (by rw [hc]; exact h0) hm hi hd h1 hmono,
   fun hmeet => krnScan_le_reversal f p st sw hc h0 hm hi hd h1 hmono hmeet⟩

/-- Land's trapped saturation after **every history**, outside the domain of `killough_trapped_bounds`:
if the denominator `D` of Land's formula is in `(0,1)` the trapped saturation exceeds the historical
maximum `Snhy`, if `D < 0` it is below the drainage critical saturation; and `finalize()`'s constant
`C` is negative whenever the imbibition critical saturation is below the drainage one. -/
theorem killough_trapped_outside (he : c.enabled = true) (h : List (Triple K)) (hk : c.killough = true)
    (h1 : p.Sncrd < 1 - (HystFull.run c l f p (HystFull.init c l f p) h).krnMdc) :
    (0 < (1 + c.modParam * (p.Snmaxd - (1 - (HystFull.run c l f p (HystFull.init c l f p) h).krnMdc))) +
          p.C * ((1 - (HystFull.run c l f p (HystFull.init c l f p) h).krnMdc) - p.Sncrd) →
      (1 + c.modParam * (p.Snmaxd - (1 - (HystFull.run c l f p (HystFull.init c l f p) h).krnMdc))) +
          p.C * ((1 - (HystFull.run c l f p (HystFull.init c l f p) h).krnMdc) - p.Sncrd) < 1 →
      1 - (HystFull.run c l f p (HystFull.init c l f p) h).krnMdc < (HystFull.run c l f p (HystFull.init c l f p) h).Sncrt) ∧
    ((1 + c.modParam * (p.Snmaxd - (1 - (HystFull.run c l f p (HystFull.init c l f p) h).krnMdc))) +
          p.C * ((1 - (HystFull.run c l f p (HystFull.init c l f p) h).krnMdc) - p.Sncrd) < 0 →
      (HystFull.run c l f p (HystFull.init c l f p) h).Sncrt < p.Sncrd) := by
  have hcons := HystFull.run_consistent c l f p h _ (HystFull.init_consistent c l f p he)
  rw [hcons.2.1 hk]
  exact landN_outside c p _ h1

theorem killough_land_constant_negative
    (hC : p.C = 1 / (p.Sncri - p.Sncrd + l.tiny) - 1 / (p.Snmaxd - p.Sncrd))
    (h1 : p.Sncri + l.tiny < p.Sncrd) (h2 : p.Sncrd < p.Snmaxd) : p.C < 0 :=
  landC_negative l p hC h1 h2

end killough5

section killough5Examples
open OpmVerif.HystFull

/-- the repro deck's cell 0 as numbers (gas-oil, Swl 0.2): drainage `krg` 0.529 at the reversal
`Sg = 0.75`, maximum 0.575, imbibition curve 0.8 at `Snmaxd = 1`: the scanning curve starts at
`0.529·0.8/0.575 ≠ 0.529` — the curves do not meet, so by `killough_krn_scan_start` no continuous start -/
def ex5Laws : Laws ℚ :=
  { krwD := fun s => s, krnD := fun s => if s ≤ 0 then 575 / 1000 else 529 / 1000, pcD := fun _ => 0, krwI := fun s => s,
    krnI := fun s => if s ≤ 0 then 8 / 10 else max 0 ((1 / 2 - s) * 8 / 5), pcI := fun _ => 0, krnIInv := fun k => k }
def ex5Static : HystFull.Static ℚ :=
  { exStatic with ow := false, Sncrd := 4 / 10, Sncri := 5 / 10, Snmaxd := 1, KrndMax := 575 / 1000 }
def ex5State : HystFull.State ℚ :=
  { pcMdc := 2, pcMic := 1, initialImb := false, krnMdc := 5 / 100, krwMdc := 0, KrndHy := 529 / 1000, KrwdHy := 0,
    delta := 0, Sncrt := 498 / 1000, Swcrt := 0, Krwd_sncrt := 0 }
example : krnScan ex5Laws ex5Static ex5State ex5State.krnMdc = 529 / 1000 / (575 / 1000) * (8 / 10) ∧
    ¬ (krnScan ex5Laws ex5Static ex5State ex5State.krnMdc = ex5Laws.krnD ex5State.krnMdc) := by
  have h := killough_krn_scan_start ex5Laws ex5Static ex5State (by norm_num [ex5State, ex5Laws])
    (by norm_num [ex5State]) (by norm_num [ex5Static]) (by norm_num [ex5State, ex5Laws])
  refine ⟨by rw [h.1]; norm_num [ex5State, ex5Static, ex5Laws], ?_⟩
  rw [h.2]; norm_num [ex5Static, ex5Laws]
/-- hypotheses of the monotonicity / bound theorems: the imbibition curve above is antitone -/
example (sw : ℚ) (h1 : ex5State.krnMdc ≤ sw) :
    krnScan ex5Laws ex5Static ex5State sw ≤ 529 / 1000 / (575 / 1000) * (8 / 10) := by
  have hmono : ∀ x y : ℚ, x ≤ y → ex5Laws.krnI y ≤ ex5Laws.krnI x := by
    intro x y hxy
    simp only [ex5Laws]
    by_cases hy : y ≤ 0
    · have hx : x ≤ 0 := le_trans hxy hy
      simp [hx, hy]
    · by_cases hx : x ≤ 0
      · simp only [hx, hy, if_true, if_false]
        apply max_le (by norm_num)
        have hy2 := not_le.mp hy; linarith
      · simp only [hx, hy, if_false]
        exact max_le_max (le_refl _) (by linarith)
  have := (killough_krn_scan_bound ex5Laws ex5Static ex5State sw (by norm_num [ex5State, ex5Laws])
    (by norm_num [ex5State, ex5Laws]) (by norm_num [ex5Static]) (by norm_num [ex5Static]) (by norm_num [ex5State]) h1 hmono).1
  simpa [ex5State, ex5Static, ex5Laws] using this
/-- repro deck cell 1: imbibition critical saturation 0.25 below the drainage one 0.4: `C < 0` -/
def ex5Neg : HystFull.Static ℚ := { exStatic with Sncrd := 4 / 10, Sncri := 25 / 100, Snmaxd := 1, C := 1 / (25 / 100 - 4 / 10 + 1 / 1000000000000) - 1 / (1 - 4 / 10) }
example : ex5Neg.C < 0 :=
  killough_land_constant_negative exLits ex5Neg (by norm_num [ex5Neg, exLits]) (by norm_num [ex5Neg, exLits]) (by norm_num [ex5Neg])

end killough5Examples

/-! ## Fifth round — KRORW / KRORG are the same in both keyword families -/

section kror5

/-- `TableColumn::lookup` + `eval` honour the table at every node of a strictly increasing saturation
column (both end shortcuts and the bisection with weight 0). -/
theorem scanner_lookup_node {sat : List K} (kr : List K) (hs : StrictInc sat) {j : Nat} (hj : j < sat.length) :
    lookupEval sat kr (nth sat j) = nth kr j :=
  lookupEval_node kr hs hj

/-- **family_equiv, the last two end-points**: the family II tables of the same curves give the same
KRORW (SGOF starting at `Sg = 0`, so that `SWCR + SGL` is a node) and the same KRORG (gas table on
the water table's nodes) as SWOF/SGOF: the oil relperm at the critical water / gas saturation, read
by `lookupEval` on the *reversed* oil column in family II. All table lengths. -/
theorem family_equiv_kror (a : Fam1 K) (tol : K) (hsh : Shared a) (hsg0 : front a.sg = 0)
    (hs : StrictInc a.sw) (hsg : StrictInc a.sg)
    (hlw : a.krow.length = a.sw.length) (hlk : a.krw.length = a.sw.length)
    (hlg : a.krog.length = a.sg.length) (hlkg : a.krg.length = a.sg.length)
    (hn : 0 < a.sw.length) (hng : 0 < a.sg.length) :
    (unscaledInfo2 (toFam2 a) tol).Krorw = (unscaledInfo1 a tol).Krorw ∧
    (unscaledInfo2 (toFam2 a) tol).Krorg = (unscaledInfo1 a tol).Krorg :=
  ⟨family_equiv_krorw a tol hsg0 hs hlw hlk hn, family_equiv_krorg a tol hsh hsg hlg hlkg hng⟩

/-- a four-node SWOF/SGOF pair on shared nodes satisfies the hypotheses -/
example : (unscaledInfo2 (toFam2 OpmVerif.SatDeck.exTab) 0).Krorw = (unscaledInfo1 OpmVerif.SatDeck.exTab 0).Krorw ∧
    (unscaledInfo2 (toFam2 OpmVerif.SatDeck.exTab) 0).Krorg = (unscaledInfo1 OpmVerif.SatDeck.exTab 0).Krorg :=
  family_equiv_kror OpmVerif.SatDeck.exTab 0 (by norm_num [Shared, OpmVerif.SatDeck.exTab, nth])
    (by simp [OpmVerif.SatDeck.exTab, front, nth])
    (strictInc_of_pairwise (by norm_num [OpmVerif.SatDeck.exTab])) (strictInc_of_pairwise (by norm_num [OpmVerif.SatDeck.exTab]))
    rfl rfl rfl rfl (by simp [OpmVerif.SatDeck.exTab]) (by simp [OpmVerif.SatDeck.exTab])
example : lookupEval ([1 / 4, 1 / 2, 3 / 4, 1] : List ℚ) [1, 1 / 2, 1 / 4, 0] (3 / 4) = 1 / 4 :=
  scanner_lookup_node (sat := [1 / 4, 1 / 2, 3 / 4, 1]) [1, 1 / 2, 1 / 4, 0] (strictInc_of_pairwise (by norm_num)) (j := 2) (by simp)

end kror5

end OpmVerif.Props.C15
