/-
  C15 — Saturation functions honour tables, end-point scaling and hysteresis rules.

  Over an arbitrary linearly ordered field `K`; tables of any length ≥ 2, any scaling points,
  any saturation history.  Table lookup = `PiecewiseLinearTwoPhaseMaterial` (own search code,
  constant extension), whose segment formula is the one of C14's `Tabulated1DFunction`, so the
  per-segment lemmas of C14 are instantiated.  Killough (kr models 2–4), WAG and capillary
  pressure hysteresis, family I/II conversion and the three-phase combination are not covered
  by theorems (see design.d/C15.md).
-/
import Mathlib.Tactic.NormNum
import Mathlib.Algebra.Order.Field.Rat
import OpmVerif.Proofs.Satfunc

namespace OpmVerif.Props.C15
open OpmVerif.Tab1D OpmVerif.Eps OpmVerif.Hyst

variable {K : Type} [Field K] [LinearOrder K] [IsStrictOrderedRing K]

/-! ## Tables -/

/-- Every tabulated value is returned at its node. -/
theorem table_node {xs ys : List K} (hs : StrictInc xs) (hn : 2 ≤ xs.length) (hl : ys.length = xs.length)
    (k : Nat) (hk : k < xs.length) : plAsc xs ys (nth xs k) = nth ys k :=
  plAsc_node hs hn hl k hk

/-- Inside the table the lookup evaluates a segment containing the argument and the value lies
between the two neighbouring tabulated values. -/
theorem table_between {xs : List K} (ys : List K) (hs : StrictInc xs) (hn : 2 ≤ xs.length) (x : K)
    (h0 : nth xs 0 < x) (h1 : x < nth xs (xs.length - 1)) :
    ∃ i, i + 1 < xs.length ∧ nth xs i < x ∧ x ≤ nth xs (i + 1) ∧
      min (nth ys i) (nth ys (i + 1)) ≤ plAsc xs ys x ∧ plAsc xs ys x ≤ max (nth ys i) (nth ys (i + 1)) :=
  plAsc_between ys hs hn x h0 h1

/-- Outside the table the first resp. last tabulated value is returned. -/
theorem table_constant_outside (xs ys : List K) (x : K) :
    (x ≤ nth xs 0 → plAsc xs ys x = nth ys 0) ∧
    (nth xs 0 < x → nth xs (xs.length - 1) ≤ x → plAsc xs ys x = nth ys (ys.length - 1)) :=
  plAsc_outside xs ys x

/-- For a monotone column the value stays in `[ys[0], ys.last]` for every argument: relative
permeabilities stay in `[0, max]`. -/
theorem table_range {xs ys : List K} (hs : StrictInc xs) (hn : 2 ≤ xs.length) (hl : ys.length = xs.length)
    (hm : MonoInc ys) (x : K) : nth ys 0 ≤ plAsc xs ys x ∧ plAsc xs ys x ≤ nth ys (ys.length - 1) :=
  plAsc_range hs hn hl hm x

/-- The bisection of `findSegmentIndex_` (loop invariant, any table length). -/
theorem table_search_invariant (xs : List K) (x : K) (fuel lo hi : Nat) (h : lo < hi) (hf : hi - lo ≤ fuel)
    (h1 : nth xs lo < x) (h2 : x ≤ nth xs hi) :
    lo ≤ bisectAsc xs x fuel lo hi ∧ bisectAsc xs x fuel lo hi + 1 ≤ hi ∧
    nth xs (bisectAsc xs x fuel lo hi) < x ∧ x ≤ nth xs (bisectAsc xs x fuel lo hi + 1) :=
  bisectAsc_spec xs x fuel lo hi h hf h1 h2

/-! ## End-point scaling -/

/-- Two-point scaling maps the scaled end-points onto the table's end-points. -/
theorem twopoint_endpoints (u sc : Pts K) (h : sc.p0 ≠ sc.p2) :
    s2uTwo sc.p0 u sc = u.p0 ∧ s2uTwo sc.p2 u sc = u.p2 :=
  Eps.twopoint_endpoints u sc h

/-- … and is monotone. -/
theorem twopoint_monotone (u sc : Pts K) (hs : sc.p0 < sc.p2) (hu : u.p0 ≤ u.p2) {s s' : K} (h : s ≤ s') :
    s2uTwo s u sc ≤ s2uTwo s' u sc :=
  Eps.twopoint_monotone u sc hs hu h

/-- Three-point scaling maps all three scaled points onto the table's points and is clamped
outside `[sL, sU]`. -/
theorem threepoint_endpoints (u sc : Pts K) (h01 : sc.p0 < sc.p1) (h12 : sc.p1 < sc.p2)
    (u01 : u.p0 ≤ u.p1) (u12 : u.p1 ≤ u.p2) :
    s2uThree sc.p0 u sc = u.p0 ∧ s2uThree sc.p1 u sc = u.p1 ∧ s2uThree sc.p2 u sc = u.p2 ∧
    (∀ s, s ≤ sc.p0 → s2uThree s u sc = u.p0) ∧ (∀ s, sc.p2 ≤ s → s2uThree s u sc = u.p2) :=
  Eps.threepoint_endpoints u sc h01 h12 u01 u12

/-- The three-point image always lies in `[uL, uU]`. -/
theorem threepoint_clamped (u sc : Pts K) (h01 : sc.p0 < sc.p1) (h12 : sc.p1 < sc.p2)
    (u01 : u.p0 ≤ u.p1) (u12 : u.p1 ≤ u.p2) (s : K) :
    u.p0 ≤ s2uThree s u sc ∧ s2uThree s u sc ≤ u.p2 :=
  Eps.threepoint_clamped u sc h01 h12 u01 u12 s

/-- Identity scaling, horizontal: with the table's own points the two-point mapping is the
identity everywhere, the three-point mapping on `[sL, sU]`. -/
theorem scaling_identity_saturation (u : Pts K) (h01 : u.p0 < u.p1) (h12 : u.p1 < u.p2) (s : K) :
    s2uTwo s u u = s ∧ (u.p0 ≤ s → s ≤ u.p2 → s2uThree s u u = s) :=
  ⟨twopoint_identity u (ne_of_lt (lt_trans h01 h12)) s, threepoint_identity u h01 h12 s⟩

/-- Identity scaling, complete: scaled points = table points ⇒ the scaled krw is the table's
krw on `[sL, sU]`, for every combination of the scaling switches (two- or three-point horizontal,
pure / three-point vertical), in the normal case `0 < KRWR < KRW`. -/
theorem scaling_identity_krw (c : Config) (t : PLParams K) (u : Points K) (sw : K)
    (h01 : u.satKrw.p0 < u.satKrw.p1) (h12 : u.satKrw.p1 < u.satKrw.p2)
    (hlo : u.satKrw.p0 ≤ sw) (hhi : sw ≤ u.satKrw.p2)
    (h0 : u.krwr ≠ 0) (h1 : u.krwr < u.maxKrw) (hm : u.maxKrw ≠ 0) :
    epsKrw c t u u sw = t.krwAt sw :=
  eps_identity_krw c t u sw h01 h12 hlo hhi h0 h1 hm

theorem scaling_identity_krn (c : Config) (t : PLParams K) (u : Points K) (sw : K)
    (h01 : u.satKrn.p0 < u.satKrn.p1) (h12 : u.satKrn.p1 < u.satKrn.p2)
    (hlo : u.satKrn.p0 ≤ sw) (hhi : sw ≤ u.satKrn.p2)
    (h0 : u.krnr ≠ 0) (h1 : u.krnr < u.maxKrn) (hm : u.maxKrn ≠ 0) :
    epsKrn c t u u sw = t.krnAt sw :=
  eps_identity_krn c t u sw h01 h12 hlo hhi h0 h1 hm

theorem scaling_identity_pc (c : Config) (u : Points K) (pc : K) (hl : c.leverett = false) :
    vertPc c u u pc = pc :=
  vertPc_identity c u pc hl

/-- `unscaledToScaledSat ∘ scaledToUnscaledSat = id` and vice versa (two-point, non-degenerate
point sets). -/
theorem unscaled_scaled_inverse (u sc : Pts K) (hu : u.p0 ≠ u.p2) (hs : sc.p0 ≠ sc.p2) (s : K) :
    u2sTwo (s2uTwo s u sc) u sc = s ∧ s2uTwo (u2sTwo s u sc) u sc = s :=
  twopoint_inverse u sc hu hs s

/-! ## Hysteresis (Carlson) -/

/-- After any saturation history `krnSwMdc` is the minimum of its start value and the history. -/
theorem hyst_invariant (c : Curves K) (h : List K) (st : State K) :
    (run c st h).mdc = h.foldl min st.mdc ∧
    (run c st h).mdc ≤ st.mdc ∧ ∀ s ∈ h, (run c st h).mdc ≤ s := by
  rw [run_mdc]
  exact ⟨rfl, foldl_min_le h st.mdc⟩

/-- `deltaSwImbKrn` is always up to date: `KrnInv_imb(Krn_drain(SwMdc)) − SwMdc`. -/
theorem hyst_delta_consistent (c : Curves K) (start : K) (h : List K) :
    Consistent c (run c (init c start) h) :=
  run_consistent c h _ (init_consistent c start)

/-- The non-wetting relative permeability follows the drainage curve until the saturation
first reverses. -/
theorem hyst_drainage_until_reversal (c : Curves K) (st : State K) (h : List K) (sw : K)
    (hsw : sw ≤ st.mdc) (hall : ∀ s ∈ h, sw ≤ s) :
    krn c (run c st h) sw = c.krnD sw :=
  drainage_until_reversal c st h sw hsw hall

/-- The scanning curve starts on the drainage curve at the reversal point, provided the
imbibition curve is inverted correctly there (explicit hypothesis; true for a strictly
monotone imbibition table whose range contains the drainage value). -/
theorem hyst_scan_continuous (c : Curves K) (st : State K) (hc : Consistent c st)
    (hinv : c.krnI (c.krnIInv (c.krnD st.mdc)) = c.krnD st.mdc) :
    c.krnI (st.mdc + st.delta) = c.krnD st.mdc ∧ krn c st st.mdc = c.krnD st.mdc :=
  scan_continuous c st hc hinv

/-- Carlson with identical drainage and imbibition curves changes nothing, for every history. -/
theorem carlson_identity (f fInv : K → K) (start : K) (h : List K)
    (hinv : ∀ s, s = start ∨ s ∈ h → fInv (f s) = s) (sw : K) :
    krn ⟨f, f, fInv⟩ (run ⟨f, f, fInv⟩ (init ⟨f, f, fInv⟩ start) h) sw = f sw :=
  carlson_identity_history f fInv start h hinv sw

/-! ## Non-vacuity -/

example : plAsc ([2 / 10, 5 / 10, 1] : List ℚ) [0, 3 / 10, 1] (5 / 10) = 3 / 10 := by
  have h := table_node (xs := ([2 / 10, 5 / 10, 1] : List ℚ)) (ys := [0, 3 / 10, 1])
    (strictInc_three (by norm_num) (by norm_num)) (by simp) rfl 1 (by simp)
  simpa [nth] using h
example : s2uTwo (3 / 10 : ℚ) ⟨2 / 10, 4 / 10, 1⟩ ⟨3 / 10, 5 / 10, 9 / 10⟩ = 2 / 10 :=
  (twopoint_endpoints ⟨2 / 10, 4 / 10, 1⟩ ⟨3 / 10, 5 / 10, 9 / 10⟩ (by norm_num)).1
example : s2uThree (5 / 10 : ℚ) ⟨2 / 10, 4 / 10, 1⟩ ⟨3 / 10, 5 / 10, 9 / 10⟩ = 4 / 10 :=
  (threepoint_endpoints ⟨2 / 10, 4 / 10, 1⟩ ⟨3 / 10, 5 / 10, 9 / 10⟩ (by norm_num) (by norm_num) (by norm_num) (by norm_num)).2.1
/-- a history with a reversal: 0.8, 0.5, 0.7 — the minimum 0.5 is kept -/
example (c : Curves ℚ) : (run c (init c 2) [8 / 10, 5 / 10, 7 / 10]).mdc = 5 / 10 := by
  rw [(hyst_invariant c _ _).1]; simp [init, refresh]; norm_num
/-- identical, invertible curves: `f s = 1 - s` -/
example (sw : ℚ) : krn ⟨fun s => 1 - s, fun s => 1 - s, fun y => 1 - y⟩
    (run ⟨fun s => 1 - s, fun s => 1 - s, fun y => 1 - y⟩ (init ⟨fun s => 1 - s, fun s => 1 - s, fun y => 1 - y⟩ 2) [8 / 10, 5 / 10, 7 / 10]) sw = 1 - sw :=
  carlson_identity (fun s => 1 - s) (fun y => 1 - y) 2 _ (by intro s _; ring) sw

end OpmVerif.Props.C15
