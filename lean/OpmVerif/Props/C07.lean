/-
  C07 — Eclipse array files round-trip and conform to the published on-disk layout.

  Only property statements, their one-line proofs from `Proofs/EclBin.lean`, and
  non-vacuity examples.  Quantifiers: every list of arrays, every element type
  (INTE, REAL, DOUB, LOGI, CHAR, C0nn with 1 ≤ nn ≤ 999, MESS), every length
  below 2^31, every element value (elements are the raw on-disk byte strings).
-/
import OpmVerif.Proofs.EclBin
import OpmVerif.Proofs.EclFmt
import OpmVerif.Proofs.EclFmtFile
import OpmVerif.Proofs.FmtReal
import OpmVerif.Proofs.FmtRealFile
import OpmVerif.Proofs.EclFmtSpec
import OpmVerif.Proofs.Strtod

namespace OpmVerif.Props.C07
open OpmVerif.Ecl

/-- Unformatted write → read is the identity on names, types, lengths and every
element bit, for every sequence of well-formed arrays. -/
theorem roundtrip_unformatted (as : List Arr) (h : ∀ a ∈ as, a.WF) :
    decodeFile (encodeFile as) = .ok as :=
  decodeFile_encodeFile as h

/-- The size arithmetic used for seeking (`sizeOnDiskBinary`) equals the number
of bytes the writer emits for the data part, for every type and length. -/
theorem seek_arithmetic_agrees {t : ArrType} (hm : t ≠ .mess) (hv : ValidTy t) (es : List Bytes)
    (hes : ∀ e ∈ es, e.length = elemSize t) :
    sizeOnDiskBinary (es.length : Int) t = some (encodeData t es).length :=
  sizeOnDisk_eq hm hv es hes

/-- The index built by skipping is the true one: entry i points at the first
data byte of array i. -/
theorem index_positions_true (as : List Arr) (pre : Bytes) (h : ∀ a ∈ as, a.WF) :
    indexFile (pre ++ encodeFile as) (as.length + 1) pre.length =
      .ok (expectedIndex pre.length as) :=
  indexFile_encodeFile as pre _ h (by omega)

/-- The bytes the writer emits are exactly the published layout: a 16-byte
header in a Fortran record (equal big-endian head and tail length), then
records of at most 1000 numeric or 105 string elements, all but the last full. -/
theorem layout_conforms (a : Arr) (h : a.WF) :
    encodeArr a = specLayout a (specPerRecord a.ty) :=
  encodeArr_eq_spec a h

/-- The per-record limits used by the writer are the published ones. -/
theorem record_limits {t : ArrType} (hm : t ≠ .mess) (hv : ValidTy t) :
    maxNum t = specPerRecord t :=
  maxNum_eq_spec hm hv

/-- Formatted files, numeric types (INTE, REAL, DOUB, LOGI): the size arithmetic used for seeking
(`sizeOnDiskFormatted`) equals the number of characters `writeFormattedArray` emits for the data
part — fixed-width columns, a line break after every `nColumns` values and at every 1000-value
block — for every length.  The fields themselves (digits from `snprintf`) are inputs. -/
theorem seek_arithmetic_agrees_formatted_numeric (t : ArrType) (hm : t ≠ .mess)
    (fs : List (List Char)) (hw : ∀ f ∈ fs, f.length = (EclFmt.fmtParams t).2.2) :
    (EclFmt.numericBody t fs).length = EclFmt.sizeOnDiskFormatted fs.length t :=
  EclFmt.numericBody_length t hm (EclFmt.fmtParams_pos t hm).1 (EclFmt.fmtParams_pos t hm).2 fs hw

/-- Formatted files, string types (CHAR, C0nn of any element size): the same for
`writeFormattedCharArray` (blocks of 105 elements, `max 1 (80/(size+3))` columns). -/
theorem seek_arithmetic_agrees_formatted_string (t : ArrType) (hm : t ≠ .mess)
    (fs : List (List Char)) (hw : ∀ f ∈ fs, f.length = (EclFmt.fmtParams t).2.2) :
    (EclFmt.stringBody t fs).length = EclFmt.sizeOnDiskFormatted fs.length t :=
  EclFmt.stringBody_length t hm (EclFmt.fmtParams_pos t hm).1 (EclFmt.fmtParams_pos t hm).2 fs hw

/-- **Published formatted layout** ("fixed-width text columns, sub-blocks of at most 1000 numeric
or 105 string elements"): the text both formatted writers produce for the data part is, for
every type and every number of fields, the fields in order with a line break after field `i`
exactly when it is the `cols`-th field of a line inside its block of `mb` fields, the last field
of a block, or the last field of the array (`EclFmt.nlAfter`) — so a reader that knows only this
rule and the column widths agrees with the writer.  The numeric writer (one counter with a
reset) and the string writer (nested block loop) are two different pieces of code; both
conform to the same rule. -/
theorem formatted_layout_conforms_numeric (t : ArrType) (hm : t ≠ .mess) (fs : List (List Char)) :
    EclFmt.numericBody t fs =
      EclFmt.specLayout (EclFmt.fmtParams t).1 (EclFmt.fmtParams t).2.1 fs.length 0 fs :=
  EclFmt.numericBody_eq_spec t hm fs

theorem formatted_layout_conforms_string (t : ArrType) (hm : t ≠ .mess) (fs : List (List Char)) :
    EclFmt.stringBody t fs =
      EclFmt.specLayout (EclFmt.fmtParams t).1 (EclFmt.fmtParams t).2.1 fs.length 0 fs :=
  EclFmt.stringBody_eq_spec t hm fs

example : EclFmt.nlAfter 1000 6 2003 5 ∧ ¬ EclFmt.nlAfter 1000 6 2003 6 ∧ EclFmt.nlAfter 1000 6 2003 999 ∧
    EclFmt.nlAfter 1000 6 2003 1005 ∧ EclFmt.nlAfter 1000 6 2003 2002 := by decide

/-- **Formatted write → read**: any sequence of well-formed arrays (any number, every type,
every length below 2^31 — block and line boundaries included) written by the formatted writer
(`writeFormattedHeader`, `writeFormattedArray`, `writeFormattedCharArray`) is read back by the
formatted reader (`EclFile::load` index by `sizeOnDiskFormatted`, `readFormattedHeader`,
`readFormattedArray` tokens, `std::stoi`, `readFormattedLogiArray`, `readFormattedCharArray`)
with the same names and types, integers and booleans exact, strings without their trailing
blanks, and for REAL/DOUB exactly the rendered fields handed to `strtod` (the digits
themselves are `snprintf`/`strtod`: not modelled here, compared bit-exactly by the
correspondence through `Model/Strtod.lean`). -/
theorem roundtrip_formatted (as : List EclFmt.FArr) (h : ∀ a ∈ as, a.WF) :
    ∃ ds, EclFmt.decodeFmtFile (EclFmt.encodeFmtFile as) = some ds ∧
      EclFmt.All2 EclFmt.EntryRel as ds :=
  EclFmt.formatted_roundtrip as h

/-- Strings come back exactly when they carry no trailing blank (the reader trims). -/
theorem formatted_string_exact (v : List Char) (h : EclFmt.NoTrail v) : EclFmt.trimr v = v :=
  EclFmt.trimr_noTrail v h

/-- Formatted INTE on its own, with anything behind the array (the reader's buffer holds one
byte more than the array): every `int` value, every length. -/
theorem formatted_inte_exact (xs : List Int) (hx : ∀ x ∈ xs, EclFmt.InInt32 x) (tail : List Char) :
    EclFmt.parseData .inte xs.length (EclFmt.numericBody .inte (xs.map EclFmt.intField) ++ tail) =
      some (.inte xs) :=
  EclFmt.inte_roundtrip xs hx tail

/-- The formatted header line is parsed back, whatever follows it. -/
theorem formatted_header_roundtrip (name : List Char) (n : Nat) (t : ArrType) (hname : EclFmt.NameOk name)
    (hn : n < 2147483648) (ht : EclFmt.TyOk t) (rest : List Char) :
    EclFmt.parseHeaderLine ((EclFmt.fmtHeader name n t ++ rest).takeWhile (· ≠ '\n')) =
        some (name, (n : Int), t) ∧
      ((EclFmt.fmtHeader name n t ++ rest).dropWhile (· ≠ '\n')).drop 1 = rest :=
  EclFmt.header_roundtrip name n t hname hn ht rest

/-- Formatted DOUB, writer side: on the text `snprintf("%19.13E")` prints for a finite
non-zero value — sign, `d0.d1…d13`, `E`, exponent of two or three digits — the string
`make_doub_string_ecl` builds with its `substr`/`stoi` arithmetic is `[-]0.d0d1…d13` followed by
`D±xx` when the new exponent has two digits and by `±xxx` (no letter) when it has three. -/
theorem formatted_doub_string_of_snprintf (s : FmtReal.Sci) (h : FmtReal.SciOk 13 s) :
    FmtReal.makeDoubEcl s.neg (FmtReal.sciText s) = some (FmtReal.eclDoub s) :=
  FmtReal.makeDoubEcl_sciText s h

/-- … and the REAL one (`%10.7E`, always with the letter `E`). -/
theorem formatted_real_string_of_snprintf (s : FmtReal.Sci) (h : FmtReal.SciOk 7 s) (h2 : s.exp.natAbs < 99) :
    FmtReal.makeRealEcl s.neg (FmtReal.sciText s) = some (FmtReal.eclReal s) :=
  FmtReal.makeRealEcl_sciText s h h2

/-- The DOUB string always fits its 23-character column with at least two leading blanks and
contains no blank: the field is one token for the reader and the seek arithmetic applies. -/
theorem formatted_doub_field_shape (s : FmtReal.Sci) (h : FmtReal.SciOk 13 s) :
    EclFmt.GoodField (FmtReal.doubField (FmtReal.eclDoub s)) ∧
      EclFmt.dropSp (FmtReal.doubField (FmtReal.eclDoub s)) = FmtReal.eclDoub s ∧
      (FmtReal.doubField (FmtReal.eclDoub s)).length = Gen.EclIO.columnWidthDoub :=
  FmtReal.doubField_good s h

/-- **Formatted DOUB to printed precision**: every element of a formatted DOUB array (ECL
flavour, any length, any position in a line or block, last element in front of the next header
or of the end of the file) reaches `strtod` as exactly the decimal number `snprintf` printed —
`±d0d1…d13·10^(e-13)` — after the reader's `D`→`E` rewriting or, for three-digit exponents,
its insertion of the missing `E`.  What remains outside the theorem is libc: that `snprintf`
prints the 14-digit rounding of the value and `strtod` rounds correctly (the latter is modelled
exactly in `Model/Strtod.lean` and compared bit for bit). -/
theorem formatted_doub_value_printed_precision (scis : List FmtReal.Sci) (h : ∀ s ∈ scis, FmtReal.SciOk 13 s)
    (tail : List Char) (ht : FmtReal.PlainExtra ('\n' :: EclFmt.tokOf tail)) :
    ∃ toks, EclFmt.parseData .doub scis.length
        (EclFmt.numericBody .doub (scis.map fun s => FmtReal.doubField (FmtReal.eclDoub s)) ++ tail) =
          some (.toks toks) ∧
      toks.map FmtReal.tokenNumber = scis.map FmtReal.sciNumber :=
  FmtReal.doub_array_numbers scis h tail ht

/-- **Formatted REAL to printed precision** (ECL flavour; a `float`'s decimal exponent is at
most 45 in absolute value): every element of a REAL array reaches `std::stod` as exactly the
8-digit decimal `snprintf` printed, `±d0…d7·10^(e-7)`. -/
theorem formatted_real_value_printed_precision (scis : List FmtReal.Sci)
    (h : ∀ s ∈ scis, FmtReal.SciOk 7 s ∧ s.exp.natAbs < 98) (tail : List Char)
    (ht : FmtReal.PlainExtra ('\n' :: EclFmt.tokOf tail)) :
    ∃ toks, EclFmt.parseData .real scis.length
        (EclFmt.numericBody .real (scis.map fun s => FmtReal.realField (FmtReal.eclReal s)) ++ tail) =
          some (.toks toks) ∧
      toks.map FmtReal.tokenNumber = scis.map FmtReal.sciNumberReal :=
  FmtReal.real_array_numbers scis h tail ht

/-- The same end to end inside a file: the entry the index builds for a DOUB array (buffer of
`sizeOnDiskFormatted + 1` characters, NUL padded at the end of the file), whatever arrays
follow it or none, yields exactly the printed numbers. -/
theorem formatted_doub_in_file (a : EclFmt.FArr) (scis : List FmtReal.Sci) (hs : ∀ s ∈ scis, FmtReal.SciOk 13 s)
    (ht : a.t = .doub) (hf : a.fields = scis.map fun s => FmtReal.doubField (FmtReal.eclDoub s))
    (rest : List EclFmt.FArr) (pos : Nat) :
    ∃ toks, EclFmt.loadEntry ⟨a.name, (a.size : Int), a.t,
        EclFmt.padTo (a.body.length + 1) ((a.body ++ EclFmt.encodeFmtFile rest).take (a.body.length + 1)), pos⟩ =
          some (.toks toks) ∧
      toks.map FmtReal.tokenNumber = scis.map FmtReal.sciNumber :=
  FmtReal.doub_entry_numbers a scis hs ht hf rest pos

/-- … and for a REAL array inside a file. -/
theorem formatted_real_in_file (a : EclFmt.FArr) (scis : List FmtReal.Sci)
    (hs : ∀ s ∈ scis, FmtReal.SciOk 7 s ∧ s.exp.natAbs < 98)
    (ht : a.t = .real) (hf : a.fields = scis.map fun s => FmtReal.realField (FmtReal.eclReal s))
    (rest : List EclFmt.FArr) (pos : Nat) :
    ∃ toks, EclFmt.loadEntry ⟨a.name, (a.size : Int), a.t,
        EclFmt.padTo (a.body.length + 1) ((a.body ++ EclFmt.encodeFmtFile rest).take (a.body.length + 1)), pos⟩ =
          some (.toks toks) ∧
      toks.map FmtReal.tokenNumber = scis.map FmtReal.sciNumberReal :=
  FmtReal.real_entry_numbers a scis hs ht hf rest pos

/-- IX flavour (`set_ix()`): the column holds the `snprintf` text itself (`d0.d1…dp E±xx`), for
REAL (`p = 7`) and DOUB (`p = 13`); the number `strtod` recognises in the reader's token is the
printed one. -/
theorem formatted_ix_token_value (p : Nat) (s : FmtReal.Sci) (h : FmtReal.SciOk p s) (extra : List Char)
    (hp : FmtReal.PlainExtra extra) :
    Strtod.parseDec (EclFmt.cstr (FmtReal.sciText s ++ extra)) =
      .num s.neg (EclFmt.decVal s.digits) (s.exp - p) (p + 1) :=
  FmtReal.ix_token_value p s h extra hp

/-- **The `strtod` model rounds correctly**: for a positive decimal `num/den` the significand
`q` and exponent offset `eo` that `Model/Strtod.lean` turns into the binary64 bit pattern are
normalised (`q < 2^53`, and `q ≥ 2^52` unless `eo` is the subnormal exponent) and the number
they denote, `q·2^(eo−1074)`, is within half a unit in the last place of `num/den` (stated
without division on the common scale `num·2^1074` vs `den·2^eo`); an exact tie goes to the
even significand.  So the bits the correspondence demands from the real reader are the
correctly rounded ones — what is assumed of libc is that glibc's `strtod` rounds correctly. -/
theorem strtod_model_rounds_correctly (num den : Nat) (hn : 0 < num) (hd : 0 < den) :
    let q := (Strtod.roundCore num den).1
    let eo := (Strtod.roundCore num den).2
    q < 2 ^ 53 ∧ (eo = 0 ∨ 2 ^ 52 ≤ q) ∧
      2 * (num * 2 ^ 1074 - q * (den * 2 ^ eo)) ≤ den * 2 ^ eo ∧
      2 * (q * (den * 2 ^ eo) - num * 2 ^ 1074) ≤ den * 2 ^ eo :=
  Strtod.roundCore_correct num den hn hd

theorem strtod_model_ties_to_even (num den : Nat) (hd : 0 < den)
    (htie : 2 * ((Strtod.scaled num den (Strtod.pickExp num den)).1 %
        (Strtod.scaled num den (Strtod.pickExp num den)).2) =
      (Strtod.scaled num den (Strtod.pickExp num den)).2) :
    (Strtod.roundCore num den).1 % 2 = 0 :=
  Strtod.roundCore_tie_even num den hd htie

/-- the `double → float` step of the REAL reader rounds the significand to the nearest
representable one, ties to even. -/
theorem float_conversion_nearest (q e : Nat) :
    2 * (q - Strtod.roundHalfEven q (2 ^ Strtod.f32Shift e) * 2 ^ Strtod.f32Shift e) ≤ 2 ^ Strtod.f32Shift e ∧
      2 * (Strtod.roundHalfEven q (2 ^ Strtod.f32Shift e) * 2 ^ Strtod.f32Shift e - q) ≤ 2 ^ Strtod.f32Shift e :=
  Strtod.float32_significand_nearest q e

example : Strtod.roundCore 1 10 = (7205759403792794, 1018) := by decide +kernel   -- 0.1 = 0x3FB999999999999A

/-- What follows an array inside a file meets the hypothesis `ht` of the two theorems above:
the blank that starts the next header line, or the NUL padding at the end of the file. -/
theorem formatted_tail_is_plain (r : List Char) :
    FmtReal.PlainExtra ('\n' :: EclFmt.tokOf (' ' :: r)) ∧
      FmtReal.PlainExtra ('\n' :: EclFmt.tokOf [Char.ofNat 0]) :=
  ⟨FmtReal.plain_tail_header r, FmtReal.plain_tail_eof⟩

/-! Non-vacuity: a concrete well-formed two-array file meets the hypotheses and
exercises the block loop. -/

def sciA : FmtReal.Sci := { neg := true, digits := "12345678901234".toList, exp := 100 }
def sciB : FmtReal.Sci := { neg := false, digits := "99999999999999".toList, exp := -5 }

example : FmtReal.SciOk 13 sciA ∧ FmtReal.SciOk 13 sciB :=
  ⟨⟨by decide, by decide, by decide, by decide⟩, ⟨by decide, by decide, by decide, by decide⟩⟩

example : FmtReal.eclDoub sciA = "-0.12345678901234+101".toList ∧
    FmtReal.eclDoub sciB = "0.99999999999999D-04".toList := by decide +kernel

example : FmtReal.tokenNumber (EclFmt.doubNorm (FmtReal.eclDoub sciA ++ ['\n'])) = FmtReal.sciNumber sciA := by
  decide +kernel

def fmtSample : List EclFmt.FArr :=
  [ { name := "INTEHEAD".toList, t := .inte, ints := [1, -2147483648, 2147483647, 0, 5, 6, 7] },
    { name := "LOGIHEAD".toList, t := .logi, bools := [true, false] },
    { name := "NAMES   ".toList, t := .c0nn 10, strs := ["it's".toList, "".toList, "ABCDEFGHIJ".toList] },
    { name := "MSG     ".toList, t := .mess } ]

example : EclFmt.decodeFmtFile (EclFmt.encodeFmtFile fmtSample) =
    some [ ("INTEHEAD".toList, .inte, .inte [1, -2147483648, 2147483647, 0, 5, 6, 7]),
           ("LOGIHEAD".toList, .logi, .logi [true, false]),
           ("NAMES   ".toList, .c0nn 10, .strs ["it's".toList, [], "ABCDEFGHIJ".toList]),
           ("MSG     ".toList, .mess, .mess) ] := by
  decide +kernel

example : EclFmt.NameOk "INTEHEAD".toList ∧ EclFmt.InInt32 (-2147483648) ∧ EclFmt.TyOk (.c0nn 10) :=
  ⟨⟨by decide, by decide⟩, by unfold EclFmt.InInt32; omega, by intro k hk; cases hk; omega⟩

def sampleInte : Arr :=
  { name := [73, 78, 84, 69, 72, 69, 65, 68], ty := .inte,
    elems := [[0, 0, 0, 1], [255, 255, 255, 254], [128, 0, 0, 0]] }

def sampleC0nn : Arr :=
  { name := [78, 65, 77, 69, 32, 32, 32, 32], ty := .c0nn 10,
    elems := [[65, 66, 67, 68, 69, 70, 71, 72, 73, 74]] }

example : ∀ a ∈ [sampleInte, sampleC0nn], a.WF := by
  intro a ha
  simp only [List.mem_cons, List.mem_nil_iff, or_false] at ha
  rcases ha with rfl | rfl <;> simp [Arr.WF, Arr.WFcore, sampleInte, sampleC0nn, ValidTy, elemSize,
    Gen.EclIO.sizeOfInte, elemsOk]

example : (encodeFile [sampleInte, sampleC0nn]).length = 24 + 20 + 24 + 18 := by decide

example : decodeFile (encodeFile [sampleInte, sampleC0nn]) = .ok [sampleInte, sampleC0nn] := by
  decide +kernel

end OpmVerif.Props.C07
