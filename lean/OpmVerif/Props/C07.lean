/-
  C07 — Eclipse array files round-trip and conform to the published on-disk layout.

  Only property statements, their one-line proofs from `Proofs/EclBin.lean`, and
  non-vacuity examples.  Quantifiers: every list of arrays, every element type
  (INTE, REAL, DOUB, LOGI, CHAR, C0nn with 1 ≤ nn ≤ 999, MESS), every length
  below 2^31, every element value (elements are the raw on-disk byte strings).
-/
import OpmVerif.Proofs.EclBin
import OpmVerif.Proofs.EclFmt
import OpmVerif.Proofs.EclFmtFile

namespace OpmVerif.Props.C07
open OpmVerif.Ecl

/-- Unformatted write → read is the identity on names, types, lengths and every
element bit, for every sequence of well-formed arrays. -/
theorem roundtrip_unformatted (as : List Arr) (h : ∀ a ∈ as, a.WF) :
    decodeFile (encodeFile as) = .ok as :=
  decodeFile_encodeFile as h

/-- The size arithmetic used for seeking (`sizeOnDiskBinary`) equals the number
of bytes the writer emits for the data part, for every type and length. -/
theorem seek_arithmetic_agrees {t : ArrType} (hm : t ≠ .mess) (hv : ValidTy t) (es : List Bytes)
    (hes : ∀ e ∈ es, e.length = elemSize t) :
    sizeOnDiskBinary (es.length : Int) t = some (encodeData t es).length :=
  sizeOnDisk_eq hm hv es hes

/-- The index built by skipping is the true one: entry i points at the first
data byte of array i. -/
theorem index_positions_true (as : List Arr) (pre : Bytes) (h : ∀ a ∈ as, a.WF) :
    indexFile (pre ++ encodeFile as) (as.length + 1) pre.length =
      .ok (expectedIndex pre.length as) :=
  indexFile_encodeFile as pre _ h (by omega)

/-- The bytes the writer emits are exactly the published layout: a 16-byte
header in a Fortran record (equal big-endian head and tail length), then
records of at most 1000 numeric or 105 string elements, all but the last full. -/
theorem layout_conforms (a : Arr) (h : a.WF) :
    encodeArr a = specLayout a (specPerRecord a.ty) :=
  encodeArr_eq_spec a h

/-- The per-record limits used by the writer are the published ones. -/
theorem record_limits {t : ArrType} (hm : t ≠ .mess) (hv : ValidTy t) :
    maxNum t = specPerRecord t :=
  maxNum_eq_spec hm hv

/-- Formatted files, numeric types (INTE, REAL, DOUB, LOGI): the size arithmetic used for seeking
(`sizeOnDiskFormatted`) equals the number of characters `writeFormattedArray` emits for the data
part — fixed-width columns, a line break after every `nColumns` values and at every 1000-value
block — for every length.  The fields themselves (digits from `snprintf`) are inputs. -/
theorem seek_arithmetic_agrees_formatted_numeric (t : ArrType) (hm : t ≠ .mess)
    (fs : List (List Char)) (hw : ∀ f ∈ fs, f.length = (EclFmt.fmtParams t).2.2) :
    (EclFmt.numericBody t fs).length = EclFmt.sizeOnDiskFormatted fs.length t :=
  EclFmt.numericBody_length t hm (EclFmt.fmtParams_pos t hm).1 (EclFmt.fmtParams_pos t hm).2 fs hw

/-- Formatted files, string types (CHAR, C0nn of any element size): the same for
`writeFormattedCharArray` (blocks of 105 elements, `max 1 (80/(size+3))` columns). -/
theorem seek_arithmetic_agrees_formatted_string (t : ArrType) (hm : t ≠ .mess)
    (fs : List (List Char)) (hw : ∀ f ∈ fs, f.length = (EclFmt.fmtParams t).2.2) :
    (EclFmt.stringBody t fs).length = EclFmt.sizeOnDiskFormatted fs.length t :=
  EclFmt.stringBody_length t hm (EclFmt.fmtParams_pos t hm).1 (EclFmt.fmtParams_pos t hm).2 fs hw

/-- **Formatted write → read**: any sequence of well-formed arrays (any number, every type,
every length below 2^31 — block and line boundaries included) written by the formatted writer
(`writeFormattedHeader`, `writeFormattedArray`, `writeFormattedCharArray`) is read back by the
formatted reader (`EclFile::load` index by `sizeOnDiskFormatted`, `readFormattedHeader`,
`readFormattedArray` tokens, `std::stoi`, `readFormattedLogiArray`, `readFormattedCharArray`)
with the same names and types, integers and booleans exact, strings without their trailing
blanks, and for REAL/DOUB exactly the rendered fields handed to `strtod` (the digits
themselves are `snprintf`/`strtod`: not modelled here, compared bit-exactly by the
correspondence through `Model/Strtod.lean`). -/
theorem roundtrip_formatted (as : List EclFmt.FArr) (h : ∀ a ∈ as, a.WF) :
    ∃ ds, EclFmt.decodeFmtFile (EclFmt.encodeFmtFile as) = some ds ∧
      EclFmt.All2 EclFmt.EntryRel as ds :=
  EclFmt.formatted_roundtrip as h

/-- Strings come back exactly when they carry no trailing blank (the reader trims). -/
theorem formatted_string_exact (v : List Char) (h : EclFmt.NoTrail v) : EclFmt.trimr v = v :=
  EclFmt.trimr_noTrail v h

/-- Formatted INTE on its own, with anything behind the array (the reader's buffer holds one
byte more than the array): every `int` value, every length. -/
theorem formatted_inte_exact (xs : List Int) (hx : ∀ x ∈ xs, EclFmt.InInt32 x) (tail : List Char) :
    EclFmt.parseData .inte xs.length (EclFmt.numericBody .inte (xs.map EclFmt.intField) ++ tail) =
      some (.inte xs) :=
  EclFmt.inte_roundtrip xs hx tail

/-- The formatted header line is parsed back, whatever follows it. -/
theorem formatted_header_roundtrip (name : List Char) (n : Nat) (t : ArrType) (hname : EclFmt.NameOk name)
    (hn : n < 2147483648) (ht : EclFmt.TyOk t) (rest : List Char) :
    EclFmt.parseHeaderLine ((EclFmt.fmtHeader name n t ++ rest).takeWhile (· ≠ '\n')) =
        some (name, (n : Int), t) ∧
      ((EclFmt.fmtHeader name n t ++ rest).dropWhile (· ≠ '\n')).drop 1 = rest :=
  EclFmt.header_roundtrip name n t hname hn ht rest

/-! Non-vacuity: a concrete well-formed two-array file meets the hypotheses and
exercises the block loop. -/

def fmtSample : List EclFmt.FArr :=
  [ { name := "INTEHEAD".toList, t := .inte, ints := [1, -2147483648, 2147483647, 0, 5, 6, 7] },
    { name := "LOGIHEAD".toList, t := .logi, bools := [true, false] },
    { name := "NAMES   ".toList, t := .c0nn 10, strs := ["it's".toList, "".toList, "ABCDEFGHIJ".toList] },
    { name := "MSG     ".toList, t := .mess } ]

example : EclFmt.decodeFmtFile (EclFmt.encodeFmtFile fmtSample) =
    some [ ("INTEHEAD".toList, .inte, .inte [1, -2147483648, 2147483647, 0, 5, 6, 7]),
           ("LOGIHEAD".toList, .logi, .logi [true, false]),
           ("NAMES   ".toList, .c0nn 10, .strs ["it's".toList, [], "ABCDEFGHIJ".toList]),
           ("MSG     ".toList, .mess, .mess) ] := by
  decide +kernel

example : EclFmt.NameOk "INTEHEAD".toList ∧ EclFmt.InInt32 (-2147483648) ∧ EclFmt.TyOk (.c0nn 10) :=
  ⟨⟨by decide, by decide⟩, by unfold EclFmt.InInt32; omega, by intro k hk; cases hk; omega⟩

def sampleInte : Arr :=
  { name := [73, 78, 84, 69, 72, 69, 65, 68], ty := .inte,
    elems := [[0, 0, 0, 1], [255, 255, 255, 254], [128, 0, 0, 0]] }

def sampleC0nn : Arr :=
  { name := [78, 65, 77, 69, 32, 32, 32, 32], ty := .c0nn 10,
    elems := [[65, 66, 67, 68, 69, 70, 71, 72, 73, 74]] }

example : ∀ a ∈ [sampleInte, sampleC0nn], a.WF := by
  intro a ha
  simp only [List.mem_cons, List.mem_nil_iff, or_false] at ha
  rcases ha with rfl | rfl <;> simp [Arr.WF, Arr.WFcore, sampleInte, sampleC0nn, ValidTy, elemSize,
    Gen.EclIO.sizeOfInte, elemsOk]

example : (encodeFile [sampleInte, sampleC0nn]).length = 24 + 20 + 24 + 18 := by decide

example : decodeFile (encodeFile [sampleInte, sampleC0nn]) = .ok [sampleInte, sampleC0nn] := by
  decide +kernel

end OpmVerif.Props.C07
