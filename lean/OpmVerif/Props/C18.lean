/-
  C18 — ACTIONX conditions evaluate correctly; triggering respects count and wait limits.

  Only property statements, one-line proofs from `Proofs/Action.lean`, non-vacuity examples.
  Quantifiers: every condition tree (any number of comparisons, any nesting), every strict total
  order on well names, sets of any length, every non-decreasing sequence of evaluation times with
  any condition outcomes, any limits.

  Second round: `act_parse_render` (`parse (render c) = c` for every condition tree, with the
  model's own fuel), parser totality and fuel monotonicity.
-/
import OpmVerif.Proofs.Action
import OpmVerif.Proofs.ActionParse

namespace OpmVerif.Props.C18
open OpmVerif.Act

/-- `eval_bool`: whenever every comparison evaluates, the Boolean part of the tree's result is the
truth value of the Boolean expression (AND = conjunction over all children, OR = disjunction). -/
theorem eval_bool (slt : String → String → Bool) (leafEval : CmpOp → Leaf → Leaf → Except Unit (Res String))
    (v : CmpOp → Leaf → Leaf → Bool)
    (hv : ∀ o l r res, leafEval o l r = .ok res → res.ok = v o l r)
    (c : Cond) (res : Res String) (h : evalCond slt leafEval c = .ok res) : res.ok = truth v c :=
  (evalCond_ok slt leafEval v hv).1 c res h

/-- `makeUnion` is ∪ and keeps strict sortedness, for sorted inputs of any length. -/
theorem makeUnion_is_union {β : Type} (lt : β → β → Bool) (st : StrictTotal lt) (xs ys : List β)
    (hx : Sorted lt xs) (hy : Sorted lt ys) :
    (∀ z, z ∈ setUnion lt xs ys ↔ z ∈ xs ∨ z ∈ ys) ∧ Sorted lt (setUnion lt xs ys) :=
  ⟨fun z => mem_setUnion lt st z xs ys, sorted_setUnion lt st xs ys hx hy⟩

/-- `makeIntersection` is ∩ and keeps strict sortedness. -/
theorem makeIntersection_is_inter {β : Type} (lt : β → β → Bool) (st : StrictTotal lt) (xs ys : List β)
    (hx : Sorted lt xs) (hy : Sorted lt ys) :
    (∀ z, z ∈ setInter lt xs ys ↔ z ∈ xs ∧ z ∈ ys) ∧ Sorted lt (setInter lt xs ys) :=
  ⟨fun z => mem_setInter lt st z xs ys hx hy, sorted_setInter lt st xs ys hx hy⟩

/-- `commit` (sort + unique of the matching wells of one comparison) yields a strictly sorted list
with the same members. -/
theorem commit_sorts {β : Type} (lt : β → β → Bool) (st : StrictTotal lt) (l : List β) :
    Sorted lt (commit lt l) ∧ ∀ z, z ∈ commit lt l ↔ z ∈ l :=
  ⟨sorted_commit lt st l, fun z => mem_commit lt st z l⟩

/-- `eval_matches`, AND: if all children are true, the match set is the intersection of the sets
of the children that have one (well-level comparisons); scalar children are neutral; the result has
no set iff no child has one; the set is sorted. -/
theorem eval_matches_and (slt : String → String → Bool) (st : StrictTotal slt) (rs : List (Res String))
    (hok : ∀ r ∈ rs, r.ok = true) (hs : ∀ r ∈ rs, ∀ w, r.wells = some w → Sorted slt w) :
    (foldRes slt true rs).ok = true ∧
    ((foldRes slt true rs).wells = none ↔ ∀ r ∈ rs, r.wells = none) ∧
    (∀ w, (foldRes slt true rs).wells = some w → Sorted slt w ∧
      ∀ z, z ∈ w ↔ ∀ r ∈ rs, ∀ s, r.wells = some s → z ∈ s) := by
  have h := and_matches slt st rs none hok hs (by intro w hw; cases hw)
  simpa [foldRes] using h

/-- AND with a false child is false. -/
theorem eval_matches_and_false (slt : String → String → Bool) (rs : List (Res String))
    (h : rs.any (fun r => !r.ok) = true) : (foldRes slt true rs).ok = false :=
  and_false_clears slt rs h

/-- `eval_matches`, OR: the match set is the union of the sets of the *true* children; false and
scalar children contribute no set. -/
theorem eval_matches_or (slt : String → String → Bool) (st : StrictTotal slt) (a b : Res String) (z : String) :
    z ∈ ((foldRes slt false [a, b]).wells.getD []) ↔
      (a.ok = true ∧ z ∈ a.wells.getD []) ∨ (b.ok = true ∧ z ∈ b.wells.getD []) :=
  or_matches slt st a b z

/-- `run_limits`: drive `ready`/`add_run` over any non-decreasing sequence of evaluation times with
any condition outcomes, from any state whose last run is not in the future: the number of runs
never exceeds what `max_run` leaves, no run is before `start`, the first new run is at least
`min_wait` after the previous one and consecutive runs are at least `min_wait` apart. -/
theorem run_limits (L : Limits) (evs : List (Int × Bool)) (s : RunState)
    (hmono : ∀ i (h : i + 1 < evs.length), (evs[i]'(by omega)).1 ≤ (evs[i+1]'h).1)
    (hlast : s.count > 0 → ∀ e ∈ evs, s.last ≤ e.1) :
    (drive L s evs).length ≤ L.maxRun - s.count ∧
    (∀ t ∈ drive L s evs, L.start ≤ t) ∧
    (∀ t ∈ drive L s evs, s.count > 0 → 0 < L.minWait → L.minWait ≤ t - s.last) ∧
    (0 < L.minWait → ∀ i (h : i + 1 < (drive L s evs).length),
        L.minWait ≤ ((drive L s evs)[i+1]'h) - ((drive L s evs)[i]'(by omega))) :=
  drive_invariant L evs s hmono hlast

/-- `act_parse_render`: print any condition tree `c` of the documented grammar — comparisons
`lhs op rhs` with argument lists, AND binding tighter than OR, one n-ary node per AND chain, OR
chains nesting to the right, parentheses exactly where these ranks demand them — and the model of
`Action::Parser::parse`, run with its OWN fuel `4 * length + 4`, returns exactly `c` and consumes
every token. -/
theorem act_parse_render (c : Cond) (hw : WFC c) :
    parseOr (4 * (render c).length + 4) (render c) = .ok c [] ∧
    (match parse (render c) with | .tree c' => c' = c | _ => False) :=
  OpmVerif.Act.parse_render c hw

/-- The same in any context: the rank-`lvl` parser on the rank-`lvl` print-out of `c` followed by
further tokens returns `c` and leaves exactly these tokens, if they do not start with an operator of
rank `lvl` or tighter (`okRest`), from some fuel on. -/
theorem act_parse_render_in_context (c : Cond) (hw : WFC c) (lvl : Nat) (rest : List Tok) (hl : lvl ≤ 2)
    (ho : okRest lvl rest) :
    ∃ f0, ∀ f, f0 ≤ f → parseAt lvl f (renderAt lvl c ++ rest) = .ok c rest :=
  main_inv.1 c hw lvl rest hl ho

/-- Totality of the condition parser: on EVERY token list, with the fuel `parse` uses, `parse_or`
answers with an error or with a tree and a remainder no longer than the input; the out-of-fuel
outcome is impossible. -/
theorem act_parser_total (ts : List Tok) :
    (parseOr (4 * ts.length + 4) ts = .err ∨
      ∃ c rest, parseOr (4 * ts.length + 4) ts = .ok c rest ∧ rest.length ≤ ts.length) ∧
    (match parse ts with | .fuel => true | _ => false) = false :=
  ⟨parseOr_total ts, parse_ne_fuel ts⟩

/-- Fuel monotonicity: more fuel never changes an answer of `parse_or`. -/
theorem act_parser_fuel_monotone {n m : Nat} {ts : List Tok} {r : PRes} (h : parseOr n ts = r)
    (hr : r ≠ .fuel) (hnm : n ≤ m) : parseOr m ts = r :=
  parseOr_mono h hr hnm

/-! ### Non-vacuity -/

def natLt (a b : Nat) : Bool := decide (a < b)

example : StrictTotal natLt :=
  ⟨fun a => by simp [natLt], fun a b c h1 h2 => by simp [natLt] at *; omega,
   fun a b h1 h2 => by simp [natLt] at *; omega⟩

example : setUnion natLt [1, 3, 5] [2, 3, 6] = [1, 2, 3, 5, 6] := by decide +kernel
example : setInter natLt [1, 3, 5, 6] [2, 3, 6] = [3, 6] := by decide +kernel
example : Sorted natLt [1, 3, 5] := by simp [Sorted, natLt]

/-- max_run 2, min_wait 10, start 5: of the true evaluations at 0, 5, 9, 15, 30 exactly 5 and 15 run -/
example : drive ⟨2, 10, 5⟩ ⟨0, 0⟩ [(0, true), (5, true), (9, true), (15, true), (30, true)] = [5, 15] := by
  decide +kernel

/-- `A OR B AND C` parses as `A OR (B AND C)` -/
example :
    let f : Tok := { ty := .expr, text := "FOPR" }
    let gt : Tok := { ty := .cmp .gt, text := ">" }
    let one : Tok := { ty := .number, text := "1", bits := 0x3ff0000000000000 }
    let cmp := Cond.cmp .gt (.expr "FOPR" 0 []) (.num 0x3ff0000000000000)
    (match parse [f, gt, one, { ty := .or, text := "OR" }, f, gt, one, { ty := .and, text := "AND" }, f, gt, one] with
     | .tree (.or a (.and b c [])) => true
     | _ => false) = true := by
  decide +kernel

/-- `(A OR B) AND C AND (D OR E OR F)` -/
def sampleCond : Cond :=
  let cmp (k : String) : Cond := .cmp .gt (.expr k 1 ["P1"]) (.num 0x3ff0000000000000)
  .and (.or (cmp "WOPR") (cmp "WWCT")) (.cmp .le (.expr "FOPR" 0 []) (.expr "FWPR" 0 []))
    [.or (cmp "WGOR") (.or (cmp "WBHP") (.and (cmp "WTHP") (cmp "WWIR") []))]

example : (render sampleCond).length = 37 := by decide +kernel

example : WFC sampleCond := by
  have h : stripQuotes "P1" = "P1" := by decide +kernel
  simp [sampleCond, WFC, WFC.WFCs, plainArgs, h]

/-- the round trip on the sample, computed by the kernel -/
example : parseOr (4 * 37 + 4) (render sampleCond) = .ok sampleCond [] := by rfl

end OpmVerif.Props.C18
