/-
  C18 — ACTIONX conditions evaluate correctly; triggering respects count and wait limits.

  Only property statements, one-line proofs from `Proofs/Action.lean`, non-vacuity examples.
  Quantifiers: every condition tree (any number of comparisons, any nesting), every strict total
  order on well names, sets of any length, every non-decreasing sequence of evaluation times with
  any condition outcomes, any limits.

  Fifth round: `classify_number_iff` (the number grammar of `Parser::get_type`, both directions, every token),
  `number_literal_value` / `number_value_decimal_partial` (signed decimal literals with fraction and exponent),
  `act_parse_render_tokens` (the round trip for ANY tokens with the right class and fields),
  `act_string_roundtrip` (token STRINGS as the restart reader prints them, lexed by the model's lexer),
  `restart_constant_is_number`, `restart_integer_constant_roundtrip_partial` (`format_double`),
  `number_value_decimal` (no range hypothesis: the cut-offs of `ofDec` are roundings), `glob_bracket_set` / `glob_bracket_negset`.

  Fourth round: `classify_number_partial`, `number_value_digits` (integer literals of any length are number
  tokens; their value is the correctly rounded binary64), the model computes number values itself and
  `globMatch` covers bracket expressions (`Literal` excludes `[`).

  Third round: `eval_matches_tree` (the match set of a WHOLE tree, any nesting), `eval_cmp_leaf`,
  `sim_run_limits` (several actions over report steps refine the single-action machine),
  `sim_not_pending_no_run`, `actions_add_*`, `load_rst_fresh`, `classify_*` (`Parser::get_type`),
  `glob_*` (`fnmatch` patterns of well arguments).

  Second round: `act_parse_render` (`parse (render c) = c` for every condition tree, with the
  model's own fuel), parser totality and fuel monotonicity.
-/
import OpmVerif.Proofs.Action
import OpmVerif.Proofs.ActionParse
import OpmVerif.Proofs.ActionTree
import OpmVerif.Proofs.ActionSim
import OpmVerif.Proofs.ActionNum
import OpmVerif.Proofs.ActionGrammarFwd
import OpmVerif.Proofs.ActionGrammarConv
import OpmVerif.Proofs.ActionNumVal
import OpmVerif.Proofs.ActionParseKit
import OpmVerif.Proofs.ActionString
import OpmVerif.Proofs.ActionFmt
import OpmVerif.Proofs.ActionRestart
import OpmVerif.Proofs.ActionNumFull
import OpmVerif.Proofs.ActionBracket

namespace OpmVerif.Props.C18
open OpmVerif.Act

/-- `eval_bool`: whenever every comparison evaluates, the Boolean part of the tree's result is the
truth value of the Boolean expression (AND = conjunction over all children, OR = disjunction). -/
theorem eval_bool (slt : String → String → Bool) (leafEval : CmpOp → Leaf → Leaf → Except Unit (Res String))
    (v : CmpOp → Leaf → Leaf → Bool)
    (hv : ∀ o l r res, leafEval o l r = .ok res → res.ok = v o l r)
    (c : Cond) (res : Res String) (h : evalCond slt leafEval c = .ok res) : res.ok = truth v c :=
  (evalCond_ok slt leafEval v hv).1 c res h

/-- `makeUnion` is ∪ and keeps strict sortedness, for sorted inputs of any length. -/
theorem makeUnion_is_union {β : Type} (lt : β → β → Bool) (st : StrictTotal lt) (xs ys : List β)
    (hx : Sorted lt xs) (hy : Sorted lt ys) :
    (∀ z, z ∈ setUnion lt xs ys ↔ z ∈ xs ∨ z ∈ ys) ∧ Sorted lt (setUnion lt xs ys) :=
  ⟨fun z => mem_setUnion lt st z xs ys, sorted_setUnion lt st xs ys hx hy⟩

/-- `makeIntersection` is ∩ and keeps strict sortedness. -/
theorem makeIntersection_is_inter {β : Type} (lt : β → β → Bool) (st : StrictTotal lt) (xs ys : List β)
    (hx : Sorted lt xs) (hy : Sorted lt ys) :
    (∀ z, z ∈ setInter lt xs ys ↔ z ∈ xs ∧ z ∈ ys) ∧ Sorted lt (setInter lt xs ys) :=
  ⟨fun z => mem_setInter lt st z xs ys hx hy, sorted_setInter lt st xs ys hx hy⟩

/-- `commit` (sort + unique of the matching wells of one comparison) yields a strictly sorted list
with the same members. -/
theorem commit_sorts {β : Type} (lt : β → β → Bool) (st : StrictTotal lt) (l : List β) :
    Sorted lt (commit lt l) ∧ ∀ z, z ∈ commit lt l ↔ z ∈ l :=
  ⟨sorted_commit lt st l, fun z => mem_commit lt st z l⟩

/-- `eval_matches`, AND: if all children are true, the match set is the intersection of the sets
of the children that have one (well-level comparisons); scalar children are neutral; the result has
no set iff no child has one; the set is sorted. -/
theorem eval_matches_and (slt : String → String → Bool) (st : StrictTotal slt) (rs : List (Res String))
    (hok : ∀ r ∈ rs, r.ok = true) (hs : ∀ r ∈ rs, ∀ w, r.wells = some w → Sorted slt w) :
    (foldRes slt true rs).ok = true ∧
    ((foldRes slt true rs).wells = none ↔ ∀ r ∈ rs, r.wells = none) ∧
    (∀ w, (foldRes slt true rs).wells = some w → Sorted slt w ∧
      ∀ z, z ∈ w ↔ ∀ r ∈ rs, ∀ s, r.wells = some s → z ∈ s) := by
  have h := and_matches slt st rs none hok hs (by intro w hw; cases hw)
  simpa [foldRes] using h

/-- AND with a false child is false. -/
theorem eval_matches_and_false (slt : String → String → Bool) (rs : List (Res String))
    (h : rs.any (fun r => !r.ok) = true) : (foldRes slt true rs).ok = false :=
  and_false_clears slt rs h

/-- `eval_matches`, OR: the match set is the union of the sets of the *true* children; false and
scalar children contribute no set. -/
theorem eval_matches_or (slt : String → String → Bool) (st : StrictTotal slt) (a b : Res String) (z : String) :
    z ∈ ((foldRes slt false [a, b]).wells.getD []) ↔
      (a.ok = true ∧ z ∈ a.wells.getD []) ∨ (b.ok = true ∧ z ∈ b.wells.getD []) :=
  or_matches slt st a b z

/-- `run_limits`: drive `ready`/`add_run` over any non-decreasing sequence of evaluation times with
any condition outcomes, from any state whose last run is not in the future: the number of runs
never exceeds what `max_run` leaves, no run is before `start`, the first new run is at least
`min_wait` after the previous one and consecutive runs are at least `min_wait` apart. -/
theorem run_limits (L : Limits) (evs : List (Int × Bool)) (s : RunState)
    (hmono : ∀ i (h : i + 1 < evs.length), (evs[i]'(by omega)).1 ≤ (evs[i+1]'h).1)
    (hlast : s.count > 0 → ∀ e ∈ evs, s.last ≤ e.1) :
    (drive L s evs).length ≤ L.maxRun - s.count ∧
    (∀ t ∈ drive L s evs, L.start ≤ t) ∧
    (∀ t ∈ drive L s evs, s.count > 0 → 0 < L.minWait → L.minWait ≤ t - s.last) ∧
    (0 < L.minWait → ∀ i (h : i + 1 < (drive L s evs).length),
        L.minWait ≤ ((drive L s evs)[i+1]'h) - ((drive L s evs)[i]'(by omega))) :=
  drive_invariant L evs s hmono hlast

/-- `act_parse_render`: print any condition tree `c` of the documented grammar — comparisons
`lhs op rhs` with argument lists, AND binding tighter than OR, one n-ary node per AND chain, OR
chains nesting to the right, parentheses exactly where these ranks demand them — and the model of
`Action::Parser::parse`, run with its OWN fuel `4 * length + 4`, returns exactly `c` and consumes
every token. -/
theorem act_parse_render (c : Cond) (hw : WFC c) :
    parseOr (4 * (render c).length + 4) (render c) = .ok c [] ∧
    (match parse (render c) with | .tree c' => c' = c | _ => False) :=
  OpmVerif.Act.parse_render c hw

/-- The same in any context: the rank-`lvl` parser on the rank-`lvl` print-out of `c` followed by
further tokens returns `c` and leaves exactly these tokens, if they do not start with an operator of
rank `lvl` or tighter (`okRest`), from some fuel on. -/
theorem act_parse_render_in_context (c : Cond) (hw : WFC c) (lvl : Nat) (rest : List Tok) (hl : lvl ≤ 2)
    (ho : okRest lvl rest) :
    ∃ f0, ∀ f, f0 ≤ f → parseAt lvl f (renderAt lvl c ++ rest) = .ok c rest :=
  main_inv.1 c hw lvl rest hl ho

/-- Totality of the condition parser: on EVERY token list, with the fuel `parse` uses, `parse_or`
answers with an error or with a tree and a remainder no longer than the input; the out-of-fuel
outcome is impossible. -/
theorem act_parser_total (ts : List Tok) :
    (parseOr (4 * ts.length + 4) ts = .err ∨
      ∃ c rest, parseOr (4 * ts.length + 4) ts = .ok c rest ∧ rest.length ≤ ts.length) ∧
    (match parse ts with | .fuel => true | _ => false) = false :=
  ⟨parseOr_total ts, parse_ne_fuel ts⟩

/-- Fuel monotonicity: more fuel never changes an answer of `parse_or`. -/
theorem act_parser_fuel_monotone {n m : Nat} {ts : List Tok} {r : PRes} (h : parseOr n ts = r)
    (hr : r ≠ .fuel) (hnm : n ≤ m) : parseOr m ts = r :=
  parseOr_mono h hr hnm


/-! ## Third round -/

/-- `eval_matches_tree`: for ANY condition tree (any number of comparisons, any nesting of AND / OR),
if every evaluated comparison yields the result `lr` with truth value `v`, no wells when false and a
sorted well list, then `ASTNode::eval` returns (`Agrees`): the truth value of the expression; no wells
when the condition is false; when it is true, a set iff the recursion `specHas` says so (a well-level
comparison; an OR with a TRUE set-carrying operand; an AND with a set-carrying operand) whose members
are exactly `specIn`: union over the true set-carrying operands of every OR, intersection over the
set-carrying operands of every AND — scalar and false sub-conditions contribute no set. -/
theorem eval_matches_tree (slt : String → String → Bool) (st : StrictTotal slt)
    (leafEval : CmpOp → Leaf → Leaf → Except Unit (Res String))
    (lr : CmpOp → Leaf → Leaf → Res String) (v : CmpOp → Leaf → Leaf → Bool)
    (hleaf : ∀ o l r res, leafEval o l r = .ok res →
      res = lr o l r ∧ res.ok = v o l r ∧ (res.ok = false → res.wells.getD [] = []) ∧
      ∀ w, res.wells = some w → Sorted slt w)
    (c : Cond) (res : Res String) (h : evalCond slt leafEval c = .ok res) :
    res.ok = truth v c ∧
    (res.ok = false → res.wells.getD [] = []) ∧
    (res.ok = true → res.wells.isSome = specHas lr v c ∧
      ∀ w, res.wells = some w → Sorted slt w ∧ ∀ z, z ∈ w ↔ specIn lr v z c) :=
  (evalCond_agrees slt st leafEval lr v hleaf).1 c res h

/-- `eval_cmp_leaf`: the results of `Value::eval_cmp` satisfy the leaf hypotheses of
`eval_matches_tree` — a false well-level comparison has an empty set, the set is sorted. -/
theorem eval_cmp_leaf {α : Type} (lt eq : α → α → Bool) (slt : String → String → Bool) (st : StrictTotal slt)
    (op : CmpOp) (a b : Value α) (res : Res String) (h : evalCmp lt eq slt op a b = .ok res) :
    (res.ok = false → res.wells.getD [] = []) ∧ ∀ w, res.wells = some w → Sorted slt w :=
  evalCmp_leaf lt eq slt st op a b res h

/-- `sim_refines_drive`: in a simulation with any number of actions (pairwise distinct identities)
over any report steps, the runs of one action, and its final state, are exactly those of the
single-action machine `drive` fed with that action's own outcomes: `Actions::pending` +
`State::add_run` of the other actions never interfere. -/
theorem sim_refines_drive (acts : List ActDef) (hnd : (acts.map (·.key)).Nodup) (a : ActDef) (ha : a ∈ acts)
    (evs : List (Int × (Key → Bool))) (s : AState) :
    runsOf a.key (sim acts s evs) = drive a.lim (s a.key) (evs.map fun e => (e.1, e.2 a.key)) ∧
    (simState acts s evs) a.key = finalState a.lim (s a.key) (evs.map fun e => (e.1, e.2 a.key)) :=
  sim_proj acts hnd a ha evs s

/-- `sim_run_limits`: over any history of report steps with non-decreasing times and any condition
outcomes of all actions, every action runs at most `max_run` times in total, never before its start,
and never sooner than `min_wait` after its previous run. -/
theorem sim_run_limits (acts : List ActDef) (hnd : (acts.map (·.key)).Nodup) (a : ActDef) (ha : a ∈ acts)
    (evs : List (Int × (Key → Bool))) (s : AState)
    (hmono : ∀ i (h : i + 1 < evs.length), (evs[i]'(by omega)).1 ≤ (evs[i+1]'h).1)
    (hlast : (s a.key).count > 0 → ∀ e ∈ evs, (s a.key).last ≤ e.1) :
    let runs := runsOf a.key (sim acts s evs)
    runs.length ≤ a.lim.maxRun - (s a.key).count ∧
    (∀ t ∈ runs, a.lim.start ≤ t) ∧
    (∀ t ∈ runs, (s a.key).count > 0 → 0 < a.lim.minWait → a.lim.minWait ≤ t - (s a.key).last) ∧
    (0 < a.lim.minWait → ∀ i (h : i + 1 < runs.length), a.lim.minWait ≤ (runs[i+1]'h) - (runs[i]'(by omega))) :=
  OpmVerif.Act.sim_run_limits acts hnd a ha evs s hmono hlast

/-- an action that `Actions::pending` does not list at a report step does not run at it -/
theorem sim_not_pending_no_run (acts : List ActDef) (hnd : (acts.map (·.key)).Nodup) (a : ActDef) (ha : a ∈ acts)
    (s : AState) (t : Int) (oc : Key → Bool) (h : a ∉ pendingA acts s t) :
    runsOf a.key (sim acts s [(t, oc)]) = [] :=
  not_pending_no_run acts hnd a ha s t oc h

/-- `Actions::add` keeps the names pairwise distinct, hence the (name, id) identities `State` is
keyed by (the hypothesis of `sim_run_limits`). -/
theorem actions_add_distinct (acts : List ActDef) (name : String) (lim : Limits)
    (h : (acts.map (·.key.1)).Nodup) :
    ((addAction acts name lim).map (·.key.1)).Nodup ∧ ((addAction acts name lim).map (·.key)).Nodup :=
  ⟨addAction_names acts name lim h, keys_nodup_of_names _ (addAction_names acts name lim h)⟩

/-- `Touched` (runs are recorded only for ids up to the current id of a name) holds for the empty
state and is kept by every simulation and by `Actions::add`; under it a REDEFINED action (same name,
id + 1) starts from run count 0. -/
theorem actions_add_redefine_fresh (acts : List ActDef) (s : AState) (name : String) (lim : Limits)
    (hn : (acts.map (·.key.1)).Nodup) (h : Touched acts s) (a : ActDef) (ha : a ∈ acts) (han : a.key.1 = name) :
    (⟨(name, a.key.2 + 1), lim⟩ : ActDef) ∈ addAction acts name lim ∧ (s (name, a.key.2 + 1)).count = 0 :=
  addAction_redefine_fresh acts s name lim hn h a ha han

theorem touched_invariant (acts : List ActDef) :
    Touched acts AState.empty ∧
    (∀ evs s, Touched acts s → Touched acts (simState acts s evs)) ∧
    (∀ s name lim, Touched acts s → Touched (addAction acts name lim) s) :=
  ⟨touched_empty acts, touched_sim acts, fun s name lim h => touched_addAction acts s name lim h⟩

/-- `State::load_rst`: an action restored with `run_count` n > 0 and `last_run` t has exactly that
state, so `sim_run_limits` continues from it (`max_run - n` further runs, `min_wait` after t). -/
theorem load_rst_fresh (s : AState) (k : Key) (count : Nat) (last : Int) (h0 : (s k).count = 0) (hc : count > 0) :
    (loadRst s k count last) k = ⟨count, last⟩ :=
  loadRst_fresh s k count last h0 hc

/-- `Parser::get_type`: each of the 16 operator spellings (`AND OR ( ) > .GT. >= .GE. < .LT. <= .LE.
= .EQ. != .NE.`) in ANY letter case is classified as its token type. -/
theorem classify_operator_any_case (s : List Char) (sp : String) (t : TT) (hmem : (sp, t) ∈ opTable)
    (hl : lowerL s = sp.toList) : classify s = t :=
  classify_op_any_case s sp t hmem hl

/-- `Parser::get_type`: a token that is not an operator spelling and whose first character cannot
start a `strtod` subject sequence is an expression (summary keyword, well / group name, month name …). -/
theorem classify_identifier (s : List Char) (c : Char) (r : List Char) (hl : lowerL s = c :: r)
    (htab : opTable.lookup (String.ofList (c :: r)) = none)
    (h1 : isSpaceC c = false) (h2 : isDig c = false) (h3 : c ≠ '+') (h4 : c ≠ '-') (h5 : c ≠ '.')
    (h6 : c ≠ 'i') (h7 : c ≠ 'n') : classify s = .expr :=
  classify_ident s c r hl htab h1 h2 h3 h4 h5 h6 h7

/-- well patterns: `*` matches every well name -/
theorem glob_star (s : List Char) : globMatch ['*'] s = true := globMatch_star s

/-- a well argument without meta characters matches exactly that name -/
theorem glob_literal (p s : List Char) (h : Literal p) : globMatch p s = true ↔ s = p :=
  globMatch_literal p s h

/-- `PREFIX*` matches exactly the names starting with `PREFIX` -/
theorem glob_prefix_star (p s : List Char) (h : Literal p) : globMatch (p ++ ['*']) s = true ↔ p <+: s :=
  globMatch_prefix_star p s h

/-- **number tokens, integer literals** (`classify_number_partial`: the full statement — EVERY token of the
`strtod` grammar `[ws][sign](digits[.digits]|.digits)[(e|E)[sign]digits]`, `inf`, `nan`, hexadecimal, and
conversely nothing else, is a number — is covered by the correspondence `action.numval`/`action.classify`
only; proved here for the unsigned integer literals of ANY length): such a token is a number … -/
theorem classify_number_partial (ds : List Char) (hne : ds ≠ []) (h : Digits ds) : classify ds = .number :=
  classify_digits ds hne h

/-- … and the value `parse_right` stores for it (`strtod`) is `Strtod.ofDec` of the natural number the digits
spell with exponent 0: the correctly rounded binary64 (`roundCore_correct`, ties to even
`roundCore_tie_even`), or `+inf` when it exceeds the binary64 range. -/
theorem number_value_digits (ds : List Char) (hne : ds ≠ []) (h : Digits ds) :
    numBits ds = resBits (Strtod.ofDec false (Strtod.dval ds) 0 ((ds.dropWhile (· = '0')).length)) :=
  numBits_digits ds hne h


/-! ### fifth round: the number grammar, literal values, the string-level round trip -/

/-- **the number grammar of `Parser::get_type`, closed, both directions**: a token (ANY character list) is
classified as a number iff its lower-cased form is in the explicit grammar `LowerNumG`
(`Proofs/ActionGrammar.lean`): the empty token, or `[white space][+|-]` followed by
`(d+ | d+.d* | .d+)[e[+|-]d+]`, by `0x(h+ | h+.h* | .h+)[p[+|-]d+]`, or by `inf`, `infinity`, `nan`,
`nan(alnum*)` — what `strtod` consumes completely.  None of the 16 operator spellings is in the grammar. -/
theorem classify_number_iff (tok : List Char) : classify tok = .number ↔ NumberGrammar tok :=
  ⟨grammar_of_classify tok, fun h => classifyLower_of_grammar (lowerL tok) h⟩

/-- the grammar is decidable (through the staged parser it is equivalent to) -/
instance (tok : List Char) : Decidable (NumberGrammar tok) :=
  decidable_of_iff _ (classify_number_iff tok)

/-- the staged `strtodLen` and the grammar agree on EVERY character list (not only lower-case ones) -/
theorem strtod_consumes_all_iff (l : List Char) : strtodLen l = l.length ↔ LowerNumG l :=
  ⟨strtodLen_lowerNumG l, lowerNumG_strtodLen l⟩

/-- **the value of a signed decimal literal with fraction and exponent** (any number of digits, `e` or `E`):
`parse_right` stores `Strtod.ofDec` of (sign, all digits as one natural number `m`, exponent minus the number
of fraction digits) — i.e. the literal is read as the rational `± m · 10^e10` it denotes … -/
theorem number_literal_value (sg ip : List Char) (frac : Option (List Char))
    (ex : Option (Char × List Char × List Char))
    (hsg : SignG sg) (hip : Digits ip) (hfp : Digits (fracDigits frac))
    (hne : ip ++ fracDigits frac ≠ []) (hex : ExpOk ex) :
    numBits (decLit sg ip frac ex) =
      resBits (Strtod.ofDec (decide (sg = ['-'])) (Strtod.dval (ip ++ fracDigits frac))
        (expVal ex - (fracDigits frac).length)
        (((ip ++ fracDigits frac).dropWhile (· = '0')).length)) :=
  numBits_decLit sg ip frac ex hsg hip hfp hne hex

/-- … and that is the CORRECTLY ROUNDED binary64: with `num/den = m · 10^e10`, `(q, eo) = roundCore num den`,
the stored bits are the encoding of (sign, `q`, `eo`) (`encBits`: subnormal `q`, normal `(eo+1)·2^52 + (q − 2^52)`,
±inf beyond the range), `q < 2^53`, normalised, and `|num/den − q·2^(eo−1074)| ≤ ½·2^(eo−1074)` (written on the
common scale); ties go to the even significand (`Strtod.roundCore_tie_even`).
`_partial`: for `|e10 + number of significant digits| ≤ 400`; outside, `ofDec` answers ±inf / ±0 without rounding
(true for binary64 but not proved here), and the exponent is capped at ±1000000 (`expVal`). -/
theorem number_value_decimal_partial (sg ip : List Char) (frac : Option (List Char))
    (ex : Option (Char × List Char × List Char))
    (hsg : SignG sg) (hip : Digits ip) (hfp : Digits (fracDigits frac))
    (hne : ip ++ fracDigits frac ≠ []) (hex : ExpOk ex)
    (hm : Strtod.dval (ip ++ fracDigits frac) ≠ 0)
    (h1 : ¬ (expVal ex - (fracDigits frac).length) +
      ((((ip ++ fracDigits frac).dropWhile (· = '0')).length : Nat) : Int) > 400)
    (h2 : ¬ (expVal ex - (fracDigits frac).length) +
      ((((ip ++ fracDigits frac).dropWhile (· = '0')).length : Nat) : Int) < -400) :
    let m := Strtod.dval (ip ++ fracDigits frac)
    let e10 : Int := expVal ex - (fracDigits frac).length
    let num := decNum m e10
    let den := decDen e10
    let q := (Strtod.roundCore num den).1
    let eo := (Strtod.roundCore num den).2
    numBits (decLit sg ip frac ex) = some (encBits (decide (sg = ['-'])) q eo) ∧
      q < 2 ^ 53 ∧ (eo = 0 ∨ 2 ^ 52 ≤ q) ∧
      2 * (num * 2 ^ 1074 - q * (den * 2 ^ eo)) ≤ den * 2 ^ eo ∧
      2 * (q * (den * 2 ^ eo) - num * 2 ^ 1074) ≤ den * 2 ^ eo :=
  decLit_value_correctly_rounded sg ip frac ex hsg hip hfp hne hex hm h1 h2

/-- **the value of a signed decimal literal, unconditional**: `number_value_decimal_partial` without its range
hypotheses — the ±400 cut-offs of `Strtod.ofDec` return exactly what rounding returns (`ofDec_eq_rounding`:
`den·2^1025 ≤ num` rounds to overflow, `num·2^1076 < den` rounds to 0), using `10^(nd−1) ≤ m < 10^nd` for the
digit string (`dval_sigdigits`).  For every literal with a non-zero digit string the stored bits are the encoding
of the correctly rounded binary64 of `± m·10^e10` (±inf when that exceeds the range).  What remains outside: the
exponent cap of `expVal` (more than 6 significant exponent digits are read as 1000000). -/
theorem number_value_decimal (sg ip : List Char) (frac : Option (List Char))
    (ex : Option (Char × List Char × List Char))
    (hsg : SignG sg) (hip : Digits ip) (hfp : Digits (fracDigits frac))
    (hne : ip ++ fracDigits frac ≠ []) (hex : ExpOk ex)
    (hm : Strtod.dval (ip ++ fracDigits frac) ≠ 0) :
    let m := Strtod.dval (ip ++ fracDigits frac)
    let e10 : Int := expVal ex - (fracDigits frac).length
    let num := decNum m e10
    let den := decDen e10
    let q := (Strtod.roundCore num den).1
    let eo := (Strtod.roundCore num den).2
    numBits (decLit sg ip frac ex) = some (encBits (decide (sg = ['-'])) q eo) ∧
      q < 2 ^ 53 ∧ (eo = 0 ∨ 2 ^ 52 ≤ q) ∧
      2 * (num * 2 ^ 1074 - q * (den * 2 ^ eo)) ≤ den * 2 ^ eo ∧
      2 * (q * (den * 2 ^ eo) - num * 2 ^ 1074) ≤ den * 2 ^ eo :=
  decLit_value_full sg ip frac ex hsg hip hfp hne hex hm

/-- … and a literal whose digits are all zero is ±0 -/
theorem number_value_zero (sg ip : List Char) (frac : Option (List Char))
    (ex : Option (Char × List Char × List Char))
    (hsg : SignG sg) (hip : Digits ip) (hfp : Digits (fracDigits frac))
    (hne : ip ++ fracDigits frac ≠ []) (hex : ExpOk ex)
    (hm : Strtod.dval (ip ++ fracDigits frac) = 0) :
    numBits (decLit sg ip frac ex) = some (if sg = ['-'] then 2 ^ 63 else 0) :=
  decLit_value_zero sg ip frac ex hsg hip hfp hne hex hm

/-- **bracket expressions of well patterns** (`fnmatch`): `[members]` with plain members (no `]`, `\`, `-`, `[`; not
starting with `!` / `^`), any number of them, followed by any rest pattern `q`, matches a name `d :: t` iff `d` is
one of the members and `q` matches `t`; … -/
theorem glob_bracket_set (cs q : List Char) (d : Char) (t : List Char) (h : PlainSet cs) :
    globMatch ('[' :: (cs ++ ']' :: q)) (d :: t) = (decide (d ∈ cs) && globMatch q t) :=
  OpmVerif.Act.glob_bracket_set cs q d t h

/-- … and the negated forms `[!members]`, `[^members]` iff `d` is none of them -/
theorem glob_bracket_negset (cs q : List Char) (d : Char) (t : List Char) (hne : cs ≠ [])
    (hall : ∀ c ∈ cs, PlainMember c) :
    globMatch ('[' :: '!' :: (cs ++ ']' :: q)) (d :: t) = (decide (d ∉ cs) && globMatch q t) ∧
    globMatch ('[' :: '^' :: (cs ++ ']' :: q)) (d :: t) = (decide (d ∉ cs) && globMatch q t) :=
  ⟨OpmVerif.Act.glob_bracket_negset cs q d t hne hall, glob_bracket_negset_caret cs q d t hne hall⟩

example : PlainSet "12".toList := by decide +kernel
example : globMatch "P[12]*".toList "P2A".toList = true ∧ globMatch "P[!12]*".toList "P3".toList = true := by
  decide +kernel
example : Strtod.dval ("1".toList ++ fracDigits (some "5".toList)) ≠ 0 := by decide

/-- **the parser round trip for ANY tokens**: whatever tokens stand for `(`, `)`, `AND`, `OR`, the comparators,
the numbers, the function names and the arguments — as long as they have the right class and carry the fields
the parser reads (`TokKit`) — printing a tree of the documented grammar and parsing it gives the tree back.
`act_parse_render` is the instance `stdKit` (`renderK_std`). -/
theorem act_parse_render_tokens (K : TokKit) (c : Cond) (h : WFC c) : parse (renderK K c) = .tree c :=
  parse_renderK K c h

/-- **the string-level round trip**: print a condition tree as token STRINGS the way the restart reader does
(`RstAction::Condition::tokens()`: names and arguments verbatim, `comparator_as_string`, `(` `)` `AND` `OR`, a
constant through `format_double`), lex every string with the model of `Parser::get_type` / `strtod`
(`mkTok`, the lexer the correspondence runs against the real parser; `gf` = `get_func`), parse: the same tree.
Hypotheses (`StrOK`): names and arguments are identifiers for `get_type` (`classify … = .expr`, unquoted), the
function type of a left-hand side is `gf` of its name, and every constant survives printing and re-reading
(`NumRT`: see `restart_integer_constant_roundtrip_partial`). -/
theorem act_string_roundtrip (gf : String → Nat) (c : Cond) (h : StrOK gf c) :
    parse ((condStrings c).map (lexS gf)) = .tree c :=
  string_roundtrip gf c h

/-- … and therefore whatever is computed from the tree — `evalCond` with any context, the match set — is the same
before and after printing and re-reading ("classify and evaluate the same") -/
theorem act_string_roundtrip_eval {α : Type} (gf : String → Nat) (c : Cond) (h : StrOK gf c) (f : Cond → α) :
    (match parse ((condStrings c).map (lexS gf)) with
     | .tree c' => some (f c')
     | _ => none) = some (f c) := by
  rw [string_roundtrip gf c h]

/-- **a restart constant is always a number token**: whatever `format_double` prints for a finite double (the
`int` form or the `%f` form) is in the number grammar, so `get_type` classifies it as a number -/
theorem restart_constant_is_number (b : Nat) (s : List Char) (h : fmtDouble b = some s) : classify s = .number :=
  classify_fmtDouble b s h

/-- **integer constants survive** (`_partial`: the integer-valued case of the double printer; a non-integer
constant is printed with six decimals only and an integer outside the `int` range is not printable at all —
the real code changes such conditions on restart, see design.d/C18.md): `std::to_string` of the integer `±n`
(`2^k ≤ n < 2^(k+1)`, `k ≤ 52`), read again by `strtod`, is the binary64 pattern of `±n` — sign, exponent field
`k + 1023`, fraction `n·2^(52−k) − 2^52` — bit for bit. -/
theorem restart_integer_constant_roundtrip_partial (neg : Bool) (k n : Nat) (hk : k ≤ 52) (h1 : 2 ^ k ≤ n)
    (h2 : n < 2 ^ (k + 1)) :
    numBits (fmtInt neg n) =
      some ((if neg then 2 ^ 63 else 0) + (k + 1023) * 2 ^ 52 + (n * 2 ^ (52 - k) - 2 ^ 52)) :=
  fmtInt_roundtrip neg k n hk h1 h2

/-- `std::to_string` of a natural number spells that number -/
theorem to_string_spells (n : Nat) : Digits (decDigits n) ∧ decDigits n ≠ [] ∧ Strtod.dval (decDigits n) = n :=
  ⟨decDigits_digits n, decDigits_ne_nil n, dval_decDigits n⟩

example : fmtDouble 0x4024000000000000 = some "10".toList := by decide +kernel
example : fmtDouble 0x3FB999999999999A = some "0.100000".toList := by decide +kernel
/-- 3e9 is integer-valued but outside `int`: the cast in `format_double` is undefined -/
example : fmtDouble 0x41E65A0BC0000000 = none := by decide +kernel
example : (2 : Nat) ^ 3 ≤ 10 ∧ 10 < 2 ^ (3 + 1) ∧
    (0 + (3 + 1023) * 2 ^ 52 + (10 * 2 ^ (52 - 3) - 2 ^ 52) : Nat) = 0x4024000000000000 := by decide

/-- **the hypothesis `NumRT` of `act_string_roundtrip` holds for every integer-valued constant inside the `int`
range** (`±n`, `1 ≤ n < 2^31`, given by its binary64 pattern `intBits`, and 0): `format_double` prints
`std::to_string(±n)`, that text is a number token, and `strtod` gives the same bits back.  So a condition whose
constants are such integers is re-read from a restart file as the same tree (and therefore evaluates the same,
`eval_matches_tree`); for other constants the real code does NOT have this property (design.d/C18.md, finding). -/
theorem restart_integer_constant_survives (neg : Bool) (k n : Nat) (hk : k ≤ 30) (h1 : 2 ^ k ≤ n)
    (h2 : n < 2 ^ (k + 1)) : NumRT (UInt64.ofNat (intBits neg k n)) :=
  numRT_int neg k n hk h1 h2

theorem restart_zero_constant_survives : NumRT 0 := numRT_zero

/-- what `format_double` prints for such a constant -/
theorem format_double_integer (neg : Bool) (k n : Nat) (hk : k ≤ 30) (h1 : 2 ^ k ≤ n) (h2 : n < 2 ^ (k + 1)) :
    fmtDouble (intBits neg k n) = some (fmtInt neg n) :=
  fmtDouble_intBits neg k n hk h1 h2

example : intBits false 3 10 = 0x4024000000000000 := by decide
example : NumRT 0x4024000000000000 := by
  have h := numRT_int false 3 10 (by decide) (by decide) (by decide)
  have e : UInt64.ofNat (intBits false 3 10) = 0x4024000000000000 := by decide +kernel
  rw [e] at h; exact h

example : condStrings (.cmp .gt (.expr "WOPR" 2 ["P1"]) (.num 0x4024000000000000)) = ["WOPR", "P1", ">", "10"] := by
  decide +kernel
example : NumberGrammar "-.5E+3".toList := by decide +kernel
example : ¬ NumberGrammar "1e".toList := by decide +kernel
example : ¬ NumberGrammar "0x".toList := by decide +kernel
example : NumberGrammar "0X1.8P-2".toList ∧ NumberGrammar "NaN(a_1)".toList ∧ NumberGrammar [] := by decide +kernel
example : SignG ['-'] ∧ Digits "12".toList ∧ ExpOk (some ('E', ['+'], "03".toList)) := by
  refine ⟨.minus, by unfold Digits; decide, Or.inr rfl, .plus, by decide, by unfold Digits; decide⟩
example : decLit ['-'] "12".toList (some "50".toList) (some ('E', ['+'], "03".toList)) = "-12.50E+03".toList := by
  decide
example : numBits "-12.50E+03".toList = some 0xC0C86A0000000000 := by decide +kernel

/-! ### Non-vacuity -/

example : Digits "9007199254740993".toList := by unfold Digits; decide +kernel
/-- 2^53 + 1 is a tie and goes to the even significand 2^53 -/
example : numBits "9007199254740993".toList = some 0x4340000000000000 := by decide +kernel
example : numBits "0.1".toList = some 0x3FB999999999999A := by decide +kernel
example : numBits "-1.5E0".toList = some 0xBFF8000000000000 := by decide +kernel
example : numBits "0x1.8p1".toList = some 0x4008000000000000 := by decide +kernel
example : numBits "-INF".toList = some 0xFFF0000000000000 := by decide +kernel
example : globMatch "P[12]*".toList "P21".toList = true ∧ globMatch "P[!1-2]".toList "P1".toList = false ∧
    globMatch "[]a]".toList "]".toList = true ∧ globMatch "[a".toList "[a".toList = true := by decide +kernel


def natLt (a b : Nat) : Bool := decide (a < b)

example : StrictTotal natLt :=
  ⟨fun a => by simp [natLt], fun a b c h1 h2 => by simp [natLt] at *; omega,
   fun a b h1 h2 => by simp [natLt] at *; omega⟩

example : setUnion natLt [1, 3, 5] [2, 3, 6] = [1, 2, 3, 5, 6] := by decide +kernel
example : setInter natLt [1, 3, 5, 6] [2, 3, 6] = [3, 6] := by decide +kernel
example : Sorted natLt [1, 3, 5] := by simp [Sorted, natLt]

/-- max_run 2, min_wait 10, start 5: of the true evaluations at 0, 5, 9, 15, 30 exactly 5 and 15 run -/
example : drive ⟨2, 10, 5⟩ ⟨0, 0⟩ [(0, true), (5, true), (9, true), (15, true), (30, true)] = [5, 15] := by
  decide +kernel

/-- `A OR B AND C` parses as `A OR (B AND C)` -/
example :
    let f : Tok := { ty := .expr, text := "FOPR" }
    let gt : Tok := { ty := .cmp .gt, text := ">" }
    let one : Tok := { ty := .number, text := "1", bits := 0x3ff0000000000000 }
    let cmp := Cond.cmp .gt (.expr "FOPR" 0 []) (.num 0x3ff0000000000000)
    (match parse [f, gt, one, { ty := .or, text := "OR" }, f, gt, one, { ty := .and, text := "AND" }, f, gt, one] with
     | .tree (.or a (.and b c [])) => true
     | _ => false) = true := by
  decide +kernel

/-- `(A OR B) AND C AND (D OR E OR F)` -/
def sampleCond : Cond :=
  let cmp (k : String) : Cond := .cmp .gt (.expr k 1 ["P1"]) (.num 0x3ff0000000000000)
  .and (.or (cmp "WOPR") (cmp "WWCT")) (.cmp .le (.expr "FOPR" 0 []) (.expr "FWPR" 0 []))
    [.or (cmp "WGOR") (.or (cmp "WBHP") (.and (cmp "WTHP") (cmp "WWIR") []))]

example : (render sampleCond).length = 37 := by decide +kernel

example : WFC sampleCond := by
  have h : stripQuotes "P1" = "P1" := by decide +kernel
  simp [sampleCond, WFC, WFC.WFCs, plainArgs, h]

/-- the round trip on the sample, computed by the kernel -/
example : parseOr (4 * 37 + 4) (render sampleCond) = .ok sampleCond [] := by rfl


/-! third round -/

/-- two actions, A (max_run 1) and B (max_run 2, min_wait 10): over 4 report steps where both
conditions always hold A runs once, B at 0 and 10 -/
def actsAB : List ActDef := [⟨("A", 0), ⟨1, 0, 0⟩⟩, ⟨("B", 0), ⟨2, 10, 0⟩⟩]
example : sim actsAB AState.empty [(0, fun _ => true), (5, fun _ => true), (10, fun _ => true), (20, fun _ => true)] =
    [(("A", 0), 0), (("B", 0), 0), (("B", 0), 10)] := by decide +kernel
example : (actsAB.map (·.key)).Nodup := by decide +kernel
/-- redefining A gives it id 1 -/
example : (addAction actsAB "A" ⟨3, 0, 0⟩).map (·.key) = [("A", 1), ("B", 0)] := by decide +kernel

example : classify ".Ge.".toList = .cmp .ge := by decide +kernel
example : classify "WOPR".toList = .expr := by decide +kernel
example : classify "1.5e3".toList = .number := by decide +kernel
example : classify "NAN".toList = .number := by decide +kernel     -- `strtod` accepts it
example : classify "1.5x".toList = .expr := by decide +kernel
example : lowerL "Or".toList = "or".toList ∧ ("or", TT.or) ∈ opTable := by decide +kernel
example : globMatch "P*".toList "P12".toList = true ∧ globMatch "P*".toList "OP1".toList = false := by decide +kernel
example : globMatch "?P*1".toList "OP_1".toList = true := by decide +kernel
example : Literal "OP_".toList := by
  intro c hc
  have : c = 'O' ∨ c = 'P' ∨ c = '_' := by simpa using hc
  rcases this with rfl | rfl | rfl <;> decide

/-- `(WOPR * > 1 OR FOPR > 1) AND WWCT * < 1` with WOPR holding for P1, P2 and WWCT for P2, P3:
the tree theorem's leaf hypotheses are met and the model returns {P2} -/
def sampleLeaf (o : CmpOp) (l r : Leaf) : Res String :=
  match l with
  | .expr "WOPR" _ _ => ⟨true, some ["P1", "P2"]⟩
  | .expr "WWCT" _ _ => ⟨true, some ["P2", "P3"]⟩
  | _ => ⟨o == .gt, none⟩
def sampleTree : Cond :=
  .and (.or (.cmp .gt (.expr "WOPR" 1 ["*"]) (.num 0)) (.cmp .gt (.expr "FOPR" 0 []) (.num 0)))
       (.cmp .lt (.expr "WWCT" 1 ["*"]) (.num 0)) []
example : (match evalCond (fun a b => decide (a < b)) (fun o l r => .ok (sampleLeaf o l r)) sampleTree with
    | .ok r => r.ok && r.wells == some ["P2"]
    | .error _ => false) = true := by decide +kernel

end OpmVerif.Props.C18
