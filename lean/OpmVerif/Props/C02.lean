/-
  C02 — Unit conversion is invertible, composable, physical and deck-unit independent.

  Only property statements (one-line proofs from `Proofs/Units.lean`) and non-vacuity examples.
  The tables (`Gen/Units.lean`) are regenerated from Units.hpp / UnitSystem.cpp / the keyword JSON
  on every run; the specification they are compared with (`Proofs/UnitsSpec.lean`) is hand-written.
  Quantifiers: all five unit systems × all `UnitSystem::measure` entries × all values of `Rat`
  (every finite double is one) or of any field of characteristic 0; all dimension strings; all
  call sequences on a `DeckItem`; all re-expressions of an item in another unit system.
  Arithmetic is exact: IEEE rounding is observed by the correspondence, not proved.
-/
import OpmVerif.Proofs.Units
import OpmVerif.Proofs.UnitsUse
import OpmVerif.Proofs.UnitsQuant

namespace OpmVerif.Props.C02
open OpmVerif.Units OpmVerif.Gen.Units OpmVerif.Gen.UnitsUse OpmVerif.Gen.UnitsQuant

/-! ## invertible -/

/-- For every unit system and every measure, the to-SI and from-SI table entries are mutually
inverse.  (The offset table is shared by `to_si` and `from_si` by construction.) -/
theorem to_from_inverse (s : SysDef Rat) (hs : s ∈ systems Rat) (m : Nat) (hm : m < measureNames.length) :
    s.toSI.getD m zero * s.fromSI.getD m zero = 1 :=
  to_from_table s hs m hm

/-- all four tables of every system have exactly one entry per measure -/
theorem tables_complete :
    ∀ s ∈ systems Rat, s.toSI.length = measureNames.length ∧ s.fromSI.length = measureNames.length ∧
      s.toSIOffset.length = measureNames.length ∧ s.unitNames.length = measureNames.length :=
  tables_length

/-- `to_si(m, from_si(m, x)) = x` for every system, measure and value. -/
theorem to_si_from_si (s : SysDef Rat) (hs : s ∈ systems Rat) (m : Nat) (hm : m < measureNames.length) (x : Rat) :
    toSI s m (fromSI s m x) = x :=
  toSI_fromSI s hs m hm x

/-- `from_si(m, to_si(m, x)) = x` for every system, measure and value. -/
theorem from_si_to_si (s : SysDef Rat) (hs : s ∈ systems Rat) (m : Nat) (hm : m < measureNames.length) (x : Rat) :
    fromSI s m (toSI s m x) = x :=
  fromSI_toSI s hs m hm x

/-- the same with values in an arbitrary field of characteristic zero (ℝ, …) -/
theorem to_si_from_si_field {K : Type} [Field K] [CharZero K] (s : SysDef Rat) (hs : s ∈ systems Rat)
    (m : Nat) (hm : m < measureNames.length) (x : K) :
    ((s.toSI.getD m zero : Rat) : K) * (((s.fromSI.getD m zero : Rat) : K) * (x - ((s.toSIOffset.getD m zero : Rat) : K)))
      + ((s.toSIOffset.getD m zero : Rat) : K) = x :=
  toSI_fromSI_field s hs m hm x

theorem from_si_to_si_field {K : Type} [Field K] [CharZero K] (s : SysDef Rat) (hs : s ∈ systems Rat)
    (m : Nat) (hm : m < measureNames.length) (x : K) :
    ((s.fromSI.getD m zero : Rat) : K) * ((((s.toSI.getD m zero : Rat) : K) * x + ((s.toSIOffset.getD m zero : Rat) : K))
      - ((s.toSIOffset.getD m zero : Rat) : K)) = x :=
  fromSI_toSI_field s hs m hm x

/-! ## physical -/

/-- every constant of `Units.hpp` listed in the specification has exactly its SI definition
(inch 0.0254 m, pound 0.45359237 kg, g 9.80665, atm 101325 Pa, psi = lbf/in², gallon 231 in³,
stb 42 gal, darcy 1e-7/101325 m², °F scale 5/9 and offset 459.67·5/9, btu 1054.3503 J, …) -/
theorem constants_physical : ∀ e ∈ Spec.constSpec, Spec.constOk e = true :=
  List.all_eq_true.mp consts_physical

/-- every named dimension of METRIC, FIELD, LAB, PVT-M has the SI scale and offset the
specification gives for the unit it stands for … -/
theorem dimensions_physical : ∀ e ∈ Spec.dimSpec, Spec.dimOk e = true :=
  List.all_eq_true.mp dims_physical

/-- … and the specification leaves out no `addDimension` entry (except "ContextDependent",
which has no factor by design) -/
theorem dimensions_physical_covers_all :
    Spec.deckSystems.all (fun s => s.dims.all (fun e => e.1 == "ContextDependent" ||
      Spec.dimSpec.any (fun d => some d.deck == s.deckName && d.dim == e.1))) = true :=
  dims_covered

/-! ## composable -/

/-- in each deck system every measure factor is the product/quotient of named dimension
factors it is documented as (and `temperature` carries the `Temperature` offset, all others
offset 0): the measure tables and the string tables agree -/
theorem measure_matches_dimension :
    ∀ s ∈ Spec.deckSystems, ∀ e ∈ Spec.measureSpec, Spec.measureOk s e = true :=
  fun s hs => List.all_eq_true.mp (List.all_eq_true.mp measures_composite s hs)

/-- the string overloads agree with the measure overloads: `UnitSystem::parse` of the string that
denotes the documented composite (e.g. "Viscosity*ReservoirVolume/Time*Pressure") yields exactly
the scale and offset of the measure-table entry, in each deck system, for all 46 measures -/
theorem measure_matches_parse :
    ∀ s ∈ Spec.deckSystems, ∀ e ∈ Spec.measureSpec, Spec.measureParseOk s e = true :=
  fun s hs => List.all_eq_true.mp (List.all_eq_true.mp measures_parse s hs)

/-- no measure is missing from the specification -/
theorem measure_spec_covers_all : ∀ n ∈ measureNames, Spec.measureSpec.any (·.measure == n) = true :=
  List.all_eq_true.mp measures_covered

theorem deck_systems_are : Spec.deckSystems.map (·.deckName) = [some "METRIC", some "FIELD", some "LAB", some "PVT-M"] :=
  deckSystems_names

/-- `parse (a*b) = parse a · parse b` for offset-free operands (any system `s`, any tables). -/
theorem parse_mul (s : SysDef Rat) (a b : String) (fa fb : Rat)
    (ha : '/' ∉ a.toList) (hb : '/' ∉ b.toList) (hne : a.toList ≠ []) (hlast : a.toList.getLast? ≠ some '*')
    (pa : parse s a = some ⟨some fa, 0⟩) (pb : parse s b = some ⟨some fb, 0⟩) :
    parse s (a ++ "*" ++ b) = some ⟨some (fa * fb), 0⟩ :=
  OpmVerif.Units.parse_mul s a b fa fb ha hb hne hlast pa pb

/-- `parse (a/b) = parse a / parse b` for offset-free operands. -/
theorem parse_div (s : SysDef Rat) (a b : String) (fa fb : Rat)
    (ha : '/' ∉ a.toList) (hb : '/' ∉ b.toList) (hne : b.toList ≠ [])
    (pa : parse s a = some ⟨some fa, 0⟩) (pb : parse s b = some ⟨some fb, 0⟩) :
    parse s (a ++ "/" ++ b) = some ⟨some (fa / fb), 0⟩ :=
  OpmVerif.Units.parse_div s a b fa fb ha hb hne pa pb

/-- every dimension string used by a keyword that is compiled into the parser resolves, in each
of the four deck unit systems, to a finite factor ("ContextDependent" to its factor-less entry) -/
theorem parse_total_on_keywords :
    ∀ s ∈ Spec.deckSystems, ∀ str ∈ keywordDimStrings,
      (match getNewDimension s str with
       | some d => d.scale.isSome || str == "ContextDependent"
       | none => false) = true :=
  fun s hs => List.all_eq_true.mp (List.all_eq_true.mp keyword_strings_resolve s hs)

/-! ## deck-unit independent: the lazy conversion of `DeckItem` -/

/-- The in-place conversion is a refinement of a one-bit machine over two constant vectors:
for ANY call sequence the observations of the mutating implementation are those of `specRun`
(deck values `raw`, their SI image `si`, one flag).  Holds for both variants of `get<double>`. -/
theorem lazy_conversion_refines (h : Bool) (it0 : Item Rat) (wf : it0.WF) (h0 : it0.rawData = true)
    (cs : List Call) :
    (it0.run h cs).2 =
      specRun h it0.dval (siOf it0.active it0.dflt 0 it0.dval it0.status) it0.status true cs :=
  run_refines h it0 wf cs it0 true (rel_init it0 h0)

/-- For the code as it stands: after any interleaving of accessor calls, `getData<double>()`
shows the deck values and `getSIDoubleData()` / `getSIDouble(i)` show `raw_i·f + o`, with
`(f, o)` the default dimension where the value was defaulted and the active one otherwise. -/
theorem lazy_conversion_invariant (it0 : Item Rat) (wf : it0.WF) (h0 : it0.rawData = true)
    (cs : List Call) (k : Nat) (c : Call) (hk : cs[k]? = some c) (hc : ∀ i, c ≠ .get i) :
    (it0.runCode cs).2[k]? = some (idealObs it0 c) :=
  converting_accessors_history_free _ it0 wf h0 cs k c hk hc

/-- what `idealObs` is, element by element: element `j` of the SI image is `raw_j·f + o` for the
dimension selected by the element's own status, and converts back to `raw_j` exactly -/
theorem si_image_elementwise (it0 : Item Rat) (wf : it0.WF) (j : Nat) (x : Rat) (hx : it0.dval[j]? = some x) :
    ∃ d y, dimFor it0.active it0.dflt j (it0.status.getD j .uninitialized) = some d ∧ d.rawToSi x = some y ∧
      (siOf it0.active it0.dflt 0 it0.dval it0.status)[j]? = some y ∧ d.siToRaw y = some x := by
  simpa using siOf_getElem wf.lenD wf.ne wf.actOk wf.dfltOk 0 it0.dval it0.status j x hx

/-- ALL accessors, `get<double>(i)` included, are independent of the call history if and only if
`get<double>` consults `raw_data`.  The right-hand side is read off `DeckItem.cpp` by the
translator on every run; while it is `false` the property fails for `get<double>` and the check
reports the concrete failing call sequence found on the real code. -/
theorem lazy_all_accessors_history_free_iff :
    (∀ it0 : Item Rat, it0.WF → it0.rawData = true → ∀ cs : List Call,
        (it0.runCode cs).2 = cs.map (idealObs it0)) ↔ deckItemGetHonoursRawData = true :=
  get_history_free_iff deckItemGetHonoursRawData

/-- One physical model, two decks: if the deck values of an item are re-expressed in another
unit system (`v₂ = from_si₂(to_si₁ v₁)`, defaulted values untouched), the SI values obtained from
the two items agree — whatever accessors were called on either item before. -/
theorem unit_independence (it1 : Item Rat) (wf : it1.WF) (h0 : it1.rawData = true)
    (act2 : List (Dim Rat)) (hl : act2.length = it1.active.length) (ha2 : ∀ d ∈ act2, DimOk d)
    (cs1 cs2 : List Call) :
    ((it1.inSystem act2).runCode (cs2 ++ [.getSIData])).2[cs2.length]? =
      (it1.runCode (cs1 ++ [.getSIData])).2[cs1.length]? :=
  unit_independence_obs _ it1 wf h0 act2 hl ha2 cs1 cs2

/-- UDA items (rates and pressure limits of wells and groups): a value given in the deck converts
with the same active dimension, element by element, as a double item — `get<UDAValue>(i).getSI()`
is element `i` of the SI image … -/
theorem uda_deck_value_is_si_image (it : Item Rat) (wf : it.WF) (i : Nat) (x : Rat) (hx : it.dval[i]? = some x)
    (hst : (it.status.getD i .uninitialized).defaulted = false) :
    ∃ y, (siOf it.active it.dflt 0 it.dval it.status)[i]? = some y ∧
      (match it.uda i with | .si z => z = y | _ => False) :=
  uda_deck_value it wf i x hx hst

/-- … and a defaulted UDA value is handed out without a number, carrying the DEFAULT dimension
(the consumer supplies its own default in SI through `SI_value_or`) -/
theorem uda_defaulted_carries_default_dimension (it : Item Rat) (wf : it.WF) (i : Nat) (x : Rat)
    (hx : it.dval[i]? = some x) (hst : (it.status.getD i .uninitialized).defaulted = true) :
    ∃ d, it.dflt[i % it.active.length]? = some d ∧
      (match it.uda i with | .undefined d' => d' = d | _ => False) :=
  uda_defaulted it wf i x hx hst

/-! ## output side: `data::Solution::convertFromSI / convertToSI` -/

/-- values converted to output units and back with the same tables are the SI values again, for
every system, every measure and all data; the `identity` vectors are never touched -/
theorem solution_roundtrip (s : SysDef Rat) (hs : s ∈ systems Rat) (sol : Sol Rat) (hsi : sol.si = true)
    (hm : ∀ c ∈ sol.cells, c.1 < measureNames.length) :
    (sol.convertFromSI s).convertToSI s = sol :=
  OpmVerif.Units.solution_roundtrip s hs sol hsi hm

theorem solution_roundtrip_output (s : SysDef Rat) (hs : s ∈ systems Rat) (sol : Sol Rat) (hsi : sol.si = false)
    (hm : ∀ c ∈ sol.cells, c.1 < measureNames.length) :
    (sol.convertToSI s).convertFromSI s = sol :=
  OpmVerif.Units.solution_roundtrip' s hs sol hsi hm

/-- a second conversion in the same direction is a no-op (the `si` flag) -/
theorem solution_idempotent (s : SysDef Rat) (sol : Sol Rat) :
    (sol.convertFromSI s).convertFromSI s = sol.convertFromSI s ∧
      (sol.convertToSI s).convertToSI s = sol.convertToSI s :=
  OpmVerif.Units.solution_idempotent s sol

/-! ## non-vacuity -/

-- a FIELD pressure: psi → Pa → psi
example : sys.UNIT_TYPE_FIELD Rat ∈ systems Rat := by simp [systems]
example : 5 < measureNames.length ∧
    toSI (sys.UNIT_TYPE_FIELD Rat) 5 1 = Spec.psi ∧
    fromSI (sys.UNIT_TYPE_FIELD Rat) 5 (toSI (sys.UNIT_TYPE_FIELD Rat) 5 1000) = 1000 := by decide +kernel

-- temperature (the measure with an offset): 60 °F = 288.705… K
example : toSI (sys.UNIT_TYPE_FIELD Rat) 7 60 = (60 + Spec.dec 45967 2) * 5 / 9 ∧
    fromSI (sys.UNIT_TYPE_FIELD Rat) 7 ((60 + Spec.dec 45967 2) * 5 / 9) = 60 := by decide +kernel

-- the hypotheses of parse_mul / parse_div are met by real keyword strings
example : let s := sys.UNIT_TYPE_FIELD Rat
    parse s "Viscosity*ReservoirVolume" = some ⟨some (Spec.cP * Spec.stb), 0⟩ ∧
    parse s "Time*Pressure" = some ⟨some (Spec.day * Spec.psi), 0⟩ ∧
    parse s "Viscosity*ReservoirVolume/Time*Pressure" = some ⟨some (Spec.cP * Spec.stb / (Spec.day * Spec.psi)), 0⟩ ∧
    '/' ∉ "Viscosity*ReservoirVolume".toList ∧ "Time*Pressure".toList ≠ [] := by decide +kernel

example : (Spec.measureSpec.map (fun e => String.ofList e.chars)).take 3 ++
    ((Spec.measureSpec.filter (·.measure == "aicd_strength")).map (fun e => String.ofList e.chars)) =
    ["1", "Length", "Time", "Pressure*Time*Time/Density*GeometricVolume*GeometricVolume"] := by decide +kernel

-- … and composites with an offset operand are refused, as are unknown names and two divisions
example : let s := sys.UNIT_TYPE_FIELD Rat
    parse s "Temperature" = some ⟨some (5 / 9), Spec.degFOffset⟩ ∧ parse s "Temperature*Length" = none ∧
    parse s "Length/Temperature" = none ∧ parse s "Length/Time/Time" = none ∧ parse s "Volume/Time" = none ∧
    parse s "" = some ⟨some 1, 0⟩ ∧ parse s "Length**Time" = none ∧ parse s "Length*" = parse s "Length" := by
  decide +kernel

-- a keyword file that is NOT compiled in (WSEGPULL) uses a dimension no system knows
example : unlistedOnlyDimStrings.map (·.1) = ["Pressure*Time/Volume", "Volume/Time"] ∧
    Spec.deckSystems.all (fun s => (getNewDimension s "Volume/Time").isNone) = true := by decide +kernel

-- the INPUT pseudo system lacks "Ymodule" (no deck can select it)
example : getNewDimension (sys.UNIT_TYPE_INPUT Rat) "Ymodule" = none := by decide +kernel

-- a well-formed item (100 ft, default in metres) and a history on it
example : witnessItem.WF ∧ witnessItem.rawData = true := ⟨witnessItem_wf, rfl⟩
example : (witnessItem.run false [.getSIData, .getData, .getSI 0, .getSI 0, .getData]).2 =
    [.vec [Spec.dec 3048 2], .vec [100], .val (Spec.dec 3048 2), .val (Spec.dec 3048 2), .vec [100]] := by
  decide +kernel

-- the failing instance of the `iff` while `get<double>` ignores `raw_data`
example : (witnessItem.run false [.getSI 0, .get 0]).2 = [.val (Spec.dec 3048 2), .val (Spec.dec 3048 2)] ∧
    (witnessItem.run true [.getSI 0, .get 0]).2 = [.val (Spec.dec 3048 2), .val 100] := by decide +kernel

-- re-expression: 100 ft written in a METRIC deck is 30.48 m; a defaulted value stays
example : (({ witnessItem with dval := [100, 7], status := [.deckValue, .validDefault] } : Item Rat).inSystem
      [⟨some 1, 0⟩]).dval = [Spec.dec 3048 2, 7] := by decide +kernel

-- a FIELD solution: pressure (Pa → psi), temperature (K → °F), an identity vector
example : let sol : Sol Rat := { si := true, cells := [(5, [Spec.psi * 3000]), (7, [Spec.degFOffset + 60 * Spec.degF]), (0, [42])] }
    (sol.convertFromSI (sys.UNIT_TYPE_FIELD Rat)).cells = [(5, [3000]), (7, [60]), (0, [42])] ∧
    (∀ c ∈ sol.cells, c.1 < measureNames.length) := by decide +kernel

/-! ## round 3: the grammar in closed form, offsets, keyword items, other users of the tables -/

/-- n-ary product: for ANY system/table and any list of tokens naming offset-free finite dimensions,
`parse "t₁*…*tₙ" = f₁·…·fₙ`; `n = 0` is the empty string, which parses to 1. -/
theorem parse_product (s : SysDef Rat) (ts : List (List Char)) (fs : List Rat)
    (htok : ∀ t ∈ ts, IsTok t) (h : List.Forall₂ (TokOk s) ts fs) :
    parseChars s (joinStar ts) = some ⟨some (prodQ fs), 0⟩ :=
  parseChars_product s ts fs htok h

/-- quotient of two products; the numerator may be empty (`"/Length"` = 1/Length), the
denominator may not (`"Length/"` is outside the defined behaviour of the real code, see `parse_ub_iff`) -/
theorem parse_quotient (s : SysDef Rat) (ns ds : List (List Char)) (fn fd : List Rat)
    (hn : ∀ t ∈ ns, IsTok t) (hd : ∀ t ∈ ds, IsTok t) (hne : ds ≠ [])
    (pn : List.Forall₂ (TokOk s) ns fn) (pd : List.Forall₂ (TokOk s) ds fd) :
    parseChars s (joinStar ns ++ '/' :: joinStar ds) = some ⟨some (prodQ fn / prodQ fd), 0⟩ :=
  parseChars_quotient s ns ds fn fd hn hd hne pn pd

/-- a single dimension with a conversion offset ("Temperature") is handed out with its offset … -/
theorem parse_single_offset (s : SysDef Rat) (t : List Char) (d : Dim Rat) (ht : IsTok t)
    (hd : getDimension s (String.ofList t) = some d) (ho : d.offset ≠ 0) : parseChars s t = some d :=
  parseChars_single_offset s t d ht hd ho

/-- … and refused anywhere inside a product of two or more factors; two `/` are refused -/
theorem parse_offset_in_product (s : SysDef Rat) (pre post : List (List Char)) (fs : List Rat) (t : List Char)
    (d : Dim Rat) (htok : ∀ x ∈ pre ++ t :: post, IsTok x) (hlen : 1 < (pre ++ t :: post).length)
    (hp : List.Forall₂ (TokOk s) pre fs) (hd : getDimension s (String.ofList t) = some d) (ho : d.offset ≠ 0) :
    parseChars s (joinStar (pre ++ t :: post)) = none :=
  parseChars_offset_in_product s pre post fs t d htok hlen hp hd ho

theorem parse_two_div (s : SysDef Rat) (cs : List Char) (h : 1 < cs.count '/') : parseChars s cs = none :=
  parseChars_two_div s cs h

/-- `UnitSystem::parse` indexes `parts[1]` of a one-element vector (undefined behaviour) exactly
for the strings that end in their only `/` — and only while the source does not refuse them first;
the flag is read off `UnitSystem.cpp` by the translator on every run -/
theorem parse_ub_iff (cs : List Char) :
    parseUB cs = true ↔ parseRejectsTrailingSlash = false ∧ ∃ a, '/' ∉ a ∧ cs = a ++ ['/'] :=
  parseUB_iff cs

/-- NO string reaches that undefined behaviour if and only if the guard is in the source (it is
since fix ee5075475; reverting it makes the right-hand side `false` and the property-mode probe
`parse.trailing_slash` fails on the real code) -/
theorem parse_never_ub_iff : (∀ cs : List Char, parseUB cs = false) ↔ parseRejectsTrailingSlash = true :=
  parse_never_ub_iff'

/-- what the code does for these strings now: `parse` throws (any system, any `a` without `/`) -/
theorem parse_trailing_slash_refused (s : SysDef Rat) (a : List Char) (ha : '/' ∉ a) :
    parseChars s (a ++ ['/']) = none :=
  parseChars_trailingSlash s _ ((trailingSlash_iff _).mpr ⟨a, ha, rfl⟩)

/-- whatever `parse` accepts has a non-zero factor — all five systems, ALL strings -/
theorem parse_factor_ne_zero (s : SysDef Rat) (hs : s ∈ systems Rat) (str : String) (d : Dim Rat) (f : Rat)
    (h : parse s str = some d) (hf : d.scale = some f) : f ≠ 0 :=
  parseChars_ne_zero s hs _ d f h hf

/-- the string overloads invert each other for every system, every accepted string with a finite
factor (composites, and single dimensions WITH offset), every value -/
theorem string_overloads_roundtrip (s : SysDef Rat) (hs : s ∈ systems Rat) (str : String) (d : Dim Rat)
    (hp : parse s str = some d) (hfin : d.scale.isSome) (x : Rat) :
    (∃ y, fromSIStr s str x = some y ∧ toSIStr s str y = some x) ∧
    (∃ y, toSIStr s str x = some y ∧ fromSIStr s str y = some x) :=
  string_roundtrip s hs str d hp hfin x

/-- °C ↦ K is `x + 273.15` (METRIC, LAB, PVT-M), °F ↦ K is `(x + 459.67)·5/9` (FIELD), with the
inverse maps, for all values -/
theorem temperature_conversion :
    (∀ s ∈ Spec.deckSystems, s.deckName ≠ some "FIELD" → ∀ x : Rat, toSI s tempIdx x = x + Spec.degCOffset ∧
        fromSI s tempIdx x = x - Spec.degCOffset) ∧
    (∀ x : Rat, toSI (sys.UNIT_TYPE_FIELD Rat) tempIdx x = (x + Spec.dec 45967 2) * (5 / 9) ∧
        fromSI (sys.UNIT_TYPE_FIELD Rat) tempIdx x = x * (9 / 5) - Spec.dec 45967 2) :=
  temperature_values

/-- "Temperature" is the only registered dimension with an offset, the string and the measure
agree, and temperature differences convert with the "AbsoluteTemperature" factor -/
theorem temperature_offset_dimension :
    ∀ s ∈ Spec.deckSystems,
      parse s "Temperature" = some (measureDim s tempIdx) ∧
      (∀ e ∈ s.dims, e.2.2 ≠ 0 → e.1 = "Temperature") ∧
      ∃ fa, getDimension s "AbsoluteTemperature" = some ⟨some fa, 0⟩ ∧
        ∀ x y : Rat, toSI s tempIdx x - toSI s tempIdx y = (x - y) * fa :=
  temperature_dimension

/-- "ContextDependent" has no factor in the deck systems (1 in INPUT): the parser item gets the
factor-less entry, `parse` and the string overloads throw … -/
theorem context_dependent_has_no_factor :
    (∀ s ∈ Spec.deckSystems, getNewDimension s "ContextDependent" = some ⟨none, 0⟩ ∧ parse s "ContextDependent" = none ∧
        ∀ x : Rat, toSIStr s "ContextDependent" x = none) ∧
    getNewDimension (sys.UNIT_TYPE_INPUT Rat) "ContextDependent" = some ⟨some 1, 0⟩ :=
  context_dependent_dimension

/-- … and an item with such dimensions never converts, for ANY call sequence: the SI accessors
throw, `getData<double>` shows the deck values, the item is unchanged -/
theorem context_dependent_item_never_converts (h : Bool) (it : Item Rat) (hc : it.ContextDep) (cs : List Call) :
    (it.run h cs).1 = it ∧
    ∀ (k : Nat) (c : Call), cs[k]? = some c → (it.run h cs).2[k]? = some (ctxObs h it c) :=
  context_dependent_item h it hc cs

/-- EVERY dimension of EVERY item of every keyword compiled into the parser (table regenerated
from the JSON files each run), in all four deck systems and INPUT: it resolves as
`ParserItem::scan` resolves it, a registered name to its table entry, a composite to offset 0 and
the product/quotient of the table factors of its parts (the specification's own reading of the
string), and never reaches the undefined behaviour of `parse`.  Only exception: INPUT has no
"Ymodule". -/
theorem keyword_item_dimensions (s : SysDef Rat) (hs : s ∈ systems Rat) (e : String × List String)
    (he : e ∈ keywordItemDims) (str : String) (hstr : str ∈ e.2) (hin : s.deckName.isSome ∨ str ∉ Spec.inputLacks) :
    Spec.itemDimOk s str = true :=
  keyword_items_ok s hs e he str hstr hin

/-- the unit strings of `FieldProps.hpp` (scalar of EQUALS/ADD/…, OPERATE) parse in each deck
system with the specified meaning — except the keywords listed as open findings -/
theorem fieldprops_unit_strings :
    ∀ s ∈ Spec.deckSystems, ∀ e ∈ fieldPropsUnits, e.2.1 ∉ Spec.fieldPropsOpen → Spec.parseOk s e.2.2 = true := by
  intro s hs e he hn
  have := List.all_eq_true.mp (List.all_eq_true.mp fieldprops_ok s hs) e he
  simpa [hn] using this

/-- … and denote the same dimension as the keyword's own JSON item (array form = scalar form),
except the listed open findings -/
theorem fieldprops_unit_matches_keyword :
    ∀ s ∈ Spec.deckSystems, ∀ e ∈ fieldPropsUnits, e.2.1 ∉ Spec.fieldPropsMismatchOpen → Spec.fieldPropsMatch s e = true := by
  intro s hs e he hn
  have := List.all_eq_true.mp (List.all_eq_true.mp fieldprops_match s hs) e he
  simpa [hn] using this

/-- `uda_dim(control)` (the dimension a UDA gets when rebuilt from a restart file) is the dimension
of the control's deck item, in each deck system — except the listed open findings -/
theorem uda_dim_matches_deck_item :
    ∀ s ∈ Spec.deckSystems, ∀ e ∈ udaDim, e.1 ∉ Spec.udaOpen → Spec.udaOk s e = true := by
  intro s hs e he hn
  have := List.all_eq_true.mp (List.all_eq_true.mp uda_ok s hs) e he
  simpa [hn] using this

/-- the measure lookups of the summary evaluator (C09): the unit tag `mul_unit(a,b)` has the
conversion factor `factor a · factor b` and `div_unit(a,b)` has `factor a / factor b`, all tags
offset-free, in all five systems (rows with denominator `time` are dead in Summary.cpp) -/
theorem summary_unit_algebra :
    (∀ s ∈ systems Rat, ∀ e ∈ summaryMulUnit, factorOf s e.2.2 = factorOf s e.1 * factorOf s e.2.1) ∧
    (∀ s ∈ systems Rat, ∀ e ∈ summaryDivUnit, e.2.1 ≠ "time" → factorOf s e.2.2 = factorOf s e.1 / factorOf s e.2.1) := by
  constructor
  · intro s hs e he
    have := List.all_eq_true.mp (List.all_eq_true.mp summary_mul_ok s hs) e he
    simp only [Bool.and_eq_true, beq_iff_eq] at this
    exact this.1.1.1.2
  · intro s hs e he hn
    have := List.all_eq_true.mp (List.all_eq_true.mp summary_div_ok s hs) e he
    simp only [Bool.and_eq_true, Bool.or_eq_true, beq_iff_eq] at this
    rcases this.1.1.1.2 with h | h
    · exact absurd h hn
    · exact h

/-! ## round 5: keyword item → physical quantity (hand-written table vs the keyword JSON) -/

/-- For EVERY item of the hand-written keyword-item → physical-quantity table (126 items, 151
columns: PVT and saturation tables, EQUIL, aquifers, grid/solution arrays, well and group controls,
COMPDAT, TUNING, VFP headers; `harness/units_quantities.cpp`, written from the reference manual),
in EVERY deck unit system: the keyword JSON lists the item, with the same number of columns, and
column by column the JSON's dimension string — resolved as `ParserItem::scan` resolves it — is
exactly the unit of that physical quantity (scale and offset from the hand-written SI
specification; "ContextDependent" = the factor-less entry).  A JSON edit that changes, drops or
swaps a dimension of a listed item breaks this proof. -/
theorem item_quantities_match (e : String × List String) (he : e ∈ itemQuantities)
    (s : SysDef Rat) (hs : s ∈ Spec.deckSystems) :
    ∃ strs, Spec.jsonDimsOf e.1 = some strs ∧ strs.length = e.2.length ∧
      ∀ (c : Nat) (str q : String), strs[c]? = some str → e.2[c]? = some q → Spec.colQuantOk s str q = true :=
  item_quantities e he s hs

/-- … in value form, for all values: the number `x` written into column `c` comes out of the
conversion the JSON attaches as `x · scale + offset` of the column's quantity -/
theorem item_quantity_si_value (e : String × List String) (he : e ∈ itemQuantities)
    (s : SysDef Rat) (hs : s ∈ Spec.deckSystems) (c : Nat) (q : String) (hq : e.2[c]? = some q)
    (hne : q ≠ "ContextDependent") :
    ∃ strs str deck sc off d, Spec.jsonDimsOf e.1 = some strs ∧ strs[c]? = some str ∧
      s.deckName = some deck ∧ Spec.quantValue deck q = some (sc, off) ∧
      getNewDimension s str = some d ∧ ∀ x : Rat, d.rawToSi x = some (x * sc + off) :=
  item_quantity_value e he s hs c q hq hne

/-- … hence deck-unit independent: the same physical input written in two deck unit systems into
the same column of a listed item gives the same SI value -/
theorem item_quantity_deck_unit_independent (e : String × List String) (he : e ∈ itemQuantities)
    (s₁ s₂ : SysDef Rat) (h₁ : s₁ ∈ Spec.deckSystems) (h₂ : s₂ ∈ Spec.deckSystems)
    (c : Nat) (q : String) (hq : e.2[c]? = some q) (hne : q ≠ "ContextDependent") :
    ∃ strs str deck₁ deck₂ sc₁ off₁ sc₂ off₂ d₁ d₂, Spec.jsonDimsOf e.1 = some strs ∧ strs[c]? = some str ∧
      s₁.deckName = some deck₁ ∧ s₂.deckName = some deck₂ ∧
      Spec.quantValue deck₁ q = some (sc₁, off₁) ∧ Spec.quantValue deck₂ q = some (sc₂, off₂) ∧
      getNewDimension s₁ str = some d₁ ∧ getNewDimension s₂ str = some d₂ ∧
      ∀ x₁ x₂ : Rat, x₁ * sc₁ + off₁ = x₂ * sc₂ + off₂ → d₁.rawToSi x₁ = d₂.rawToSi x₂ :=
  item_quantity_unit_independent e he s₁ s₂ h₁ h₂ c q hq hne

/-- every quantity the harness has numbers for is specified (and conversely), and the item table
uses no other quantity -/
theorem item_quantities_closed : Spec.quantitiesCovered = true := quantities_covered

-- non-vacuity: rows of the table (a multi-column one), the four deck systems, values of quantities
-- incl. the offset one, and that the check has teeth: swapped PVTO columns, a pressure where a length
-- belongs, rb/Mscf vs Mscf/stb all fail in FIELD (some are invisible in METRIC — hence all four systems)
example : ("PVTO.0.DATA", ["Pressure", "LiquidFVF", "Viscosity"]) ∈ itemQuantities ∧
    ("COMPDAT.0.Kh", ["PermThickness"]) ∈ itemQuantities ∧ itemQuantities.length > 120 ∧
    Spec.deckSystems.length = 4 ∧
    Spec.quantValue "FIELD" "GasFVF" = some (Spec.stb / Spec.mscf, 0) ∧
    Spec.quantValue "FIELD" "Temperature" = some (5 / 9, Spec.degFOffset) ∧
    Spec.quantValue "LAB" "LiquidPI" = some (Spec.cm3 / (Spec.hour * Spec.atm), 0) ∧
    Spec.colsOk (sys.UNIT_TYPE_FIELD Rat) ["Pressure", "1", "Viscosity"] ["Pressure", "LiquidFVF", "Viscosity"] = true ∧
    Spec.colsOk (sys.UNIT_TYPE_FIELD Rat) ["1", "Pressure", "Viscosity"] ["Pressure", "LiquidFVF", "Viscosity"] = false ∧
    Spec.colQuantOk (sys.UNIT_TYPE_FIELD Rat) "Pressure" "Length" = false ∧
    Spec.colQuantOk (sys.UNIT_TYPE_FIELD Rat) "Permeability*Length*Length" "PermThickness" = false ∧    -- mutation M18
    Spec.colQuantOk (sys.UNIT_TYPE_METRIC Rat) "Permeability*Length*Length" "PermThickness" = true ∧    -- … invisible in METRIC
    Spec.colQuantOk (sys.UNIT_TYPE_METRIC Rat) "LiquidSurfaceVolume/Time" "Pressure" = false ∧          -- mutation M19
    Spec.colQuantOk (sys.UNIT_TYPE_FIELD Rat) "GasDissolutionFactor" "GasFVF" = false ∧
    Spec.colQuantOk (sys.UNIT_TYPE_METRIC Rat) "GasDissolutionFactor" "GasFVF" = true ∧
    Spec.colQuantOk (sys.UNIT_TYPE_FIELD Rat) "LiquidSurfaceVolume/Time" "ReservoirRate" = true := by decide +kernel

/-! ### non-vacuity (round 3) -/

-- tokens of a real keyword string satisfy the hypotheses of parse_quotient
example : let s := sys.UNIT_TYPE_FIELD Rat
    joinStar ["Energy".toList] ++ '/' :: joinStar ["AbsoluteTemperature".toList, "Length".toList, "Time".toList] =
      "Energy/AbsoluteTemperature*Length*Time".toList ∧
    getDimension s (String.ofList "Energy".toList) = some ⟨some Spec.btu, 0⟩ ∧
    getDimension s (String.ofList "Length".toList) = some ⟨some Spec.foot, 0⟩ ∧
    parse s "Energy/AbsoluteTemperature*Length*Time" = some ⟨some (Spec.btu / (5 / 9 * Spec.foot * Spec.day)), 0⟩ ∧
    parse s "/Length" = some ⟨some (1 / Spec.foot), 0⟩ := by decide +kernel
-- the trailing-slash strings, and near misses that are not; with the guard none of them is UB
example : trailingSlash "Length/".toList = true ∧ trailingSlash "/".toList = true ∧ trailingSlash "Length*Time/".toList = true ∧
    trailingSlash "/Length".toList = false ∧ trailingSlash "Length//".toList = false ∧ trailingSlash "".toList = false ∧
    parse (sys.UNIT_TYPE_FIELD Rat) "Length/" = none ∧ '/' ∉ "Length*Time".toList := by decide +kernel
-- string overloads on an offset dimension: 60 °F
example : toSIStr (sys.UNIT_TYPE_FIELD Rat) "Temperature" 60 = some ((60 + Spec.dec 45967 2) * 5 / 9) ∧
    fromSIStr (sys.UNIT_TYPE_FIELD Rat) "Temperature" ((60 + Spec.dec 45967 2) * 5 / 9) = some 60 := by decide +kernel
-- a context dependent item (NNC TRAN / WCONINJE RATE): hypotheses are satisfiable
def ctxWitness : Item Rat :=
  { dval := [100, 7], status := [.deckValue, .validDefault], rawData := true,
    active := [⟨none, 0⟩], dflt := [⟨none, 0⟩] }
example : ctxWitness.ContextDep := by
  refine ⟨rfl, by simp [ctxWitness], by simp [ctxWitness], ?_, ?_⟩ <;> simp [ctxWitness]
-- keyword items: some rows of the table the theorem ranges over, incl. a multi-column one
example : ("ZMFVD.0.DATA", ["Length", "1", "1"]) ∈ keywordItemDims ∧
    keywordItemDims.length > 1000 ∧ "Ymodule" ∈ keywordDimStrings := by decide +kernel
-- the open findings are real (the listed exceptions do fail: LIFT everywhere, RESV in FIELD only), the
-- repaired ones hold, and the pre-fix FieldProps entry would not ("Giga*Pascal" parses nowhere)
example : Spec.deckSystems.all (fun s => !Spec.udaOk s ("WCONPROD_LIFT", "gas_surface_rate")) = true ∧
    Spec.deckSystems.all (fun s => (parse s "Giga*Pascal").isNone) = true ∧
    Spec.udaOk (sys.UNIT_TYPE_FIELD Rat) ("WCONPROD_RESV", "geometric_volume_rate") = false ∧
    Spec.udaOk (sys.UNIT_TYPE_METRIC Rat) ("WCONPROD_RESV", "geometric_volume_rate") = true ∧
    Spec.udaOk (sys.UNIT_TYPE_FIELD Rat) ("WCONPROD_RESV", "rate") = true ∧
    ("GRID", "YMODULE", "Ymodule") ∈ fieldPropsUnits := by decide +kernel
-- summary: Mscf/day · day = Mscf, Mscf/day ÷ stb/day = Mscf/stb in FIELD
example : factorOf (sys.UNIT_TYPE_FIELD Rat) "gas_surface_rate" = Spec.day / Spec.mscf ∧
    ("gas_surface_rate", "liquid_surface_rate", "gas_oil_ratio") ∈ summaryDivUnit := by decide +kernel

end OpmVerif.Props.C02
