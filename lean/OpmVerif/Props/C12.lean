/-
  C12 — Cell property arrays equal sequential application of the keyword operations.

  Only property statements, one-line proofs from `Proofs/FieldProps.lean`, non-vacuity examples.
  Quantifiers: every grid size, every ACTNUM, every box, every region array, every element
  kernel (hence every operation), every scalar type `α` (no algebraic law is used: the
  refinement is structural, so it holds for IEEE doubles as well as for a field), every
  program (any number of keywords and records per section).
-/
import OpmVerif.Proofs.FieldProps
import OpmVerif.Proofs.FieldPropsIndep
import OpmVerif.Proofs.FieldPropsOperR
import OpmVerif.Proofs.FieldPropsReentry
import OpmVerif.Proofs.FieldPropsStatus
import OpmVerif.Proofs.FieldPropsTran

namespace OpmVerif.Props.C12
open OpmVerif.FieldProps

/-- `Box::initIndexList` enumerates exactly the active cells of the box, each once (no active
index twice), with the true active index, and the data index is the row-major position of the
cell inside the box — for any grid dimensions, ACTNUM and valid box. -/
theorem index_list_spec (D : Dims) (A : List Bool) (b : Box) (hv : b.Valid D) :
    IdxSpec A (boxSel D b) (indexList D A b) :=
  indexList_spec D A b hv

/-- … and the triples are produced in increasing data-index order. -/
theorem index_list_row_major (D : Dims) (A : List Bool) (b : Box) :
    ((indexList D A b).map (·.d)).Pairwise (· < ·) :=
  indexList_sorted D A b

/-- `FieldProps::region_index` over the compressed region array selects exactly the active
cells whose global region value matches. -/
theorem region_index_spec (A : List Bool) (reg : Arr Int) (r : Int) (hl : reg.length = A.length) :
    IdxSpec A (regionSel reg r) (regionIndex A (compress A reg) r) :=
  regionIndex_spec A reg r hl

/-- `region_index` as written (one pass with a running active index) is the closed form the
model uses; `Fieldprops::compress` as written (in-place shifting pass + resize) is the
abstraction function `compress`. -/
theorem loops_as_written (A : List Bool) (region : Arr Int) (r : Int) {β : Type} (x : List β)
    (hx : x.length = A.length) :
    regionIndexLoop region r A 0 0 = regionIndex A region r ∧ compressLoop A 0 0 x = compress A x :=
  ⟨regionIndexLoop_spec A region r, compressLoop_eq A x hx⟩

/-- `BoxManager`: after ANY history of setInputBox / endInputBox / setKeywordBox / endKeyword /
endSection calls (failed calls leave it unchanged and abort the fold), the index list of the
active box (keyword box, else input box, else global box) meets the specification. -/
theorem boxmanager_index_list_spec (D : Dims) (hD : DPos D) (A : List Bool) (ops : List MgrOp) (m : BoxMgr)
    (h : ops.foldl (fun (s : Option BoxMgr) op => s.bind fun x => (x.step D op)) (some ⟨none, none⟩) = some m) :
    IdxSpec A (boxSel D (m.active D)) (indexList D A (m.active D)) :=
  BoxMgr.index_list_spec D hD A ops m h

/-- `GridDims::getIJK` and `getGlobalIndex` are inverse to each other on the grid. -/
theorem ijk_global_bij (D : Dims) (g i j k : Nat) (hi : i < D.nx) (hj : j < D.ny) :
    D.globalIndex (D.ijk g).1 (D.ijk g).2.1 (D.ijk g).2.2 = g ∧ D.ijk (D.globalIndex i j k) = (i, j, k) :=
  ⟨globalIndex_ijk D g, ijk_globalIndex D i j k hi hj⟩

/-- One loop of the implementation over any index list that meets its specification computes
the compression of the map over the global grid, and rejects in exactly the same cases. -/
theorem loop_refines {α : Type} [Scalar α] (K : Kernel α) (A : List Bool) (sel : Nat → Option Nat)
    (L : List Idx) (hs : IdxSpec A sel L) (src tgt : Arr α)
    (hsrc : src.length = A.length) (htgt : tgt.length = A.length) :
    (refApply K A sel src tgt).map (compress A) = implApply K L (compress A src) (compress A tgt) :=
  apply_refines K A sel L hs src tgt hsrc htgt

/-- `op_refines` (box operations: data keywords, EQUALS, ADD, MULTIPLY, MINVALUE, MAXVALUE, COPY,
OPERATE — any kernel): `compress A (ref op g) = impl op (compress A g)`. -/
theorem op_refines_box {α : Type} [Scalar α] (D : Dims) (A : List Bool) (K : Kernel α) (b : Box)
    (hv : b.Valid D) (src tgt : Arr α) (hs : src.length = A.length) (ht : tgt.length = A.length) :
    boxApply .impl D A K b (compress A src) (compress A tgt) =
      (boxApply .ref D A K b src tgt).map (compress A) :=
  boxApply_impl D A K b hv src tgt hs ht

/-- `op_refines` (region operations: EQUALREG, ADDREG, MULTIREG, COPYREG, OPERATER). -/
theorem op_refines_region {α : Type} [Scalar α] (A : List Bool) (K : Kernel α) (reg : Arr Int) (r : Int)
    (hr : reg.length = A.length) (src tgt : Arr α) (hs : src.length = A.length) (ht : tgt.length = A.length) :
    regApply .impl A K (compress A reg) r (compress A src) (compress A tgt) =
      (regApply .ref A K reg r src tgt).map (compress A) :=
  regApply_impl A K reg r hr src tgt hs ht

/-- One keyword (with all its records, its box handling, keyword defaults, existence checks and
unit conversion) refines, and keeps the state well-formed. -/
theorem keyword_refines {α : Type} [RealOps α] (D : Dims) (hD : DPos D) (T : Tables α) (sec : Section)
    (p : St α × Box) (hp : PairOK D p) (k : Kw α) :
    (kwStep .ref D T sec p k).map cPair = kwStep .impl D T sec (cPair p) k ∧
    ∀ q, kwStep .ref D T sec p k = some q → PairOK D q :=
  kwStep_refines D hD T sec p hp k

/-- `program_refines`: the whole `FieldProps` constructor (GRID, EDIT with its multiplier
scratch arrays, ACTNUM update from ACTNUM/PORV with re-compression, REGIONS, PROPS, SOLUTION)
on active-only arrays is the compression of the reference run on the global grid, for programs
of any length; rejection coincides. -/
theorem program_refines {α : Type} [RealOps α] (D : Dims) (hD : DPos D) (T : Tables α) (s0 : St α)
    (hw : WF D s0) (P : Prog α) :
    (runProg .ref D T s0 P).map cSt = runProg .impl D T (cSt s0) P :=
  (runProg_refines D hD T s0 hw P).1

/-- … hence everything the public API shows (accept/reject, final ACTNUM, for every keyword
validity, active cells with status, `get_global`) is the same under both semantics.  This is
the function the correspondence driver evaluates; it includes the separate global storage the
code keeps for `global` keywords (PERMX/Y/Z, MULTZ, MULTZ-), which both semantics share. -/
theorem observable_result_refines {α : Type} [RealOps α] (D : Dims) (hD : DPos D) (T : Tables α)
    (A : List Bool) (hA : A.length = D.size) (P : Prog α) :
    runObserveG .ref D T A P = runObserveG .impl D T A P :=
  runObserveG_refines D hD T A hA P

/-- The same for `EclipseState(deck)` as a whole: the ACTNUM-only pre-pass (scratch FieldProps
with all cells active over the ACTNUM keyword, EQUALS and BOX/ENDBOX of the GRID section) that
gives the grid its ACTNUM, then the constructor, then the observation. -/
theorem eclipse_state_refines {α : Type} [RealOps α] (D : Dims) (hD : DPos D) (T : Tables α) (P : Prog α) :
    runDeck .ref D T P = runDeck .impl D T P :=
  runDeck_refines D hD T P

/-- `inactive_independence` for one operation (any kernel, any selection): the same operation on
the same global contents under two ACTNUMs leaves the same content in every cell active in both. -/
theorem inactive_independence_per_operation {α : Type} [Scalar α] (K : Kernel α) (A A' : List Bool)
    (sel : Nat → Option Nat) (L L' : List Idx) (hs : IdxSpec A sel L) (hs' : IdxSpec A' sel L')
    (src tgt : Arr α) (hsrc : src.length = A.length) (htgt : tgt.length = A.length)
    (hAA : A'.length = A.length) (y y' : Arr α)
    (hy : implApply K L (compress A src) (compress A tgt) = some y)
    (hy' : implApply K L' (compress A' src) (compress A' tgt) = some y')
    (g : Nat) (hg : isActive A g = true) (hg' : isActive A' g = true) :
    y[rank A g]? = y'[rank A' g]? :=
  indep_one_op K A A' sel L L' hs hs' src tgt hsrc htgt hAA y y' hy hy' g hg hg'

/-- **`inactive_independence` for whole programs of any length (OPERATER included), implementation
semantics, STORES**: if the same program is accepted under two ACTNUMs `A` and `A'` (any two, not only
`A ⊆ A'`), then the same arrays are stored in both final states and at every global cell `g` that is
active at the end of both runs every stored array holds the same value and status (cell `g` is found at
active index `rank t.act g` resp. `rank t'.act g`).

Top-layer keywords (PORO, PERMX/Y/Z in GRID) are included: since fix 0679405ff the top layer is read
from all cells of the box, active or not.  OPERATER is included: since fix bf5bceae1 it fetches (creates)
its source array before it looks at the region, so the set of stored arrays no longer depends on the
ACTNUM. -/
theorem inactive_independence_stores {α : Type} [RealOps α] (D : Dims) (hD : DPos D) (T : Tables α)
    (P : Prog α) (A A' : List Bool) (hA : A.length = D.size)
    (hA' : A'.length = D.size) (t t' : St α)
    (h : runProg .impl D T (initSt A) P = some t) (h' : runProg .impl D T (initSt A') P = some t')
    (g : Nat) (hg : g < D.size) (hact : isActive t.act g = true) (hact' : isActive t'.act g = true) :
    smap (fun x => cellAt x (rank t.act g)) t.dbls = smap (fun x => cellAt x (rank t'.act g)) t'.dbls ∧
    smap (fun x => cellAt x (rank t.act g)) t.ints = smap (fun x => cellAt x (rank t'.act g)) t'.ints :=
  runProg_indep_impl D hD T P A A' hA hA' t t' h h' g hg hact hact'

/-- The statement of the earlier rounds (kept verbatim): the same with the hypothesis `P.NoOperR`, which
is no longer needed — a corollary of `inactive_independence_stores`. -/
theorem inactive_independence_partial {α : Type} [RealOps α] (D : Dims) (hD : DPos D) (T : Tables α)
    (P : Prog α) (_hP : P.NoOperR) (A A' : List Bool) (hA : A.length = D.size)
    (hA' : A'.length = D.size) (t t' : St α)
    (h : runProg .impl D T (initSt A) P = some t) (h' : runProg .impl D T (initSt A') P = some t')
    (g : Nat) (hg : g < D.size) (hact : isActive t.act g = true) (hact' : isActive t'.act g = true) :
    smap (fun x => cellAt x (rank t.act g)) t.dbls = smap (fun x => cellAt x (rank t'.act g)) t'.dbls ∧
    smap (fun x => cellAt x (rank t.act g)) t.ints = smap (fun x => cellAt x (rank t'.act g)) t'.ints :=
  runProg_indep_impl D hD T P A A' hA hA' t t' h h' g hg hact hact'

/-- **`inactive_independence`, full shape: whole programs of any length WITH OPERATER**, any two ACTNUMs.
If the same program is accepted under `A` and `A'`, then at every global cell `g` active at the end of
both runs, what `init_get<double>(kw)` / `init_get<int>(kw)` returns (the stored array, or the freshly
initialised one when the keyword has not been stored — the only way any reader, including
`get_double`/`get_int`, sees the store) has the same value and status, for every keyword of the tables.
(Proved in round 3 against the code before bf5bceae1, where the stores themselves could differ; with the
fixed code the stores agree — `inactive_independence_stores` — and this statement also follows from that.)

`TablesOK T` is a hypothesis on the keyword tables only: no keyword called `__MULT__…`, every double
keyword declared once, ACTNUM an integer keyword with default 1.  It is decidable
(`tables_hypothesis_decidable`) and the driver evaluates it on the tables read from the real
`keyword_info` on every correspondence case. -/
theorem inactive_independence {α : Type} [RealOps α] (D : Dims) (hD : DPos D) (T : Tables α) (hT : TablesOK T)
    (P : Prog α) (A A' : List Bool) (hA : A.length = D.size) (hA' : A'.length = D.size) (t t' : St α)
    (h : runProg .impl D T (initSt A) P = some t) (h' : runProg .impl D T (initSt A') P = some t')
    (g : Nat) (hg : g < D.size) (hact : isActive t.act g = true) (hact' : isActive t'.act g = true) :
    (∀ kw info, sget T.dbl kw = some info →
      cellAt (getD .impl D t kw info).2 (rank t.act g) = cellAt (getD .impl D t' kw info).2 (rank t'.act g)) ∧
    (∀ kw init, sget T.int kw = some init →
      cellAt (getI .impl D t kw init).2 (rank t.act g) = cellAt (getI .impl D t' kw init).2 (rank t'.act g)) :=
  runProg_indep_impl_views D hD T hT P A A' hA hA' t t' h h' g hg hact hact'

/-- The hypothesis of `inactive_independence` on the tables follows from the Boolean check
`tablesOkB` the driver runs on the real tables of every case. -/
theorem tables_hypothesis_decidable {α : Type} [RealOps α] (T : Tables α) (h : tablesOkB T = true) : TablesOK T :=
  tablesOK_of_check T h

/-- Monotonicity of the one-cell semantics in its start state: if the projection of the start state is
below `a0` (`VLe`: same stored cells; extra arrays hold the freshly initialised cell), the one-cell run
from `a0` is accepted and stays above the projection of the accepted reference run. -/
theorem active_cell_view_evolves_alone {α : Type} [RealOps α] (g : Nat) (D : Dims) (hD : DPos D) (T : Tables α)
    (hT : TablesOK T) (hg : g < D.size) (s0 : St α) (hw : WF D s0) (a0 : St1 α) (hv : VLe T (proj g s0) a0)
    (P : Prog α) (s : St α) (h : runProg .ref D T s0 P = some s) (hact : isActive s.act g = true) :
    ∃ z, runProg1 g D T a0 P = some z ∧ VLe T (proj g s) z :=
  runProg_sim g D hD T hT hg s0 hw a0 hv P s h hact

/-- The reason behind it: in an accepted reference run the content of an active cell evolves by
a one-cell semantics (`runProg1`) that sees neither the ACTNUM nor any other cell — every keyword,
OPERATER included (hypothesis `P.NoOperR` of the earlier rounds dropped). -/
theorem active_cell_evolves_alone {α : Type} [RealOps α] (g : Nat) (D : Dims) (hD : DPos D) (T : Tables α)
    (hg : g < D.size) (s0 : St α) (hw : WF D s0) (P : Prog α) (s : St α)
    (h : runProg .ref D T s0 P = some s) (hact : isActive s.act g = true) :
    runProg1 g D T (proj g s0) P = some (proj g s) :=
  runProg_proj g D hD T hg s0 hw P s h hact

/-! ### The semantics the code has (pinned as the reference) -/

/-- ADD / MULTIPLY / MINVALUE / MAXVALUE (and the region forms) touching an uninitialised
ACTIVE cell reject the whole operation. -/
theorem add_multiply_on_uninitialised_rejected {α : Type} [Scalar α] (op : ScalarOp) (hop : op ≠ .equal)
    (x : α) (L : List Idx) (tgt : Arr α) (e : Idx) (he : e ∈ L)
    (hu : (cellAt tgt e.a).st.hasValue = false) : implApply (scalarKernel op x) L tgt tgt = none :=
  implApply_rejects _ L tgt tgt e he (scalar_bad_uninit op hop x e.d _ _ hu)

/-- EQUALS never rejects and sets value and status `deck_value`. -/
theorem equals_sets_deck_value {α : Type} [Scalar α] (x : α) (d : Nat) (s t : Cell α) :
    (scalarKernel .equal x).bad d s t = false ∧ (scalarKernel .equal x).upd d s t = ⟨.deckValue, x⟩ :=
  ⟨rfl, rfl⟩

/-- MINVALUE / MAXVALUE clamp initialised cells (status kept) … -/
theorem minvalue_maxvalue_clamp {α : Type} [Scalar α] (x : α) (d : Nat) (s t : Cell α)
    (ht : t.st.hasValue = true) :
    (scalarKernel .min x).upd d s t = ⟨t.st, stdMax t.v x⟩ ∧
    (scalarKernel .max x).upd d s t = ⟨t.st, stdMin t.v x⟩ :=
  ⟨minvalue_clamps x d s t ht, maxvalue_clamps x d s t ht⟩

/-- … and never write an uninitialised cell. -/
theorem minvalue_leaves_uninitialised {α : Type} [Scalar α] (op : ScalarOp) (hop : op ≠ .equal) (x : α)
    (d : Nat) (s t : Cell α) (ht : t.st.hasValue = false) : (scalarKernel op x).upd d s t = t :=
  minmax_skip_uninit op x d s t ht hop

/-- A defaulted deck entry with a default value only fills uninitialised cells; an explicit
deck value always overwrites; an empty default does nothing. -/
theorem deck_default_only_fills_uninitialised {α : Type} [Scalar α] (deck : Arr α) (d : Nat) (s t : Cell α) :
    ((cellAt deck d).st = .validDefault →
      (assignKernel deck).upd d s t = if t.st = .uninit then cellAt deck d else t) ∧
    ((cellAt deck d).st = .deckValue → (assignKernel deck).upd d s t = cellAt deck d) ∧
    ((cellAt deck d).st = .emptyDefault → (assignKernel deck).upd d s t = t) :=
  ⟨deck_default_fills_only_uninit deck d s t, deck_value_overwrites deck d s t, empty_default_ignored deck d s t⟩

/-- **Sequential application, cell by cell**: one loop of the implementation over an index list that
meets its specification applies the kernel exactly ONCE to every listed active cell and writes no
other cell of the array. -/
theorem loop_touches_listed_cells_once {α : Type} [Scalar α] (K : Kernel α) (A : List Bool)
    (sel : Nat → Option Nat) (L : List Idx) (hs : IdxSpec A sel L) (src tgt y : Arr α)
    (hl : tgt.length = nactive A) (h : implApply K L src tgt = some y) :
    (∀ e ∈ L, cellAt y e.a = K.upd e.d (cellAt src e.a) (cellAt tgt e.a)) ∧
    (∀ a, (∀ e ∈ L, e.a ≠ a) → cellAt y a = cellAt tgt a) :=
  ⟨fun e he => implApply_inside K L hs.nodup src tgt y h e he (by
      obtain ⟨ha, _, hr⟩ := (hs.mem e).1 he
      rw [hl, hr]; exact rank_lt_nactive A e.g ha),
   fun a ha => implApply_outside K L src tgt y h a ha⟩

/-- **Keyword re-entry with `n*` defaults**: assigning an array again with a data keyword all of whose
entries are defaulted (with or without keyword default), in any box under any ACTNUM, leaves every
initialised cell of the array unchanged (value AND status); a still uninitialised cell of the box takes
the entry when it carries a keyword default. -/
theorem reentry_with_defaults {α : Type} [Scalar α] (A : List Bool) (sel : Nat → Option Nat) (L : List Idx)
    (hs : IdxSpec A sel L) (deck : Arr α) (hd : ∀ c ∈ deck, c.st ≠ .deckValue) (tgt y : Arr α)
    (hl : tgt.length = nactive A) (h : implApply (assignKernel deck) L tgt tgt = some y) :
    (∀ a, (cellAt tgt a).st ≠ .uninit → cellAt y a = cellAt tgt a) ∧
    (∀ e ∈ L, (cellAt tgt e.a).st = .uninit → (cellAt deck e.d).st = .validDefault →
      cellAt y e.a = cellAt deck e.d) :=
  reentry_defaults deck hd L hs.nodup tgt y (fun e he => by
    obtain ⟨ha, _, hr⟩ := (hs.mem e).1 he
    rw [hl, hr]; exact rank_lt_nactive A e.g ha) h

/-! ### `value_status` as a state machine, box carry-over -/

/-- **Status transitions of one cell** (`StatusStep a b`: a cell that has a value never loses it, and
`empty_default` is never produced): every element kernel — EQUALS/ADD/MULTIPLY/MINVALUE/MAXVALUE and the
region forms, data keywords, COPY/COPYREG, OPERATE/OPERATER — moves the status of the target cell only
along `StatusStep`. -/
theorem status_transitions {α : Type} [Scalar α] (d : Nat) (s t : Cell α) :
    (∀ op x, StatusStep t.st ((scalarKernel op x).upd d s t).st) ∧
    (∀ deck, StatusStep t.st ((assignKernel deck).upd d s t).st) ∧
    StatusStep t.st ((copyKernel : Kernel α).upd d s t).st ∧
    (∀ fn chk, StatusStep t.st ((operateKernel fn chk).upd d s t).st) :=
  kernel_status_step d s t

/-- A `deck_value` cell stays `deck_value` under every kernel except OPERATE (which copies the status of
its SOURCE cell) … -/
theorem deck_value_is_sticky {α : Type} [Scalar α] (d : Nat) (s t : Cell α) (h : t.st = .deckValue) :
    (∀ op x, ((scalarKernel op x).upd d s t).st = .deckValue) ∧
    (∀ deck, ((assignKernel deck).upd d s t).st = .deckValue) ∧
    ((copyKernel : Kernel α).upd d s t).st = .deckValue :=
  deck_value_sticky d s t h

/-- … and `valid_default` arises from a data keyword only in an uninitialised cell hit by an entry that
carries a keyword default. -/
theorem valid_default_from_assignment {α : Type} [Scalar α] (deck : Arr α) (d : Nat) (s t : Cell α)
    (h : ((assignKernel deck).upd d s t).st = .validDefault) :
    t.st = .validDefault ∨ (t.st = .uninit ∧ (cellAt deck d).st = .validDefault) :=
  valid_default_origin_assign deck d s t h

/-- "Distribute top layer" at one cell: only an uninitialised cell is written, it becomes
`valid_default` with the top-layer value; without a top-layer value nothing happens.  And the whole step
is skipped once the array is fully defined. -/
theorem toplayer_cell_and_guard {α : Type} [RealOps α] (tv : Option α) (v : α) (c : Cell α)
    (m : Mode) (D : Dims) (A : List Bool) (sec : Section) (info : DInfo α) (b : Box) (deck y : Arr α) :
    ((c.st ≠ .uninit → topCell tv c = c) ∧ (c.st = .uninit → topCell (some v) c = ⟨.validDefault, v⟩) ∧
      topCell (none : Option α) c = c ∧ StatusStep c.st (topCell tv c).st) ∧
    (validArr m A y = true → topStep m D A sec info b deck y = y) ∧
    (¬ (sec = .grid ∧ info.top = true) → topStep m D A sec info b deck y = y) :=
  ⟨topCell_spec tv v c, topStep_valid m D A sec info b deck y, topStep_noop m D A sec info b deck y⟩

/-- **Invariant of every accepted run, either semantics, programs of any length**: no stored array ever
holds an `empty_default` cell … -/
theorem no_empty_default_stored {α : Type} [RealOps α] (m : Mode) (D : Dims) (T : Tables α) (A : List Bool)
    (P : Prog α) (t : St α) (h : runProg m D T (initSt A) P = some t) : NoEmpty t :=
  runProg_noEmpty_any m D T A P t h

/-- … hence `FieldData::valid()` of a stored array is exactly "no uninitialised cell". -/
theorem valid_iff_fully_initialised {α : Type} [RealOps α] (m : Mode) (D : Dims) (T : Tables α) (A : List Bool)
    (P : Prog α) (t : St α) (h : runProg m D T (initSt A) P = some t) (kw : String) (x : Arr α)
    (hx : sget t.dbls kw = some x) :
    validArr .impl t.act x = x.all (fun c => decide (c.st ≠ .uninit)) :=
  valid_iff_no_uninit_run m D T A P t h kw x hx

/-- **No keyword un-defines a cell**: through any keyword (all its records) every stored double array is
still stored and every cell that had a value still has one. -/
theorem defined_cells_stay_defined {α : Type} [RealOps α] (D : Dims) (T : Tables α) (sec : Section)
    (p : St α × Box) (k : Kw α) (q : St α × Box) (h : kwStep .ref D T sec p k = some q)
    (name : String) (x : Arr α) (hx : sget p.1.dbls name = some x) :
    ∃ y, sget q.1.dbls name = some y ∧
      ∀ g, (cellAt x g).st.hasValue = true → (cellAt y g).st.hasValue = true :=
  kwStep_hasValue_mono D T sec p k q h name x hx

/-- **Box carry-over inside a keyword**: a record with all six box items defaulted reuses the box of the
PREVIOUS record; any other record's box does not depend on the current box at all (defaulted items mean
the full grid extent); each record hands its box to the next record. -/
theorem record_box_carry_over {α : Type} [RealOps α] (m : Mode) (D : Dims) (T : Tables α) (sec : Section)
    (op : ScalarOp) (b b' : Box) (r : BoxItems) (sb q : St α × Box) (rec : ScalarRec α) :
    (r.allDefault = true → Box.update D b r = some b) ∧
    (r.allDefault = false → Box.update D b r = Box.update D b' r) ∧
    (scalarRec m D T sec op sb rec = some q → Box.update D sb.2 rec.box = some q.2) :=
  ⟨update_allDefault D b r, update_indep_of_current D b b' r, scalarRec_box m D T sec op sb rec q⟩

/-- **Box carry-over across keywords**: record boxes never leak out of a keyword — after any keyword
list the section box is `boxTrack`, which only BOX (update) and ENDBOX (global box) move; and every
section starts from the global box. -/
theorem section_box_carry_over {α : Type} [RealOps α] (m : Mode) (D : Dims) (T : Tables α) (sec : Section)
    (ks : List (Kw α)) (p q : St α × Box) (s : St α) :
    (foldRecs (kwStep m D T sec) p ks = some q → q.2 = boxTrack D p.2 ks) ∧
    scanSection m D T sec s ks =
      (foldRecs (kwStep m D T sec) (s, Box.global D) ks).map
        (fun r => if sec = .edit then applyMultipliers m D T r.1 else r.1) :=
  ⟨foldRecs_kwStep_box m D T sec ks p q, scanSection_fresh_box m D T sec s ks⟩

/-! ### Non-vacuity: a 3×2×2 grid with interior inactive cells, a proper sub-box, and a
three-section program run under both semantics. -/

def sampleD : Dims := ⟨3, 2, 2⟩
def sampleA : List Bool := [true, false, true, true, true, false, false, true, true, true, false, true]
def sampleB : Box := ⟨1, 0, 0, 2, 2, 2⟩

example : sampleB.Valid sampleD := by simp [Box.Valid, sampleB, sampleD]
example : DPos sampleD := by simp [DPos, sampleD]
example : sampleA.length = sampleD.size := by decide
example : indexList sampleD sampleA sampleB =
    [⟨2, 1, 1⟩, ⟨4, 3, 2⟩, ⟨7, 4, 4⟩, ⟨8, 5, 5⟩, ⟨11, 7, 7⟩] := by decide
example : [MgrOp.setInput 1 2 0 1 0 1, .setKeyword 1 1 1 1 0 0, .endKeyword].foldl
    (fun (s : Option BoxMgr) op => s.bind fun x => (x.step sampleD op)) (some ⟨none, none⟩) =
    some ⟨some sampleB, none⟩ := by decide
-- re-entry: an array over the 8 active cells, cells 1 and 3 initialised, re-entered in `sampleB` with defaults
example : (∀ c ∈ ([⟨.validDefault, 7⟩, ⟨.emptyDefault, 0⟩, ⟨.validDefault, 7⟩, ⟨.validDefault, 7⟩,
    ⟨.validDefault, 7⟩, ⟨.validDefault, 7⟩, ⟨.validDefault, 7⟩, ⟨.validDefault, 7⟩] : Arr Int), c.st ≠ .deckValue) := by decide
example : implApply (assignKernel ([⟨.validDefault, 7⟩, ⟨.emptyDefault, 0⟩, ⟨.validDefault, 7⟩, ⟨.validDefault, 7⟩,
      ⟨.validDefault, 7⟩, ⟨.validDefault, 7⟩, ⟨.validDefault, 7⟩, ⟨.validDefault, 7⟩] : Arr Int))
    (indexList sampleD sampleA sampleB)
    [blank, ⟨.deckValue, 5⟩, blank, ⟨.validDefault, 2⟩, blank, blank, blank, blank]
    [blank, ⟨.deckValue, 5⟩, blank, ⟨.validDefault, 2⟩, blank, blank, blank, blank] =
    some [blank, ⟨.deckValue, 5⟩, blank, ⟨.validDefault, 2⟩, ⟨.validDefault, 7⟩, ⟨.validDefault, 7⟩, blank, ⟨.validDefault, 7⟩] := by
  decide
example : compressLoop sampleA 0 0 (List.range 12) = [0, 2, 3, 4, 7, 8, 9, 11] := by decide
example : regionIndexLoop [⟨.deckValue, 5⟩, ⟨.deckValue, 7⟩, ⟨.deckValue, 5⟩] 5 [true, false, true, true] 0 0 =
    [⟨0, 0, 0⟩, ⟨3, 2, 3⟩] := by decide

instance : RealOps Int where
  one := 1
  ten := 10
  div := (· / ·)
  pow := fun a b => a ^ b.toNat
  log10 := id
  log := id
  abs := fun a => (a.natAbs : Int)
  trunc := id
  isZero := fun a => decide (a = 0)

def sampleT : Tables Int :=
  ⟨[("PORO", ⟨none, false, true, true, 1, 0, false⟩), ("NTG", ⟨some 1, false, false, false, 1, 0, false⟩)],
   [("ACTNUM", some 1), ("SATNUM", some 1), ("FLUXNUM", none)]⟩

def noBox : BoxItems := ⟨none, none, none, none, none, none⟩

def sampleP : Prog Int :=
  { grid := [.scalar .equal [⟨"PORO", 3, noBox⟩, ⟨"FLUXNUM", 2, ⟨some 2, some 3, none, none, none, none⟩⟩],
             .scalar .equal [⟨"FLUXNUM", 1, ⟨some 1, some 1, none, none, none, none⟩⟩],
             .regScalar .add [⟨"PORO", 4, 2, some "F"⟩],
             .operate [⟨"NTG", noBox, "MULTA", "PORO", 2, 1⟩]],
    edit := [], props := [],
    regions := [.box ⟨some 1, some 2, some 1, some 1, some 2, some 2⟩, .dataI "SATNUM" [⟨.deckValue, 7⟩, ⟨.deckValue, 8⟩]],
    solution := [] }

-- both semantics accept the sample program and show the same result
example : (runObserveG .impl sampleD sampleT sampleA sampleP).isSome = true := by decide +kernel
example : runObserveG .ref sampleD sampleT sampleA sampleP = runObserveG .impl sampleD sampleT sampleA sampleP := by
  decide +kernel

/-! ### "Distribute top layer" (finding 2, fixed in the code by 0679405ff): 1×1×2 grid, a `top`
keyword KY: layer 1 gets 100 in a one-cell box, layer 2 then gets a defaulted entry (default 0).
The lower cell keeps the copied-down 100 whether or not the top cell is active. -/

def topD : Dims := ⟨1, 1, 2⟩
def topT : Tables Int := ⟨[("KY", ⟨none, false, true, false, 1, 0, false⟩)], [("ACTNUM", some 1)]⟩
def topP : Prog Int :=
  { grid := [.box ⟨some 1, some 1, some 1, some 1, some 1, some 1⟩, .dataD "KY" [⟨.deckValue, 100⟩], .endbox,
             .box ⟨some 1, some 1, some 1, some 1, some 2, some 2⟩, .dataD "KY" [⟨.validDefault, 0⟩]],
    edit := [], props := [], regions := [], solution := [] }

example :
    (runProg .impl topD topT (initSt [true, true]) topP).map (fun t => sget t.dbls "KY") =
      some (some [⟨.deckValue, 100⟩, ⟨.validDefault, 100⟩]) ∧
    (runProg .impl topD topT (initSt [false, true]) topP).map (fun t => sget t.dbls "KY") =
      some (some [⟨.validDefault, 100⟩]) := by
  decide +kernel

-- the hypothesis of `inactive_independence_partial` is satisfiable: the sample program (with a top keyword)
example : sampleP.NoOperR := by
  simp [Prog.NoOperR, sampleP, Kw.noOperR]

/-! ### OPERATER (code as fixed by bf5bceae1): 1×1×2 grid, OPERNUM = 1, 2; `OPERATER NTG 2 MULTX MULTZ 3`
(region 2 of OPERNUM, source MULTZ not stored yet).  With both cells active the region has an active
cell and the record is applied; with the lower cell inactive the record is skipped — but MULTZ is stored
in BOTH runs (before the fix it was stored only in the first), and the upper cell (active in both) shows
NTG = default 1 and MULTZ = default 1 in both. -/

def opD : Dims := ⟨1, 1, 2⟩
def opT : Tables Int :=
  ⟨[("NTG", ⟨some 1, false, false, false, 1, 0, false⟩), ("MULTZ", ⟨some 1, true, false, true, 1, 0, false⟩)],
   [("ACTNUM", some 1), ("OPERNUM", some 1)]⟩
def opP : Prog Int :=
  { grid := [.scalar .equal [⟨"OPERNUM", 2, ⟨none, none, none, none, some 2, some 2⟩⟩],
             .operateR [⟨"NTG", 2, "MULTX", "MULTZ", 3, 0, "OPERNUM"⟩]],
    edit := [], props := [], regions := [], solution := [] }

example : TablesOK opT := tablesOK_of_check opT (by decide +kernel)
example : TablesOK sampleT := tablesOK_of_check sampleT (by decide +kernel)

example :
    (runProg .impl opD opT (initSt [true, true]) opP).map (fun t => t.dbls) =
      some [("NTG", [⟨.validDefault, 1⟩, ⟨.validDefault, 3⟩]), ("MULTZ", [⟨.validDefault, 1⟩, ⟨.validDefault, 1⟩])] ∧
    (runProg .impl opD opT (initSt [true, false]) opP).map (fun t => t.dbls) =
      some [("NTG", [⟨.validDefault, 1⟩]), ("MULTZ", [⟨.validDefault, 1⟩])] := by
  decide +kernel

-- status machine / box carry-over instances
example : StatusStep .uninit .validDefault ∧ StatusStep .validDefault .deckValue ∧ ¬ StatusStep .deckValue .uninit ∧
    ¬ StatusStep .uninit .emptyDefault := by decide
example : (runProg .impl sampleD sampleT (initSt sampleA) sampleP).isSome = true := by decide +kernel
-- a boxed record, then an all-defaulted record (reuses that box), then a keyword (sees the section box again)
example : boxTrack sampleD (Box.global sampleD)
    ([.scalar .equal [⟨"PORO", 1, ⟨some 2, some 3, none, none, none, none⟩⟩, ⟨"PORO", 2, noBox⟩],
      .box ⟨some 2, some 3, some 1, some 2, some 1, some 2⟩, .scalar .add [⟨"PORO", 1, noBox⟩], .endbox] : List (Kw Int)) =
    Box.global sampleD ∧
    Box.update sampleD sampleB noBox = some sampleB ∧
    Box.update sampleD sampleB ⟨some 2, none, none, none, none, none⟩ = some ⟨1, 0, 0, 2, 2, 2⟩ := by decide

/-! ## Transmissibility calculators (`TranCalculator` action lists, `apply_tran`) and SCHEDULE multipliers -/

section TranCalc
open OpmVerif.FieldProps.Tran

/-- **An empty action list is the identity** and reports `tran_active = false`: with no TRAN edit the array
the simulator hands in comes back unchanged. -/
theorem tran_empty_list_is_identity {α : Type} [Scalar α] (m : Mode) (A0 A1 : List Bool) (x data : List α) (d : Nat) :
    applyTran ([] : List (Action α)) x = x ∧
    (observeTran m A0 A1 ([] : Rec α) data d).active = false ∧
    (observeTran m A0 A1 ([] : Rec α) data d).out = compress A1 data := by
  refine ⟨rfl, rfl, ?_⟩
  cases m <;> rfl

/-- **Applying the recorded list = folding the keywords in input order.**  For every keyword list of the EDIT
section (any length, any boxes, TRAN records mixed with records of ordinary arrays, the same keyword any number of
times), every direction `d` and every array `x` handed in: if the section is accepted and `cs` is the recorded
list, then `apply_tran` with `cs` equals `effect`: keyword after keyword in INPUT ORDER, each applying exactly the
actions it recorded itself (`effect` is defined by recursion on the keyword list, left to right). -/
theorem tran_recorded_list_is_fold_in_input_order {α : Type} [Scalar α] (m : Mode) (D : Dims) (A : List Bool)
    (C : Consts α) (ks : List (TKw α)) (cs : Rec α) (h : scanTran m D A C ks = some cs) (d : Nat) (x : List α) :
    applyTran (calcOf cs d) x = effect m D A C d ([], Box.global D) ks x := by
  unfold scanTran at h
  cases hf : foldRecs (tkwStep m D A C) ([], Box.global D) ks with
  | none => rw [hf] at h; exact absurd h (by simp)
  | some r =>
    rw [hf] at h
    cases h
    exact scan_is_fold m D A C d ks _ r hf x

/-- the action lists compose: what was recorded first is applied first -/
theorem tran_actions_apply_in_recording_order {α : Type} [Scalar α] (a b : List (Action α)) (x : List α) :
    applyTran (a ++ b) x = applyTran b (applyTran a x) :=
  applyTran_append a b x

/-- **Cell by cell**: `apply_tran` keeps the length of the array handed in, and its cell `i` is the value handed in
for cell `i` taken through the actions in recording order, each action looking only at cell `i` of ITS scratch
array (`apply_action` if that scratch cell has a value, nothing otherwise).  No other cell is read or written. -/
theorem tran_cell_by_cell {α : Type} [Scalar α] (acts : List (Action α)) (x : List α) (i : Nat) :
    (applyTran acts x).length = x.length ∧
    (applyTran acts x)[i]? = (x[i]?).map fun v => acts.foldl (fun v a => cellStep a i v) v :=
  ⟨applyTran_length acts x, applyTran_getElem? acts x i⟩

/-- **Keywords that name no TRAN array record nothing**: BOX / ENDBOX and operation keywords all of whose records
name ordinary arrays leave every calculator empty, whatever their boxes — so edits of ordinary arrays interleaved
with TRAN edits never show up in `apply_tran`. -/
theorem tran_untouched_by_other_keywords {α : Type} [Scalar α] (m : Mode) (D : Dims) (A : List Bool) (C : Consts α)
    (ks : List (TKw α)) (hk : ∀ k ∈ ks, k.namesTran = false) (cs : Rec α) (h : scanTran m D A C ks = some cs) :
    cs = [] := by
  unfold scanTran at h
  cases hf : foldRecs (tkwStep m D A C) ([], Box.global D) ks with
  | none => rw [hf] at h; exact absurd h (by simp)
  | some r =>
    rw [hf] at h
    cases h
    exact no_tran_keyword_records_nothing m D A C ks hk _ r hf

/-- **The loops that fill the scratch arrays and the SCHEDULE multipliers refine**: the three kernels the new
models run over a box — the scalar kernel of a TRAN operation record into its scratch array, `assign_deck` of a
TRANX/Y/Z data keyword, `multiply_deck` of a SCHEDULE-section multiplier — computed on the active-only arrays
through `Box::index_list` equal the compression of the map over the global grid (instances of `op_refines_box`,
which holds for every kernel). -/
theorem tran_scratch_and_schedule_loops_refine {α : Type} [Scalar α] (D : Dims) (A : List Bool) (b : Box)
    (hv : b.Valid D) (tgt : Arr α) (ht : tgt.length = A.length) (op : ScalarOp) (v : α) (deck : Arr α) :
    boxApply .impl D A (scalarKernel op v) b (compress A tgt) (compress A tgt) =
      (boxApply .ref D A (scalarKernel op v) b tgt tgt).map (compress A) ∧
    boxApply .impl D A (assignKernel deck) b (compress A tgt) (compress A tgt) =
      (boxApply .ref D A (assignKernel deck) b tgt tgt).map (compress A) ∧
    boxApply .impl D A (multiplyKernel deck) b (compress A tgt) (compress A tgt) =
      (boxApply .ref D A (multiplyKernel deck) b tgt tgt).map (compress A) :=
  ⟨op_refines_box D A _ b hv tgt tgt ht ht, op_refines_box D A _ b hv tgt tgt ht ht,
   op_refines_box D A _ b hv tgt tgt ht ht⟩

/-- **SCHEDULE multipliers restart from one**: `handle_schedule_keywords` with no data keyword leaves every
multiplier array that exists at 1 (status `valid_default`), and creates none. -/
theorem schedule_without_keywords_resets_to_one {α : Type} [Scalar α] (m : Mode) (D : Dims) (A : List Bool) (one : α)
    (s : List (String × Arr α)) :
    schedApply m D A one s [] = some (smap (fun x : Arr α => x.map fun _ => (⟨.validDefault, one⟩ : Cell α)) s) := rfl

-- non-vacuity: 3×1×1 grid, middle cell inactive; ADD TRANX 5 over the grid, then in ONE keyword
-- `MULTIPLY TRANX 2 (cells 1-2)`, `MULTIPLY MULTX 7 (cell 3)` (ordinary), `MULTIPLY TRANX 3` (all-defaulted record:
-- the box of the record before, cell 3), then a TRANX data keyword `1* 1* 9`; TRANY untouched.
def tD : Dims := ⟨3, 1, 1⟩
def tA : List Bool := [true, false, true]
def tC : Consts Int := ⟨1, 1000000, -1000000, 1⟩
def tKs : List (TKw Int) :=
  [.oper .add [⟨0, 5, noBox⟩],
   .oper .mul [⟨0, 2, ⟨some 1, some 2, none, none, none, none⟩⟩, ⟨3, 7, ⟨some 3, some 3, none, none, none, none⟩⟩, ⟨0, 3, noBox⟩],
   .data 0 [⟨.emptyDefault, 0⟩, ⟨.emptyDefault, 0⟩, ⟨.deckValue, 9⟩]]

example : (runTran .impl tD tA tA tC tKs [10, 20, 30]).map (fun o => o.map fun t => (t.active, t.actions.map (·.2), t.out)) =
    some [(true, ["TRANX0", "TRANX1", "TRANX2"], [30, 9]), (false, [], [10, 30]), (false, [], [10, 30])] := by
  decide +kernel
example : (runTran .ref tD tA tA tC tKs [10, 20, 30]).map (fun o => o.map fun t => t.out) =
    (runTran .impl tD tA tA tC tKs [10, 20, 30]).map (fun o => o.map fun t => t.out) := by
  decide +kernel
-- the fold of `tran_recorded_list_is_fold_in_input_order` on this instance, and its hypothesis
example : (scanTran .impl tD tA tC tKs).isSome = true ∧
    effect .impl tD tA tC 0 ([], Box.global tD) tKs [10, 30] = [30, 9] := by decide +kernel
example : ∀ k ∈ ([.box noBox, .oper .mul [⟨3, 7, noBox⟩], .endbox] : List (TKw Int)), k.namesTran = false := by decide
-- SCHEDULE: MULTX exists with values 4, 5; `MULTX 2 1* 3` twice multiplies 1·2·2 and 1·3·3 into the active cells
example : schedApply .impl tD tA (1 : Int) [("MULTX", [⟨.deckValue, 4⟩, ⟨.deckValue, 5⟩])]
    [.data "MULTX" [⟨.deckValue, 2⟩, ⟨.validDefault, 1⟩, ⟨.deckValue, 3⟩],
     .data "MULTX" [⟨.deckValue, 2⟩, ⟨.validDefault, 1⟩, ⟨.deckValue, 3⟩]] =
    some [("MULTX", [⟨.deckValue, 4⟩, ⟨.deckValue, 9⟩])] := by decide +kernel
example : Box.Valid tD (Box.global tD) := by unfold Box.Valid; decide

end TranCalc

end OpmVerif.Props.C12
