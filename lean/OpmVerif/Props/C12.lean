/-
  C12 — Cell property arrays equal sequential application of the keyword operations.

  Only property statements, one-line proofs from `Proofs/FieldProps.lean`, non-vacuity examples.
  Quantifiers: every grid size, every ACTNUM, every box, every region array, every element
  kernel (hence every operation), every scalar type.
-/
import OpmVerif.Proofs.FieldProps

namespace OpmVerif.Props.C12
open OpmVerif.FieldProps

/-- `Box::initIndexList` enumerates exactly the active cells of the box, each once (no active
index twice), with the true active index, and the data index is the row-major position of the
cell inside the box — for any grid dimensions, ACTNUM and valid box. -/
theorem index_list_spec (D : Dims) (A : List Bool) (b : Box) (hv : b.Valid D) :
    IdxSpec A (boxSel D b) (indexList D A b) :=
  indexList_spec D A b hv

/-- … and the triples are produced in increasing data-index order. -/
theorem index_list_row_major (D : Dims) (A : List Bool) (b : Box) :
    ((indexList D A b).map (·.d)).Pairwise (· < ·) :=
  indexList_sorted D A b

/-- `FieldProps::region_index` over the compressed region array selects exactly the active
cells whose global region value matches. -/
theorem region_index_spec (A : List Bool) (reg : Arr Int) (r : Int) (hl : reg.length = A.length) :
    IdxSpec A (regionSel reg r) (regionIndex A (compress A reg) r) :=
  regionIndex_spec A reg r hl

/-- One loop of the implementation over any index list that meets its specification computes
the compression of the map over the global grid, and rejects in exactly the same cases. -/
theorem loop_refines {α : Type} [Scalar α] (K : Kernel α) (A : List Bool) (sel : Nat → Option Nat)
    (L : List Idx) (hs : IdxSpec A sel L) (src tgt : Arr α)
    (hsrc : src.length = A.length) (htgt : tgt.length = A.length) :
    (refApply K A sel src tgt).map (compress A) = implApply K L (compress A src) (compress A tgt) :=
  apply_refines K A sel L hs src tgt hsrc htgt

/-! Non-vacuity: a 3×2×2 grid with interior inactive cells and a proper sub-box. -/

def sampleD : Dims := ⟨3, 2, 2⟩
def sampleA : List Bool := [true, false, true, true, true, false, false, true, true, true, false, true]
def sampleB : Box := ⟨1, 0, 0, 2, 2, 2⟩

example : sampleB.Valid sampleD := by simp [Box.Valid, sampleB, sampleD]
example : sampleA.length = sampleD.size := by decide
example : indexList sampleD sampleA sampleB =
    [⟨2, 1, 1⟩, ⟨4, 3, 2⟩, ⟨7, 4, 4⟩, ⟨8, 5, 5⟩, ⟨11, 7, 7⟩] := by decide

end OpmVerif.Props.C12
