/-
  C20 — Parsing and state construction never crash: a result or an exception.

  PARTIAL by design (DESIGN.md §4 C20): a theorem can carry the part of this property that is
  index arithmetic over the untrusted input.  Proved here, for EVERY byte string:
    * opening it as an unformatted Eclipse file terminates with arrays or with one of the
      reader's own error conditions (the loop bound of the model is never reached);
    * no accepted header leads to a zero divisor in the size arithmetic (finding F3);
  The deck-text lexer part is imported from `Proofs/LexSafe.lean` when that family is present.
  Everything past these cores (keyword handlers, EclipseState/Schedule/SummaryConfig
  construction, formatted reader) is exercised by the hardened fuzz harness
  (UBSan + bounds-checked libstdc++), not proved.
-/
import OpmVerif.Proofs.EclBinSafe

namespace OpmVerif.Props.C20
open OpmVerif.Ecl

/-- Any byte string opened as an unformatted result file: a list of arrays or an error,
never non-termination of the indexing / block loops. -/
theorem eclfile_total_partial (file : Bytes) :
    (∃ as, decodeFile file = .ok as) ∨ (∃ err, decodeFile file = .error err ∧ err ≠ .fuel) :=
  decodeFile_total file

/-- The index loop terminates and only ever produces arrays whose type has non-zero element
size and non-zero elements-per-block: all divisors used later are non-zero. -/
theorem eclfile_index_safe_partial (file : Bytes) :
    (∃ idx, indexFile file (file.length + 1) 0 = .ok idx ∧ ∀ e ∈ idx, SafeTy e.hdr.ty) ∨
    (∃ err, indexFile file (file.length + 1) 0 = .error err ∧ err ≠ .fuel) :=
  indexFile_total file (file.length + 1) 0 (by omega) (by omega)

/-- An accepted type tag never has element size 0 (`C000`, `C-3 ` are rejected). -/
theorem accepted_tag_has_nonzero_size_partial {tg : Bytes} {t : ArrType} (h : parseTag tg = .ok t) :
    SafeTy t :=
  parseTag_safe h

/-- A file cut anywhere still only yields data that was written (shared with C08). -/
theorem truncated_file_exact_or_error_partial (as : List Arr) (hwf : ∀ a ∈ as, a.WF) (k : Nat)
    (idx : List Entry)
    (hidx : indexFile ((encodeFile as).take k) (((encodeFile as).take k).length + 1) 0 = .ok idx)
    (i : Nat) (hi : i < idx.length) (a : Arr)
    (hload : loadEntry ((encodeFile as).take k) idx[i] = .ok a) :
    as[i]? = some a :=
  truncation_exact_or_error as hwf k idx hidx i hi a hload

/-! Non-vacuity: the `C000` header of finding F3 is rejected by the model (as by the fixed code),
and a plain header is accepted. -/
example : parseTag [67, 48, 48, 48] = .error .badElemSize := by decide
example : parseTag [67, 48, 49, 50] = .ok (.c0nn 12) := by decide
example : decodeFile [0, 0, 0, 16, 84, 69, 83, 84, 32, 32, 32, 32, 0, 0, 0, 1, 67, 48, 48, 48, 0, 0, 0, 16]
    = .error .badElemSize := by decide +kernel

end OpmVerif.Props.C20
