/-
  C20 — Parsing and state construction never crash: a result or an exception.

  PARTIAL by design (DESIGN.md §4 C20): a theorem can carry the part of this property that is
  index arithmetic over the untrusted input.  Proved here, for EVERY byte string:
    * opening it as an unformatted Eclipse file terminates with arrays or with one of the
      reader's own error conditions (the loop bound of the model is never reached);
    * no accepted header leads to a zero divisor in the size arithmetic (finding F3);
    * (second round) the modelled lexical layer of the deck parser — `clean`, `strip_comments`,
      `find_terminator`, `getline`, `del_after_first/last_slash`, `trim`, keyword assembly,
      the record tokeniser, star tokens — for EVERY byte string: the loops terminate (no fuel
      of the model is ever the reason for a result), the outcome is a value or the single
      error outcome, and every view, index and write position the C++ forms from another one
      (`end + 1`, `*view.end()`, `back()`, `dsti`, `quote_end + 1`, `star + 2`, `close + 1`,
      `std::distance(record_buffer.begin(), line.end())`) lies inside the buffer it belongs to
      (`Model/LexPtr.lean` is the pointer-level mirror in which leaving the buffer is the
      outcome `ub`; `Proofs/LexPtr.lean`, `Proofs/LexSafe.lean`).  The lexer model is tied to
      the code inside this check by a function-level correspondence on arbitrary bytes run
      against the UBSan / bounds-checked build (lib/props/C20.py, stage `corr-lexer`).
  Everything past these cores (keyword handlers, EclipseState/Schedule/SummaryConfig
  construction, formatted reader) is exercised by the hardened fuzz harness
  (UBSan + bounds-checked libstdc++), not proved.
-/
import OpmVerif.Proofs.EclBinSafe
import OpmVerif.Proofs.EclFmtSafe
import OpmVerif.Proofs.EclFmt
import OpmVerif.Proofs.LexSafe
import OpmVerif.Proofs.LexPtr
import OpmVerif.Proofs.Scan
import OpmVerif.Proofs.RawConsts
import OpmVerif.Proofs.ESmryScan
import OpmVerif.Gen.ESmryScan

namespace OpmVerif.Props.C20
open OpmVerif.Ecl

/-- Any byte string opened as an unformatted result file: a list of arrays or an error,
never non-termination of the indexing / block loops. -/
theorem eclfile_total_partial (file : Bytes) :
    (∃ as, decodeFile file = .ok as) ∨ (∃ err, decodeFile file = .error err ∧ err ≠ .fuel) :=
  decodeFile_total file

/-- The index loop terminates and only ever produces arrays whose type has non-zero element
size and non-zero elements-per-block: all divisors used later are non-zero. -/
theorem eclfile_index_safe_partial (file : Bytes) :
    (∃ idx, indexFile file (file.length + 1) 0 = .ok idx ∧ ∀ e ∈ idx, SafeTy e.hdr.ty) ∨
    (∃ err, indexFile file (file.length + 1) 0 = .error err ∧ err ≠ .fuel) :=
  indexFile_total file (file.length + 1) 0 (by omega) (by omega)

/-- An accepted type tag never has element size 0 (`C000`, `C-3 ` are rejected). -/
theorem accepted_tag_has_nonzero_size_partial {tg : Bytes} {t : ArrType} (h : parseTag tg = .ok t) :
    SafeTy t :=
  parseTag_safe h

/-- A file cut anywhere still only yields data that was written (shared with C08). -/
theorem truncated_file_exact_or_error_partial (as : List Arr) (hwf : ∀ a ∈ as, a.WF) (k : Nat)
    (idx : List Entry)
    (hidx : indexFile ((encodeFile as).take k) (((encodeFile as).take k).length + 1) 0 = .ok idx)
    (i : Nat) (hi : i < idx.length) (a : Arr)
    (hload : loadEntry ((encodeFile as).take k) idx[i] = .ok a) :
    as[i]? = some a :=
  truncation_exact_or_error as hwf k idx hidx i hi a hload

/-- Any character string opened as a *formatted* result file: the index loop of
`EclFile::load` (header line, `sizeOnDiskFormatted` skip, `isEOF`) consumes at least one
character per round, so the fuel of the model (`length + 1`) is never the reason for its
result — more fuel changes nothing. -/
theorem eclfile_formatted_index_terminates_partial (s : List Char) (off extra : Nat) :
    EclFmt.loadIndex (s.length + 1 + extra) off s = EclFmt.loadIndex (s.length + 1) off s :=
  EclFmt.loadIndex_enough s off extra

/-- Every array type a formatted header can announce has a non-zero column count and block
size: the divisions of `sizeOnDiskFormatted` / the writer loops never divide by zero (the
`C0nn` case with 78 or more characters was a SIGFPE before fix 93e899aa0). -/
theorem eclfile_formatted_no_zero_divisor_partial (t : ArrType) (hm : t ≠ .mess) :
    0 < (EclFmt.fmtParams t).2.1 ∧ 0 < (EclFmt.fmtParams t).1 :=
  EclFmt.fmtParams_pos t hm


/-! ## Deck text: the lexical layer, for every byte string

`Bytes` is `List UInt8`; every function of `Model/Lex.lean`, `Model/Tok.lean`,
`Model/Scan.lean`, `Model/RawKw.lean` is total (structural recursion, or fuel with a lemma
below that the fuel is never the reason for the result) and returns a value or the single
error outcome `none`/`.err` — there is no third outcome.  `LexPtr.R.ub` is the outcome
"the C++ forms an iterator outside its range, calls an algorithm with `first > last`, reads
outside the `std::string`, writes outside `dst`". -/

section lexer
open OpmVerif.Lex OpmVerif.Tok OpmVerif.LexPtr

/-- `find_terminator` (comments and the terminating slash): the C++ recursion over positions
returns within `length + 1` calls — the fuel of its literal mirror is not the reason for
the result — and equals the one-pass state machine of the model. -/
theorem lexer_find_terminator_terminates (l : List UInt8) :
    stripCommentsM l = stripComments l ∧ delAfterFirstSlashM l = delAfterFirstSlash l :=
  findTerminator_total l

/-- every view the line-level functions return is a view into the view they were given. -/
theorem lexer_views_inside (l : List UInt8) (next : UInt8) :
    stripComments l <+: l ∧ delAfterFirstSlash l <+: l ∧ delAfterLastSlash l next <+: l ∧ trim l <:+: l :=
  ⟨stripComments_prefix l, delAfterFirstSlash_prefix l, delAfterLastSlash_prefix l next, trim_infix l⟩

/-- `loadString` (`clean(code_keywords, input + "\n")`) with the code keywords of the source
tree as generated on this run, for both shapes of the slow loop (as it is / with the
candidate repair of finding `C01.code_block_followed_by_code_keyword`; the translator reads
which one the source has): the cleaned text never exceeds `dst.resize(str.size())`, and is
empty or ends in '\n' again — the invariant every later `getline` relies on. -/
theorem lexer_clean_fits_and_keeps_newline (retest : Bool) (text : List UInt8) :
    (clean retest OpmVerif.Gen.RawConsts.codeKeywords (text ++ [10])).length ≤ (text ++ [10]).length ∧
    (clean retest OpmVerif.Gen.RawConsts.codeKeywords (text ++ [10]) = [] ∨
      EndsNL (clean retest OpmVerif.Gen.RawConsts.codeKeywords (text ++ [10]))) :=
  have h : text ++ [10] = [] ∨ EndsNL (text ++ [10]) := Or.inr (by simp [EndsNL])
  ⟨clean_length_le retest _ codeKeywords_ok _ h, clean_endsNL retest _ _ h⟩

/-- the `while (true)` loop of the slow path of `clean` terminates: any fuel above the input
length gives the same result (code keyword names are not empty, so every round consumes
input — also with the re-test of the candidate repair). -/
theorem lexer_clean_loop_terminates (retest : Bool) (f1 f2 : Nat) (input : List UInt8)
    (h1 : input.length < f1) (h2 : input.length < f2) :
    cleanSlow retest OpmVerif.Gen.RawConsts.codeKeywords f1 input =
      cleanSlow retest OpmVerif.Gen.RawConsts.codeKeywords f2 input :=
  cleanSlow_fuel retest _ codeKeywords_names f1 f2 input h1 h2

/-- `fast_clean` at pointer level — `getline`'s `end + 1`, the copy through `dsti`,
`*dsti++ = '\n'` — on any text that is empty or ends in '\n': never `ub`, result `fastClean`. -/
theorem lexer_fast_clean_in_bounds (buf : List UInt8) (h : buf = [] ∨ EndsNL buf) :
    fastCleanP buf (buf.length + 1) ⟨0, buf.length⟩ [] = .ok (fastClean buf) :=
  fastCleanP_ok buf h

/-- `getline` on any valid input view that is empty or ends in '\n': never `ub`; line and
rest are valid views holding what the list-level `getline` returns, the byte behind the
line is its '\n', and the rest is empty or ends in '\n' again. -/
theorem lexer_getline_in_bounds (buf : List UInt8) (inp : View) (hv : inp.Valid buf)
    (hnl : inp.bytes buf = [] ∨ EndsNL (inp.bytes buf)) :
    (getlineP buf inp = .ok none ∧ getline (inp.bytes buf) = none) ∨
    ∃ line rest, getlineP buf inp = .ok (some (line, rest)) ∧ line.Valid buf ∧ rest.Valid buf ∧
      getline (inp.bytes buf) = some (line.bytes buf, rest.bytes buf) ∧
      (rest.bytes buf = [] ∨ EndsNL (rest.bytes buf)) ∧ rd buf line.e = .ok 10 :=
  getlineP_ok buf inp hv hnl

/-- all lines of a loaded file: views inside the cleaned buffer, each followed by its '\n'
inside the buffer, holding the lines of the list-level model. -/
theorem lexer_lines_in_bounds (buf : List UInt8) (h : buf = [] ∨ EndsNL buf) :
    ∃ vs, linesP buf (buf.length + 1) ⟨0, buf.length⟩ = .ok vs ∧
      vs.map (·.bytes buf) = splitLines buf ∧
      ∀ v ∈ vs, v.Valid buf ∧ v.e < buf.length ∧ rd buf v.e = .ok 10 :=
  linesP_ok buf h

/-- `del_after_last_slash` starts its backward search AT `view.end()`, i.e. it reads the
byte behind the view.  For every valid view of every buffer that read is inside the
`std::string` (its NUL terminator at worst), the loop never steps below `begin`, and the
result is the prefix the list-level model computes from the view and that byte. -/
theorem lexer_last_slash_byte_behind_view (buf : List UInt8) (v : View) (hv : v.Valid buf) :
    ∃ w, dalsP buf v = .ok w ∧ w.Valid buf ∧ w.b = v.b ∧ w.e ≤ v.e ∧
      w.bytes buf = delAfterLastSlash (v.bytes buf) ((buf[v.e]?).getD 0) :=
  dalsP_ok buf v hv

/-- in the parser the view is a line of the cleaned buffer, so the byte is the line's '\n'
(what the keyword assembly model passes: `delAfterSlash raw line 10`). -/
theorem lexer_last_slash_on_a_line (buf : List UInt8) (line : View) (hv : line.Valid buf)
    (hnx : rd buf line.e = .ok 10) (hlt : line.e < buf.length) :
    ∃ w, dalsP buf line = .ok w ∧ w.Valid buf ∧ w.bytes buf = delAfterLastSlash (line.bytes buf) 10 :=
  dalsP_line buf line hv hnx hlt

/-- `isTerminatedRecordString` calls `back()`: the record buffer it is applied to is never
empty (a non-empty line stays non-empty under `del_after_slash`), and on a non-empty valid
view `back()` is defined and is the model's test. -/
theorem lexer_back_is_defined (raw : Bool) (line : List UInt8) (next : UInt8) (h : line ≠ [])
    (buf : List UInt8) (v : View) (hv : v.Valid buf) (hne : v.bytes buf ≠ []) :
    delAfterSlash raw line next ≠ [] ∧
    isTerminatedRecordStringP buf v = .ok (isTerminatedRecordString (v.bytes buf)) :=
  ⟨delAfterSlash_ne_nil raw line next h, isTerminatedRecordStringP_ok buf v hv hne⟩

/-- `update_record_buffer`: the view from `record_buffer.begin()` to `line.end()` inside one
buffer is the `extendBuf` of the keyword assembly model (record so far, '\n', skipped lines,
new line). -/
theorem lexer_record_buffer_view (A rb gap line C : List UInt8) (hrb : rb ≠ []) :
    (⟨A.length, A.length + (rb ++ [10] ++ gap ++ line).length⟩ : View).bytes (A ++ (rb ++ [10] ++ gap ++ line) ++ C) =
      OpmVerif.RawKw.extendBuf rb gap line :=
  update_record_buffer_view A rb gap line C hrb

/-- the record tokeniser `splitSingleRecordString` as of fix fb4827176, every record text:
the loop ends within `length + 1` rounds, no iterator (`current + 1`, `quote_end`,
`star + 1`, `star + 2`, `close + 1`) or range is invalid, every token is a non-empty view
inside the record. -/
theorem lexer_tokeniser_in_bounds (rec : List UInt8) :
    ∃ toks, splitRecordP rec = .ok toks ∧ ∀ t ∈ toks, t.b < t.e ∧ t.e ≤ rec.length :=
  splitRecordP_safe rec

/-- star tokens: a repeat count the model accepts is a positive `int` (`std::stoi` range) —
the bound on `record.push_front(value, count - 1)`. -/
theorem lexer_star_count_range (t : List UInt8) (n : Nat) (v : List UInt8) (h : classify t = .rep n v) :
    1 ≤ n ∧ n ≤ 2147483647 :=
  OpmVerif.Scan.classify_rep_range h

end lexer

/-! Non-vacuity of the hypotheses and of `ub`: without the final '\n' `getline`/`fast_clean`
leave their buffer; `back()` of an empty view; the tokeniser before fb4827176 on an
unterminated quote (accepted by `even_quotes`); a buffer on which everything is defined. -/
example : OpmVerif.LexPtr.getlineP [65, 66] ⟨0, 2⟩ = .ub ∧ OpmVerif.LexPtr.fastCleanP [65] 2 ⟨0, 1⟩ [] = .ub ∧
    OpmVerif.LexPtr.isTerminatedRecordStringP [47] ⟨0, 0⟩ = .ub := by decide
example : OpmVerif.LexPtr.splitP false [97, 98, 39, 99, 32, 39, 100] 8 0 [] = .ub ∧
    OpmVerif.LexPtr.splitRecordP [97, 98, 39, 99, 32, 39, 100] = .ok [⟨0, 4⟩, ⟨5, 7⟩] := by decide
/-- `UDQ`-style raw line `A/B /` + text: the last slash ends the record; a slash directly
behind the view keeps the whole view. -/
example : OpmVerif.LexPtr.dalsP [65, 47, 66, 32, 47, 120, 10] ⟨0, 6⟩ = .ok ⟨0, 5⟩ ∧
    OpmVerif.LexPtr.dalsP [65, 47, 66, 47, 10] ⟨0, 3⟩ = .ok ⟨0, 3⟩ ∧
    OpmVerif.LexPtr.dalsP [65, 66] ⟨0, 2⟩ = .ok ⟨0, 2⟩ := by decide
example : OpmVerif.LexPtr.linesP [65, 32, 10, 10, 47, 10] 7 ⟨0, 6⟩ = .ok [⟨0, 2⟩, ⟨3, 3⟩, ⟨4, 5⟩] := by decide

/-! ### Summary data files (`ESmry`): the scan over the list of arrays and the PARAMS block reader

`Model/ESmryScan.lean` mirrors the loop of the `ESmry` constructor over `arraySourceList` and the
block loop of `ESmry::loadData()`; every `operator[]` whose index comes from the file's content is an
access that can end in the outcome `ub`.  Which guards stand in front of them is regenerated from
`ESmry.cpp` on every run (`Gen.ESmryScan`, translate/esmryscan.py, which also refuses a changed loop
skeleton); the theorems below are stated at the regenerated guards, so removing a guard from the code
breaks them, and the correspondence `esmryscan.*` runs model and `ESmry` on the same array lists. -/
section esmry
open OpmVerif.ESmryScan

/-- for EVERY list of array names (and every restart window `from`/`limit`) the time-step scan ends
with an error or a result: no access outside the list, and the model's loop bound is never the reason -/
theorem esmry_step_scan_in_bounds (names : List String) (from_ limit : Nat) :
    scan OpmVerif.Gen.ESmryScan.guards names from_ limit ≠ .ub ∧
    scan OpmVerif.Gen.ESmryScan.guards names from_ limit ≠ .fuel :=
  scan_no_ub _ (by decide) (by decide) names from_ limit

/-- … and every time step it returns is a MINISTEP array directly followed by a PARAMS array of the
list (the two file positions `loadData` and `read_ministeps_from_disk` later seek to) -/
theorem esmry_step_scan_result (names : List String) (from_ limit : Nat) :
    (∃ c, scan OpmVerif.Gen.ESmryScan.guards names from_ limit = .err c) ∨
    (∃ st sq, scan OpmVerif.Gen.ESmryScan.guards names from_ limit = .ok st sq ∧
      ∀ s ∈ st, s.2 = s.1 + 1 ∧ names[s.1]? = some "MINISTEP" ∧ names[s.2]? = some "PARAMS") :=
  scan_spec _ (by decide) (by decide) names from_ limit

/-- for EVERY sequence of length words the file supplies, the element loop of the PARAMS block reader
never indexes `keywpos` outside its `nParams` entries -/
theorem esmry_params_blocks_in_bounds (maxEl nParams : Nat) (heads : List Int) (k : Nat) :
    readParams OpmVerif.Gen.ESmryScan.guardRest maxEl nParams heads ≠ .ub k := by
  have h : OpmVerif.Gen.ESmryScan.guardRest = true := by decide
  rw [h]; exact readParams_no_ub maxEl nParams heads k

/-- every function that reads `timeStepList[0]` returns early on an empty list -/
theorem esmry_first_step_reads_guarded :
    OpmVerif.Gen.ESmryScan.firstStepReads ≤ OpmVerif.Gen.ESmryScan.emptyStepGuards := by decide

end esmry

/-! Non-vacuity: the guards matter (without them the same inputs reach `ub`), and a real array list. -/
example : OpmVerif.ESmryScan.scan { emptyList := true, trailing := false } ["MINISTEP"] 0 100 = .ub ∧
    OpmVerif.ESmryScan.readParams false 1000 5 [1000] = .ub 5 ∧
    OpmVerif.ESmryScan.scan OpmVerif.Gen.ESmryScan.guards ["SEQHDR", "MINISTEP", "PARAMS", "MINISTEP", "PARAMS"] 0 100 = .ok [(1, 2), (3, 4)] [1] := by
  decide

/-! Non-vacuity: the `C000` header of finding F3 is rejected by the model (as by the fixed code),
and a plain header is accepted. -/
example : parseTag [67, 48, 48, 48] = .error .badElemSize := by decide
example : parseTag [67, 48, 49, 50] = .ok (.c0nn 12) := by decide
example : decodeFile [0, 0, 0, 16, 84, 69, 83, 84, 32, 32, 32, 32, 0, 0, 0, 1, 67, 48, 48, 48, 0, 0, 0, 16]
    = .error .badElemSize := by decide +kernel

end OpmVerif.Props.C20
