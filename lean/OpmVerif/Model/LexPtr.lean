/-
  Pointer-level mirror of the index arithmetic of the deck lexer — the places where the
  C++ forms an iterator or a view from another one by `+ 1`, `- 1`, `std::distance` or a
  dereference that is not covered by a preceding range check:

    str::getline               `end + 1` behind the newline that `std::find` returned
    str::del_after_last_slash  backward loop that starts by reading `*view.end()`
    str::fast_clean            writes through `dsti` into `dst`, sized `str.size()`
    str::isTerminatedRecordString   `line.back()`
    splitSingleRecordString    `quote_end + 1`, `star + 1`, `star + 2`, `close + 1`
                               (fix fb4827176: `++quote_end` only when a quote was found)

  A buffer is a byte list (the characters of a `std::string`), a view is a pair of offsets
  into it.  Every function returns `R.ub` when the C++ would form an iterator outside
  `[begin, end]` of the range it belongs to, call an algorithm on a range with
  `first > last`, dereference outside the buffer, or write outside `dst`.  The only read
  allowed at `buffer.size()` is the NUL terminator of the `std::string` (`rd`).
  `Proofs/LexPtr.lean` shows that `ub` is never returned on the buffers the parser builds
  (every loaded text ends in '\n'), and that the views returned hold what the list-level
  model (`Model/Lex.lean`) computes.

  Core Lean only (the tokeniser mirror is also an op of the driver: `deck.splitp`).
-/
import OpmVerif.Model.Tok

namespace OpmVerif.LexPtr
open OpmVerif.Lex OpmVerif.Tok

/-- outcome of a step of pointer arithmetic: a value, or undefined behaviour. -/
inductive R (α : Type) where
  | ok (a : α)
  | ub
  deriving Repr

instance {α : Type} [DecidableEq α] : DecidableEq (R α) := fun a b =>
  match a, b with
  | .ok x, .ok y => if h : x = y then isTrue (by rw [h]) else isFalse (by intro h'; cases h'; exact h rfl)
  | .ub, .ub => isTrue rfl
  | .ok _, .ub => isFalse (by intro h; cases h)
  | .ub, .ok _ => isFalse (by intro h; cases h)

/-- a view `[b, e)` into a buffer. -/
structure View where
  b : Nat
  e : Nat
  deriving DecidableEq, Repr

/-- the bytes a view denotes. -/
def View.bytes (buf : Bytes) (v : View) : Bytes := (buf.drop v.b).take (v.e - v.b)

/-- `b ≤ e ≤ size`: the view lies inside the buffer. -/
def View.Valid (buf : Bytes) (v : View) : Prop := v.b ≤ v.e ∧ v.e ≤ buf.length

instance (buf : Bytes) (v : View) : Decidable (v.Valid buf) := by unfold View.Valid; infer_instance

/-- `*(buf.data() + i)`: a byte of the string, or its NUL terminator at `i = size`. -/
def rd (buf : Bytes) (i : Nat) : R UInt8 :=
  match buf[i]? with
  | some c => .ok c
  | none => if i = buf.length then .ok 0 else .ub

/-- `*it` for an iterator of a `string_view`: only inside the view. -/
def rdIn (buf : Bytes) (i : Nat) : R UInt8 :=
  match buf[i]? with
  | some c => .ok c
  | none => .ub

/-- `std::find_if(first, last, p)` on offsets of `buf`: a valid range is required. -/
def findR (p : UInt8 → Bool) (buf : Bytes) (first last : Nat) : R Nat :=
  if first ≤ last ∧ last ≤ buf.length then .ok (first + findIdx p ((buf.drop first).take (last - first)))
  else .ub

/-! ## getline -/

/-- `str::getline(input, line)`: `none` = `false` (empty input).  `end + 1` must not pass
`input.end()`. -/
def getlineP (buf : Bytes) (inp : View) : R (Option (View × View)) :=
  if inp.b = inp.e then .ok none
  else
    match findR (· == 10) buf inp.b inp.e with
    | .ub => .ub
    | .ok e => if e + 1 ≤ inp.e then .ok (some (⟨inp.b, e⟩, ⟨e + 1, inp.e⟩)) else .ub

/-! ## del_after_last_slash -/

/-- the `while (true)` loop: `slash` walks down from `end`; every position it stops at is
read, except `begin`. -/
def dalsLoop (buf : Bytes) (b : Nat) : Nat → Nat → R Nat
  | 0, _ => .ub
  | fuel + 1, s =>
    if s = b then .ok s
    else
      match rd buf s with
      | .ub => .ub
      | .ok c => if c = 47 then .ok s else dalsLoop buf b fuel (s - 1)

/-- `str::del_after_last_slash(view)`. -/
def dalsP (buf : Bytes) (v : View) : R View :=
  match dalsLoop buf v.b (v.e - v.b + 1) v.e with
  | .ub => .ub
  | .ok s =>
    -- if (slash == begin && *slash != '/') slash = end;
    let s1 : R Nat :=
      if s = v.b then
        match rd buf s with
        | .ub => .ub
        | .ok c => if c ≠ 47 then .ok v.e else .ok s
      else .ok s
    match s1 with
    | .ub => .ub
    | .ok s' => .ok ⟨v.b, if s' ≠ v.e then s' + 1 else s'⟩

/-! ## fast_clean -/

/-- `str::fast_clean(str)`: `out` is what has been written to `dst` so far
(`dsti = dst.begin() + out.length`); a write at or behind `dst.size() = str.size()` is
undefined. -/
def fastCleanP (buf : Bytes) : Nat → View → Bytes → R Bytes
  | 0, _, _ => .ub
  | fuel + 1, inp, out =>
    match getlineP buf inp with
    | .ub => .ub
    | .ok none => .ok out
    | .ok (some (line, rest)) =>
      let cl := cleanLine (line.bytes buf)
      if out.length + cl.length + 1 ≤ buf.length then fastCleanP buf fuel rest (out ++ cl ++ [10])
      else .ub

/-! ## back() -/

/-- `str::isTerminatedRecordString(line)`: `line.back()` of an empty view is undefined. -/
def isTerminatedRecordStringP (buf : Bytes) (v : View) : R Bool :=
  if v.b = v.e then .ub
  else
    match rdIn buf (v.e - 1) with
    | .ub => .ub
    | .ok c => .ok (c == 47)

/-! ## splitSingleRecordString -/

/-- one token starting at the non-separator `cur` of the record `rec`: the offset behind it.
`fixed = false` is the code before fb4827176 (`quote_end + 1` unconditionally). -/
def tokenEndP (fixed : Bool) (rec : Bytes) (cur : Nat) : R Nat :=
  match rdIn rec cur with
  | .ub => .ub
  | .ok c =>
    if c = 39 then
      match findR (· == 39) rec (cur + 1) rec.length with
      | .ub => .ub
      | .ok q => .ok (if fixed then (if q ≠ rec.length then q + 1 else q) else q + 1)
    else
      match findR isSep rec cur rec.length with
      | .ub => .ub
      | .ok tokenEnd =>
        match findR (fun c => !isDigit c) rec cur tokenEnd with
        | .ub => .ub
        | .ok star =>
          if star ≠ cur ∧ star ≠ tokenEnd then
            match rdIn rec star with
            | .ub => .ub
            | .ok cs =>
              if cs = 42 ∧ star + 1 ≠ tokenEnd then
                match rdIn rec (star + 1) with
                | .ub => .ub
                | .ok cq =>
                  if cq = 39 then
                    match findR (· == 39) rec (star + 2) rec.length with
                    | .ub => .ub
                    | .ok close =>
                      if close ≠ rec.length ∧ close ≥ tokenEnd then findR isSep rec (close + 1) rec.length
                      else .ok tokenEnd
                  else .ok tokenEnd
              else .ok tokenEnd
          else .ok tokenEnd

/-- the `while` loop of `splitSingleRecordString`; tokens as views into the record. -/
def splitP (fixed : Bool) (rec : Bytes) : Nat → Nat → List View → R (List View)
  | 0, _, _ => .ub
  | fuel + 1, cur, acc =>
    match findR (fun c => !isSep c) rec cur rec.length with
    | .ub => .ub
    | .ok cur1 =>
      if cur1 = rec.length then .ok acc.reverse
      else
        match tokenEndP fixed rec cur1 with
        | .ub => .ub
        | .ok e => splitP fixed rec fuel e (⟨cur1, e⟩ :: acc)

/-- `splitSingleRecordString(record)` as the code is now. -/
def splitRecordP (rec : Bytes) : R (List View) := splitP true rec (rec.length + 1) 0 []

end OpmVerif.LexPtr
