/-
  Model of `Schedule::applyAction` (opm/input/eclipse/Schedule/Schedule.cpp) on top of the core
  semantics, with the block list as part of the state:

    snapshots.resize(n+1)
    for kw in action:  m_sched_deck[n].push_back(kw);  handleKeyword(n, kw, matches, actionx_mode)
    end_report(n)
    affected wells get ACTIONX_WELL_EVENT on state n
    iterateScheduleSection(n+1, size)          -- re-runs the *stored* blocks n+1.. from state n

  '?' is resolved against the matching wells sorted in well order (`WellMatcher::sort`).  The
  model resolves it once, against the well order of state n, before running the body
  (`substKw`); the C++ resolves it at each handler call against the then-current order, which
  differs only by wells appended meanwhile.  The appended block keywords are kept verbatim
  (with '?'), as in the C++ — so a later application at an EARLIER step re-runs them without
  matches and they have no effect; the sequence theorem is for non-decreasing steps only.
-/
import OpmVerif.Model.SchedCore

namespace OpmVerif.Sched

/-- The well-name pattern of a record (group-level records have none). -/
def ROp.wpat : ROp → Option String
  | .welspecs n .. => some n
  | .wconprod r => some r.pat
  | .wconinje r => some r.pat
  | .wconhist r => some r.pat
  | .wconinjh r => some r.pat
  | .welopenW p _ => some p
  | .weltarg p .. => some p
  | .wefac p _ => some p
  | .wecon p .. => some p
  | .wtest p .. => some p
  | .compdat p .. => some p
  | .welopenC p .. => some p
  | .complump p .. => some p
  | .wpimultC p .. => some p
  | .wpimultG p .. => some p
  | _ => none

def ROp.setPat (w : String) : ROp → ROp
  | .welspecs _ g i j => .welspecs w g i j
  | .wconprod r => .wconprod { r with pat := w }
  | .wconinje r => .wconinje { r with pat := w }
  | .wconhist r => .wconhist { r with pat := w }
  | .wconinjh r => .wconinjh { r with pat := w }
  | .welopenW _ s => .welopenW w s
  | .weltarg _ m v => .weltarg w m v
  | .wefac _ v => .wefac w v
  | .wecon _ o c wo => .wecon w o c wo
  | .wtest _ i r n s => .wtest w i r n s
  | .compdat _ i j k1 k2 s => .compdat w i j k1 k2 s
  | .welopenC _ s i j k c1 c2 => .welopenC w s i j k c1 c2
  | .complump _ i j k1 k2 n => .complump w i j k1 k2 n
  | .wpimultC _ f i j k c1 c2 => .wpimultC w f i j k c1 c2
  | .wpimultG _ f => .wpimultG w f
  | r => r

/-- `WellMatcher::sort(matching_wells)`: the matching wells in well (insertion) order. -/
def sortW (order W : List String) : List String := order.filter fun w => W.contains w

/-- A record addressed to '?' becomes one record per matching well, in well order. -/
def substOp (ws : List String) (r : ROp) : List ROp :=
  if r.wpat = some "?" then ws.map fun w => r.setPat w else [r]

def substKw (ws : List String) : CKw → CKw
  | .ops n rs => .ops n (rs.flatMap (substOp ws))
  | kw => kw

def substBody (ws : List String) (body : List CKw) : List CKw := body.map (substKw ws)

/-- Wells a record reports through `HandlerContext::affected_well` (explicit names/patterns,
after substitution). -/
def affectedOp (order : List String) (wl : List (String × List String)) (r : ROp) : List String :=
  match r with
  | .wconprod .. | .wconinje .. | .welopenW .. | .weltarg .. | .welopenC .. =>
    match r.wpat with
    | some p => match wellNames order wl [] p with
      | .ok ns => ns
      | .error _ => []
    | none => []
  | _ => []

/-- The wells the handlers of a record list report, each record looked at in the state its
handler sees (well order and well lists may change inside the body). -/
def affOps (k : Consts) (s : State) : List ROp → List String
  | [] => []
  | r :: rs =>
    affectedOp (names s.p.wells) s.p.wlists r ++
      (match stepR k [] s r with
       | .ok s' => affOps k s' rs
       | .error _ => [])

/-- The body's handlers, run directly (no ACTIONX collection: `for kw in action: handleKeyword`). -/
def runBody (k : Consts) (s : State) : List CKw → Except Err State
  | [] => .ok s
  | kw :: r =>
    match handle k [] s kw with
    | .error e => .error e
    | .ok s' => runBody k s' r

def affBody (k : Consts) (s : State) : List CKw → List String
  | [] => []
  | kw :: r =>
    (match kw with
     | .ops _ rs => affOps k s rs
     | _ => []) ++
      (match handle k [] s kw with
       | .ok s' => affBody k s' r
       | .error _ => [])

def appendAt (bs : List (List CKw)) (n : Nat) (body : List CKw) : List (List CKw) :=
  bs.modify n (· ++ body)

/-- State n after the action: handlers on the stored snapshot, the deferred WPIMULT factors of
the body (a fresh local map), end_report, marker. -/
def applyAtState (k : Consts) (sn : State) (body : List CKw) (W : List String) : Except Err State :=
  let order := names sn.p.wells
  if !(W.all fun w => order.contains w) then .error .input
  else
    let body' := substBody (sortW order W) body
    match runBody k sn body' with
    | .error e => .error e
    | .ok s1 =>
      let aff := affBody k sn body'
      .ok { closeBlock s1 with mark := if aff.isEmpty then sn.mark else sn.mark ++ aff }

/-- `Schedule::applyAction(n, action, matches)` on (stored blocks, snapshots). -/
def applyAction (k : Consts) (bs : List (List CKw)) (ss : List State) (n : Nat) (body : List CKw)
    (W : List String) : Except Err (List (List CKw) × List State) :=
  match ss[n]? with
  | none => .error .input
  | some sn =>
    match applyAtState k sn body W with
    | .error e => .error e
    | .ok sn' =>
      match runFrom k sn' (bs.drop (n + 1)) with
      | .error e => .error e
      | .ok tail => .ok (appendAt bs n body, ss.take n ++ sn' :: tail)

/-- The deck-side counterpart: the substituted body written at the end of block n. -/
def inlineAt (bs : List (List CKw)) (n : Nat) (body : List CKw) : List (List CKw) := appendAt bs n body

abbrev App := Nat × String × List String      -- (step, action name, matching wells)

/-- Apply a list of (step, action, wells) in order, looking the action body up in the snapshot
of that step (`snapshots[step].actions`), as the simulator does. -/
def applyList (k : Consts) : List (List CKw) → List State → List App → Except Err (List (List CKw) × List State)
  | bs, ss, [] => .ok (bs, ss)
  | bs, ss, (n, a, W) :: r =>
    match ss[n]? with
    | none => .error .input
    | some sn =>
      match lookup sn.p.actions a with
      | none => .error .input
      | some body =>
        match applyAction k bs ss n body W with
        | .error e => .error e
        | .ok (bs', ss') => applyList k bs' ss' r

def applySeq (k : Consts) (bs : List (List CKw)) (apps : List App) : Except Err (List (List CKw) × List State) :=
  match run k bs with
  | .error e => .error e
  | .ok ss => applyList k bs ss apps

/-- Inline a list of applications into the block list (bodies and well orders are looked up
in the run of the deck inlined so far). -/
def inlineList (k : Consts) : List (List CKw) → List App → Except Err (List (List CKw))
  | bs, [] => .ok bs
  | bs, (n, a, W) :: r =>
    match run k bs with
    | .error e => .error e
    | .ok ss =>
      match ss[n]? with
      | none => .error .input
      | some sn =>
        match lookup sn.p.actions a with
        | none => .error .input
        | some body =>
          let order := names sn.p.wells
          if !(W.all fun w => order.contains w) then .error .input
          else inlineList k (inlineAt bs n (substBody (sortW order W) body)) r

def inlineSeq (k : Consts) (bs : List (List CKw)) (apps : List App) : Except Err (List (List CKw)) :=
  inlineList k bs apps

end OpmVerif.Sched
