/-
  Line-protocol front end for C16 (dense automatic differentiation).

    densead.eval <V> <n> <tol> <nx> <ns> <X_0 … X_{nx-1}> <S_0 … S_{ns-1}> <prog…> = <R>
        V    : U = unrolled specialisation Evaluation<n>.hpp (1 ≤ n ≤ 12),
               L = generic loop form (Evaluation.hpp), D = DynamicEvaluation.hpp
        X_k  : an Evaluation, (n+1)·16 hex digits (value, derivative 0 … n-1), S_k: a scalar
        prog : postfix program over a stack of Evaluations/scalars
               x<k> s<k>            push input
               dup                  duplicate the top (models `t op= t`)
               add sub mul div      E E -> E   (binary operator or compound assignment)
               adds subs muls divs  E S -> E   sadd ssub smul sdiv : S E -> E
               neg const var<k> assign copyDerivatives clearDerivatives
               m.<f>                Math.hpp function (unary, pow/pows/spow, atan2/atan2s,
                                    min/max/smin/smax; mins/maxs forward to smin/smax)
        R    : what the real code returned
      -> "ok" when every slot of the *generated* definitions evaluated at Float is within <tol>
         ulp of R (tol = 0: bit-exact), otherwise "diff <model result>".
-/
import OpmVerif.Model.Basic
import OpmVerif.Gen.DenseAd
-- driver: prefix=densead handler=OpmVerif.DenseAd.handle

namespace OpmVerif.DenseAd

def floatFns : Fns Float :=
  { sqrt := Float.sqrt, exp := Float.exp, log := Float.log, log10 := Float.log10,
    sin := Float.sin, cos := Float.cos, tan := Float.tan, asin := Float.asin, acos := Float.acos,
    atan := Float.atan, sinh := Float.sinh, cosh := Float.cosh, asinh := Float.asinh,
    acosh := Float.acosh, atan2 := Float.atan2, pow := Float.pow }

def hexToNat (cs : List Char) : Option Nat :=
  cs.foldlM (fun acc c => (hexVal c).map fun d => acc * 16 + d) 0

def parseF (s : String) : Option Float :=
  if s.length = 16 then (hexToNat s.toList).map fun v => Float.ofBits (UInt64.ofNat v) else none

def chunks16 : Nat → List Char → List (List Char)
  | 0, _ => []
  | k + 1, cs => cs.take 16 :: chunks16 k (cs.drop 16)

def parseVec (n : Nat) (s : String) : Option (Array Float) :=
  if s.length = 16 * (n + 1) then
    ((chunks16 (n + 1) s.toList).mapM fun c => (hexToNat c).map fun v => Float.ofBits (UInt64.ofNat v)).map List.toArray
  else none

def hex64 (v : UInt64) : String :=
  String.ofList ((List.range 16).map fun k => hexDigit ((v.toNat / 16 ^ (15 - k)) % 16))

def showVec (a : Array Float) : String := String.join (a.toList.map fun x => hex64 x.toBits)

/-- monotone map of the finite doubles to integers, so that |key a - key b| is the distance in ulp -/
def ulpKey (x : Float) : Int :=
  let b := x.toBits.toNat
  if b < 2 ^ 63 then (b : Int) else -((b - 2 ^ 63 : Nat) : Int)

def within (tol : Nat) (a b : Float) : Bool :=
  a.toBits == b.toBits || (tol > 0 && (ulpKey a - ulpKey b).natAbs ≤ tol)

inductive Val where
  | e (a : Array Float)
  | s (x : Float)

def unaryMath : List String :=
  ["abs", "tan", "atan", "sin", "asin", "sinh", "asinh", "cos", "acos", "cosh", "acosh", "sqrt", "exp", "log", "log10"]

def step (v : String) (n : Nat) (xs : Array (Array Float)) (ss : Array Float)
    (stack : List Val) (tok : String) : Option (List Val) :=
  let F := floatFns
  if tok.startsWith "x" then
    match (tok.drop 1).toNat? with
    | some k => if h : k < xs.size then some (.e xs[k] :: stack) else none
    | none => none
  else if tok.startsWith "s" && (tok.drop 1).toString.isNat then
    match (tok.drop 1).toNat? with
    | some k => if h : k < ss.size then some (.s ss[k] :: stack) else none
    | none => none
  else if tok.startsWith "var" then
    match (tok.drop 3).toNat?, stack with
    | some k, .s c :: r =>
      (Gen.applyS v "varBase" n c).map fun base =>
        .e (ofFn (setOneHot (toFn (k := n + 1) base) k)) :: r
    | _, _ => none
  else if tok.startsWith "m." then
    let f := (tok.drop 2).toString
    (match stack with
      | .e a :: r => if unaryMath.contains f then (Gen.mathE F f n a).map fun x => .e x :: r else none
      | _ => none) <|>
    (match stack with
      | .e b :: .e a :: r => (Gen.mathEE F f n a b).map fun x => .e x :: r
      | _ => none) <|>
    (match stack with
      | .e a :: .s c :: r => (Gen.mathSE F f n c a).map fun x => .e x :: r
      | _ => none) <|>
    (match stack with
      | .s c :: .e a :: r =>
        -- min/max(Evaluation, scalar) forward to (scalar, Evaluation)
        if f = "mins" then (Gen.mathSE F "smin" n c a).map fun x => .e x :: r
        else if f = "maxs" then (Gen.mathSE F "smax" n c a).map fun x => .e x :: r
        else (Gen.mathES F f n a c).map fun x => .e x :: r
      | _ => none)
  else if tok = "dup" then
    match stack with
    | x :: r => some (x :: x :: r)
    | [] => none
  else if tok = "const" then
    match stack with
    | .s c :: r => (Gen.applyS v "const" n c).map fun x => .e x :: r
    | _ => none
  else
    (match stack with
      | .e b :: .e a :: r => (Gen.applyEE v tok n a b).map fun x => .e x :: r
      | _ => none) <|>
    (match stack with
      | .s c :: .e a :: r => (Gen.applyES v tok n a c).map fun x => .e x :: r
      | _ => none) <|>
    (match stack with
      | .e a :: .s c :: r => (Gen.applySE v tok n c a).map fun x => .e x :: r
      | _ => none) <|>
    (match stack with
      | .e a :: r => (Gen.applyE v tok n a).map fun x => .e x :: r
      | _ => none)

def splitAt (sep : String) : List String → List String × List String
  | [] => ([], [])
  | t :: r => if t = sep then ([], r) else let (a, b) := splitAt sep r; (t :: a, b)

def handle (op : String) (args : List String) : String :=
  match op, args with
  | "densead.eval", v :: n :: tol :: nx :: ns :: rest =>
    match n.toNat?, tol.toNat?, nx.toNat?, ns.toNat? with
    | some n, some tol, some nx, some ns =>
      let xsT := rest.take nx
      let ssT := (rest.drop nx).take ns
      let (prog, res) := splitAt "=" (rest.drop (nx + ns))
      match xsT.mapM (parseVec n), ssT.mapM parseF, res with
      | some xs, some ss, [r] =>
        match parseVec n r with
        | none => "bad-op"
        | some want =>
          match prog.foldlM (step v n xs.toArray ss.toArray) [] with
          | some [.e got] =>
            if got.size = want.size && (got.toList.zip want.toList).all (fun (g, w) => within tol g w)
            then "ok" else "diff " ++ showVec got
          | some _ => "bad-stack"
          | none => "unsupported"
      | _, _, _ => "bad-op"
    | _, _, _, _ => "bad-op"
  | "densead.untranslatable", [] => " ".intercalate Gen.notTranslatable
  | _, _ => "bad-op"

end OpmVerif.DenseAd
