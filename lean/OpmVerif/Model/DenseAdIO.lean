/-
  Line-protocol front end for C16 (dense automatic differentiation).

    densead.eval <V> <n> <tol> <nx> <ns> <X_0 … X_{nx-1}> <S_0 … S_{ns-1}> <prog…> = <R>
        V    : U = unrolled specialisation Evaluation<n>.hpp (1 ≤ n ≤ 12),
               L = generic loop form (Evaluation.hpp), D = DynamicEvaluation.hpp
        X_k  : an Evaluation, (n+1)·16 hex digits (value, derivative 0 … n-1), S_k: a scalar
        prog : postfix program over a stack of Evaluations/scalars
               x<k> s<k>            push input
               dup                  duplicate the top (models `t op= t`)
               add sub mul div      E E -> E   (binary operator or compound assignment)
               adds subs muls divs  E S -> E   sadd ssub smul sdiv : S E -> E
               neg const var<k> assign copyDerivatives clearDerivatives
               addSelf subSelf mulSelf divSelf   E -> E   (`t op= t`: the argument aliases *this)
               m.<f>                Math.hpp function (unary, pow/pows/spow, atan2/atan2s,
                                    min/max/smin/smax; mins/maxs forward to smin/smax)
        R    : what the real code returned
    densead.cmp <V> <n> <A> <B> <c> = <bits>
        the 17 comparison operators (eqE neE ltE gtE leE geE, eqS … geS on (A, c), sne slt sgt sle sge
        on (c, A)) as a 0/1 string
    densead.fact <V> <n> <kind> <nVars> <c> <pos> = <R | err>
        factories: zero one cx vx (createConstantZero/One(x), createConstant(x,c), createVariable(x,c,pos)),
        c1 v2 (createConstant(c), createVariable(c,pos)), cn vn (… with nVars), blank; err = throws
    densead.pred <n> <A> <B> <tol> = <bits>
        MathToolbox<Evaluation>::isSame(A, B, tol), isfinite(A), isnan(A) as a 0/1 string
      -> "ok" when every slot of the *generated* definitions evaluated at Float is within <tol>
         ulp of R (tol = 0: bit-exact), otherwise "diff <model result>".
-/
import OpmVerif.Model.Basic
import OpmVerif.Gen.DenseAd
-- driver: prefix=densead handler=OpmVerif.DenseAd.handle

namespace OpmVerif.DenseAd

def floatFns : Fns Float :=
  { sqrt := Float.sqrt, exp := Float.exp, log := Float.log, log10 := Float.log10,
    sin := Float.sin, cos := Float.cos, tan := Float.tan, asin := Float.asin, acos := Float.acos,
    atan := Float.atan, sinh := Float.sinh, cosh := Float.cosh, asinh := Float.asinh,
    acosh := Float.acosh, atan2 := Float.atan2, pow := Float.pow }

/-- `MathToolbox<double>`: `std::isnan`, `std::isfinite`, and `isSame(a, b, tol)` =
`|a-b| < tol || |a-b| / std::max(1.0, |a+b|) < tol` (MathToolbox.hpp) -/
def floatPreds : Preds Float :=
  { isnan := Float.isNaN, isfinite := Float.isFinite,
    isSame := fun a b tol =>
      let d := a - b
      let s := Float.abs (a + b)
      let den := if 1.0 < s then s else 1.0
      decide (Float.abs d < tol) || decide (Float.abs d / den < tol) }

def hexToNat (cs : List Char) : Option Nat :=
  cs.foldlM (fun acc c => (hexVal c).map fun d => acc * 16 + d) 0

def parseF (s : String) : Option Float :=
  if s.length = 16 then (hexToNat s.toList).map fun v => Float.ofBits (UInt64.ofNat v) else none

def chunks16 : Nat → List Char → List (List Char)
  | 0, _ => []
  | k + 1, cs => cs.take 16 :: chunks16 k (cs.drop 16)

def parseVec (n : Nat) (s : String) : Option (Array Float) :=
  if s.length = 16 * (n + 1) then
    ((chunks16 (n + 1) s.toList).mapM fun c => (hexToNat c).map fun v => Float.ofBits (UInt64.ofNat v)).map List.toArray
  else none

def hex64 (v : UInt64) : String :=
  String.ofList ((List.range 16).map fun k => hexDigit ((v.toNat / 16 ^ (15 - k)) % 16))

def showVec (a : Array Float) : String := String.join (a.toList.map fun x => hex64 x.toBits)

/-- monotone map of the finite doubles to integers, so that |key a - key b| is the distance in ulp -/
def ulpKey (x : Float) : Int :=
  let b := x.toBits.toNat
  if b < 2 ^ 63 then (b : Int) else -((b - 2 ^ 63 : Nat) : Int)

def within (tol : Nat) (a b : Float) : Bool :=
  a.toBits == b.toBits || (tol > 0 && (ulpKey a - ulpKey b).natAbs ≤ tol)

inductive Val where
  | e (a : Array Float)
  | s (x : Float)

def unaryMath : List String :=
  ["abs", "tan", "atan", "sin", "asin", "sinh", "asinh", "cos", "acos", "cosh", "acosh", "sqrt", "exp", "log", "log10"]

def step (v : String) (n : Nat) (xs : Array (Array Float)) (ss : Array Float)
    (stack : List Val) (tok : String) : Option (List Val) :=
  let F := floatFns
  if tok.startsWith "x" then
    match (tok.drop 1).toNat? with
    | some k => if h : k < xs.size then some (.e xs[k] :: stack) else none
    | none => none
  else if tok.startsWith "s" && (tok.drop 1).toString.isNat then
    match (tok.drop 1).toNat? with
    | some k => if h : k < ss.size then some (.s ss[k] :: stack) else none
    | none => none
  else if tok.startsWith "var" then
    match (tok.drop 3).toNat?, stack with
    | some k, .s c :: r =>
      (Gen.applyS v "varBase" n c).map fun base =>
        .e (ofFn (setOneHot (toFn (k := n + 1) base) k)) :: r
    | _, _ => none
  else if tok.startsWith "m." then
    let f := (tok.drop 2).toString
    (match stack with
      | .e a :: r => if unaryMath.contains f then (Gen.mathE F f n a).map fun x => .e x :: r else none
      | _ => none) <|>
    (match stack with
      | .e b :: .e a :: r => (Gen.mathEE F f n a b).map fun x => .e x :: r
      | _ => none) <|>
    (match stack with
      | .e a :: .s c :: r => (Gen.mathSE F f n c a).map fun x => .e x :: r
      | _ => none) <|>
    (match stack with
      | .s c :: .e a :: r =>
        -- min/max(Evaluation, scalar) forward to (scalar, Evaluation)
        if f = "mins" then (Gen.mathSE F "smin" n c a).map fun x => .e x :: r
        else if f = "maxs" then (Gen.mathSE F "smax" n c a).map fun x => .e x :: r
        else (Gen.mathES F f n a c).map fun x => .e x :: r
      | _ => none)
  else if tok = "addSelf" || tok = "subSelf" || tok = "mulSelf" || tok = "divSelf" then
    match stack with
    | .e a :: r => (Gen.applySelf v tok n a).map fun x => .e x :: r
    | _ => none
  else if tok = "dup" then
    match stack with
    | x :: r => some (x :: x :: r)
    | [] => none
  else if tok = "const" then
    match stack with
    | .s c :: r => (Gen.applyS v "const" n c).map fun x => .e x :: r
    | _ => none
  else
    (match stack with
      | .e b :: .e a :: r => (Gen.applyEE v tok n a b).map fun x => .e x :: r
      | _ => none) <|>
    (match stack with
      | .s c :: .e a :: r => (Gen.applyES v tok n a c).map fun x => .e x :: r
      | _ => none) <|>
    (match stack with
      | .e a :: .s c :: r => (Gen.applySE v tok n c a).map fun x => .e x :: r
      | _ => none) <|>
    (match stack with
      | .e a :: r => (Gen.applyE v tok n a).map fun x => .e x :: r
      | _ => none)

def splitAt (sep : String) : List String → List String × List String
  | [] => ([], [])
  | t :: r => if t = sep then ([], r) else let (a, b) := splitAt sep r; (t :: a, b)

def cmpNamesE : List String := ["eqE", "neE", "ltE", "gtE", "leE", "geE"]
def cmpNamesS : List String := ["eqS", "neS", "ltS", "gtS", "leS", "geS"]
def cmpNamesF : List String := ["sne", "slt", "sgt", "sle", "sge"]

def bit (b : Bool) : String := if b then "1" else "0"

/-- all 17 comparison operators on (A, B, c) as a string of 0/1 -/
def cmpBits (v : String) (n : Nat) (a b : Array Float) (c : Float) : Option String :=
  (cmpNamesE.mapM fun nm => (Gen.cmpEE v nm n a b).map bit).bind fun e =>
  (cmpNamesS.mapM fun nm => (Gen.cmpES v nm n a c).map bit).bind fun s =>
  (cmpNamesF.mapM fun nm => (Gen.cmpSE v nm n c a).map bit).map fun f =>
    String.join (e ++ s ++ f)

def oneHot (n : Nat) (base : Array Float) (pos : Nat) : Array Float :=
  ofFn (setOneHot (toFn (k := n + 1) base) pos)

/-- the static factories: `some none` = the real code throws -/
def factory (v : String) (n : Nat) (kind : String) (nVars : Int) (c : Float) (pos : Nat) : Option (Option (Array Float)) :=
  match kind with
  | "zero" => (Gen.factory0 v "constZero" n).map some
  | "one" => (Gen.factory0 v "constOne" n).map some
  | "cx" => (Gen.factory1 v "constX" n c).map some
  | "vx" => (Gen.factory1 v "varXBase" n c).map fun b => some (oneHot n b pos)
  | "c1" => if Gen.hasCreateConstant1 v then (Gen.applyS v "const" n c).map some else some none
  | "v2" => if Gen.hasCreateVariable2 v then (Gen.applyS v "varBase" n c).map fun b => some (oneHot n b pos) else some none
  | "cn" =>
    match Gen.factoryArity v n with
    | some ar => if nVars != ar then some none else (Gen.applyS v "const" n c).map some
    | none => if nVars = (n : Int) then (Gen.applyS v "const" n c).map some else none
  | "vn" =>
    if Gen.notTranslatable.contains (v ++ ".createVariableN") then none else
    match Gen.factoryArity v n with
    | some ar => if nVars != ar then some none else (Gen.applyS v "varBase" n c).map fun b => some (oneHot n b pos)
    | none => if nVars = (n : Int) then (Gen.applyS v "varBase" n c).map fun b => some (oneHot n b pos) else none
  | "blank" => if Gen.blankIsZero v then some (some (Array.replicate (n + 1) 0.0)) else none
  | _ => none

def bitsEq (a b : Array Float) : Bool :=
  a.size = b.size && (a.toList.zip b.toList).all fun (g, w) => g.toBits == w.toBits

def handle (op : String) (args : List String) : String :=
  match op, args with
  | "densead.eval", v :: n :: tol :: nx :: ns :: rest =>
    match n.toNat?, tol.toNat?, nx.toNat?, ns.toNat? with
    | some n, some tol, some nx, some ns =>
      let xsT := rest.take nx
      let ssT := (rest.drop nx).take ns
      let (prog, res) := splitAt "=" (rest.drop (nx + ns))
      match xsT.mapM (parseVec n), ssT.mapM parseF, res with
      | some xs, some ss, [r] =>
        match parseVec n r with
        | none => "bad-op"
        | some want =>
          match prog.foldlM (step v n xs.toArray ss.toArray) [] with
          | some [.e got] =>
            if got.size = want.size && (got.toList.zip want.toList).all (fun (g, w) => within tol g w)
            then "ok" else "diff " ++ showVec got
          | some _ => "bad-stack"
          | none => "unsupported"
      | _, _, _ => "bad-op"
    | _, _, _, _ => "bad-op"
  | "densead.cmp", [v, n, a, b, c, "=", want] =>
    match n.toNat? with
    | some n =>
      match parseVec n a, parseVec n b, parseF c with
      | some a, some b, some c =>
        match cmpBits v n a b c with
        | some got => if got = want then "ok" else "diff " ++ got
        | none => "unsupported"
      | _, _, _ => "bad-op"
    | none => "bad-op"
  | "densead.fact", [v, n, kind, nVars, c, pos, "=", want] =>
    match n.toNat?, nVars.toInt?, parseF c, pos.toNat? with
    | some n, some nVars, some c, some pos =>
      match factory v n kind nVars c pos with
      | none => "unsupported"
      | some none => if want = "err" then "ok" else "diff err"
      | some (some got) =>
        match parseVec n want with
        | some w => if bitsEq got w then "ok" else "diff " ++ showVec got
        | none => "diff " ++ showVec got
    | _, _, _, _ => "bad-op"
  | "densead.pred", [n, a, b, tol, "=", want] =>
    match n.toNat? with
    | some n =>
      match parseVec n a, parseVec n b, parseF tol with
      | some a, some b, some tol =>
        let got := bit (Gen.M.isSame (n := n) floatPreds (toFn a) (toFn b) tol) ++
          bit (Gen.M.isfinite (n := n) floatPreds (toFn a)) ++ bit (Gen.M.isnan (n := n) floatPreds (toFn a))
        if got = want then "ok" else "diff " ++ got
      | _, _, _ => "bad-op"
    | none => "bad-op"
  | "densead.untranslatable", [] => " ".intercalate Gen.notTranslatable
  | _, _ => "bad-op"

end OpmVerif.DenseAd
