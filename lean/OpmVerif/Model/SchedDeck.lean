/-
  Model of `ScheduleDeck::ScheduleDeck` (opm/input/eclipse/Schedule/ScheduleDeck.cpp),
  non-restarted case (`rst_info.report_step = 0`, `skiprest = false`):

    m_blocks = [ START block at start_time ]
    for keyword in SCHEDULESection(deck):
      DATES  : for every record: t = timeFromEclipse(record) (seconds);
               t < to_time_t(last_time)  => throw;  add_block(DATES, t)
      TSTEP  : for every value v: v < 0 => throw;
               add_block(TSTEP, last_time + duration_cast<ms>(v [SI seconds]))
      SCHEDULE : remembered as location only
      other  : m_blocks.back().push_back(keyword)
    add_block(t): last_time = t; m_blocks.back().end_time(t); m_blocks.emplace_back(type, t)

  Times are integer milliseconds since the epoch (`time_point` is an int64 count of
  milliseconds); a DATES record is converted with the civil-calendar formula (this is what
  `mkdatetime`/`timegm` compute for valid dates); a TSTEP value is a non-negative rational
  number of days `num/den`, converted with truncation as `duration_cast` does.

  The restart / SKIPREST variant is modelled at the end of this file (`rblocks`): placeholder
  blocks 0 .. report_step-1, keywords of the skipped part dropped except a white list which goes
  to block 0, the SKIPREST error when the restart time is stepped over.
-/
namespace OpmVerif.Sched

abbrev Time := Int

structure Date where
  y : Nat
  m : Nat
  d : Nat
  hh : Nat := 0
  mm : Nat := 0
  ss : Nat := 0
deriving DecidableEq, Repr

/-- Days since 1970-01-01 of a proleptic Gregorian date (Howard Hinnant's `days_from_civil`). -/
def daysFromCivil (y m d : Nat) : Int :=
  let y' : Int := if m ≤ 2 then (y : Int) - 1 else y
  let era : Int := (if y' ≥ 0 then y' else y' - 399) / 400
  let yoe : Int := y' - era * 400
  let mp : Int := if m > 2 then (m : Int) - 3 else (m : Int) + 9
  let doy : Int := (153 * mp + 2) / 5 + (d : Int) - 1
  let doe : Int := yoe * 365 + yoe / 4 - yoe / 100 + doy
  era * 146097 + doe - 719468

/-- `timeFromEclipse`: seconds since the epoch. -/
def Date.seconds (dt : Date) : Int :=
  daysFromCivil dt.y dt.m dt.d * 86400 + (dt.hh : Int) * 3600 + (dt.mm : Int) * 60 + dt.ss

/-- A TSTEP value in days as a fraction (sign, numerator, denominator). -/
structure Dur where
  neg : Bool := false
  num : Nat
  den : Nat
deriving DecidableEq, Repr

/-- `duration_cast<milliseconds>(duration<double>(days * 86400))`, truncating. -/
def Dur.ms (v : Dur) : Int := ((v.num * 86400000 / v.den : Nat) : Int)

inductive TType | start | dates | tstep | restart
deriving DecidableEq, Repr

structure Block (κ : Type) where
  ttype : TType
  start : Time
  stop : Option Time
  kws : List κ
deriving Repr

instance {κ} [DecidableEq κ] : DecidableEq (Block κ) := by
  intro a b
  cases a; cases b
  simp only [Block.mk.injEq]
  exact inferInstance

/-- SCHEDULE-section keywords as the constructor sees them. -/
inductive Kw (κ : Type)
  | dates (recs : List Date)
  | tstep (vals : List Dur)
  | schedule
  | other (k : κ)
deriving Repr

/-- The constructor's loops flattened into atomic events. -/
inductive Ev (κ : Type)
  | date (d : Date)
  | step (v : Dur)
  | kw (k : κ)
deriving Repr

def Kw.events {κ} : Kw κ → List (Ev κ)
  | .dates rs => rs.map Ev.date
  | .tstep vs => vs.map Ev.step
  | .schedule => []
  | .other k => [Ev.kw k]

def flatten {κ} (kws : List (Kw κ)) : List (Ev κ) := kws.flatMap Kw.events

inductive DeckErr | dateBackwards | negativeTstep | skiprestMissed
deriving DecidableEq, Repr

/-- Constructor state: closed blocks (in order), the open block, `context.last_time`. -/
structure St (κ : Type) where
  closed : List (Block κ)
  cur : Block κ
  last : Time

def addBlock {κ} (s : St κ) (ty : TType) (t : Time) : St κ :=
  { closed := s.closed ++ [{ s.cur with stop := some t }],
    cur := { ttype := ty, start := t, stop := none, kws := [] },
    last := t }

def stepEv {κ} (s : St κ) : Ev κ → Except DeckErr (St κ)
  | .kw k => .ok { s with cur := { s.cur with kws := s.cur.kws ++ [k] } }
  | .date d =>
    -- comparison in whole seconds: `nextTime < to_time_t(context.last_time)`
    if d.seconds < s.last / 1000 then .error .dateBackwards
    else .ok (addBlock s .dates (d.seconds * 1000))
  | .step v =>
    if v.neg then .error .negativeTstep
    else .ok (addBlock s .tstep (s.last + v.ms))

def runEvs {κ} (s : St κ) : List (Ev κ) → Except DeckErr (St κ)
  | [] => .ok s
  | e :: r =>
    match stepEv s e with
    | .error x => .error x
    | .ok s' => runEvs s' r

def initSt {κ} (start : Time) : St κ :=
  { closed := [], cur := { ttype := .start, start := start, stop := none, kws := [] }, last := start }

def St.all {κ} (s : St κ) : List (Block κ) := s.closed ++ [s.cur]

/-- `ScheduleDeck::m_blocks` for a non-restarted run starting at `start` (ms). -/
def blocks {κ} (start : Time) (kws : List (Kw κ)) : Except DeckErr (List (Block κ)) :=
  match runEvs (initSt start) (flatten kws) with
  | .error e => .error e
  | .ok s => .ok s.all

/-- Number of report steps (DATES records + TSTEP values) a keyword list introduces. -/
def Kw.nsteps {κ} : Kw κ → Nat
  | .dates rs => rs.length
  | .tstep vs => vs.length
  | _ => 0

def nsteps {κ} (kws : List (Kw κ)) : Nat := (kws.map Kw.nsteps).sum

def Kw.isTime {κ} : Kw κ → Bool
  | .dates _ => true
  | .tstep _ => true
  | _ => false

/-! ### restarted runs (`rst_info.report_step > 0`, optionally SKIPREST)

    m_blocks = report_step placeholder blocks at start_time (block 0 START, the others RESTART,
               end_time = start_time);
               without SKIPREST: the last one ends at the restart time and a RESTART block at the
               restart time is opened
    context  = (rst_skip = skiprest, last_time = m_blocks.back().start_time())
    other keyword: rst_skip ? (white-listed ? m_blocks[0].push_back : dropped) : m_blocks.back().push_back
    add_block(t): last_time = t;
                  rst_skip: t < restart_time => return (no block);  t == restart_time => rst_skip = false;
                            t > restart_time => SKIPREST error
                  m_blocks.back().end_time(t); m_blocks.emplace_back(type, t)
-/

structure RCfg where
  /-- rst_info.report_step -/
  rstep : Nat
  /-- rst_info.time in ms -/
  rtime : Time
  skiprest : Bool
deriving DecidableEq, Repr

structure RSt (κ : Type) where
  closed : List (Block κ)
  cur : Block κ
  last : Time
  /-- context.rst_skip -/
  skip : Bool

def RSt.all {κ} (s : RSt κ) : List (Block κ) := s.closed ++ [s.cur]

def placeholder {κ} (start : Time) (i : Nat) : Block κ :=
  { ttype := if i = 0 then .start else .restart, start := start, stop := some start, kws := [] }

def rinit {κ} (cfg : RCfg) (start : Time) : RSt κ :=
  match cfg.rstep with
  | 0 => { closed := [], cur := { ttype := .start, start := start, stop := none, kws := [] }, last := start, skip := cfg.skiprest }
  | n + 1 =>
    let pre : List (Block κ) := (List.range n).map (placeholder start)
    if cfg.skiprest then
      { closed := pre, cur := placeholder start n, last := start, skip := true }
    else
      { closed := pre ++ [{ (placeholder start n : Block κ) with stop := some cfg.rtime }],
        cur := { ttype := .restart, start := cfg.rtime, stop := none, kws := [] }, last := cfg.rtime, skip := false }

/-- `m_blocks[0].push_back(keyword)` -/
def pushFirst {κ} (s : RSt κ) (k : κ) : RSt κ :=
  match s.closed with
  | [] => { s with cur := { s.cur with kws := s.cur.kws ++ [k] } }
  | b :: r => { s with closed := { b with kws := b.kws ++ [k] } :: r }

def addBlockR {κ} (cfg : RCfg) (s : RSt κ) (ty : TType) (t : Time) : Except DeckErr (RSt κ) :=
  let close (s : RSt κ) : RSt κ :=
    { s with closed := s.closed ++ [{ s.cur with stop := some t }],
             cur := { ttype := ty, start := t, stop := none, kws := [] } }
  if s.skip then
    if t < cfg.rtime then .ok { s with last := t }
    else if t = cfg.rtime then .ok (close { s with last := t, skip := false })
    else if cfg.skiprest then .error .skiprestMissed
    else .ok (close { s with last := t, skip := false })
  else .ok (close { s with last := t })

def stepEvR {κ} (cfg : RCfg) (wl : κ → Bool) (s : RSt κ) : Ev κ → Except DeckErr (RSt κ)
  | .kw k =>
    if s.skip then .ok (if wl k then pushFirst s k else s)
    else .ok { s with cur := { s.cur with kws := s.cur.kws ++ [k] } }
  | .date d =>
    if d.seconds < s.last / 1000 then .error .dateBackwards
    else addBlockR cfg s .dates (d.seconds * 1000)
  | .step v =>
    if v.neg then .error .negativeTstep
    else addBlockR cfg s .tstep (s.last + v.ms)

def runEvsR {κ} (cfg : RCfg) (wl : κ → Bool) (s : RSt κ) : List (Ev κ) → Except DeckErr (RSt κ)
  | [] => .ok s
  | e :: r =>
    match stepEvR cfg wl s e with
    | .error x => .error x
    | .ok s' => runEvsR cfg wl s' r

/-- `ScheduleDeck::m_blocks` of a restarted run. -/
def rblocks {κ} (cfg : RCfg) (wl : κ → Bool) (start : Time) (kws : List (Kw κ)) : Except DeckErr (List (Block κ)) :=
  match runEvsR cfg wl (rinit cfg start) (flatten kws) with
  | .error e => .error e
  | .ok s => .ok s.all

end OpmVerif.Sched
