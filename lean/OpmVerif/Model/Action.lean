/-
  Model of ACTIONX condition handling:
    Action::Parser  (ActionParser.cpp: parse_or > parse_and > parse_cmp, parse_left/op/right)
    ASTNode::eval / evalLogicalOperation / evalComparison, Value::eval_cmp   (ASTNode.cpp, ActionValue.cpp)
    Result::makeSetUnion / makeSetIntersection on SortedVectorSet            (ActionResult.cpp)
    ActionX::ready, State::add_run                                           (ActionX.cpp, State.cpp)

  Token classification (`Parser::get_type`, `get_func`, strtod) is done by the real code in the
  harness and travels with the token; wildcard matching of well names likewise.
-/
import OpmVerif.Model.Basic

namespace OpmVerif.Act

/-- comparison operators `TokenType::op_gt … op_ne` -/
inductive CmpOp where | gt | ge | lt | le | eq | ne
  deriving DecidableEq, Repr, Inhabited

/-- `TokenType` as far as the parser distinguishes -/
inductive TT where
  | number | expr | lp | rp | cmp (o : CmpOp) | and | or
  deriving DecidableEq, Repr, Inhabited

/-- one condition token: class, text, (for numbers) the strtod value bits, (for expressions) the
`FuncType` code from `get_func` -/
structure Tok where
  ty : TT
  text : String
  bits : UInt64 := 0
  func : Nat := 0
  deriving DecidableEq, Repr, Inhabited

/-- a leaf of a comparison: `ASTNode{number}` or `ASTNode{ecl_expr, func_type, func, arg_list}` -/
inductive Leaf where
  | num (bits : UInt64)
  | expr (func : String) (funcType : Nat) (args : List String)
  deriving DecidableEq, Repr, Inhabited

/-- condition trees.  `and` is n-ary (one node per AND chain, ≥ 2 children), `or` has exactly the
two children `parse_or` gives it (left operand, rest of the chain). -/
inductive Cond where
  | cmp (o : CmpOp) (l r : Leaf)
  | and (c1 c2 : Cond) (rest : List Cond)
  | or (l r : Cond)
  deriving Repr, Inhabited

/-- parser outcome: `err` = error node / exception, `extra` = "Extra unhandled data" -/
inductive PRes where
  | fuel
  | err
  | ok (c : Cond) (rest : List Tok)
  deriving Repr, Inhabited

def stripQuotes (s : String) : String :=
  match s.toList with
  | '\'' :: r => String.ofList r.dropLast
  | _ => s

/-- the argument loop of `parse_left`/`parse_right`: following expr / number tokens -/
def takeArgs : List Tok → List String × List Tok
  | [] => ([], [])
  | t :: r =>
    if t.ty = .expr ∨ t.ty = .number then
      let (as, rest) := takeArgs r
      (t.text :: as, rest)
    else ([], t :: r)

/-- `parse_left`: must be an expression (else the code throws) -/
def parseLeft : List Tok → Option (Leaf × List Tok)
  | [] => none
  | t :: r =>
    if t.ty = .expr then
      let (as, rest) := takeArgs r
      some (.expr t.text t.func (as.map stripQuotes), rest)
    else none

/-- `parse_right`: number or expression (func_type `none`) -/
def parseRight : List Tok → Option (Leaf × List Tok)
  | [] => none
  | t :: r =>
    if t.ty = .number then some (.num t.bits, r)
    else if t.ty = .expr then
      let (as, rest) := takeArgs r
      some (.expr t.text 0 (as.map stripQuotes), rest)
    else none

mutual
/-- `parse_cmp` -/
def parseCmp : Nat → List Tok → PRes
  | 0, _ => .fuel
  | n + 1, ts =>
    match ts with
    | [] => .err
    | t :: r =>
      if t.ty = .lp then
        match parseOr n r with
        | .fuel => .fuel
        | .err => .err
        | .ok inner rest =>
          match rest with
          | c :: r2 => if c.ty = .rp then .ok inner r2 else .err
          | [] => .err
      else
        match parseLeft ts with
        | none => .err
        | some (l, rest) =>
          match rest with
          | [] => .err
          | o :: r2 =>
            match o.ty with
            | .cmp op =>
              match parseRight r2 with
              | none => .err
              | some (rt, rest2) => .ok (.cmp op l rt) rest2
            | _ => .err

/-- the `while (current is AND)` loop of `parse_and` -/
def parseAndLoop : Nat → List Cond → List Tok → Option (List Cond × List Tok) ⊕ Unit
  | 0, _, _ => .inr ()
  | n + 1, acc, ts =>
    match ts with
    | t :: r =>
      if t.ty = .and then
        match parseCmp n r with
        | .fuel => .inr ()
        | .err => .inl none
        | .ok c rest => parseAndLoop n (acc ++ [c]) rest
      else .inl (some (acc, ts))
    | [] => .inl (some (acc, []))

/-- `parse_and` -/
def parseAnd : Nat → List Tok → PRes
  | 0, _ => .fuel
  | n + 1, ts =>
    match parseCmp n ts with
    | .fuel => .fuel
    | .err => .err
    | .ok left rest =>
      match rest with
      | t :: _ =>
        if t.ty = .and then
          match parseAndLoop n [] rest with
          | .inr _ => .fuel
          | .inl none => .err
          | .inl (some (cs, rest2)) =>
            match cs with
            | c2 :: more => .ok (.and left c2 more) rest2
            | [] => .err
        else .ok left rest
      | [] => .ok left []

/-- `parse_or`: the loop body calls `parse_or` itself, so it runs once: `or [left, rest-of-chain]` -/
def parseOr : Nat → List Tok → PRes
  | 0, _ => .fuel
  | n + 1, ts =>
    match parseAnd n ts with
    | .fuel => .fuel
    | .err => .err
    | .ok left rest =>
      match rest with
      | t :: r =>
        if t.ty = .or then
          match parseOr n r with
          | .fuel => .fuel
          | .err => .err
          | .ok right rest2 =>
            -- back in the `while`: the token after the inner parse_or cannot be OR again
            .ok (.or left right) rest2
        else .ok left rest
      | [] => .ok left []
end

inductive Parsed where
  | empty            -- no token: `ASTNode{end}`, evaluates to false
  | tree (c : Cond)
  | err
  | fuel
  deriving Repr, Inhabited

/-- `Parser::parse` -/
def parse (ts : List Tok) : Parsed :=
  match ts with
  | [] => .empty
  | _ =>
    match parseOr (4 * ts.length + 4) ts with
    | .fuel => .fuel
    | .err => .err
    | .ok c [] => .tree c
    | .ok _ (_ :: _) => .err

/-! ### the documented condition grammar as a printer

Ranks: 2 comparison (or a parenthesised condition), 1 AND chain, 0 OR chain.  AND binds tighter than
OR; an AND chain is one n-ary node, so an AND/OR operand of an AND is parenthesised; OR chains nest
to the right (`A OR B OR C` = `A OR (B OR C)`), so only the left operand of an OR that is itself an
OR is parenthesised. -/

def lpT : Tok := { ty := .lp, text := "(" }
def rpT : Tok := { ty := .rp, text := ")" }
def andT : Tok := { ty := .and, text := "AND" }
def orT : Tok := { ty := .or, text := "OR" }
def CmpOp.tok (o : CmpOp) : Tok := { ty := .cmp o, text := "" }
def argTok (a : String) : Tok := { ty := .expr, text := a }

def Leaf.render : Leaf → List Tok
  | .num b => [{ ty := .number, text := "", bits := b }]
  | .expr f ft args => { ty := .expr, text := f, func := ft } :: args.map argTok

def Cond.level : Cond → Nat
  | .cmp _ _ _ => 2
  | .and _ _ _ => 1
  | .or _ _ => 0

/-- put the printed body of `c` into a context of rank `lvl` -/
def wrapC (lvl : Nat) (c : Cond) (body : List Tok) : List Tok :=
  if lvl ≤ c.level then body else lpT :: (body ++ [rpT])

def renderBody : Cond → List Tok
  | .cmp o l r => l.render ++ o.tok :: r.render
  | .and c1 c2 rest => wrapC 2 c1 (renderBody c1) ++ andT :: (wrapC 2 c2 (renderBody c2) ++ renderTail rest)
  | .or l r => wrapC 1 l (renderBody l) ++ orT :: wrapC 0 r (renderBody r)
where
  /-- the further operands of an AND chain, each preceded by `AND` -/
  renderTail : List Cond → List Tok
    | [] => []
    | c :: cs => andT :: (wrapC 2 c (renderBody c) ++ renderTail cs)

def renderAt (lvl : Nat) (c : Cond) : List Tok := wrapC lvl c (renderBody c)
def render (c : Cond) : List Tok := renderAt 0 c

/-- arguments the parser returns unchanged (no leading quote to strip) -/
def plainArgs (args : List String) : Prop := ∀ a ∈ args, stripQuotes a = a

/-- trees of the documented grammar: the left-hand side of a comparison is an expression, the
right-hand side a number or an expression without function type; arguments are unquoted -/
def WFC : Cond → Prop
  | .cmp _ l r =>
    (match l with
     | .expr _ _ args => plainArgs args
     | .num _ => False) ∧
    (match r with
     | .num _ => True
     | .expr _ ft args => ft = 0 ∧ plainArgs args)
  | .and c1 c2 rest => WFC c1 ∧ WFC c2 ∧ WFCs rest
  | .or l r => WFC l ∧ WFC r
where
  WFCs : List Cond → Prop
    | [] => True
    | c :: cs => WFC c ∧ WFCs cs

/-! ### Result and its set algebra -/

/-- `std::set_union` on two sorted ranges -/
def setUnion (lt : β → β → Bool) : List β → List β → List β
  | [], ys => ys
  | xs, [] => xs
  | x :: xs, y :: ys =>
    if lt x y then x :: setUnion lt xs (y :: ys)
    else if lt y x then y :: setUnion lt (x :: xs) ys
    else x :: setUnion lt xs ys
termination_by xs ys => xs.length + ys.length

/-- `std::set_intersection` -/
def setInter (lt : β → β → Bool) : List β → List β → List β
  | [], _ => []
  | _, [] => []
  | x :: xs, y :: ys =>
    if lt x y then setInter lt xs (y :: ys)
    else if lt y x then setInter lt (x :: xs) ys
    else x :: setInter lt xs ys
termination_by xs ys => xs.length + ys.length

/-- insertion into a sorted duplicate-free list (`commit` = sort + unique) -/
def insertSorted (lt : β → β → Bool) (x : β) : List β → List β
  | [] => [x]
  | y :: ys => if lt x y then x :: y :: ys else if lt y x then y :: insertSorted lt x ys else y :: ys

def commit (lt : β → β → Bool) (xs : List β) : List β := xs.foldr (insertSorted lt) []

/-- `Action::Result`: truth value + optional sorted set of matching wells -/
structure Res (β : Type) where
  ok : Bool
  wells : Option (List β)
  deriving Repr, Inhabited

/-- `MatchingEntities::clear()`: an existing set becomes empty, an absent one stays absent -/
def clearW : Option (List β) → Option (List β)
  | none => none
  | some _ => some []

/-- `Result::makeSetUnion` -/
def Res.union (lt : β → β → Bool) (a b : Res β) : Res β :=
  let ok := a.ok || b.ok
  if !ok then ⟨ok, clearW a.wells⟩
  else if !b.ok then ⟨ok, a.wells⟩           -- a false operand contributes no set
  else match b.wells with
    | none => ⟨ok, a.wells⟩
    | some bs => ⟨ok, some (setUnion lt (a.wells.getD []) bs)⟩

/-- `Result::makeSetIntersection` (`intersectWithEmptyHandling`) -/
def Res.inter (lt : β → β → Bool) (a b : Res β) : Res β :=
  let ok := a.ok && b.ok
  if !ok then ⟨ok, clearW a.wells⟩
  else match b.wells, a.wells with
    | none, w => ⟨ok, w⟩
    | some bs, none => ⟨ok, some bs⟩
    | some bs, some as => ⟨ok, some (setInter lt as bs)⟩

/-! ### evaluation -/

/-- `Action::Value`: a scalar or a list of (well, value) -/
inductive Value (α : Type) where
  | scalar (x : α)
  | wells (ws : List (String × α))

def cmpHolds (lt : α → α → Bool) (eq : α → α → Bool) : CmpOp → α → α → Bool
  | .gt, a, b => lt b a
  | .ge, a, b => lt b a || eq a b
  | .lt, a, b => lt a b
  | .le, a, b => lt a b || eq a b
  | .eq, a, b => eq a b
  | .ne, a, b => !eq a b

/-- `Value::eval_cmp`: the right-hand side must be a scalar -/
def evalCmp (lt eq : α → α → Bool) (slt : String → String → Bool) (op : CmpOp) :
    Value α → Value α → Except Unit (Res String)
  | _, .wells _ => .error ()
  | .scalar a, .scalar b => .ok ⟨cmpHolds lt eq op a b, none⟩
  | .wells ws, .scalar b =>
    let m := (ws.filter fun p => cmpHolds lt eq op p.2 b).map (·.1)
    .ok ⟨!m.isEmpty, some (commit slt m)⟩

/-- `evalLogicalOperation`: fold the children's results from `Result{type == and}` -/
def foldRes (slt : String → String → Bool) (isAnd : Bool) (rs : List (Res String)) : Res String :=
  rs.foldl (fun acc r => if isAnd then acc.inter slt r else acc.union slt r) ⟨isAnd, none⟩

def sequence : List (Except Unit γ) → Except Unit (List γ)
  | [] => .ok []
  | .error e :: _ => .error e
  | .ok x :: r => match sequence r with
    | .ok xs => .ok (x :: xs)
    | .error e => .error e

/-- tree evaluation given the value of every comparison (`leafEval`) -/
def evalCond (slt : String → String → Bool) (leafEval : CmpOp → Leaf → Leaf → Except Unit (Res String)) :
    Cond → Except Unit (Res String)
  | .cmp o l r => leafEval o l r
  | .or l r =>
    match evalCond slt leafEval l, evalCond slt leafEval r with
    | .ok a, .ok b => .ok (foldRes slt false [a, b])
    | _, _ => .error ()
  | .and c1 c2 rest =>
    match evalCond slt leafEval c1, evalCond slt leafEval c2, evalList slt leafEval rest with
    | .ok a, .ok b, .ok rs => .ok (foldRes slt true (a :: b :: rs))
    | _, _, _ => .error ()
where
  evalList (slt : String → String → Bool) (leafEval : CmpOp → Leaf → Leaf → Except Unit (Res String)) :
      List Cond → Except Unit (List (Res String))
    | [] => .ok []
    | c :: cs =>
      match evalCond slt leafEval c, evalList slt leafEval cs with
      | .ok a, .ok rs => .ok (a :: rs)
      | _, _ => .error ()

/-- truth value of a condition under a valuation of the comparisons -/
def truth (v : CmpOp → Leaf → Leaf → Bool) : Cond → Bool
  | .cmp o l r => v o l r
  | .or l r => truth v l || truth v r
  | .and c1 c2 rest => truth v c1 && truth v c2 && truthAll v rest
where
  truthAll (v : CmpOp → Leaf → Leaf → Bool) : List Cond → Bool
    | [] => true
    | c :: cs => truth v c && truthAll v cs

/-! ### ActionX::ready / State::add_run -/

/-- per-action run state: number of runs and time of the last one -/
structure RunState where
  count : Nat
  last : Int
  deriving Repr, DecidableEq, Inhabited

structure Limits where
  maxRun : Nat
  minWait : Int       -- seconds (the harness uses whole seconds)
  start : Int
  deriving Repr

/-- `ActionX::ready(state, sim_time)` -/
def ready (L : Limits) (s : RunState) (t : Int) : Bool :=
  if s.count ≥ L.maxRun ∨ t < L.start then false
  else if s.count = 0 ∨ L.minWait ≤ 0 then true
  else decide (t - s.last ≥ L.minWait)

/-- `State::add_run` -/
def addRun (s : RunState) (t : Int) : RunState := ⟨s.count + 1, t⟩

/-- the simulator's use: at each evaluation time, if `ready` and the condition holds, run -/
def drive (L : Limits) : RunState → List (Int × Bool) → List Int
  | _, [] => []
  | s, (t, c) :: rest =>
    if ready L s t && c then t :: drive L (addRun s t) rest
    else drive L s rest

def finalState (L : Limits) : RunState → List (Int × Bool) → RunState
  | s, [] => s
  | s, (t, c) :: rest =>
    if ready L s t && c then finalState L (addRun s t) rest
    else finalState L s rest

/-! ### several actions: `Action::State` keyed by (name, id), `Actions::pending`, `Actions::add`

`State::run_state` is a `std::map<pair<name, id>, RunState>`; a missing entry means "never run"
(`run_count` 0).  The map is modelled as a total function. -/

abbrev Key := String × Nat

/-- `State::run_state` -/
def AState := Key → RunState

def AState.empty : AState := fun _ => ⟨0, 0⟩

def AState.set (s : AState) (k : Key) (v : RunState) : AState := fun k' => if k' = k then v else s k'

/-- one `ActionX`: identity (name, id) and limits -/
structure ActDef where
  key : Key
  lim : Limits
  deriving Repr

/-- `Actions::pending(state, sim_time)`: the actions that are `ready`, in definition order -/
def pendingA (acts : List ActDef) (s : AState) (t : Int) : List ActDef :=
  acts.filter fun a => ready a.lim (s a.key) t

/-- the simulator's loop over the pending actions at one time: evaluate the condition (`oc`), on
true record the run (`State::add_run`) -/
def runStep (t : Int) (oc : Key → Bool) : AState → List ActDef → AState × List (Key × Int)
  | s, [] => (s, [])
  | s, a :: r =>
    if oc a.key then
      let res := runStep t oc (s.set a.key (addRun (s a.key) t)) r
      (res.1, (a.key, t) :: res.2)
    else runStep t oc s r

/-- a whole simulation: at each report step (time, condition outcomes) run the pending actions;
the log lists (action, time) of every run -/
def sim (acts : List ActDef) : AState → List (Int × (Key → Bool)) → List (Key × Int)
  | _, [] => []
  | s, (t, oc) :: rest =>
    let res := runStep t oc s (pendingA acts s t)
    res.2 ++ sim acts res.1 rest

def simState (acts : List ActDef) : AState → List (Int × (Key → Bool)) → AState
  | s, [] => s
  | s, (t, oc) :: rest => simState acts (runStep t oc s (pendingA acts s t)).1 rest

/-- the runs of one action in a log -/
def runsOf (k : Key) (log : List (Key × Int)) : List Int :=
  log.filterMap fun e => if e.1 = k then some e.2 else none

/-- `Actions::add`: a new name is appended with id 0 (`ActionX::m_id` default); an existing name is
replaced in place and gets the old id + 1 -/
def addAction (acts : List ActDef) (name : String) (lim : Limits) : List ActDef :=
  if acts.any (fun a => a.key.1 = name) then
    acts.map fun a => if a.key.1 = name then ⟨(name, a.key.2 + 1), lim⟩ else a
  else acts ++ [⟨(name, 0), lim⟩]

/-- `State::load_rst` for one action: `run_count` times `add_run(last_run)` -/
def loadRstN (k : Key) (last : Int) : Nat → AState → AState
  | 0, s => s
  | n + 1, s => loadRstN k last n (s.set k (addRun (s k) last))

def loadRst (s : AState) (k : Key) (count : Nat) (last : Int) : AState := loadRstN k last count s

end OpmVerif.Act
