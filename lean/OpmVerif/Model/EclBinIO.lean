/-
  Line-protocol front end of the unformatted codec model.
    eclbin.encode <TYPE> <esz> <name-hex> <n> <elems-hex>   -> hex of encodeArr
    eclbin.decode <file-hex>                                -> ok <arr>;<arr>;... | err
    eclbin.size   <TYPE> <esz> <num>                        -> <bytes> | err
  <arr> = <name-hex>:<TYPE>:<esz>:<n>:<elems-hex>
-/
import OpmVerif.Model.EclBin
-- driver: prefix=eclbin handler=OpmVerif.Ecl.handleEclBin

namespace OpmVerif.Ecl
open ArrType

def parseTy (s : String) (esz : Nat) : Option ArrType :=
  match s with
  | "INTE" => some inte | "REAL" => some real | "DOUB" => some doub
  | "CHAR" => some char | "LOGI" => some logi | "MESS" => some mess
  | "C0NN" => some (c0nn esz)
  | _ => none

def tyName : ArrType → String
  | inte => "INTE" | real => "REAL" | doub => "DOUB" | char => "CHAR"
  | logi => "LOGI" | mess => "MESS" | c0nn _ => "C0NN"

def splitEvery (w : Nat) : Nat → Bytes → List Bytes
  | 0, _ => []
  | k + 1, bs => bs.take w :: splitEvery w k (bs.drop w)

/-- What the API shows: LOGI elements as booleans (rendered as the ECL pattern). -/
def canonElems (a : Arr) : List Bytes :=
  match a.ty with
  | logi => a.elems.map fun e =>
      if e = logiWord Gen.EclIO.false_value then e else logiWord Gen.EclIO.true_value_ecl
  | _ => a.elems

/-- `num` is the count the header announced (`getList()` reports it even when it
is ≤ 0 and no data follow). -/
def showArr (num : Int) (a : Arr) : String :=
  let body := toHex (canonElems a).flatten
  toHex a.name ++ ":" ++ tyName a.ty ++ ":" ++ toString (elemSize a.ty) ++ ":" ++
    toString num ++ ":" ++ (if body.isEmpty then "-" else body)

def handleEclBin (op : String) (args : List String) : String :=
  match op, args with
  | "eclbin.encode", [ty, esz, nameHex, n, elemsHex] =>
    match parseTy ty esz.toNat!, ofHex nameHex, ofHex elemsHex with
    | some t, some name, some bs =>
      let es := splitEvery (elemSize t) n.toNat! bs
      toHex (encodeArr { name := name, ty := t, elems := es })
    | _, _, _ => "bad-op"
  | "eclbin.decode", [fileHex] =>
    match ofHex fileHex with
    | some file =>
      match indexFile file (file.length + 1) 0 with
      | .error _ => "err"
      | .ok idx =>
        match loadAll file idx with
        | .ok as => "ok " ++ ";".intercalate ((idx.zip as).map fun (e, a) => showArr e.hdr.num a)
        | .error _ => "err"
    | none => "bad-op"
  | "eclbin.count", [fileHex] =>
    match ofHex fileHex with
    | some file =>
      match decodeFile file with
      | .ok as => "ok " ++ toString as.length
      | .error _ => "err"
    | none => "bad-op"
  | "eclbin.size", [ty, esz, num] =>
    match parseTy ty esz.toNat!, num.toInt? with
    | some t, some k =>
      match sizeOnDiskBinary k t with
      | some v => toString v
      | none => "err"
    | _, _ => "bad-op"
  | _, _ => "bad-op"

end OpmVerif.Ecl
