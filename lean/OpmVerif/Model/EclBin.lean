/-
  Model of the *unformatted* Eclipse array file codec of opm-common:

    writer  : EclOutput::writeBinaryHeader / writeBinaryArray / writeBinaryCharArray
              (opm/io/eclipse/EclOutput.cpp)
    reader  : readBinaryHeader / readBinaryArray  (opm/io/eclipse/EclUtil.cpp)
    indexer : EclFile::load + sizeOnDiskBinary    (opm/io/eclipse/EclFile.cpp, EclUtil.cpp)

  Elements are kept as the byte strings that are on disk (big-endian image of the
  host value), so the model is bit exact and needs no floating point.  The
  numeric constants come from `Gen/EclIO.lean`, which is regenerated from
  `EclIOdata.hpp` on every run.

  Core Lean only (the line-protocol driver links this file).
-/
import OpmVerif.Gen.EclIO
import OpmVerif.Model.Basic

namespace OpmVerif.Ecl

abbrev Bytes := List UInt8

/-- Big-endian image of a 32-bit quantity (`flipEndianInt` + raw write on a
little-endian host). -/
def be32 (n : Nat) : Bytes :=
  [UInt8.ofNat (n / 16777216 % 256), UInt8.ofNat (n / 65536 % 256),
   UInt8.ofNat (n / 256 % 256), UInt8.ofNat (n % 256)]

/-- Unsigned value of four big-endian bytes. -/
def rd32 (b : Bytes) : Nat :=
  match b with
  | [b0, b1, b2, b3] => b0.toNat * 16777216 + b1.toNat * 65536 + b2.toNat * 256 + b3.toNat
  | _ => 0

/-- Two's complement reading of a 32-bit pattern (`int` in the C++). -/
def toI32 (n : Nat) : Int := if n < 2147483648 then (n : Int) else (n : Int) - 4294967296

/-- 32-bit pattern of an `int`. -/
def ofI32 (i : Int) : Nat := (i % 4294967296).toNat

inductive ArrType where
  | inte | real | doub | char | logi | mess
  | c0nn (n : Nat)
  deriving DecidableEq, Repr

open ArrType

/-- `block_size_data_binary` + the C0nn adjustment: size of one element. -/
def elemSize : ArrType → Nat
  | inte => Gen.EclIO.sizeOfInte
  | real => Gen.EclIO.sizeOfReal
  | doub => Gen.EclIO.sizeOfDoub
  | char => Gen.EclIO.sizeOfChar
  | logi => Gen.EclIO.sizeOfLogi
  | mess => 0
  | c0nn n => n

/-- `block_size_data_binary` + the C0nn adjustment: max bytes in one sub-record. -/
def maxBlock : ArrType → Nat
  | inte => Gen.EclIO.MaxBlockSizeInte
  | real => Gen.EclIO.MaxBlockSizeReal
  | doub => Gen.EclIO.MaxBlockSizeDoub
  | char => Gen.EclIO.MaxBlockSizeChar
  | logi => Gen.EclIO.MaxBlockSizeLogi
  | mess => 0
  | c0nn n => Gen.EclIO.MaxBlockSizeChar / Gen.EclIO.sizeOfChar * n

/-- `maxNumberOfElements = maxBlockSize / sizeOfElement`. -/
def maxNum (t : ArrType) : Nat := maxBlock t / elemSize t

def ch (c : Char) : UInt8 := UInt8.ofNat c.toNat

def digit (d : Nat) : UInt8 := UInt8.ofNat (48 + d % 10)

/-- Four-character type tag as written by `writeBinaryHeader`
(`"C" << setw(3) << setfill('0') << element_size`, then the first 4 chars). -/
def tag : ArrType → Bytes
  | inte => [ch 'I', ch 'N', ch 'T', ch 'E']
  | real => [ch 'R', ch 'E', ch 'A', ch 'L']
  | doub => [ch 'D', ch 'O', ch 'U', ch 'B']
  | char => [ch 'C', ch 'H', ch 'A', ch 'R']
  | logi => [ch 'L', ch 'O', ch 'G', ch 'I']
  | mess => [ch 'M', ch 'E', ch 'S', ch 'S']
  | c0nn n => [ch 'C', digit (n / 100), digit (n / 10), digit n]

/-- One named array as it exists on disk: 8-byte name, type, elements as raw
byte strings of `elemSize ty` bytes each. -/
structure Arr where
  name  : Bytes
  ty    : ArrType
  elems : List Bytes
  deriving DecidableEq, Repr

/-- Header record for an array with fewer than 2^31 elements. -/
def encodeHeader (name : Bytes) (n : Nat) (t : ArrType) : Bytes :=
  be32 16 ++ name ++ be32 n ++ tag t ++ be32 16

/-- The block loop of `writeBinaryArray` / `writeBinaryCharArray`.
`rest` is the C++ variable (bytes still to write); each round emits
`dhead ++ num elements ++ dhead`. -/
def encodeBlocks (w mb : Nat) : Nat → List Bytes → Bytes
  | 0, _ => []
  | fuel + 1, es =>
    let rest := es.length * w
    if rest = 0 then [] else
    let num := if rest > mb then mb / w else rest / w
    let dhead := be32 (num * w)
    dhead ++ (es.take num).flatten ++ dhead ++ encodeBlocks w mb fuel (es.drop num)

def encodeData (t : ArrType) (es : List Bytes) : Bytes :=
  encodeBlocks (elemSize t) (maxBlock t) (es.length + 1) es

def encodeArr (a : Arr) : Bytes :=
  encodeHeader a.name a.elems.length a.ty ++
    (match a.ty with
     | mess => []
     | t => encodeData t a.elems)

def encodeFile (as : List Arr) : Bytes := as.flatMap encodeArr

/-! ### Size arithmetic used for seeking -/

/-- `sizeOnDiskBinary` (unsigned 64-bit arithmetic; the model is over `Nat`
and `Props/C20` bounds the operands). `none` = the C++ throws. -/
def sizeOnDiskBinary (num : Int) (t : ArrType) : Option Nat :=
  match t with
  | mess => if num > 0 then none else some 0
  | t =>
    if num > 0 then
      let n := num.toNat
      let w := elemSize t
      let mb := maxBlock t
      let mx := mb / w
      let numBlocks := n / mx
      let rest := n - numBlocks * mx
      let full := numBlocks * (mb + 2 * Gen.EclIO.sizeOfInte)
      let last := if rest > 0 then rest * w + 2 * Gen.EclIO.sizeOfInte else 0
      some (full + last)
    else some 0

/-! ### Reader -/

inductive Err where
  | eof            -- short read (stream failed)
  | badHeader      -- bhead ≠ 16
  | badType        -- unknown type tag / unparsable C0nn size
  | badElemSize    -- C0nn element size ≤ 0
  | badCount       -- inconsistent number of elements
  | tailMismatch   -- dhead ≠ dtail
  | messSize       -- MESS with size > 0
  | x231           -- X231 header not well formed
  | badLogi        -- LOGI element that is none of the three known patterns
  | fuel           -- never produced (see `Proofs`)
  deriving DecidableEq, Repr

/-- `fileH.read(buf, n)` followed by a stream test: the first `n` bytes and the
remainder, or failure. -/
def readN (n : Nat) (s : Bytes) : Except Err (Bytes × Bytes) :=
  if s.length < n then .error .eof else .ok (s.take n, s.drop n)

/-- `std::stoi` on the three characters after the leading `C` of a type tag:
optional blanks, optional sign, at least one digit, stops at the first
non-digit. -/
def isSpaceB (b : UInt8) : Bool := b = 32 || (9 ≤ b && b ≤ 13)
def isDigitB (b : UInt8) : Bool := 48 ≤ b && b ≤ 57

def stoiDigits : Bytes → Nat → Nat
  | [], acc => acc
  | b :: bs, acc => if isDigitB b then stoiDigits bs (acc * 10 + (b.toNat - 48)) else acc

def stoi3 (s : Bytes) : Option Int :=
  let s := s.dropWhile isSpaceB
  let (neg, s) := match s with
    | 43 :: r => (false, r)
    | 45 :: r => (true, r)
    | r => (false, r)
  match s with
  | b :: _ => if isDigitB b then
      let v := stoiDigits s 0
      some (if neg then - (v : Int) else v)
    else none
  | [] => none

/-- Type tag → type (the `if`-chain of `readBinaryHeader`). -/
def parseTag (tg : Bytes) : Except Err ArrType :=
  if tg = tag inte then .ok inte
  else if tg = tag real then .ok real
  else if tg = tag doub then .ok doub
  else if tg = tag char then .ok char
  else match tg with
    | c :: r =>
      if c = ch 'C' then
        match stoi3 r with
        | some v => if v ≤ 0 then .error .badElemSize else .ok (c0nn v.toNat)
        | none => .error .badType
      else if tg = tag logi then .ok logi
      else if tg = tag mess then .ok mess
      else .error .badType
    | [] => .error .badType

/-- The inner four-field header reader. Returns name, raw 32-bit count, tag.
(Explicit matches instead of `do`: the proofs rewrite under them.) -/
def readRawHeader (s : Bytes) : Except Err ((Bytes × Nat × Bytes) × Bytes) :=
  match readN 4 s with
  | .error e => .error e
  | .ok (h, s) =>
  if rd32 h ≠ 16 then .error .badHeader else
  match readN 8 s with
  | .error e => .error e
  | .ok (nm, s) =>
  match readN 4 s with
  | .error e => .error e
  | .ok (cnt, s) =>
  match readN 4 s with
  | .error e => .error e
  | .ok (tg, s) =>
  match readN 4 s with
  | .error e => .error e
  | .ok (t, s) =>
  if rd32 t ≠ 16 then .error .badHeader else
  .ok ((nm, rd32 cnt, tg), s)

structure Header where
  name : Bytes
  num  : Int
  ty   : ArrType
  deriving DecidableEq, Repr

def tagX231 : Bytes := [ch 'X', ch '2', ch '3', ch '1']

/-- `readBinaryHeader` (with the X231 extension). -/
def readHeader (s : Bytes) : Except Err (Header × Bytes) :=
  match readRawHeader s with
  | .error e => .error e
  | .ok ((nm, cnt, tg), s) =>
  if tg = tagX231 then
    let x231exp : Int := - toI32 cnt
    match readRawHeader s with
    | .error e => .error e
    | .ok ((nm2, cnt2, tg2), s) =>
    if nm ≠ nm2 then .error .x231 else
    if x231exp < 0 then .error .x231 else
    match parseTag tg2 with
    | .error e => .error e
    | .ok t => .ok ({ name := nm2, num := toI32 cnt2 + x231exp * 2147483648, ty := t }, s)
  else
    match parseTag tg with
    | .error e => .error e
    | .ok t => .ok ({ name := nm, num := toI32 cnt, ty := t }, s)

/-- Read `k` elements of `w` bytes. -/
def readElems (w : Nat) : Nat → Bytes → Except Err (List Bytes × Bytes)
  | 0, s => .ok ([], s)
  | k + 1, s =>
    match readN w s with
    | .error e => .error e
    | .ok (e, s) =>
    match readElems w k s with
    | .error e => .error e
    | .ok (es, s) => .ok (e :: es, s)

/-- The `while (rest > 0)` loop of `readBinaryArray`. -/
def readBlocks (w mx : Nat) : Nat → Int → Bytes → Except Err (List Bytes × Bytes)
  | 0, rest, s => if rest > 0 then .error .fuel else .ok ([], s)
  | fuel + 1, rest, s =>
    if rest > 0 then
      match readN 4 s with
      | .error e => .error e
      | .ok (dh, s) =>
      let dhead := toI32 (rd32 dh)
      let num : Int := Int.tdiv dhead (w : Int)
      if num > (mx : Int) ∨ num < 0 then .error .badCount else
      match readElems w num.toNat s with
      | .error e => .error e
      | .ok (es, s) =>
      let rest := rest - num
      if (num < (mx : Int) ∧ rest ≠ 0) ∨ (num = (mx : Int) ∧ rest < 0) then .error .badCount else
      match readN 4 s with
      | .error e => .error e
      | .ok (dt, s) =>
      if dhead ≠ toI32 (rd32 dt) then .error .tailMismatch else
      match readBlocks w mx fuel rest s with
      | .error e => .error e
      | .ok (more, s) => .ok (es ++ more, s)
    else .ok ([], s)

/-- `readBinaryArray` for `size` elements of type `t` at the current position. -/
def readData (t : ArrType) (size : Int) (s : Bytes) : Except Err (List Bytes × Bytes) :=
  match t with
  | mess => .ok ([], s)
  | t =>
    -- `arr.reserve(size)` with a negative count throws `std::length_error`
    if size < 0 then .error .badCount
    else readBlocks (elemSize t) (maxNum t) (size.toNat + 1) size s

structure Entry where
  hdr : Header
  pos : Nat      -- `ifStreamPos`: offset of the first data byte
  deriving DecidableEq, Repr

/-- `EclFile::load`: build the index by reading headers and *skipping* the data
with `sizeOnDiskBinary`.  `isEOF` = fewer than four bytes left. -/
def indexFile (file : Bytes) : Nat → Nat → Except Err (List Entry)
  | 0, _ => .error .fuel
  | fuel + 1, pos =>
    let s := file.drop pos
    if s.length < 4 then .ok [] else
      match readHeader s with
      | .error e => .error e
      | .ok (h, s') =>
      let dpos := file.length - s'.length
      match sizeOnDiskBinary h.num h.ty with
      | none => .error .messSize
      | some skip =>
      match indexFile file fuel (dpos + (if h.num > 0 then skip else 0)) with
      | .error e => .error e
      | .ok rest => .ok ({ hdr := h, pos := dpos } :: rest)

/-- The three LOGI patterns `readBinaryLogiArray` accepts, as on-disk bytes
(the host reads the word without byte swap): `true_value_ecl`, `false_value`,
`true_value_ix`. -/
def logiWord (v : Nat) : Bytes :=
  [UInt8.ofNat (v % 256), UInt8.ofNat (v / 256 % 256), UInt8.ofNat (v / 65536 % 256),
   UInt8.ofNat (v / 16777216 % 256)]

def isLogi (e : Bytes) : Bool :=
  e = logiWord Gen.EclIO.true_value_ecl || e = logiWord Gen.EclIO.false_value ||
  e = logiWord Gen.EclIO.true_value_ix

/-- Element validation done while converting (`flip` functions): only LOGI
values are checked. -/
def elemsOk (t : ArrType) (es : List Bytes) : Bool :=
  match t with
  | logi => es.all isLogi
  | _ => true

/-- `EclFile::loadBinaryArray` for one index entry. -/
def loadEntry (file : Bytes) (e : Entry) : Except Err Arr :=
  match readData e.hdr.ty e.hdr.num (file.drop e.pos) with
  | .error err => .error err
  | .ok (es, _) =>
    if elemsOk e.hdr.ty es then .ok { name := e.hdr.name, ty := e.hdr.ty, elems := es }
    else .error .badLogi

/-- Load every entry of an index, stopping at the first error. -/
def loadAll (file : Bytes) : List Entry → Except Err (List Arr)
  | [] => .ok []
  | e :: es =>
    match loadEntry file e with
    | .error err => .error err
    | .ok a =>
    match loadAll file es with
    | .error err => .error err
    | .ok as => .ok (a :: as)

/-- Open a file and load every array (`EclFile(filename, preload = true)`). -/
def decodeFile (file : Bytes) : Except Err (List Arr) :=
  match indexFile file (file.length + 1) 0 with
  | .error e => .error e
  | .ok idx => loadAll file idx

/-! ### Independent statement of the published layout (the specification the
encoder is proved against in `Props/C07`). -/

/-- A Fortran sequential record: big-endian length, payload, same length. -/
def fortranRecord (payload : Bytes) : Bytes :=
  be32 payload.length ++ payload ++ be32 payload.length

/-- Split a list into consecutive chunks of at most `k` elements, all but the
last full. -/
def chunks {α : Type} (k : Nat) : Nat → List α → List (List α)
  | 0, _ => []
  | fuel + 1, l => if l = [] then [] else l.take k :: chunks k fuel (l.drop k)

/-- The published layout: a 16-byte header record (name, count, type tag) and
the elements in records of at most 1000 numeric / 105 string elements. -/
def specLayout (a : Arr) (perRecord : Nat) : Bytes :=
  fortranRecord (a.name ++ be32 a.elems.length ++ tag a.ty) ++
    ((chunks perRecord (a.elems.length + 1) a.elems).map
        (fun c => fortranRecord c.flatten)).flatten

/-- Elements per record in the published format. -/
def specPerRecord : ArrType → Nat
  | char => 105
  | c0nn _ => 105
  | mess => 0
  | _ => 1000

/-! ### String helpers used at the API level -/

/-- `trimr`: the all-blank 8-character string becomes empty, otherwise drop
trailing spaces. -/
def trimr (s : Bytes) : Bytes :=
  (s.reverse.dropWhile (· = 32)).reverse

/-- Right-pad with blanks to `w`. -/
def padTo (w : Nat) (s : Bytes) : Bytes := s ++ List.replicate (w - s.length) 32

end OpmVerif.Ecl
