/-
  Model of the black-oil PVT classes of opm/material/fluidsystems/blackoilpvt:
    DeadOilPvt (PVDO), DryGasPvt (PVDG), LiveOilPvt (PVTO), WetGasPvt (PVTG),
    ConstantCompressibilityOilPvt (PVCDO), ConstantCompressibilityWaterPvt (PVTW)
  — how `initFromState`/`initEnd` tabulate 1/B and 1/(B mu) from the (SI) deck tables, how B,
  mu, Rs/Rv are returned, and `saturationPressure`'s Newton iteration.
  Core Lean only; generic scalar as in `Tab1D`.
-/
import OpmVerif.Model.Tab2D

namespace OpmVerif.Pvt
open OpmVerif.Tab1D OpmVerif.Tab2D

/-- Literal constants of the C++ that are not 0 or 1 (given as IEEE doubles by the front
end, arbitrary positive field elements in the proofs). -/
structure Consts (α : Type) where
  low : α            -- numeric_limits<Scalar>::lowest() / 2   (initial guide value)
  tiny : α           -- 1.0e-30                                 (Newton: derivative "zero")
  eps : α            -- numeric_limits<Scalar>::epsilon() * 1e6 (Newton: convergence)
  two : α            -- 2.0
  ofNat : Nat → α    -- Scalar(n)

section
variable {α : Type} [Add α] [Sub α] [Mul α] [Div α] [Neg α] [LT α] [LE α]
  [DecidableLT α] [DecidableLE α] [OfNat α 0] [OfNat α 1]

def abs (x : α) : α := if x < 0 then -x else x

/-! ### PVDO / PVDG : one 1-D table per region -/

structure Dead (α : Type) where
  p : List α
  invB : List α
  invBMu : List α

/-- `DeadOilPvt::initFromState` + `initEnd`: `invB[i] = 1.0/B[i]`, `invBMu[i] = invB[i]/mu[i]`. -/
def deadOil (p B mu : List α) : Dead α :=
  { p := p, invB := B.map (fun b => 1 / b),
    invBMu := List.zipWith (fun b m => b / m) (B.map (fun b => 1 / b)) mu }

/-- `DryGasPvt::initFromState` + `initEnd`: `invBMu[i] = invB[i] * (1.0/mu[i])`. -/
def dryGas (p B mu : List α) : Dead α :=
  { p := p, invB := B.map (fun b => 1 / b),
    invBMu := List.zipWith (fun b m => b * (1 / m)) (B.map (fun b => 1 / b)) mu }

/-- `inverseFormationVolumeFactor(p)`. -/
def Dead.invBAt (t : Dead α) (p : α) : α := evalX t.p t.invB p

/-- `viscosity(p) = invB(p) / invBMu(p)`. -/
def Dead.muAt (t : Dead α) (p : α) : α := evalX t.p t.invB p / evalX t.p t.invBMu p

/-! ### PVCDO / PVTW -/

structure ConstComp (α : Type) where
  pRef : α
  bRef : α
  comp : α
  mu : α
  viscosibility : α

/-- `(1 + X*(1 + X/2))/BRef`, `X = C*(p - pRef)`. -/
def ConstComp.invBAt (c : Consts α) (t : ConstComp α) (p : α) : α :=
  (1 + t.comp * (p - t.pRef) * (1 + t.comp * (p - t.pRef) / c.two)) / t.bRef

/-- `BMuRef * invB / (1 + Y*(1 + Y/2))`, `Y = (C - Cv)*(p - pRef)`, `BMuRef = mu*BRef`. -/
def ConstComp.muAt (c : Consts α) (t : ConstComp α) (p : α) : α :=
  t.mu * t.bRef * t.invBAt c p /
    (1 + (t.comp - t.viscosibility) * (p - t.pRef) * (1 + (t.comp - t.viscosibility) * (p - t.pRef) / c.two))

/-! ### PVTO / PVTG : 2-D tables -/

/-- One outer record of PVTO/PVTG: the key (`Rs` resp. `pg`) and the rows `(y, B, mu)` of its
sub-table, saturated row first (`y` = pressure for PVTO, `Rv` for PVTG). -/
structure Rec (α : Type) where
  key : α
  rows : List (α × α × α)

def appendAll (fix : Bool) (t : Table α) (i : Nat) : List (α × α) → Option (Table α)
  | [] => some t
  | (y, v) :: r =>
    match appendSamplePoint fix t i y v with
    | none => none
    | some t' => appendAll fix t' i r

/-- The master-table extension of `extendPvtoTable_` / `extendPvtgTable_`: rows appended to a
one-row sub-table so that it has the master's relative compressibility/"viscosibility":
returns the new rows `(y, B, mu)` given the last row and the master rows. -/
def extendRows (c : Consts α) : (α × α × α) → List (α × α × α) → List (α × α × α)
  | last, m0 :: m1 :: r =>
    let newY := last.1 + (m1.1 - m0.1)
    let x := (m1.2.1 - m0.2.1) / ((m1.2.1 + m0.2.1) / c.two)
    let newB := last.2.1 * (1 + x / c.two) / (1 - x / c.two)
    let xMu := (m1.2.2 - m0.2.2) / ((m1.2.2 + m0.2.2) / c.two)
    let newMu := last.2.2 * (1 + xMu / c.two) / (1 - xMu / c.two)
    (newY, newB, newMu) :: extendRows c (newY, newB, newMu) (m1 :: r)
  | _, _ => []

/-- First later record with more than one row (the "master table"). -/
def findMaster : List (Rec α) → Option (Rec α)
  | [] => none
  | r :: rest => if 1 < r.rows.length then some r else findMaster rest

/-- Rows of every record after extension (`none`: "The last table must exhibit at least one
entry for undersaturated oil/gas"). -/
def extendAll (c : Consts α) : List (Rec α) → Option (List (Rec α))
  | [] => some []
  | r :: rest =>
    match extendAll c rest with
    | none => none
    | some rest' =>
      if 1 < r.rows.length then some (r :: rest')
      else
        match r.rows, findMaster rest with
        | [row], some m => some ({ r with rows := row :: extendRows c row m.rows } :: rest')
        | _, _ => none

structure Live (α : Type) where
  invB : Table α
  muT : Table α
  invBMu : Table α
  satX : List α       -- abscissae of the saturated 1-D tables
  invSatB : List α
  invSatBMu : List α
  rX : List α         -- saturated Rs(p) / Rv(p) table
  rY : List α
  psatX : List α      -- `saturationPressure_` (initial guess): Rs ↦ p
  psatY : List α

/-- Fill a 2-D table column by column: `appendXPos(key)` then `appendSamplePoint` per row. -/
def fillTable (fix : Bool) (c : Consts α) (val : α × α × α → α) :
    Table α → Nat → List (Rec α) → Option (Table α)
  | t, _, [] => some t
  | t, i, r :: rest =>
    match appendAll fix (appendXPos t r.key c.low) i (r.rows.map fun row => (row.1, val row)) with
    | none => none
    | some t' => fillTable fix c val t' (i + 1) rest

def emptyTable (g : Guide) : Table α := { xPos := [], yPos := [], colY := [], colV := [], guide := g }

/-- The 2-D table of `invB/mu` built in `initEnd` by walking the samples of `mu` in ascending
order of y and appending. -/
def fillBMu (fix : Bool) (c : Consts α) (invB mu : Table α) : Table α → Nat → Nat → Option (Table α)
  | t, _, 0 => some t
  | t, i, n + 1 =>
    match appendAll fix (appendXPos t (nth mu.xPos i) c.low) i
        ((List.range (col mu.colY i).length).map fun j =>
          (nth (col mu.colY i) j, nth (col invB.colV i) j / nth (col mu.colV i) j)) with
    | none => none
    | some t' => fillBMu fix c invB mu t' (i + 1) n

def dedupAdj : List (α × α) → List (α × α)
  | [] => []
  | [p] => [p]
  | p :: q :: r => if p.1 < q.1 ∨ q.1 < p.1 then p :: dedupAdj (q :: r) else dedupAdj (p :: r)

/-- `updateSaturationPressure_`.  As the code stands (`fromNodes = false`): `n+1` equidistant
pressures `xMin + i*delta`, `delta = (xMax - xMin)/(n+1)`, re-sampled through the table.  With
the candidate repair `design.d/C14.fix-psat.patch` (`fromNodes = true`): the table's own nodes.
The flag is regenerated from the sources (`Gen/Pvt.lean`).  Then adjacent duplicates are
pruned and the points sorted by Rs. -/
def psatTable (fromNodes : Bool) (c : Consts α) (rX rY : List α) : List α × List α :=
  let n := rX.length
  let delta := (nth rX (n - 1) - nth rX 0) / c.ofNat (n + 1)
  let pts := if fromNodes then rY.zip rX else (List.range (n + 1)).map fun i =>
    (evalX rX rY (nth rX 0 + c.ofNat i * delta), nth rX 0 + c.ofNat i * delta)
  let u := dedupAdj pts
  let pts' := if 1 < u.length then u else pts
  ((sortPairs pts').map Prod.fst, (sortPairs pts').map Prod.snd)

/-- `LiveOilPvt::initFromState` + `initEnd` from the SI records of one PVTO region. -/
def liveOil (fix guessFromNodes : Bool) (c : Consts α) (recs : List (Rec α)) : Option (Live α) :=
  match extendAll c recs with
  | none => none
  | some ext =>
    match fillTable fix c (fun row => 1 / row.2.1) (emptyTable .leftExtreme) 0 ext,
          fillTable fix c (fun row => row.2.2) (emptyTable .leftExtreme) 0 ext with
    | some invB, some mu =>
      match fillBMu fix c invB mu (emptyTable .leftExtreme) 0 mu.xPos.length with
      | none => none
      | some invBMu =>
        let satMu := recs.map fun r => (r.rows.head?.map (fun row => row.2.2)).getD 0
        let satP := recs.map fun r => (r.rows.head?.map (fun row => row.1)).getD 0
        let idx := List.range mu.xPos.length
        let invSatB := idx.map fun i => nth (col invB.colV i) 0
        let rY := recs.map (fun r => r.key)
        let ps := psatTable guessFromNodes c satP rY
        some { invB := invB, muT := mu, invBMu := invBMu,
               satX := idx.map fun i => nth (col mu.colY i) 0,
               invSatB := invSatB,
               invSatBMu := idx.map fun i => nth invSatB i / nth satMu i,
               rX := satP, rY := rY, psatX := ps.1, psatY := ps.2 }
    | _, _ => none

/-- `WetGasPvt::initFromState` + `initEnd` from the SI records of one PVTG region
(key = gas pressure, rows = (Rv, Bg, mug), saturated row first, Rv descending). -/
def wetGas (fix guessFromNodes : Bool) (c : Consts α) (recs : List (Rec α)) : Option (Live α) :=
  match extendAll c recs with
  | none => none
  | some ext =>
    match fillTable fix c (fun row => 1 / row.2.1) (emptyTable .rightExtreme) 0 ext,
          fillTable fix c (fun row => row.2.2) (emptyTable .rightExtreme) 0 ext with
    | some invB, some mu =>
      match fillBMu fix c invB mu (emptyTable .rightExtreme) 0 mu.xPos.length with
      | none => none
      | some invBMu =>
        let idx := List.range mu.xPos.length
        let rX := recs.map (fun r => r.key)
        let rY := recs.map fun r => (r.rows.head?.map (fun row => row.1)).getD 0
        let ps := psatTable guessFromNodes c rX rY
        some { invB := invB, muT := mu, invBMu := invBMu,
               satX := mu.xPos,
               invSatB := idx.map fun i => nth (col invB.colV i) ((col invB.colV i).length - 1),
               invSatBMu := idx.map fun i => nth (col invBMu.colV i) ((col invBMu.colV i).length - 1),
               rX := rX, rY := rY, psatX := ps.1, psatY := ps.2 }
    | _, _ => none

/-- `inverseFormationVolumeFactor(p, Rs)` of live oil: the first axis is Rs. -/
def Live.invBAt (t : Live α) (x y : α) : α := Tab2D.eval t.invB x y
/-- `viscosity = invB / invBMu` (both 2-D evaluations). -/
def Live.muAt (t : Live α) (x y : α) : α := Tab2D.eval t.invB x y / Tab2D.eval t.invBMu x y
def Live.satInvBAt (t : Live α) (p : α) : α := evalX t.satX t.invSatB p
def Live.satMuAt (t : Live α) (p : α) : α := evalX t.satX t.invSatB p / evalX t.satX t.invSatBMu p
/-- `saturatedGasDissolutionFactor(p)` / `saturatedOilVaporizationFactor(p)`. -/
def Live.rsAt (t : Live α) (p : α) : α := evalX t.rX t.rY p

/-- The Newton loop of `saturationPressure` on the piecewise-linear table `(xs, ys)`:
`none` = "Finding saturation pressure did not converge" (NumericalProblem). -/
def newton (c : Consts α) (xs ys : List α) (r : α) : Nat → α → Bool → Option α
  | 0, _, _ => none
  | k + 1, p, probation =>
    if abs (derivX xs ys p) < c.tiny then some p
    else if p - (evalX xs ys p - r) / derivX xs ys p < 0 then
      if probation then some 0
      else if abs ((evalX xs ys p - r) / derivX xs ys p) < abs (0 : α) * c.eps then some 0
      else newton c xs ys r k 0 true
    else if abs ((evalX xs ys p - r) / derivX xs ys p) <
            abs (p - (evalX xs ys p - r) / derivX xs ys p) * c.eps then
      some (p - (evalX xs ys p - r) / derivX xs ys p)
    else newton c xs ys r k (p - (evalX xs ys p - r) / derivX xs ys p) probation

/-- `saturationPressure(Rs)`: initial guess from the `saturationPressure_` table, then at
most 20 Newton iterations. -/
def Live.psat (c : Consts α) (t : Live α) (r : α) : Option α :=
  newton c t.rX t.rY r 20 (evalX t.psatX t.psatY r) false

end
end OpmVerif.Pvt
