/-
  The ESMRY container (`ExtSmryOutput::write`, `ExtESmry::load_esmry`): behind the header
  arrays come RSTEP, TSTEP and one REAL array `V<k>` per summary vector, all of `num_tstep`
  elements; the reader seeks straight to the header of `V<k>` with hand-written arithmetic
  (regenerated from the source into `Gen/ExtESmrySeek.lean`).
-/
import OpmVerif.Model.EclBin
import OpmVerif.Gen.ExtESmrySeek
import OpmVerif.Gen.ESmrySeek

namespace OpmVerif.ExtESmry
open OpmVerif.Ecl

def pad8 (s : List Char) : Bytes := (s ++ List.replicate (8 - s.length) ' ').map ch

def rstepName : Bytes := pad8 "RSTEP".toList
def tstepName : Bytes := pad8 "TSTEP".toList

/-- decimal digits of `n` (array name `V<n>`). -/
def natChars : Nat → Nat → List Char
  | 0, _ => []
  | fuel + 1, n => if n < 10 then [Char.ofNat (48 + n)] else natChars fuel (n / 10) ++ [Char.ofNat (48 + n % 10)]

def vecName (k : Nat) : Bytes := pad8 ('V' :: natChars 8 k)

/-- the tail of an ESMRY file: RSTEP, TSTEP, then `V0 … V(m-1)`. -/
def vecArrs : Nat → List (List Bytes) → List Arr
  | _, [] => []
  | k, v :: vs => { name := vecName k, ty := .real, elems := v } :: vecArrs (k + 1) vs

def tailArrs (rstep tstep : List Bytes) (vs : List (List Bytes)) : List Arr :=
  { name := rstepName, ty := .inte, elems := rstep } ::
  { name := tstepName, ty := .inte, elems := tstep } :: vecArrs 0 vs

/-- `sizeOnDiskBinary` as a number (0 where the C++ throws; never the case for REAL / INTE). -/
def sizeOf (n : Nat) (t : ArrType) : Nat := (sizeOnDiskBinary (n : Int) t).getD 0

/-- the seek position the reader computes for vector `k`. -/
def vecPos (rstepOff n k : Nat) : Nat :=
  Gen.ExtESmrySeek.vecPos rstepOff (sizeOf n .real) (sizeOf n .inte) k

end OpmVerif.ExtESmry

namespace OpmVerif.ExtESmry

/-! ### restart chains: how much of a base run belongs to the history -/

/-- the `find_if` of the `ExtESmry` constructor: position of the first RSTEP entry at which
the running count of report-step flags, started at `c0`, equals `target` (`length` if none). -/
def cutIndex (c0 target : Int) : List Int → Nat
  | [] => 0
  | v :: vs =>
    let c := if v = 1 then c0 + 1 else c0
    if c = target then 0 else 1 + cutIndex c target vs

/-- the counter's start value as the code has it (regenerated): the report step the base run
was itself restarted from, or zero. -/
def countStart (ownRestart : Int) : Int :=
  if Gen.ExtESmrySeek.chainCountsFromOwnRestart then ownRestart else 0

/-- time steps `0 … to_ind` of a base run that go into the combined history. -/
def basePart {α : Type} (ownRestart rstNum : Int) (rstep : List Int) (steps : List α) : List α :=
  steps.take (cutIndex (countStart ownRestart) rstNum rstep + 1)

/-- number of report-step flags. -/
def ones : List Int → Nat
  | [] => 0
  | v :: vs => (if v = 1 then 1 else 0) + ones vs

end OpmVerif.ExtESmry

namespace OpmVerif.ExtESmry

/-! ### the SMSPEC reader (`ESmry`): the same chain, scanned with `>=` -/

/-- `ESmry` constructor, scan of one run: time steps are taken one after the other; a step that
completes a report step (`flag = 1`: the next array is SEQHDR, or the file ends) increments the
counter; the scan stops behind the first step at which the counter has reached `target`.
Returns the number of time steps taken. -/
def scanCount (c0 target : Int) : List Int → Nat
  | [] => 0
  | v :: vs =>
    let c := if v = 1 then c0 + 1 else c0
    if c ≥ target then 1 else 1 + scanCount c target vs

def esmryCountStart (ownRestart : Int) : Int :=
  if Gen.ESmrySeek.chainCounterStartsAtRestartStep then ownRestart else 0

end OpmVerif.ExtESmry
