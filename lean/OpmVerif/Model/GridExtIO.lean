/-
  Line-protocol front end of `Model/GridExt.lean` (C13, third round).  Same number formats as
  `Model/GridIO.lean`.

    gridx.minpv   n actnum deck set PORV
        actnum: a,b,…; deck: `-` (no MINPV/MINPORV) | hex double (SI value of the keyword);
        set: `-` (no setMINPVV) | hex array handed to setMINPVV (any length; wrong length = throws,
        object unchanged); PORV: one pore volume per cell
        -> mode|VEC|setok|cells|mask|nactive|g2a,…
        mode 1/2 (= the enumerators), VEC = getMinpvVector(), setok = ok|err, cells = one digit
        per cell (cellActiveAfterMINPV(g, PORV[g])), then the maps after resetACTNUM(mask)
    gridx.minpvq  n g        -> err if g ≥ n (assertIJK) else ok
    gridx.radial  nx ny nz s INRAD DRV DTHETAV DZ TOPS
        s = GRIDUNIT factor applied after construction (3ff0… = none)
        -> COORD ZCORN nfix VOLS   (VOLS: getCellVolume of every cell through the radial branch)
    gridx.gridunit glen dlen COORD ZCORN -> COORD' ZCORN'   (apply_GRIDUNIT with glen/dlen)
    gridx.mapaxes lf X1 Y1 X2 Y2 X3 Y3 hx hy x y -> transform(x,y) inv_transform(x,y)  (4 doubles)
-/
import OpmVerif.Model.GridExt
import OpmVerif.Model.GridIO
-- driver: prefix=gridx handler=OpmVerif.GridExt.handle

namespace OpmVerif.GridExt

open OpmVerif.Grid

/-- `M_PI`. -/
def mPi : Float := Float.ofBits 0x400921FB54442D18

def parseF64 (s : String) : Option Float :=
  match parseF64s s with
  | some a => if a.size = 1 then some (a.getD 0 0.0) else none
  | none => none

def handle (op : String) (args : List String) : String :=
  match op, args with
  | "gridx.minpv", [n, act, deck, set, porv] =>
    let n := n.toNat!
    match parseInts act, parseF64s porv with
    | some act, some porv =>
      let deckVal : Option Float := if deck = "-" then none else parseF64 deck
      let s0 : Minpv Float := Minpv.init n deckVal
      let (s1, setok) : Minpv Float × String :=
        if set = "-" then (s0, "ok")
        else match parseF64s set with
          | some v => (match Minpv.setMINPVV n s0 v.toList with
                       | some s' => (s', "ok")
                       | none => (s0, "err"))
          | none => (s0, "bad")
      let cells := (List.range n).map fun g =>
        match cellActiveAfterMINPV n act s1 g (porv.getD g 0.0) with
        | some true => "1" | some false => "0" | none => "e"
      let mask := minpvMask act s1 porv.toList
      let m := resetACTNUM mask
      let g2a := m.g2a.map fun o => match o with | some v => toString v | none => "-1"
      let mode := match s1.mode with | .inactive => "1" | .eclStd => "2"
      s!"{mode}|{showF64s s1.vec.toArray}|{setok}|{String.join cells}|" ++
        ",".intercalate (mask.map toString) ++ s!"|{m.nactive}|" ++ ",".intercalate g2a
    | _, _ => "bad-op"
  | "gridx.minpvq", [n, g] =>
    match cellActiveAfterMINPV n.toNat! (List.replicate n.toNat! 1)
        (Minpv.init n.toNat! (none : Option Float)) g.toNat! 0.0 with
    | some _ => "ok" | none => "err"
  | "gridx.radial", [nx, ny, nz, s, inrad, drv, dth, dz, tops] =>
    let d : Dims := ⟨nx.toNat!, ny.toNat!, nz.toNat!⟩
    match parseF64 s, parseF64 inrad, parseF64s drv, parseF64s dth, parseF64s dz, parseF64s tops with
    | some s, some inrad, some drv, some dth, some dz, some tops =>
      let zc0 := tabulate (8 * d.size) (zcornRadial d (fn dz) (fn tops))
      let z1 := minOver (fn zc0) zc0.size
      let z2 := maxOver (fn zc0) zc0.size
      let coord0 := tabulate (6 * (d.nx + 1) * (d.ny + 1))
        (coordOfPillars d (pillarRadial mPi Float.cos Float.sin inrad (fn drv) (fn dth) z1 z2))
      let (nf, zc1) := fixupZCORN d zc0
      let coord := coord0.map (· * s)
      let zc := zc1.map (· * s)
      let rv := tabulate (d.nx + 1) (fun i => radii inrad (fn drv) i * s)
      let vols := tabulate d.size (radialCellVolume mPi Float.abs d (fn rv) (fn dth) (fn coord) (fn zc))
      s!"{showF64s coord} {showF64s zc} {nf} {showF64s vols}"
    | _, _, _, _, _, _ => "bad-op"
  | "gridx.gridunit", [glen, dlen, co, zc] =>
    match parseF64 glen, parseF64 dlen, parseF64s co, parseF64s zc with
    | some glen, some dlen, some co, some zc =>
      let s := gridunitFactor glen dlen
      s!"{showF64s (tabulate co.size (applyGridunit s (fn co)))} {showF64s (tabulate zc.size (applyGridunit s (fn zc)))}"
    | _, _, _, _ => "bad-op"
  | "gridx.mapaxes", [lf, x1, y1, x2, y2, x3, y3, hx, hy, x, y] =>
    match [lf, x1, y1, x2, y2, x3, y3, hx, hy, x, y].mapM parseF64 with
    | some [lf, x1, y1, x2, y2, x3, y3, hx, hy, x, y] =>
      let m := MapAxes.init lf x1 y1 x2 y2 x3 y3 hx hy
      let t := m.transform x y
      let u := m.invTransform x y
      s!"{f64Hex t.1}{f64Hex t.2}{f64Hex u.1}{f64Hex u.2}"
    | _ => "bad-op"
  | _, _ => "bad-op"

end OpmVerif.GridExt
