/-
  Fourth-round extension of the grid model (property C13):

    `EclipseGrid::createTOPSVector`  (EclipseGrid.cpp) — TOPS given for more than the first layer:
        which layers keep the input value, which are stacked from DZ, the `1e-6` snap
    numerical-aquifer cells as far as they live in EclipseGrid: `updateNumericalAquiferCells`
        (AQUNUM records → `m_aquifer_cells`, `m_aquifer_cell_depths`), the forced `ACTNUM = 1`
        inside `resetACTNUM(const int*)`, the depth override of `getCellDepth`
    `getCellAndBottomCenterNormal`, `isValidCellGeomtry`

  `createTOPSVector` in the C++ is one sequential loop over `targetIndex = area … volume-1`
  reading `TOPS[targetIndex - area]` (already final) — i.e. per column `(i, j)` a recursion over
  the layer `k`, which is what is written here (gather form; the complete vector is compared bit
  for bit with the C++ in the correspondence, `gridt.tops`).

  Scalars as in `Model/Grid.lean`; `abs` and the tolerance are parameters (`std::abs`, `1e-6` at
  `Float`; `|·|`, any value in `Proofs/`).  Core Lean only.
-/
import OpmVerif.Model.Grid
import OpmVerif.Gen.GridTops

namespace OpmVerif.GridTops

open OpmVerif.Grid

/-! ## createTOPSVector -/

section Tops
variable {α : Type} [Add α] [Sub α] [LT α] [DecidableLT α]

/-- What the loop body stores at `targetIndex = t`, `next` being `TOPS[t-area] + DZ[t-area]`:
beyond the input (`t >= initialTOPSize`) the stacked value; inside the input the stacked value
when it is closer than `z_tolerance` to the input, else the input. -/
def topsStep (abs : α → α) (tol : α) (n0 : Nat) (inp : Nat → α) (t : Nat) (next : α) : α :=
  if t ≥ n0 then next
  else if abs (next - inp t) < tol then next else inp t

/-- `TOPS[col + k*area]` after the loop (`col < area`). -/
def topsAt (abs : α → α) (tol : α) (area n0 : Nat) (dz inp : Nat → α) (col : Nat) : Nat → α
  | 0 => inp col
  | k + 1 =>
    topsStep abs tol n0 inp (col + (k + 1) * area)
      (topsAt abs tol area n0 dz inp col k + dz (col + k * area))

/-- Entry `t` of the result (`t < volume`). -/
def topsEntry (abs : α → α) (tol : α) (area n0 : Nat) (dz inp : Nat → α) (t : Nat) : α :=
  topsAt abs tol area n0 dz inp (t % area) (t / area)

/-- `createTOPSVector(dims, DZ, deck)`: `none` = throws "TOPS size mismatch" (fewer than
`nx*ny` values); otherwise the vector has `nx*ny*nz` entries (a longer input is cut by the
`resize`).  `n0` = number of TOPS values in the deck. -/
def createTOPS (abs : α → α) (tol : α) (d : Dims) (n0 : Nat) (dz inp : Nat → α) : Option (Nat → α) :=
  if n0 < d.nx * d.ny then none
  else some (topsEntry abs tol (d.nx * d.ny) n0 dz inp)

/-- Corner `c` of cell `(i,j,k)` in the ZCORN of a `makeZcornDzTops` that reads the TOPS vector at
every layer (`z = tops[i + j*nx + k*nx*ny]` at the top of the cell, `z + dz` at its bottom) — the
code with `design.d/C13.tops-gap.patch`. -/
def zcornCellFull (d : Dims) (dz tops : Nat → α) (i j k c : Nat) : α :=
  if c < 4 then tops (i + j * d.nx + k * d.nx * d.ny)
  else tops (i + j * d.nx + k * d.nx * d.ny) + dz (i + j * d.nx + k * d.nx * d.ny)

/-- The ZCORN cell function of `makeZcornDzTops` as found in the working tree
(`Gen/GridTops.lean`, regenerated on every run). -/
def zcornCellOf (m : Gen.GridTops.TopsLayers) (d : Dims) (dz tops : Nat → α) : Nat → Nat → Nat → Nat → α :=
  match m with
  | .firstLayer => zcornCellDTops d dz tops
  | .everyLayer => zcornCellFull d dz tops

end Tops

/-! ## Numerical-aquifer cells -/

/-- One AQUNUM record as far as EclipseGrid reads it: the cell (global index, from I J K through
`getGlobalIndex`) and the DEPTH item (`none` = defaulted). -/
structure AquRecord (α : Type) where
  cell : Nat
  depth : Option α

/-- `m_aquifer_cells` after `updateNumericalAquiferCells` (membership is all that is used). -/
def aquCells {α : Type} (rs : List (AquRecord α)) : List Nat := rs.map (·.cell)

/-- `m_aquifer_cell_depths` after the loop: `insert_or_assign` for every record whose DEPTH is
not defaulted — the last such record of a cell wins, a later record with a defaulted DEPTH does
not remove the entry. -/
def aquDepth {α : Type} : List (AquRecord α) → Nat → Option α
  | [], _ => none
  | r :: rs, g =>
    match aquDepth rs g with
    | some v => some v
    | none => if r.cell = g then r.depth else none

/-- The ACTNUM values `resetACTNUM(const int*)` stores: the argument, with `1` at every
numerical-aquifer cell. -/
def forceAq (aq : List Nat) : Nat → List Int → List Int
  | _, [] => []
  | n, a :: as => (if n ∈ aq then 1 else a) :: forceAq aq (n + 1) as

/-- `resetACTNUM(const int*)` of an object with aquifer cells `aq`. -/
def resetACTNUMAq (aq : List Nat) (act : List Int) : ActiveMaps := resetACTNUM (forceAq aq 0 act)

/-- `getCellDepth(g)`: the AQUNUM depth when there is one, else `computeCellGeometricDepth`. -/
def cellDepthAq {α : Type} (rs : List (AquRecord α)) (geom : Nat → α) (g : Nat) : α :=
  match aquDepth rs g with
  | some v => v
  | none => geom g

/-! ## getCellAndBottomCenterNormal / isValidCellGeomtry -/

section Normal
variable {α : Type} [Add α] [Sub α] [Mul α] [Div α] [NatCast α]

/-- `std::accumulate(v + 4, v + 8, 0.0) / 4.0`. -/
def bottomMean (v : Nat → α) : α :=
  (((((0 : Nat) : α) + v 4) + v 5) + v 6 + v 7) / ((4 : Nat) : α)

/-- `cross(x, y, z)` of VectorOps.hpp. -/
def cross (x y : α × α × α) : α × α × α :=
  (x.2.1 * y.2.2 - x.2.2 * y.2.1, x.2.2 * y.1 - x.1 * y.2.2, x.1 * y.2.1 - x.2.1 * y.1)

def vsub (x y : α × α × α) : α × α × α := (x.1 - y.1, x.2.1 - y.2.1, x.2.2 - y.2.2)
def vadd (x y : α × α × α) : α × α × α := (x.1 + y.1, x.2.1 + y.2.1, x.2.2 + y.2.2)

def cornerPt (c : Corners α) (n : Nat) : α × α × α := (c.X n, c.Y n, c.Z n)

/-- The loop over `bottomIndices = {4, 5, 7, 6}` starting from `oldCorner` = corner 6:
`normal += cross(old - centre, new - centre)`. -/
def normalLoop (c : Corners α) (ctr : α × α × α) : List Nat → Nat → α × α × α → α × α × α
  | [], _, acc => acc
  | n :: ns, old, acc =>
    normalLoop c ctr ns n (vadd acc (cross (vsub (cornerPt c old) ctr) (vsub (cornerPt c n) ctr)))

/-- `getCellAndBottomCenterNormal`: (cell centre, bottom-face centre, 0.5 · Σ triangle normals).
`half` is the literal `0.5`. -/
def bottomCenterNormal (half : α) (c : Corners α) : (α × α × α) × (α × α × α) × (α × α × α) :=
  let bc : α × α × α := (bottomMean c.X, bottomMean c.Y, bottomMean c.Z)
  let z : α := ((0 : Nat) : α)
  let s := normalLoop c bc [4, 5, 7, 6] 6 (z, z, z)
  (cellCenter c, bc, (half * s.1, half * s.2.1, half * s.2.2))

end Normal

section Valid
variable {α : Type} [Sub α] [LT α] [DecidableLT α]

/-- `std::max({a, b, c, d})` (`std::max_element`: first of the largest, `if (largest < *it)`). -/
def max4 (a b c e : α) : α :=
  let m := if a < b then b else a
  let m := if m < c then c else m
  if m < e then e else m

/-- `isValidCellGeomtry(g, usys)`: `threshold = to_si(length, 1e20f)`, `minSep = to_si(length,
1e-4)` are parameters. -/
def isValidCellGeometry (abs : α → α) (threshold minSep : α) (c : Corners α) : Bool :=
  let fin := fun v : Nat → α => (List.range 8).all fun n => decide (abs (v n) < threshold)
  if fin c.X && fin c.Y && fin c.Z then
    decide (minSep < max4 (c.Z 4 - c.Z 0) (c.Z 5 - c.Z 1) (c.Z 6 - c.Z 2) (c.Z 7 - c.Z 3))
  else false

end Valid

end OpmVerif.GridTops
