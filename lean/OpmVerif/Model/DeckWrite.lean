/-
  Model of writing one record: `DeckRecord::write` → `DeckItem::write_vector`
  (`stash_default` for defaulted values, `write` otherwise) → `DeckOutput::write<T>`
  (a pending `n*` is emitted before the next explicit value; defaults pending at the
  end of the record are dropped), `write_sep` (item separator, record indent, line
  split every `fmt.columns = 7` entries for data keywords), `end_record` (`" /"`).
  (opm/input/eclipse/Deck/{DeckRecord,DeckItem,DeckOutput}.cpp)

  The writer is modelled in two stages with the same effect on the stream: the token
  sequence (`emitToks`) and its layout (`layout`).  Floating point printing
  (`os << double` at precision 10) is the parameter `fmt` acting on the value's token.

  Core Lean only.
-/
import OpmVerif.Model.Scan
import OpmVerif.Gen.RawConsts

namespace OpmVerif.DeckWrite
open OpmVerif.Lex OpmVerif.Tok OpmVerif.Scan

/-- decimal digits of a natural number, least significant first. -/
def revDigits : Nat → Nat → Bytes
  | 0, _ => []
  | fuel + 1, n => UInt8.ofNat (48 + n % 10) :: (if n / 10 = 0 then [] else revDigits fuel (n / 10))

/-- `os << n`: decimal digits, most significant first. -/
def natDigits (n : Nat) : Bytes := (revDigits (n + 1) n).reverse

/-- `os << int`. -/
def printInt (i : Int) : Bytes :=
  if i < 0 then 45 :: natDigits i.natAbs else natDigits i.natAbs

/-- the pending-defaults token `n*`. -/
def starTok (n : Nat) : Bytes := natDigits n ++ [42]

def quoted (s : Bytes) : Bytes := 39 :: s ++ [39]

/-- `DeckOutput::write_value<T>`. -/
def valTok (fmt : Bytes → Bytes) : Val → Bytes
  | .int i => printInt i
  | .dbl t => fmt t
  | .str s => quoted s
  | .raw s => s
  | .udaNum t => fmt t
  | .udaStr s => quoted s
  | .dummy => []

/-- tokens the writer emits for the values of a record; `dc` = `default_count`, `any` =
an explicit value has been written in this record (`row_count > 0` at `end_record`).
`flush`: are defaults still pending at the end of the record written as a final `n*` (provided
the record holds an explicit value) or dropped.  Which one the code does depends on its shape
(`Gen.RawConsts.outFlushShape`, read off DeckOutput.cpp / DeckItem.cpp by the translator) and,
since 14c7867b0, on the record: `flushOf shape r` (written only behind an item holding several
values).  The theorems hold for both values. -/
def emitToks (fmt : Bytes → Bytes) (flush : Bool) : Bool → Nat → Vals → List Bytes
  | any, dc, [] => if flush ∧ any ∧ dc ≠ 0 then [starTok dc] else []
  | any, dc, (v, st) :: r =>
    if st = .deck then
      (if dc = 0 then [] else [starTok dc]) ++ valTok fmt v :: emitToks fmt flush true 0 r
    else emitToks fmt flush any (dc + 1) r

def columns : Nat := 7

/-- `write_sep` in front of the entry written when `row_count = rc`. -/
def sepBefore (split : Bool) (rc : Nat) : Bytes :=
  if split ∧ 0 < rc ∧ rc % columns = 0 then [10, 32] else [32]

def rowAfter (split : Bool) (rc : Nat) : Nat :=
  if split ∧ 0 < rc ∧ rc % columns = 0 then 1 else rc + 1

def layout (split : Bool) : Nat → List Bytes → Bytes
  | _, [] => []
  | rc, t :: ts => sepBefore split rc ++ t ++ layout split (rowAfter split rc) ts

/-- the record view the parser will see again: everything before the slash. -/
def writtenRecordText (fmt : Bytes → Bytes) (flush split : Bool) (r : List Vals) : Bytes :=
  layout split 0 (emitToks fmt flush false 0 r.flatten) ++ [32]

/-- `DeckRecord::write`: bytes put on the stream. -/
def writeRecord (fmt : Bytes → Bytes) (flush split : Bool) (r : List Vals) : Bytes :=
  writtenRecordText fmt flush split r ++ [47, 10]

def idFmt (t : Bytes) : Bytes := t

/-! ## literal mirror of the `DeckOutput` state machine, keyword and deck level

`default_count` (`dc`) and `row_count` (`rc`) live in the `DeckOutput` object and survive
from one record/keyword to the next: `start_record` resets them, `end_record` does not
(unless the patched `end_record` is in place), and `write_TITLE` never calls `start_record`. -/

/-- `DeckOutput::write_sep`: text written and the new `row_count`. -/
def writeSep (split recordOn : Bool) (rc : Nat) : Bytes × Nat :=
  let p : Bytes × Nat := if recordOn ∧ split ∧ 0 < rc ∧ rc % columns = 0 then ([10], 0) else ([], rc)
  (p.1 ++ (if 0 < p.2 then [32] else if recordOn then [32] else []), p.2)

/-- `DeckItem::write_vector` over all values of a record: `stash_default` / `write<T>`. -/
def writeValsM (fmt : Bytes → Bytes) (split recordOn : Bool) : Nat → Nat → Vals → Bytes × Nat × Nat
  | dc, rc, [] => ([], dc, rc)
  | dc, rc, (v, st) :: r =>
    if st = .deck then
      let a : Bytes × Nat :=
        if dc = 0 then ([], rc)
        else ((writeSep split recordOn rc).1 ++ starTok dc, (writeSep split recordOn rc).2 + 1)
      let b := writeSep split recordOn a.2
      let rest := writeValsM fmt split recordOn 0 (b.2 + 1) r
      (a.1 ++ b.1 ++ valTok fmt v ++ rest.1, rest.2)
    else writeValsM fmt split recordOn (dc + 1) rc r

structure OutState where
  dc : Nat
  rc : Nat
  deriving DecidableEq, Repr

/-- `DeckOutput::flush_defaults` (14c7867b0): the pending `n*` is written iff the record holds an
explicit value (`row_count > 0`). -/
def flushDefaultsM (split recordOn : Bool) (dc rc : Nat) : Bytes × Nat × Nat :=
  if 0 < dc ∧ 0 < rc then ((writeSep split recordOn rc).1 ++ starTok dc, 0, (writeSep split recordOn rc).2 + 1)
  else ([], dc, rc)

/-- `DeckRecord::write_data`: `DeckItem::write` for every item; with `itemFlush` (shape 2 of the
code, 14c7867b0) `write_vector` calls `flush_defaults` behind an item holding several values. -/
def writeItemsM (fmt : Bytes → Bytes) (split recordOn itemFlush : Bool) : Nat → Nat → List Vals → Bytes × Nat × Nat
  | dc, rc, [] => ([], dc, rc)
  | dc, rc, it :: rest =>
    let w := writeValsM fmt split recordOn dc rc it
    let f : Bytes × Nat × Nat :=
      if itemFlush ∧ it.length > 1 then flushDefaultsM split recordOn w.2.1 w.2.2 else ([], w.2.1, w.2.2)
    let r := writeItemsM fmt split recordOn itemFlush f.2.1 f.2.2 rest
    (w.1 ++ f.1 ++ r.1, r.2)

/-- does the last item of the record hold several values? -/
def lastMulti (r : List Vals) : Bool :=
  match r.getLast? with
  | some it => decide (it.length > 1)
  | none => false

/-- the `flush` parameter of `emitToks` that describes the code of shape `shape`
(`Gen.RawConsts.outFlushShape`: 0 the original code, 1 = 452487d0e, 2 = 14c7867b0) on the
record `r`, when only its last item may hold several values. -/
def flushOf (shape : Nat) (r : List Vals) : Bool :=
  if shape = 0 then false else if shape = 1 then true else lastMulti r

/-- `DeckRecord::write`: `start_record`, the items, `end_record`, for the three shapes of the
code. -/
def writeRecordM (fmt : Bytes → Bytes) (shape : Nat) (split : Bool) (r : List Vals) : Bytes × OutState :=
  let w := writeItemsM fmt split true (decide (2 ≤ shape)) 0 0 r
  let dc := w.2.1
  let rc := w.2.2
  if shape = 0 then (w.1 ++ [32, 47, 10], ⟨dc, rc⟩)
  else if shape = 1 then
    if 0 < dc ∧ 0 < rc then
      ((w.1 ++ (writeSep split true rc).1 ++ starTok dc) ++ [32, 47, 10], ⟨0, (writeSep split true rc).2 + 1⟩)
    else (w.1 ++ [32, 47, 10], ⟨0, rc⟩)
  else (w.1 ++ [32, 47, 10], ⟨0, rc⟩)

def writeRecordsM (fmt : Bytes → Bytes) (shape : Nat) (split : Bool) : OutState → List (List Vals) → Bytes × OutState
  | st, [] => ([], st)
  | _, r :: rs =>
    let a := writeRecordM fmt shape split r
    let b := writeRecordsM fmt shape split a.2 rs
    (a.1 ++ b.1, b.2)

/-- one keyword as the writer sees it. -/
structure KwOut where
  name : Bytes
  dataKw : Bool
  slashTerm : Bool
  records : List (List Vals)

def splitNames : List Bytes :=
  [[86, 70, 80, 80, 82, 79, 68], [86, 70, 80, 73, 78, 74], [84, 83, 84, 69, 80]]   -- VFPPROD VFPINJ TSTEP

def titleName : Bytes := [84, 73, 84, 76, 69]

/-- `DeckKeyword::write` (with `write_TITLE`). -/
def writeKeywordM (fmt : Bytes → Bytes) (shape : Nat) (st : OutState) (k : KwOut) : Bytes × OutState :=
  if k.name = titleName then
    let w := writeItemsM fmt false false (decide (2 ≤ shape)) st.dc st.rc (k.records.headD [])
    (k.name ++ [10] ++ [32, 32] ++ w.1 ++ [10], ⟨w.2.1, w.2.2⟩)
  else
    let split := k.dataKw || splitNames.contains k.name
    let w := writeRecordsM fmt shape split st k.records
    (k.name ++ [10] ++ w.1 ++ (if k.slashTerm then [47, 10] else []), w.2)

/-- `Deck::write` / `operator<<(std::ostream&, const Deck&)`. -/
def writeDeckM (fmt : Bytes → Bytes) (shape : Nat) : OutState → List KwOut → Bytes
  | _, [] => []
  | st, k :: ks =>
    let a := writeKeywordM fmt shape st k
    a.1 ++ writeDeckM fmt shape a.2 ks

end OpmVerif.DeckWrite
