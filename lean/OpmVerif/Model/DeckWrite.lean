/-
  Model of writing one record: `DeckRecord::write` → `DeckItem::write_vector`
  (`stash_default` for defaulted values, `write` otherwise) → `DeckOutput::write<T>`
  (a pending `n*` is emitted before the next explicit value; defaults pending at the
  end of the record are dropped), `write_sep` (item separator, record indent, line
  split every `fmt.columns = 7` entries for data keywords), `end_record` (`" /"`).
  (opm/input/eclipse/Deck/{DeckRecord,DeckItem,DeckOutput}.cpp)

  The writer is modelled in two stages with the same effect on the stream: the token
  sequence (`emitToks`) and its layout (`layout`).  Floating point printing
  (`os << double` at precision 10) is the parameter `fmt` acting on the value's token.

  Core Lean only.
-/
import OpmVerif.Model.Scan
import OpmVerif.Gen.RawConsts

namespace OpmVerif.DeckWrite
open OpmVerif.Lex OpmVerif.Tok OpmVerif.Scan

/-- decimal digits of a natural number, least significant first. -/
def revDigits : Nat → Nat → Bytes
  | 0, _ => []
  | fuel + 1, n => UInt8.ofNat (48 + n % 10) :: (if n / 10 = 0 then [] else revDigits fuel (n / 10))

/-- `os << n`: decimal digits, most significant first. -/
def natDigits (n : Nat) : Bytes := (revDigits (n + 1) n).reverse

/-- `os << int`. -/
def printInt (i : Int) : Bytes :=
  if i < 0 then 45 :: natDigits i.natAbs else natDigits i.natAbs

/-- the pending-defaults token `n*`. -/
def starTok (n : Nat) : Bytes := natDigits n ++ [42]

def quoted (s : Bytes) : Bytes := 39 :: s ++ [39]

/-- `DeckOutput::write_value<T>`. -/
def valTok (fmt : Bytes → Bytes) : Val → Bytes
  | .int i => printInt i
  | .dbl t => fmt t
  | .str s => quoted s
  | .raw s => s
  | .udaNum t => fmt t
  | .udaStr s => quoted s
  | .dummy => []

/-- tokens the writer emits for the values of a record; `dc` = `default_count`, `any` =
an explicit value has been written in this record (`row_count > 0` at `end_record`).
`flush`: what `end_record` does with defaults still pending — the translator reads it off
DeckOutput.cpp (`Gen.RawConsts.outFlushPendingDefaults`): `false` = dropped, `true` =
written as a final `n*` provided the record holds an explicit value. -/
def emitToks (fmt : Bytes → Bytes) (flush : Bool) : Bool → Nat → Vals → List Bytes
  | any, dc, [] => if flush ∧ any ∧ dc ≠ 0 then [starTok dc] else []
  | any, dc, (v, st) :: r =>
    if st = .deck then
      (if dc = 0 then [] else [starTok dc]) ++ valTok fmt v :: emitToks fmt flush true 0 r
    else emitToks fmt flush any (dc + 1) r

def columns : Nat := 7

/-- `write_sep` in front of the entry written when `row_count = rc`. -/
def sepBefore (split : Bool) (rc : Nat) : Bytes :=
  if split ∧ 0 < rc ∧ rc % columns = 0 then [10, 32] else [32]

def rowAfter (split : Bool) (rc : Nat) : Nat :=
  if split ∧ 0 < rc ∧ rc % columns = 0 then 1 else rc + 1

def layout (split : Bool) : Nat → List Bytes → Bytes
  | _, [] => []
  | rc, t :: ts => sepBefore split rc ++ t ++ layout split (rowAfter split rc) ts

/-- the record view the parser will see again: everything before the slash. -/
def writtenRecordText (fmt : Bytes → Bytes) (flush split : Bool) (r : List Vals) : Bytes :=
  layout split 0 (emitToks fmt flush false 0 r.flatten) ++ [32]

/-- `DeckRecord::write`: bytes put on the stream. -/
def writeRecord (fmt : Bytes → Bytes) (flush split : Bool) (r : List Vals) : Bytes :=
  writtenRecordText fmt flush split r ++ [47, 10]

def idFmt (t : Bytes) : Bytes := t

end OpmVerif.DeckWrite
