/-
  The REAL / DOUB fields of a formatted file: `EclOutput::make_real_string_ecl/_ix`,
  `make_doub_string_ecl/_ix` (opm/io/eclipse/EclOutput.cpp) as functions of the text
  `snprintf("%10.7E" / "%19.13E")` printed (the digits themselves are libc's), and the
  `setw(columnWidth)` field.  inf / nan are outside (the writer prints INF/NAN for them).
  Core Lean only.
-/
import OpmVerif.Model.EclFmtRead

namespace OpmVerif.FmtReal
open OpmVerif.EclFmt

/-- `std::string::substr(pos, len)` for `pos ≤ size`. -/
def substr (s : List Char) (pos len : Nat) : List Char := (s.drop pos).take len

/-- `snprintf("%+03i", x)`: sign, at least two digits. -/
def expField (x : Int) : List Char :=
  (if x < 0 then '-' else '+') ::
    (if (Unrst.decDigits 12 x.natAbs).length < 2 then '0' :: Unrst.decDigits 12 x.natAbs
     else Unrst.decDigits 12 x.natAbs)

/-- `make_doub_string_ecl` for a finite non-zero value: `neg` = `value < 0.0`, `T` = the
`%19.13E` text.  `none` = `std::stoi` throws. -/
def makeDoubEcl (neg : Bool) (T : List Char) : Option (List Char) :=
  match stoiC (if neg then substr T 17 4 else substr T 16 4) with
  | none => none
  | some exp =>
    let mant := if neg then ['-', '0', '.'] ++ substr T 1 1 ++ substr T 3 13
                else ['0', '.'] ++ substr T 0 1 ++ substr T 2 13
    some (mant ++ (if -100 ≤ exp ∧ exp < 99 then ['D'] else []) ++ expField (exp + 1))

/-- `make_real_string_ecl` for a finite non-zero value, `T` = the `%10.7E` text. -/
def makeRealEcl (neg : Bool) (T : List Char) : Option (List Char) :=
  match stoiC (if neg then substr T 11 3 else substr T 10 3) with
  | none => none
  | some exp =>
    let mant := if neg then ['-', '0', '.'] ++ substr T 1 1 ++ substr T 3 7
                else ['0', '.'] ++ substr T 0 1 ++ substr T 2 7
    some (mant ++ ['E'] ++ expField (exp + 1))

def zeroDoubEcl : List Char := "0.00000000000000D+00".toList
def zeroDoubIx : List Char := " 0.0000000000000E+00".toList
def zeroRealEcl : List Char := "0.00000000E+00".toList
def zeroRealIx : List Char := " 0.0000000E+00".toList

/-- the string the writer puts into the column (finite values). -/
def doubString (ix zero neg : Bool) (T : List Char) : Option (List Char) :=
  if zero then some (if ix then zeroDoubIx else zeroDoubEcl)
  else if ix then some T else makeDoubEcl neg T

def realString (ix zero neg : Bool) (T : List Char) : Option (List Char) :=
  if zero then some (if ix then zeroRealIx else zeroRealEcl)
  else if ix then some T else makeRealEcl neg T

/-- `ofileH << std::setw(columnWidth) << string`. -/
def doubField (str : List Char) : List Char := Unrst.setw Gen.EclIO.columnWidthDoub str
def realField (str : List Char) : List Char := Unrst.setw Gen.EclIO.columnWidthReal str

/-! ### what `snprintf("%.pE")` prints for a finite non-zero value -/

structure Sci where
  neg : Bool
  digits : List Char      -- p+1 decimal digits, the first one non-zero
  exp : Int
  deriving DecidableEq, Repr

def sciText (s : Sci) : List Char :=
  (if s.neg then ['-'] else []) ++ s.digits.take 1 ++ ['.'] ++ s.digits.drop 1 ++ ['E'] ++ expField s.exp

/-- the ECL strings in terms of sign, digits and exponent. -/
def eclDoub (s : Sci) : List Char :=
  (if s.neg then ['-'] else []) ++ ['0', '.'] ++ s.digits ++
    (if -100 ≤ s.exp ∧ s.exp < 99 then ['D'] else []) ++ expField (s.exp + 1)

def eclReal (s : Sci) : List Char :=
  (if s.neg then ['-'] else []) ++ ['0', '.'] ++ s.digits ++ ['E'] ++ expField (s.exp + 1)

end OpmVerif.FmtReal
