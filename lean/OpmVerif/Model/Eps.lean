/-
  Model of the two-phase saturation-function stack of opm/material/fluidmatrixinteractions:

    PiecewiseLinearTwoPhaseMaterial  — table lookup (its own search/eval code, NOT
                                        Tabulated1DFunction: constant outside the table,
                                        `y0 + (x - x0)*m`, ascending and descending tables)
    EclEpsTwoPhaseLaw                — end-point scaling: two- and three-point horizontal scaling
                                        and their inverses, vertical scaling of krw / krn
                                        (pure and three-point), capillary pressure scaling
  Core Lean only; generic scalar as in `Tab1D`.
-/
import OpmVerif.Model.Tab1D

namespace OpmVerif.Eps
open OpmVerif.Tab1D

section
variable {α : Type} [Add α] [Sub α] [Mul α] [Div α] [LT α] [LE α]
  [DecidableLT α] [DecidableLE α] [OfNat α 0] [OfNat α 1]

def minA (a b : α) : α := if b < a then b else a      -- std::min(a, b)
def maxA (a b : α) : α := if a < b then b else a      -- std::max(a, b)

/-! ### PiecewiseLinearTwoPhaseMaterial -/

/-- bisection of `findSegmentIndex_`: `if (xValues[cur] < x) low = cur; else high = cur;` -/
def bisectAsc (xs : List α) (x : α) : Nat → Nat → Nat → Nat
  | 0, lo, _ => lo
  | fuel + 1, lo, hi =>
    if lo + 1 < hi then
      if nth xs ((lo + hi) / 2) < x then bisectAsc xs x fuel ((lo + hi) / 2) hi
      else bisectAsc xs x fuel lo ((lo + hi) / 2)
    else lo

/-- `findSegmentIndex_` (ascending x). -/
def segAsc (xs : List α) (x : α) : Nat :=
  if nth xs (xs.length - 1) ≤ x then xs.length - 1 - 1
  else if x ≤ nth xs 0 then 0
  else bisectAsc xs x xs.length 0 (xs.length - 1)

/-- bisection of `findSegmentIndexDescending_`: `if (xValues[cur] >= x) low = cur; else high = cur;` -/
def bisectDesc (xs : List α) (x : α) : Nat → Nat → Nat → Nat
  | 0, lo, _ => lo
  | fuel + 1, lo, hi =>
    if lo + 1 < hi then
      if x ≤ nth xs ((lo + hi) / 2) then bisectDesc xs x fuel ((lo + hi) / 2) hi
      else bisectDesc xs x fuel lo ((lo + hi) / 2)
    else lo

def segDesc (xs : List α) (x : α) : Nat :=
  if x ≤ nth xs (xs.length - 1) then xs.length - 1
  else if nth xs 0 ≤ x then 0
  else bisectDesc xs x xs.length 0 (xs.length - 1)

/-- `eval(xValues, yValues, x, segIdx)`: `m = (y1 - y0)/(x1 - x0); return y0 + (x - x0)*m`. -/
def plSeg (xs ys : List α) (i : Nat) (x : α) : α :=
  nth ys i + (x - nth xs i) * ((nth ys (i + 1) - nth ys i) / (nth xs (i + 1) - nth xs i))

/-- `evalAscending_`: constant outside the table. -/
def plAsc (xs ys : List α) (x : α) : α :=
  if x ≤ nth xs 0 then nth ys 0
  else if nth xs (xs.length - 1) ≤ x then nth ys (ys.length - 1)
  else plSeg xs ys (segAsc xs x) x

/-- `evalDescending_`. -/
def plDesc (xs ys : List α) (x : α) : α :=
  if nth xs 0 ≤ x then nth ys 0
  else if x ≤ nth xs (xs.length - 1) then nth ys (ys.length - 1)
  else plSeg xs ys (segDesc xs x) x

/-- `eval_`: ascending iff `xValues.front() < xValues.back()`. -/
def plEval (xs ys : List α) (x : α) : α :=
  if nth xs 0 < nth xs (xs.length - 1) then plAsc xs ys x else plDesc xs ys x

/-- The sample arrays of one two-phase table (`PiecewiseLinearTwoPhaseMaterialParams`). -/
structure PLParams (α : Type) where
  swPc : List α
  pc : List α
  swKrw : List α
  krw : List α
  swKrn : List α
  krn : List α

def PLParams.pcnw (p : PLParams α) (sw : α) : α := plEval p.swPc p.pc sw
def PLParams.krwAt (p : PLParams α) (sw : α) : α := plEval p.swKrw p.krw sw
def PLParams.krnAt (p : PLParams α) (sw : α) : α := plEval p.swKrn p.krn sw
/-- the inverse lookups swap the arrays -/
def PLParams.krwInv (p : PLParams α) (k : α) : α := plEval p.krw p.swKrw k
def PLParams.krnInv (p : PLParams α) (k : α) : α := plEval p.krn p.swKrn k
def PLParams.pcnwInv (p : PLParams α) (v : α) : α := plEval p.pc p.swPc v

/-! ### EclEpsTwoPhaseLaw -/

/-- three saturation points `[0] [1] [2]` = lower, critical/displacing, upper -/
structure Pts (α : Type) where
  p0 : α
  p1 : α
  p2 : α

/-- `EclEpsScalingPoints` (one set for the table = unscaled, one per cell = scaled).
In the C++ `maxPcnw` and `leverett` are one member (`maxPcnwOrLeverettFactor_`): the front
end fills both fields with the same number. -/
structure Points (α : Type) where
  satPc : Pts α
  satKrw : Pts α
  satKrn : Pts α
  maxPcnw : α
  leverett : α
  krwr : α
  maxKrw : α
  krnr : α
  maxKrn : α

/-- `EclEpsConfig`. -/
structure Config where
  satScaling : Bool
  threePointKrSat : Bool
  krwScaling : Bool
  threePointKrw : Bool
  krnScaling : Bool
  threePointKrn : Bool
  pcScaling : Bool
  leverett : Bool

/-- `scaledToUnscaledSatTwoPoint_`: `u0 + (s - s0)*((u2 - u0)/(s2 - s0))` — no clamping. -/
def s2uTwo (s : α) (u sc : Pts α) : α :=
  u.p0 + (s - sc.p0) * ((u.p2 - u.p0) / (sc.p2 - sc.p0))

/-- `unscaledToScaledSatTwoPoint_`. -/
def u2sTwo (x : α) (u sc : Pts α) : α :=
  sc.p0 + (x - u.p0) * ((sc.p2 - sc.p0) / (u.p2 - u.p0))

/-- the lambda `map(i)` of the three-point functions, for the interval `[a_i, a_{i+1}]` of the
source points and `[b_i, b_{i+1}]` of the target points -/
def map3 (s a0 a1 b0 b1 : α) : α :=
  minA (b0 + (s - a0) / (a1 - a0) * maxA (b1 - b0) 0) b1

/-- `scaledToUnscaledSatThreePoint_`. -/
def s2uThree (s : α) (u sc : Pts α) : α :=
  if ¬ (sc.p0 < s) then u.p0
  else if s < minA sc.p1 sc.p2 then map3 s sc.p0 sc.p1 u.p0 u.p1
  else if s < sc.p2 then map3 s sc.p1 sc.p2 u.p1 u.p2
  else u.p2

/-- `unscaledToScaledSatThreePoint_`. -/
def u2sThree (x : α) (u sc : Pts α) : α :=
  if ¬ (u.p0 < x) then sc.p0
  else if x < u.p1 then map3 x u.p0 u.p1 sc.p0 sc.p1
  else if x < u.p2 then map3 x u.p1 u.p2 sc.p1 sc.p2
  else sc.p2

def s2uKr (c : Config) (s : α) (u sc : Pts α) : α :=
  if ¬ c.satScaling then s
  else if c.threePointKrSat then s2uThree s u sc else s2uTwo s u sc

def u2sKr (c : Config) (x : α) (u sc : Pts α) : α :=
  if ¬ c.satScaling then x
  else if c.threePointKrSat then u2sThree x u sc else u2sTwo x u sc

def s2uPc (c : Config) (s : α) (u sc : Pts α) : α := if ¬ c.satScaling then s else s2uTwo s u sc

/-- `unscaledToScaledKrw_`. -/
def vertKrw (c : Config) (u sc : Points α) (sw krw : α) : α :=
  if ¬ c.krwScaling then krw
  else if ¬ c.threePointKrw then krw * (sc.maxKrw / u.maxKrw)
  else if ¬ (minA sc.satKrw.p1 sc.satKrw.p2 < sw) then krw * (sc.krwr / u.krwr)
  else if u.krwr < u.maxKrw then sc.krwr + (krw - u.krwr) / (u.maxKrw - u.krwr) * (sc.maxKrw - sc.krwr)
  else if minA sc.satKrw.p1 sc.satKrw.p2 < sc.satKrw.p2 then
    sc.krwr + (sw - minA sc.satKrw.p1 sc.satKrw.p2) / (sc.satKrw.p2 - minA sc.satKrw.p1 sc.satKrw.p2) * (sc.maxKrw - sc.krwr)
  else sc.maxKrw

/-- `unscaledToScaledKrn_` (krn decreases with Sw: the roles of the intervals are reversed). -/
def vertKrn (c : Config) (u sc : Points α) (sw krn : α) : α :=
  if ¬ c.krnScaling then krn
  else if ¬ c.threePointKrn then krn * (sc.maxKrn / u.maxKrn)
  else if ¬ (sw < maxA sc.satKrn.p1 sc.satKrn.p0) then krn * (sc.krnr / u.krnr)
  else if u.krnr < u.maxKrn then sc.krnr + (krn - u.krnr) / (u.maxKrn - u.krnr) * (sc.maxKrn - sc.krnr)
  else if sc.satKrn.p0 < maxA sc.satKrn.p1 sc.satKrn.p0 then
    sc.krnr + (maxA sc.satKrn.p1 sc.satKrn.p0 - sw) / (maxA sc.satKrn.p1 sc.satKrn.p0 - sc.satKrn.p0) * (sc.maxKrn - sc.krnr)
  else sc.maxKrn

/-- `unscaledToScaledPcnw_`. -/
def vertPc (c : Config) (u sc : Points α) (pc : α) : α :=
  if c.leverett then pc * sc.leverett
  else if c.pcScaling then
    -- alpha = 1 when scaled == unscaled maximum, or when the table has no capillary pressure (fix eae0e8979)
    (if (¬ (sc.maxPcnw < u.maxPcnw) ∧ ¬ (u.maxPcnw < sc.maxPcnw)) ∨ (¬ (u.maxPcnw < 0) ∧ ¬ (0 < u.maxPcnw)) then pc * 1
     else pc * (sc.maxPcnw / u.maxPcnw))
  else pc

/-- `twoPhaseSatKrw`, `twoPhaseSatKrn`, `twoPhaseSatPcnw` of `EclEpsTwoPhaseLaw<PiecewiseLinear…>`. -/
def epsKrw (c : Config) (t : PLParams α) (u sc : Points α) (sw : α) : α :=
  vertKrw c u sc sw (t.krwAt (s2uKr c sw u.satKrw sc.satKrw))

def epsKrn (c : Config) (t : PLParams α) (u sc : Points α) (sw : α) : α :=
  vertKrn c u sc sw (t.krnAt (s2uKr c sw u.satKrn sc.satKrn))

def epsPcnw (c : Config) (t : PLParams α) (u sc : Points α) (sw : α) : α :=
  vertPc c u sc (t.pcnw (s2uPc c sw u.satPc sc.satPc))

/-- `twoPhaseSatKrnInv`: `unscaledToScaledSatKrn(krnInv(scaledKrn * maxKrn_u/maxKrn_s))`. -/
def epsKrnInv (c : Config) (t : PLParams α) (u sc : Points α) (k : α) : α :=
  u2sKr c (t.krnInv (if ¬ c.krnScaling then k else k * (u.maxKrn / sc.maxKrn))) u.satKrn sc.satKrn

end
end OpmVerif.Eps
