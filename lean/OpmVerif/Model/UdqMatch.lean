/-
  Model of the name matching UDQ evaluation uses to build well sets:

    Opm::shmatch(pattern, symbol)  = fnmatch(pattern, symbol, 0) == 0     (opm/common/utility/shmatch.cpp)
    WellMatcher::wells(pattern)                                            (Schedule/Well/WellMatcher.cpp)
    NameOrder::sort                                                        (Schedule/Well/NameOrder.cpp)
    WListManager::wells(pattern)                                           (Schedule/Well/WListManager.cpp)
    UDQSet::assign(wgname, optional<double>)  -- `wgname` is itself used as a PATTERN   (UDQSet.cpp)

  `fnmatch` with flags 0 is modelled for the subset the decks use: `*` (any run of characters,
  `.` and `/` included since neither FNM_PERIOD nor FNM_PATHNAME is set), `?` (exactly one
  character) and literal characters.  Bracket expressions `[...]` and backslash escapes inside
  a pattern are outside the model (`inSubset`); only the LEADING backslash that
  `normalisePattern` strips is modelled.
-/
import OpmVerif.Model.Basic

namespace OpmVerif.Udq

/-- all suffixes of a string, longest first (what a `*` may leave for the rest of the pattern) -/
def suffixes : List Char → List (List Char)
  | [] => [[]]
  | c :: s => (c :: s) :: suffixes s

/-- `fnmatch(p, s, 0) == 0` on the `*` / `?` / literal subset -/
def glob : List Char → List Char → Bool
  | [], s => s.isEmpty
  | c :: p, s =>
    if c = '*' then (suffixes s).any fun t => glob p t
    else
      match s with
      | [] => false
      | d :: s' => (c = '?' || c = d) && glob p s'

def globS (p s : String) : Bool := glob p.toList s.toList

/-- the pattern stays inside the modelled subset of fnmatch -/
def inSubset (p : List Char) : Bool := !(p.any fun c => c = '[' || c = '\\')

/-- no character with a meaning to the modelled fnmatch -/
def literal (p : List Char) : Prop := ∀ c ∈ p, c ≠ '*' ∧ c ≠ '?'

instance (p : List Char) : Decidable (literal p) := by unfold literal; exact inferInstance

/-- `WellMatcher`: the `NameOrder` (distinct names in insertion order) and, when the matcher was
built with one, the `WListManager` lists (`std::map`: sorted by name; names carry their `*`) -/
structure Matcher where
  wells : List String
  wlists : Option (List (String × List String))

/-- `normalisePattern`: one leading backslash is dropped -/
def normalisePattern (p : List Char) : List Char :=
  match p with
  | '\\' :: r => r
  | _ => p

/-- append the names of `ws` not yet present (`std::count(...) == 0` → `push_back`) -/
def pushNew (acc ws : List String) : List String :=
  ws.foldl (fun a w => if a.contains w then a else a ++ [w]) acc

/-- `WListManager::wells(pattern)`: the list of that exact name, else the union (first
occurrence kept) of all lists whose name without its `*` matches the pattern without its `*` -/
def wlistWells (lists : List (String × List String)) (pattern : String) : List String :=
  match lists.lookup pattern with
  | some ws => ws
  | none =>
    lists.foldl (fun acc (name, ws) =>
      if glob (pattern.toList.drop 1) (name.toList.drop 1) then pushNew acc ws else acc) []

/-- `NameOrder::sort`: `std::sort` by insertion index.  The indices of distinct names are distinct,
so the result is unique: the names of the order that occur, each as often as it occurs.  With at
least two names every one goes through `m_index_map.at` — an unknown name throws. -/
def orderSort (order names : List String) : Except Unit (List String) :=
  if names.length ≤ 1 then .ok names
  else if names.all order.contains then .ok (order.flatMap fun w => names.filter (· == w))
  else .error ()

/-- `WellMatcher::wells(pattern)` -/
def Matcher.matching (m : Matcher) (pattern : String) : Except Unit (List String) :=
  match pattern.toList with
  | [] => .ok []
  | c :: rest =>
    if c = '*' ∧ rest ≠ [] then
      match m.wlists with
      | none => .ok []
      | some ls => orderSort m.wells (wlistWells ls pattern)
    else
      let patt := normalisePattern (c :: rest)
      if patt.contains '*' then .ok (m.wells.filter fun w => glob patt w.toList)
      else if m.wells.contains (String.ofList patt) then .ok [String.ofList patt]
      else .ok []

end OpmVerif.Udq
