/-
  Line-protocol front end of the formatted unified-restart model.
    unrstfmt.run <step>|<step>|...   -> hex of the final file | err
       <step> = <n>=<arr>;<arr>;...   (an empty array list is written as `<n>=`)
       <arr>  = I,<name-hex>,<i>:<i>:...   |  L,<name-hex>,<TF...>  |  C,<name-hex>,<hex>:<hex>:...
                (`-` = no element)
-/
import OpmVerif.Model.UnrstFmt
import OpmVerif.Model.EclFmtReadIO
-- driver: prefix=unrstfmt handler=OpmVerif.UnrstFmt.handle

namespace OpmVerif.UnrstFmt
open OpmVerif.Ecl OpmVerif.EclFmt

def hexChars (s : String) : Option (List Char) :=
  (ofHex s).map fun bs => bs.map fun b => Char.ofNat b.toNat

def allSome {α : Type} (xs : List (Option α)) : Option (List α) :=
  if xs.all Option.isSome then some (xs.filterMap id) else none

def parseArr (s : String) : Option FArr :=
  match s.splitOn "," with
  | [k, nameHex, payload] =>
    match hexChars nameHex with
    | none => none
    | some name =>
      let items := if payload = "-" then [] else payload.splitOn ":"
      match k with
      | "I" => (allSome (items.map String.toInt?)).map fun xs => { name := name, t := .inte, ints := xs }
      | "L" => some { name := name, t := .logi, bools := (if payload = "-" then [] else payload.toList).map (· = 'T') }
      | "C" => (allSome (items.map hexChars)).map fun xs => { name := name, t := .char, strs := xs }
      | _ =>
        -- `S<esz>`: strings longer than eight characters, written as C0nn
        if k.startsWith "S" then
          match (k.drop 1).toNat? with
          | some esz => (allSome (items.map hexChars)).map fun xs => { name := name, t := .c0nn esz, strs := xs }
          | none => none
        else none
  | _ => none

def parseStep (s : String) : Option (Nat × List FArr) :=
  match s.splitOn "=" with
  | [n, arrs] =>
    let parts := if arrs.isEmpty then [] else arrs.splitOn ";"
    (allSome (parts.map parseArr)).map fun as => (n.toNat!, as)
  | _ => none

def handle (op : String) (args : List String) : String :=
  match op, args with
  | "unrstfmt.run", [h] =>
    match allSome ((h.splitOn "|").map parseStep) with
    | none => "bad-op"
    | some steps =>
      match runHistory none steps with
      | some (some f) => charsHex f
      | some none => "-"
      | none => "err"
  | _, _ => "bad-op"

end OpmVerif.UnrstFmt
