/-
  Line-protocol front end of `Model/GridTops.lean` (C13, fourth round).  Same number formats as
  `Model/GridIO.lean`.

    gridt.tops   nx ny nz n0 DZ TOPS        -> TOPS' | err      (createTOPSVector; TOPS has n0 values)
    gridt.deck   nx ny nz n0 DX DY DZ TOPS  -> COORD ZCORN nfix | err
                 (createTOPSVector + makeCoordDxDyDzTops + makeZcornDzTops + fixupZCORN, DX/DY/DZ complete;
                 which TOPS layers makeZcornDzTops reads is generated: `Gen/GridTops.lean`)
    gridt.aq     records mask               -> forced ACTNUM|nactive|g2a,…|a2g,…
                 records: cell:depth,… (depth `-` = defaulted, else hex double); mask: a,b,…
                 (resetACTNUM(mask) of an object whose deck had these AQUNUM records)
    gridt.aqdepth records GEOM              -> getCellDepth of every cell (GEOM = geometric depths)
    gridt.normal X Y Z                      -> cell centre, bottom centre, normal (9 doubles)
    gridt.valid  threshold minsep X Y Z     -> 0 | 1
-/
import OpmVerif.Model.GridTops
import OpmVerif.Model.GridIO
-- driver: prefix=gridt handler=OpmVerif.GridTops.handle

namespace OpmVerif.GridTops

open OpmVerif.Grid

/-- `constexpr double z_tolerance = 1e-6`. -/
def zTolerance : Float := Float.ofBits 0x3EB0C6F7A0B5ED8D

def parseRecords (s : String) : Option (List (AquRecord Float)) :=
  if s = "-" then some [] else
  (s.splitOn ",").mapM fun p =>
    match p.splitOn ":" with
    | [c, dpt] =>
      match c.toNat? with
      | none => none
      | some cell =>
        if dpt = "-" then some ⟨cell, none⟩
        else match parseF64s dpt with
          | some a => if a.size = 1 then some ⟨cell, some (a.getD 0 0.0)⟩ else none
          | none => none
    | _ => none

def createTOPSF (d : Dims) (n0 : Nat) (dz inp : Array Float) : Option (Nat → Float) :=
  createTOPS Float.abs zTolerance d n0 (fn dz) (fn inp)

def handle (op : String) (args : List String) : String :=
  match op, args with
  | "gridt.tops", [nx, ny, nz, n0, dz, tops] =>
    let d : Dims := ⟨nx.toNat!, ny.toNat!, nz.toNat!⟩
    match parseF64s dz, parseF64s tops with
    | some dz, some tops =>
      match createTOPSF d n0.toNat! dz tops with
      | some t => showF64s (tabulate d.size t)
      | none => "err"
    | _, _ => "bad-op"
  | "gridt.deck", [nx, ny, nz, n0, dx, dy, dz, tops] =>
    let d : Dims := ⟨nx.toNat!, ny.toNat!, nz.toNat!⟩
    match parseF64s dx, parseF64s dy, parseF64s dz, parseF64s tops with
    | some dx, some dy, some dz, some tops =>
      match createTOPSF d n0.toNat! dz tops with
      | some t =>
        let tv := tabulate d.size t
        let coord := tabulate (6 * (d.nx + 1) * (d.ny + 1)) (coordDTops d (fn dx) (fn dy) (fn dz) (fn tv))
        let zcorn := tabulate (8 * d.size) (zcornOfCells d (zcornCellOf Gen.GridTops.zcornTopsLayers d (fn dz) (fn tv)))
        let (n, z) := fixupZCORN d zcorn
        s!"{showF64s coord} {showF64s z} {n}"
      | none => "err"
    | _, _, _, _ => "bad-op"
  | "gridt.aq", [recs, mask] =>
    match parseRecords recs, parseInts mask with
    | some rs, some mask =>
      let forced := forceAq (aquCells rs) 0 mask
      ",".intercalate (forced.map toString) ++ "|" ++ mapsStr (resetACTNUMAq (aquCells rs) mask)
    | _, _ => "bad-op"
  | "gridt.aqdepth", [recs, geom] =>
    match parseRecords recs, parseF64s geom with
    | some rs, some geom => showF64s (tabulate geom.size (cellDepthAq rs (fn geom)))
    | _, _ => "bad-op"
  | "gridt.normal", [x, y, z] =>
    match parseF64s x, parseF64s y, parseF64s z with
    | some x, some y, some z =>
      let r := bottomCenterNormal (0.5 : Float) (⟨fn x, fn y, fn z⟩ : Corners Float)
      String.join ([r.1.1, r.1.2.1, r.1.2.2, r.2.1.1, r.2.1.2.1, r.2.1.2.2, r.2.2.1, r.2.2.2.1, r.2.2.2.2].map f64Hex)
    | _, _, _ => "bad-op"
  | "gridt.valid", [thr, sep, x, y, z] =>
    match parseF64s (thr ++ sep), parseF64s x, parseF64s y, parseF64s z with
    | some p, some x, some y, some z =>
      if isValidCellGeometry Float.abs (fn p 0) (fn p 1) (⟨fn x, fn y, fn z⟩ : Corners Float) then "1" else "0"
    | _, _, _, _ => "bad-op"
  | _, _ => "bad-op"

end OpmVerif.GridTops
