/-
  `ZcornMapper::fixupZCORN` (EclipseGrid.cpp) in gather form (C13, second round).

      sign = zcorn[index(0,0,0,0)] <= zcorn[index(0,0,nz-1,4)] ? 1 : -1
      for k, j, i, c < 4:
        if k > 0:  i1 = index(i,j,k-1,c+4), i2 = index(i,j,k,c):   if ((z[i2]-z[i1])*sign < 0) { z[i2] = z[i1]; ++n }
                   i1 = index(i,j,k,c),     i2 = index(i,j,k,c+4): if ((z[i2]-z[i1])*sign < 0) { z[i2] = z[i1]; ++n }

  Every store goes to the slot that follows, on the same vertical corner line `(i, j, c)`, the
  slot it is compared with; the 4·nx·ny lines are disjoint sets of ZCORN slots
  (`Proofs/Grid.lean: zcornIdx_inj`), and along one line the slots are visited top to bottom.
  Hence the loop is, per line, the running clamp `y₀ = x₀, yₙ₊₁ = if (xₙ₊₁ - yₙ)·sign < 0 then yₙ
  else xₙ₊₁` — which is what is written here; the complete arrays and the count are compared
  bit for bit with the C++ in the correspondence (`grid.fixup`, `grid.dtops`, `grid.depthz`,
  `grid.load`, `grid.seq`).

  Core Lean only, generic scalar (`Float` in the driver, an ordered field in `Proofs/`).
-/
import OpmVerif.Model.Grid

namespace OpmVerif.Grid

section
variable {α : Type} [Sub α] [Mul α] [Neg α] [NatCast α] [LT α] [LE α]
  [DecidableRel (fun a b : α => a < b)] [DecidableRel (fun a b : α => a ≤ b)]

/-- `if ((x - p) * sign < 0) x = p;` — the value stored at the slot holding `x` whose
predecessor on the line holds `p`. -/
def clamp (sign p x : α) : α := if (x - p) * sign < ((0 : Nat) : α) then p else x

/-- The slots after the first one of a line, `p` being the (already adjusted) predecessor. -/
def clampList (sign : α) : α → List α → List α
  | _, [] => []
  | p, x :: xs => clamp sign p x :: clampList sign (clamp sign p x) xs

/-- One vertical corner line, top to bottom. -/
def fixLine (sign : α) : List α → List α
  | [] => []
  | x :: xs => x :: clampList sign x xs

/-- Number of stores (`cells_adjusted`) on the slots after the first. -/
def clampCount (sign : α) : α → List α → Nat
  | _, [] => 0
  | p, x :: xs => (if (x - p) * sign < ((0 : Nat) : α) then 1 else 0) + clampCount sign (clamp sign p x) xs

def lineCount (sign : α) : List α → Nat
  | [] => 0
  | x :: xs => clampCount sign x xs

/-- The `2·nz` ZCORN slots of the vertical line through corner `c < 4` of column `(i, j)`:
slot `n` is corner `c` (n even) / `c+4` (n odd) of cell `(i, j, n/2)`. -/
def lineSlots (d : Dims) (i j c : Nat) : List Nat :=
  (List.range (2 * d.nz)).map fun n => zcornIdx d i j (n / 2) (c + 4 * (n % 2))

/-- `sign`. -/
def fixSign (d : Dims) (z : Nat → α) : α :=
  if z (zcornIdx d 0 0 0 0) ≤ z (zcornIdx d 0 0 (d.nz - 1) 4) then ((1 : Nat) : α) else -((1 : Nat) : α)

/-- Entry `idx` of the ZCORN array after `fixupZCORN`. -/
def fixupEntry (d : Dims) (z : Nat → α) (idx : Nat) : α :=
  let q := zcornDecode d idx
  ((fixLine (fixSign d z) ((lineSlots d q.1 q.2.1 (q.2.2.2 % 4)).map z)).getD
    (2 * q.2.2.1 + q.2.2.2 / 4) (z idx))

/-- The return value `cells_adjusted`. -/
def fixupCount (d : Dims) (z : Nat → α) : Nat :=
  ((List.range d.ny).flatMap fun j => (List.range d.nx).flatMap fun i =>
    (List.range 4).map fun c => lineCount (fixSign d z) ((lineSlots d i j c).map z)).sum

/-- `fixupZCORN` as used by the object model: `(cells_adjusted, adjusted array)`. -/
def fixupG (d : Dims) (z : Nat → α) : Nat × (Nat → α) := (fixupCount d z, fixupEntry d z)

end

end OpmVerif.Grid
