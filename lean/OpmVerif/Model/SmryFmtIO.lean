/-
  Line-protocol front end of the formatted summary data-file model.
    smryfmt.file <prev> <step>|<step>|...  -> hex of the formatted unified summary data file
       <step> = <seq>,<id>,<fields-hex>   (the 17-character PARAMS fields, concatenated)
-/
import OpmVerif.Model.SmryFmt
import OpmVerif.Model.EclFmtReadIO
import OpmVerif.Model.EclFmtIO
-- driver: prefix=smryfmt handler=OpmVerif.SmryFmt.handle

namespace OpmVerif.SmryFmt
open OpmVerif.Ecl OpmVerif.EclFmt

def parseStep (s : String) : Option MiniStep :=
  match s.splitOn "," with
  | [seq, id, hex] =>
    match ofHex hex with
    | some bs =>
      let cs := bs.map fun b => Char.ofNat b.toNat
      some { seq := seq.toNat!, id := id.toNat!, fields := splitFields Gen.EclIO.columnWidthReal (cs.length + 1) cs }
    | none => none
  | _ => none

def handle (op : String) (args : List String) : String :=
  match op, args with
  | "smryfmt.file", [prev, h] =>
    let steps := (h.splitOn "|").map parseStep
    if steps.all Option.isSome then
      match prev.toInt? with
      | some p => charsHex (encodeFmtFile (writeSteps p (steps.filterMap id)))
      | none => "bad-op"
    else "bad-op"
  | _, _ => "bad-op"

end OpmVerif.SmryFmt
