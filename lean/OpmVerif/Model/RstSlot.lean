/-
  Slot-assignment vocabulary shared by the generated tables (Gen/RstSlots.lean), the executable
  encoder/decoder used by the correspondence driver, and the proofs (core Lean only).

  Writer side (Aggregate{Well,Connection}Data.cpp):   window[slot] = pre(source)
  Reader side (rst/well.cpp, rst/connection.cpp, LoadRestart.cpp):   field = post(window[slot])
-/
namespace OpmVerif.RstSlot

/-- Shape of the right-hand side of a write `window[Ix::Slot] = rhs`. -/
inductive Pre where
  | id                                        -- x            (implicit narrowing for REAL arrays)
  | plus1                                     -- x + 1
  | castInt                                   -- static_cast<int>(x)
  | fromSI (m : String)                       -- units.from_si(M::m, x) / swprop(M::m, x) / scprop(M::m, x)
  | fromSIScaled (m : String) (k : Int)       -- scprop(M::m, k*x)
  | sel (a b : Int)                           -- cond ? a : b      (a Boolean source)
  | const (v : String)                        -- literal / enumerator / converted physical constant
  | enumEnc (fn : String)                     -- value of a `switch` encoder (table in `encTables`)
  | copyOf (slot : String)                    -- window[Ix::Other]
  | smry (key : String) (neg : Bool)          -- [-] smry.get_well_var(well, key, 0) / get_conn_var
  | smryPI (keyP keyI : String)               -- producer: +keyP, injector: -keyI
  | cond (inner : Pre) (dflt : String) (thenBranch : Bool)   -- c ? inner(x) : dflt   (or swapped)
  | fromSIChain (ms : List String)            -- from_si(M::m1, from_si(M::m2, … x))   (nested conversions, e.g. [D]·[viscosity])
  | fromSIUnitPow (m : String) (k : Nat)      -- from_si(M::m, … from_si(M::m, 1.)) * x   (k-fold: area / volume from the length unit)
  | opaque (text : String)                    -- not recognised: excluded from the proved set
  deriving DecidableEq, Repr, Inhabited

/-- Shape of a read `field(post(window[Ix::Slot]))`. -/
inductive Post where
  | id
  | minus1                                    -- y - 1
  | eqInt (v : Int)                           -- y == v
  | toSI (m : String)                         -- unit_system.to_si(M::m, y)
  | negToSI (m : String)                      -- - usys.to_si(M::m, y)
  | narrowToSI (m : String)                   -- as_float(unit_system.to_si(M::m, y))
  | swelValueToSI (m : String)                -- to_si(M::m, swel_value(y))     (sentinel -> 0)
  | sentinelToSI (m : String)                 -- keep_sentinel(y, to_si(M::m, ·))
  | sentinelId                                -- keep_sentinel(y, id)
  | decode (fn : String)                      -- from_int<T>(y) / from_float(y)   (table in `decTables`/`decEq`)
  | smryKey (key : String)                    -- smry.update_well_var(well, key, y)
  | toSIChain (ms : List String) (nar : Bool) -- [as_float] to_si(M::m1, to_si(M::m2, … y))
  | opaque (text : String)
  deriving DecidableEq, Repr, Inhabited

structure WEntry where
  fn : String
  arr : String
  slot : String
  idx : Int
  src : String
  pre : Pre
  /-- `pre` with copies resolved to the pre-map of the copied slot's preceding write. -/
  rpre : Pre
  guard : List (Nat × Int)
  cls : String
  deriving Repr, Inhabited

structure REntry where
  field : String
  arr : String
  slot : String
  idx : Int
  post : Post
  /-- enclosing conditions of the read (`+c` then-branch, `-c` else-branch, `case L`). -/
  ctx : List String
  /-- declared type of the C++ member that receives the value (`float` members narrow it). -/
  fty : String
  deriving Repr, Inhabited

def Pre.isOpaque : Pre → Bool
  | .opaque _ => true
  | _ => false

def Post.isOpaque : Post → Bool
  | .opaque _ => true
  | _ => false

/-- Strip the `cond` wrapper: the shape applied to the source when the condition selects it. -/
def Pre.core : Pre → Pre
  | .cond p _ _ => p.core
  | p => p

/-- Does the entry carry a value taken from a source object (as opposed to constants, copies,
opaque text)? -/
def Pre.carriesSource (p : Pre) : Bool :=
  match p.core with
  | .id | .plus1 | .castInt | .fromSI _ | .fromSIScaled _ _ | .sel _ _ | .enumEnc _ | .smry _ _ | .smryPI _ _
  | .fromSIChain _ | .fromSIUnitPow _ _ => true
  | _ => false

/-! ## Measures of the summary vectors the writer copies into XWEL / XCON

`SummaryState` holds values in *output* units; the unit of each vector is fixed by the ECLIPSE
summary-vector definition (the same association `Summary.cpp` uses).  Rates of surface volumes:
`liquid_surface_rate` / `gas_surface_rate`; reservoir-volume rates: `rate`; totals: the
corresponding volume measures; pressures; ratios. -/
def smryMeasure (key : String) : Option String :=
  let body := String.ofList (key.toList.drop 1)
  if body ∈ ["OPR", "WPR", "OIR", "WIR", "OPGR", "WPGR", "WIGR", "OIGR"] then some "liquid_surface_rate"
  else if body ∈ ["GPR", "GIR", "GPGR", "GIGR"] then some "gas_surface_rate"
  else if body ∈ ["VPR", "VIR", "WVIR", "GVIR", "OVIR", "VPGR"] then some "rate"
  else if body ∈ ["OPT", "WPT", "OIT", "WIT", "OPTS", "OPTH", "WPTH", "WITH"] then some "liquid_surface_volume"
  else if body ∈ ["GPT", "GIT", "GPTS", "GPTH", "GITH"] then some "gas_surface_volume"
  else if body ∈ ["VPT", "VIT"] then some "volume"
  else if body ∈ ["THP", "BHP", "PR"] then some "pressure"
  else if body = "WCT" then some "water_cut"
  else if body = "GOR" then some "gas_oil_ratio"
  else none

/-- What each reader field that is fed from a summary vector *means*: the vectors whose value it may
receive (hand-written specification; producer vector first, injector vectors after). -/
def fieldMeaning : List (String × List String) :=
  [("well.oil_rate", ["WOPR", "WOIR"]), ("well.water_rate", ["WWPR", "WWIR"]), ("well.gas_rate", ["WGPR", "WGIR"]),
   ("well.void_rate", ["WVPR", "WWVIR", "WGVIR", "WOVIR"]), ("well.thp", ["WTHP"]), ("well.flow_bhp", ["WBHP"]),
   ("well.wct", ["WWCT"]), ("well.gor", ["WGOR"]), ("well.oil_total", ["WOPT"]), ("well.water_total", ["WWPT"]),
   ("well.gas_total", ["WGPT"]), ("well.void_total", ["WVPT"]), ("well.water_inj_total", ["WWIT"]),
   ("well.gas_inj_total", ["WGIT"]), ("well.void_inj_total", ["WVIT"]), ("well.hist_oil_total", ["WOPTH"]),
   ("well.hist_wat_total", ["WWPTH"]), ("well.hist_gas_total", ["WGPTH"]), ("well.hist_water_inj_total", ["WWITH"]),
   ("well.hist_gas_inj_total", ["WGITH"]), ("well.water_void_rate", ["WWVIR"]), ("well.gas_void_rate", ["WGVIR"]),
   ("conn.oil_rate", ["COPR", "COIR"]), ("conn.water_rate", ["CWPR", "CWIR"]), ("conn.gas_rate", ["CGPR", "CGIR"]),
   ("conn.pressure", ["CPR"]), ("conn.resv_rate", ["CVPR", "CVIR"]),
   ("restoreConnRates:xc.rates.wat", ["CWPR", "CWIR"]), ("restoreConnRates:xc.rates.oil", ["COPR", "COIR"]),
   ("restoreConnRates:xc.rates.gas", ["CGPR", "CGIR"]), ("restoreConnResults:xc.pressure", ["CPR"]),
   ("restore_well:xw.rates.wat", ["WWPR", "WWIR"]), ("restore_well:xw.rates.oil", ["WOPR", "WOIR"]),
   ("restore_well:xw.rates.gas", ["WGPR", "WGIR"]), ("restore_well:xw.guide_rates.Water", ["WWPGR", "WWIGR"]),
   ("restore_well:xw.guide_rates.Oil", ["WOPGR"]), ("restore_well:xw.guide_rates.Gas", ["WGPGR", "WGIGR"]),
   ("restore_well:xw.guide_rates.ResV", ["WVPGR"]), ("restore_well:xw.bhp", ["WBHP"]), ("restore_well:xw.thp", ["WTHP"])]

/-- Summary vectors a writer shape copies. -/
def Pre.smryKeys : Pre → List String
  | .smry k _ => [k]
  | .smryPI a b => [a, b]
  | _ => []

/-- Classes of (writer shape, reader shape) pairs on one slot. -/
inductive Cls where
  | exact        -- decode (encode x) = x   (REAL arrays: up to the single-precision narrowing)
  | scaled       -- decode (encode x) = k * x  with the factor the writer applied (Diameter = 2·rw)
  | exactScale   -- nested / k-fold conversions of offset-free measures: decode (encode x) = x when every offset is 0
  | flag         -- Boolean stored as two distinct integers, reader keeps the integer
  | table        -- enum stored through an encoder, read through a decoder table (proved on the tables)
  | rawUnits     -- reader keeps the value in output units on purpose (converted later through UDA)
  | signedSmry   -- summary vector (output units) -> SI with the documented sign convention
  | smryKey      -- cumulative restored under the same summary key
  | mismatch     -- none of the above: a slot, measure or offset disagreement
  deriving DecidableEq, Repr

/-- Pairing relation for INTE arrays (IWEL, ICON); `pre` is already stripped of `cond`. -/
def classifyI (pre : Pre) (post : Post) : Cls :=
  match pre, post with
  | .plus1, .minus1 => .exact
  | .id, .id => .exact
  | .castInt, .id => .exact
  | .enumEnc _, .id => .exact
  | .sel a b, .eqInt v => if a = v ∧ b ≠ v then .exact else .mismatch
  | .castInt, .decode _ => .table
  | .sel _ _, .decode _ => .table
  | .id, .eqInt _ => .flag           -- Boolean source stored as 0/1 by implicit conversion
  | .sel a b, .id => if a ≠ b then .flag else .mismatch
  | _, _ => .mismatch

/-- Pairing relation for REAL / DOUB arrays (SWEL, SCON, XWEL, XCON). -/
def classifyR (pre : Pre) (post : Post) : Cls :=
  match pre, post with
  | .id, .id => .exact
  | .fromSI m, .toSI m' => if m = m' then .exact else .mismatch
  | .fromSI m, .narrowToSI m' => if m = m' then .exact else .mismatch
  | .fromSI m, .sentinelToSI m' => if m = m' then .exact else .mismatch
  | .fromSI m, .swelValueToSI m' => if m = m' then .exact else .mismatch
  | .fromSI m, .sentinelId => if m = "identity" then .exact else .mismatch
  | .id, .toSI m => if m = "identity" then .exact else .mismatch
  | .id, .sentinelId => .exact
  | .fromSIScaled m _, .narrowToSI m' => if m = m' then .scaled else .mismatch
  | .fromSIScaled m _, .toSI m' => if m = m' then .scaled else .mismatch
  | .sel _ _, .decode _ => .table
  | .fromSI _, .id => .rawUnits
  | .smry _ _, .id => .rawUnits
  | .smry k _, .toSI m => if smryMeasure k = some m then .signedSmry else .mismatch
  | .smry k _, .negToSI m => if smryMeasure k = some m then .signedSmry else .mismatch
  | .smryPI kp ki, .toSI m => if smryMeasure kp = some m ∧ smryMeasure ki = some m then .signedSmry else .mismatch
  | .smryPI kp ki, .negToSI m => if smryMeasure kp = some m ∧ smryMeasure ki = some m then .signedSmry else .mismatch
  | .smry k neg, .smryKey k' => if k = k' ∧ neg = false then .smryKey else .mismatch
  | .fromSIChain a, .toSIChain b _ => if a = b then .exactScale else .mismatch
  | .fromSIUnitPow m k, .toSIChain b _ => if b = List.replicate k m then .exactScale else .mismatch
  | .fromSIUnitPow m k, .toSI m' => if k = 1 ∧ m = m' then .exactScale else .mismatch
  | _, _ => .mismatch

/-- The pairing relation decided on the generated tables.  `ty` is the element type of the array. -/
def classify (ty : String) (pre : Pre) (post : Post) : Cls :=
  if ty = "int" then classifyI pre.core post else classifyR pre.core post

def arrTy (arr : String) : String :=
  if arr = "IWEL" ∨ arr = "ICON" then "int"
  else if arr = "SWEL" ∨ arr = "SCON" then "float"
  else if arr = "XWEL" ∨ arr = "XCON" then "double"
  else "str"

/-- Which kind of well a writer function serves (`XWell::dynamicContrib` dispatches on
`well.isProducer()` / the injector type). -/
def writerRole (fn : String) : String :=
  if fn = "assignProducer" then "prod"
  else if fn = "assignWaterInjector" then "winj"
  else if fn = "assignGasInjector" then "ginj"
  else if fn = "assignOilInjector" then "oinj"
  else if fn = "assignCommonInjector" then "inj"
  else "any"

/-- Which kind of well a read in LoadRestart.cpp serves, from its enclosing conditions. -/
def readerRole (ctx : List String) : String :=
  if ctx.contains "+well.isProducer()" then "prod"
  else if ctx.contains "-well.isProducer()" then
    (if ctx.contains "case Opm::InjectorType::WATER" then "winj"
     else if ctx.contains "case Opm::InjectorType::GAS" then "ginj"
     else if ctx.contains "case Opm::InjectorType::OIL" then "oinj" else "inj")
  else "any"

def roleCompat (w r : String) : Bool :=
  w = "any" ∨ r = "any" ∨ w = r ∨ (w = "inj" ∧ r ≠ "prod") ∨ (r = "inj" ∧ w ≠ "prod")

/-- Writer entries and reader entries that meet on one element of one array, both recognised, the
writer carrying a source value, and serving the same kind of well. -/
def pairs (ws : List WEntry) (rs : List REntry) : List (WEntry × REntry) :=
  rs.flatMap fun r =>
    if r.post.isOpaque ∨ r.idx < 0 then [] else
      (ws.filter fun w => w.arr = r.arr ∧ w.idx = r.idx ∧ ¬ w.rpre.isOpaque ∧ w.rpre.carriesSource
          ∧ roleCompat (writerRole w.fn) (readerRole r.ctx)).map fun w => (w, r)

/-! ## Executable semantics, generic in the number type -/

structure Ops (F : Type) where
  add : F → F → F
  sub : F → F → F
  mul : F → F → F
  neg : F → F
  ofInt : Int → F
  /-- double → float → double (`static_cast<float>` followed by the implicit widening on read). -/
  narrow : F → F
  /-- `! (std::abs(y) < 1.0e20f)` -/
  isSentinel : F → Bool

structure UnitSys (F : Type) where
  /-- `measure_table_from_si` -/
  ffrom : String → F
  /-- `measure_table_to_si` -/
  fto : String → F
  /-- `measure_table_to_si_offset` -/
  off : String → F

/-- `UnitSystem::from_si(m, x) = from[m] * (x - offset[m])`. -/
def fromSI {F : Type} (o : Ops F) (u : UnitSys F) (m : String) (x : F) : F :=
  o.mul (u.ffrom m) (o.sub x (u.off m))

/-- `UnitSystem::to_si(m, y) = to[m] * y + offset[m]`. -/
def toSI {F : Type} (o : Ops F) (u : UnitSys F) (m : String) (y : F) : F :=
  o.add (o.mul (u.fto m) y) (u.off m)

/-- Nested conversions `from_si(m1, from_si(m2, … x))` / `to_si(m1, to_si(m2, … y))`. -/
def fromSIChain {F : Type} (o : Ops F) (u : UnitSys F) : List String → F → F
  | [], x => x
  | m :: ms, x => fromSI o u m (fromSIChain o u ms x)

def toSIChain {F : Type} (o : Ops F) (u : UnitSys F) : List String → F → F
  | [], y => y
  | m :: ms, y => toSI o u m (toSIChain o u ms y)

/-- Integer arrays: value stored for source value `x` (Booleans as 0/1, enums as the encoder's value). -/
def encI : Pre → Int → Option Int
  | .id, x => some x
  | .plus1, x => some (x + 1)
  | .castInt, x => some x
  | .enumEnc _, x => some x
  | .sel a b, x => some (if x ≠ 0 then a else b)
  | .cond p _ _, x => encI p x
  | _, _ => none

def decI : Post → Int → Option Int
  | .id, y => some y
  | .minus1, y => some (y - 1)
  | .eqInt v, y => some (if y = v then 1 else 0)
  | _, _ => none

/-- REAL / DOUB arrays: the element stored for source value `x` (SI, or output units for summary
vectors).  `nar` is `o.narrow` for REAL arrays and the identity for DOUB arrays. -/
def encR {F : Type} (o : Ops F) (u : UnitSys F) (nar : F → F) : Pre → F → Option F
  | .id, x => some (nar x)
  | .fromSI m, x => some (nar (fromSI o u m x))
  | .fromSIScaled m k, x => some (nar (fromSI o u m (o.mul (o.ofInt k) x)))
  | .sel a b, x => some (nar (o.ofInt (if o.isSentinel x then a else b)))   -- not used for reals by the proofs
  | .smry _ neg, x => some (nar (if neg then o.neg x else x))
  | .cond p _ _, x => encR o u nar p x
  | .fromSIChain ms, x => some (nar (fromSIChain o u ms x))
  | .fromSIUnitPow m k, x => some (nar (o.mul (fromSIChain o u (List.replicate k m) (o.ofInt 1)) x))
  | _, _ => none

def decR {F : Type} (o : Ops F) (u : UnitSys F) : Post → F → Option F
  | .id, y => some y
  | .toSI m, y => some (toSI o u m y)
  | .negToSI m, y => some (o.neg (toSI o u m y))
  | .narrowToSI m, y => some (o.narrow (toSI o u m y))
  | .swelValueToSI m, y => some (toSI o u m (if o.isSentinel y then o.ofInt 0 else y))
  | .sentinelToSI m, y => some (if o.isSentinel y then y else toSI o u m y)
  | .sentinelId, y => some y
  | .toSIChain ms n, y => some (if n then o.narrow (toSIChain o u ms y) else toSIChain o u ms y)
  | _, _ => none

/-- The value the C++ member holds: `float` members narrow the decoded double. -/
def decField {F : Type} (o : Ops F) (u : UnitSys F) (fty : String) (post : Post) (y : F) : Option F :=
  (decR o u post y).map fun v => if fty = "float" then o.narrow v else v

end OpmVerif.RstSlot
