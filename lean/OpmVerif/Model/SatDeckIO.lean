/-
  Line-protocol front end of the deck-level saturation-function model at `Float`.

    satdeck.endpoints <fam> <tolcrit> <tables>
         tables  family 1: sw;krw;krow;pcow;sg;krg;krog;pcog     family 2: sw;krw;pcow;sg;krg;pcog;so;krow;krog
         answer  SWL,SGL,SWCR,SGCR,SOWCR,SOGCR,SWU,SGU,PCW,PCG,KRWR,KRGR,KRORW,KRORG,KRW,KRG,KRO  of the table
    satdeck.fieldprops <fam> <tolcrit> <mask17> <tables> <arrays17>
         answer  the same 17 quantities after the override by the arrays present in the deck
    satdeck.cell <fam> <tolcrit> <flags> <modParam> <maskD> <tablesD> <arraysD> <maskI> <tablesI> <arraysI>
         flags   endscale, threepoint, hysteresis (0/1 each), krHysteresisModel (digit 0..4, `-` = −1),
                 pcHysteresisModel (`0`, `-` = −1)
         modParam  `EHYSTR item 4 (trapping regularisation),EHYSTR item 1 (curvature of the Pc scanning curves)`
         answer  Swl  law(OW drainage) law(GO drainage) [law(OW imbibition) law(GO imbibition)]
                 law = cfg8|unscaled15|scaled15|swPc;pc;swKrw;krw;swKrn;krn
    satdeck.eval <…as cell…> <history sw:so:sg,…|-> <probes sw:so:sg,…>
         answer  for the initial state and after each history step:
                 for the oil-water and the gas-oil object krnSwMdc/deltaSwImbKrn/Sncrt/pcSwMdc/pcSwMic/initialImb/Swcrt,
                 then per probe krw:kro:krg:pcow:pcgo
-/
import OpmVerif.Model.SatDeck
import OpmVerif.Model.SatfuncIO
-- driver: prefix=satdeck handler=OpmVerif.SatDeck.handle

namespace OpmVerif.SatDeck
open OpmVerif.Tab1D OpmVerif.Eps OpmVerif.Hyst OpmVerif.Pvt

def showL (l : List Float) : String := if l.isEmpty then "-" else ",".intercalate (l.map showF)

def parseMask (s : String) : List Bool := s.toList.map fun c => c = '1'

def parseTables (fam : String) (s : String) : Tables Float :=
  let l := (s.splitOn ";").map parseList
  let g := fun (i : Nat) => l.getD i []
  if fam = "1" then
    .f1 { sw := g 0, krw := g 1, krow := g 2, pcow := g 3, sg := g 4, krg := g 5, krog := g 6, pcog := g 7 }
  else
    .f2 { sw := g 0, krw := g 1, pcow := g 2, sg := g 3, krg := g 4, pcog := g 5, so := g 6, krow := g 7, krog := g 8 }

def flag (s : String) (i : Nat) : Bool := s.toList.getD i '0' = '1'

def parseSpec (fam tol flags modp maskD tabD arrD maskI tabI arrI : String) : CellSpec Float :=
  let hyst := flag flags 2
  { tol := parseF tol, endscale := flag flags 0, threepoint := flag flags 1, hyst := hyst,
    krModel := (let ch := flags.toList.getD 3 '0'; if ch = '-' then -1 else Int.ofNat (ch.toNat - '0'.toNat)),
    pcModel := (if flags.toList.getD 4 '-' = '0' then 0 else -1),
    modParam := (parseList modp).getD 0 0, curvature := (parseList modp).getD 1 0, lits := Satfunc.floatLits,
    maskD := parseMask maskD, tabD := parseTables fam tabD, arrD := parseList arrD,
    maskI := if hyst then parseMask maskI else [],
    tabI := if hyst then parseTables fam tabI else parseTables fam tabD,
    arrI := if hyst then parseList arrI else [] }

def showCfg (c : Config) : String :=
  String.ofList ([c.satScaling, c.threePointKrSat, c.krwScaling, c.threePointKrw, c.krnScaling, c.threePointKrn,
    c.pcScaling, c.leverett].map fun b => if b then '1' else '0')

def showPoints (p : Points Float) : String :=
  showL [p.satPc.p0, p.satPc.p1, p.satPc.p2, p.satKrw.p0, p.satKrw.p1, p.satKrw.p2, p.satKrn.p0, p.satKrn.p1, p.satKrn.p2,
         p.maxPcnw, p.leverett, p.krwr, p.maxKrw, p.krnr, p.maxKrn]

def showLaw (l : EpsLaw Float) : String :=
  showCfg l.cfg ++ "|" ++ showPoints l.u ++ "|" ++ showPoints l.s ++ "|" ++
    ";".intercalate [showL l.tab.swPc, showL l.tab.pc, showL l.tab.swKrw, showL l.tab.krw, showL l.tab.swKrn, showL l.tab.krn]

def parseSats (s : String) : List (Sat Float) :=
  if s = "-" then [] else
  (s.splitOn ",").map fun t =>
    match (t.splitOn ":").map parseF with
    | [a, b, c] => { sw := a, so := b, sg := c }
    | _ => { sw := 0, so := 0, sg := 0 }

def floatConsts : Consts Float := { eps := Float.ofBits 0x3EE4F8B588E368F1 /- 1e-5 -/, two := 2.0 }

def showH (st : HState Float) : List String :=
  [showF st.krnMdc, showF st.delta, showF st.Sncrt, showF st.pcMdc, showF st.pcMic, if st.initialImb then "1" else "0", showF st.Swcrt]

def showStep (c : Cell Float) (st : CellState Float) (probes : List (Sat Float)) : String :=
  let head := if ¬ c.ow.enabled then ["-"] else showH st.ow ++ showH st.go
  "/".intercalate (head ++ probes.map fun p =>
    let v := evalCell floatConsts c st p
    ":".intercalate [showF v.krw, showF v.kro, showF v.krg, showF v.pcow, showF v.pcgo])

def evalSteps (c : Cell Float) (probes : List (Sat Float)) : CellState Float → List (Sat Float) → List String
  | _, [] => []
  | st, s :: rest =>
    let st' := updateCell c st s
    showStep c st' probes :: evalSteps c probes st' rest

def handle (op : String) (args : List String) : String :=
  match op, args with
  | "satdeck.endpoints", [fam, tol, tabs] =>
    showL (unscaledInfo (parseTables fam tabs) (parseF tol)).toList
  | "satdeck.fieldprops", [fam, tol, mask, tabs, arr] =>
    showL (scaledInfo (unscaledInfo (parseTables fam tabs) (parseF tol)) (parseMask mask) (parseList arr)).toList
  | "satdeck.cell", [fam, tol, flags, modp, maskD, tabD, arrD, maskI, tabI, arrI] =>
    let c := buildCell (parseSpec fam tol flags modp maskD tabD arrD maskI tabI arrI)
    " ".intercalate ([showF c.swl, showLaw c.ow.d, showLaw c.go.d] ++ (if c.ow.enabled then [showLaw c.ow.i, showLaw c.go.i] else []))
  | "satdeck.eval", [fam, tol, flags, modp, maskD, tabD, arrD, maskI, tabI, arrI, hist, probes] =>
    let c := buildCell (parseSpec fam tol flags modp maskD tabD arrD maskI tabI arrI)
    let st := initState c
    let ps := parseSats probes
    " ".intercalate (showStep c st ps :: evalSteps c ps st (parseSats hist))
  | _, _ => "bad-op"

end OpmVerif.SatDeck
