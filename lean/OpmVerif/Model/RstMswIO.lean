/-
  Multi-segment-well part of the restart slot model (C05, second round) and its line-protocol front end.

    rstmsw.dec <ARR> U <k> (<measure> <from> <to> <off>)^k W <n> <elem>^n F <m> <field>^m  -> <decoded> ...
  decodes one ISEG / RSEG window with the generated reader table (Gen/RstMsw.lean ← rst/segment.cpp); ISEG elements
  are decimal integers, RSEG elements doubles (16 hex digits).
-/
import OpmVerif.Model.RstSlotsIO
import OpmVerif.Gen.RstMsw
-- driver: prefix=rstmsw handler=OpmVerif.RstMsw.handle

namespace OpmVerif.RstMsw
open OpmVerif.RstSlot OpmVerif.Gen.RstMsw

def sarrTy (arr : String) : String := if arr = "ISEG" then "int" else "double"

/-- Writer / reader pairs on one item of ISEG / RSEG, both recognised, the writer carrying a source. -/
def spairs (ws : List WEntry) (rs : List REntry) : List (WEntry × REntry) :=
  rs.flatMap fun r =>
    if r.post.isOpaque ∨ r.idx < 0 then [] else
      (ws.filter fun w => w.arr = r.arr ∧ w.idx = r.idx ∧ ¬ w.rpre.isOpaque ∧ w.rpre.carriesSource).map fun w => (w, r)

def spairCls (p : WEntry × REntry) : Cls := classify (sarrTy p.2.arr) p.1.rpre p.2.post

def sdecodeOne (u : UnitSys Float) (arr : String) (win : List String) (field : String) : String :=
  match sreader.find? (fun r => r.field = field ∧ r.arr = arr) with
  | none => "nofield"
  | some r =>
    if r.idx < 0 then "computed" else
    match win[r.idx.toNat]? with
    | none => "oob"
    | some el =>
      if sarrTy arr = "int" then
        match el.toInt? with
        | none => "badelem"
        | some y => match decI r.post y with
          | some v => toString v
          | none => "unsupported"
      else
        match f64OfHex el with
        | none => "badelem"
        | some y => match decField floatOps u r.fty r.post y with
          | some v => hexF64 v
          | none => "unsupported"

def handle (op : String) (args : List String) : String :=
  match op, args with
  | "rstmsw.dec", arr :: rest =>
    match parseU rest with
    | some (ut, "W" :: k :: more) =>
      let win := more.take k.toNat!
      match more.drop k.toNat! with
      | "F" :: _ :: fields => " ".intercalate (fields.map (sdecodeOne ut.sys arr win))
      | _ => "bad-op"
    | _ => "bad-op"
  | _, _ => "bad-op"

end OpmVerif.RstMsw
