/-
  Line-protocol front end of the summary data-file model.
    smry.elembin <p> <data-hex>   -> hex of the 4 bytes at elementPosBin p of an unformatted PARAMS data part
    smry.elemfmt <p> <text-hex>   -> hex of the 17 characters at elementPosFmt p of a formatted PARAMS data part
    smry.combine <n1> <n2>        -> "<combined> <split.1> <split.2>"
-/
import OpmVerif.Model.Smry
-- driver: prefix=smry handler=OpmVerif.Smry.handle

namespace OpmVerif.Smry
open OpmVerif.Ecl

def handle (op : String) (args : List String) : String :=
  match op, args with
  | "smry.elembin", [p, hex] =>
    match ofHex hex with
    | some bs => toHex ((bs.drop (elementPosBin p.toNat!)).take Gen.EclIO.sizeOfReal)
    | none => "bad-op"
  | "smry.elemfmt", [p, hex] =>
    match ofHex hex with
    | some bs => toHex ((bs.drop (elementPosFmt p.toNat!)).take Gen.EclIO.columnWidthReal)
    | none => "bad-op"
  | "smry.combine", [a, b] =>
    match a.toInt?, b.toInt? with
    | some n1, some n2 =>
      let c := combineSummaryNumbers n1 n2
      let s := splitSummaryNumber c
      toString c ++ " " ++ toString s.1 ++ " " ++ toString s.2
    | _, _ => "bad-op"
  | _, _ => "bad-op"

end OpmVerif.Smry
