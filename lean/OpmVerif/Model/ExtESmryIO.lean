/-
  Line-protocol front end of the ESMRY position model.
    extesmry.vpos <rstepOff> <num_tstep> <k>  -> file position of the header of V<k>
-/
import OpmVerif.Model.ExtESmry
-- driver: prefix=extesmry handler=OpmVerif.ExtESmry.handle

namespace OpmVerif.ExtESmry

def handle (op : String) (args : List String) : String :=
  match op, args with
  | "extesmry.vpos", [off, n, k] => toString (vecPos off.toNat! n.toNat! k.toNat!)
  | _, _ => "bad-op"

end OpmVerif.ExtESmry
