/-
  Line-protocol front end of the segment-window model (Model/RstSegWin.lean, Gen/RstSegWin.lean).
-/
import OpmVerif.Model.RstSegWin
import OpmVerif.Gen.RstSegWin
-- driver: prefix=rstsegwin handler=OpmVerif.RstSegWin.handle

namespace OpmVerif.RstSegWin
open OpmVerif.Gen.RstSegWin

/-- all bases of one array must give the same position; otherwise the answer is `ambiguous` -/
def writerPosAll (entries : IExpr) (bases : List IExpr) (elems : Int) (s : Seg) : String :=
  match bases.map (fun b => writerPos entries b elems s) with
  | [] => "nobase"
  | p :: t => if t.all (· = p) then toString p else "ambiguous"

def handle (op : String) (args : List String) : String :=
  match op, args.map String.toInt? with
  | "rstsegwin.win", [some nsegmx, some nisegz, some nrsegz, some msw, some idx, some segno] =>
    let s : Seg := ⟨nsegmx, nisegz, nrsegz, msw, idx, segno⟩
    let is := segno - 1
    " ".intercalate [writerPosAll writerIsegEntriesPerMSW writerIsegBases nisegz s,
                     writerPosAll writerRsegEntriesPerMSW writerRsegBases nrsegz s,
                     toString (loaderRsegOff.eval (loaderEnv s)),
                     toString (rstIsegOff.eval (rstEnv s is)),
                     toString (rstRsegOff.eval (rstEnv s is))]
  | _, _ => "bad-op"

end OpmVerif.RstSegWin
