/-
  C06 — Peaceman connection factors: model of the numeric core of
  `WellConnections::loadCOMPDAT` (opm/input/eclipse/Schedule/Well/WellConnections.cpp)
  and `RstConnection::inverse_peaceman` (opm/io/eclipse/rst/connection.cpp).

  Written once over an arbitrary scalar type `α` with the arithmetic operators taken from
  the usual classes and the constants / transcendental functions passed in a record `Fns α`:
  the compiled driver instantiates it with `Float` (`Model/PeacemanIO.lean`, libm
  underneath, same operation order as the C++), `Proofs/Peaceman.lean` instantiates it with
  `ℝ`.  Core Lean only.

  Every definition names the C++ it mirrors; expression trees keep the C++ association
  (`angle * Kh / denom` is `(angle * Kh) / denom`) so that the `Float` run rounds alike.
-/
namespace OpmVerif.Peaceman

/-- Constants and library functions of the code (`std::sqrt/log/exp/pow`, literals). -/
structure Fns (α : Type) where
  sqrt : α → α
  log : α → α
  exp : α → α
  pow : α → α → α
  /-- `std::abs` (used by `findClosestConnection`) -/
  abs : α → α
  /-- `0.0` -/
  zero : α
  /-- `-1.0`, the "not given" marker of `loadCOMPDAT` -/
  negOne : α
  /-- `2` (diameter → radius, `re`) -/
  two : α
  /-- `0.25`, exponent in `effectiveRadius` -/
  quarter : α
  /-- `0.28`, Peaceman's constant -/
  c028 : α
  /-- `angle = 6.28318530717958647692…` (both in `loadCOMPDAT` and `inverse_peaceman`) -/
  twoPi : α
  /-- `0.5 * unit::feet`, the default well-bore radius -/
  halfFoot : α

/-- `Connection::Direction`. -/
inductive Dir | X | Y | Z
  deriving DecidableEq, Repr, Inhabited

/-- `std::array<double,3>`. -/
structure V3 (α : Type) where
  a0 : α
  a1 : α
  a2 : α
  deriving Repr, Inhabited

/-- Array subscript (indices are always 0, 1 or 2 here). -/
def V3.get {α : Type} (v : V3 α) : Nat → α
  | 0 => v.a0
  | 1 => v.a1
  | _ => v.a2

/-- `directionIndices`: first two are the directions perpendicular to the completion, the
last one the direction along it. -/
def directionIndices : Dir → Nat × Nat × Nat
  | .X => (1, 2, 0)
  | .Y => (2, 0, 1)
  | .Z => (0, 1, 2)

/-- The permutation step shared by `permComponents` and `effectiveExtent`. -/
def permute {α : Type} (d : Dir) (v : V3 α) : V3 α :=
  let p := directionIndices d
  ⟨v.get p.1, v.get p.2.1, v.get p.2.2⟩

/-- `permComponents(direction, perm)`. -/
def permComponents {α : Type} (d : Dir) (perm : V3 α) : V3 α := permute d perm

/-- `effectiveExtent(direction, ntg, extent)`: `extent[2] *= ntg` first, then permute. -/
def effectiveExtent {α : Type} [Mul α] (d : Dir) (ntg : α) (extent : V3 α) : V3 α :=
  permute d ⟨extent.a0, extent.a1, extent.a2 * ntg⟩

/-- `effectiveRadius(K, D)`. -/
def effectiveRadius {α : Type} [Add α] [Mul α] [Div α] (F : Fns α) (K D : V3 α) : α :=
  let K01 := K.a0 / K.a1
  let K10 := K.a1 / K.a0
  let D0sq := D.a0 * D.a0
  let D1sq := D.a1 * D.a1
  let num := F.sqrt (F.sqrt K10 * D0sq + F.sqrt K01 * D1sq)
  let den := F.pow K01 F.quarter + F.pow K10 F.quarter
  F.c028 * (num / den)

/-- `std::min(a, b)` is `(b < a) ? b : a`. -/
def stdMin {α : Type} [LT α] [DecidableLT α] (a b : α) : α := if b < a then b else a

/-- `peacemanDenominator(r0, rw, skin) = log(r0 / min(rw, r0)) + skin`. -/
def peacemanDenominator {α : Type} [Add α] [Div α] [LT α] [DecidableLT α]
    (F : Fns α) (r0 rw skin : α) : α :=
  F.log (r0 / stdMin rw r0) + skin

/-- `RstConnection::inverse_peaceman(cf, kh, rw, skin)`. -/
def inversePeaceman {α : Type} [Sub α] [Mul α] [Div α] (F : Fns α) (cf kh rw skin : α) : α :=
  rw * F.exp (F.twoPi * kh / cf - skin)

/-- What the COMPDAT record contributes (SI values, as `getSIDouble` returns them). -/
structure Input (α : Type) where
  dir : Dir
  /-- item 8, `none` when the item has no value (defaulted) -/
  cf : Option α
  /-- item 10 in SI; the keyword default is −1 so the item always has a value -/
  kh : α
  /-- `KhItem.defaultApplied(0) || KhItem.get<double>(0) < 0` (tested on the raw deck value) -/
  khDefaulted : Bool
  /-- item 9 (diameter), `none` when defaulted -/
  diam : Option α
  /-- item 14 (pressure equivalent radius), `none` when defaulted -/
  r0 : Option α
  /-- item 11 -/
  skin : α
  deriving Inhabited

/-- What the cell contributes (`CompletedCells::Cell`). -/
structure Cell (α : Type) where
  /-- `cell.dimensions` = (DX, DY, DZ) -/
  dims : V3 α
  /-- (PERMX, PERMY, PERMZ) -/
  perm : V3 α
  ntg : α
  deriving Inhabited

/-- The numeric members of `Connection::CTFProperties` this property is about. -/
structure CTF (α : Type) where
  CF : α
  Kh : α
  Ke : α
  rw : α
  r0 : α
  re : α
  connLen : α
  skin : α
  denom : α
  deriving Repr, Inhabited, DecidableEq

/-- Which of the source's cases was taken (for distribution statistics and case splits). -/
inductive Branch
  | both        -- CF > 0 and Kh > 0 given ("happy path")
  | khGiven     -- Kh > 0 given, CF computed
  | cfGivenKhDefault   -- CF > 0 given, Kh defaulted / negative: Kh derived from CF
  | cfGivenKhZero      -- CF > 0 given, Kh = 0 entered: Kh from the cell, r0 back-computed
  | neither     -- both computed
  deriving DecidableEq, Repr

section
variable {α : Type} [Add α] [Sub α] [Mul α] [Div α] [LT α] [DecidableLT α]

/-- `rw` from the diameter item. -/
def wellRadius (F : Fns α) (inp : Input α) : α :=
  match inp.diam with
  | some d => d / F.two
  | none => F.halfFoot

/-- `ctf_props.r0` right after reading the item. -/
def r0Initial (F : Fns α) (inp : Input α) : α :=
  match inp.r0 with
  | some v => v
  | none => F.negOne

/-- `ctf_props.Kh` right after reading the item (`> 0` counts as given). -/
def khInitial (F : Fns α) (inp : Input α) : α :=
  if F.zero < inp.kh then inp.kh else F.negOne

/-- `ctf_props.CF` right after reading the item. -/
def cfInitial (F : Fns α) (inp : Input α) : α :=
  match inp.cf with
  | some v => if F.zero < v then v else F.negOne
  | none => F.negOne

def branchOf (F : Fns α) (inp : Input α) : Branch :=
  if F.zero < cfInitial F inp ∧ F.zero < khInitial F inp then .both
  else if F.zero < khInitial F inp then .khGiven
  else if F.zero < cfInitial F inp then
    (if inp.khDefaulted then .cfGivenKhDefault else .cfGivenKhZero)
  else .neither

/-- The tail of the loop body after label `CF_done`. -/
def finish (F : Fns α) (D : V3 α) (Ke rw skin CF Kh r0 denom : α) : CTF α :=
  let r0' := if r0 < F.zero then inversePeaceman F CF Kh rw skin else r0
  { CF := CF, Kh := Kh, Ke := Ke, rw := rw, r0 := r0',
    re := F.sqrt (D.a0 * D.a1 / F.twoPi * F.two),
    connLen := Kh / Ke, skin := skin, denom := denom }

/-- `D = effectiveExtent(direction, props->ntg, cell.dimensions)`. -/
def cellD (inp : Input α) (cell : Cell α) : V3 α := effectiveExtent inp.dir cell.ntg cell.dims

/-- `K = permComponents(direction, {permx, permy, permz})`. -/
def cellK (inp : Input α) (cell : Cell α) : V3 α := permComponents inp.dir cell.perm

/-- `ctf_props.Ke = sqrt(K[0] * K[1])`. -/
def cellKe (F : Fns α) (inp : Input α) (cell : Cell α) : α :=
  F.sqrt ((cellK inp cell).a0 * (cellK inp cell).a1)

/-- `if (ctf_props.r0 < 0.0) ctf_props.r0 = effectiveRadius(K, D);` -/
def r0Used (F : Fns α) (inp : Input α) (cell : Cell α) : α :=
  if r0Initial F inp < F.zero then effectiveRadius F (cellK inp cell) (cellD inp cell)
  else r0Initial F inp

/-- `peaceman_denom = peacemanDenominator(ctf_props)` at that point. -/
def pdOf (F : Fns α) (inp : Input α) (cell : Cell α) : α :=
  peacemanDenominator F (r0Used F inp cell) (wellRadius F inp) inp.skin

/-- `ctf_props.Kh = ctf_props.Ke * D[2]`. -/
def khCell (F : Fns α) (inp : Input α) (cell : Cell α) : α :=
  cellKe F inp cell * (cellD inp cell).a2

/-- `finish` with the arguments that are the same in every branch. -/
def fin (F : Fns α) (inp : Input α) (cell : Cell α) (CF Kh r0 denom : α) : CTF α :=
  finish F (cellD inp cell) (cellKe F inp cell) (wellRadius F inp) inp.skin CF Kh r0 denom

/-- The body of the `for (k = K1..K2)` loop of `loadCOMPDAT` for one active cell: the
stored `CTFProperties`. -/
def ctfOf (F : Fns α) (inp : Input α) (cell : Cell α) : CTF α :=
  let Kh0 := khInitial F inp
  let CF0 := cfInitial F inp
  if F.zero < CF0 ∧ F.zero < Kh0 then
    -- both given: `peaceman_denom = angle * Kh / CF; goto CF_done;`
    fin F inp cell CF0 Kh0 (r0Initial F inp) (F.twoPi * Kh0 / CF0)
  else if F.zero < Kh0 then
    -- CF < 0: `CF = angle * Kh / peaceman_denom`
    fin F inp cell (F.twoPi * Kh0 / pdOf F inp cell) Kh0 (r0Used F inp cell) (pdOf F inp cell)
  else if F.zero < CF0 then
    if inp.khDefaulted then
      -- Kh defaulted: `Kh = CF * peaceman_denom / angle`
      fin F inp cell CF0 (CF0 * pdOf F inp cell / F.twoPi) (r0Used F inp cell)
        (F.twoPi * (CF0 * pdOf F inp cell / F.twoPi) / CF0)
    else
      -- Kh = 0 entered: Kh from the cell, `r0 = -1` so that it is back-computed
      fin F inp cell CF0 (khCell F inp cell) F.negOne (F.twoPi * khCell F inp cell / CF0)
  else
    -- neither given
    fin F inp cell (F.twoPi * khCell F inp cell / pdOf F inp cell) (khCell F inp cell)
      (r0Used F inp cell) (pdOf F inp cell)

/-- `Connection::setSkinFactor(skin_factor)` (CSKIN): the stored denominator is shifted by the
change of skin and CF rescaled by the ratio of the denominators. -/
def setSkinFactor (c : CTF α) (skin : α) : CTF α :=
  let pd := c.denom - c.skin + skin
  { c with skin := skin, CF := c.CF * (c.denom / pd), denom := pd }

/-- `ctf_kind`: `Defaulted` when CF was not given (`true` = DeckValue). -/
def ctfFromDeck (F : Fns α) (inp : Input α) : Bool :=
  if cfInitial F inp < F.zero then false else true

end

end OpmVerif.Peaceman
