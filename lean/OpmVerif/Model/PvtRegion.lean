/-
  Which deck table is in effect in which PVT region.

  * `PvtxTable::recordRanges` + `PvtxTable::init` (opm/input/eclipse/EclipseState/Tables/PvtxTable.cpp):
    a PVTO/PVTG (also PVTGW/PVTGWO/PVTSOL/RWGSALT) keyword is a flat list of records; a record
    whose first item has no value is the terminator of a region's table (the parser drops the
    terminator of the last table).  `recordRanges` cuts the record list into half-open index
    ranges, one per region; a region whose range is empty (a lone `/`) is *defaulted* and `init`
    walks backwards — `while ((tableIdx > 0) && isempty(tableIdx)) --tableIdx;` — to the last
    non-empty range at or before it.  Region 1 must not be defaulted.
  * `TableManager::initSimpleTableContainer` (TableManager.cpp; PVDO, PVDG, …): one record per
    region; an empty record takes the record at `lastComplete`, the index of the last non-empty
    record seen so far.  The index is carried here as the record it points to (`simpleGo`).

  Core Lean only.  `β` is whatever a record carries (the front end uses the record's key).
-/
namespace OpmVerif.PvtRegion

variable {β : Type}

/-- The loop of `recordRanges`: `s` = `startRecord`, `i` = `recordIndex`; `none` is a record
whose item 0 has no value.  The range still open at the end of the keyword is pushed last. -/
def rangesFrom : List (Option β) → Nat → Nat → List (Nat × Nat)
  | [], s, i => [(s, i)]
  | none :: r, s, i => (s, i) :: rangesFrom r (i + 1) (i + 1)
  | some _ :: r, s, i => rangesFrom r s (i + 1)

/-- `PvtxTable::recordRanges(keyword)`. -/
def recordRanges (recs : List (Option β)) : List (Nat × Nat) := rangesFrom recs 0 0

/-- `while ((tableIdx > size_t{0}) && isempty(tableIdx)) { --tableIdx; }` -/
def searchBack (empty : Nat → Bool) : Nat → Nat
  | 0 => 0
  | k + 1 => if empty (k + 1) then searchBack empty k else k + 1

inductive Err
  | noSuchTable          -- "Asked for table: … which only has … tables"
  | cannotDefaultFirst   -- "Cannot default region 1's table data"
  deriving DecidableEq, Repr

/-- The records `keyword.getRecord(rowIdx)`, `rowIdx ∈ [first, second)`. -/
def slice (recs : List (Option β)) (r : Nat × Nat) : List β :=
  ((recs.drop r.1).take (r.2 - r.1)).filterMap id

/-- `isempty(ix)`: `begin == end` of `ranges[ix]`. -/
def rangeEmpty (ranges : List (Nat × Nat)) (ix : Nat) : Bool :=
  (ranges.getD ix (0, 0)).1 == (ranges.getD ix (0, 0)).2

/-- `PvtxTable::init(keyword, tableIdx0)`: the records the region's table is built from. -/
def init (recs : List (Option β)) (tableIdx0 : Nat) : Except Err (List β) :=
  if (recordRanges recs).length ≤ tableIdx0 then .error .noSuchTable
  else if tableIdx0 = 0 ∧ rangeEmpty (recordRanges recs) 0 = true then .error .cannotDefaultFirst
  else .ok (slice recs ((recordRanges recs).getD
    (searchBack (rangeEmpty (recordRanges recs)) tableIdx0) (0, 0)))

/-- `TableManager::initFullTables`: `numTables(keyword)` tables, built in order; the first
exception aborts the whole construction. -/
def initAllFrom (recs : List (Option β)) : List Nat → Except Err (List (List β))
  | [] => .ok []
  | k :: ks =>
    match init recs k with
    | .error e => .error e
    | .ok t =>
      match initAllFrom recs ks with
      | .error e => .error e
      | .ok ts => .ok (t :: ts)

def initAll (recs : List (Option β)) : Except Err (List (List β)) :=
  initAllFrom recs (List.range (recordRanges recs).length)

/-! ### Specification level: a keyword as the list of its regions' tables -/

/-- The record list of a keyword whose first region has table `t` and whose further regions
have the tables `us` (an empty list = a defaulted region): tables separated by terminators. -/
def encode (t : List β) : List (List β) → List (Option β)
  | [] => t.map some
  | u :: us => t.map some ++ none :: encode u us

/-- Index-free reading of `recordRanges`: cut at the terminators. -/
def splitFrom : List (Option β) → List β → List (List β)
  | [], cur => [cur]
  | none :: r, cur => cur :: splitFrom r []
  | some x :: r, cur => splitFrom r (cur ++ [x])

/-- Region → source table for a list of region tables: `none` when region 1 is defaulted,
otherwise region `k` gets the table found by the backward search from `k`. -/
def resolve (ts : List (List β)) : Option (List (List β)) :=
  if (ts.getD 0 []).isEmpty ∧ 0 < ts.length then none
  else some ((List.range ts.length).map fun k =>
    ts.getD (searchBack (fun j => (ts.getD j []).isEmpty) k) [])

/-! ### Simple table containers (PVDO, PVDG, …) -/

/-- The loop body of `initSimpleTableContainer` after the first record: `last` is the record
at `lastComplete`. -/
def simpleGo : List β → List (List β) → List (List β)
  | _, [] => []
  | last, t :: r => if t.isEmpty then last :: simpleGo last r else t :: simpleGo t r

/-- `TableManager::initSimpleTableContainer`: `none` = "Cannot default region 1's table data". -/
def simpleResolve : List (List β) → Option (List (List β))
  | [] => some []
  | t :: r => if t.isEmpty then none else some (t :: simpleGo t r)

end OpmVerif.PvtRegion
