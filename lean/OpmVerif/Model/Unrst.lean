/-
  Model of writing report steps into a *unified restart file*
  (opm/io/eclipse/OutputStream.cpp `Restart::Restart/openUnified/openExisting`,
   opm/io/eclipse/ERst.cpp `initUnified/restartStepWritePosition`,
   opm/io/eclipse/EclFile.cpp `seekPosition`), on top of the unformatted codec model.

  A file is its byte string; `none` = the file does not exist yet.
-/
import OpmVerif.Model.EclBin
import OpmVerif.Gen.EclFile

namespace OpmVerif.Unrst
open OpmVerif.Ecl

/-- `"SEQNUM  "` -/
def seqnumName : Bytes := [83, 69, 81, 78, 85, 77, 32, 32]

/-- The SEQNUM array that `Restart::Restart` writes first for report step `n`. -/
def seqnumArr (n : Nat) : Arr := { name := seqnumName, ty := .inte, elems := [be32 n] }

/-- Header size that `EclFile::seekPosition` subtracts (unformatted). -/
def headerSize : Nat := Gen.EclFile.headerSizeBinary

/-- `EclFile::seekPosition(arrIndex)` from the data position of the entry. -/
def seekPosition (dataPos : Nat) : Nat := if dataPos ≤ headerSize then 0 else dataPos - headerSize

/-- `ERst::initUnified`: every array called SEQNUM starts a report step; its first
element is the step number.  Returns (step number, write position of the step) in
file order.  A SEQNUM array without elements makes the C++ read `seqn[0]` out of
bounds — modelled as an error. -/
def stepsOf (file : Bytes) : List Entry → Except Err (List (Int × Nat))
  | [] => .ok []
  | e :: es =>
    if e.hdr.name = seqnumName then
      match loadEntry file e with
      | .error err => .error err
      | .ok a =>
        match a.ty, a.elems with
        | .inte, v :: _ =>
          match stepsOf file es with
          | .error err => .error err
          | .ok rest => .ok ((toI32 (rd32 v), seekPosition e.pos) :: rest)
        | _, _ => .error .badType
    else stepsOf file es

/-- `std::map<int, …>` semantics of `arrIndexRange[seqnum[i]] = range` followed by
`lower_bound(n)`: the entry with the smallest key ≥ n; for equal keys the last
insertion wins. -/
def lowerBound (n : Int) : List (Int × Nat) → Option (Int × Nat)
  | [] => none
  | (k, p) :: rest =>
    match lowerBound n rest with
    | none => if k ≥ n then some (k, p) else none
    | some (k', p') => if k ≥ n ∧ k < k' then some (k, p) else some (k', p')

inductive WriteErr where
  | notRestart      -- existing file has no SEQNUM
  | unreadable (e : Err)
  deriving DecidableEq, Repr

/-- One `Restart(rset, n, fmt, unified=true)` + `write` of the step's arrays. -/
def writeStep (file : Option Bytes) (n : Nat) (arrays : List Arr) : Except WriteErr Bytes :=
  let payload := encodeFile (seqnumArr n :: arrays)
  match file with
  | none => .ok payload
  | some f =>
    match indexFile f (f.length + 1) 0 with
    | .error e => .error (.unreadable e)
    | .ok idx =>
      if ¬ idx.any (fun e => e.hdr.name = seqnumName) then .error .notRestart else
      match stepsOf f idx with
      | .error e => .error (.unreadable e)
      | .ok steps =>
        match lowerBound (n : Int) steps with
        | none => .ok (f ++ payload)                       -- plain append
        | some (_, pos) => .ok (f.take pos ++ payload)     -- resize_file(pos) + append

/-- Run a whole history of report-step writes on a file that does not exist at first. -/
def runHistory : Option Bytes → List (Nat × List Arr) → Except WriteErr (Option Bytes)
  | f, [] => .ok f
  | f, (n, as) :: h =>
    match writeStep f n as with
    | .error e => .error e
    | .ok f' => runHistory (some f') h

/-! ### Abstract specification: the list of surviving report steps -/

abbrev Steps := List (Nat × List Arr)

/-- Writing step `n` discards every stored step ≥ n and appends the new one. -/
def specStep (st : Steps) (n : Nat) (as : List Arr) : Steps :=
  st.filter (fun s => s.1 < n) ++ [(n, as)]

def specRun : Steps → List (Nat × List Arr) → Steps
  | st, [] => st
  | st, (n, as) :: h => specRun (specStep st n as) h

/-- The file obtained by writing the given steps, in order, into a fresh file. -/
def fresh (st : Steps) : Bytes :=
  st.flatMap (fun s => encodeFile (seqnumArr s.1 :: s.2))

/-! ### Formatted header line (`writeFormattedHeader`), for the formatted rewind arithmetic -/

/-- Decimal digits of `n`, most significant first. -/
def decDigits : Nat → Nat → List Char
  | 0, _ => []
  | fuel + 1, n => if n < 10 then [Char.ofNat (48 + n)] else decDigits fuel (n / 10) ++ [Char.ofNat (48 + n % 10)]

/-- `std::setw(w) << n` for a non-negative n: right-aligned in at least `w` columns. -/
def setw (w : Nat) (s : List Char) : List Char := List.replicate (w - s.length) ' ' ++ s

/-- `ofileH << " '" << name << "' " << std::setw(11) << size << " 'TYPE'" << std::endl`. -/
def fmtHeader (name : List Char) (n : Nat) (tag : List Char) : List Char :=
  [' ', '\''] ++ name ++ ['\'', ' '] ++ setw 11 (decDigits 12 n) ++ [' ', '\''] ++ tag ++ ['\'', '\n']

end OpmVerif.Unrst
