/-
  Model of opm/material/common/UniformXTabulated2DFunction.hpp: a function of (x, y) sampled
  on vertical lines x = xPos[i], each line with its own y sample positions; bilinear blend
  with a "shift" that slides the two columns' evaluation points along a guide curve.
  Core Lean only; generic scalar as in `Tab1D`.
-/
import OpmVerif.Model.Tab1D

namespace OpmVerif.Tab2D
open OpmVerif.Tab1D

/-- `InterpolationPolicy`. -/
inductive Guide
  | leftExtreme | rightExtreme | vertical
  deriving DecidableEq, Repr

/-- The table: `xPos_`, `yPos_` (the guide points) and per column the y positions and the
values of the sample points (the x entry of the `SamplePoint` tuple is `xPos_[i]`, redundant). -/
structure Table (α : Type) where
  xPos : List α
  yPos : List α
  colY : List (List α)
  colV : List (List α)
  guide : Guide

section
variable {α : Type} [Add α] [Sub α] [Mul α] [Div α] [LT α] [LE α]
  [DecidableLT α] [DecidableLE α] [OfNat α 0] [OfNat α 1]

def col (cs : List (List α)) (i : Nat) : List α := cs.getD i []

/-- `xToAlpha(x, i) = (x - x1)/(x2 - x1)`. -/
def xToAlpha (t : Table α) (x : α) (i : Nat) : α :=
  (x - nth t.xPos i) / (nth t.xPos (i + 1) - nth t.xPos i)

/-- `yToBeta(y, i, j) = (y - y1)/(y2 - y1)` on column `i`. -/
def yToBeta (t : Table α) (y : α) (i j : Nat) : α :=
  (y - nth (col t.colY i) j) / (nth (col t.colY i) (j + 1) - nth (col t.colY i) j)

/-- The shift of `findPoints`. -/
def shift (t : Table α) (i : Nat) (alpha y : α) : α :=
  match t.guide with
  | .vertical => 0
  | .leftExtreme => nth t.yPos (i + 1) - nth t.yPos i
  | .rightExtreme =>
    if 0 < nth t.yPos i * (1 - alpha) + nth t.yPos (i + 1) * alpha then
      (nth t.yPos (i + 1) - nth t.yPos i) * y /
        (nth t.yPos i * (1 - alpha) + nth t.yPos (i + 1) * alpha)
    else 0

/-- Value along column `i` at `y` on that column's segment `j`:
`valueAt(i,j)*(1 - beta) + valueAt(i,j+1)*beta`. -/
def colBlend (t : Table α) (i j : Nat) (beta : α) : α :=
  nth (col t.colV i) j * (1 - beta) + nth (col t.colV i) (j + 1) * beta

/-- Linear interpolation/extrapolation along column `i` (what `s1`, `s2` are). -/
def colEval (t : Table α) (i : Nat) (y : α) : α :=
  colBlend t i (segIdx (col t.colY i) y) (yToBeta t y i (segIdx (col t.colY i) y))

/-- `eval(x, y, extrapolate = true)`. -/
def eval (t : Table α) (x y : α) : α :=
  let i := segIdx t.xPos x
  let alpha := xToAlpha t x i
  let sh := shift t i alpha y
  let yLower := y - alpha * sh
  let yUpper := y + (1 - alpha) * sh
  colEval t i yLower * (1 - alpha) + colEval t (i + 1) yUpper * alpha

/-- `applies(x, y)` (only used by the assert inside `findPoints` when `extrapolate = false`;
note the code's weights: `alpha` on column i, `1 - alpha` on column i+1). -/
def applies (t : Table α) (x y : α) : Bool :=
  if x < nth t.xPos 0 ∨ nth t.xPos (t.xPos.length - 1) < x then false
  else
    let i := segIdx t.xPos x
    let alpha := xToAlpha t x i
    let c1 := col t.colY i
    let c2 := col t.colY (i + 1)
    let minY := alpha * nth c1 0 + (1 - alpha) * nth c2 0
    let maxY := alpha * nth c1 (c1.length - 1) + (1 - alpha) * nth c2 (c2.length - 1)
    minY ≤ y ∧ y ≤ maxY

/-! ### Construction (`appendXPos`, `appendSamplePoint`) -/

/-- `numeric_limits<double>::lowest()/2`, the initial guide value, is passed in by the
front end (`low`). `appendXPos` for ascending x (the only use in the PVT classes). -/
def appendXPos (t : Table α) (x low : α) : Table α :=
  { t with xPos := t.xPos ++ [x], yPos := t.yPos ++ [low], colY := t.colY ++ [[]], colV := t.colV ++ [[]] }

def setAt {β : Type} (l : List β) (i : Nat) (v : β) : List β := l.set i v

/-- `appendSamplePoint(i, y, value)`: append when `y` is above the column's last sample (or the
column is empty), prepend when below the first; the guide point `yPos_[i]` is updated on
append only for RightExtreme and on prepend only for LeftExtreme.  Returns `none` for the
`std::invalid_argument` case.

`firstAppendSetsLeftGuide` describes the shape of the source (regenerated from the header by
`translate/tab2d.py` into `Gen/Tab2D.lean`): `false` is the code as it stands — a column
filled in ascending order under LeftExtreme never gets its guide point, it keeps
`lowest()/2`; `true` is the shape after the candidate repair `design.d/C14.fix.patch`
(the first sample of a column also sets the guide under LeftExtreme). -/
def appendSamplePoint (firstAppendSetsLeftGuide : Bool) (t : Table α) (i : Nat) (y v : α) : Option (Table α) :=
  if (col t.colY i).isEmpty ∨ nth (col t.colY i) ((col t.colY i).length - 1) < y then
    some { t with colY := setAt t.colY i (col t.colY i ++ [y]), colV := setAt t.colV i (col t.colV i ++ [v]),
                  yPos := if t.guide = .rightExtreme ∨
                             (firstAppendSetsLeftGuide ∧ (col t.colY i).isEmpty ∧ t.guide = .leftExtreme)
                          then setAt t.yPos i y else t.yPos }
  else if y < nth (col t.colY i) 0 then
    some { t with colY := setAt t.colY i (y :: col t.colY i), colV := setAt t.colV i (v :: col t.colV i),
                  yPos := if t.guide = .leftExtreme then setAt t.yPos i y else t.yPos }
  else none

end
end OpmVerif.Tab2D
