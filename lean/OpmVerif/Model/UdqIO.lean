/-
  Line-protocol front end of the UDQ models.

  tokens      n:<16hex bits> | e:<name-hex>:<sel-hex,sel-hex|-> | s:<string-hex>
  tree        [<type code>;<s<hex>|n<bits>>;<sel-hex,..|->;<+|->  child child]

    udq.parse <tok>*                      -> ast <tree> | err (extra tokens / invalid tree)
    udq.eval <T> <ctx>* | <tok>*          -> ok <vt> <name-hex>=<bits|u>,… | err | noparse
    udq.hist <n> <ev>*                    -> <per step values>           (see `UdqHist.lean`)
    udq.tokenize <item-hex>*              -> ok <tok>* | err (unbalanced quotes, table look-up without `]`)
                                             (`normalize_string_tokens` + `make_udq_tokens` of UDQDefine.cpp)
    udq.vtype <T> <tok>*                  -> ok <var_type code> <tree> | err | typeerr | throw | unmodelled
                                             (`parseUDQExpression` with the static type check; `T` = W|G|F)
    udq.whist (; D <key-hex> <T> <tok>*)* (; S <ctx>*)*
                                          -> per `S` step (joined by `;`) the `UDQState` content of every
                                             DEFINEd quantity (joined by `/`) after `UDQConfig::eval`:
                                             `<elem-hex>=<bits|u>,…` in well / group order, `<bits|u>` for
                                             field quantities; `throw` ends the history

    udq.match <pat-hex> <name-hex>        -> 1 | 0          (`Opm::shmatch` = fnmatch(.,.,0); `Model/UdqMatch.lean`)
    udq.wells <ctx: W= LM L=>* | <pat-hex> -> ok a,b | err   (`WellMatcher::wells(pattern)`, names hex)
    udq.sort <A|D> <bits|u>,…             -> <rank|u>,…     (SORTA / SORTD called on a hand-made set; exact: the
                                             stable tie order of `std::sort` on at most 16 defined elements)
    udq.sortchk <A|D> <bits|u>,… <rank|u>,… -> ok | bad     (the real code's ranks for a set of any size against
                                             the specification `isSortRank`: permutation of 1..n, strict order)

  ctx items  E=<bits>  W=a,b  G=a,b  LM (matcher built with a WListManager)  L=<list-name-hex>:a,b
             F:<key-hex>=<bits>
             WV:<var-hex>:<well-hex>=<bits>,…   GV:…   US:<key-hex>=<bits>  UW:<var>:<w>=<bits>,…  UG:…
  (names in W=, G=, L= lists are hex too; well patterns are answered by the model's own matcher)
-/
import OpmVerif.Model.UdqEval
import OpmVerif.Model.UdqHist
import OpmVerif.Model.UdqType
import OpmVerif.Model.UdqLex
-- driver: prefix=udq handler=OpmVerif.Udq.handle

namespace OpmVerif.Udq
open OpmVerif.Gen.UdqEnums

def hexStr (s : String) : Option String := (ofHex s).map fun bs => String.ofList (bs.map fun b => Char.ofNat b.toNat)

def strHex (s : String) : String := if s.isEmpty then "-" else toHex (s.toList.map fun c => UInt8.ofNat c.toNat)

def hexNat (s : String) : Option Nat :=
  s.toList.foldl (fun acc c => match acc, hexVal c with
    | some a, some v => some (a * 16 + v)
    | _, _ => none) (some 0)

def natHex16 (n : Nat) : String :=
  String.ofList ((List.range 16).reverse.map fun i => hexDigit ((n / 16 ^ i) % 16))

def hexList (s : String) : Option (List String) :=
  if s = "-" ∨ s = "" then some [] else (s.splitOn ",").mapM hexStr

/-- `UDQParser::get_type` for tokens that are neither numbers nor ecl_expr -/
def getType (s : String) : TT :=
  match func_type.lookup s with
  | some t => t
  | none =>
    if s.take 2 == "TU" then .table_lookup
    else if s = "(" then .open_paren
    else if s = ")" then .close_paren
    else if s = "[" then .table_lookup_start
    else if s = "]" then .table_lookup_end
    else .ecl_expr

def parseTok (s : String) : Option Tok :=
  match s.splitOn ":" with
  | ["n", b] => (hexNat b).map fun v => ⟨.number, .num v.toUInt64, []⟩
  | ["e", n, sel] => do
    let name ← hexStr n
    let sl ← hexList sel
    pure ⟨.ecl_expr, .str name, sl⟩
  | ["s", x] => (hexStr x).map fun v => ⟨getType v, .str v, []⟩
  | _ => none

def showVal : Val → String
  | .str s => "s" ++ strHex s
  | .num b => "n" ++ natHex16 b.toNat

def showHead (h : Head) : String :=
  toString h.ty.code ++ ";" ++ showVal h.val ++ ";" ++
    (if h.sel.isEmpty then "-" else ",".intercalate (h.sel.map strHex)) ++ ";" ++ (if h.neg then "-" else "+")

def showAst : Ast → String
  | .leaf h => "[" ++ showHead h ++ "]"
  | .un h a => "[" ++ showHead h ++ " " ++ showAst a ++ "]"
  | .bin h l r => "[" ++ showHead h ++ " " ++ showAst l ++ " " ++ showAst r ++ "]"

/-! ### Float instance -/

def nintF (x : Float) : Float :=
  if !x.isFinite then x else
  let f := x.floor
  let d := x - f
  let r := if d < 0.5 then f else if d > 0.5 then f + 1.0 else
    (if (f / 2.0).floor * 2.0 == f then f else f + 1.0)
  if r == 0.0 && (x < 0.0 || (x == 0.0 && 1.0 / x < 0.0)) then -0.0 else r

def floatFns (eps : Float) : Fns Float where
  add := (· + ·)
  mul := (· * ·)
  div := (· / ·)
  pow := Float.pow
  lt := fun a b => a < b
  isFinite := Float.isFinite
  abs := Float.abs
  exp := Float.exp
  log := Float.log
  log10 := Float.log10
  sqrt := Float.sqrt
  nint := nintF
  ofNat := Float.ofNat
  negOne := -1.0
  eps := eps
  ofBits := Float.ofBits

def bitsOf (s : String) : Option Float := (hexNat s).map fun v => Float.ofBits v.toUInt64

structure RawCtx where
  eps : Float := 1.0e-4
  wells : List String := []
  groups : List String := []
  wlists : Option (List (String × List String)) := none
  scalars : List (String × Float) := []
  wellVars : List (String × List (String × Float)) := []
  groupVars : List (String × List (String × Float)) := []
  udqScalars : List (String × Float) := []
  udqWell : List (String × List (String × Float)) := []
  udqGroup : List (String × List (String × Float)) := []

def parseEntries (s : String) : Option (List (String × Float)) :=
  if s = "" ∨ s = "-" then some [] else
  (s.splitOn ",").mapM fun e =>
    match e.splitOn "=" with
    | [n, b] => do pure ((← hexStr n), (← bitsOf b))
    | _ => none

def addCtxItem (c : RawCtx) (item : String) : Option RawCtx :=
  if item.startsWith "E=" then (bitsOf (item.drop 2).toString).map fun e => { c with eps := e }
  else if item.startsWith "W=" then (hexList (item.drop 2).toString).map fun l => { c with wells := l }
  else if item.startsWith "G=" then (hexList (item.drop 2).toString).map fun l => { c with groups := l }
  else if item = "LM" then some { c with wlists := some (c.wlists.getD []) }
  else if item.startsWith "L=" then
    match (item.drop 2).toString.splitOn ":" with
    | [p, l] => do pure { c with wlists := some (c.wlists.getD [] ++ [((← hexStr p), (← hexList l))]) }
    | _ => none
  else if item.startsWith "F:" then
    (parseEntries (item.drop 2).toString).map fun es => { c with scalars := es ++ c.scalars }
  else if item.startsWith "US:" then
    (parseEntries (item.drop 3).toString).map fun es => { c with udqScalars := es ++ c.udqScalars }
  else
    match item.splitOn ":" with
    | [k, v, es] => do
      let var ← hexStr v
      let ents ← parseEntries es
      match k with
      | "WV" => pure { c with wellVars := (var, ents) :: c.wellVars }
      | "GV" => pure { c with groupVars := (var, ents) :: c.groupVars }
      | "UW" => pure { c with udqWell := (var, ents) :: c.udqWell }
      | "UG" => pure { c with udqGroup := (var, ents) :: c.udqGroup }
      | _ => none
    | _ => none

def isUdqKey (s : String) : Bool := s.length ≥ 2 && s.toList.getD 1 ' ' == 'U'

def months : List (String × Nat) :=
  [("JAN", 1), ("FEB", 2), ("MAR", 3), ("APR", 4), ("MAI", 5), ("MAY", 5), ("JUN", 6), ("JUL", 7), ("JLY", 7),
   ("AUG", 8), ("SEP", 9), ("OCT", 10), ("OKT", 10), ("NOV", 11), ("DEC", 12), ("DES", 12)]

def RawCtx.toCtx (c : RawCtx) : Ctx Float where
  wells := c.wells
  groups := c.groups
  scalarKey := fun k =>
    if isUdqKey k then some (c.udqScalars.lookup k)
    else match months.lookup k with
      | some m => some (some (Float.ofNat m))
      | none =>
        if k = "MSUMLINS" ∨ k = "MSUMNEWT" ∨ k = "NEWTON" ∨ k = "TCPU" then some (some 0.0)
        else (c.scalars.lookup k).map some
  wellVar := fun v =>
    if isUdqKey v then some fun w => ((c.udqWell.lookup v).getD []).lookup w
    else (c.wellVars.lookup v).map fun es w => es.lookup w
  groupVar := fun v =>
    if isUdqKey v then some fun g => ((c.udqGroup.lookup v).getD []).lookup g
    else (c.groupVars.lookup v).map fun es g => es.lookup g
  wellsMatching := Matcher.matching ⟨c.wells, c.wlists⟩

def parseVT (s : String) : Option VT :=
  match s with
  | "W" => some .well | "G" => some .group | "F" => some .field | "S" => some .scalar | _ => none

def showVT : VT → String
  | .none => "N" | .scalar => "S" | .field => "F" | .well => "W" | .group => "G"

def showSet (u : USet Float) : String :=
  showVT u.vt ++ " " ++ (if u.vals.isEmpty then "-" else
    ",".intercalate (u.vals.map fun (n, v) => strHex n ++ "=" ++ (match v with
      | some x => natHex16 x.toBits.toNat
      | none => "u")))

def parseOptVals (s : String) : Option (List (Option Float)) :=
  if s = "-" then some [] else
  (s.splitOn ",").mapM fun e => if e = "u" then some none else (bitsOf e).map some

def parseRanks (s : String) : Option (List (Option Nat)) :=
  if s = "-" then some [] else
  (s.splitOn ",").mapM fun e => if e = "u" then some none else e.toNat?.map some

def showRanks (rs : List (Option Nat)) : String :=
  if rs.isEmpty then "-" else ",".intercalate (rs.map fun r => match r with | some k => toString k | none => "u")

def splitBar (args : List String) : List String × List String :=
  (args.takeWhile (· ≠ "|"), (args.dropWhile (· ≠ "|")).drop 1)

/-! ### definedness histories through `UDQConfig::eval` + `UDQState` -/

/-- what `UDQState::add` sees of an evaluated `UDQSet` -/
def toRSet (u : USet Float) : Hist.RSet Float :=
  ⟨match u.vt with | .well => .well | .group => .group | _ => .scalar, u.vals⟩

structure WDef where
  key : String
  vt : VT
  ast : Ast

def splitSemi (args : List String) : List (List String) :=
  let rec go (cur : List String) (acc : List (List String)) : List String → List (List String)
    | [] => (cur.reverse :: acc).reverse
    | ";" :: r => go [] (cur.reverse :: acc) r
    | x :: r => go (x :: cur) acc r
  go [] [] args

/-- `eval_define` for one report step: input order, each result goes to the state at once -/
def whistStep (defs : List WDef) (rc : RawCtx) (st : Hist.State Float) : Option (Hist.State Float) :=
  defs.foldlM (fun st d =>
    let rc' := { rc with udqScalars := st.scalars, udqWell := st.wells, udqGroup := st.groups }
    match evalDefine (floatFns rc.eps) rc'.toCtx d.vt d.ast with
    | .ok u => st.add d.key (toRSet u)
    | .error _ => none) st

def showOpt : Option Float → String
  | some x => natHex16 x.toBits.toNat
  | none => "u"

def showState (defs : List WDef) (rc : RawCtx) (st : Hist.State Float) : String :=
  "/".intercalate (defs.map fun d =>
    match d.vt with
    | .well => if rc.wells.isEmpty then "-" else
        ",".intercalate (rc.wells.map fun w => strHex w ++ "=" ++ showOpt (st.elem .well d.key w))
    | .group => if rc.groups.isEmpty then "-" else
        ",".intercalate (rc.groups.map fun g => strHex g ++ "=" ++ showOpt (st.elem .group d.key g))
    | _ => showOpt (st.scalar d.key))

def runWhist : List (List String) → List WDef → Hist.State Float → List String → String
  | [], _, _, out => ";".intercalate out.reverse
  | [] :: rest, defs, st, out => runWhist rest defs st out
  | ("D" :: key :: t :: toks) :: rest, defs, st, out =>
    match hexStr key, parseVT t, toks.mapM parseTok with
    | some k, some vt, some ts =>
      match parse ts with
      | .ast a =>
        -- a re-DEFINE keeps the quantity's place in `input_index`
        let defs' := if defs.any (·.key == k) then defs.map (fun d => if d.key == k then ⟨k, vt, a⟩ else d)
                     else defs ++ [⟨k, vt, a⟩]
        runWhist rest defs' st out
      | _ => "noparse"
    | _, _, _ => "bad-op"
  | ("S" :: items) :: rest, defs, st, out =>
    match items.foldlM addCtxItem ({} : RawCtx) with
    | none => "bad-op"
    | some rc =>
      match whistStep defs rc st with
      | none => ";".intercalate (("throw" :: out).reverse)
      | some st' => runWhist rest defs st' (showState defs rc st' :: out)
  | _ :: _, _, _, _ => "bad-op"

def handle (op : String) (args : List String) : String :=
  match op with
  | "udq.parse" =>
    match args.mapM parseTok with
    | none => "bad-op"
    | some ts =>
      match parse ts with
      | .ast a => "ast " ++ showAst a
      | .extra => "err"      -- both are UDQ_PARSE_ERROR in parseUDQExpression
      | .invalid => "err"
      | .fuel => "fuel"
  | "udq.eval" =>
    match args with
    | t :: rest =>
      let (ctxItems, toks) := splitBar rest
      match parseVT t, ctxItems.foldlM addCtxItem ({} : RawCtx), toks.mapM parseTok with
      | some vt, some rc, some ts =>
        match parse ts with
        | .ast a =>
          match evalDefine (floatFns rc.eps) rc.toCtx vt a with
          | .ok u => "ok " ++ showSet u
          | .error _ => "err"
        | _ => "noparse"
      | _, _, _ => "bad-op"
    | _ => "bad-op"
  | "udq.hist" => Hist.handleHist args
  | "udq.match" =>
    match args.mapM hexStr with
    | some [p, n] => if globS p n then "1" else "0"
    | _ => "bad-op"
  | "udq.wells" =>
    let (ctxItems, pat) := splitBar args
    match ctxItems.foldlM addCtxItem ({} : RawCtx), pat.mapM hexStr with
    | some rc, some [p] =>
      match Matcher.matching ⟨rc.wells, rc.wlists⟩ p with
      | .ok ws => "ok " ++ (if ws.isEmpty then "-" else ",".intercalate (ws.map strHex))
      | .error _ => "err"
    | _, _ => "bad-op"
  | "udq.sort" =>
    match args with
    | [d, vs] =>
      match parseOptVals vs with
      | some vals =>
        let before : Float → Float → Bool := if d = "A" then (fun a b => a < b) else (fun a b => b < a)
        showRanks (sortRanks before vals)
      | none => "bad-op"
    | _ => "bad-op"
  | "udq.sortchk" =>
    match args with
    | [d, vs, rs] =>
      match parseOptVals vs, parseRanks rs with
      | some vals, some ranks =>
        let before : Float → Float → Bool := if d = "A" then (fun a b => a < b) else (fun a b => b < a)
        if isSortRank before vals ranks then "ok" else "bad"
      | _, _ => "bad-op"
    | _ => "bad-op"
  | "udq.tokenize" =>
    match args.mapM hexStr with
    | none => "bad-op"
    | some items =>
      match Lex.tokenize (items.map String.toList) with
      | .unbalanced => "err"
      | .missingBracket => "err"
      | .ok ts => "ok" ++ String.join (ts.map fun t =>
          " " ++ (if t.ty = .number then "n:" ++ natHex16 (Lex.numberValue t.text).toBits.toNat
                  else if t.ty = .ecl_expr then
                    "e:" ++ strHex (String.ofList t.text) ++ ":" ++
                      (if t.sel.isEmpty then "-" else ",".intercalate (t.sel.map fun x => strHex (String.ofList x)))
                  else "s:" ++ strHex (String.ofList t.text)))
  | "udq.vtype" =>
    match args with
    | t :: toks =>
      let target : Option VarT := match t with
        | "W" => some .well_var | "G" => some .group_var | "F" => some .field_var | _ => none
      match target, toks.mapM parseTok with
      | some tg, some ts =>
        match parseTyped tg ts with
        | .ast a vt => "ok " ++ toString vt.code ++ " " ++ showAst a
        | .extra => "err"
        | .invalid => "err"
        | .typeError => "typeerr"
        | .noType => "typeerr"
        | .stop .throw => "throw"
        | .stop .unmodelled => "unmodelled"
        | .fuel => "fuel"
      | _, _ => "bad-op"
    | _ => "bad-op"
  | "udq.whist" => runWhist (splitSemi args) [] Hist.State.empty []
  | _ => "bad-op"

end OpmVerif.Udq
