/-
  Exact model of `strtod` on decimal input (glibc is correctly rounded, round-half-even):
  `[white space][sign]digits[.digits][(e|E)[sign]digits]` → the IEEE-754 binary64 bit pattern.
  `inf`/`nan`/hexadecimal input is outside this model (`unsupported`).

  Used by the formatted DOUB reader model: the model answers with the bits the real reader
  must return for the token it delivers.  Core Lean only; all arithmetic in `Nat`.
-/
namespace OpmVerif.Strtod

inductive Res where
  | bits (b : Nat) (erange : Bool := false)  -- the binary64 pattern, finite; `erange`: tiny and inexact
  | overflow (neg : Bool)  -- ±HUGE_VAL with ERANGE
  | noConv                 -- no conversion performed (`end == str`)
  | unsupported            -- inf / nan / hex: not modelled
  deriving DecidableEq, Repr

def isSp (c : Char) : Bool :=
  c = ' ' || c = '\n' || c = '\t' || c = '\x0b' || c = '\x0c' || c = '\r'
def isDig (c : Char) : Bool := '0' ≤ c && c ≤ '9'
def dval (ds : List Char) : Nat := ds.foldl (fun a c => a * 10 + (c.toNat - 48)) 0

/-- `num/den / 2^(eo-1074)` as a ratio of naturals (`eo` = binary exponent + 1074 ≥ 0). -/
def scaled (num den eo : Nat) : Nat × Nat :=
  if 1074 ≤ eo then (num, den <<< (eo - 1074)) else (num <<< (1074 - eo), den)

def quot (num den eo : Nat) : Nat := (scaled num den eo).1 / (scaled num den eo).2

/-- the exponent `eo` with `2^52 ≤ quot < 2^53`, clamped below at 0 (subnormal range):
`⌊log2 (num/den)⌋ ∈ {l-1, l}` for `l = log2 num - log2 den`. -/
def pickExp (num den : Nat) : Nat :=
  let l : Int := (num.log2 : Int) - (den.log2 : Int)
  let eo0 : Nat := (l - 52 + 1074 - 1).toNat                -- candidate (may be one too small)
  if quot num den eo0 < 2 ^ 53 then eo0 else eo0 + 1

/-- `a / b` rounded to the nearest natural, ties to even. -/
def roundHalfEven (a b : Nat) : Nat :=
  if 2 * (a % b) > b ∨ (2 * (a % b) = b ∧ (a / b) % 2 = 1) then a / b + 1 else a / b

/-- significand (`< 2^53`) and exponent (`eo`) of the nearest binary64, before encoding. -/
def roundCore (num den : Nat) : Nat × Nat :=
  let eo := pickExp num den
  let q1 := roundHalfEven (scaled num den eo).1 (scaled num den eo).2
  if q1 = 2 ^ 53 then (2 ^ 52, eo + 1) else (q1, eo)

/-- nearest binary64 to `num / den` (`num, den > 0`), ties to even, and whether `strtod` sets
`ERANGE` for underflow (tiny and inexact); `none` on overflow. -/
def roundRatio (num den : Nat) : Option (Nat × Bool) :=
  let eo := pickExp num den
  let p := scaled num den eo
  let q := p.1 / p.2
  let r := p.1 % p.2
  let (q2, eo2) := roundCore num den
  -- tininess is detected after rounding (x86-64 glibc): the value rounded to 53 bits with an
  -- unbounded exponent is below 2^-1022, i.e. value < 2^-1022 - 2^-1076
  let tiny : Bool := eo = 0 ∧ q < 2 ^ 52 ∧ num <<< 1076 < (2 ^ 54 - 1) * den
  let erange : Bool := tiny ∧ r ≠ 0
  if q2 < 2 ^ 52 then some (q2, erange)                      -- subnormal (eo = 0) or zero
  else if eo2 + 1 > 2046 then none
  else some ((eo2 + 1) * 2 ^ 52 + (q2 - 2 ^ 52), erange)

/-- the decimal number `strtod` recognises at the start of the string: sign, all digits as
one natural number `m`, the power of ten `e10` (value = ±m·10^e10) and the number of
significant digits. -/
inductive Dec where
  | num (neg : Bool) (m : Nat) (e10 : Int) (nd : Nat)
  | noConv
  | unsupported
  deriving DecidableEq, Repr

def signOf (s1 : List Char) : Bool := s1.head? = some '-'

def afterSign (s1 : List Char) : List Char :=
  if s1.head? = some '-' ∨ s1.head? = some '+' then s1.drop 1 else s1

def fracPart : List Char → List Char
  | '.' :: r => r.takeWhile isDig
  | _ => []

def afterFrac : List Char → List Char
  | '.' :: r => r.dropWhile isDig
  | s3 => s3

/-- optional exponent: only taken when at least one digit follows. -/
def expOf : List Char → Int
  | c :: r =>
    if c = 'e' ∨ c = 'E' then
      let ed := (afterSign r).takeWhile isDig
      if ed = [] then 0
      else
        -- cap: beyond ±1000000 nothing changes
        let v := dval (ed.dropWhile (· = '0'))
        let v' := if (ed.dropWhile (· = '0')).length > 6 then 1000000 else v
        if signOf r then -(v' : Int) else (v' : Int)
    else 0
  | [] => 0

def parseDec (s : List Char) : Dec :=
  let s1 := s.dropWhile isSp
  let s2 := afterSign s1
  let ip := s2.takeWhile isDig
  let s3 := s2.dropWhile isDig
  let fp := fracPart s3
  if ip = [] ∧ fp = [] then
    (match s2 with
     | c :: _ => if c = 'i' ∨ c = 'I' ∨ c = 'n' ∨ c = 'N' then .unsupported else .noConv
     | [] => .noConv)
  else if ip = ['0'] ∧ (s3.head? = some 'x' ∨ s3.head? = some 'X') then .unsupported
  else
    .num (signOf s1) (dval (ip ++ fp)) (expOf (afterFrac s3) - fp.length)
      ((ip ++ fp).dropWhile (· = '0')).length

/-- correctly rounded binary64 of ±m·10^e10. -/
def ofDec (neg : Bool) (m : Nat) (e10 : Int) (nd : Nat) : Res :=
  let sign : Nat := if neg then 2 ^ 63 else 0
  if m = 0 then .bits sign
  else
    if e10 + nd > 400 then .overflow neg
    else if e10 + nd < -400 then .bits sign true
    else
      let r := if 0 ≤ e10 then roundRatio (m * 10 ^ e10.toNat) 1
               else roundRatio m (10 ^ (-e10).toNat)
      match r with
      | none => .overflow neg
      | some (b, er) => .bits (sign + b) er

def strtod (s : List Char) : Res :=
  match parseDec s with
  | .num neg m e10 nd => ofDec neg m e10 nd
  | .noConv => .noConv
  | .unsupported => .unsupported

/-- how far the 53-bit significand of a normal binary64 with biased exponent `e` has to be
shifted to become a binary32 significand (24 bits, or fewer in the binary32 subnormal range). -/
def f32Shift (e : Nat) : Nat := if e + 29 ≥ 1075 - 149 then 29 else 1075 - 149 - e

/-- `(float) d` for a finite binary64 pattern: round to nearest even, overflow to ±inf. -/
def toFloat32 (b : Nat) : Nat :=
  let sign := if 2 ^ 63 ≤ b then 2 ^ 31 else 0
  let e := (b % 2 ^ 63) / 2 ^ 52
  let m := b % 2 ^ 52
  if e = 0 then sign                         -- binary64 subnormals are far below 2^-149
  else
    let q := 2 ^ 52 + m                      -- value = q * 2^(e - 1075)
    -- float: value = q' * 2^E' with E' = e - 1075 + shift ≥ -149
    let shift := f32Shift e
    let q1 := roundHalfEven q (2 ^ shift)
    let (q2, sh2) := if q1 = 2 ^ 24 then (2 ^ 23, shift + 1) else (q1, shift)
    if q2 < 2 ^ 23 then sign + q2
    else
      let biased := e + sh2 + 150 - 1075       -- E' + 150, E' = e - 1075 + sh2
      if biased ≥ 255 then sign + 255 * 2 ^ 23
      else sign + biased * 2 ^ 23 + (q2 - 2 ^ 23)

end OpmVerif.Strtod
