/-
  Line-protocol front end of the input stack model.
    inc.run <fuel> <root> <file>;<file>;...   -> ok k,k,... | ok - | err
  <file> = statements joined by ',' : k<n> keyword, i<f> INCLUDE of file number f, e ENDINC;
  "-" = empty file.  File numbers index the list; a number behind its end is a missing file.
-/
import OpmVerif.Model.IncStack
-- driver: prefix=inc handler=OpmVerif.IncStack.handle

namespace OpmVerif.IncStack

def readItem (s : String) : Option Item :=
  if s = "e" then some .endinc
  else if s.startsWith "k" then (s.drop 1).toString.toNat?.map Item.kw
  else if s.startsWith "i" then (s.drop 1).toString.toNat?.map Item.inc
  else none

def readFile (s : String) : Option (List Item) :=
  if s = "-" then some [] else (s.splitOn ",").mapM readItem

def handle (op : String) (args : List String) : String :=
  match op, args with
  | "inc.run", [fuel, root, fs] =>
    match fuel.toNat?, root.toNat?, (fs.splitOn ";").mapM readFile with
    | some n, some r, some fl =>
      match parseFile (fun f => fl[f]?) n r with
      | none => "err"
      | some ks => if ks.isEmpty then "ok -" else "ok " ++ ",".intercalate (ks.map toString)
    | _, _, _ => "bad-op"
  | _, _ => "bad-op"

end OpmVerif.IncStack
