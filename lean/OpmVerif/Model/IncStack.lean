/-
  Model of the input stack of the deck parser (Parser.cpp: `InputStack`, `ParserState::done`,
  `ParserState::closeFile`, `ParserState::loadFile`, the INCLUDE / ENDINC branches of
  `parseState`) at the granularity of whole keywords.

  A file is a list of statements: an ordinary keyword (goes to the deck), `INCLUDE` of a file
  (files are named by their canonical path — here a number, `std::filesystem::canonical` is
  applied to every spelling before anything else happens) and `ENDINC`.  The stack holds one
  frame per open file: its path and what is still to be read of it.

  * a file that has been read to its end is popped (`done()`),
  * `ENDINC` pops the file it stands in (`closeFile()`); what follows it there is never read,
  * `INCLUDE` of a file whose path is on the stack is refused ("Recursive INCLUDE", `is_open`:
    a walk over the frames — no separate book-keeping that could go stale); a missing file is an
    error (PARSE_MISSING_INCLUDE raised to an exception); otherwise the file is pushed.  The
    including file stays on the stack even when the INCLUDE was its last statement.

  Core Lean only.
-/
namespace OpmVerif.IncStack

inductive Item where
  | kw (k : Nat)
  | inc (f : Nat)
  | endinc
  deriving DecidableEq, Repr

/-- canonical path ↦ statements of the file; `none`: no such file. -/
abbrev Files := Nat → Option (List Item)
abbrev Frame := Nat × List Item
abbrev Stack := List Frame

/-- `InputStack::is_open`. -/
def isOpen (st : Stack) (f : Nat) : Bool := st.any fun fr => fr.1 == f

/-- the keyword loop on the input stack: the sequence of ordinary keywords, `none` for an
error.  `fuel` bounds the number of rounds (every round consumes a statement or pops a file;
an include graph without cycles needs finitely many — `include_split_complete`). -/
def run (files : Files) : Nat → Stack → List Nat → Option (List Nat)
  | 0, _, _ => none
  | _ + 1, [], deck => some deck
  | n + 1, (_, []) :: st, deck => run files n st deck
  | n + 1, (p, .kw k :: r) :: st, deck => run files n ((p, r) :: st) (deck ++ [k])
  | n + 1, (_, .endinc :: _) :: st, deck => run files n st deck
  | n + 1, (p, .inc f :: r) :: st, deck =>
    if isOpen ((p, r) :: st) f then none
    else match files f with
      | none => none
      | some c => run files n ((f, c) :: (p, r) :: st) deck

/-- `Parser::parseFile(root)`. -/
def parseFile (files : Files) (fuel : Nat) (root : Nat) : Option (List Nat) :=
  match files root with
  | none => none
  | some items => run files fuel [(root, items)] []

/-- what is read of a file: the statements in front of its first ENDINC. -/
def live : List Item → List Item
  | [] => []
  | .endinc :: _ => []
  | .kw k :: r => .kw k :: live r
  | .inc f :: r => .inc f :: live r

/-- The one-piece text: every INCLUDE replaced by what is read of the named file.  `Expands
files l ks`: the one-piece text of the statements `l` is finite and its keywords are `ks`. -/
inductive Expands (files : Files) : List Item → List Nat → Prop
  | nil : Expands files [] []
  | kw {k : Nat} {r : List Item} {ks : List Nat} : Expands files r ks → Expands files (.kw k :: r) (k :: ks)
  | endinc {r : List Item} : Expands files (.endinc :: r) []
  | inc {f : Nat} {c r : List Item} {a b : List Nat} :
      files f = some c → Expands files c a → Expands files r b → Expands files (.inc f :: r) (a ++ b)

/-- the one-piece text of everything still to be read: the frames top first. -/
inductive ExpandsStack (files : Files) : Stack → List Nat → Prop
  | nil : ExpandsStack files [] []
  | cons {p : Nat} {r : List Item} {st : Stack} {a b : List Nat} :
      Expands files r a → ExpandsStack files st b → ExpandsStack files ((p, r) :: st) (a ++ b)

end OpmVerif.IncStack
