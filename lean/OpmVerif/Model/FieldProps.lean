/-
  C12 — model of opm/input/eclipse/EclipseState/Grid/{FieldProps,Box,FieldData,Operate}.cpp

  Two semantics of the same keyword programs, written once and selected by `Mode`:

  * `Mode.ref`  — reference semantics on the FULL global grid: every property array has one
    cell per global cell, an operation is a map over the cells of a box / region
    (`refApply`); the ACTNUM is consulted only for accept/reject verdicts.
  * `Mode.impl` — what the code does: arrays hold ACTIVE cells only, operations walk
    `Box::index_list` triples (global, active, data index) built by `Box::initIndexList`
    (`indexList`) or `FieldProps::region_index` (`regionIndex`) and write through the
    active index (`implApply`).

  `compress A` (keep the cells whose ACTNUM entry is true) is the abstraction function;
  `Proofs/FieldProps.lean` shows `compress A (ref …) = impl … (compress A …)`.

  Core Lean only (no Mathlib): this file is linked into the driver.  Doubles are a generic
  scalar `α` (`Float` in the driver, arbitrary in proofs); integers are `Int`.
-/
import OpmVerif.Model.Basic

namespace OpmVerif.FieldProps

/-! ## Cells and status (opm/input/eclipse/Deck/value_status.hpp) -/

inductive Status where
  | uninit | deckValue | emptyDefault | validDefault
  deriving DecidableEq, Repr, Inhabited

/-- `value::has_value` -/
def Status.hasValue : Status → Bool
  | .deckValue => true
  | .validDefault => true
  | _ => false

/-- `value::defaulted` -/
def Status.defaulted : Status → Bool
  | .emptyDefault => true
  | .validDefault => true
  | _ => false

/-- the predicate of `FieldData::valid()`: neither uninitialised nor an empty default -/
def Status.okSt : Status → Bool
  | .uninit => false
  | .emptyDefault => false
  | _ => true

/-- One element of `FieldData::data` together with its `value_status`. -/
structure Cell (α : Type) where
  st : Status
  v : α
  deriving DecidableEq, Repr

abbrev Arr (α : Type) := List (Cell α)

/-- Scalar operations used by the element kernels (`T = int` and `T = double`). -/
class Scalar (α : Type) where
  zero : α
  add : α → α → α
  mul : α → α → α
  lt : α → α → Bool

/-- Real-valued extras needed by OPERATE (Operate.cpp), the double→int cast of
`handle_operation` and the PORV zero test. -/
class RealOps (α : Type) extends Scalar α where
  one : α
  ten : α
  div : α → α → α
  pow : α → α → α
  log10 : α → α
  log : α → α
  abs : α → α
  trunc : α → Int
  isZero : α → Bool

instance : Scalar Int := ⟨0, (· + ·), (· * ·), fun a b => decide (a < b)⟩

instance : RealOps Float where
  zero := 0.0
  add := (· + ·)
  mul := (· * ·)
  lt := fun a b => a < b
  one := 1.0
  ten := 10.0
  div := (· / ·)
  pow := Float.pow
  log10 := Float.log10
  log := Float.log
  abs := Float.abs
  trunc := fun x => x.toInt64.toInt
  isZero := fun x => x == 0.0

/-- `std::max(a, b)` = `(a < b) ? b : a` -/
def stdMax [Scalar α] (a b : α) : α := if Scalar.lt a b then b else a
/-- `std::min(a, b)` = `(b < a) ? b : a` -/
def stdMin [Scalar α] (a b : α) : α := if Scalar.lt b a then b else a

def blank [Scalar α] : Cell α := ⟨.uninit, Scalar.zero⟩

/-- element access with the value-initialised cell as out-of-range filler -/
def cellAt [Scalar α] (xs : Arr α) (i : Nat) : Cell α := xs.getD i blank

/-! ## Grid dimensions (GridDims.cpp) and boxes (Box.cpp) -/

structure Dims where
  nx : Nat
  ny : Nat
  nz : Nat
  deriving DecidableEq, Repr

def Dims.size (D : Dims) : Nat := D.nx * D.ny * D.nz

/-- `GridDims::getGlobalIndex` -/
def Dims.globalIndex (D : Dims) (i j k : Nat) : Nat := i + D.nx * (j + k * D.ny)

/-- `GridDims::getIJK` -/
def Dims.ijk (D : Dims) (g : Nat) : Nat × Nat × Nat :=
  (g % D.nx, (g / D.nx) % D.ny, g / D.nx / D.ny)

/-- `Box::m_offset`, `Box::m_dims` -/
structure Box where
  oi : Nat
  oj : Nat
  ok : Nat
  ni : Nat
  nj : Nat
  nk : Nat
  deriving DecidableEq, Repr

def Box.size (b : Box) : Nat := b.ni * b.nj * b.nk
def Box.dims (b : Box) : Dims := ⟨b.ni, b.nj, b.nk⟩

/-- well-formed sub-box of the grid (what `assert_dims` guarantees) -/
def Box.Valid (D : Dims) (b : Box) : Prop :=
  0 < b.ni ∧ 0 < b.nj ∧ 0 < b.nk ∧ b.oi + b.ni ≤ D.nx ∧ b.oj + b.nj ≤ D.ny ∧ b.ok + b.nk ≤ D.nz

def Box.global (D : Dims) : Box := ⟨0, 0, 0, D.nx, D.ny, D.nz⟩

/-- `assert_dims(len, l1, l2)`: true iff no exception -/
def assertDims (len l1 l2 : Int) : Bool :=
  decide (0 < len) && decide (0 ≤ l1) && decide (0 ≤ l2) && decide (l1 ≤ l2) && decide (l2 < len)

/-- `Box::init(i1,i2,j1,j2,k1,k2)` (zero based, inclusive); `none` = `std::invalid_argument` -/
def Box.init (D : Dims) (i1 i2 j1 j2 k1 k2 : Int) : Option Box :=
  if assertDims D.nx i1 i2 && assertDims D.ny j1 j2 && assertDims D.nz k1 k2 then
    some ⟨i1.toNat, j1.toNat, k1.toNat, (i2 - i1 + 1).toNat, (j2 - j1 + 1).toNat, (k2 - k1 + 1).toNat⟩
  else none

/-- The six optional one-based items I1 I2 J1 J2 K1 K2 of a record (`none` = defaulted). -/
structure BoxItems where
  i1 : Option Int
  i2 : Option Int
  j1 : Option Int
  j2 : Option Int
  k1 : Option Int
  k2 : Option Int
  deriving DecidableEq, Repr

def BoxItems.allDefault (r : BoxItems) : Bool :=
  r.i1.isNone && r.i2.isNone && r.j1.isNone && r.j2.isNone && r.k1.isNone && r.k2.isNone

def itemOr (x : Option Int) (dflt : Int) : Int :=
  match x with
  | some v => v - 1
  | none => dflt

/-- `Box::update(record)`: a record with all six items defaulted leaves the box as it is;
otherwise defaulted items mean the full GRID extent (not the current box). -/
def Box.update (D : Dims) (b : Box) (r : BoxItems) : Option Box :=
  if r.allDefault then some b
  else Box.init D (itemOr r.i1 0) (itemOr r.i2 ((D.nx : Int) - 1))
                  (itemOr r.j1 0) (itemOr r.j2 ((D.ny : Int) - 1))
                  (itemOr r.k1 0) (itemOr r.k2 ((D.nz : Int) - 1))

/-! ## Active maps and index lists -/

def isActive (A : List Bool) (g : Nat) : Bool := A.getD g false

/-- number of active cells strictly before global cell `g` = `EclipseGrid::activeIndex(g)`
for an active `g` (the running counter of `region_index`, `global_copy`, `reset_actnum`) -/
def rank : List Bool → Nat → Nat
  | [], _ => 0
  | _ :: _, 0 => 0
  | b :: bs, g + 1 => (if b then 1 else 0) + rank bs g

/-- the abstraction function: keep the cells of a global array whose ACTNUM entry is true.
It is also `Fieldprops::compress(data, active_map)` of FieldData.hpp. -/
def compress {β : Type} : List Bool → List β → List β
  | [], _ => []
  | _ :: _, [] => []
  | true :: bs, x :: xs => x :: compress bs xs
  | false :: bs, _ :: xs => compress bs xs

def nactive (A : List Bool) : Nat := A.count true

/-- `Box::cell_index` -/
structure Idx where
  g : Nat
  a : Nat
  d : Nat
  deriving DecidableEq, Repr

/-- global index of the box cell with data index `d` (body of the `initIndexList` loop) -/
def Box.globalOf (D : Dims) (b : Box) (d : Nat) : Nat :=
  D.globalIndex ((b.dims.ijk d).1 + b.oi) ((b.dims.ijk d).2.1 + b.oj) ((b.dims.ijk d).2.2 + b.ok)

/-- `Box::initIndexList` → `m_active_index_list` -/
def indexList (D : Dims) (A : List Bool) (b : Box) : List Idx :=
  (List.range b.size).filterMap fun d =>
    let g := b.globalOf D d
    if isActive A g then some ⟨g, rank A g, d⟩ else none

/-- `Box::initIndexList` → `m_global_index_list` (two-argument `cell_index`: active := global) -/
def globalIndexList (D : Dims) (b : Box) : List Idx :=
  (List.range b.size).map fun d => let g := b.globalOf D d; ⟨g, g, d⟩

/-- `FieldProps::region_index(region, value).first` over the compressed region array -/
def regionIndex (A : List Bool) (region : Arr Int) (r : Int) : List Idx :=
  (List.range A.length).filterMap fun g =>
    if isActive A g then
      let a := rank A g
      if (cellAt region a).v = r then some ⟨g, a, g⟩ else none
    else none

/-- row-major position inside box `b` of the cell with grid coordinates (i, j, k) -/
def boxPos (b : Box) (inGrid : Prop) [Decidable inGrid] (i j k : Nat) : Option Nat :=
  if b.oi ≤ i ∧ i < b.oi + b.ni ∧ b.oj ≤ j ∧ j < b.oj + b.nj ∧ b.ok ≤ k ∧ k < b.ok + b.nk ∧ inGrid then
    some ((i - b.oi) + b.ni * ((j - b.oj) + (k - b.ok) * b.nj))
  else none

/-! ### the loops as written (shown equal to the closed forms above in `Proofs/`) -/

/-- `FieldProps::region_index` as written: one pass over the global cells with a running
active index -/
def regionIndexLoop (region : Arr Int) (r : Int) : List Bool → Nat → Nat → List Idx
  | [], _, _ => []
  | false :: as, g, a => regionIndexLoop region r as (g + 1) a
  | true :: as, g, a =>
    (if (cellAt region a).v = r then [⟨g, a, g⟩] else []) ++ regionIndexLoop region r as (g + 1) (a + 1)

/-- `Fieldprops::compress(data, active_map)` (one value per cell) as written: an in-place pass
that moves every kept element `shift` places down, then `resize` -/
def compressLoop {β : Type} : List Bool → Nat → Nat → List β → List β
  | [], _, shift, data => data.take (data.length - shift)
  | true :: as, g, shift, data =>
    compressLoop as (g + 1) shift
      (if shift > 0 then
        match data[g]? with
        | some x => data.set (g - shift) x
        | none => data
       else data)
  | false :: as, g, shift, data => compressLoop as (g + 1) (shift + 1) data

/-- Specification side: the row-major position inside the box of global cell `g`, if it
lies in the box. -/
def boxSel (D : Dims) (b : Box) (g : Nat) : Option Nat :=
  boxPos b (g < D.size) (D.ijk g).1 (D.ijk g).2.1 (D.ijk g).2.2

/-- Specification side: cell `g` belongs to region `r` of the GLOBAL region array. -/
def regionSel (region : Arr Int) (r : Int) (g : Nat) : Option Nat :=
  if (cellAt region g).v = r then some g else none

/-! ## Element kernels and the two generic loops -/

/-- what one loop iteration does with (data index, source cell, target cell) -/
structure Kernel (α : Type) where
  bad : Nat → Cell α → Cell α → Bool
  upd : Nat → Cell α → Cell α → Cell α

/-- Implementation loop: `for (const auto& ci : index_list) { … data[ci.active_index] … }`.
Every exception raised inside or after such a loop is fatal for the whole EclipseState,
so the rejection test is evaluated first. -/
def implApply [Scalar α] (K : Kernel α) (L : List Idx) (src tgt : Arr α) : Option (Arr α) :=
  if L.any (fun e => K.bad e.d (cellAt src e.a) (cellAt tgt e.a)) then none
  else some (L.foldl (fun t e => t.set e.a (K.upd e.d (cellAt src e.a) (cellAt t e.a))) tgt)

/-- does global cell `g` make the operation undefined?  (only ACTIVE cells can) -/
def refBad [Scalar α] (K : Kernel α) (A : List Bool) (sel : Nat → Option Nat) (src tgt : Arr α)
    (g : Nat) : Bool :=
  isActive A g &&
    (match sel g with
     | some d => K.bad d (cellAt src g) (cellAt tgt g)
     | none => false)

/-- new content of global cell `g` -/
def refUpd [Scalar α] (K : Kernel α) (sel : Nat → Option Nat) (src : Arr α) (g : Nat) (c : Cell α) :
    Cell α :=
  match sel g with
  | some d => K.upd d (cellAt src g) c
  | none => c

/-- Reference: a map over ALL cells of the global array selected by `sel`; the ACTNUM
only decides which cells can cause rejection. -/
def refApply [Scalar α] (K : Kernel α) (A : List Bool) (sel : Nat → Option Nat)
    (src tgt : Arr α) : Option (Arr α) :=
  if (List.range A.length).any (refBad K A sel src tgt) then none
  else some (tgt.mapIdx (refUpd K sel src))

inductive ScalarOp where
  | equal | mul | add | min | max
  deriving DecidableEq, Repr

/-- `assign_scalar`, `multiply_scalar`, `add_scalar`, `min_value`, `max_value` -/
def scalarKernel [Scalar α] (op : ScalarOp) (x : α) : Kernel α :=
  match op with
  | .equal => ⟨fun _ _ _ => false, fun _ _ _ => ⟨.deckValue, x⟩⟩
  | .mul => ⟨fun _ _ t => !t.st.hasValue,
             fun _ _ t => if t.st.hasValue then ⟨t.st, Scalar.mul t.v x⟩ else t⟩
  | .add => ⟨fun _ _ t => !t.st.hasValue,
             fun _ _ t => if t.st.hasValue then ⟨t.st, Scalar.add t.v x⟩ else t⟩
  | .min => ⟨fun _ _ t => !t.st.hasValue,
             fun _ _ t => if t.st.hasValue then ⟨t.st, stdMax t.v x⟩ else t⟩
  | .max => ⟨fun _ _ t => !t.st.hasValue,
             fun _ _ t => if t.st.hasValue then ⟨t.st, stdMin t.v x⟩ else t⟩

/-- `assign_deck` for `num_value = 1`: a deck value always overwrites, a deck default only
fills an uninitialised cell, an empty default does nothing. -/
def assignKernel [Scalar α] (deck : Arr α) : Kernel α :=
  ⟨fun _ _ _ => false,
   fun d _ t =>
     let c := cellAt deck d
     if c.st.hasValue then
       if c.st = .deckValue ∨ t.st = .uninit then c else t
     else t⟩

/-- `FieldData::checkInitialisedCopy`: only `deck_value` source cells can be copied -/
def copyKernel : Kernel α :=
  ⟨fun _ s _ => decide (s.st ≠ .deckValue),
   fun _ s t => if s.st = .deckValue then s else t⟩

/-- loop body of `FieldProps::operate` -/
def operateKernel (fn : α → α → α) (checkTarget : Bool) : Kernel α :=
  ⟨fun _ s t => !s.st.hasValue || (checkTarget && !t.st.hasValue),
   fun _ s t => if s.st.hasValue && (!checkTarget || t.st.hasValue) then ⟨s.st, fn t.v s.v⟩ else t⟩

/-- Operate.cpp: `operations.at(func)` bound to (alpha, beta); arguments are (R, X). -/
def operateFn [RealOps α] (name : String) (al be : α) : Option (α → α → α) :=
  let add := fun (a b : α) => Scalar.add a b
  let mul := fun (a b : α) => Scalar.mul a b
  match name with
  | "MULTA" => some fun _ x => add (mul al x) be
  | "POLY" => some fun r x => add r (mul al (RealOps.pow x be))
  | "SLOG" => some fun _ x => RealOps.pow RealOps.ten (add al (mul be x))
  | "LOG10" => some fun _ x => RealOps.log10 x
  | "LOGE" => some fun _ x => RealOps.log x
  | "INV" => some fun _ x => RealOps.div RealOps.one x
  | "MULTX" => some fun _ x => mul al x
  | "ADDX" => some fun _ x => add al x
  | "COPY" => some fun _ x => x
  | "MAXLIM" => some fun _ x => stdMin al x
  | "MINLIM" => some fun _ x => stdMax al x
  | "MULTP" => some fun _ x => mul al (RealOps.pow x be)
  | "ABS" => some fun _ x => RealOps.abs x
  | "MULTIPLY" => some fun r x => mul r x
  | _ => none

/-! ## Mode-dispatched primitives -/

inductive Mode where
  | ref | impl
  deriving DecidableEq, Repr

def arrSize (m : Mode) (D : Dims) (A : List Bool) : Nat :=
  match m with
  | .ref => D.size
  | .impl => nactive A

/-- `FieldData(kw_info, active_size, …)`: value-initialised, or `default_assign(scalar_init)` -/
def fresh [Scalar α] (m : Mode) (D : Dims) (A : List Bool) (init : Option α) : Arr α :=
  List.replicate (arrSize m D A)
    (match init with
     | some v => ⟨.validDefault, v⟩
     | none => blank)

/-- all ACTIVE cells satisfy `p` -/
def allActive (A : List Bool) (p : Cell α → Bool) : Arr α → Bool
  | [] => true
  | c :: cs =>
    match A with
    | [] => true
    | b :: bs => (!b || p c) && allActive bs p cs

/-- `FieldData::valid()` -/
def validArr (m : Mode) (A : List Bool) (x : Arr α) : Bool :=
  match m with
  | .ref => allActive A (fun c => c.st.okSt) x
  | .impl => x.all (fun c => c.st.okSt)

def boxApply [Scalar α] (m : Mode) (D : Dims) (A : List Bool) (K : Kernel α) (b : Box)
    (src tgt : Arr α) : Option (Arr α) :=
  match m with
  | .ref => refApply K A (boxSel D b) src tgt
  | .impl => implApply K (indexList D A b) src tgt

def regApply [Scalar α] (m : Mode) (A : List Bool) (K : Kernel α) (region : Arr Int) (r : Int)
    (src tgt : Arr α) : Option (Arr α) :=
  match m with
  | .ref => refApply K A (regionSel region r) src tgt
  | .impl => implApply K (regionIndex A region r) src tgt

/-- `index_list.empty()` of `region_index` -/
def regEmpty (m : Mode) (A : List Bool) (region : Arr Int) (r : Int) : Bool :=
  match m with
  | .ref => allActive A (fun c => decide (c.v ≠ r)) region
  | .impl => region.all (fun c => decide (c.v ≠ r))

/-- `FieldProps::reset_actnum`: drop the cells that became inactive -/
def shrink (m : Mode) (keep : List Bool) (x : List β) : List β :=
  match m with
  | .ref => x
  | .impl => compress keep x

/-! ## `distribute_toplayer` (GRID section, keywords with `top = true`: PORO, PERMX/Y/Z) -/

section Top
variable {α : Type} [Scalar α]

/-- what `distribute_toplayer` does to one cell given the top-layer value of its column -/
def topCell (tv : Option α) (c : Cell α) : Cell α :=
  if c.st = .uninit then
    match tv with
    | some v => ⟨.validDefault, v⟩
    | none => c
  else c

/-- implementation: the scratch `toplayer` array, filled from ALL cells of the box that lie in
layer k = 0 (`box.global_index_list()`; every entry, whatever its deck status), read by layer index -/
def topValueImpl (L : List Idx) (deck : Arr α) (li : Nat) : Option α :=
  match L.find? (fun e => e.g == li) with
  | some e => some (cellAt deck e.d).v
  | none => none

/-- reference: the deck entry of the column's top cell, if that cell is in the box -/
def topValueRef (D : Dims) (b : Box) (deck : Arr α) (li : Nat) : Option α :=
  match boxSel D b li with
  | some d => some (cellAt deck d).v
  | none => none

/-- map with the running global index -/
def mapFrom {β γ : Type} (f : Nat → β → γ) : Nat → List β → List γ
  | _, [] => []
  | s, x :: xs => f s x :: mapFrom f (s + 1) xs

/-- the k/j/i loop of `distribute_toplayer` with its running active index -/
def walkActive {β : Type} (f : Nat → β → β) : List Bool → Nat → List β → List β
  | [], _, xs => xs
  | false :: as, g, xs => walkActive f as (g + 1) xs
  | true :: _, _, [] => []
  | true :: as, g, x :: xs => f g x :: walkActive f as (g + 1) xs

def topApply (m : Mode) (D : Dims) (A : List Bool) (b : Box) (deck : Arr α) (x : Arr α) : Arr α :=
  match m with
  | .ref => mapFrom (fun g c => topCell (topValueRef D b deck (g % (D.nx * D.ny))) c) 0 x
  | .impl => walkActive (fun g c => topCell (topValueImpl (globalIndexList D b) deck (g % (D.nx * D.ny))) c) A 0 x

end Top

/-! ## Stores (`int_data`, `double_data`) -/

def sget {β : Type} : List (String × β) → String → Option β
  | [], _ => none
  | (k', v) :: r, k => if k' = k then some v else sget r k

def sput {β : Type} : List (String × β) → String → β → List (String × β)
  | [], k, v => [(k, v)]
  | (k', v') :: r, k, v => if k' = k then (k, v) :: r else (k', v') :: sput r k v

def smap {β γ : Type} (f : β → γ) (s : List (String × β)) : List (String × γ) :=
  s.map fun p => (p.1, f p.2)

def serase {β : Type} : List (String × β) → String → List (String × β)
  | [], _ => []
  | (k', v) :: r, k => if k' = k then r else (k', v) :: serase r k

/-! ## Keyword tables (`keyword_info<T>`; supplied by the harness from the real
`global_kw_info<T>` / `FieldProps::supported<T>` at run time) -/

structure DInfo (α : Type) where
  init : Option α
  mult : Bool
  top : Bool
  glob : Bool
  scale : α
  offset : α
  hasUnit : Bool

structure Tables (α : Type) where
  dbl : List (String × DInfo α)
  int : List (String × Option Int)

/-- `getSIValue(keyword, raw)` / `Dimension::convertRawToSi` -/
def DInfo.si [Scalar α] (i : DInfo α) (raw : α) : α :=
  if i.hasUnit then Scalar.add (Scalar.mul raw i.scale) i.offset else raw

/-! ## State -/

structure St (α : Type) where
  act : List Bool
  ints : List (String × Arr Int)
  dbls : List (String × Arr α)

/-- `init_get<double>(kw, kw_info)`: existing array or a new one (which is stored) -/
def getD [Scalar α] (m : Mode) (D : Dims) (s : St α) (kw : String) (info : DInfo α) : St α × Arr α :=
  match sget s.dbls kw with
  | some x => (s, x)
  | none =>
    let x := fresh m D s.act info.init
    ({ s with dbls := sput s.dbls kw x }, x)

def getI (m : Mode) (D : Dims) (s : St α) (kw : String) (init : Option Int) : St α × Arr Int :=
  match sget s.ints kw with
  | some x => (s, x)
  | none =>
    let x := fresh m D s.act init
    ({ s with ints := sput s.ints kw x }, x)

def putD (s : St α) (kw : String) (x : Arr α) : St α := { s with dbls := sput s.dbls kw x }
def putI (s : St α) (kw : String) (x : Arr Int) : St α := { s with ints := sput s.ints kw x }

/-! ## Keywords of a section (already parsed; one constructor per handler) -/

inductive Section where
  | grid | edit | props | regions | solution
  deriving DecidableEq, Repr

structure ScalarRec (α : Type) where
  kw : String
  raw : α
  box : BoxItems

structure CopyRec where
  src : String
  tgt : String
  box : BoxItems

structure OperRec (α : Type) where
  tgt : String
  box : BoxItems
  fn : String
  src : String
  a : α
  b : α

structure RegScalarRec (α : Type) where
  kw : String
  raw : α
  rv : Int
  /-- region item: `none` = defaulted → `m_default_region`; `some s` → `make_region_name s` -/
  rs : Option String

structure CopyRegRec where
  src : String
  tgt : String
  rv : Int
  rs : Option String

structure OperRegRec (α : Type) where
  tgt : String
  rv : Int
  fn : String
  src : String
  a : α
  b : α
  rn : String

inductive Kw (α : Type) where
  | box (r : BoxItems)
  | endbox
  /-- double data keyword; values in RAW deck units with their deck status -/
  | dataD (kw : String) (vals : Arr α)
  | dataI (kw : String) (vals : Arr Int)
  | scalar (op : ScalarOp) (recs : List (ScalarRec α))
  | copy (recs : List CopyRec)
  | operate (recs : List (OperRec α))
  | regScalar (op : ScalarOp) (recs : List (RegScalarRec α))
  | copyReg (recs : List CopyRegRec)
  | operateR (recs : List (OperRegRec α))

/-- `make_region_name` -/
def makeRegionName (s : String) : Option String :=
  match s with
  | "O" => some "OPERNUM"
  | "F" => some "FLUXNUM"
  | "M" => some "MULTNUM"
  | _ => none

/-- `FieldProps::region_name(item)`; the default region is FLUXNUM (no GRIDOPTS in the decks) -/
def regionName (rs : Option String) : Option String :=
  match rs with
  | none => some "FLUXNUM"
  | some s => makeRegionName s

/-- In the EDIT section multiplier keywords (MULTX, MULTPV, …) are collected in a scratch
array `__MULT__<kw>` (`init_get(…, multiplier_in_edit = true)`) that is multiplied into the
real array at the end of the section (`apply_multipliers`). -/
def multName (kw : String) : String := "__MULT__" ++ kw

def editName (sec : Section) (info : DInfo α) (kw : String) : String :=
  if sec = .edit ∧ info.mult = true then multName kw else kw

/-! ### record handlers.  Result `none` = an exception escapes (fatal). -/

section Handlers
variable {α : Type} [RealOps α]

/-- `region_index(name, value)`: `init_get<int>(name)` (stored), `valid()` check.
Result: state, region array. -/
def regionArr (m : Mode) (D : Dims) (T : Tables α) (s : St α) (name : String) :
    Option (St α × Arr Int) :=
  match sget T.int name with
  | none => none
  | some init =>
    let p := getI m D s name init
    if validArr m p.1.act p.2 then some p else none

/-- one record of ADD / EQUALS / MULTIPLY / MINVALUE / MAXVALUE (`handle_operation`) -/
def scalarRec (m : Mode) (D : Dims) (T : Tables α) (sec : Section) (op : ScalarOp)
    (sb : St α × Box) (r : ScalarRec α) : Option (St α × Box) :=
  match Box.update D sb.2 r.box with
  | none => none
  | some b =>
    let s := sb.1
    match sget T.dbl r.kw with
    | some info =>
      if op ≠ .equal ∧ info.mult = false ∧ ¬ (sec = .edit ∧ r.kw = "PORV") ∧ (sget s.dbls r.kw).isNone then none
      else
        let x := if op = .mul then r.raw else info.si r.raw
        let name := editName sec info r.kw
        let p := getD m D s name info
        (boxApply m D p.1.act (scalarKernel op x) b p.2 p.2).map fun y => (putD p.1 name y, b)
    | none =>
      match sget T.int r.kw with
      | some init =>
        if op ≠ .equal ∧ (sget s.ints r.kw).isNone then none
        else
          let x : Int := RealOps.trunc r.raw
          let p := getI m D s r.kw init
          (boxApply m D p.1.act (scalarKernel op x) b p.2 p.2).map fun y => (putI p.1 r.kw y, b)
      | none => none

/-- one record of COPY (`handle_COPY`, box variant) -/
def copyRec (m : Mode) (D : Dims) (T : Tables α) (sb : St α × Box) (r : CopyRec) :
    Option (St α × Box) :=
  match Box.update D sb.2 r.box with
  | none => none
  | some b =>
    let s := sb.1
    match sget T.dbl r.src with
    | some _ =>
      match sget s.dbls r.src with
      | none => none
      | some src =>
        if !validArr m s.act src then none
        else
          match sget T.dbl r.tgt with
          | none => none
          | some tinfo =>
            let p := getD m D s r.tgt tinfo
            (boxApply m D p.1.act copyKernel b src p.2).map fun y => (putD p.1 r.tgt y, b)
    | none =>
      match sget T.int r.src with
      | some _ =>
        match sget s.ints r.src with
        | none => none
        | some src =>
          if !validArr m s.act src then none
          else
            match sget T.int r.tgt with
            | none => none
            | some tinit =>
              let p := getI m D s r.tgt tinit
              (boxApply m D p.1.act copyKernel b src p.2).map fun y => (putI p.1 r.tgt y, b)
      | none => some (s, b)

/-- `get_alpha` / `get_beta` -/
def operAlpha (fn : String) (info : DInfo α) (raw : α) : α :=
  if fn = "ADDX" ∨ fn = "MAXLIM" ∨ fn = "MINLIM" then info.si raw else raw
def operBeta (fn : String) (info : DInfo α) (raw : α) : α :=
  if fn = "MULTA" then info.si raw else raw

/-- one record of OPERATE (`handle_OPERATE` + `operate`) -/
def operRec (m : Mode) (D : Dims) (T : Tables α) (sb : St α × Box) (r : OperRec α) :
    Option (St α × Box) :=
  match Box.update D sb.2 r.box with
  | none => none
  | some b =>
    match sget T.dbl r.tgt with
    | none => none
    | some tinfo =>
      let p := getD m D sb.1 r.tgt tinfo
      match sget T.dbl r.src with
      | none => none
      | some sinfo =>
        let q := getD m D p.1 r.src sinfo
        match operateFn r.fn (operAlpha r.fn tinfo r.a) (operBeta r.fn tinfo r.b) with
        | none => none
        | some f =>
          -- creating the source never changes the target array, so `p.2` is still the target
          (boxApply m D q.1.act (operateKernel f (r.fn = "MULTIPLY" ∨ r.fn = "POLY")) b q.2 p.2).map fun y => (putD q.1 r.tgt y, b)

/-- one record of ADDREG / EQUALREG / MULTIREG (`handle_region_operation`).
Integer targets are silently skipped by the code. -/
def regScalarRec (m : Mode) (D : Dims) (T : Tables α) (op : ScalarOp) (s : St α)
    (r : RegScalarRec α) : Option (St α) :=
  match sget T.dbl r.kw with
  | none => some s
  | some info =>
    let p := getD m D s r.kw info
    match regionName r.rs with
    | none => none
    | some rn =>
      match regionArr m D T p.1 rn with
      | none => none
      | some q =>
        if regEmpty m q.1.act q.2 r.rv then some q.1
        else
          let x := if op = .mul then r.raw else info.si r.raw
          (regApply m q.1.act (scalarKernel op x) q.2 r.rv p.2 p.2).map fun y => (putD q.1 r.kw y)

/-- one record of COPYREG (`handle_COPY`, region variant) -/
def copyRegRec (m : Mode) (D : Dims) (T : Tables α) (s : St α) (r : CopyRegRec) : Option (St α) :=
  match regionName r.rs with
  | none => none
  | some rn =>
    match regionArr m D T s rn with
    | none => none
    | some q =>
      let s := q.1
      match sget T.dbl r.src with
      | some _ =>
        match sget s.dbls r.src with
        | none => none
        | some src =>
          if !validArr m s.act src then none
          else
            match sget T.dbl r.tgt with
            | none => none
            | some tinfo =>
              let p := getD m D s r.tgt tinfo
              (regApply m p.1.act copyKernel q.2 r.rv src p.2).map fun y => (putD p.1 r.tgt y)
      | none =>
        match sget T.int r.src with
        | some _ =>
          match sget s.ints r.src with
          | none => none
          | some src =>
            if !validArr m s.act src then none
            else
              match sget T.int r.tgt with
              | none => none
              | some tinit =>
                let p := getI m D s r.tgt tinit
                (regApply m p.1.act copyKernel q.2 r.rv src p.2).map fun y => (putI p.1 r.tgt y)
        | none => some s

/-- one record of OPERATER (`handle_operateR`, code as fixed by bf5bceae1): target and SOURCE are fetched
(`init_get`, i.e. created when absent) before the region is looked at, so the set of stored arrays does
not depend on whether the region has an active cell -/
def operRegRec (m : Mode) (D : Dims) (T : Tables α) (s : St α) (r : OperRegRec α) : Option (St α) :=
  match sget T.dbl r.tgt with
  | none => some s
  | some tinfo =>
    let p := getD m D s r.tgt tinfo
    match sget T.dbl r.src with
    | none => none
    | some sinfo =>
      let u := getD m D p.1 r.src sinfo
      match regionArr m D T u.1 r.rn with
      | none => none
      | some q =>
        if regEmpty m q.1.act q.2 r.rv then some q.1
        else
          match operateFn r.fn (operAlpha r.fn tinfo r.a) (operBeta r.fn tinfo r.b) with
          | none => none
          | some f =>
            -- creating the source never changes the target array, so `p.2` is still the target
            (regApply m q.1.act (operateKernel f (r.fn = "MULTIPLY" ∨ r.fn = "POLY")) q.2 r.rv u.2 p.2).map fun y => (putD q.1 r.tgt y)

/-- fold a record handler over the records of one keyword -/
def foldRecs {σ ρ : Type} (f : σ → ρ → Option σ) : σ → List ρ → Option σ
  | s, [] => some s
  | s, r :: rs =>
    match f s r with
    | none => none
    | some s' => foldRecs f s' rs

/-- raw deck values → SI (`getSIDoubleData`) -/
def siData (info : DInfo α) (vals : Arr α) : Arr α :=
  vals.map fun c => ⟨c.st, info.si c.v⟩

/-- tail of `handle_double_keyword`: in the GRID section a `top` keyword that is still not
fully defined after the assignment gets the values of the top-layer cells of the box (active or not) copied
down its columns -/
def topStep (m : Mode) (D : Dims) (A : List Bool) (sec : Section) (info : DInfo α) (b : Box)
    (deck y : Arr α) : Arr α :=
  if sec = .grid ∧ info.top = true ∧ validArr m A y = false then topApply m D A b deck y else y

/-- One keyword of a section: `scan*Section` dispatch + `handle_keyword`. -/
def kwStep (m : Mode) (D : Dims) (T : Tables α) (sec : Section) (sb : St α × Box) (k : Kw α) :
    Option (St α × Box) :=
  let s := sb.1
  let b := sb.2
  match k with
  | .box r =>
    match Box.update D b r with
    | none => none
    | some b' => some (s, b')
  | .endbox => some (s, Box.global D)
  | .dataD kw vals =>
    match sget T.dbl kw with
    | none => none
    | some info =>
      let name := editName sec info kw
      let p := getD m D s name info
      if vals.length ≠ b.size then none
      else
        (boxApply m D p.1.act (assignKernel (siData info vals)) b p.2 p.2).map fun y =>
          (putD p.1 name (topStep m D p.1.act sec info b (siData info vals) y), b)
  | .dataI kw vals =>
    match sget T.int kw with
    | none => none
    | some init =>
      let p := getI m D s kw init
      if vals.length ≠ b.size then none
      else
        (boxApply m D p.1.act (assignKernel vals) b p.2 p.2).map fun y => (putI p.1 kw y, b)
  | .scalar op recs =>
    match foldRecs (scalarRec m D T sec op) (s, b) recs with
    | none => none
    | some r => some (r.1, b)
  | .copy recs =>
    match foldRecs (copyRec m D T) (s, b) recs with
    | none => none
    | some r => some (r.1, b)
  | .operate recs =>
    match foldRecs (operRec m D T) (s, b) recs with
    | none => none
    | some r => some (r.1, b)
  | .regScalar op recs =>
    match foldRecs (regScalarRec m D T op) s recs with
    | none => none
    | some s' => some (s', b)
  | .copyReg recs =>
    match foldRecs (copyRegRec m D T) s recs with
    | none => none
    | some s' => some (s', b)
  | .operateR recs =>
    match foldRecs (operRegRec m D T) s recs with
    | none => none
    | some s' => some (s', b)

/-- element-wise `data[i] *= mult[i]` of `apply_multipliers` (the status is left alone) -/
def mulInto (tgt mult : Arr α) : Arr α :=
  List.zipWith (fun c mc => ⟨c.st, Scalar.mul c.v mc.v⟩) tgt mult

/-- one entry of `multiplier_kw_infos_` in `FieldProps::apply_multipliers` -/
def applyMult (m : Mode) (D : Dims) (s : St α) (e : String × DInfo α) : St α :=
  if e.2.mult then
    match sget s.dbls (multName e.1) with
    | none => s
    | some marr =>
      let p := getD m D s e.1 e.2
      { p.1 with dbls := serase (sput p.1.dbls e.1 (mulInto p.2 marr)) (multName e.1) }
  else s

def applyMultipliers (m : Mode) (D : Dims) (T : Tables α) (s : St α) : St α :=
  T.dbl.foldl (applyMult m D) s

/-- `scanXXXSection`: a fresh global box, then every keyword in order; the EDIT section ends
with `apply_multipliers` -/
def scanSection (m : Mode) (D : Dims) (T : Tables α) (sec : Section) (s : St α) (ks : List (Kw α)) :
    Option (St α) :=
  match foldRecs (kwStep m D T sec) (s, Box.global D) ks with
  | none => none
  | some r => some (if sec = .edit then applyMultipliers m D T r.1 else r.1)

end Handlers

/-! ## Whole program: the `FieldProps` constructor, ACTNUM update, observation -/

section Run
variable {α : Type} [RealOps α]

/-- keywords of the five sections in DECK order -/
structure Prog (α : Type) where
  grid : List (Kw α)
  edit : List (Kw α)
  props : List (Kw α)
  regions : List (Kw α)
  solution : List (Kw α)

/-- fill inactive cells: `FieldProps::global_copy` on the reference side -/
def maskFill {β : Type} (fill : β) : List Bool → List β → List β
  | [], _ => []
  | _ :: _, [] => []
  | true :: bs, x :: xs => x :: maskFill fill bs xs
  | false :: bs, _ :: xs => fill :: maskFill fill bs xs

/-- `FieldProps::global_copy(data, default)`: spread active values over the global grid -/
def expand {β : Type} (fill : β) : List Bool → List β → List β
  | [], _ => []
  | false :: bs, xs => fill :: expand fill bs xs
  | true :: bs, x :: xs => x :: expand fill bs xs
  | true :: bs, [] => fill :: expand fill bs []

def activeView {β : Type} (m : Mode) (A : List Bool) (x : List β) : List β :=
  match m with
  | .ref => compress A x
  | .impl => x

def globalView {β : Type} (m : Mode) (A : List Bool) (fill : β) (x : List β) : List β :=
  match m with
  | .ref => maskFill fill A x
  | .impl => expand fill A x

def andMask : List Bool → List Bool → List Bool
  | [], _ => []
  | _ :: _, [] => []
  | a :: as, k :: ks => (a && k) :: andMask as ks

/-- new ACTNUM from the keep flags (indexed like the arrays of the mode) -/
def newAct (m : Mode) (A keep : List Bool) : List Bool :=
  match m with
  | .ref => andMask A keep
  | .impl => expand false A keep

/-- `init_porv` with unit bulk volumes, pass by pass: PORO where it has a value (else the
value-initialised 0), times NTG if present, times MULTPV if present. -/
def porvData (poro : Arr α) (ntg mpv : Option (Arr α)) : List α :=
  let p0 : List α := poro.map fun c => if c.st.hasValue then c.v else Scalar.zero
  let p1 : List α := match ntg with
    | some n => List.zipWith (fun x c => Scalar.mul x c.v) p0 n
    | none => p0
  match mpv with
  | some n => List.zipWith (fun x c => Scalar.mul x c.v) p1 n
  | none => p1

/-- `FieldProps::actnum()`: a cell stays active iff its deck ACTNUM is non-zero and its pore
volume is not exactly 0 -/
def keepFlags (poro : Arr α) (ntg mpv : Option (Arr α)) (actnum : Arr Int) : List Bool :=
  List.zipWith (fun pv a => decide (a.v ≠ 0) && !RealOps.isZero pv) (porvData poro ntg mpv) actnum

/-- `FieldProps::actnum()` followed by `reset_actnum`: cells whose deck ACTNUM is 0 or whose
pore volume is exactly 0 (PORO unset or 0, NTG 0, MULTPV 0) are deactivated and every array
is compressed.  Without PORO nothing happens.  (The PORV array the code creates as a side
effect is not modelled; PORV is outside the observed keyword set.) -/
def resetActnum (m : Mode) (D : Dims) (s : St α) : St α :=
  match sget s.dbls "PORO" with
  | none => s
  | some poro =>
    let p := getI m D s "ACTNUM" (some 1)
    let keep := keepFlags poro (sget s.dbls "NTG") (sget s.dbls "MULTPV") p.2
    { act := newAct m s.act keep,
      ints := smap (shrink m keep) p.1.ints,
      dbls := smap (shrink m keep) p.1.dbls }

/-- The constructor `FieldProps(deck, phases, grid, tables, ncomps)`: GRID, EDIT, ACTNUM
update, REGIONS, PROPS, SOLUTION — in THIS order (REGIONS before PROPS). -/
def runProg (m : Mode) (D : Dims) (T : Tables α) (s0 : St α) (P : Prog α) : Option (St α) :=
  match scanSection m D T .grid s0 P.grid with
  | none => none
  | some s1 =>
    match scanSection m D T .edit s1 P.edit with
    | none => none
    | some s2 =>
      match scanSection m D T .regions (resetActnum m D s2) P.regions with
      | none => none
      | some s3 =>
        match scanSection m D T .props s3 P.props with
        | none => none
        | some s4 => scanSection m D T .solution s4 P.solution

/-- initial state: nothing read yet; ref arrays are global, impl arrays active-only -/
def initSt (A : List Bool) : St α := ⟨A, [], []⟩

/-- what the public API shows of one double keyword: `get_double` succeeds?, the active
cells (status, value), `get_global_double` -/
structure Obs (β : Type) where
  valid : Bool
  cells : Arr β
  glob : List β
  deriving DecidableEq

def observeD (m : Mode) (D : Dims) (T : Tables α) (s : St α) (kw : String) : Option (Obs α) :=
  match sget T.dbl kw with
  | none => none
  | some info =>
    let x := (getD m D s kw info).2
    some ⟨validArr m s.act x, activeView m s.act x,
          globalView m s.act (info.init.getD Scalar.zero) (x.map (·.v))⟩

def observeI (m : Mode) (D : Dims) (T : Tables α) (s : St α) (kw : String) : Option (Obs Int) :=
  match sget T.int kw with
  | none => none
  | some init =>
    let x := (getI m D s kw init).2
    some ⟨validArr m s.act x, activeView m s.act x,
          globalView m s.act (init.getD 0) (x.map (·.v))⟩

/-- the complete observable result of a run -/
structure Result (α : Type) where
  act : List Bool
  dbl : List (String × Option (Obs α))
  int : List (String × Option (Obs Int))
  deriving DecidableEq

def observe (m : Mode) (D : Dims) (T : Tables α) (s : St α) : Result α :=
  ⟨s.act, T.dbl.map (fun p => (p.1, observeD m D T s p.1)),
          T.int.map (fun p => (p.1, observeI m D T s p.1))⟩

/-- run a deck and observe: `none` = the deck is rejected -/
def runObserve (m : Mode) (D : Dims) (T : Tables α) (A : List Bool) (P : Prog α) : Option (Result α) :=
  match runProg m D T (initSt A) P with
  | none => none
  | some s => some (observe m D T s)

end Run

/-! ## Global storage (`FieldData::global_data`, keywords with `kw_info.global`: PERMX/Y/Z,
MULTZ, MULTZ-, MINPVV)

Besides the active-only array the code keeps, for these keywords, a second array over ALL
global cells and repeats every box operation on it through `Box::global_index_list()` (index
triples with active := global); `get_global` returns it.  Region operations copy the touched
active cells (value and status) into it (`update_global_from_local`), "distribute top layer" does
not touch it.  This storage is the same object in both semantics; it is threaded next to the
state and only reads the local arrays for the region operations. -/

section Global
variable {α : Type} [RealOps α]

abbrev GStore (α : Type) := List (String × Arr α)

/-- a global-storage array that nobody has written yet (constructor + `default_assign`) -/
def gFresh (D : Dims) (init : Option α) : Arr α :=
  List.replicate D.size
    (match init with
     | some v => ⟨.validDefault, v⟩
     | none => blank)

def gGet (D : Dims) (G : GStore α) (name : String) (info : DInfo α) : Arr α :=
  (sget G name).getD (gFresh D info.init)

/-- global half of `assign_deck`: NO `has_value` test on the deck status here -/
def assignGlobalKernel (deck : Arr α) : Kernel α :=
  ⟨fun _ _ _ => false,
   fun d _ t =>
     let c := cellAt deck d
     if c.st = .deckValue ∨ t.st = .uninit then c else t⟩

/-- an operation over `box.global_index_list()` -/
def gBox (D : Dims) (K : Kernel α) (b : Box) (src tgt : Arr α) : Option (Arr α) :=
  implApply K (globalIndexList D b) src tgt

def gScalarRec (D : Dims) (T : Tables α) (sec : Section) (op : ScalarOp) (Gb : GStore α × Box)
    (r : ScalarRec α) : Option (GStore α × Box) :=
  match Box.update D Gb.2 r.box with
  | none => none
  | some b =>
    match sget T.dbl r.kw with
    | none => some (Gb.1, b)
    | some info =>
      if info.glob then
        let x := if op = .mul then r.raw else info.si r.raw
        let name := editName sec info r.kw
        let g := gGet D Gb.1 name info
        (gBox D (scalarKernel op x) b g g).map fun y => (sput Gb.1 name y, b)
      else some (Gb.1, b)

def gCopyRec (D : Dims) (T : Tables α) (Gb : GStore α × Box) (r : CopyRec) : Option (GStore α × Box) :=
  match Box.update D Gb.2 r.box with
  | none => none
  | some b =>
    match sget T.dbl r.src with
    | none => some (Gb.1, b)
    | some sinfo =>
      match sget T.dbl r.tgt with
      | none => none
      | some tinfo =>
        if tinfo.glob then
          if sinfo.glob then
            (gBox D copyKernel b (gGet D Gb.1 r.src sinfo) (gGet D Gb.1 r.tgt tinfo)).map
              fun y => (sput Gb.1 r.tgt y, b)
          else none
        else some (Gb.1, b)

def gOperRec (D : Dims) (T : Tables α) (Gb : GStore α × Box) (r : OperRec α) : Option (GStore α × Box) :=
  match Box.update D Gb.2 r.box with
  | none => none
  | some b =>
    match sget T.dbl r.tgt with
    | none => none
    | some tinfo =>
      match sget T.dbl r.src with
      | none => none
      | some sinfo =>
        match operateFn r.fn (operAlpha r.fn tinfo r.a) (operBeta r.fn tinfo r.b) with
        | none => none
        | some f =>
          if tinfo.glob then
            if sinfo.glob then
              (gBox D (operateKernel f (r.fn = "MULTIPLY" ∨ r.fn = "POLY")) b
                (gGet D Gb.1 r.src sinfo) (gGet D Gb.1 r.tgt tinfo)).map fun y => (sput Gb.1 r.tgt y, b)
            else none
          else some (Gb.1, b)

/-- the cell of global index `g` (ACTIVE) in an array of the given semantics -/
def cellG {β : Type} [Scalar β] (m : Mode) (A : List Bool) (x : Arr β) (g : Nat) : Cell β :=
  match m with
  | .ref => cellAt x g
  | .impl => cellAt x (rank A g)

/-- `update_global_from_local` for one record of a region keyword, evaluated after the keyword
(exact because the region arrays do not change inside a region keyword and the last record
touching a cell wins in both): every active cell of the region is copied, value and status. -/
def gRegRec (m : Mode) (D : Dims) (T : Tables α) (s : St α) (G : GStore α)
    (r : String × Int × Option String) : GStore α :=
  match sget T.dbl r.1 with
  | none => G
  | some info =>
    if info.glob then
      match r.2.2 with
      | none => G
      | some rn =>
        match sget s.ints rn, sget s.dbls r.1 with
        | some reg, some loc =>
          sput G r.1 ((gGet D G r.1 info).mapIdx fun g c =>
            if isActive s.act g = true ∧ (cellG m s.act reg g).v = r.2.1 then cellG m s.act loc g else c)
        | _, _ => G
    else G

/-- global-storage effect of one keyword; `b` is the box before the keyword, `s` the state after it -/
def gStep (m : Mode) (D : Dims) (T : Tables α) (sec : Section) (b : Box) (s : St α) (G : GStore α)
    (k : Kw α) : Option (GStore α) :=
  match k with
  | .box _ => some G
  | .endbox => some G
  | .dataI _ _ => some G
  | .copyReg _ => some G
  | .dataD kw vals =>
    match sget T.dbl kw with
    | none => some G
    | some info =>
      if info.glob then
        let name := editName sec info kw
        let g := gGet D G name info
        (gBox D (assignGlobalKernel (siData info vals)) b g g).map fun y => sput G name y
      else some G
  | .scalar op recs => (foldRecs (gScalarRec D T sec op) (G, b) recs).map (·.1)
  | .copy recs => (foldRecs (gCopyRec D T) (G, b) recs).map (·.1)
  | .operate recs => (foldRecs (gOperRec D T) (G, b) recs).map (·.1)
  | .regScalar _ recs => some (recs.foldl (fun G r => gRegRec m D T s G (r.kw, r.rv, regionName r.rs)) G)
  | .operateR recs => some (recs.foldl (fun G r => gRegRec m D T s G (r.tgt, r.rv, some r.rn)) G)

def kwStepG (m : Mode) (D : Dims) (T : Tables α) (sec : Section) (pg : (St α × Box) × GStore α) (k : Kw α) :
    Option ((St α × Box) × GStore α) :=
  match kwStep m D T sec pg.1 k with
  | none => none
  | some q =>
    match gStep m D T sec pg.1.2 q.1 pg.2 k with
    | none => none
    | some G' => some (q, G')

/-- global half of `apply_multipliers` -/
def gApplyMult (D : Dims) (G : GStore α) (e : String × DInfo α) : GStore α :=
  if e.2.mult ∧ e.2.glob then
    match sget G (multName e.1) with
    | none => G
    | some marr => serase (sput G e.1 (mulInto (gGet D G e.1 e.2) marr)) (multName e.1)
  else G

def scanSectionG (m : Mode) (D : Dims) (T : Tables α) (sec : Section) (sg : St α × GStore α) (ks : List (Kw α)) :
    Option (St α × GStore α) :=
  match foldRecs (kwStepG m D T sec) ((sg.1, Box.global D), sg.2) ks with
  | none => none
  | some r =>
    some (if sec = .edit then (applyMultipliers m D T r.1.1, T.dbl.foldl (gApplyMult D) r.2) else (r.1.1, r.2))

def runProgG (m : Mode) (D : Dims) (T : Tables α) (s0 : St α) (P : Prog α) : Option (St α × GStore α) :=
  match scanSectionG m D T .grid (s0, []) P.grid with
  | none => none
  | some s1 =>
    match scanSectionG m D T .edit s1 P.edit with
    | none => none
    | some s2 =>
      match scanSectionG m D T .regions (resetActnum m D s2.1, s2.2) P.regions with
      | none => none
      | some s3 =>
        match scanSectionG m D T .props s3 P.props with
        | none => none
        | some s4 => scanSectionG m D T .solution s4 P.solution

/-- observation with the real `get_global`: the global storage for `global` keywords -/
def observeDG (m : Mode) (D : Dims) (T : Tables α) (s : St α) (G : GStore α) (kw : String) : Option (Obs α) :=
  match sget T.dbl kw with
  | none => none
  | some info =>
    match observeD m D T s kw with
    | none => none
    | some o => some (if info.glob then { o with glob := (gGet D G kw info).map (·.v) } else o)

def observeG (m : Mode) (D : Dims) (T : Tables α) (sg : St α × GStore α) : Result α :=
  ⟨sg.1.act, T.dbl.map (fun p => (p.1, observeDG m D T sg.1 sg.2 p.1)),
            T.int.map (fun p => (p.1, observeI m D T sg.1 p.1))⟩

def runObserveG (m : Mode) (D : Dims) (T : Tables α) (A : List Bool) (P : Prog α) : Option (Result α) :=
  match runProgG m D T (initSt A) P with
  | none => none
  | some sg => some (observeG m D T sg)

end Global

section Pre
variable {α : Type} [RealOps α]

/-! ## The ACTNUM-only pre-pass (`FieldProps(deck, grid)`, `scanGRIDSectionOnlyACTNUM`)

`EclipseGrid` obtains its ACTNUM by running a scratch FieldProps with ALL cells active over the
GRID section, looking only at the ACTNUM data keyword, EQUALS (every record of it) and
BOX/ENDBOX; a cell is active iff the resulting ACTNUM value is > 0 (`EclipseGrid::resetACTNUM`). -/

def Kw.inPrepass : Kw α → Bool
  | .box _ => true
  | .endbox => true
  | .dataI kw _ => kw == "ACTNUM"
  | .scalar op _ => op == .equal
  | _ => false

def prepassAct (D : Dims) (T : Tables α) (grid : List (Kw α)) : Option (List Bool) :=
  let A0 := List.replicate D.size true
  match scanSection .impl D T .grid (initSt A0) (grid.filter Kw.inPrepass) with
  | none => none
  | some s =>
    match sget s.ints "ACTNUM" with
    | none => some A0
    | some a => some (a.map fun c => decide (c.v > 0))

/-- `EclipseState(deck)`: pre-pass for the ACTNUM, then the real constructor -/
def runDeck (m : Mode) (D : Dims) (T : Tables α) (P : Prog α) : Option (Result α) :=
  match prepassAct D T P.grid with
  | none => none
  | some A => runObserveG m D T A P


end Pre

/-! ## BoxManager (BoxManager.cpp; not used by FieldProps itself, which drives `Box` directly) -/

/-- `m_inputBox`, `m_keywordBox` (the global box is implicit) -/
structure BoxMgr where
  input : Option Box
  keyword : Option Box
  deriving DecidableEq, Repr

/-- `BoxManager::getActiveBox`: keyword box, else input box, else the global box -/
def BoxMgr.active (D : Dims) (m : BoxMgr) : Box :=
  match m.keyword with
  | some b => b
  | none =>
    match m.input with
    | some b => b
    | none => Box.global D

inductive MgrOp where
  | setInput (i1 i2 j1 j2 k1 k2 : Int)
  | endInput
  | setKeyword (i1 i2 j1 j2 k1 k2 : Int)
  | endKeyword
  | endSection
  deriving Repr

/-- one call; `none` = the call throws (and leaves the manager unchanged) -/
def BoxMgr.step (D : Dims) (m : BoxMgr) : MgrOp → Option BoxMgr
  | .setInput i1 i2 j1 j2 k1 k2 => (Box.init D i1 i2 j1 j2 k1 k2).map fun b => { m with input := some b }
  | .setKeyword i1 i2 j1 j2 k1 k2 => (Box.init D i1 i2 j1 j2 k1 k2).map fun b => { m with keyword := some b }
  | .endKeyword => some { m with keyword := none }
  | .endInput => if m.keyword.isSome then none else some { m with input := none }
  | .endSection => if m.keyword.isSome then none else some { m with input := none }

end OpmVerif.FieldProps
