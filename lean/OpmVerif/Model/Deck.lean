/-
  Model of the keyword loop `parseState` / the head of `tryParseKeyword` / `newRawKeyword`
  (Parser.cpp) on the cleaned lines of the input: keyword line → deck name → parser keyword
  → size of the raw keyword (fixed, slash terminated, unknown, double slash, or read from an
  item of a keyword already in the deck: TABDIMS, EQLDIMS, …; table collections) → record
  assembly (`RawKw.feedLines`) → `ParserKeyword::parse` → next keyword; END stops, INCLUDE
  splices the cleaned text of the named file in front of the remaining input.

  The input stack of the C++ is represented by the flat list of lines still to be read
  (top file first).  Not modelled: ENDINC, PATHS, IMPORT, PYINPUT, SKIP/ENDSKIP, TITLE, code
  keywords, required/prohibited keyword checks, ParseContext policies other than the
  default (every problem is an exception = `none`), a record that runs past the end of an
  included file (undefined behaviour in the C++, see design.d/C20.lexer.md).

  Core Lean only.
-/
import OpmVerif.Model.RawKw

namespace OpmVerif.Deck
open OpmVerif.Lex OpmVerif.Tok OpmVerif.Scan OpmVerif.RawKw

inductive SizeSpec where
  | slash | unknown | doubleSlash
  | fixed (n : Nat)
  | other (kw : Bytes) (item : Nat) (table : Bool)   -- size = int item `item` of record 0 of the last `kw`
  deriving DecidableEq, Repr

structure KwDef where
  size : SizeSpec
  raw : Bool
  minSize : Option Nat
  schemas : List (List Item)
  alt : Bool
  dbl : Bool
  deriving DecidableEq, Repr

abbrev Table := List (Bytes × KwDef)

def lookup (tbl : Table) (name : Bytes) : Option KwDef :=
  match tbl.find? (fun p => p.1 == name) with
  | some p => some p.2
  | none => none

structure DeckKw where
  name : Bytes
  records : List (List Vals)
  deriving DecidableEq, Repr

abbrev DeckT := List DeckKw

def isAlpha (b : UInt8) : Bool := (65 ≤ b.toNat && b.toNat ≤ 90) || (97 ≤ b.toNat && b.toNat ≤ 122)
def isAlnum (b : UInt8) : Bool := isAlpha b || isDigit b

/-- `ParserKeyword::validDeckName`. -/
def validDeckName (n : Bytes) : Bool :=
  match n with
  | [] => false
  | c :: r => isAlpha c && r.all fun x => isAlnum x || x == 45 || x == 95 || x == 43

/-- parser keyword for a deck name (`newRawKeyword(deck_name, …)`): names longer than
eight characters are first tried by their first eight. -/
def findKw (tbl : Table) (name : Bytes) : Option (Bytes × KwDef) :=
  if name.length > 8 then
    match lookup tbl (name.take 8) with
    | some d => some (name.take 8, d)
    | none => match lookup tbl name with
      | some d => some (name, d)
      | none => none
  else match lookup tbl name with
    | some d => some (name, d)
    | none => none

/-- integer value of item `idx` of the first record of the last keyword `kw` in the deck. -/
def dimValue (deck : DeckT) (kw : Bytes) (idx : Nat) : Option Int :=
  match (deck.filter fun k => k.name == kw).getLast? with
  | none => none
  | some k =>
    match k.records with
    | [] => none
    | r :: _ =>
      match r[idx]? with
      | some [(Val.int i, st)] => if st == .empty then none else some i
      | _ => none

/-- `newRawKeyword(parserKeyword, …)`. -/
def newRaw (d : KwDef) (deck : DeckT) : Option Kw :=
  match d.size with
  | .slash => mkKw .slashTerminated d.raw none 0
  | .unknown => mkKw .unknown d.raw none 0
  | .doubleSlash => mkKw .doubleSlash d.raw none 0
  | .fixed n => mkKw .fixed d.raw d.minSize n
  | .other kw idx table =>
    match dimValue deck kw idx with
    | none => none                      -- PARSE_MISSING_DIMS_KEYWORD (throws) / no value
    | some v =>
      let t := v.toNat * (if d.alt then d.schemas.length else 1)
      mkKw (if table then .tableCollection else .fixed) d.raw d.minSize t

def nameEND : Bytes := [69, 78, 68]
def nameINCLUDE : Bytes := [73, 78, 67, 76, 85, 68, 69]

/-- the keyword loop. `recog`: `Parser::isRecognizedKeyword`; `files`: INCLUDE path → content. -/
def parseLoop (cv : Conv) (tbl : Table) (recog : Bytes → Bool) (files : Bytes → Option Bytes) :
    Nat → DeckT → List Bytes → Option DeckT
  | 0, _, _ => none
  | _ + 1, deck, [] => some deck
  | fuel + 1, deck, line :: rest =>
    if line.isEmpty then parseLoop cv tbl recog files fuel deck rest
    else
      let dn := makeDeckName line
      if !validDeckName dn then none
      else
        match findKw tbl dn with
        | none => none
        | some (name, d) =>
          match newRaw d deck with
          | none => none
          | some k0 =>
            match (if k0.finished then some (k0, rest) else feedLines recog k0 [] [] rest) with
            | none => none
            | some (k, rest') =>
              if !k.finished then none
              else if name == nameEND then some deck
              else if name == nameINCLUDE then
                match k.records with
                | (tok :: _) :: _ =>
                  match readString tok with
                  | none => none
                  | some path =>
                    match files path with
                    | none => none
                    | some content =>
                      parseLoop cv tbl recog files fuel deck (splitLines (fastClean (content ++ [10])) ++ rest')
                | _ => none
              else
                match (if d.dbl then parseRecordsDouble cv d.schemas d.alt 0 k.records
                       else parseRecords cv d.schemas d.alt 0 k.records) with
                | none => none
                | some rs => parseLoop cv tbl recog files fuel (deck ++ [⟨name, rs⟩]) rest'

/-- `Parser::parseString`. -/
def parseDeckText (cv : Conv) (tbl : Table) (recog : Bytes → Bool) (files : Bytes → Option Bytes)
    (fuel : Nat) (text : Bytes) : Option DeckT :=
  parseLoop cv tbl recog files fuel [] (splitLines (fastClean (text ++ [10])))

end OpmVerif.Deck
