/-
  Model of the keyword loop `parseState` / the head of `tryParseKeyword` / `newRawKeyword`
  (Parser.cpp) on the cleaned lines of the input: keyword line → deck name → parser keyword
  → size of the raw keyword (fixed, slash terminated, unknown, double slash, or read from an
  item of a keyword already in the deck: TABDIMS, EQLDIMS, …; table collections) → record
  assembly (`RawKw.feedLines`) → `ParserKeyword::parse` → next keyword; END stops, INCLUDE
  splices the cleaned text of the named file in front of the remaining input.

  The input stack of the C++ is represented by the flat list of lines still to be read
  (top file first), the end of an included file by the marker `RawKw.eofMark`: a record that
  runs past it is an error (fix d37f2f297), ENDINC drops the lines up to it.  Second round:
  TITLE (`is_title`: the next line, even an empty one, is the record; the slash is kept),
  SKIP/SKIP100 … ENDSKIP between keywords, ENDINC, PATHS (alias list handed to the file
  lookup).  Not modelled: IMPORT, PYINPUT and code keywords, a SKIP block inside the records
  of a keyword, required/prohibited keyword checks, ParseContext policies other than the
  default (every problem is an exception = `none`).

  Core Lean only.
-/
import OpmVerif.Model.RawKw

namespace OpmVerif.Deck
open OpmVerif.Lex OpmVerif.Tok OpmVerif.Scan OpmVerif.RawKw

inductive SizeSpec where
  | slash | unknown | doubleSlash
  | fixed (n : Nat)
  | other (kw : Bytes) (item : Nat) (table : Bool)   -- size = int item `item` of record 0 of the last `kw`
  deriving DecidableEq, Repr

structure KwDef where
  size : SizeSpec
  raw : Bool
  minSize : Option Nat
  schemas : List (List Item)
  alt : Bool
  dbl : Bool
  deriving DecidableEq, Repr

abbrev Table := List (Bytes × KwDef)

def lookup (tbl : Table) (name : Bytes) : Option KwDef :=
  match tbl.find? (fun p => p.1 == name) with
  | some p => some p.2
  | none => none

structure DeckKw where
  name : Bytes
  records : List (List Vals)
  deriving DecidableEq, Repr

abbrev DeckT := List DeckKw

def isAlpha (b : UInt8) : Bool := (65 ≤ b.toNat && b.toNat ≤ 90) || (97 ≤ b.toNat && b.toNat ≤ 122)
def isAlnum (b : UInt8) : Bool := isAlpha b || isDigit b

/-- `ParserKeyword::validDeckName`. -/
def validDeckName (n : Bytes) : Bool :=
  match n with
  | [] => false
  | c :: r => isAlpha c && r.all fun x => isAlnum x || x == 45 || x == 95 || x == 43

/-- parser keyword for a deck name (`newRawKeyword(deck_name, …)`): names longer than
eight characters are first tried by their first eight. -/
def findKw (tbl : Table) (name : Bytes) : Option (Bytes × KwDef) :=
  if name.length > 8 then
    match lookup tbl (name.take 8) with
    | some d => some (name.take 8, d)
    | none => match lookup tbl name with
      | some d => some (name, d)
      | none => none
  else match lookup tbl name with
    | some d => some (name, d)
    | none => none

/-- integer value of item `idx` of the first record of the last keyword `kw` in the deck. -/
def dimValue (deck : DeckT) (kw : Bytes) (idx : Nat) : Option Int :=
  match (deck.filter fun k => k.name == kw).getLast? with
  | none => none
  | some k =>
    match k.records with
    | [] => none
    | r :: _ =>
      match r[idx]? with
      | some [(Val.int i, st)] => if st == .empty then none else some i
      | _ => none

/-- `newRawKeyword(parserKeyword, …)`. -/
def newRaw (d : KwDef) (deck : DeckT) : Option Kw :=
  match d.size with
  | .slash => mkKw .slashTerminated d.raw none 0
  | .unknown => mkKw .unknown d.raw none 0
  | .doubleSlash => mkKw .doubleSlash d.raw none 0
  | .fixed n => mkKw .fixed d.raw d.minSize n
  | .other kw idx table =>
    match dimValue deck kw idx with
    | none => none                      -- PARSE_MISSING_DIMS_KEYWORD (throws) / no value
    | some v =>
      let t := v.toNat * (if d.alt then d.schemas.length else 1)
      mkKw (if table then .tableCollection else .fixed) d.raw d.minSize t

def nameEND : Bytes := [69, 78, 68]
def nameINCLUDE : Bytes := [73, 78, 67, 76, 85, 68, 69]
def nameTITLE : Bytes := [84, 73, 84, 76, 69]
def nameSKIP : Bytes := [83, 75, 73, 80]
def nameSKIP100 : Bytes := [83, 75, 73, 80, 49, 48, 48]
def nameENDSKIP : Bytes := [69, 78, 68, 83, 75, 73, 80]
def nameENDINC : Bytes := [69, 78, 68, 73, 78, 67]
def namePATHS : Bytes := [80, 65, 84, 72, 83]

/-- `ParseContext::isActiveSkipKeyword` under the default context (`m_input_skip_mode = "100"`):
SKIP and SKIP100 start a skipped block, SKIP300 does not. -/
def isSkipName (n : Bytes) : Bool := n == nameSKIP || n == nameSKIP100

/-- `skip = true` in `tryParseKeyword` with no keyword open: lines are dropped up to and
including the next line whose first word is ENDSKIP (end-of-file markers included: skipping
goes on in the including file). -/
def dropSkip : List Bytes → List Bytes
  | [] => []
  | l :: rest => if makeDeckName l == nameENDSKIP then rest else dropSkip rest

/-- `ParserState::closeFile()` (ENDINC): the rest of the file on top of the input stack. -/
def dropFile : List Bytes → List Bytes
  | [] => []
  | l :: rest => if l = eofMark then rest else dropFile rest

/-- the line `tryParseKeyword` takes as the text of TITLE: the next line that is not
skipped — empty lines count (`is_title`), end-of-file markers do not (the record buffer
is empty), SKIP … ENDSKIP blocks are honoured.  `none`: the input ends first. -/
def titleNext : Bool → List Bytes → Option (Bytes × List Bytes)
  | _, [] => none
  | skip, l :: rest =>
    if l = eofMark then titleNext skip rest
    else if isSkipName (makeDeckName l) then titleNext true rest
    else if makeDeckName l == nameENDSKIP then titleNext false rest
    else if skip then titleNext true rest
    else some (l, rest)

def defaultTitle : Bytes :=
  [111, 112, 109, 47, 102, 108, 111, 119, 32, 115, 105, 109, 117, 108, 97, 116, 105, 111, 110]   -- "opm/flow simulation"

/-- the raw record of TITLE: the line after `del_after_first_slash` — the slash, if any, is
NOT removed (`RawRecord(record_buffer)` on the whole buffer); an empty line gives the
default title. -/
def titleRecord (line : Bytes) : Option (List Bytes) :=
  if (delAfterFirstSlash line).isEmpty then rawRecord defaultTitle else rawRecord (delAfterFirstSlash line)

/-- PATHS: `addPathAlias(item 0, item 1)` for every raw record; `std::map::emplace` keeps the
first value of a name (the alias list is searched front to back). -/
def pathAliases : List (List Bytes) → Option (List (Bytes × Bytes))
  | [] => some []
  | toks :: rest =>
    match toks with
    | a :: b :: _ =>
      match readString a, readString b, pathAliases rest with
      | some x, some y, some r => some ((x, y) :: r)
      | _, _, _ => none
    | _ => none        -- `m_recordItems.at(index)` throws

/-- what one round of the keyword loop asks for: stop with a result, or go on from a new
state (aliases, deck so far, lines still to be read). -/
inductive Next where
  | done (r : Option DeckT)
  | goto (al : List (Bytes × Bytes)) (deck : DeckT) (lines : List Bytes)

/-- the raw keyword for a keyword line and the lines left behind it: finished at creation
(size 0), TITLE (`is_title`), or the record loop `feedLines`. -/
def keywordRes (recog : Bytes → Bool) (dn : Bytes) (k0 : Kw) (rest : List Bytes) : Option (Kw × List Bytes) :=
  if k0.finished then some (k0, rest)
  else if dn == nameTITLE then
    match titleNext false rest with
    | none => none
    | some (l, rest') =>
      match titleRecord l with
      | none => none
      | some toks => some (k0.addRecord toks, rest')
  else feedLines recog k0 [] [] rest

/-- what `parseState` does with a raw keyword: END, ENDINC, PATHS, INCLUDE, or
`ParserKeyword::parse` and `deck.addKeyword`. -/
def dispatch (cv : Conv) (files : List (Bytes × Bytes) → Bytes → Option Bytes)
    (al : List (Bytes × Bytes)) (deck : DeckT) (name : Bytes) (d : KwDef) (k : Kw) (rest' : List Bytes) : Next :=
  if !k.finished then .done none
  else if name == nameEND then .done (some deck)
  else if name == nameENDINC then .goto al deck (dropFile rest')
  else if name == namePATHS then
    match pathAliases k.records with
    | none => .done none
    | some more => .goto (al ++ more) deck rest'
  else if name == nameINCLUDE then
    match k.records with
    | (tok :: _) :: _ =>
      match readString tok with
      | none => .done none
      | some path =>
        match files al path with
        | none => .done none
        | some content => .goto al deck (splitLines (fastClean (content ++ [10])) ++ eofMark :: rest')
    | _ => .done none
  else
    match (if d.dbl then parseRecordsDouble cv d.schemas d.alt 0 k.records
           else parseRecords cv d.schemas d.alt 0 k.records) with
    | none => .done none
    | some rs => .goto al (deck ++ [⟨name, rs⟩]) rest'

/-- one round of the keyword loop `parseState` (`tryParseKeyword` + the dispatch behind it).
`recog`: `Parser::isRecognizedKeyword`; `files`: path aliases (PATHS) and INCLUDE path →
content (`getIncludeFilePath` + `loadFile`; `$NAME` substitution and file lookup are a
parameter). -/
def parseStep (cv : Conv) (tbl : Table) (recog : Bytes → Bool)
    (files : List (Bytes × Bytes) → Bytes → Option Bytes) :
    List (Bytes × Bytes) → DeckT → List Bytes → Next
  | _, deck, [] => .done (some deck)
  | al, deck, line :: rest =>
    if line.isEmpty then .goto al deck rest
    else if line = eofMark then .goto al deck rest
    else
      let dn := makeDeckName line
      if isSkipName dn then .goto al deck (dropSkip rest)
      else if dn == nameENDSKIP then .goto al deck rest
      else if !validDeckName dn then .done none
      else
        match findKw tbl dn with
        | none => .done none
        | some (name, d) =>
          match newRaw d deck with
          | none => .done none
          | some k0 =>
            match keywordRes recog dn k0 rest with
            | none => .done none
            | some (k, rest') => dispatch cv files al deck name d k rest'

/-- the keyword loop: rounds until the input is used up (or END, or an error); `fuel`
bounds the number of rounds (only a file that includes itself needs unboundedly many). -/
def parseLoop (cv : Conv) (tbl : Table) (recog : Bytes → Bool)
    (files : List (Bytes × Bytes) → Bytes → Option Bytes) :
    Nat → List (Bytes × Bytes) → DeckT → List Bytes → Option DeckT
  | 0, _, _, _ => none
  | fuel + 1, al, deck, lines =>
    match parseStep cv tbl recog files al deck lines with
    | .done r => r
    | .goto al' deck' lines' => parseLoop cv tbl recog files fuel al' deck' lines'

/-- `Parser::parseString`. -/
def parseDeckText (cv : Conv) (tbl : Table) (recog : Bytes → Bool)
    (files : List (Bytes × Bytes) → Bytes → Option Bytes) (fuel : Nat) (text : Bytes) : Option DeckT :=
  parseLoop cv tbl recog files fuel [] [] (splitLines (fastClean (text ++ [10])))

end OpmVerif.Deck
