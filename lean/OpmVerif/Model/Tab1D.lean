/-
  Model of opm/material/common/Tabulated1DFunction.hpp (piecewise linear function of one
  variable) — shared by C14 (PVT) and C15 (saturation functions).

  Written once over an arbitrary scalar type `α` carrying `+ - * /`, `<`, `≤` and the
  literals 0 and 1, so that the same definitions run at `Float` in the driver (IEEE double,
  operation order of the C++ mirrored) and are reasoned about over a linearly ordered field
  in `Proofs/Tab1D.lean`.  Core Lean only.
-/
namespace OpmVerif.Tab1D

section
variable {α : Type} [Add α] [Sub α] [Mul α] [Div α] [LT α] [LE α]
  [DecidableLT α] [DecidableLE α] [OfNat α 0]

/-- `xValues_[i]`; out-of-range reads (never reached under the theorems' hypotheses) give 0. -/
def nth (xs : List α) (i : Nat) : α := xs.getD i 0

/-- The bisection loop of `findSegmentIndex` / `xSegmentIndex` / `ySegmentIndex`:
```
while (lowerIdx + 1 < upperIdx) {
    pivotIdx = (lowerIdx + upperIdx) / 2;
    if (x < xValues_[pivotIdx]) upperIdx = pivotIdx; else lowerIdx = pivotIdx;
}
```
with a fuel argument; `fuel = xs.length` always suffices (`bisect_fuel` in Proofs). -/
def bisect (xs : List α) (x : α) : Nat → Nat → Nat → Nat
  | 0, lo, _ => lo
  | fuel + 1, lo, hi =>
    if lo + 1 < hi then
      if x < nth xs ((lo + hi) / 2) then bisect xs x fuel lo ((lo + hi) / 2)
      else bisect xs x fuel ((lo + hi) / 2) hi
    else lo

/-- The index computation common to the 1-D and 2-D classes: the two end shortcuts
(`x <= xs[1]` → 0, `x >= xs[n-2]` → n-2) and the bisection between 1 and n-2. -/
def segIdx (xs : List α) (x : α) : Nat :=
  if x ≤ nth xs 1 then 0
  else if nth xs (xs.length - 2) ≤ x then xs.length - 2
  else bisect xs x xs.length 1 (xs.length - 2)

/-- Outcome of `findSegmentIndex`. -/
inductive SegErr
  | outOfRange   -- `!extrapolate && !applies(x)`            → std::logic_error
  | tooFew       -- `numSamples() < 2`                        → std::logic_error
  | problematic  -- "Problematic interpolation/extrapolation segment" → std::runtime_error
  deriving DecidableEq, Repr

/-- `Tabulated1DFunction::findSegmentIndex(x, extrapolate)` for a finite `x`
(the `isfinite` test is applied by the caller of the model, see `Tab1DIO`). -/
def findSegmentIndex (xs : List α) (x : α) (extrapolate : Bool) : Except SegErr Nat :=
  if extrapolate = false ∧ ¬ (nth xs 0 ≤ x ∧ x ≤ nth xs (xs.length - 1)) then .error .outOfRange
  else if xs.length < 2 then .error .tooFew
  else if x ≤ nth xs 1 then .ok 0
  else if nth xs (xs.length - 2) ≤ x then .ok (xs.length - 2)
  else
    if x < nth xs (bisect xs x xs.length 1 (xs.length - 2)) ∨
       nth xs (bisect xs x xs.length 1 (xs.length - 2) + 1) < x then .error .problematic
    else .ok (bisect xs x xs.length 1 (xs.length - 2))

/-- `eval(x, SegmentIndex)`: `y0 + (y1 - y0)*(x - x0)/(x1 - x0)` — the product is formed
first, then divided, exactly as the C++ expression associates. -/
def evalSeg (xs ys : List α) (i : Nat) (x : α) : α :=
  nth ys i + (nth ys (i + 1) - nth ys i) * (x - nth xs i) / (nth xs (i + 1) - nth xs i)

/-- `evalDerivative_(x, segIdx)`: `(y1 - y0)/(x1 - x0)`. -/
def derivSeg (xs ys : List α) (i : Nat) : α :=
  (nth ys (i + 1) - nth ys i) / (nth xs (i + 1) - nth xs i)

/-- `eval(x, extrapolate)`. -/
def eval (xs ys : List α) (x : α) (extrapolate : Bool) : Except SegErr α :=
  match findSegmentIndex xs x extrapolate with
  | .error e => .error e
  | .ok i => .ok (evalSeg xs ys i x)

/-- `evalDerivative(x, extrapolate)`. -/
def evalDerivative (xs ys : List α) (x : α) (extrapolate : Bool) : Except SegErr α :=
  match findSegmentIndex xs x extrapolate with
  | .error e => .error e
  | .ok i => .ok (derivSeg xs ys i)

/-- `eval(x, /*extrapolate=*/true)` as a total function (what the PVT and saturation
function classes call): the checks of `findSegmentIndex` cannot fire for a table with at
least two strictly increasing samples (`findSegmentIndex_extrap` in Proofs). -/
def evalX (xs ys : List α) (x : α) : α := evalSeg xs ys (segIdx xs x) x

def derivX (xs ys : List α) (x : α) : α := derivSeg xs ys (segIdx xs x)

/-- `applies(x)`. -/
def applies (xs : List α) (x : α) : Bool := nth xs 0 ≤ x ∧ x ≤ nth xs (xs.length - 1)

/-! ### Construction: `setXYArrays/Containers(..., sortInputs)`.

`sortInput_` sorts the sample *indices* with `std::sort` on the x values; for distinct x
values the outcome is the unique increasing arrangement, which insertion sort produces too.
With `sortInputs = false` the arrays are reversed when `x[0] > x[n-1]`. -/

def insertPair (p : α × α) : List (α × α) → List (α × α)
  | [] => [p]
  | q :: r => if p.1 < q.1 then p :: q :: r else q :: insertPair p r

def sortPairs : List (α × α) → List (α × α)
  | [] => []
  | p :: r => insertPair p (sortPairs r)

def setXY (xs ys : List α) (sortInputs : Bool) : List α × List α :=
  if sortInputs then
    ((sortPairs (xs.zip ys)).map Prod.fst, (sortPairs (xs.zip ys)).map Prod.snd)
  else if nth xs (xs.length - 1) < nth xs 0 then (xs.reverse, ys.reverse)
  else (xs, ys)

/-- `updateMonotonicity_` folded over the segments `i ≤ k < j` starting from `r`:
3 constant, 1 increasing, -1 decreasing, 0 not monotonic. -/
def updMono (ys : List α) (i : Nat) (r : Int) : Int :=
  if nth ys i < nth ys (i + 1) then (if r = 3 ∨ r = 1 then 1 else 0)
  else if nth ys (i + 1) < nth ys i then (if r = 3 ∨ r = -1 then -1 else 0)
  else r

end

end OpmVerif.Tab1D
