/-
  Model of the UDQ expression parser
  (opm/input/eclipse/Schedule/UDQ/UDQParser.cpp, anonymous class `UDQParser`).

  The C++ parser walks a `std::vector<UDQToken>` with a position index; here the position is
  the remaining token list.  Every C++ function is one function below with the same control
  flow; the `while (true)` loops of `parse_mul`/`parse_add` are the `…Loop` functions which
  carry the `nodes` vector (first node + reversed list of (operator, right operand)) exactly as
  the code does, and `build` is the final `set_left` chain.  Recursion is structural on a fuel
  argument; `Proofs/UdqParse.lean` shows `fuelFor` is always enough.

  `parse_factor` reached with no token left returns an error node without advancing (the
  `UDQTokenType::end` test; before that repair the code moved `current_pos` past
  `tokens.size()` and indexed the vector out of range).
-/
import OpmVerif.Model.Basic
import OpmVerif.Gen.UdqEnums

namespace OpmVerif.Udq
open OpmVerif.Gen.UdqEnums

/-- `std::variant<std::string,double>`; the double is kept as its bit pattern. -/
inductive Val where
  | str (s : String)
  | num (bits : UInt64)
  deriving DecidableEq, Repr, Inhabited

/-- What `UDQParser::current()` returns (`UDQParseNode`): type, value, selector. -/
structure Tok where
  ty : TT
  val : Val
  sel : List String
  deriving DecidableEq, Repr, Inhabited

/-- The token classes the parser distinguishes. -/
inductive Cls where
  | add | sub | mul | div | pow | lp | rp | func | cmp | set | other
  deriving DecidableEq, Repr

/-- `UDQ::scalarFunc(t) || UDQ::elementalUnaryFunc(t)` etc. as membership in the generated sets. -/
def isFunc (t : TT) : Bool := scalar_func.contains t || unary_elemental_func.contains t
def isCmp (t : TT) : Bool := cmp_func.contains t
def isSet (t : TT) : Bool := set_func.contains t

def cls (t : TT) : Cls :=
  if t = .binary_op_add then .add
  else if t = .binary_op_sub then .sub
  else if t = .binary_op_mul then .mul
  else if t = .binary_op_div then .div
  else if t = .binary_op_pow then .pow
  else if t = .open_paren then .lp
  else if t = .close_paren then .rp
  else if isFunc t then .func
  else if isCmp t then .cmp
  else if isSet t then .set
  else .other

/-- Node payload of `UDQASTNode`: type, value, selector, sign (`neg` ⇔ `sign == -1.0`). -/
structure Head where
  ty : TT
  val : Val
  sel : List String
  neg : Bool
  deriving DecidableEq, Repr, Inhabited

/-- `UDQASTNode` trees as the parser builds them (no child / left only / left and right). -/
inductive Ast where
  | leaf (h : Head)
  | un (h : Head) (a : Ast)
  | bin (h : Head) (l r : Ast)
  deriving DecidableEq, Repr, Inhabited

def Ast.head : Ast → Head
  | .leaf h => h
  | .un h _ => h
  | .bin h _ _ => h

def Head.scale (h : Head) (neg : Bool) : Head := { h with neg := xor h.neg neg }

/-- `sign * node` (`UDQASTNode::scale`): only the root's sign changes. -/
def Ast.scale (neg : Bool) : Ast → Ast
  | .leaf h => .leaf (h.scale neg)
  | .un h a => .un (h.scale neg) a
  | .bin h l r => .bin (h.scale neg) l r

/-- `UDQASTNode { UDQTokenType::error }` -/
def errNode : Ast := .leaf ⟨.error, .str "", [], false⟩

/-- operator / function node payload: `UDQASTNode(type, value)` — no selector, sign +1 -/
def opHead (t : Tok) : Head := ⟨t.ty, t.val, [], false⟩
/-- leaf payload: `UDQASTNode(type, value, selector)` then `sign * node` -/
def leafHead (t : Tok) (neg : Bool) : Head := ⟨t.ty, t.val, t.sel, neg⟩

inductive Res where
  | fuel
  | ok (a : Ast) (rest : List Tok)
  deriving DecidableEq, Repr, Inhabited

/-- The `set_left` chain at the end of `parse_mul`/`parse_add`: `nodes.back()` is the root, its
left child is built from the nodes before it.  `acc` is `nodes[1..]` reversed. -/
def build (n0 : Ast) : List (Head × Ast) → Ast
  | [] => n0
  | (h, r) :: prev => .bin h (build n0 prev) r

/-- after an inner `parse_set()` of `( … `: the closing parenthesis test -/
def closeParen (neg : Bool) (mk : Ast → Ast) (inner : Ast) (rest : List Tok) : Res :=
  match rest with
  | [] => .ok errNode []
  | c :: r => if cls c.ty = .rp then .ok ((mk inner).scale neg) r else .ok errNode rest

mutual

/-- `UDQParser::parse_factor`, first part: optional unary sign. -/
def parseFactor : Nat → List Tok → Res
  | 0, _ => .fuel
  | n + 1, ts =>
    match ts with
    | [] => .ok errNode []      -- `curr.type == end`: error node, nothing consumed
    | t :: r =>
      if cls t.ty = .add then parseAtom n false r
      else if cls t.ty = .sub then parseAtom n true r
      else parseAtom n false ts

/-- `UDQParser::parse_factor`, second part: parenthesis / function call / leaf. -/
def parseAtom : Nat → Bool → List Tok → Res
  | 0, _, _ => .fuel
  | n + 1, neg, ts =>
    match ts with
    | [] => .ok errNode []      -- a sign was the last token
    | c :: r =>
      if cls c.ty = .lp then
        match parseSet n r with
        | .fuel => .fuel
        | .ok inner rest => closeParen neg id inner rest
      else if cls c.ty = .func then
        match r with
        | [] => .ok errNode []
        | c2 :: r2 =>
          if cls c2.ty = .lp then
            match parseSet n r2 with
            | .fuel => .fuel
            | .ok arg rest => closeParen neg (Ast.un (opHead c)) arg rest
          else .ok errNode r
      else if c.ty = .number ∨ c.ty = .ecl_expr then .ok (.leaf (leafHead c neg)) r
      else .ok errNode ts      -- an operator, parenthesis or bracket where an operand is required

/-- `UDQParser::parse_pow` (exponent parsed with `parse_pow`: right-associative). -/
def parsePow : Nat → List Tok → Res
  | 0, _ => .fuel
  | n + 1, ts =>
    match parseFactor n ts with
    | .fuel => .fuel
    | .ok left rest =>
      match rest with
      | [] => .ok left []
      | c :: r =>
        if cls c.ty = .pow then
          match r with
          | [] => .ok errNode []
          | _ :: _ =>
            match parsePow n r with
            | .fuel => .fuel
            | .ok right rest2 => .ok (.bin (opHead c) left right) rest2
        else .ok left rest

/-- `UDQParser::parse_mul`: first operand, then the loop. -/
def parseMul : Nat → List Tok → Res
  | 0, _ => .fuel
  | n + 1, ts =>
    match parsePow n ts with
    | .fuel => .fuel
    | .ok a rest => parseMulLoop n a [] rest

/-- the `while (true)` of `parse_mul` after an operand has been pushed -/
def parseMulLoop : Nat → Ast → List (Head × Ast) → List Tok → Res
  | 0, _, _, _ => .fuel
  | n + 1, n0, acc, rest =>
    match rest with
    | [] => .ok (build n0 acc) []
    | c :: r =>
      if cls c.ty = .mul ∨ cls c.ty = .div then
        match r with
        | [] => .ok errNode []
        | _ :: _ =>
          match parsePow n r with
          | .fuel => .fuel
          | .ok b rest2 => parseMulLoop n n0 ((opHead c, b) :: acc) rest2
      else .ok (build n0 acc) rest

/-- `UDQParser::parse_add` -/
def parseAdd : Nat → List Tok → Res
  | 0, _ => .fuel
  | n + 1, ts =>
    match parseMul n ts with
    | .fuel => .fuel
    | .ok a rest => parseAddLoop n a [] rest

def parseAddLoop : Nat → Ast → List (Head × Ast) → List Tok → Res
  | 0, _, _, _ => .fuel
  | n + 1, n0, acc, rest =>
    match rest with
    | [] => .ok (build n0 acc) []
    | c :: r =>
      if cls c.ty = .add ∨ cls c.ty = .sub then
        match r with
        | [] => .ok errNode []
        | _ :: _ =>
          match parseMul n r with
          | .fuel => .fuel
          | .ok b rest2 => parseAddLoop n n0 ((opHead c, b) :: acc) rest2
      else if cls c.ty = .rp ∨ cls c.ty = .cmp ∨ cls c.ty = .set then .ok (build n0 acc) rest
      else .ok errNode rest

/-- `UDQParser::parse_cmp` (right operand via `parse_cmp`: right-associative) -/
def parseCmp : Nat → List Tok → Res
  | 0, _ => .fuel
  | n + 1, ts =>
    match parseAdd n ts with
    | .fuel => .fuel
    | .ok left rest =>
      match rest with
      | [] => .ok left []
      | c :: r =>
        if cls c.ty = .cmp then
          match r with
          | [] => .ok errNode []
          | _ :: _ =>
            match parseCmp n r with
            | .fuel => .fuel
            | .ok right rest2 => .ok (.bin (opHead c) left right) rest2
        else .ok left rest

/-- `UDQParser::parse_set` (right operand via `parse_set`: right-associative) -/
def parseSet : Nat → List Tok → Res
  | 0, _ => .fuel
  | n + 1, ts =>
    match parseCmp n ts with
    | .fuel => .fuel
    | .ok left rest =>
      match rest with
      | [] => .ok left []
      | c :: r =>
        if cls c.ty = .set then
          match r with
          | [] => .ok errNode []
          | _ :: _ =>
            match parseSet n r with
            | .fuel => .fuel
            | .ok right rest2 => .ok (.bin (opHead c) left right) rest2
        else .ok left rest

end

/-- Enough fuel for any token list (proved in `Proofs/UdqParse.lean`). -/
def fuelFor (ts : List Tok) : Nat := 8 * ts.length + 8

/-- `parser.parse_set()` on the whole token vector. -/
def parseTokens (ts : List Tok) : Res := parseSet (fuelFor ts) ts

/-- Outcome of `parseUDQExpression` before the type checks. -/
inductive Parsed where
  | ast (a : Ast)
  | extra            -- "Extra unhandled data starting with item …"
  | invalid          -- `!tree.valid()`
  | fuel
  deriving DecidableEq, Repr

/-- `UDQASTNode::valid()`: no error node anywhere in the tree -/
def Ast.valid : Ast → Bool
  | .leaf h => h.ty != .error
  | .un h a => h.ty != .error && a.valid
  | .bin h l r => h.ty != .error && l.valid && r.valid

def parse (ts : List Tok) : Parsed :=
  match parseTokens ts with
  | .fuel => .fuel
  | .ok a [] => if a.valid then .ast a else .invalid
  | .ok _ (_ :: _) => .extra

/-! ### The documented grammar as a printer

Ranks (higher binds tighter): 5 factor (leaf, function call, parenthesis, unary sign),
4 `^`, 3 `* /`, 2 `+ -`, 1 comparisons, 0 union operators. -/

def natLevel : Ast → Nat
  | .leaf _ => 5
  | .un _ _ => 5
  | .bin h _ _ =>
    match cls h.ty with
    | .pow => 4
    | .mul => 3 | .div => 3
    | .add => 2 | .sub => 2
    | .cmp => 1
    | .set => 0
    | _ => 5

/-- rank at which the left / right operand of a binary node is printed -/
def lvlL (h : Head) : Nat :=
  match cls h.ty with
  | .pow => 5           -- base is a factor
  | .mul => 3 | .div => 3   -- left-associative
  | .add => 2 | .sub => 2   -- left-associative
  | .cmp => 2
  | .set => 1
  | _ => 5
def lvlR (h : Head) : Nat :=
  match cls h.ty with
  | .pow => 4           -- right-associative
  | .mul => 4 | .div => 4
  | .add => 3 | .sub => 3
  | .cmp => 1           -- right-associative (as the code is)
  | .set => 0           -- right-associative (as the code is)
  | _ => 5

def Ast.isBin : Ast → Bool
  | .bin _ _ _ => true
  | _ => false

def lpTok : Tok := ⟨.open_paren, .str "(", []⟩
def rpTok : Tok := ⟨.close_paren, .str ")", []⟩
def minusTok : Tok := ⟨.binary_op_sub, .str "-", []⟩
def Head.tok (h : Head) : Tok := ⟨h.ty, h.val, h.sel⟩

/-- Put the already printed body of `e` into a context of rank `lvl`. -/
def wrap (lvl : Nat) (e : Ast) (body : List Tok) : List Tok :=
  if e.head.neg then
    minusTok :: (if e.isBin then lpTok :: (body ++ [rpTok]) else body)
  else if lvl ≤ natLevel e then body
  else lpTok :: (body ++ [rpTok])

/-- tokens of `e` without regard to its own sign / outer parentheses -/
def renderBody : Ast → List Tok
  | .leaf h => [h.tok]
  | .un h a => h.tok :: lpTok :: (wrap 0 a (renderBody a) ++ [rpTok])
  | .bin h l r => wrap (lvlL h) l (renderBody l) ++ h.tok :: wrap (lvlR h) r (renderBody r)

def renderAt (lvl : Nat) (e : Ast) : List Tok := wrap lvl e (renderBody e)
def render (e : Ast) : List Tok := renderAt 0 e

/-- ASTs of documented expressions: leaves are numbers or quantity names, unary nodes are function calls, binary nodes carry a binary operator; operator and
function nodes have no selector. -/
def WF : Ast → Prop
  | .leaf h => h.ty = .number ∨ h.ty = .ecl_expr
  | .un h a => cls h.ty = .func ∧ h.sel = [] ∧ WF a
  | .bin h l r =>
    (cls h.ty = .pow ∨ cls h.ty = .mul ∨ cls h.ty = .div ∨ cls h.ty = .add ∨ cls h.ty = .sub
      ∨ cls h.ty = .cmp ∨ cls h.ty = .set) ∧ h.sel = [] ∧ WF l ∧ WF r

end OpmVerif.Udq
