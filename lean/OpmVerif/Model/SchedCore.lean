/-
  Concrete semantics of a core SCHEDULE keyword set over an observation record, mirroring
  `Schedule::iterateScheduleSection` (create_next; handlers; end_report) and the handlers
  WELSPECS, COMPDAT, WCONPROD, WCONINJE, WELOPEN (well and connection form), WELTARG, WEFAC,
  GRUPTREE, GEFAC, GCONPROD, plus the ACTIONX ... ENDACTIO registry.

  The state is split into channels so that what a handler may read and write is fixed by its
  *type* (this is what makes the C04 commutation argument structural):

    p    : Props    wells (insertion order) with their properties, groups, action registry
    c    : ConnMap  well name ↦ connections (cell, state)
    st   : StatMap  well name ↦ well status
    mark : wells carrying ACTIONX_WELL_EVENT at this report step

  A *property* record operation reads `p` and `c` and produces a new `p` plus a list of status
  writes; a *connection* record operation reads `p` and produces a new `c`.  No operation reads
  `st` or `mark` (in the C++ the status is read only to emit events/messages, which are outside
  the observation record).  Numeric values are opaque tokens (the hex bit pattern of the double
  in the deck); the model never computes with them.

  Not modelled (see design.d/C03.md): role switch injector -> producer by WCONPROD (`unsupported`),
  events other than the ACTIONX marker, WLIST, VFP/THP, guide rates, UDQ-valued items.
-/
import OpmVerif.Model.SchedDeck

namespace OpmVerif.Sched

abbrev Val := String

inductive Err | input | unsupported
deriving DecidableEq, Repr

/-- Well::Status. -/
inductive Status | open_ | stop | shut | auto
deriving DecidableEq, Repr

structure Conn where
  i : Nat
  j : Nat
  k : Nat
  /-- Connection::State: 1 OPEN, 2 SHUT, 3 AUTO -/
  state : Nat
deriving DecidableEq, Repr

/-- WellProductionProperties (observed part).  `cmode`/`ctrl` use the enum values of
`Well::ProducerCMode` (ORAT 1, WRAT 2, GRAT 4, LRAT 8, RESV 32, BHP 64, GRUP 256, UNDEFINED 1024). -/
structure ProdP where
  cmode : Nat := 1024
  ctrl : Nat := 0
  pred : Bool := true
  orat : Val := "-"
  wrat : Val := "-"
  grat : Val := "-"
  lrat : Val := "-"
  resv : Val := "-"
  bhp : Val := "-"
deriving DecidableEq, Repr

/-- WellInjectionProperties (observed part); `Well::InjectorCMode`: RATE 1, RESV 2, BHP 4,
THP 8, GRUP 16, UNDEFINED 512. -/
structure InjP where
  itype : String := "WATER"
  cmode : Nat := 512
  ctrl : Nat := 0
  pred : Bool := true
  rate : Val := "-"
  resv : Val := "-"
  bhp : Val := "-"
deriving DecidableEq, Repr

structure WellP where
  group : String
  headI : Nat
  headJ : Nat
  producer : Bool := true
  prod : ProdP := {}
  inj : InjP := {}
  efac : Val
deriving DecidableEq, Repr

/-- Group (observed part); `Group::ProductionCMode`: NONE 0, ORAT 1, WRAT 2, GRAT 4, LRAT 8,
CRAT 16, RESV 32, PRBL 64, FLD 128. -/
structure GroupP where
  parent : String
  groups : List String := []
  wells : List String := []
  gefac : Val
  cmode : Nat := 0
  ctrl : Nat := 0
  oil : Val := "-"
  water : Val := "-"
  gas : Val := "-"
  liquid : Val := "-"
deriving DecidableEq, Repr

/-- Constants of the run the harness passes in (values the code derives from the unit system). -/
structure Consts where
  one : Val       -- 1.0  (initial efficiency factors)
  zero : Val      -- token of a defaulted UDA item (not a number: `-`)
  bhpProd : Val   -- default producer BHP target in deck units
  bhpInj : Val    -- default injector BHP limit in deck units
deriving DecidableEq, Repr

structure WconprodRec where
  pat : String
  status : Status
  cmode : Option Nat
  orat : Option Val
  wrat : Option Val
  grat : Option Val
  lrat : Option Val
  resv : Option Val
  bhp : Option Val
deriving DecidableEq, Repr

structure WconinjeRec where
  pat : String
  itype : String
  status : Status
  cmode : Nat
  rate : Option Val
  resv : Option Val
  bhp : Option Val
deriving DecidableEq, Repr

structure GconprodRec where
  pat : String
  cmode : Nat
  oil : Option Val
  water : Option Val
  gas : Option Val
  liquid : Option Val
  /-- EXCEED_PROC is something other than NONE -/
  exceed : Bool
deriving DecidableEq, Repr

/-- One record of a keyword. -/
inductive ROp
  | welspecs (name group : String) (i j : Nat)
  | wconprod (r : WconprodRec)
  | wconinje (r : WconinjeRec)
  | welopenW (pat : String) (status : Status)
  | weltarg (pat : String) (mode : String) (v : Val)
  | wefac (pat : String) (v : Val)
  | gruptree (child parent : String)
  | gefac (pat : String) (v : Val)
  | gconprod (r : GconprodRec)
  | compdat (pat : String) (i j k1 k2 : Nat) (state : Nat)
  | welopenC (pat : String) (cstate : Option Nat) (i j k : Nat)
deriving DecidableEq, Repr

/-- Connection operations write the connection channel; all others the property channel. -/
def ROp.isConn : ROp → Bool
  | .compdat .. => true
  | .welopenC .. => true
  | _ => false

inductive CKw
  | ops (name : String) (rs : List ROp)
  | actionx (aname : String)
  | endactio
deriving DecidableEq, Repr

structure Props where
  wells : List (String × WellP) := []
  groups : List (String × GroupP) := []
  actions : List (String × List CKw) := []
deriving DecidableEq, Repr

abbrev ConnMap := List (String × List Conn)
abbrev StatMap := List (String × Status)

structure State where
  p : Props
  c : ConnMap := []
  st : StatMap := []
  mark : List String := []
deriving DecidableEq, Repr

/-! ### small association-list toolkit -/

def lookup {α} (m : List (String × α)) (k : String) : Option α :=
  match m with
  | [] => none
  | (k', v) :: r => if k' = k then some v else lookup r k

def has {α} (m : List (String × α)) (k : String) : Bool := (lookup m k).isSome

/-- Replace the value under `k` (keeps position); no effect when absent. -/
def modify {α} (m : List (String × α)) (k : String) (f : α → α) : List (String × α) :=
  m.map fun (k', v) => if k' = k then (k', f v) else (k', v)

/-- Set `k` (in place when present, appended otherwise). -/
def setKey {α} (m : List (String × α)) (k : String) (v : α) : List (String × α) :=
  if has m k then modify m k (fun _ => v) else m ++ [(k, v)]

def names {α} (m : List (String × α)) : List String := m.map Prod.fst

def connsOf (c : ConnMap) (w : String) : List Conn := (lookup c w).getD []
def statusOf (st : StatMap) (w : String) : Status := (lookup st w).getD .shut

def applyWrites (st : StatMap) (ws : List (String × Status)) : StatMap :=
  ws.foldl (fun m (w : String × Status) => setKey m w.1 w.2) st

/-! ### name patterns -/

/-- `shmatch` restricted to literal characters and `*`. -/
def globChars : List Char → List Char → Bool
  | [], [] => true
  | [], _ :: _ => false
  | '*' :: p, [] => globChars p []
  | '*' :: p, c :: s => globChars p (c :: s) || globChars ('*' :: p) s
  | _ :: _, [] => false
  | a :: p, c :: s => a == c && globChars p s
termination_by p s => p.length + s.length

def glob (pat name : String) : Bool := globChars pat.toList name.toList

/-- `Schedule::wellNames(pattern, step, matching_wells)` via `WellMatcher`. -/
def wellNames (order : List String) (m : List String) (pat : String) : Except Err (List String) :=
  if pat = "?" then
    if m.all (fun w => order.contains w) then .ok (order.filter fun w => m.contains w) else .error .input
  else if pat.isEmpty then .ok []
  else if pat.front = '*' ∧ pat.length > 1 then .ok []      -- well list, none defined
  else if pat.contains '*' then .ok (order.filter fun w => glob pat w)
  else if order.contains pat then .ok [pat] else .ok []

/-- … with the "no wells match" input error of `Schedule::wellNames(pattern, context, allowEmpty)`. -/
def wellNamesReq (order m : List String) (pat : String) : Except Err (List String) :=
  match wellNames order m pat with
  | .error e => .error e
  | .ok [] => if pat = "?" then .ok [] else .error .input
  | .ok ns => .ok ns

/-- `Schedule::groupNames(pattern)` + `invalidNamePattern` when empty. -/
def groupNamesReq (order : List String) (pat : String) : Except Err (List String) :=
  let ns := if pat.isEmpty then [] else if pat.contains '*' then order.filter (fun g => glob pat g)
            else if order.contains pat then [pat] else []
  match ns with
  | [] => if pat = "?" then .ok [] else .error .input
  | ns => .ok ns

/-! ### groups -/

def newGroup (k : Consts) (parent : String) : GroupP := { parent := parent, gefac := k.one }

/-- `Schedule::addGroup(name)`: create, then attach to FIELD (`Group::addGroup` refuses a
parent that already has wells). -/
def addGroup (k : Consts) (gs : List (String × GroupP)) (g : String) : Except Err (List (String × GroupP)) :=
  if g = "FIELD" then .ok (gs ++ [(g, newGroup k "")])
  else
    match lookup gs "FIELD" with
    | none => .error .input
    | some f =>
      if !f.wells.isEmpty then .error .input
      else
        -- the new group is constructed with parent FIELD
        let gs1 := gs ++ [(g, newGroup k "FIELD")]
        .ok (modify gs1 "FIELD" fun f => { f with groups := if f.groups.contains g then f.groups else f.groups ++ [g] })

def ensureGroup (k : Consts) (gs : List (String × GroupP)) (g : String) : Except Err (List (String × GroupP)) :=
  if has gs g then .ok gs else addGroup k gs g

/-- `Schedule::addGroupToGroup(parent, child)`. -/
def addGroupToGroup (gs : List (String × GroupP)) (parent child : String) : Except Err (List (String × GroupP)) :=
  match lookup gs parent, lookup gs child with
  | some pg, some cg =>
    if !pg.wells.isEmpty then .error .input
    else
      let gs1 := modify gs parent fun g => { g with groups := if g.groups.contains child then g.groups else g.groups ++ [child] }
      if cg.parent = parent then .ok gs1
      else
        match lookup gs1 cg.parent with
        | none => .error .input
        | some og =>
          if !og.groups.contains child then .error .input
          else
            let gs2 := modify gs1 cg.parent fun g => { g with groups := g.groups.filter (· ≠ child) }
            .ok (modify gs2 child fun g => { g with parent := parent })
  | _, _ => .error .input

/-- `Schedule::addWellToGroup(group, well)` given the well's current group. -/
def addWellToGroup (gs : List (String × GroupP)) (old g w : String) : Except Err (List (String × GroupP)) :=
  let step1 : Except Err (List (String × GroupP)) :=
    if old = g then .ok gs
    else match lookup gs old with
      | none => .error .input
      | some og => if og.wells.contains w then .ok (modify gs old fun x => { x with wells := x.wells.filter (· ≠ w) })
                   else .error .input
  match step1 with
  | .error e => .error e
  | .ok gs1 =>
    match lookup gs1 g with
    | none => .error .input
    | some ng =>
      if !ng.groups.isEmpty then .error .input
      else .ok (modify gs1 g fun x => { x with wells := if x.wells.contains w then x.wells else x.wells ++ [w] })

/-! ### property operations -/

abbrev PRes := Except Err (Props × List (String × Status))

/-- `Schedule::updateWellStatus`: a well without connections cannot be opened. -/
def statusWrite (c : ConnMap) (w : String) (s : Status) : List (String × Status) :=
  if (connsOf c w).isEmpty ∧ s = .open_ then [] else [(w, s)]

def optV (d : Val) : Option Val → Val
  | some v => v
  | none => d

def bit (b : Bool) (v : Nat) : Nat := if b then v else 0

/-- `WellProductionProperties::handleWCONPROD` after `clearControls` + GRUP. -/
def wconprodProps (k : Consts) (r : WconprodRec) : Except Err ProdP :=
  let ctrl := 256 + bit r.orat.isSome 1 + bit r.wrat.isSome 2 + bit r.grat.isSome 4 + bit r.lrat.isSome 8 +
    bit r.resv.isSome 32 + 64
  let p : ProdP :=
    { cmode := 1024, ctrl := ctrl, pred := true,
      orat := optV k.zero r.orat, wrat := optV k.zero r.wrat, grat := optV k.zero r.grat,
      lrat := optV k.zero r.lrat, resv := optV k.zero r.resv, bhp := optV k.bhpProd r.bhp }
  match r.cmode with
  | none => .ok p
  | some cm => if ctrl &&& cm ≠ 0 then .ok { p with cmode := cm } else .error .input

def wconinjeProps (k : Consts) (old : InjP) (r : WconinjeRec) : Except Err InjP :=
  let ctrl := bit r.rate.isSome 1 + bit r.resv.isSome 2 + 4 + 16
  let p : InjP :=
    { itype := r.itype, cmode := old.cmode, ctrl := ctrl, pred := true,
      rate := optV old.rate r.rate, resv := optV old.resv r.resv, bhp := optV k.bhpInj r.bhp }
  if ctrl &&& r.cmode ≠ 0 then .ok { p with cmode := r.cmode } else .error .input

def addCtrl (ctrl v : Nat) : Nat := if ctrl &&& v ≠ 0 then ctrl else ctrl + v

def weltargProd (p : ProdP) (mode : String) (v : Val) : Except Err ProdP :=
  if mode = "ORAT" then .ok { p with orat := v, ctrl := addCtrl p.ctrl 1 }
  else if mode = "WRAT" then .ok { p with wrat := v, ctrl := addCtrl p.ctrl 2 }
  else if mode = "GRAT" then .ok { p with grat := v, ctrl := addCtrl p.ctrl 4 }
  else if mode = "LRAT" then .ok { p with lrat := v, ctrl := addCtrl p.ctrl 8 }
  else if mode = "RESV" then .ok { p with resv := v, ctrl := addCtrl p.ctrl 32 }
  else if mode = "BHP" then
    .ok { p with bhp := if p.pred then v else p.bhp, ctrl := addCtrl p.ctrl 64 }
  else .error .unsupported

def weltargInj (p : InjP) (mode : String) (v : Val) : Except Err InjP :=
  if mode = "BHP" then .ok { p with bhp := if p.pred then v else p.bhp }
  else if mode = "ORAT" then (if p.itype = "OIL" then .ok { p with rate := v } else .error .input)
  else if mode = "WRAT" then (if p.itype = "WATER" then .ok { p with rate := v } else .error .input)
  else if mode = "GRAT" then (if p.itype = "GAS" then .ok { p with rate := v } else .error .input)
  else if mode = "RESV" then .ok { p with resv := v }
  else if mode = "LRAT" then .error .input
  else .error .unsupported

/-- Apply `f` to every listed well, in list order, stopping at the first error. -/
def forWells (ws : List (String × WellP)) (f : String → WellP → Except Err WellP) :
    List String → Except Err (List (String × WellP))
  | [] => .ok ws
  | n :: r =>
    match lookup ws n with
    | none => .error .input
    | some w =>
      match f n w with
      | .error e => .error e
      | .ok w' => forWells (modify ws n fun _ => w') f r

def gconprodProps (g : GroupP) (r : GconprodRec) (z : Val) : GroupP :=
  let ctrl := (bit (r.cmode = 1 || (r.exceed && r.oil.isSome)) 1) + (bit (r.cmode = 2 || (r.exceed && r.water.isSome)) 2) +
    (bit (r.cmode = 4 || (r.exceed && r.gas.isSome)) 4) + (bit (r.cmode = 8 || (r.exceed && r.liquid.isSome)) 8)
  { g with cmode := r.cmode, ctrl := ctrl, oil := optV z r.oil, water := optV z r.water,
           gas := optV z r.gas, liquid := optV z r.liquid }

/-- One property record.  `m` = matching wells of the running action (empty outside actions),
`c` = connections (read only). -/
def stepP (k : Consts) (m : List String) (c : ConnMap) (p : Props) : ROp → PRes
  | .welspecs name group i j =>
    match wellNames (names p.wells) m name with
    | .error e => .error e
    | .ok existing =>
      match ensureGroup k p.groups group with
      | .error e => .error e
      | .ok gs =>
        match existing with
        | [] =>
          let w : WellP := { group := group, headI := i, headJ := j, efac := k.one }
          match addWellToGroup gs group group name with
          | .error e => .error e
          | .ok gs' => .ok ({ p with wells := p.wells ++ [(name, w)], groups := gs' }, [])
        | ws =>
          -- existing wells: new head, then regroup one after the other
          let rec regroup (wl : List (String × WellP)) (gs : List (String × GroupP)) :
              List String → Except Err (List (String × WellP) × List (String × GroupP))
            | [] => .ok (wl, gs)
            | n :: r =>
              match lookup wl n with
              | none => .error .input
              | some w =>
                if w.headI ≠ i ∨ w.headJ ≠ j then .error .unsupported   -- head change: outside the model
                else
                match addWellToGroup gs w.group group n with
                | .error e => .error e
                | .ok gs' => regroup (modify wl n fun x => { x with group := group, headI := i, headJ := j }) gs' r
          match regroup p.wells gs ws with
          | .error e => .error e
          | .ok (wl, gs') => .ok ({ p with wells := wl, groups := gs' }, [])
  | .wconprod r =>
    match wellNamesReq (names p.wells) m r.pat with
    | .error e => .error e
    | .ok ns =>
      match wconprodProps k r with
      | .error e => .error e
      | .ok pp =>
        match forWells p.wells (fun _ w => if w.producer then .ok { w with prod := pp } else .error .unsupported) ns with
        | .error e => .error e
        | .ok wl => .ok ({ p with wells := wl }, ns.flatMap fun n => statusWrite c n r.status)
  | .wconinje r =>
    match wellNamesReq (names p.wells) m r.pat with
    | .error e => .error e
    | .ok ns =>
      match forWells p.wells (fun _ w =>
          match wconinjeProps k w.inj r with
          | .error e => .error e
          | .ok ip => .ok { w with inj := ip, producer := false }) ns with
      | .error e => .error e
      | .ok wl => .ok ({ p with wells := wl }, ns.flatMap fun n => statusWrite c n r.status)
  | .welopenW pat status =>
    match wellNamesReq (names p.wells) m pat with
    | .error e => .error e
    | .ok ns => .ok (p, ns.flatMap fun n => statusWrite c n status)
  | .weltarg pat mode v =>
    match wellNamesReq (names p.wells) m pat with
    | .error e => .error e
    | .ok ns =>
      match forWells p.wells (fun _ w =>
          if w.producer then
            match weltargProd w.prod mode v with
            | .error e => .error e
            | .ok pp => .ok { w with prod := pp }
          else
            match weltargInj w.inj mode v with
            | .error e => .error e
            | .ok ip => .ok { w with inj := ip }) ns with
      | .error e => .error e
      | .ok wl => .ok ({ p with wells := wl }, [])
  | .wefac pat v =>
    match wellNamesReq (names p.wells) m pat with
    | .error e => .error e
    | .ok ns =>
      match forWells p.wells (fun _ w => .ok { w with efac := v }) ns with
      | .error e => .error e
      | .ok wl => .ok ({ p with wells := wl }, [])
  | .gruptree child parent =>
    match ensureGroup k p.groups child with
    | .error e => .error e
    | .ok g1 =>
      match ensureGroup k g1 parent with
      | .error e => .error e
      | .ok g2 =>
        match addGroupToGroup g2 parent child with
        | .error e => .error e
        | .ok g3 => .ok ({ p with groups := g3 }, [])
  | .gefac pat v =>
    match groupNamesReq (names p.groups) pat with
    | .error e => .error e
    | .ok ns => .ok ({ p with groups := ns.foldl (fun gs n => modify gs n fun g => { g with gefac := v }) p.groups }, [])
  | .gconprod r =>
    match groupNamesReq (names p.groups) r.pat with
    | .error e => .error e
    | .ok ns => .ok ({ p with groups := ns.foldl (fun gs n => modify gs n fun g => gconprodProps g r k.zero) p.groups }, [])
  | .compdat .. => .error .unsupported
  | .welopenC .. => .error .unsupported

/-! ### connection operations -/

def rangeIncl (a b : Nat) : List Nat := (List.range (b + 1 - a)).map (· + a)

/-- `WellConnections::loadCOMPDAT` for one cell: replace the state of an existing connection
in that cell, else append. -/
def putConn (cs : List Conn) (i j k state : Nat) : List Conn :=
  if cs.any (fun x => x.i = i ∧ x.j = j ∧ x.k = k) then
    cs.map fun x => if x.i = i ∧ x.j = j ∧ x.k = k then { x with state := state } else x
  else cs ++ [{ i := i, j := j, k := k, state := state }]

def matchCoord (rec val : Nat) : Bool := rec = 0 || rec = val + 1

def stepC (m : List String) (p : Props) (c : ConnMap) : ROp → Except Err ConnMap
  | .compdat pat i j k1 k2 state =>
    match wellNamesReq (names p.wells) m pat with
    | .error e => .error e
    | .ok ns =>
      .ok (ns.foldl (fun c n =>
        match lookup p.wells n with
        | none => c
        | some w =>
          let ci := if i = 0 then w.headI - 1 else i - 1
          let cj := if j = 0 then w.headJ - 1 else j - 1
          setKey c n ((rangeIncl (k1 - 1) (k2 - 1)).foldl (fun cs kk => if k1 = 0 then cs else putConn cs ci cj kk state) (connsOf c n))) c)
  | .welopenC pat cstate i j k =>
    match wellNamesReq (names p.wells) m pat with
    | .error e => .error e
    | .ok ns =>
      match cstate with
      | none => if ns.isEmpty then .ok c else .error .input
      | some s =>
        .ok (ns.foldl (fun c n =>
          setKey c n ((connsOf c n).map fun x =>
            if matchCoord i x.i && matchCoord j x.j && matchCoord k x.k then { x with state := s } else x)) c)
  | _ => .error .unsupported

/-! ### keywords, blocks, schedule -/

def stepR (k : Consts) (m : List String) (s : State) (r : ROp) : Except Err State :=
  if r.isConn then
    match stepC m s.p s.c r with
    | .error e => .error e
    | .ok c' => .ok { s with c := c' }
  else
    match stepP k m s.c s.p r with
    | .error e => .error e
    | .ok (p', ws) => .ok { s with p := p', st := applyWrites s.st ws }

def runOps (k : Consts) (m : List String) (s : State) : List ROp → Except Err State
  | [] => .ok s
  | r :: rs =>
    match stepR k m s r with
    | .error e => .error e
    | .ok s' => runOps k m s' rs

/-- `Schedule::handleKeyword` for one (non-ACTIONX) keyword. -/
def handle (k : Consts) (m : List String) (s : State) : CKw → Except Err State
  | .ops _ rs => runOps k m s rs
  | .actionx _ => .ok s       -- only reachable through applyAction bodies; no handler effect
  | .endactio => .ok s

def addAction (s : State) (n : String) (body : List CKw) : State :=
  { s with p := { s.p with actions := setKey s.p.actions n body } }

/-- The keyword loop of one block, with the ACTIONX ... ENDACTIO collection mode
(`acc = some (name, body so far)` while inside an action). -/
def runKws (k : Consts) : Option (String × List CKw) → State → List CKw → Except Err State
  | none, s, [] => .ok s
  | some _, _, [] => .error .input                       -- "Missing keyword ENDACTIO"
  | none, s, .actionx n :: r => runKws k (some (n, [])) s r
  | none, s, kw :: r =>
    match handle k [] s kw with
    | .error e => .error e
    | .ok s' => runKws k none s' r
  | some (n, acc), s, .endactio :: r => runKws k none (addAction s n acc) r
  | some (n, acc), s, kw :: r => runKws k (some (n, acc ++ [kw])) s r

def allShut (cs : List Conn) : Bool := !cs.isEmpty && cs.all (fun x => x.state = 2)

/-- `Schedule::end_report` = `checkIfAllConnectionsIsShut`: status writes computed from the
well list and the connection channel only. -/
def endReportWrites (p : Props) (c : ConnMap) : List (String × Status) :=
  (names p.wells).flatMap fun w => if allShut (connsOf c w) then [(w, Status.shut)] else []

def endReport (s : State) : State := { s with st := applyWrites s.st (endReportWrites s.p s.c) }

/-- `create_next`: the new snapshot is a copy with the per-step event marker reset. -/
def createNext (s : State) : State := { s with mark := [] }

def stepBlock (k : Consts) (s : State) (kws : List CKw) : Except Err State :=
  match runKws k none (createNext s) kws with
  | .error e => .error e
  | .ok s' => .ok (endReport s')

/-- State before block 0 (`create_first` adds the FIELD group). -/
def init (k : Consts) : State := { p := { groups := [("FIELD", newGroup k "")] } }

/-- Snapshots of blocks `bs` processed from state `s` (scan). -/
def runFrom (k : Consts) (s : State) : List (List CKw) → Except Err (List State)
  | [] => .ok []
  | b :: r =>
    match stepBlock k s b with
    | .error e => .error e
    | .ok s' =>
      match runFrom k s' r with
      | .error e => .error e
      | .ok ss => .ok (s' :: ss)

def run (k : Consts) (bs : List (List CKw)) : Except Err (List State) := runFrom k (init k) bs

/-- The whole pipeline: partition, then iterate. -/
def schedule (k : Consts) (start : Time) (kws : List (Kw CKw)) : Except Err (List State) :=
  match blocks start kws with
  | .error _ => .error .input
  | .ok bs => run k (bs.map Block.kws)

end OpmVerif.Sched
