/-
  Concrete semantics of a SCHEDULE keyword set over an observation record, mirroring
  `Schedule::iterateScheduleSection` (create_next; handlers; applyGlobalWPIMULT; end_report) and the
  handlers

    WELSPECS (new wells, regrouping, head change), COMPDAT, COMPLUMP, WPIMULT (immediate and
    deferred form), WELOPEN (well form and connection/completion form), WCONPROD, WCONINJE,
    WCONHIST, WCONINJH, WHISTCTL, WELTARG, WEFAC, WECON, WTEST, WLIST (NEW/ADD/DEL/MOV, and `*LIST`
    patterns in every well-name item), GRUPTREE, GEFAC, GCONPROD, GCONINJE, NEXTSTEP,
    UDQ ASSIGN/DEFINE/UNITS (registry), the ACTIONX ... ENDACTIO registry, and COMPORD (the
    connection ordering TRACK/DEPTH/INPUT a well gets when WELSPECS creates it, looked up in the
    first COMPORD keyword of the *same* report step; `WellConnections::order()` after COMPDAT),
    and the multisegment keywords WELSEGS / WSEGVALV / WSEGSICD / WSEGAICD (`CKw.msw`, `segStep`:
    per-well segment sets `Props.segs` with valve / ICD devices).

  The state is split into channels so that what a handler may read and write is fixed by its
  *type* (this is what makes the C04 commutation argument structural):

    p    : Props     wells (insertion order) with their properties, groups, action/UDQ/WLIST/WTEST
                     registries, NEXTSTEP, WHISTCTL, report-step counter
    c    : ConnChan  well name ↦ connections (cell, state, completion number, PI multiplier) and
                     the deferred WPIMULT factors of the report step being processed
    st   : StatMap   well name ↦ well status
    mark : wells carrying ACTIONX_WELL_EVENT at this report step
    ev   : wells carrying WELL_STATUS_CHANGE at this report step (`Schedule::updateWellStatus`, the
           only emitter: the status written differs from the status the well had); written from
           the status channel, read by nothing

  A *property* record operation reads `p` and — of the connection channel — only whether a well
  has connections at all (`e : String → Bool`), and produces a new `p` plus a list of status
  writes; a *connection* record operation reads `p` and produces a new `c`.  No operation reads
  `st` or `mark` (in the C++ the status is read only to emit events/messages, which are outside
  the observation record).  Numeric values are opaque tokens (the hex bit pattern of the double
  in the deck) or symbolic expressions over them (`mul(a,b)`, `add(a,b)`); the model never
  computes with them — the front end (`SchedIO`) evaluates the expressions in IEEE double
  arithmetic when printing.

  Not modelled (see design.d/C03.md): events other than the ACTIONX marker, VFP/THP/ALQ, guide
  rates, UDQ-valued items, WELTARG modes THP/VFP/LIFT/GUID (`unsupported`), has_produced /
  has_injected, the sequence of the connections of a well whose head was changed by a later
  WELSPECS (`WellP.moved`; the record is then sorted by cell).
-/
import OpmVerif.Model.SchedDeck

namespace OpmVerif.Sched

abbrev Val := String

def vmul (a b : Val) : Val := "mul(" ++ a ++ "," ++ b ++ ")"
def vadd (a b : Val) : Val := "add(" ++ a ++ "," ++ b ++ ")"

inductive Err | input | unsupported
deriving DecidableEq, Repr

/-- Well::Status. -/
inductive Status | open_ | stop | shut | auto
deriving DecidableEq, Repr

structure Conn where
  i : Nat
  j : Nat
  k : Nat
  /-- Connection::State: 1 OPEN, 2 SHUT, 3 AUTO -/
  state : Nat
  complnum : Nat
  /-- Connection::wellPi(): product of the WPIMULT factors since the last COMPDAT of the cell -/
  pimult : Val
deriving DecidableEq, Repr

/-- WellProductionProperties (observed part).  `cmode`/`ctrl`/`whist` use the enum values of
`Well::ProducerCMode` (ORAT 1, WRAT 2, GRAT 4, LRAT 8, RESV 32, BHP 64, GRUP 256, UNDEFINED 1024). -/
structure ProdP where
  cmode : Nat := 1024
  ctrl : Nat := 0
  pred : Bool := true
  orat : Val := "-"
  wrat : Val := "-"
  grat : Val := "-"
  lrat : Val := "-"
  resv : Val := "-"
  bhp : Val := "-"
  /-- bhp_hist_limit (SI) and whether it is still the default -/
  bhpLim : Val
  bhpLimDef : Bool := true
  bhph : Val
  whist : Nat := 1024
deriving DecidableEq, Repr

/-- WellInjectionProperties (observed part); `Well::InjectorCMode`: RATE 1, RESV 2, BHP 4,
THP 8, GRUP 16, UNDEFINED 512. -/
structure InjP where
  itype : String := "WATER"
  cmode : Nat := 512
  ctrl : Nat := 0
  pred : Bool := true
  rate : Val := "-"
  resv : Val := "-"
  bhp : Val := "-"
  bhpLim : Val
  bhph : Val
deriving DecidableEq, Repr

structure WellP where
  group : String
  headI : Nat
  headJ : Nat
  /-- head at creation: the `WellConnections` object is built with it and keeps it -/
  head0I : Nat
  head0J : Nat
  producer : Bool := true
  /-- Well::prediction_mode -/
  wpred : Bool := true
  prod : ProdP
  inj : InjP
  efac : Val
  /-- WECON: (min oil rate SI, max water cut, workover procedure) -/
  econ : Val × Val × String
  /-- Connection::Order of the well's `WellConnections` (0 TRACK, 1 DEPTH, 2 INPUT): fixed when
  WELSPECS creates the well, from the COMPORD keyword of that report step -/
  order : Nat := 0
  /-- a later WELSPECS changed the head: the head the `WellConnections` object orders by is then
  history dependent (outside the model; the connection sequence is no longer observed) -/
  moved : Bool := false
deriving DecidableEq, Repr

/-- GCONINJE of one phase. -/
structure GInjP where
  cmode : String
  ctrl : Nat
  surface : Val
  resv : Val
  reinj : Val
  voidage : Val
  avail : Bool
deriving DecidableEq, Repr

/-- Group (observed part); `Group::ProductionCMode`: NONE 0, ORAT 1, WRAT 2, GRAT 4, LRAT 8,
CRAT 16, RESV 32, PRBL 64, FLD 128. -/
structure GroupP where
  parent : String
  groups : List String := []
  wells : List String := []
  gefac : Val
  cmode : Nat := 0
  ctrl : Nat := 0
  oil : Val := "-"
  water : Val := "-"
  gas : Val := "-"
  liquid : Val := "-"
  /-- phase name ↦ injection properties, in order of first appearance -/
  ginj : List (String × GInjP) := []
deriving DecidableEq, Repr

/-- Constants of the run the harness passes in (values the code derives from the unit system). -/
structure Consts where
  one : Val       -- 1.0  (initial efficiency factors, PI multipliers)
  zero : Val      -- token of a defaulted UDA item (not a number: `-`)
  bhpProd : Val   -- default producer BHP target in deck units
  bhpInj : Val    -- default injector BHP limit in deck units
  num0 : Val      -- 0.0
  siP : Val       -- SI scaling of a pressure
  siLRate : Val   -- SI scaling of a liquid surface rate
  siTime : Val    -- SI scaling of a time
  bhpProdSI : Val -- WCONPROD default BHP target, SI
  bhpHistSI : Val -- WCONHIST default BHP limit (FBHPDEF default), SI
  bhpInjHSI : Val -- WCONINJH default BHP limit, SI
deriving DecidableEq, Repr

structure WconprodRec where
  pat : String
  status : Status
  cmode : Option Nat
  orat : Option Val
  wrat : Option Val
  grat : Option Val
  lrat : Option Val
  resv : Option Val
  bhp : Option Val
deriving DecidableEq, Repr

structure WconinjeRec where
  pat : String
  itype : String
  status : Status
  cmode : Nat
  rate : Option Val
  resv : Option Val
  bhp : Option Val
deriving DecidableEq, Repr

/-- WCONHIST: rates have the default 0 (always numbers); BHP is optional. -/
structure WconhistRec where
  pat : String
  status : Status
  cmode : Option Nat
  orat : Val
  wrat : Val
  grat : Val
  bhp : Option Val
deriving DecidableEq, Repr

structure WconinjhRec where
  pat : String
  itype : String
  status : Status
  rate : Option Val
  bhp : Option Val
  /-- CMODE item: RATE 1, BHP 4, anything else is reset to RATE -/
  cmode : Nat
deriving DecidableEq, Repr

structure GconprodRec where
  pat : String
  cmode : Nat
  oil : Option Val
  water : Option Val
  gas : Option Val
  liquid : Option Val
  /-- EXCEED_PROC is something other than NONE -/
  exceed : Bool
deriving DecidableEq, Repr

structure GconinjeRec where
  pat : String
  phase : String
  cmode : String
  surface : Option Val
  resv : Option Val
  reinj : Option Val
  voidage : Option Val
  free : Bool
deriving DecidableEq, Repr

inductive UdqAct | assign | define | units
deriving DecidableEq, Repr

/-- One record of a keyword. -/
inductive ROp
  | welspecs (name group : String) (i j : Option Nat)
  | wconprod (r : WconprodRec)
  | wconinje (r : WconinjeRec)
  | wconhist (r : WconhistRec)
  | wconinjh (r : WconinjhRec)
  | whistctl (mode : Nat)
  | welopenW (pat : String) (status : Status)
  | weltarg (pat : String) (mode : String) (v : Val)
  | wefac (pat : String) (v : Val)
  | wecon (pat : String) (oil wct : Val) (workover : String)
  | wtest (pat : String) (interval : Val) (reasons : String) (num : Nat) (startup : Val)
  | wlist (name action : String) (wells : List String)
  | gruptree (child parent : String)
  | gefac (pat : String) (v : Val)
  | gconprod (r : GconprodRec)
  | gconinje (r : GconinjeRec)
  | nextstep (v : Val) (all : Bool)
  | udq (act : UdqAct) (name : String) (data : String)
  | compdat (pat : String) (i j k1 k2 : Nat) (state : Nat)
  | welopenC (pat : String) (cstate : Option Nat) (i j k c1 c2 : Nat)
  | complump (pat : String) (i j k1 k2 n : Nat)
  | wpimultC (pat : String) (f : Val) (i j k c1 c2 : Nat)
  | wpimultG (pat : String) (f : Val)
deriving DecidableEq, Repr

/-- COMPLUMP: a connection operation that changes completion numbers only. -/
def ROp.isLump : ROp → Bool
  | .complump .. => true
  | _ => false

/-- Connection operations write the connection channel; all others the property channel. -/
def ROp.isConn : ROp → Bool
  | .compdat .. => true
  | .welopenC .. => true
  | .complump .. => true
  | .wpimultC .. => true
  | .wpimultG .. => true
  | _ => false

/-- The device of a segment (`Segment::m_icd`): none (REGULAR), a valve (WSEGVALV: Cv, constriction area, status and
the pipe diameter / roughness / cross-section area / maximum constriction area after the defaults have been filled in
from the enclosing segment), a spiral or an autonomous ICD (observed part: device length, status). -/
inductive Icd
  | none
  | valve (cv ac : Val) (isOpen : Bool) (pd pr pa maxA : Val)
  | sicd (len : Val) (isOpen : Bool)
  | aicd (len : Val) (isOpen : Bool)
deriving DecidableEq, Repr

/-- Segment (observed part). -/
structure Seg where
  num : Nat
  branch : Nat
  outlet : Nat
  diam : Val
  rough : Val
  area : Val
  icd : Icd := .none
deriving DecidableEq, Repr

/-- One WSEGVALV record; the additional pipe length is always defaulted (generator). -/
structure ValveRec where
  seg : Nat
  cv : Val
  ac : Val
  pd : Option Val
  pr : Option Val
  pa : Option Val
  isOpen : Bool
  maxA : Option Val
deriving DecidableEq, Repr

/-- The multisegment-well keywords with an effect on the record: WELSEGS (first one of a well; segments 2.. of its
records, one segment per record), WSEGVALV (all records of the keyword name the same well), WSEGSICD, WSEGAICD. -/
inductive SegOp
  | welsegs (well : String) (segs : List Seg)
  | valve (pat : String) (recs : List ValveRec)
  | sicd (pat : String) (seg : Nat) (len : Val) (isOpen : Bool)
  | aicd (pat : String) (seg : Nat) (len : Val) (isOpen : Bool)
deriving DecidableEq, Repr

inductive CKw
  | ops (name : String) (rs : List ROp)
  | actionx (aname : String)
  | endactio
  /-- WELSEGS / WSEGVALV / WSEGSICD / WSEGAICD: a new segment set for the wells named (`Well::updateWSEG*` install a
  copy of the `WellSegments` object; the sets of the earlier snapshots are values of their own). -/
  | msw (op : SegOp)
  /-- COMPORD: (well name pattern, order code 0 TRACK / 1 DEPTH / 2 INPUT) per record.  It has no
  handler of its own (`handleCOMPORD` is empty): `welspecsCreateNewWell` looks it up in the block. -/
  | compord (recs : List (String × Nat))
deriving DecidableEq, Repr

structure WTest where
  reasons : Nat
  interval : Val
  num : Nat
  startup : Val
  step : Nat
deriving DecidableEq, Repr

/-- UDQConfig::input_index entry + the define's input string. -/
structure UdqE where
  /-- 0 ASSIGN, 1 DEFINE -/
  action : Nat
  insertIdx : Nat
  typedIdx : Nat
  define : Option String
  assigned : Bool
deriving DecidableEq, Repr

structure Props where
  wells : List (String × WellP) := []
  groups : List (String × GroupP) := []
  actions : List (String × List CKw) := []
  wlists : List (String × List String) := []
  wtest : List (String × WTest) := []
  udq : List (String × UdqE) := []
  udqUnits : List (String × String) := []
  nextstep : Option (Val × Bool) := none
  whistctl : Nat := 1024
  /-- number of `create_next` calls so far (= current report step + 1) -/
  nstep : Nat := 0
  /-- records of the first COMPORD keyword of the report step being processed
  (`block.get("COMPORD")` in `HandlerContext::welspecsCreateNewWell`) -/
  compord : List (String × Nat) := []
  /-- well name ↦ its segment set (`Well::segments`), in insertion order; absent = not a multisegment well -/
  segs : List (String × List Seg) := []
deriving DecidableEq, Repr

abbrev ConnMap := List (String × List Conn)
abbrev StatMap := List (String × Status)

structure ConnChan where
  m : ConnMap := []
  /-- wpimult_global_factor of the block being processed -/
  g : List (String × Val) := []
deriving DecidableEq, Repr

structure State where
  p : Props
  c : ConnChan := {}
  st : StatMap := []
  mark : List String := []
  /-- wells with a WELL_STATUS_CHANGE event in the report step being processed -/
  ev : List String := []
deriving DecidableEq, Repr

/-! ### small association-list toolkit -/

def lookup {α} (m : List (String × α)) (k : String) : Option α :=
  match m with
  | [] => none
  | (k', v) :: r => if k' = k then some v else lookup r k

def has {α} (m : List (String × α)) (k : String) : Bool := (lookup m k).isSome

/-- Replace the value under `k` (keeps position); no effect when absent. -/
def modify {α} (m : List (String × α)) (k : String) (f : α → α) : List (String × α) :=
  m.map fun (k', v) => if k' = k then (k', f v) else (k', v)

/-- Set `k` (in place when present, appended otherwise). -/
def setKey {α} (m : List (String × α)) (k : String) (v : α) : List (String × α) :=
  if has m k then modify m k (fun _ => v) else m ++ [(k, v)]

def names {α} (m : List (String × α)) : List String := m.map Prod.fst

def connsOf (c : ConnMap) (w : String) : List Conn := (lookup c w).getD []
def statusOf (st : StatMap) (w : String) : Status := (lookup st w).getD .shut

def applyWrites (st : StatMap) (ws : List (String × Status)) : StatMap :=
  ws.foldl (fun m (w : String × Status) => setKey m w.1 w.2) st

/-- The WELL_STATUS_CHANGE events of a list of status writes (`Schedule::updateWellStatus`: an
event when the new status differs from the old one), in the order of the writes. -/
def evWrites : StatMap → List (String × Status) → List String
  | _, [] => []
  | st, ws :: r => (if statusOf st ws.1 = ws.2 then [] else [ws.1]) ++ evWrites (setKey st ws.1 ws.2) r

def dedup : List String → List String
  | [] => []
  | a :: r => a :: (dedup r).filter (· ≠ a)

/-! ### name patterns -/

def suffixes : List Char → List (List Char)
  | [] => [[]]
  | c :: s => (c :: s) :: suffixes s

/-- `shmatch` restricted to literal characters and `*` (structural in the pattern: a `*`
tries every suffix of the name). -/
def globChars : List Char → List Char → Bool
  | [], s => s.isEmpty
  | '*' :: p, s => (suffixes s).any (globChars p)
  | _ :: _, [] => false
  | a :: p, c :: s => a == c && globChars p s

def glob (pat name : String) : Bool := globChars pat.toList name.toList

/-- `WListManager::wells(pattern)` as a set: the wells of the list of that name, else of every
list whose name matches the pattern. -/
def wlistWells (wl : List (String × List String)) (pat : String) : List String :=
  match lookup wl pat with
  | some ws => ws
  | none => (wl.filter fun (n, _) => globChars (pat.toList.drop 1) (n.toList.drop 1)).flatMap Prod.snd

/-- `Schedule::wellNames(pattern, step, matching_wells)` via `WellMatcher`. -/
def wellNames (order : List String) (wl : List (String × List String)) (m : List String) (pat : String) :
    Except Err (List String) :=
  if pat = "?" then
    if m.all (fun w => order.contains w) then .ok (order.filter fun w => m.contains w) else .error .input
  else if pat.isEmpty then .ok []
  else if pat.front = '*' ∧ pat.length > 1 then
    let ws := wlistWells wl pat
    if ws.all (fun w => order.contains w) then .ok (order.filter fun w => ws.contains w) else .error .input
  else
    let patt := if pat.front = '\\' then String.ofList (pat.toList.drop 1) else pat
    if patt.toList.contains '*' then .ok (order.filter fun w => glob patt w)
    else if order.contains patt then .ok [patt] else .ok []

/-- … with the "no wells match" input error of `Schedule::wellNames(pattern, context, allowEmpty = false)`. -/
def wellNamesReq (order : List String) (wl : List (String × List String)) (m : List String) (pat : String) :
    Except Err (List String) :=
  match wellNames order wl m pat with
  | .error e => .error e
  | .ok [] => if pat = "?" then .ok [] else .error .input
  | .ok ns => .ok ns

/-- `HandlerContext::wellNames(pattern)`: an empty result is accepted when `pattern` is the name
of an existing well list. -/
def wellNamesLst (order : List String) (wl : List (String × List String)) (m : List String) (pat : String) :
    Except Err (List String) :=
  match wellNames order wl m pat with
  | .error e => .error e
  | .ok [] => if pat = "?" || has wl pat then .ok [] else .error .input
  | .ok ns => .ok ns

/-- `Schedule::groupNames(pattern)` + `invalidNamePattern` when empty. -/
def groupNamesReq (order : List String) (pat : String) : Except Err (List String) :=
  let ns := if pat.isEmpty then [] else if pat.toList.contains '*' then order.filter (fun g => glob pat g)
            else if order.contains pat then [pat] else []
  match ns with
  | [] => if pat = "?" then .ok [] else .error .input
  | ns => .ok ns

/-! ### groups -/

def newGroup (k : Consts) (parent : String) : GroupP := { parent := parent, gefac := k.one }

/-- `Schedule::addGroup(name)`: create, then attach to FIELD (`Group::addGroup` refuses a
parent that already has wells). -/
def addGroup (k : Consts) (gs : List (String × GroupP)) (g : String) : Except Err (List (String × GroupP)) :=
  if g = "FIELD" then .ok (gs ++ [(g, newGroup k "")])
  else
    match lookup gs "FIELD" with
    | none => .error .input
    | some f =>
      if !f.wells.isEmpty then .error .input
      else
        -- the new group is constructed with parent FIELD
        let gs1 := gs ++ [(g, newGroup k "FIELD")]
        .ok (modify gs1 "FIELD" fun f => { f with groups := if f.groups.contains g then f.groups else f.groups ++ [g] })

def ensureGroup (k : Consts) (gs : List (String × GroupP)) (g : String) : Except Err (List (String × GroupP)) :=
  if has gs g then .ok gs else addGroup k gs g

/-- `Schedule::addGroupToGroup(parent, child)`. -/
def addGroupToGroup (gs : List (String × GroupP)) (parent child : String) : Except Err (List (String × GroupP)) :=
  match lookup gs parent, lookup gs child with
  | some pg, some cg =>
    if !pg.wells.isEmpty then .error .input
    else
      let gs1 := modify gs parent fun g => { g with groups := if g.groups.contains child then g.groups else g.groups ++ [child] }
      if cg.parent = parent then .ok gs1
      else
        match lookup gs1 cg.parent with
        | none => .error .input
        | some og =>
          if !og.groups.contains child then .error .input
          else
            let gs2 := modify gs1 cg.parent fun g => { g with groups := g.groups.filter (· ≠ child) }
            .ok (modify gs2 child fun g => { g with parent := parent })
  | _, _ => .error .input

/-- `Schedule::addWellToGroup(group, well)` given the well's current group. -/
def addWellToGroup (gs : List (String × GroupP)) (old g w : String) : Except Err (List (String × GroupP)) :=
  let step1 : Except Err (List (String × GroupP)) :=
    if old = g then .ok gs
    else match lookup gs old with
      | none => .error .input
      | some og => if og.wells.contains w then .ok (modify gs old fun x => { x with wells := x.wells.filter (· ≠ w) })
                   else .error .input
  match step1 with
  | .error e => .error e
  | .ok gs1 =>
    match lookup gs1 g with
    | none => .error .input
    | some ng =>
      if !ng.groups.isEmpty then .error .input
      else .ok (modify gs1 g fun x => { x with wells := if x.wells.contains w then x.wells else x.wells ++ [w] })

/-! ### property operations -/

abbrev PRes := Except Err (Props × List (String × Status))

/-- `Schedule::updateWellStatus`: a well without connections cannot be opened.
`e w` = well `w` has no connections. -/
def statusWrite (e : String → Bool) (w : String) (s : Status) : List (String × Status) :=
  if e w ∧ s = .open_ then [] else [(w, s)]

def optV (d : Val) : Option Val → Val
  | some v => v
  | none => d

def optN (d : Nat) : Option Nat → Nat
  | some v => v
  | none => d

def bit (b : Bool) (v : Nat) : Nat := if b then v else 0

def addCtrl (ctrl v : Nat) : Nat := if ctrl &&& v ≠ 0 then ctrl else ctrl + v
def dropCtrl (ctrl v : Nat) : Nat := if ctrl &&& v ≠ 0 then ctrl - v else ctrl

def newProd (k : Consts) (whist : Nat) : ProdP := { bhpLim := k.num0, bhph := k.num0, whist := whist }
def newInj (k : Consts) : InjP := { bhpLim := k.num0, bhph := k.num0 }

/-- `Well::switchToProducer` on the injection properties. -/
def injAfterSwitch (k : Consts) (i : InjP) : InjP := { i with bhp := k.num0, ctrl := dropCtrl i.ctrl 4 }

/-- `WellProductionProperties::handleWCONPROD` on a copy of the old properties after
`clearControls` + GRUP. -/
def wconprodProps (k : Consts) (old : ProdP) (r : WconprodRec) : Except Err ProdP :=
  let ctrl := 256 + bit r.orat.isSome 1 + bit r.wrat.isSome 2 + bit r.grat.isSome 4 + bit r.lrat.isSome 8 +
    bit r.resv.isSome 32 + 64
  let p : ProdP :=
    { old with ctrl := ctrl, pred := true,
               orat := optV k.zero r.orat, wrat := optV k.zero r.wrat, grat := optV k.zero r.grat,
               lrat := optV k.zero r.lrat, resv := optV k.zero r.resv, bhp := optV k.bhpProd r.bhp }
  match r.cmode with
  | none => .ok p
  | some cm => if ctrl &&& cm ≠ 0 then .ok { p with cmode := cm } else .error .input

def wconinjeProps (k : Consts) (old : InjP) (r : WconinjeRec) : Except Err InjP :=
  let c1 := if r.rate.isSome then addCtrl old.ctrl 1 else dropCtrl old.ctrl 1
  let c2 := if r.resv.isSome then addCtrl c1 2 else dropCtrl c1 2
  let c3 := dropCtrl c2 8
  let ctrl := addCtrl (addCtrl c3 4) 16
  let p : InjP :=
    { old with itype := r.itype, ctrl := ctrl, pred := true,
               rate := optV old.rate r.rate, resv := optV old.resv r.resv, bhp := optV k.bhpInj r.bhp }
  if ctrl &&& r.cmode ≠ 0 then .ok { p with cmode := r.cmode } else .error .input

def effectiveHist (cm : Nat) : Bool := cm = 8 || cm = 32 || cm = 1 || cm = 2 || cm = 4 || cm = 64

/-- `WellProductionProperties::handleWCONHIST` (+ `init_history`). -/
def wconhistProps (k : Consts) (old : ProdP) (r : WconhistRec) : Except Err ProdP :=
  let lim1 := if old.pred || old.cmode = 64 then k.bhpHistSI else old.bhpLim
  let bhph := match r.bhp with
    | some v => vmul v k.siP
    | none => old.bhph
  match r.cmode with
  | none => .error .input                                  -- "control mode can not be defaulted"
  | some item =>
    let cm := if effectiveHist old.whist then old.whist else item
    if !effectiveHist cm then .error .input
    else
      .ok { old with orat := r.orat, wrat := r.wrat, grat := r.grat, lrat := vadd r.wrat r.orat, resv := k.num0,
                     pred := false, bhph := bhph, cmode := cm, ctrl := addCtrl cm 64,
                     bhpLim := if cm = 64 then bhph else lim1 }

/-- `WellInjectionProperties::handleWCONINJH`.  A control mode other than RATE/BHP is reset to
RATE with a warning whose text needs the surface rate: when that was never given, composing the
warning throws (`UDAValue does not hold a string value`). -/
def wconinjhProps (k : Consts) (old : InjP) (isProducer : Bool) (r : WconinjhRec) : Except Err InjP :=
  let bhph := match r.bhp with
    | some v => vmul v k.siP
    | none => old.bhph
  let rate := optV old.rate r.rate
  let cm := if r.cmode = 1 || r.cmode = 4 then r.cmode else 1
  let lim := if cm = 4 then bhph
             else if old.pred || old.cmode = 4 || isProducer then k.bhpInjHSI else old.bhpLim
  if !(r.cmode = 1 || r.cmode = 4) && rate = k.zero then .error .input
  else .ok { old with itype := r.itype, rate := rate, bhph := bhph, bhpLim := lim,
                      ctrl := addCtrl (addCtrl old.ctrl 4) cm, cmode := cm, pred := false }

def weltargProd (k : Consts) (p : ProdP) (mode : String) (v : Val) : Except Err ProdP :=
  if mode = "ORAT" then .ok { p with orat := v, ctrl := addCtrl p.ctrl 1 }
  else if mode = "WRAT" then .ok { p with wrat := v, ctrl := addCtrl p.ctrl 2 }
  else if mode = "GRAT" then .ok { p with grat := v, ctrl := addCtrl p.ctrl 4 }
  else if mode = "LRAT" then .ok { p with lrat := v, ctrl := addCtrl p.ctrl 8 }
  else if mode = "RESV" then .ok { p with resv := v, ctrl := addCtrl p.ctrl 32 }
  else if mode = "BHP" then
    .ok { p with bhp := if p.pred then v else p.bhp, bhpLim := if p.pred then p.bhpLim else vmul v k.siP,
                 ctrl := addCtrl p.ctrl 64, bhpLimDef := false }
  else .error .unsupported

def weltargInj (k : Consts) (p : InjP) (mode : String) (v : Val) : Except Err InjP :=
  if mode = "BHP" then .ok { p with bhp := if p.pred then v else p.bhp, bhpLim := if p.pred then p.bhpLim else vmul v k.siP }
  else if mode = "ORAT" then (if p.itype = "OIL" then .ok { p with rate := v } else .error .input)
  else if mode = "WRAT" then (if p.itype = "WATER" then .ok { p with rate := v } else .error .input)
  else if mode = "GRAT" then (if p.itype = "GAS" then .ok { p with rate := v } else .error .input)
  else if mode = "RESV" then .ok { p with resv := v }
  else if mode = "LRAT" then .error .input
  else .error .unsupported

/-- Apply `f` to every listed well, in list order, stopping at the first error. -/
def forWells (ws : List (String × WellP)) (f : String → WellP → Except Err WellP) :
    List String → Except Err (List (String × WellP))
  | [] => .ok ws
  | n :: r =>
    match lookup ws n with
    | none => .error .input
    | some w =>
      match f n w with
      | .error e => .error e
      | .ok w' => forWells (modify ws n fun _ => w') f r

def gconprodProps (g : GroupP) (r : GconprodRec) (z : Val) : GroupP :=
  let ctrl := (bit (r.cmode = 1 || (r.exceed && r.oil.isSome)) 1) + (bit (r.cmode = 2 || (r.exceed && r.water.isSome)) 2) +
    (bit (r.cmode = 4 || (r.exceed && r.gas.isSome)) 4) + (bit (r.cmode = 8 || (r.exceed && r.liquid.isSome)) 8)
  { g with cmode := r.cmode, ctrl := ctrl, oil := optV z r.oil, water := optV z r.water,
           gas := optV z r.gas, liquid := optV z r.liquid }

/-- GCONINJE for one group (`Group::InjectionCMode`: RATE 1, RESV 2, REIN 4, VREP 8). -/
def gconinjeProps (k : Consts) (name : String) (g : GroupP) (r : GconinjeRec) : GroupP :=
  let ip : GInjP :=
    { cmode := r.cmode, ctrl := bit r.surface.isSome 1 + bit r.resv.isSome 2 + bit r.reinj.isSome 4 + bit r.voidage.isSome 8,
      surface := optV k.zero r.surface, resv := optV k.zero r.resv, reinj := optV k.zero r.reinj,
      voidage := optV k.zero r.voidage, avail := (r.free || r.cmode = "FLD") && name ≠ "FIELD" }
  { g with ginj := setKey g.ginj r.phase ip }

/-- WELSPECS on existing wells: new head (refused while the reference depth cannot be derived,
i.e. while the well has no connections), then regroup one after the other. -/
def regroup (e : String → Bool) (group : String) (i j : Option Nat) :
    List (String × WellP) → List (String × GroupP) → List String →
    Except Err (List (String × WellP) × List (String × GroupP))
  | wl, gs, [] => .ok (wl, gs)
  | wl, gs, n :: r =>
    match lookup wl n with
    | none => .error .input
    | some w =>
      let hi := optN w.headI i
      let hj := optN w.headJ j
      if (hi ≠ w.headI ∨ hj ≠ w.headJ) ∧ e n then .error .input
      else
        match addWellToGroup gs w.group group n with
        | .error e => .error e
        | .ok gs' =>
          let mv := hi != w.headI || hj != w.headJ
          regroup e group i j (modify wl n fun x => { x with group := group, headI := hi, headJ := hj, moved := x.moved || mv }) gs' r

def reasonMask (s : String) : Nat :=
  s.toList.foldl (fun a c => a + (if c = 'P' then 1 else if c = 'E' then 2 else if c = 'G' then 4
                                  else if c = 'D' then 8 else if c = 'C' then 16 else 0)) 0

def wlistUpdate (wl : List (String × List String)) (name action : String) (wells : List String) :
    Except Err (List (String × List String)) :=
  if !(["NEW", "ADD", "DEL", "MOV"].contains action) then .error .input
  else if name.front ≠ '*' then .error .input
  else
    let wl1 := if action = "NEW" then setKey wl name (dedup wells) else wl
    match lookup wl1 name with
    | none => .error .input
    | some _ =>
      let wl2 := if action = "MOV" then wl1.map fun (n, ws) => (n, ws.filter fun w => !wells.contains w) else wl1
      if action = "DEL" then .ok (modify wl2 name fun ws => ws.filter fun w => !wells.contains w)
      else if action = "NEW" then .ok wl2
      else .ok (modify wl2 name fun ws => dedup (ws ++ wells))

/-- `UDQ::varType` of a quantity name as a small code (only used to count per type). -/
def udqType (q : String) : Char := q.front

def udqNode (u : List (String × UdqE)) (q : String) (action : Nat) : List (String × UdqE) :=
  if has u q then modify u q fun x => { x with action := action }
  else u ++ [(q, { action := action, insertIdx := u.length,
                   typedIdx := (u.filter fun (n, _) => udqType n = udqType q).length + 1,
                   define := none, assigned := false })]

/-- `welspecsCreateNewWell`: the order of the last record of the block's COMPORD keyword whose
pattern matches the new well's name; TRACK when there is none. -/
def orderFor (tbl : List (String × Nat)) (name : String) : Nat :=
  tbl.foldl (fun o (po : String × Nat) => if glob po.1 name then po.2 else o) 0

/-- One property record.  `m` = matching wells of the running action (empty outside actions),
`e w` = well `w` has no connections (the only thing a property operation sees of the connection
channel). -/
def stepP (k : Consts) (m : List String) (e : String → Bool) (p : Props) : ROp → PRes
  | .welspecs name group i j =>
    match wellNames (names p.wells) p.wlists m name with
    | .error e => .error e
    | .ok existing =>
      match ensureGroup k p.groups group with
      | .error e => .error e
      | .ok gs =>
        match existing with
        | [] =>
          match i, j with
          | some hi, some hj =>
            let w : WellP := { group := group, headI := hi, headJ := hj, head0I := hi, head0J := hj, efac := k.one,
                               prod := newProd k p.whistctl, inj := newInj k, econ := (k.num0, k.num0, "NONE"),
                               order := orderFor p.compord name }
            match addWellToGroup gs group group name with
            | .error e => .error e
            | .ok gs' => .ok ({ p with wells := p.wells ++ [(name, w)], groups := gs' }, [])
          | _, _ => .error .input
        | ws =>
          match regroup e group i j p.wells gs ws with
          | .error e => .error e
          | .ok (wl, gs') => .ok ({ p with wells := wl, groups := gs' }, [])
  | .wconprod r =>
    match wellNamesReq (names p.wells) p.wlists m r.pat with
    | .error e => .error e
    | .ok ns =>
      match forWells p.wells (fun _ w =>
          match wconprodProps k w.prod r with
          | .error e => .error e
          | .ok pp =>
            if w.producer then .ok { w with prod := pp, wpred := true }
            else .ok { w with prod := { pp with bhpLim := if pp.bhpLimDef then k.bhpProdSI else pp.bhpLim },
                              inj := injAfterSwitch k w.inj, producer := true, wpred := true }) ns with
      | .error e => .error e
      | .ok wl => .ok ({ p with wells := wl }, ns.flatMap fun n => statusWrite e n r.status)
  | .wconinje r =>
    match wellNamesLst (names p.wells) p.wlists m r.pat with
    | .error e => .error e
    | .ok ns =>
      match forWells p.wells (fun _ w =>
          match wconinjeProps k w.inj r with
          | .error e => .error e
          | .ok ip => .ok { w with inj := ip, producer := false, wpred := true }) ns with
      | .error e => .error e
      | .ok wl => .ok ({ p with wells := wl }, ns.flatMap fun n => statusWrite e n r.status)
  | .wconhist r =>
    match wellNamesReq (names p.wells) p.wlists m r.pat with
    | .error e => .error e
    | .ok ns =>
      match forWells p.wells (fun _ w =>
          let old := if w.producer then w.prod else { w.prod with whist := p.whistctl }
          match wconhistProps k old r with
          | .error e => .error e
          | .ok pp =>
            if w.producer then .ok { w with prod := pp, wpred := false }
            else .ok { w with prod := { pp with bhpLim := if pp.bhpLimDef then k.bhpHistSI else pp.bhpLim },
                              inj := injAfterSwitch k { w.inj with bhpLim := k.num0 }, producer := true, wpred := false }) ns with
      | .error e => .error e
      | .ok wl => .ok ({ p with wells := wl }, ns.flatMap fun n => statusWrite e n r.status)
  | .wconinjh r =>
    match wellNamesReq (names p.wells) p.wlists m r.pat with
    | .error e => .error e
    | .ok ns =>
      match forWells p.wells (fun _ w =>
          match wconinjhProps k w.inj w.producer r with
          | .error e => .error e
          | .ok ip => .ok { w with inj := ip, producer := false, wpred := false }) ns with
      | .error e => .error e
      | .ok wl => .ok ({ p with wells := wl }, ns.flatMap fun n => statusWrite e n r.status)
  | .whistctl mode =>
    -- `well2.updateProduction(prop)` on every well whose mode differs: an injector among them is
    -- switched to producer (`Well::updateProduction` calls `switchToProducer`)
    .ok ({ p with whistctl := mode, wells := p.wells.map fun (n, w) =>
            if w.prod.whist = mode then (n, w)
            else if w.producer then (n, { w with prod := { w.prod with whist := mode } })
            else (n, { w with prod := { w.prod with whist := mode }, inj := injAfterSwitch k w.inj, producer := true }) }, [])
  | .welopenW pat status =>
    match wellNamesLst (names p.wells) p.wlists m pat with
    | .error e => .error e
    | .ok ns => .ok (p, ns.flatMap fun n => statusWrite e n status)
  | .weltarg pat mode v =>
    match wellNamesReq (names p.wells) p.wlists m pat with
    | .error e => .error e
    | .ok ns =>
      match forWells p.wells (fun _ w =>
          if w.producer then
            match weltargProd k w.prod mode v with
            | .error e => .error e
            | .ok pp => .ok { w with prod := pp }
          else
            match weltargInj k w.inj mode v with
            | .error e => .error e
            | .ok ip => .ok { w with inj := ip }) ns with
      | .error e => .error e
      | .ok wl => .ok ({ p with wells := wl }, [])
  | .wefac pat v =>
    match wellNamesLst (names p.wells) p.wlists m pat with
    | .error e => .error e
    | .ok ns =>
      match forWells p.wells (fun _ w => .ok { w with efac := v }) ns with
      | .error e => .error e
      | .ok wl => .ok ({ p with wells := wl }, [])
  | .wecon pat oil wct wo =>
    match wellNamesReq (names p.wells) p.wlists m pat with
    | .error e => .error e
    | .ok ns =>
      match forWells p.wells (fun _ w => .ok { w with econ := (vmul oil k.siLRate, wct, wo) }) ns with
      | .error e => .error e
      | .ok wl => .ok ({ p with wells := wl }, [])
  | .wtest pat interval reasons num startup =>
    match wellNamesReq (names p.wells) p.wlists m pat with
    | .error e => .error e
    | .ok ns =>
      let t : WTest := { reasons := reasonMask reasons, interval := vmul interval k.siTime, num := num,
                         startup := vmul startup k.siTime, step := p.nstep - 1 }
      .ok ({ p with wtest := ns.foldl (fun wt n => if reasons.isEmpty then wt.filter (fun x => x.1 ≠ n) else setKey wt n t) p.wtest }, [])
  | .wlist name action wells =>
    -- every argument is resolved on its own; an unknown plain name is an input error
    let rec resolve : List String → Except Err (List String)
      | [] => .ok []
      | a :: r =>
        match wellNames (names p.wells) p.wlists m a with
        | .error e => .error e
        | .ok ns =>
          if ns.isEmpty && !a.toList.contains '*' then .error .input
          else match resolve r with
            | .error e => .error e
            | .ok rest => .ok (ns ++ rest)
    match resolve wells with
    | .error e => .error e
    | .ok ws =>
      match wlistUpdate p.wlists name action ws with
      | .error e => .error e
      | .ok wl => .ok ({ p with wlists := wl }, [])
  | .gruptree child parent =>
    match ensureGroup k p.groups child with
    | .error e => .error e
    | .ok g1 =>
      match ensureGroup k g1 parent with
      | .error e => .error e
      | .ok g2 =>
        match addGroupToGroup g2 parent child with
        | .error e => .error e
        | .ok g3 => .ok ({ p with groups := g3 }, [])
  | .gefac pat v =>
    match groupNamesReq (names p.groups) pat with
    | .error e => .error e
    | .ok ns => .ok ({ p with groups := ns.foldl (fun gs n => modify gs n fun g => { g with gefac := v }) p.groups }, [])
  | .gconprod r =>
    match groupNamesReq (names p.groups) r.pat with
    | .error e => .error e
    | .ok ns => .ok ({ p with groups := ns.foldl (fun gs n => modify gs n fun g => gconprodProps g r k.zero) p.groups }, [])
  | .gconinje r =>
    match groupNamesReq (names p.groups) r.pat with
    | .error e => .error e
    | .ok ns => .ok ({ p with groups := ns.foldl (fun gs n => modify gs n fun g => gconinjeProps k n g r) p.groups }, [])
  | .nextstep v all => .ok ({ p with nextstep := some (vmul v k.siTime, all) }, [])
  | .udq act q data =>
    match act with
    | .units =>
      match lookup p.udqUnits q with
      | some u => if u = data then .ok (p, []) else .error .input
      | none => .ok ({ p with udqUnits := p.udqUnits ++ [(q, data)] }, [])
    | .assign => .ok ({ p with udq := modify (udqNode p.udq q 0) q fun x => { x with assigned := true } }, [])
    | .define => .ok ({ p with udq := modify (udqNode p.udq q 1) q fun x => { x with define := some data } }, [])
  | .compdat .. => .error .unsupported
  | .welopenC .. => .error .unsupported
  | .complump .. => .error .unsupported
  | .wpimultC .. => .error .unsupported
  | .wpimultG .. => .error .unsupported

/-! ### connection operations -/

def rangeIncl (a b : Nat) : List Nat := (List.range (b + 1 - a)).map (· + a)

/-- `WellConnections::loadCOMPDAT` for one cell: an existing connection in that cell is rebuilt
(new state, PI multiplier back to 1, completion number kept), else a new one is appended with
completion number size + 1. -/
def putConn (one : Val) (cs : List Conn) (i j k state : Nat) : List Conn :=
  if cs.any (fun x => x.i = i ∧ x.j = j ∧ x.k = k) then
    cs.map fun x => if x.i = i ∧ x.j = j ∧ x.k = k then { x with state := state, pimult := one } else x
  else cs ++ [{ i := i, j := j, k := k, state := state, complnum := cs.length + 1, pimult := one }]

def matchCoord (rec val : Nat) : Bool := rec = 0 || rec = val + 1
def matchGe (rec val : Nat) : Bool := rec = 0 || val ≥ rec
def matchLe (rec val : Nat) : Bool := rec = 0 || val ≤ rec

/-- The pattern of `Well::handleWELOPENConnections` / `handleCOMPLUMP` / `handleWPIMULT`: every
connection is passed through `f`. -/
def rebuild (c : ConnMap) (n : String) (f : Conn → Conn) : ConnMap :=
  modify c n fun cs => cs.map f

/-! #### `WellConnections::order()`

Depth enters only through comparisons; the model represents the depth of a connection by its
layer index `k` and the surface by `none` (generator assumption: a layer-cake grid — the cell
depth is strictly increasing in k and the same in every column). -/

def dist2 (oi oj : Nat) (c : Conn) : Nat :=
  ((c.i - oi) + (oi - c.i)) * ((c.i - oi) + (oi - c.i)) + ((c.j - oj) + (oj - c.j)) * ((c.j - oj) + (oj - c.j))

def zdiff (oz : Option Nat) (kk : Nat) : Nat :=
  match oz with
  | none => kk + 1
  | some z => (kk - z) + (z - kk)

/-- `c` replaces the best candidate so far in `findClosestConnection`: strictly smaller column
distance, or the same distance and strictly smaller depth difference (the first minimum wins). -/
def closer (oi oj : Nat) (oz : Option Nat) (c best : Conn) : Bool :=
  dist2 oi oj c < dist2 oi oj best || (dist2 oi oj c == dist2 oi oj best && zdiff oz c.k < zdiff oz best.k)

/-- `findClosestConnection` over `best :: rest`: position of the winner (`best` is at `bi`, the
head of the rest at `pos`). -/
def closestIdx (oi oj : Nat) (oz : Option Nat) : List Conn → Nat → Nat → Conn → Nat
  | [], _, bi, _ => bi
  | c :: r, pos, bi, b =>
    if closer oi oj oz c b then closestIdx oi oj oz r (pos + 1) pos c else closestIdx oi oj oz r (pos + 1) bi b

/-- `std::swap(v[0], v[idx])` on the non-empty list `c :: cs`. -/
def swapToFront (c : Conn) (cs : List Conn) (idx : Nat) : Conn × List Conn :=
  match idx with
  | 0 => (c, cs)
  | n + 1 =>
    match cs[n]? with
    | some x => (x, cs.set n c)
    | none => (c, cs)

/-- `orderTRACK` on the suffix whose predecessor is at column (oi, oj), depth oz. -/
def trackFrom : Nat → Nat → Nat → Option Nat → List Conn → List Conn
  | 0, _, _, _, cs => cs
  | _, _, _, _, [] => []
  | fuel + 1, oi, oj, oz, c :: cs =>
    let ht := swapToFront c cs (closestIdx oi oj oz cs 1 0 c)
    ht.1 :: trackFrom fuel ht.1.i ht.1.j (some ht.1.k) ht.2

/-- Stable insertion by depth (libstdc++'s `std::sort` below 17 elements). -/
def insertByDepth (c : Conn) : List Conn → List Conn
  | [] => [c]
  | d :: ds => if c.k < d.k then c :: d :: ds else d :: insertByDepth c ds

/-- `WellConnections::order()` for a well without segments; `hi`, `hj` = head (1-based) of the
`WellConnections` object. -/
def reorder (ord hi hj : Nat) (cs : List Conn) : List Conn :=
  if ord = 0 then trackFrom cs.length (hi - 1) (hj - 1) none cs
  else if ord = 1 then cs.foldl (fun acc c => insertByDepth c acc) []
  else cs

def stepC (k : Consts) (m : List String) (p : Props) (c : ConnChan) : ROp → Except Err ConnChan
  | .compdat pat i j k1 k2 state =>
    match wellNamesLst (names p.wells) p.wlists m pat with
    | .error e => .error e
    | .ok ns =>
      -- defaulted I/J use the head the `WellConnections` object was built with, which after a
      -- WELSPECS head change depends on the connection ordering: outside the model
      if (i = 0 ∨ j = 0) ∧ ns.any (fun n => match lookup p.wells n with
          | some w => w.headI ≠ w.head0I ∨ w.headJ ≠ w.head0J
          | none => false) then .error .unsupported
      else
      .ok { c with m := ns.foldl (fun cm n =>
        match lookup p.wells n with
        | none => cm
        | some w =>
          let ci := if i = 0 then w.head0I - 1 else i - 1
          let cj := if j = 0 then w.head0J - 1 else j - 1
          -- `Well::updateConnections` orders the new connection set (TRACK: from the head the
          -- `WellConnections` object was built with)
          setKey cm n (reorder w.order w.head0I w.head0J
            ((rangeIncl (k1 - 1) (k2 - 1)).foldl (fun cs kk => if k1 = 0 then cs else putConn k.one cs ci cj kk state) (connsOf cm n)))) c.m }
  | .welopenC pat cstate i j kk c1 c2 =>
    match wellNamesLst (names p.wells) p.wlists m pat with
    | .error e => .error e
    | .ok ns =>
      match cstate with
      | none => if ns.isEmpty then .ok c else .error .input
      | some s =>
        .ok { c with m := ns.foldl (fun cm n => rebuild cm n fun x =>
            if matchCoord i x.i && matchCoord j x.j && matchCoord kk x.k && matchGe c1 x.complnum && matchLe c2 x.complnum
            then { x with state := s } else x) c.m }
  | .complump pat i j k1 k2 n =>
    match wellNamesLst (names p.wells) p.wlists m pat with
    | .error e => .error e
    | .ok ns =>
      if n = 0 ∧ !ns.isEmpty then .error .input
      else .ok { c with m := ns.foldl (fun cm w => rebuild cm w fun x =>
            if matchCoord i x.i && matchCoord j x.j && (k1 = 0 || x.k + 1 ≥ k1) && (k2 = 0 || x.k + 1 ≤ k2)
            then { x with complnum := n } else x) c.m }
  | .wpimultC pat f i j kk c1 c2 =>
    match wellNamesLst (names p.wells) p.wlists m pat with
    | .error e => .error e
    | .ok ns =>
      .ok { c with m := ns.foldl (fun cm n => rebuild cm n fun x =>
            if matchGe c1 x.complnum && matchLe c2 x.complnum && matchCoord i x.i && matchCoord j x.j && matchCoord kk x.k
            then { x with pimult := vmul x.pimult f } else x) c.m }
  | .wpimultG pat f =>
    match wellNamesLst (names p.wells) p.wlists m pat with
    | .error e => .error e
    | .ok ns => .ok { c with g := ns.foldl (fun g n => setKey g n f) c.g }
  | _ => .error .unsupported

/-! ### multisegment wells -/

/-- `WellSegments::getFromSegmentNumber` + `addSegment`: replace segment `n`; an unknown segment number throws. -/
def setSeg (ss : List Seg) (n : Nat) (f : Seg → Seg) : Except Err (List Seg) :=
  if n ≤ 1 then .error .unsupported                    -- devices on the top segment: outside the model
  else if ss.any (fun s => s.num = n) then .ok (ss.map fun s => if s.num = n then f s else s)
  else .error .input

/-- `Segment::updateValve`: explicit pipe diameter / roughness / area overwrite the segment's, defaulted ones are
taken from it; the maximum constriction area defaults to the pipe area. -/
def valveOn (s : Seg) (r : ValveRec) : Seg :=
  let d := optV s.diam r.pd
  let ro := optV s.rough r.pr
  let a := optV s.area r.pa
  { s with diam := d, rough := ro, area := a, icd := .valve r.cv r.ac r.isOpen d ro a (optV a r.maxA) }

/-- `WellSegments::updateWSEGVALV`: the records in order, on the copy. -/
def applyValves (ss : List Seg) : List ValveRec → Except Err (List Seg)
  | [] => .ok ss
  | r :: rs =>
    match setSeg ss r.seg (fun s => valveOn s r) with
    | .error e => .error e
    | .ok ss' => applyValves ss' rs

/-- The handler loop over the wells named: every well gets a new segment set computed from its current one.  A well
without segments is outside the model (the C++ dereferences a null `segments` pointer). -/
def forSegs (sm : List (String × List Seg)) (f : List Seg → Except Err (List Seg)) :
    List String → Except Err (List (String × List Seg))
  | [] => .ok sm
  | n :: r =>
    match lookup sm n with
    | none => .error .unsupported
    | some ss =>
      match f ss with
      | .error e => .error e
      | .ok ss' => forSegs (modify sm n fun _ => ss') f r

def topSeg : Seg := { num := 1, branch := 1, outlet := 0, diam := "-", rough := "-", area := "-" }

/-- The segment map after one multisegment keyword; reads the well list and the well lists only. -/
def segStep (p : Props) : SegOp → Except Err (List (String × List Seg))
  | .welsegs w segs =>
    if !has p.wells w then .error .input
    else if has p.segs w then .error .unsupported        -- WELSEGS re-issued (`loadWELSEGS` on a copy): outside the model
    else .ok (p.segs ++ [(w, topSeg :: segs)])
  | .valve pat recs =>
    match wellNamesLst (names p.wells) p.wlists [] pat with
    | .error e => .error e
    | .ok ns => forSegs p.segs (fun ss => applyValves ss recs) ns
  | .sicd pat n len o =>
    match wellNamesLst (names p.wells) p.wlists [] pat with
    | .error e => .error e
    | .ok ns => forSegs p.segs (fun ss => setSeg ss n fun s => { s with icd := .sicd len o }) ns
  | .aicd pat n len o =>
    match wellNamesLst (names p.wells) p.wlists [] pat with
    | .error e => .error e
    | .ok ns => forSegs p.segs (fun ss => setSeg ss n fun s => { s with icd := .aicd len o }) ns

/-! ### keywords, blocks, schedule -/

/-- What a property operation sees of the connection channel. -/
def emp (c : ConnChan) (w : String) : Bool := (connsOf c.m w).isEmpty

def stepR (k : Consts) (m : List String) (s : State) (r : ROp) : Except Err State :=
  if r.isConn then
    match stepC k m s.p s.c r with
    | .error e => .error e
    | .ok c' => .ok { s with c := c' }
  else
    match stepP k m (emp s.c) s.p r with
    | .error e => .error e
    | .ok (p', ws) => .ok { s with p := p', st := applyWrites s.st ws, ev := s.ev ++ evWrites s.st ws }

def runOps (k : Consts) (m : List String) (s : State) : List ROp → Except Err State
  | [] => .ok s
  | r :: rs =>
    match stepR k m s r with
    | .error e => .error e
    | .ok s' => runOps k m s' rs

/-- `Schedule::handleKeyword` for one (non-ACTIONX) keyword. -/
def handle (k : Consts) (m : List String) (s : State) : CKw → Except Err State
  | .ops _ rs => runOps k m s rs
  | .actionx _ => .ok s       -- only reachable through applyAction bodies; no handler effect
  | .endactio => .ok s
  | .compord _ => .ok s       -- `handleCOMPORD` is empty
  | .msw op =>
    match segStep s.p op with
    | .error e => .error e
    | .ok sm => .ok { s with p := { s.p with segs := sm } }

def addAction (s : State) (n : String) (body : List CKw) : State :=
  { s with p := { s.p with actions := setKey s.p.actions n body } }

/-- The keyword loop of one block, with the ACTIONX ... ENDACTIO collection mode
(`acc = some (name, body so far)` while inside an action). -/
def runKws (k : Consts) : Option (String × List CKw) → State → List CKw → Except Err State
  | none, s, [] => .ok s
  | some _, _, [] => .error .input                       -- "Missing keyword ENDACTIO"
  | none, s, .actionx n :: r => runKws k (some (n, [])) s r
  | none, s, kw :: r =>
    match handle k [] s kw with
    | .error e => .error e
    | .ok s' => runKws k none s' r
  | some (n, acc), s, .endactio :: r => runKws k none (addAction s n acc) r
  | some _, _, .compord _ :: _ => .error .input            -- not an ACTIONX keyword (ACTIONX_ILLEGAL_KEYWORD throws)
  | some (n, acc), s, kw :: r => runKws k (some (n, acc ++ [kw])) s r

def allShut (cs : List Conn) : Bool := !cs.isEmpty && cs.all (fun x => x.state = 2)

/-- `Schedule::applyGlobalWPIMULT`: every connection of the wells in the map is scaled. -/
def applyGlobal (c : ConnChan) : ConnChan :=
  { m := c.g.foldl (fun cm (nf : String × Val) => rebuild cm nf.1 fun x => { x with pimult := vmul x.pimult nf.2 }) c.m,
    g := [] }

/-- `Schedule::end_report` = `checkIfAllConnectionsIsShut`: status writes computed from the
well list and the connection channel only. -/
def endReportWrites (p : Props) (c : ConnMap) : List (String × Status) :=
  (names p.wells).flatMap fun w => if allShut (connsOf c w) then [(w, Status.shut)] else []

def endReport (s : State) : State :=
  { s with st := applyWrites s.st (endReportWrites s.p s.c.m), ev := s.ev ++ evWrites s.st (endReportWrites s.p s.c.m) }

/-- End of a block (and of `applyAction`'s handler loop): deferred WPIMULT, then end_report. -/
def closeBlock (s : State) : State := endReport { s with c := applyGlobal s.c }

/-- `create_next`: the new snapshot is a copy with the per-step events (marker, status changes) reset, the
report-step counter advanced and a one-shot NEXTSTEP dropped; the deferred WPIMULT map of the
iteration is a fresh local. -/
def createNext (s : State) : State :=
  { s with mark := [], ev := [],
           p := { s.p with nstep := s.p.nstep + 1,
                           nextstep := match s.p.nextstep with
                             | some (v, true) => some (v, true)
                             | _ => none },
           c := { s.c with g := [] } }

/-- `ScheduleBlock::get("COMPORD")`: the records of the first COMPORD keyword of the block. -/
def compordOf : List CKw → List (String × Nat)
  | [] => []
  | .compord recs :: _ => recs
  | _ :: r => compordOf r

/-- The state the handlers of a block start from: `create_next`, and the block's own COMPORD
keyword made available to WELSPECS — a look-ahead inside the report step, never beyond it. -/
def beginBlock (s : State) (kws : List CKw) : State :=
  let s' := createNext s
  { s' with p := { s'.p with compord := compordOf kws } }

def stepBlock (k : Consts) (s : State) (kws : List CKw) : Except Err State :=
  match runKws k none (beginBlock s kws) kws with
  | .error e => .error e
  | .ok s' => .ok (closeBlock s')

/-- State before block 0 (`create_first` adds the FIELD group). -/
def init (k : Consts) : State := { p := { groups := [("FIELD", newGroup k "")] } }

/-- Snapshots of blocks `bs` processed from state `s` (scan). -/
def runFrom (k : Consts) (s : State) : List (List CKw) → Except Err (List State)
  | [] => .ok []
  | b :: r =>
    match stepBlock k s b with
    | .error e => .error e
    | .ok s' =>
      match runFrom k s' r with
      | .error e => .error e
      | .ok ss => .ok (s' :: ss)

def run (k : Consts) (bs : List (List CKw)) : Except Err (List State) := runFrom k (init k) bs

/-- The whole pipeline: partition, then iterate. -/
def schedule (k : Consts) (start : Time) (kws : List (Kw CKw)) : Except Err (List State) :=
  match blocks start kws with
  | .error _ => .error .input
  | .ok bs => run k (bs.map Block.kws)

end OpmVerif.Sched
