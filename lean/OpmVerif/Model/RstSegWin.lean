/-
  Segment → ISEG / RSEG window arithmetic of multi-segment wells (C05, third round; core Lean only).

  The writer (AggregateMSWData.cpp) and the two readers (LoadRestart.cpp restoreSegmentQuantities, rst/well.cpp RstWell)
  compute the flat position of a segment's window with hand-written index arithmetic.  translate/rstsegwin.py parses
  those index expressions into `IExpr` trees over the C++ variable names (Gen/RstSegWin.lean); this file says how such
  a tree is evaluated and — the hand-written part, validated by the correspondence of harness/rstdyn.cpp — what the
  C++ names stand for.

  Line protocol:
    rstsegwin.win <nsegmx> <nisegz> <nrsegz> <msw (1-based)> <storage index> <segment number>
      -> "<writer ISEG> <writer RSEG> <LoadRestart RSEG> <RstWell ISEG> <RstWell RSEG>"   flat window starts
-/
namespace OpmVerif.RstSegWin

/-- Integer index expressions as they occur in the C++ sources. -/
inductive IExpr where
  | var (name : String)
  | lit (n : Int)
  | add (a b : IExpr)
  | sub (a b : IExpr)
  | mul (a b : IExpr)
  deriving Repr, DecidableEq

def IExpr.eval (env : String → Int) : IExpr → Int
  | .var s => env s
  | .lit n => n
  | .add a b => a.eval env + b.eval env
  | .sub a b => a.eval env - b.eval env
  | .mul a b => a.eval env * b.eval env

/-- One segment of one multi-segment well in one restart file: `nsegmx`, `nisegz`, `nrsegz` from INTEHEAD,
`msw` the well's one-based MS-well number (IWEL[MsWID]), `idx` the zero-based position of the segment in the
well's `WellSegments` (storage order), `segno` its one-based segment number. -/
structure Seg where
  nsegmx : Int
  nisegz : Int
  nrsegz : Int
  msw : Int
  idx : Int
  segno : Int

/-- AggregateMSWData.cpp: `segNumber = segment.segmentNumber()`, `noElmSeg = nisegz(inteHead)` / `nrsegz(inteHead)`,
`ind` = loop counter over the segment set, inteHead[176] = NSEGMX, [178] = NISEGZ, [179] = NRSEGZ. -/
def writerEnv (elems : Int) (s : Seg) (v : String) : Int :=
  if v = "segNumber" then s.segno else if v = "noElmSeg" then elems else if v = "ind" then s.idx
  else if v = "inteHead[176]" then s.nsegmx else if v = "inteHead[178]" then s.nisegz
  else if v = "inteHead[179]" then s.nrsegz else 0

/-- LoadRestart.cpp: `segNumber = segSet[segID].segmentNumber()`, `segID` = loop counter over the segment set,
`mswID = iwel[MsWID]` (one-based), SegmentVectors members initialised from INTEHEAD. -/
def loaderEnv (s : Seg) (v : String) : Int :=
  if v = "segNumber" then s.segno else if v = "segID" then s.idx else if v = "mswID" then s.msw
  else if v = "this.maxSegPerWell_" then s.nsegmx else if v = "this.numISegElm_" then s.nisegz
  else if v = "this.numRSegElm_" then s.nrsegz else 0

/-- rst/well.cpp: `is` = candidate window (loop counter 0 … nsegmx-1), `this->msw_index` one-based. -/
def rstEnv (s : Seg) (is : Int) (v : String) : Int :=
  if v = "is" then is else if v = "this.msw_index" then s.msw else if v = "header.nsegmx" then s.nsegmx
  else if v = "header.nisegz" then s.nisegz else if v = "header.nrsegz" then s.nrsegz else 0

/-- Flat position of a writer base index: window `msw-1` of a `WindowedArray` with `entriesPerMSW` elements per window
(`this->iSeg_[mswID]`, `mswID` zero-based in `MSWLoop`), plus the base index inside the window. -/
def writerPos (entries base : IExpr) (elems : Int) (s : Seg) : Int :=
  (s.msw - 1) * entries.eval (writerEnv elems s) + base.eval (writerEnv elems s)

/-- Where the segment's window starts if every party agrees: segments of a well are laid out BY SEGMENT NUMBER. -/
def canon (elems : Int) (s : Seg) : Int := ((s.msw - 1) * s.nsegmx + (s.segno - 1)) * elems

/-- The same as a natural number (window `(m-1)·nsegmx + (n-1)` of size `w`, slot `item`). -/
def segPos (nsegmx w m n item : Nat) : Nat := ((m - 1) * nsegmx + (n - 1)) * w + item

end OpmVerif.RstSegWin
