/-
  Line-protocol front end of the unified-restart model.
    unrst.run <step>|<step>|...      -> hex of the final file | err
       <step> = <n>=<arr>;<arr>;...   (an empty array list is written as `<n>=`)
       <arr>  = <TYPE>,<esz>,<name-hex>,<count>,<elems-hex>
    unrst.fmthdr <name-hex> <n> <tag-hex> -> length of the formatted header line
-/
import OpmVerif.Model.Unrst
import OpmVerif.Model.EclBinIO
-- driver: prefix=unrst handler=OpmVerif.Unrst.handle

namespace OpmVerif.Unrst
open OpmVerif.Ecl

def parseArr (s : String) : Option Arr :=
  match s.splitOn "," with
  | [ty, esz, nameHex, n, elemsHex] =>
    match parseTy ty esz.toNat!, ofHex nameHex, ofHex elemsHex with
    | some t, some name, some bs => some { name := name, ty := t, elems := splitEvery (elemSize t) n.toNat! bs }
    | _, _, _ => none
  | _ => none

def parseStep (s : String) : Option (Nat × List Arr) :=
  match s.splitOn "=" with
  | [n, arrs] =>
    let parts := if arrs.isEmpty then [] else arrs.splitOn ";"
    let as := parts.map parseArr
    if as.all Option.isSome then some (n.toNat!, as.filterMap id) else none
  | _ => none

def handle (op : String) (args : List String) : String :=
  match op, args with
  | "unrst.run", [h] =>
    let steps := (h.splitOn "|").map parseStep
    if steps.all Option.isSome then
      match runHistory none (steps.filterMap id) with
      | .ok (some f) => toHex f
      | .ok none => "-"
      | .error _ => "err"
    else "bad-op"
  | "unrst.fmthdr", [nameHex, n, tagHex] =>
    match ofHex nameHex, ofHex tagHex with
    | some name, some tg =>
      toString (fmtHeader (name.map fun b => Char.ofNat b.toNat) n.toNat! (tg.map fun b => Char.ofNat b.toNat)).length
    | _, _ => "bad-op"
  | _, _ => "bad-op"

end OpmVerif.Unrst
