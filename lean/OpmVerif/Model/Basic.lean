/-
  Shared basics for all models (core Lean only).
-/
namespace OpmVerif

instance instDecEqExcept {ε α : Type} [DecidableEq ε] [DecidableEq α] : DecidableEq (Except ε α) :=
  fun a b =>
  match a, b with
  | .ok x, .ok y => if h : x = y then isTrue (by rw [h]) else isFalse (by intro h'; cases h'; exact h rfl)
  | .error x, .error y => if h : x = y then isTrue (by rw [h]) else isFalse (by intro h'; cases h'; exact h rfl)
  | .ok _, .error _ => isFalse (by intro h; cases h)
  | .error _, .ok _ => isFalse (by intro h; cases h)

/-- Hex rendering of a byte list for the line protocol. -/
def hexDigit (n : Nat) : Char :=
  if n < 10 then Char.ofNat (48 + n) else Char.ofNat (87 + n)

def toHex (bs : List UInt8) : String :=
  String.ofList (bs.flatMap fun b => [hexDigit (b.toNat / 16), hexDigit (b.toNat % 16)])

def hexVal (c : Char) : Option Nat :=
  if '0' ≤ c ∧ c ≤ '9' then some (c.toNat - 48)
  else if 'a' ≤ c ∧ c ≤ 'f' then some (c.toNat - 87)
  else if 'A' ≤ c ∧ c ≤ 'F' then some (c.toNat - 55)
  else none

def ofHexChars : List Char → Option (List UInt8)
  | [] => some []
  | [_] => none
  | a :: b :: r => do
    let x ← hexVal a
    let y ← hexVal b
    let rest ← ofHexChars r
    pure (UInt8.ofNat (x * 16 + y) :: rest)

/-- Parse a hex string; `-` denotes the empty byte string. -/
def ofHex (s : String) : Option (List UInt8) :=
  if s = "-" then some [] else ofHexChars s.toList

end OpmVerif
