/-
  Line-protocol front end of the unit model (see harness/units.cpp for the other side).
  <sys> is the numeric `UnitSystem::UnitType`, <m> the numeric `measure`; doubles travel as
  16 hex digits, strings hex-encoded.

  Bit-exact operations (model executes the generated expressions at `Float`, in the operation
  order of the C++ source; the answer is compared as a string with the real code's answer):
    units.const   <c++ name>                 -> <bits> | unknown
    units.to_si   <sys> <m> <x>              -> <bits>
    units.from_si <sys> <m> <x>              -> <bits>
    units.mdim    <sys> <m>                  -> <scale> <offset>        (getDimension(measure))
    units.kwdims                             -> the distinct keyword dimension strings (JSON side)
    units.name    <sys> <m>                  -> <hex of unit name>
    units.sys     <sys>                      -> <hex m_name> <hex deck name | ->
    units.nmeasure                           -> number of measures
    units.dim     <sys> <name>               -> <scale|nan> <offset> | none
    units.parse   <sys> <string>             -> ok <scale|nan> <offset> | err
    units.newdim  <sys> <string>             -> ok <scale|nan> <offset> | err
    units.item    <active> <default> <values> <calls>  -> observation;observation;…
    units.uda     <active> <default> <values> <i>      -> x:<si bits> | undef <scale> <offset> | err
    units.kwitem  <KEYWORD.record.ITEM>      -> dim,dim,… | none        (JSON side of one parser item)
    units.kwitemcount                        -> number of dimensioned items on the JSON side
    units.sol     <sys> <calls F|T…> <m:x,x;m:x…>  -> <si 0|1> <m:x,x;…>   (data::Solution conversions)
    units.tosi_s   <sys> <string> <x>        -> <bits> | err            (to_si(const std::string&, double))
    units.fromsi_s <sys> <string> <x>        -> <bits> | err
    units.ub       <string>                  -> 0 | 1                   (would parse() index parts[1] out of bounds?)
    units.udadim   <sys> <UDAControl name>   -> <scale> <offset> | err  (uda_dim)
    units.quant_q  <sys> <quantity> <scale> <offset> -> ok | differs <num/den> <num/den> | unknown
                   (the harness's own number for the unit of a physical quantity vs `Spec.quantValue`, 8 roundings)
    units.itemq    <KEYWORD.record.ITEM>      -> quantity,… | none   (hand-written item table, translator's copy)
    units.itemqcount                         -> number of entries
    units.fpunits                            -> SECTION.KW=<hex unit>,… sorted (FieldProps.hpp unit strings)
    units.fpsi     <sys> <SECTION> <KW> <x>  -> <bits> | err            (FieldProps::getSIValue's conversion)

  Exact operations (the op line carries the double the REAL code produced; the model evaluates
  the same expression exactly in `Rat`, derives the rigorous rounding bound `k·u·mag` of the
  double evaluation from the expression itself (`Tracked`), and answers `ok` iff the real
  double lies within that bound of the exact value; the implementation side of these lines is
  the constant `ok`):
    units.constq    <c++ name> <bits>        -> ok | differs <num/den> | unknown
    units.to_si_q   <sys> <m> <x> <result>   -> ok | differs <num/den>
    units.from_si_q <sys> <m> <x> <result>   -> ok | differs <num/den>
    units.parse_q   <sys> <string> <scale>   -> ok | differs <num/den> | err
-/
import OpmVerif.Model.Units
import OpmVerif.Model.UnitsUse
import OpmVerif.Model.Basic
import OpmVerif.Proofs.UnitsQuantSpec   -- hand-written quantity specification (core Lean, definitions only)
-- driver: prefix=units handler=OpmVerif.Units.handle

namespace OpmVerif.Units
open OpmVerif.Gen.Units OpmVerif.Gen.UnitsUse

def hexNat (s : String) : Option Nat :=
  s.toList.foldl (fun acc c => match acc, hexVal c with
    | some a, some v => some (a * 16 + v)
    | _, _ => none) (some 0)

def hex16 (n : Nat) : String :=
  String.ofList ((List.range 16).map fun i => hexDigit ((n >>> (4 * (15 - i))) % 16))

def floatOfHex (s : String) : Option Float :=
  if s.length = 16 then (hexNat s).map fun n => Float.ofBits (UInt64.ofNat n) else none

def showFloat (x : Float) : String :=
  if x.isNaN then "nan" else hex16 x.toBits.toNat

/-- exact value of a finite double given by its bit pattern -/
def ratOfBits (n : Nat) : Option Rat :=
  let sign : Nat := n >>> 63
  let e : Nat := (n >>> 52) % 2048
  let m : Nat := n % 2 ^ 52
  if e = 2047 then none
  else
    let mag : Rat :=
      if e = 0 then (m : Rat) / ((2 ^ 1074 : Nat) : Rat)
      else if e ≥ 1075 then (((2 ^ 52 + m) * 2 ^ (e - 1075) : Nat) : Rat)
      else ((2 ^ 52 + m : Nat) : Rat) / ((2 ^ (1075 - e) : Nat) : Rat)
    some (if sign = 1 then -mag else mag)

def ratOfHex (s : String) : Option Rat :=
  if s.length = 16 then (hexNat s).bind ratOfBits else none

def showRat (q : Rat) : String := toString q.num ++ "/" ++ toString q.den

def absRat (q : Rat) : Rat := if q < 0 then -q else q

/-- unit roundoff with room for the second-order terms of `(1+u)^k - 1` (k < 2^10) -/
def uRound : Rat := (1 : Rat) / ((2 ^ 53 : Nat) : Rat) * ((1025 : Rat) / 1024)

/-- is the real double `d` within the derived rounding bound of the exact value? -/
def withinBound (t : Tracked) (d : Rat) : Bool :=
  decide (absRat (t.q - d) ≤ (t.k : Rat) * uRound * t.mag)

def verdict (t : Tracked) (d : Option Rat) : String :=
  match d with
  | none => "differs " ++ showRat t.q
  | some d => if withinBound t d then "ok" else "differs " ++ showRat t.q

def strOfHex (h : String) : Option String :=
  (ofHex h).bind fun bs => String.fromUTF8? (ByteArray.mk bs.toArray)

def hexOfStr (s : String) : String :=
  let h := toHex s.toUTF8.toList
  if h.isEmpty then "-" else h

def sysAt (α : Type) [Num α] (i : String) : Option (SysDef α) :=
  i.toNat?.bind fun k => (systems α).find? (·.typeId == k)

def showDimF (d : Dim Float) : String :=
  (match d.scale with
   | some f => if f.isFinite then showFloat f else "nan"
   | none => "nan") ++ " " ++ showFloat d.offset

/-! item protocol -/

def parseDimF (s : String) : Option (Dim Float) :=
  match s.splitOn ":" with
  | [a, b] =>
    match (if a = "nan" then some none else (floatOfHex a).map some), floatOfHex b with
    | some sc, some off => some ⟨sc, off⟩
    | _, _ => none
  | _ => none

def parseList {β : Type} (f : String → Option β) (s : String) : Option (List β) :=
  if s = "-" then some [] else (s.splitOn ",").mapM f

def parseVal (s : String) : Option (Status × Float) :=
  match s.splitOn ":" with
  | [a, b] =>
    match (match a with
      | "u" => some Status.uninitialized | "v" => some Status.deckValue
      | "e" => some Status.emptyDefault | "d" => some Status.validDefault | _ => none), floatOfHex b with
    | some st, some x => some (st, x)
    | _, _ => none
  | _ => none

def parseCall (s : String) : Option Call :=
  if s = "D" then some .getData
  else if s = "S" then some .getSIData
  else if s.startsWith "g" then (s.drop 1).toNat?.map .get
  else if s.startsWith "s" then (s.drop 1).toNat?.map .getSI
  else none

def showObs : Obs Float → String
  | .vec [] => "v:-"
  | .vec xs => "v:" ++ ",".intercalate (xs.map showFloat)
  | .val x => "x:" ++ showFloat x
  | .err => "err"

def parseCell (s : String) : Option (Nat × List Float) :=
  match s.splitOn ":" with
  | [m, xs] =>
    match m.toNat?, parseList floatOfHex xs with
    | some mi, some v => some (mi, v)
    | _, _ => none
  | _ => none

def showCells (cs : List (Nat × List Float)) : String :=
  if cs.isEmpty then "-" else
  ";".intercalate (cs.map fun c => toString c.1 ++ ":" ++
    (if c.2.isEmpty then "-" else ",".intercalate (c.2.map showFloat)))

def handle (op : String) (args : List String) : String :=
  match op, args with
  | "units.kwitem", [key] =>
    match keywordItemDims.find? (·.1 == key) with
    | some (_, ds) => ",".intercalate ds
    | none => "none"
  | "units.uda", [a, d, v, i] =>
    match parseList parseDimF a, parseList parseDimF d, parseList parseVal v, i.toNat? with
    | some act, some dfl, some vals, some idx =>
      let it : Item Float := { dval := vals.map (·.2), status := vals.map (·.1), rawData := true,
                               active := act, dflt := dfl }
      match it.uda idx with
      | .si x => "x:" ++ showFloat x
      | .undefined dm => "undef " ++ showDimF dm
      | .err => "err"
    | _, _, _, _ => "bad-op"
  | "units.quant_q", [s, q, sc, off] =>
    match sysAt Rat s with
    | some sd =>
      match sd.deckName.bind (fun deck => Spec.quantValue deck q) with
      | some (vs, vo) =>
        let close (v : Rat) (d : Option Rat) : Bool :=
          match d with
          | some d => decide (absRat (v - d) ≤ 8 * uRound * absRat v)
          | none => false
        if close vs (ratOfHex sc) && close vo (ratOfHex off) then "ok" else "differs " ++ showRat vs ++ " " ++ showRat vo
      | none => "unknown"
    | none => "bad-op"
  | "units.itemqcount", [] => toString Gen.UnitsQuant.itemQuantities.length
  | "units.itemq", [key] =>
    match Gen.UnitsQuant.itemQuantities.find? (·.1 == key) with
    | some e => ",".intercalate e.2
    | none => "none"
  | "units.kwitemcount", [] => toString keywordItemDims.length
  | "units.tosi_s", [s, strHex, x] =>
    match sysAt Float s, strOfHex strHex, floatOfHex x with
    | some sd, some str, some xv =>
      match toSIStr sd str xv with
      | some y => showFloat y
      | none => "err"
    | _, _, _ => "bad-op"
  | "units.fromsi_s", [s, strHex, x] =>
    match sysAt Float s, strOfHex strHex, floatOfHex x with
    | some sd, some str, some xv =>
      match fromSIStr sd str xv with
      | some y => showFloat y
      | none => "err"
    | _, _, _ => "bad-op"
  | "units.ub", [strHex] =>
    match strOfHex strHex with
    | some str => if parseUB str.toList then "1" else "0"
    | none => "bad-op"
  | "units.udadim", [s, c] =>
    match sysAt Float s with
    | some sd =>
      match udaDimOf sd c with
      | some d => showDimF d
      | none => "err"
    | none => "bad-op"
  | "units.fpunits", [] =>
    ",".intercalate ((fieldPropsUnits.map fun e => e.1 ++ "." ++ e.2.1 ++ "=" ++ hexOfStr e.2.2).toArray.qsort (· < ·)).toList
  | "units.fpsi", [s, sec, kw, x] =>
    match sysAt Float s, floatOfHex x with
    | some sd, some xv =>
      match fieldPropsSI sd sec kw xv with
      | some y => showFloat y
      | none => "err"
    | _, _ => "bad-op"
  | "units.sol", [s, calls, cells] =>
    match sysAt Float s, (if cells = "-" then some [] else (cells.splitOn ";").mapM parseCell) with
    | some sd, some cs =>
      let sol := calls.toList.foldl (fun (acc : Sol Float) c =>
        if c = 'F' then acc.convertFromSI sd else if c = 'T' then acc.convertToSI sd else acc)
        { si := true, cells := cs }
      (if sol.si then "1 " else "0 ") ++ showCells sol.cells
    | _, _ => "bad-op"
  | "units.nmeasure", [] => toString measureNames.length
  | "units.const", [name] =>
    match (constTable Float).find? (·.1 == name) with
    | some (_, v) => showFloat v
    | none => "unknown"
  | "units.constq", [name, bits] =>
    match (constTable Tracked).find? (·.1 == name) with
    | some (_, t) => verdict t (ratOfHex bits)
    | none => "unknown"
  | "units.to_si", [s, m, x] =>
    match sysAt Float s, m.toNat?, floatOfHex x with
    | some sd, some mi, some xv => showFloat (toSI sd mi xv)
    | _, _, _ => "bad-op"
  | "units.from_si", [s, m, x] =>
    match sysAt Float s, m.toNat?, floatOfHex x with
    | some sd, some mi, some xv => showFloat (fromSI sd mi xv)
    | _, _, _ => "bad-op"
  | "units.to_si_q", [s, m, x, r] =>
    match sysAt Tracked s, m.toNat?, ratOfHex x with
    | some sd, some mi, some xv => verdict (toSI sd mi (Tracked.exact xv)) (ratOfHex r)
    | _, _, _ => "bad-op"
  | "units.from_si_q", [s, m, x, r] =>
    match sysAt Tracked s, m.toNat?, ratOfHex x with
    | some sd, some mi, some xv => verdict (fromSI sd mi (Tracked.exact xv)) (ratOfHex r)
    | _, _, _ => "bad-op"
  | "units.mdim", [s, m] =>
    match sysAt Float s, m.toNat? with
    | some sd, some mi => showDimF (measureDim sd mi)
    | _, _ => "bad-op"
  | "units.kwdims", [] => ",".intercalate (keywordDimStrings.map hexOfStr)
  | "units.name", [s, m] =>
    match sysAt Float s, m.toNat? with
    | some sd, some mi =>
      match sd.unitNames[mi]? with
      | some n => hexOfStr n
      | none => "bad-op"
    | _, _ => "bad-op"
  | "units.sys", [s] =>
    match sysAt Float s with
    | some sd => hexOfStr sd.name ++ " " ++ (match sd.deckName with | some d => hexOfStr d | none => "-")
    | none => "bad-op"
  | "units.dim", [s, nameHex] =>
    match sysAt Float s, strOfHex nameHex with
    | some sd, some name =>
      match getDimension sd name with
      | some d => showDimF d
      | none => "none"
    | _, _ => "bad-op"
  | "units.parse", [s, strHex] =>
    match sysAt Float s, strOfHex strHex with
    | some sd, some str =>
      match parse sd str with
      | some d => "ok " ++ showDimF d
      | none => "err"
    | _, _ => "bad-op"
  | "units.newdim", [s, strHex] =>
    match sysAt Float s, strOfHex strHex with
    | some sd, some str =>
      match getNewDimension sd str with
      | some d => "ok " ++ showDimF d
      | none => "err"
    | _, _ => "bad-op"
  | "units.parse_q", [s, strHex, bits] =>
    match sysAt Tracked s, strOfHex strHex with
    | some sd, some str =>
      match parse sd str with
      | some ⟨some t, _⟩ => verdict t (ratOfHex bits)
      | _ => "err"
    | _, _ => "bad-op"
  | "units.item", [a, d, v, c] =>
    match parseList parseDimF a, parseList parseDimF d, parseList parseVal v, parseList parseCall c with
    | some act, some dfl, some vals, some calls =>
      let it : Item Float := { dval := vals.map (·.2), status := vals.map (·.1), rawData := true,
                               active := act, dflt := dfl }
      ";".intercalate ((it.runCode calls).2.map showObs)
    | _, _, _, _ => "bad-op"
  | _, _ => "bad-op"

end OpmVerif.Units
