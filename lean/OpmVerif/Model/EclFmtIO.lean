/-
  Line-protocol front end of the formatted layout model.
    eclfmt.body <TYPE> <esz> <w> <fields-hex>   -> hex of the data part laid out by the model
         (fields-hex = the n fields of w characters each, concatenated; `-` = none)
    eclfmt.size <TYPE> <esz> <n>                -> sizeOnDiskFormatted
    eclfmt.int  <i>                             -> hex of the 12-column INTE field
-/
import OpmVerif.Model.EclFmt
import OpmVerif.Model.EclBinIO
-- driver: prefix=eclfmt handler=OpmVerif.EclFmt.handle

namespace OpmVerif.EclFmt
open OpmVerif.Ecl

def splitFields (w : Nat) : Nat → List Char → List (List Char)
  | 0, _ => []
  | k + 1, cs => if cs = [] then [] else cs.take w :: splitFields w k (cs.drop w)

def handle (op : String) (args : List String) : String :=
  match op, args with
  | "eclfmt.body", [ty, esz, w, hex] =>
    match parseTy ty esz.toNat!, ofHex hex with
    | some t, some bs =>
      let cs := bs.map fun b => Char.ofNat b.toNat
      let fs := splitFields w.toNat! (cs.length + 1) cs
      let body := match t with
        | .char => stringBody t fs
        | .c0nn _ => stringBody t fs
        | t => numericBody t fs
      let h := toHex (body.map fun c => UInt8.ofNat c.toNat)
      if h.isEmpty then "-" else h
    | _, _ => "bad-op"
  | "eclfmt.size", [ty, esz, n] =>
    match parseTy ty esz.toNat! with
    | some t => toString (sizeOnDiskFormatted n.toNat! t)
    | none => "bad-op"
  | "eclfmt.int", [i] =>
    match i.toInt? with
    | some v => toHex ((intField v).map fun c => UInt8.ofNat c.toNat)
    | none => "bad-op"
  | _, _ => "bad-op"

end OpmVerif.EclFmt
