/-
  Line-protocol front end of the schedule models (C03/C04).

    sched.blocks <start y-m-d> <enc>                      -> n|t0,t1,..|kw,kw|kw|...   | err
    sched.rblocks <start y-m-d> <rstep> <rtime> <skiprest 0|1> <enc>
                                                          -> the same for a restarted run | err
    sched.obs <k> <consts> <start> <enc>                  -> observation of state k (`showFull`: wells with
                                                             order and connection sequence, groups, registries,
                                                             marker, status-change events) | none | err
    sched.apply <k> <consts> <start> <enc> <apps>         -> observation of state k after applying
                                                             <apps> = n:action:W1/W2,... in order
    sched.inline <consts> <start> <enc> <apps>            -> the inlined schedule re-encoded (model side only)

  <enc>    = keyword;keyword;...   keyword = NAME=rec|rec|...   rec = field,field,...
  <consts> = one,zero,bhpProd,bhpInj,num0,siP,siLRate,siTime,bhpProdSI,bhpHistSI,bhpInjHSI (hex tokens)

  Numbers are hex bit patterns; the model builds symbolic expressions `mul(a,b)` / `add(a,b)` over
  them, which `evalVal` evaluates here in IEEE double arithmetic (same operation order as the C++).
-/
import OpmVerif.Model.SchedAction
import OpmVerif.Model.Basic
-- driver: prefix=sched handler=OpmVerif.Sched.handleOp

namespace OpmVerif.Sched

def optTok (s : String) : Option Val := if s = "*" then none else some s

def parseStatus (s : String) : Option Status :=
  if s = "OPEN" then some .open_ else if s = "STOP" then some .stop
  else if s = "SHUT" then some .shut else if s = "AUTO" then some .auto else none

def parseCState (s : String) : Option Nat :=
  if s = "OPEN" then some 1 else if s = "SHUT" then some 2 else if s = "AUTO" then some 3 else none

def prodMode (s : String) : Option Nat :=
  if s = "ORAT" then some 1 else if s = "WRAT" then some 2 else if s = "GRAT" then some 4
  else if s = "LRAT" then some 8 else if s = "RESV" then some 32 else if s = "GRUP" then some 256
  else if s = "BHP" then some 64 else if s = "NONE" then some 0 else none

def injMode (s : String) : Option Nat :=
  if s = "RATE" then some 1 else if s = "RESV" then some 2 else if s = "BHP" then some 4
  else if s = "GRUP" then some 16 else none

def grpMode (s : String) : Option Nat :=
  if s = "NONE" then some 0 else if s = "ORAT" then some 1 else if s = "WRAT" then some 2
  else if s = "GRAT" then some 4 else if s = "LRAT" then some 8 else if s = "RESV" then some 32
  else if s = "FLD" then some 128 else none

def optNat (s : String) : Option Nat := if s = "*" then none else some s.toNat!
def natOr0 (s : String) : Nat := if s = "*" then 0 else s.toNat!

def hexStr (s : String) : String :=
  match ofHex s with
  | some bs => String.ofList (bs.map fun b => Char.ofNat b.toNat)
  | none => s

def parseROp (name : String) (f : List String) : Option ROp :=
  match name, f with
  | "WELSPECS", [n, g, i, j] => some (.welspecs n g (optNat i) (optNat j))
  | "COMPDAT", [p, i, j, k1, k2, st] => (parseCState st).map fun s => .compdat p i.toNat! j.toNat! k1.toNat! k2.toNat! s
  | "COMPLUMP", [p, i, j, k1, k2, n] => some (.complump p i.toNat! j.toNat! k1.toNat! k2.toNat! n.toNat!)
  | "WPIMULT", [p, v, i, j, k, c1, c2] =>
    if [i, j, k, c1, c2].all (· = "*") then some (.wpimultG p v)
    else some (.wpimultC p v (natOr0 i) (natOr0 j) (natOr0 k) (natOr0 c1) (natOr0 c2))
  | "WCONPROD", [p, st, cm, o, w, g, l, r, b] =>
    match parseStatus st with
    | none => none
    | some s =>
      let cmode := if cm = "*" then some none else (prodMode cm).map some
      cmode.map fun c => .wconprod { pat := p, status := s, cmode := c, orat := optTok o, wrat := optTok w,
                                     grat := optTok g, lrat := optTok l, resv := optTok r, bhp := optTok b }
  | "WCONINJE", [p, ty, st, cm, ra, re, b] =>
    match parseStatus st, injMode cm with
    | some s, some c => some (.wconinje { pat := p, itype := ty, status := s, cmode := c, rate := optTok ra, resv := optTok re, bhp := optTok b })
    | _, _ => none
  | "WCONHIST", [p, st, cm, o, w, g, b] =>
    match parseStatus st with
    | none => none
    | some s =>
      let cmode := if cm = "*" then some none else (prodMode cm).map some
      cmode.map fun c => .wconhist { pat := p, status := s, cmode := c, orat := o, wrat := w, grat := g, bhp := optTok b }
  | "WCONINJH", [p, ty, st, ra, b, cm] =>
    match parseStatus st with
    | some s => some (.wconinjh { pat := p, itype := ty, status := s, rate := optTok ra, bhp := optTok b,
                                  cmode := (injMode cm).getD 0 })
    | none => none
  | "WHISTCTL", [m] => (prodMode m).map .whistctl
  | "WELOPEN", [p, st] => (parseStatus st).map fun s => .welopenW p s
  | "WELOPEN", [p, st, i, j, k] => some (.welopenC p (parseCState st) i.toNat! j.toNat! k.toNat! 0 0)
  | "WELOPEN", [p, st, i, j, k, c1, c2] => some (.welopenC p (parseCState st) i.toNat! j.toNat! k.toNat! c1.toNat! c2.toNat!)
  | "WELTARG", [p, m, v] => some (.weltarg p m v)
  | "WEFAC", [p, v] => some (.wefac p v)
  | "WECON", [p, o, c, wo] => some (.wecon p o c wo)
  | "WTEST", [p, iv, rs, n, su] => some (.wtest p iv (if rs = "-" then "" else rs) n.toNat! su)
  | "WLIST", n :: a :: ws => some (.wlist n a ws)
  | "GRUPTREE", [c, p] => some (.gruptree c p)
  | "GEFAC", [p, v] => some (.gefac p v)
  | "GCONPROD", [p, cm, o, w, g, l, ex] =>
    (grpMode cm).map fun c => .gconprod { pat := p, cmode := c, oil := optTok o, water := optTok w, gas := optTok g,
                                          liquid := optTok l, exceed := ex ≠ "NONE" }
  | "GCONINJE", [p, ph, cm, su, re, ri, vo, fr] =>
    some (.gconinje { pat := p, phase := ph, cmode := cm, surface := optTok su, resv := optTok re, reinj := optTok ri,
                      voidage := optTok vo, free := fr = "YES" })
  | "NEXTSTEP", [v, a] => some (.nextstep v (a = "YES"))
  | "UDQ", [a, q, d] =>
    let act := if a = "ASSIGN" then some UdqAct.assign else if a = "DEFINE" then some UdqAct.define
               else if a = "UNITS" then some UdqAct.units else none
    act.map fun x => .udq x q (hexStr d)
  | _, _ => none

def parseDate (s : String) : Option Date :=
  match (s.splitOn "-").map String.toNat! with
  | [y, m, d] => some { y := y, m := m, d := d }
  | [y, m, d, hh, mm, ss] => some { y := y, m := m, d := d, hh := hh, mm := mm, ss := ss }
  | _ => none

def parseDur (s : String) : Option Dur :=
  let neg := s.startsWith "-"
  let t := if neg then (s.drop 1).toString else s
  match t.splitOn "/" with
  | [n, d] => some { neg := neg, num := n.toNat!, den := d.toNat! }
  | _ => none

def allSome {α} (l : List (Option α)) : Option (List α) :=
  if l.all Option.isSome then some (l.filterMap id) else none

def modelled : List String :=
  ["WELSPECS", "COMPDAT", "COMPLUMP", "WPIMULT", "WCONPROD", "WCONINJE", "WCONHIST", "WCONINJH", "WHISTCTL", "WELOPEN",
   "WELTARG", "WEFAC", "WECON", "WTEST", "WLIST", "GRUPTREE", "GEFAC", "GCONPROD", "GCONINJE", "NEXTSTEP", "UDQ"]

def parseOrder (s : String) : Option Nat :=
  if s = "TRACK" then some 0 else if s = "DEPTH" then some 1 else if s = "INPUT" then some 2 else none

def parseCompord (r : String) : Option (String × Nat) :=
  match r.splitOn "," with
  | [p, o] => (parseOrder o).map fun x => (p, x)
  | _ => none

def parseOpen (s : String) : Option Bool := if s = "OPEN" then some true else if s = "SHUT" then some false else none

/-- WELSEGS: first record = well, then segment,branch,outlet,length,depth,diameter,roughness,area. -/
def parseWelsegs (recs : List String) : Option SegOp :=
  match recs with
  | [] => none
  | w :: rs =>
    (allSome (rs.map fun r => match r.splitOn "," with
      | [n, b, o, _, _, d, ro, a] => some ({ num := n.toNat!, branch := b.toNat!, outlet := o.toNat!, diam := d, rough := ro, area := a } : Seg)
      | _ => none)).map fun ss => .welsegs w ss

def parseValve (r : String) : Option (String × ValveRec) :=
  match r.splitOn "," with
  | [w, n, cv, ac, pd, pr, pa, st, mx] =>
    (parseOpen st).map fun o => (w, { seg := n.toNat!, cv := cv, ac := ac, pd := optTok pd, pr := optTok pr, pa := optTok pa, isOpen := o, maxA := optTok mx })
  | _ => none

def parseMsw (name : String) (recs : List String) : Option SegOp :=
  if name = "WELSEGS" then parseWelsegs recs
  else if name = "WSEGVALV" then
    match allSome (recs.map parseValve) with
    | some ((w, v) :: rest) => if rest.all (fun x => x.1 = w) then some (.valve w (v :: rest.map Prod.snd)) else none
    | _ => none
  else match recs with
    | [r] => match r.splitOn "," with
      | [w, n, _, len, st] => (parseOpen st).map fun o => if name = "WSEGSICD" then .sicd w n.toNat! len o else .aicd w n.toNat! len o
      | _ => none
    | _ => none

def parseKw (s : String) : Option (Kw CKw) :=
  match s.splitOn "=" with
  | [name, body] =>
    let recs := if body.isEmpty then [] else body.splitOn "|"
    if name = "DATES" then (allSome (recs.map parseDate)).map Kw.dates
    else if name = "TSTEP" then (allSome (recs.map parseDur)).map Kw.tstep
    else if name = "SCHEDULE" then some .schedule
    else if name = "ACTIONX" then some (.other (.actionx body))
    else if name = "ENDACTIO" then some (.other .endactio)
    else if name = "COMPORD" then (allSome (recs.map parseCompord)).map fun rs => .other (.compord rs)
    else if ["WELSEGS", "WSEGVALV", "WSEGSICD", "WSEGAICD"].contains name then (parseMsw name recs).map fun o => .other (.msw o)
    else if modelled.contains name then
      (allSome (recs.map fun r => parseROp name (r.splitOn ","))).map fun rs => .other (.ops name rs)
    else some (.other (.ops name []))
  | _ => none

def parseEnc (s : String) : Option (List (Kw CKw)) :=
  if s = "-" then some [] else allSome ((s.splitOn ";").map parseKw)

def parseConsts (s : String) : Option Consts :=
  match s.splitOn "," with
  | [a, b, c, d, e, f, g, h, i, j, l] =>
    some { one := a, zero := b, bhpProd := c, bhpInj := d, num0 := e, siP := f, siLRate := g, siTime := h,
           bhpProdSI := i, bhpHistSI := j, bhpInjHSI := l }
  | _ => none

def parseStart (s : String) : Option Time := (parseDate s).map fun d => d.seconds * 1000

/-! evaluation of the symbolic number expressions -/

def hexNat (s : String) : Option Nat :=
  s.toList.foldl (fun acc c => match acc, hexVal c with
    | some a, some v => some (a * 16 + v)
    | _, _ => none) (some 0)

def hex16 (n : Nat) : String :=
  String.ofList ((List.range 16).reverse.map fun i => hexDigit ((n / 16 ^ i) % 16))

/-- Split `a,b)` at the top-level comma; returns (a, b) without the closing parenthesis. -/
def splitArgs (cs : List Char) : Option (String × String) :=
  let rec go : List Char → Nat → List Char → Option (String × String)
    | [], _, _ => none
    | c :: r, depth, acc =>
      if c = ',' ∧ depth = 0 then
        -- the rest ends with the closing parenthesis of this call
        some (String.ofList acc.reverse, String.ofList r.dropLast)
      else if c = '(' then go r (depth + 1) (c :: acc)
      else if c = ')' then go r (depth - 1) (c :: acc)
      else go r depth (c :: acc)
  go cs 0 []

def evalF : Nat → String → Option Float
  | 0, _ => none
  | fuel + 1, s =>
    if s.startsWith "mul(" then
      match splitArgs (s.drop 4).toString.toList with
      | some (a, b) => match evalF fuel a, evalF fuel b with
        | some x, some y => some (x * y)
        | _, _ => none
      | none => none
    else if s.startsWith "add(" then
      match splitArgs (s.drop 4).toString.toList with
      | some (a, b) => match evalF fuel a, evalF fuel b with
        | some x, some y => some (x + y)
        | _, _ => none
      | none => none
    else if s.length = 16 then (hexNat s).map fun n => Float.ofBits n.toUInt64
    else none

def evalVal (s : Val) : String :=
  if s.startsWith "mul(" || s.startsWith "add(" then
    match evalF (s.length + 1) s with
    | some x => hex16 x.toBits.toNat
    | none => "bad(" ++ s ++ ")"
  else s

/-! printing -/

def statusCode : Status → Nat
  | .open_ => 1 | .stop => 2 | .shut => 3 | .auto => 4

def connKey (c : Conn) : Nat := (c.i * 100000 + c.j) * 100000 + c.k

/-- The connections in the well's own sequence (`WellConnections::begin() .. end()`) when
`seq`, else sorted by cell. -/
def showConns (seq : Bool) (cs : List Conn) : String :=
  "/".intercalate ((if seq then cs else cs.mergeSort fun a b => connKey a ≤ connKey b).map fun c =>
    s!"{c.i}.{c.j}.{c.k}.{c.state}.{c.complnum}.{evalVal c.pimult}")

/-- The sequence is part of the record unless the well's head was moved (the head the
`WellConnections` object orders by is then history dependent) or a DEPTH-ordered well has more
than 16 connections (`std::sort` is then not the stable insertion the model uses). -/
def seqObserved (w : WellP) (cs : List Conn) : Bool := !w.moved && !(w.order == 1 && cs.length > 16)

def orderName (o : Nat) : String := if o = 0 then "TRACK" else if o = 1 then "DEPTH" else "INPUT"

def b01 (b : Bool) : String := if b then "1" else "0"

def showWellCore (status : Nat) (conns : String) (nw : String × WellP) : String :=
  let (n, w) := nw
  let p := w.prod
  let i := w.inj
  let ps := s!"P({p.cmode},{p.ctrl},{b01 p.pred},{evalVal p.orat},{evalVal p.wrat},{evalVal p.grat},{evalVal p.lrat},{evalVal p.resv},{evalVal p.bhp},{evalVal p.bhpLim},{b01 p.bhpLimDef},{evalVal p.bhph},{p.whist})"
  let is := s!"I({i.itype},{i.cmode},{i.ctrl},{b01 i.pred},{evalVal i.rate},{evalVal i.resv},{evalVal i.bhp},{evalVal i.bhpLim},{evalVal i.bhph})"
  let es := s!"E({evalVal w.econ.1},{evalVal w.econ.2.1},{w.econ.2.2})"
  s!"W:{n},{w.group},{status},{if w.producer then "P" else "I"},{b01 w.wpred},{w.headI}.{w.headJ},{ps},{is},{evalVal w.efac},{es},{orderName w.order},{conns}"

/-- A well's line: its properties, its status (`statusOf`) and its connections. -/
def showWell (s : State) (nw : String × WellP) : String :=
  showWellCore (statusCode (statusOf s.st nw.1)) (showConns (seqObserved nw.2 (connsOf s.c.m nw.1)) (connsOf s.c.m nw.1)) nw

def showGInj (g : GroupP) : String :=
  "/".intercalate (["WATER", "GAS", "OIL"].filterMap fun ph =>
    (lookup g.ginj ph).map fun x =>
      s!"{ph}:{x.cmode}:{x.ctrl}:{evalVal x.surface}:{evalVal x.resv}:{evalVal x.reinj}:{evalVal x.voidage}:{b01 x.avail}")

def showGroup (ng : String × GroupP) : String :=
  let (n, g) := ng
  s!"G:{n},{g.parent},{evalVal g.gefac},{g.cmode},{g.ctrl},{evalVal g.oil},{evalVal g.water},{evalVal g.gas},{evalVal g.liquid},[{"/".intercalate g.groups}],[{"/".intercalate g.wells}],J({showGInj g})"

def kwName : CKw → String
  | .ops n _ => n
  | .actionx _ => "ACTIONX"
  | .endactio => "ENDACTIO"
  | .compord _ => "COMPORD"
  | .msw (.welsegs ..) => "WELSEGS"
  | .msw (.valve ..) => "WSEGVALV"
  | .msw (.sicd ..) => "WSEGSICD"
  | .msw (.aicd ..) => "WSEGAICD"

def sortByKey {α} (m : List (String × α)) : List (String × α) := m.mergeSort fun a b => a.1 ≤ b.1

def strHex (s : String) : String := if s.isEmpty then "-" else toHex (s.toList.map fun c => UInt8.ofNat c.toNat)

def showState (s : State) : String :=
  let acts := s.p.actions.map fun (n, b) => s!"{n}({"/".intercalate (b.map kwName)})"
  let marks := (names s.p.wells).filter fun w => s.mark.contains w
  let lists := (sortByKey s.p.wlists).map fun (n, ws) => s!"{n}({"/".intercalate ws})"
  let tests := (sortByKey s.p.wtest).map fun (n, t) => s!"{n}:{t.reasons}:{evalVal t.interval}:{t.num}:{evalVal t.startup}:{t.step}"
  let udqs := s.p.udq.map fun (n, u) =>
    let d := match u.define with | some x => strHex x | none => "-"
    let un := match lookup s.p.udqUnits n with | some x => strHex x | none => "-"
    s!"{n}:{u.action}:{u.insertIdx}:{u.typedIdx}:{d}:{un}"
  let ns := match s.p.nextstep with
    | some (v, a) => s!"{evalVal v}:{b01 a}"
    | none => "-"
  ";".intercalate (s.p.wells.map (showWell s) ++ s.p.groups.map showGroup ++
    [s!"A:{"/".intercalate acts}", s!"M:{"/".intercalate marks}", s!"L:{"/".intercalate lists}", s!"T:{"/".intercalate tests}",
     s!"U:{"/".intercalate udqs}", s!"N:{ns}", s!"H:{s.p.whistctl}"])

/-- The wells carrying WELL_STATUS_CHANGE at this report step, in well order. -/
def showEv (s : State) : String :=
  s!"X:{"/".intercalate ((names s.p.wells).filter fun w => s.ev.contains w)}"

def openName (b : Bool) : String := if b then "OPEN" else "SHUT"

def showSeg (s : Seg) : String :=
  let ty := match s.icd with | .none => "R" | .valve .. => "V" | .sicd .. => "S" | .aicd .. => "A"
  let geo := if s.num > 1 then s!".{s.diam}.{s.rough}.{s.area}" else ""
  let dev := match s.icd with
    | .none => ""
    | .valve cv ac o pd pr pa mx => s!".{cv}.{ac}.{openName o}.{pd}.{pr}.{pa}.{mx}"
    | .sicd len o => s!".{len}.{openName o}"
    | .aicd len o => s!".{len}.{openName o}"
  s!"{s.num}.{s.branch}.{s.outlet}.{ty}{geo}{dev}"

/-- The segment sets of the multisegment wells, in well order, segments by number. -/
def showSegs (s : State) : String :=
  let ws := (names s.p.wells).filterMap fun w => (lookup s.p.segs w).map fun ss =>
    s!"{w}({"+".intercalate ((ss.mergeSort fun a b => a.num ≤ b.num).map showSeg)})"
  s!"S:{"/".intercalate ws}"

/-- The full observation record: `showState` plus the status-change events and the segment sets. -/
def showFull (s : State) : String := showState s ++ ";" ++ showEv s ++ ";" ++ showSegs s

def showBlocks (bs : List (Block CKw)) : String :=
  let times := ",".intercalate (bs.map fun b => toString (b.start / 1000))
  let kws := bs.map fun b => ",".intercalate (b.kws.map kwName)
  s!"{bs.length}|{times}|{"|".intercalate kws}"

def ttypeName : TType → String
  | .start => "START" | .dates => "DATES" | .tstep => "TSTEP" | .restart => "RESTART"

/-- Restarted runs: block count, time types, start and end times (seconds), keyword names. -/
def showBlocksR (bs : List (Block CKw)) : String :=
  let tys := ",".intercalate (bs.map fun b => ttypeName b.ttype)
  let times := ",".intercalate (bs.map fun b => toString (b.start / 1000))
  let stops := ",".intercalate (bs.map fun b => match b.stop with | some t => toString (t / 1000) | none => "-")
  let kws := bs.map fun b => ",".intercalate (b.kws.map kwName)
  s!"{bs.length}|{tys}|{times}|{stops}|{"|".intercalate kws}"

/-- The keywords loaded from the skipped part of a restarted run. -/
def skiprestWhitelist (k : CKw) : Bool :=
  ["VFPPROD", "VFPINJ", "RPTSCHED", "RPTRST", "TUNING", "MESSAGES"].contains (kwName k)

def parseApp (s : String) : Option (Nat × String × List String) :=
  match s.splitOn ":" with
  | [n, a, ws] => some (n.toNat!, a, if ws = "-" then [] else ws.splitOn "/")
  | _ => none

def showAt (r : Except Err (List State)) (k : Nat) : String :=
  match r with
  | .error .input => "err"
  | .error .unsupported => "unsupported"
  | .ok ss => match ss[k]? with
    | none => "none"
    | some s => showFull s

def handleOp (op : String) (args : List String) : String :=
  match op, args with
  | "sched.blocks", [st, enc] =>
    match parseStart st, parseEnc enc with
    | some t, some kws =>
      match blocks t kws with
      | .ok bs => showBlocks bs
      | .error _ => "err"
    | _, _ => "bad-op"
  | "sched.rblocks", [st, rstep, rtime, skip, enc] =>
    match parseStart st, parseEnc enc with
    | some t, some kws =>
      match rblocks { rstep := rstep.toNat!, rtime := (rtime.toNat! : Int) * 1000, skiprest := skip = "1" } skiprestWhitelist t kws with
      | .ok bs => showBlocksR bs
      | .error _ => "err"
    | _, _ => "bad-op"
  | "sched.obs", [k, cs, st, enc] =>
    match parseConsts cs, parseStart st, parseEnc enc with
    | some c, some t, some kws => showAt (schedule c t kws) k.toNat!
    | _, _, _ => "bad-op"
  | "sched.apply", [k, cs, st, enc, apps] =>
    match parseConsts cs, parseStart st, parseEnc enc, allSome ((apps.splitOn ",").map parseApp) with
    | some c, some t, some kws, some as =>
      match blocks t kws with
      | .error _ => "err"
      | .ok bs => showAt ((applySeq c (bs.map Block.kws) as).map Prod.snd) k.toNat!
    | _, _, _, _ => "bad-op"
  | "sched.inline", [k, cs, st, enc, apps] =>
    match parseConsts cs, parseStart st, parseEnc enc, allSome ((apps.splitOn ",").map parseApp) with
    | some c, some t, some kws, some as =>
      match blocks t kws with
      | .error _ => "err"
      | .ok bs =>
        match inlineSeq c (bs.map Block.kws) as with
        | .error .input => "err"
        | .error .unsupported => "unsupported"
        | .ok bs' => showAt (run c bs') k.toNat!
    | _, _, _, _ => "bad-op"
  | _, _ => "bad-op"

end OpmVerif.Sched
