/-
  Line-protocol front end of the schedule models (C03/C04).

    sched.blocks <start y-m-d> <enc>                      -> n|t0,t1,..|kw,kw|kw|...   | err
    sched.obs <k> <consts> <start> <enc>                  -> observation of state k | none | err
    sched.apply <k> <consts> <start> <enc> <apps>         -> observation of state k after applying
                                                             <apps> = n:action:W1/W2,... in order
    sched.inline <consts> <start> <enc> <apps>            -> the inlined schedule re-encoded (model side only)

  <enc>    = keyword;keyword;...   keyword = NAME=rec|rec|...   rec = field,field,...
  <consts> = one,zero,bhpProd,bhpInj (hex tokens)
-/
import OpmVerif.Model.SchedAction
-- driver: prefix=sched handler=OpmVerif.Sched.handleOp

namespace OpmVerif.Sched

def optTok (s : String) : Option Val := if s = "*" then none else some s

def parseStatus (s : String) : Option Status :=
  if s = "OPEN" then some .open_ else if s = "STOP" then some .stop
  else if s = "SHUT" then some .shut else if s = "AUTO" then some .auto else none

def parseCState (s : String) : Option Nat :=
  if s = "OPEN" then some 1 else if s = "SHUT" then some 2 else if s = "AUTO" then some 3 else none

def prodMode (s : String) : Option Nat :=
  if s = "ORAT" then some 1 else if s = "WRAT" then some 2 else if s = "GRAT" then some 4
  else if s = "LRAT" then some 8 else if s = "RESV" then some 32 else if s = "GRUP" then some 256
  else if s = "BHP" then some 64 else none

def injMode (s : String) : Option Nat :=
  if s = "RATE" then some 1 else if s = "RESV" then some 2 else if s = "BHP" then some 4
  else if s = "GRUP" then some 16 else none

def grpMode (s : String) : Option Nat :=
  if s = "NONE" then some 0 else if s = "ORAT" then some 1 else if s = "WRAT" then some 2
  else if s = "GRAT" then some 4 else if s = "LRAT" then some 8 else if s = "RESV" then some 32
  else if s = "FLD" then some 128 else none

def parseROp (name : String) (f : List String) : Option ROp :=
  match name, f with
  | "WELSPECS", [n, g, i, j] => some (.welspecs n g i.toNat! j.toNat!)
  | "COMPDAT", [p, i, j, k1, k2, st] => (parseCState st).map fun s => .compdat p i.toNat! j.toNat! k1.toNat! k2.toNat! s
  | "WCONPROD", [p, st, cm, o, w, g, l, r, b] =>
    match parseStatus st with
    | none => none
    | some s =>
      let cmode := if cm = "*" then some none else (prodMode cm).map some
      cmode.map fun c => .wconprod { pat := p, status := s, cmode := c, orat := optTok o, wrat := optTok w,
                                     grat := optTok g, lrat := optTok l, resv := optTok r, bhp := optTok b }
  | "WCONINJE", [p, ty, st, cm, ra, re, b] =>
    match parseStatus st, injMode cm with
    | some s, some c => some (.wconinje { pat := p, itype := ty, status := s, cmode := c, rate := optTok ra, resv := optTok re, bhp := optTok b })
    | _, _ => none
  | "WELOPEN", [p, st] => (parseStatus st).map fun s => .welopenW p s
  | "WELOPEN", [p, st, i, j, k] => some (.welopenC p (parseCState st) i.toNat! j.toNat! k.toNat!)
  | "WELTARG", [p, m, v] => some (.weltarg p m v)
  | "WEFAC", [p, v] => some (.wefac p v)
  | "GRUPTREE", [c, p] => some (.gruptree c p)
  | "GEFAC", [p, v] => some (.gefac p v)
  | "GCONPROD", [p, cm, o, w, g, l, ex] =>
    (grpMode cm).map fun c => .gconprod { pat := p, cmode := c, oil := optTok o, water := optTok w, gas := optTok g,
                                          liquid := optTok l, exceed := ex ≠ "NONE" }
  | _, _ => none

def parseDate (s : String) : Option Date :=
  match (s.splitOn "-").map String.toNat! with
  | [y, m, d] => some { y := y, m := m, d := d }
  | [y, m, d, hh, mm, ss] => some { y := y, m := m, d := d, hh := hh, mm := mm, ss := ss }
  | _ => none

def parseDur (s : String) : Option Dur :=
  let neg := s.startsWith "-"
  let t := if neg then (s.drop 1).toString else s
  match t.splitOn "/" with
  | [n, d] => some { neg := neg, num := n.toNat!, den := d.toNat! }
  | _ => none

def allSome {α} (l : List (Option α)) : Option (List α) :=
  if l.all Option.isSome then some (l.filterMap id) else none

def parseKw (s : String) : Option (Kw CKw) :=
  match s.splitOn "=" with
  | [name, body] =>
    let recs := if body.isEmpty then [] else body.splitOn "|"
    if name = "DATES" then (allSome (recs.map parseDate)).map Kw.dates
    else if name = "TSTEP" then (allSome (recs.map parseDur)).map Kw.tstep
    else if name = "SCHEDULE" then some .schedule
    else if name = "ACTIONX" then some (.other (.actionx body))
    else if name = "ENDACTIO" then some (.other .endactio)
    else if ["WELSPECS", "COMPDAT", "WCONPROD", "WCONINJE", "WELOPEN", "WELTARG", "WEFAC", "GRUPTREE", "GEFAC", "GCONPROD"].contains name then
      (allSome (recs.map fun r => parseROp name (r.splitOn ","))).map fun rs => .other (.ops name rs)
    else some (.other (.ops name []))
  | _ => none

def parseEnc (s : String) : Option (List (Kw CKw)) :=
  if s = "-" then some [] else allSome ((s.splitOn ";").map parseKw)

def parseConsts (s : String) : Option Consts :=
  match s.splitOn "," with
  | [a, b, c, d] => some { one := a, zero := b, bhpProd := c, bhpInj := d }
  | _ => none

def parseStart (s : String) : Option Time := (parseDate s).map fun d => d.seconds * 1000

/-! printing -/

def statusCode : Status → Nat
  | .open_ => 1 | .stop => 2 | .shut => 3 | .auto => 4

def connKey (c : Conn) : Nat := (c.i * 100000 + c.j) * 100000 + c.k

def showConns (cs : List Conn) : String :=
  "/".intercalate ((cs.mergeSort fun a b => connKey a ≤ connKey b).map fun c => s!"{c.i}.{c.j}.{c.k}.{c.state}")

def showWell (s : State) (nw : String × WellP) : String :=
  let (n, w) := nw
  let role := if w.producer then
      s!"P,{w.prod.cmode},{w.prod.ctrl},{w.prod.orat},{w.prod.wrat},{w.prod.grat},{w.prod.lrat},{w.prod.resv},{w.prod.bhp}"
    else s!"I,{w.inj.itype},{w.inj.cmode},{w.inj.ctrl},{w.inj.rate},{w.inj.resv},{w.inj.bhp}"
  s!"W:{n},{w.group},{statusCode (statusOf s.st n)},{role},{w.efac},{showConns (connsOf s.c n)}"

def showGroup (ng : String × GroupP) : String :=
  let (n, g) := ng
  s!"G:{n},{g.parent},{g.gefac},{g.cmode},{g.ctrl},{g.oil},{g.water},{g.gas},{g.liquid},[{"/".intercalate g.groups}],[{"/".intercalate g.wells}]"

def kwName : CKw → String
  | .ops n _ => n
  | .actionx _ => "ACTIONX"
  | .endactio => "ENDACTIO"

def showState (s : State) : String :=
  let acts := s.p.actions.map fun (n, b) => s!"{n}({"/".intercalate (b.map kwName)})"
  let marks := (names s.p.wells).filter fun w => s.mark.contains w
  ";".intercalate (s.p.wells.map (showWell s) ++ s.p.groups.map showGroup ++ [s!"A:{"/".intercalate acts}", s!"M:{"/".intercalate marks}"])

def showBlocks (bs : List (Block CKw)) : String :=
  let times := ",".intercalate (bs.map fun b => toString (b.start / 1000))
  let kws := bs.map fun b => ",".intercalate (b.kws.map kwName)
  s!"{bs.length}|{times}|{"|".intercalate kws}"

def parseApp (s : String) : Option (Nat × String × List String) :=
  match s.splitOn ":" with
  | [n, a, ws] => some (n.toNat!, a, if ws = "-" then [] else ws.splitOn "/")
  | _ => none

def showAt (r : Except Err (List State)) (k : Nat) : String :=
  match r with
  | .error .input => "err"
  | .error .unsupported => "unsupported"
  | .ok ss => match ss[k]? with
    | none => "none"
    | some s => showState s

def handleOp (op : String) (args : List String) : String :=
  match op, args with
  | "sched.blocks", [st, enc] =>
    match parseStart st, parseEnc enc with
    | some t, some kws =>
      match blocks t kws with
      | .ok bs => showBlocks bs
      | .error _ => "err"
    | _, _ => "bad-op"
  | "sched.obs", [k, cs, st, enc] =>
    match parseConsts cs, parseStart st, parseEnc enc with
    | some c, some t, some kws => showAt (schedule c t kws) k.toNat!
    | _, _, _ => "bad-op"
  | "sched.apply", [k, cs, st, enc, apps] =>
    match parseConsts cs, parseStart st, parseEnc enc, allSome ((apps.splitOn ",").map parseApp) with
    | some c, some t, some kws, some as =>
      match blocks t kws with
      | .error _ => "err"
      | .ok bs => showAt ((applySeq c (bs.map Block.kws) as).map Prod.snd) k.toNat!
    | _, _, _, _ => "bad-op"
  | "sched.inline", [k, cs, st, enc, apps] =>
    match parseConsts cs, parseStart st, parseEnc enc, allSome ((apps.splitOn ",").map parseApp) with
    | some c, some t, some kws, some as =>
      match blocks t kws with
      | .error _ => "err"
      | .ok bs =>
        match inlineSeq c (bs.map Block.kws) as with
        | .error .input => "err"
        | .error .unsupported => "unsupported"
        | .ok bs' => showAt (run c bs') k.toNat!
    | _, _, _, _ => "bad-op"
  | _, _ => "bad-op"

end OpmVerif.Sched
