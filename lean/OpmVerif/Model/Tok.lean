/-
  Model of the tokeniser of one record and of star tokens:

    splitSingleRecordString, even_quotes, RawRecord::RawRecord   (Parser/raw/RawRecord.cpp)
    isStarToken, StarToken::init_                                (Parser/raw/StarToken.cpp)
    readValueToken<std::string>                                  (Parser/raw/StarToken.cpp)

  The tokeniser is a one-pass state machine (`tokStep`/`emit`); only `'` opens a quoted
  token here (unlike `find_terminator`, which also honours `"`).  A quoted token whose
  closing quote is missing makes the C++ compute `find(...) + 1 = end + 1`: the token
  then contains the byte *behind* the record view (`next`: the record's `/`, or the
  `'\n'` after a TITLE line) — the model reproduces exactly that.

  Core Lean only.
-/
import OpmVerif.Model.Lex

namespace OpmVerif.Tok
open OpmVerif.Lex

/-- tokeniser state: `none` between tokens, `some false` inside a bare word,
`some true` inside a quoted token. -/
abbrev TState := Option Bool

def tokStep (st : TState) (c : UInt8) : TState :=
  match st with
  | none => if isSep c then none else if c = 39 then some true else some false
  | some false => if isSep c then none else some false
  | some true => if c = 39 then none else some true

/-- put `c` in front of the token that is being built. -/
def consHead (c : UInt8) : List Bytes → List Bytes
  | [] => [[c]]
  | t :: ts => (c :: t) :: ts

/-- effect of reading `c` in state `st` on the token list of the remaining text. -/
def emit (st : TState) (c : UInt8) (ts : List Bytes) : List Bytes :=
  match st with
  | none => if isSep c then ts else consHead c ts
  | some false => if isSep c then [] :: ts else consHead c ts
  | some true => if c = 39 then consHead c ([] :: ts) else consHead c ts

/-- tokens of the text read from state `st`; `next` is the byte behind the record view. -/
def tok (next : UInt8) : TState → Bytes → List Bytes
  | none, [] => []
  | some false, [] => [[]]
  | some true, [] => [[next]]
  | st, c :: r => emit st c (tok next (tokStep st c) r)

/-- `splitSingleRecordString`. -/
def tokenize (record : Bytes) (next : UInt8) : List Bytes := tok next none record

def evenQuotes (record : Bytes) : Bool := (record.filter (· == 39)).length % 2 == 0

/-- `RawRecord::RawRecord(record, location, text = false)`: tokens, or the
"quotes are not balanced" error. -/
def rawRecord (record : Bytes) (next : UInt8) : Option (List Bytes) :=
  if evenQuotes record then some (tokenize record next) else none

/-! ## star tokens -/

def isDigit (b : UInt8) : Bool := 48 ≤ b.toNat && b.toNat ≤ 57

/-- `isStarToken`: `(countString, valueString)`. -/
def isStarToken (t : Bytes) : Option (Bytes × Bytes) :=
  match t.dropWhile isDigit with
  | 42 :: v => some (t.takeWhile isDigit, v)
  | _ => none

/-- value of a string of decimal digits. -/
def digitsVal (ds : Bytes) : Nat := ds.foldl (fun acc d => acc * 10 + (d.toNat - 48)) 0

/-- `StarToken::init_` after `isStarToken`: the repeat count, or an error (`*v`,
a zero count, or a count `std::stoi` rejects as out of range). -/
def starCount (cnt val : Bytes) : Option Nat :=
  if cnt.isEmpty then (if val.isEmpty then some 1 else none)
  else
    let n := digitsVal cnt
    if n < 1 ∨ 2147483647 < n then none else some n

/-- what a token is, as far as repetition is concerned. -/
inductive Star where
  | plain                       -- not a star token
  | bad                         -- star token that `StarToken` rejects
  | rep (n : Nat) (v : Bytes)   -- `n*v`, `v` possibly empty (`n*`); `n ≥ 1`
  deriving DecidableEq, Repr

def classify (t : Bytes) : Star :=
  match isStarToken t with
  | none => .plain
  | some (c, v) =>
    match starCount c v with
    | none => .bad
    | some n => .rep n v

/-- `readValueToken<std::string>`: strip one pair of enclosing quotes. -/
def readString (t : Bytes) : Option Bytes :=
  match t with
  | [] => some []
  | c :: r =>
    if c ≠ 39 then some t
    else if r.getLast? = some 39 then some r.dropLast else none

end OpmVerif.Tok
