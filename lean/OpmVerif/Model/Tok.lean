/-
  Model of the tokeniser of one record and of star tokens:

    splitSingleRecordString, even_quotes, RawRecord::RawRecord   (Parser/raw/RawRecord.cpp)
    isStarToken, StarToken::init_                                (Parser/raw/StarToken.cpp)
    readValueToken<std::string>                                  (Parser/raw/StarToken.cpp)

  The tokeniser is a one-pass state machine (`tokStep`/`emit`); only `'` opens a quoted
  token here (unlike `find_terminator`, which also honours `"`).  A quoted token whose
  closing quote is missing ends at the end of the record.  A bare token of the form
  `digits*'…` whose closing quote lies beyond the token's first separator is extended to
  that quote and on to the next separator (`n*'A B'` is one token): when the opening quote
  is read the machine looks ahead (`extendsQuote`) exactly as the C++ does
  (`close != end && close >= token_end`).

  Core Lean only.
-/
import OpmVerif.Model.Lex

namespace OpmVerif.Tok
open OpmVerif.Lex

def isDigit (b : UInt8) : Bool := 48 ≤ b.toNat && b.toNat ≤ 57

/-- tokeniser state: between tokens; inside a bare word; inside a quoted token; inside a
bare word that so far consists of digits; just behind the `*` of `digits*`; inside the
quoted part of an extended `digits*'…'` token. -/
inductive TS where
  | gap | word | quoted | digits | star | sq
  deriving DecidableEq, Repr

/-- look-ahead behind the opening quote of `digits*'`: `true` iff a separator comes before
the next quote and there is a quote behind it — i.e. the closing quote exists and lies at
or beyond the plain end of the token. -/
def extendsQuote : Bytes → Bool
  | [] => false
  | c :: r => if c = 39 then false else if isSep c then r.contains 39 else extendsQuote r

/-- next state after reading `c`; `rest` is the text behind `c`. -/
def tokStep (st : TS) (c : UInt8) (rest : Bytes) : TS :=
  match st with
  | .gap => if isSep c then .gap else if c = 39 then .quoted else if isDigit c then .digits else .word
  | .word => if isSep c then .gap else .word
  | .digits => if isSep c then .gap else if isDigit c then .digits else if c = 42 then .star else .word
  | .star => if isSep c then .gap else if c = 39 ∧ extendsQuote rest = true then .sq else .word
  | .sq => if c = 39 then .word else .sq
  | .quoted => if c = 39 then .gap else .quoted

/-- put `c` in front of the token that is being built. -/
def consHead (c : UInt8) : List Bytes → List Bytes
  | [] => [[c]]
  | t :: ts => (c :: t) :: ts

/-- effect of reading `c` in state `st` on the token list of the remaining text. -/
def emit (st : TS) (c : UInt8) (ts : List Bytes) : List Bytes :=
  match st with
  | .gap => if isSep c then ts else consHead c ts
  | .quoted => if c = 39 then consHead c ([] :: ts) else consHead c ts
  | .sq => consHead c ts
  | _ => if isSep c then [] :: ts else consHead c ts

/-- tokens of the text read from state `st`. -/
def tok : TS → Bytes → List Bytes
  | .gap, [] => []
  | _, [] => [[]]
  | st, c :: r => emit st c (tok (tokStep st c r) r)

/-- `splitSingleRecordString`. -/
def tokenize (record : Bytes) : List Bytes := tok .gap record

def evenQuotes (record : Bytes) : Bool := (record.filter (· == 39)).length % 2 == 0

/-- `RawRecord::RawRecord(record, location, text = false)`: tokens, or the
"quotes are not balanced" error. -/
def rawRecord (record : Bytes) : Option (List Bytes) :=
  if evenQuotes record then some (tokenize record) else none

/-! ## star tokens -/

/-- `isStarToken`: `(countString, valueString)`. -/
def isStarToken (t : Bytes) : Option (Bytes × Bytes) :=
  match t.dropWhile isDigit with
  | 42 :: v => some (t.takeWhile isDigit, v)
  | _ => none

/-- value of a string of decimal digits. -/
def digitsVal (ds : Bytes) : Nat := ds.foldl (fun acc d => acc * 10 + (d.toNat - 48)) 0

/-- `StarToken::init_` after `isStarToken`: the repeat count, or an error (`*v`,
a zero count, or a count `std::stoi` rejects as out of range). -/
def starCount (cnt val : Bytes) : Option Nat :=
  if cnt.isEmpty then (if val.isEmpty then some 1 else none)
  else
    let n := digitsVal cnt
    if n < 1 ∨ 2147483647 < n then none else some n

/-- what a token is, as far as repetition is concerned. -/
inductive Star where
  | plain                       -- not a star token
  | bad                         -- star token that `StarToken` rejects
  | rep (n : Nat) (v : Bytes)   -- `n*v`, `v` possibly empty (`n*`); `n ≥ 1`
  deriving DecidableEq, Repr

def classify (t : Bytes) : Star :=
  match isStarToken t with
  | none => .plain
  | some (c, v) =>
    match starCount c v with
    | none => .bad
    | some n => .rep n v

/-- `readValueToken<std::string>`: strip one pair of enclosing quotes. -/
def readString (t : Bytes) : Option Bytes :=
  match t with
  | [] => some []
  | c :: r =>
    if c ≠ 39 then some t
    else if r.getLast? = some 39 then some r.dropLast else none

end OpmVerif.Tok
