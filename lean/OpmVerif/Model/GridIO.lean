/-
  Line-protocol front end of the grid model (C13).  Doubles are 16 hex digits of the IEEE bit
  pattern, arrays of doubles are concatenations of those (`-` = empty), floats 8 hex digits.

    grid.ijk    nx ny nz g                    -> i j k
    grid.gidx   nx ny nz i j k                -> g
    grid.act    a,b,c,…                       -> nactive|g2a,…|a2g,…        (-1 = inactive)
    grid.zidx   nx ny nz i j k c              -> index | err
    grid.zidxg  nx ny nz g c                  -> index | err
    grid.cidx   nx ny i j dim layer           -> index | err
    grid.dtops  nx ny nz DX DY DZ TOPS        -> COORD ZCORN nfix           (initDTOPSGrid + fixupZCORN)
    grid.dtopsv nx ny nz DXV DYV DZV TOPS     -> COORD ZCORN nfix           (scatterDim + initDTOPSGrid)
    grid.depthz nx ny nz DXV DYV DZV DEPTHZ   -> COORD ZCORN nfix           (initDVDEPTHZGrid + fixupZCORN)
    grid.regular nx ny nz dx dy dz top        -> COORD ZCORN
    grid.scatter nx ny nz dim DV              -> D
    grid.fixup  nx ny nz ZCORN                -> nfix ZCORN
    grid.cells  nx ny nz COORD ZCORN          -> per cell: vol cx cy cz depth dx dy dz thick (9 doubles)
    grid.corners nx ny nz COORD ZCORN g       -> X(8) Y(8) Z(8)
    grid.vol    X Y Z                         -> volume
    grid.split  X Y Z                         -> vol of the two halves under k-, i-, j-subdivision (6 doubles)
    grid.egrid  nx ny nz unit ffrom COORD ZCORN actnum mapaxes mapunits nnc  -> file bytes (hex)
    grid.load   feet cm filehex               -> nx ny nz|COORD|ZCORN|actnum|nactive|mapaxes|mapunits|nfix
    grid.seq    nx ny nz kind COORD ZCORN actnum op;op;…  -> answer/digest;…   (one EclipseGrid object, see
                `Model/GridState.lean`; kind = cp (corner-point vectors, `-` = actnum nullptr) | plain;
                ops: V | Q | q:g | A | R:mask | Z:zcorn:mask | C:mask | S:unit:ffrom:tosi | L:unit:ffrom:tosi;
                digest = nactive,getCellVolume of every cell,zcorn_fixed)
-/
import OpmVerif.Model.Grid
import OpmVerif.Model.GridState
import OpmVerif.Model.GridFixup
import OpmVerif.Model.EclBin
-- driver: prefix=grid handler=OpmVerif.Grid.handle

namespace OpmVerif.Grid

instance : NatCast Float := ⟨Float.ofNat⟩

def hexNat (n digits : Nat) : String :=
  String.ofList ((List.range digits).reverse.map fun k => hexDigit (n / 16 ^ k % 16))

def f64Hex (x : Float) : String := hexNat x.toBits.toNat 16
def f32Hex (x : Float32) : String := hexNat x.toBits.toNat 8

def hexCharsToNat (cs : List Char) : Option Nat :=
  cs.foldl (fun acc c => match acc, hexVal c with
    | some a, some v => some (a * 16 + v)
    | _, _ => none) (some 0)

partial def chunkLoop (w : Nat) (cs : List Char) (acc : Array Nat) : Option (Array Nat) :=
  if cs.isEmpty then some acc
  else if cs.length < w then none
  else match hexCharsToNat (cs.take w) with
    | some v => chunkLoop w (cs.drop w) (acc.push v)
    | none => none

def parseWords (w : Nat) (s : String) : Option (Array Nat) :=
  if s = "-" then some #[] else chunkLoop w s.toList #[]

def parseF64s (s : String) : Option (Array Float) :=
  (parseWords 16 s).map fun a => a.map fun v => Float.ofBits (UInt64.ofNat v)

def showF64s (a : Array Float) : String :=
  if a.isEmpty then "-" else String.join (a.toList.map f64Hex)

def fn (a : Array Float) : Nat → Float := fun i => a.getD i 0.0

def tabulate (n : Nat) (f : Nat → Float) : Array Float := (Array.range n).map f

def parseInts (s : String) : Option (List Int) :=
  if s = "-" then some [] else (s.splitOn ",").mapM String.toInt?

/-- `ZcornMapper::fixupZCORN` on a stored array: the gather-form model of `Model/GridFixup.lean`
(per-line running clamp), tabulated.  Compared bit for bit with the C++ (arrays and count). -/
def fixupZCORN (d : Dims) (z0 : Array Float) : Nat × Array Float :=
  let r := fixupG d (fn z0)
  (r.1, tabulate z0.size r.2)

def showCorners (c : Corners Float) : String :=
  showF64s (tabulate 8 c.X) ++ " " ++ showF64s (tabulate 8 c.Y) ++ " " ++ showF64s (tabulate 8 c.Z)

def cellReport (c : Corners Float) : String :=
  let ctr := cellCenter c
  let dm := cellDims Float.sqrt c
  String.join ([cellVolume Float.abs c, ctr.1, ctr.2.1, ctr.2.2, cellDepth c, dm.1, dm.2.1, dm.2.2,
    cellThickness c].map f64Hex)

/-! ### EGRID file image (`EclipseGrid::save`, unformatted) on top of the C07 codec model -/

open OpmVerif.Ecl in
def name8 (s : String) : Bytes :=
  let cs := s.toList.map fun c => UInt8.ofNat c.toNat
  (cs ++ List.replicate (8 - cs.length) 32).take 8

open OpmVerif.Ecl in
def inteArr (name : String) (xs : List Int) : Arr :=
  { name := name8 name, ty := .inte, elems := xs.map fun i => be32 (ofI32 i) }

open OpmVerif.Ecl in
def realArr (name : String) (xs : List Float32) : Arr :=
  { name := name8 name, ty := .real, elems := xs.map fun x => be32 x.toBits.toNat }

open OpmVerif.Ecl in
def charArr (name : String) (xs : List String) : Arr :=
  { name := name8 name, ty := .char, elems := xs.map name8 }

def setAt (l : List Int) (i : Nat) (v : Int) : List Int := l.set i v

/-- The arrays written by `EclipseGrid::save`, in order. -/
def egridArrays (d : Dims) (unitName : String) (coordF zcornF : List Float32) (actnum : List Int)
    (mapaxes : Option (List Float32)) (mapunits : Option String) (nnc : List (Int × Int)) :
    List OpmVerif.Ecl.Arr :=
  let filehead := setAt (setAt (setAt (List.replicate 100 0) 0 3) 1 2007) 6 1
  let gridhead := setAt (setAt (setAt (setAt (setAt (List.replicate 100 0) 0 1) 1 d.nx) 2 d.ny) 3 d.nz) 24 1
  let nnchead := setAt (List.replicate 10 0) 0 nnc.length
  [inteArr "FILEHEAD" filehead] ++
  (match mapaxes with
   | some m => (match mapunits with | some u => [charArr "MAPUNITS" [u]] | none => []) ++ [realArr "MAPAXES" m]
   | none => []) ++
  [charArr "GRIDUNIT" [unitName, ""], inteArr "GRIDHEAD" gridhead,
   realArr "COORD" coordF, realArr "ZCORN" zcornF, inteArr "ACTNUM" actnum, inteArr "ENDGRID" []] ++
  (if nnc.length > 0 then
     [inteArr "NNCHEAD" nnchead, inteArr "NNC1" (nnc.map fun p => p.1 + 1), inteArr "NNC2" (nnc.map fun p => p.2 + 1)]
   else [])

def parseNnc (s : String) : Option (List (Int × Int)) :=
  if s = "-" then some [] else
  (s.splitOn ",").mapM fun p =>
    match p.splitOn ":" with
    | [a, b] => match a.toInt?, b.toInt? with
      | some x, some y => some (x, y)
      | _, _ => none
    | _ => none

def bytesToString (b : List UInt8) : String := String.ofList (b.map fun x => Char.ofNat x.toNat)

def trimRight (s : String) : String := String.ofList (s.toList.reverse.dropWhile (· == ' ')).reverse

open OpmVerif.Ecl in
def findArr (as : List Arr) (name : String) : Option Arr := as.find? fun a => a.name = name8 name

open OpmVerif.Ecl in
def arrInts (a : Arr) : List Int := a.elems.map fun e => toI32 (rd32 e)

open OpmVerif.Ecl in
def arrF32 (a : Arr) : List Float32 := a.elems.map fun e => Float32.ofBits (UInt32.ofNat (rd32 e))

/-- `EclipseGrid(filename)` → `initGridFromEGridFile`, on the decoded array list. -/
def loadEgrid (feet cm : Float) (as : List OpmVerif.Ecl.Arr) : Option String := do
  let gh ← findArr as "GRIDHEAD"
  let co ← findArr as "COORD"
  let zc ← findArr as "ZCORN"
  let gu ← findArr as "GRIDUNIT"
  let ghi := arrInts gh
  let d : Dims := { nx := (ghi.getD 1 0).toNat, ny := (ghi.getD 2 0).toNat, nz := (ghi.getD 3 0).toNat }
  let unit := trimRight (bytesToString (gu.elems.getD 0 []))
  let conv : Float → Float ←
    if unit = "METRES" then some (fun x => x)
    else if unit = "FEET" then some (fun x => x * feet + 0.0)
    else if unit = "CM" then some (fun x => x * cm + 0.0)
    else none
  let coord := ((arrF32 co).map fun x => conv x.toFloat).toArray
  let zcorn0 := ((arrF32 zc).map fun x => conv x.toFloat).toArray
  let act : List Int := match findArr as "ACTNUM" with
    | some a => arrInts a
    | none => List.replicate d.size 1
  let m := resetACTNUM act
  let (nfix, zcorn) := fixupZCORN d zcorn0
  let mapaxes := match findArr as "MAPAXES" with
    | some a => String.join ((arrF32 a).map f32Hex)
    | none => "-"
  let mapunits := match findArr as "MAPAXES", findArr as "MAPUNITS" with
    | some _, some a => toHex (a.elems.getD 0 [])
    | _, _ => "-"
  pure (s!"{d.nx} {d.ny} {d.nz}|{showF64s coord}|{showF64s zcorn}|" ++
    ",".intercalate (act.map toString) ++ s!"|{m.nactive}|{mapaxes}|{mapunits}|{nfix}")

/-! ### Operation sequences on one object (`Model/GridState.lean`) -/

/-- `fixupG` with the adjusted array materialised (the closure would otherwise be re-evaluated
per entry). -/
def fixF (d : Dims) (z : Nat → Float) : Nat × (Nat → Float) :=
  let r := fixupZCORN d (tabulate (8 * d.size) z)
  (r.1, fn r.2)

def mapsStr (m : ActiveMaps) : String :=
  let g2a := m.g2a.map fun o => match o with | some v => toString v | none => "-1"
  s!"{m.nactive}|" ++ ",".intercalate g2a ++ "|" ++ ",".intercalate (m.a2g.map toString)

def optF64 (o : Option Float) : String := match o with | some v => f64Hex v | none => "err"

def seqDigest (s : GState Float) : String :=
  s!"{s.maps.nactive}," ++
    String.join ((List.range s.d.size).map fun g => optF64 (s.getCellVolume Float.abs g)) ++ s!",{s.nfix}"

/-- `cellsHex` of the harness: the volume goes through `getCellVolume` (cache-aware). -/
def seqCells (s : GState Float) : String :=
  String.join ((List.range s.d.size).map fun g =>
    let c := cellCornersG s.d s.coord s.zcorn g
    let ctr := cellCenter c
    let dm := cellDims Float.sqrt c
    optF64 (s.getCellVolume Float.abs g) ++
      String.join ([ctr.1, ctr.2.1, ctr.2.2, cellDepth c, dm.1, dm.2.1, dm.2.2, cellThickness c].map f64Hex))

/-- The float arrays `save()` writes for the state, and what `EclipseGrid(file)` makes of them. -/
def savedF32 (s : GState Float) (ffrom : Float) : List Float32 × List Float32 :=
  let conv : Float → Float32 := fun x => (ffrom * (x - 0.0)).toFloat32
  (((List.range (6 * (s.d.nx + 1) * (s.d.ny + 1))).map fun i => conv (s.savedCoord i)),
   ((List.range (8 * s.d.size)).map fun i => conv (s.savedZcorn i)))

def loadedState (s : GState Float) (unit : String) (ffrom tosi : Float) : GState Float :=
  let (cf, zf) := savedF32 s ffrom
  let back : Float32 → Float := if unit = "METRES" then fun x => x.toFloat else fun x => x.toFloat * tosi + 0.0
  let coord := (cf.map back).toArray
  let r := fixupZCORN s.d (zf.map back).toArray
  { d := s.d, coord := fn coord, zcorn := fn r.2, nfix := r.1, actnum := s.actnum,
    maps := resetACTNUM s.actnum, cache := none, inCoord := none, inZcorn := none }

def seqStep (s : GState Float) (tok : String) : Option (String × GState Float) :=
  match tok.splitOn ":" with
  | ["V"] => some (showF64s (s.activeVolumeResult Float.abs).toArray, step Float.abs fixF s .activeVolume)
  | ["Q"] => some (mapsStr s.maps ++ "|" ++ seqCells s, s)
  | ["q", g] => some (optF64 (s.getCellVolume Float.abs g.toNat!), s)
  | ["A"] => some ("ok", step Float.abs fixF s .resetAll)
  | ["R", m] =>
    (parseInts m).map fun mask =>
      (if mask.length ≠ s.d.size then "err" else "ok", step Float.abs fixF s (.reset mask))
  | ["Z", z, m] =>
    match parseF64s z, parseInts m with
    | some z, some mask =>
      let s' := step Float.abs fixF s (.copyZ (fn z) mask)
      some (if mask.length ≠ s.d.size then "err" else toString s'.nfix, s')
    | _, _ => none
  | ["C", m] =>
    (parseInts m).map fun mask =>
      (if mask.length ≠ s.d.size then "err" else "ok", step Float.abs fixF s (.copyA mask))
  | ["S", unit, ff, _] =>
    (parseF64s ff).map fun ff =>
      let (cf, zf) := savedF32 s (fn ff 0)
      (toHex (OpmVerif.Ecl.encodeFile (egridArrays s.d unit cf zf s.actnum none none [])),
       step Float.abs fixF s .save)
  | ["L", unit, ff, ts] =>
    (parseF64s (ff ++ ts)).map fun f =>
      let s' := loadedState s unit (fn f 0) (fn f 1)
      (toString s'.nfix, s')
  | _ => none

def seqRun (s0 : GState Float) (toks : List String) : String :=
  let r := toks.foldl (fun (acc : Option (List String × GState Float)) tok =>
    match acc with
    | none => none
    | some (out, s) =>
      match seqStep s tok with
      | none => none
      | some (a, s') => some ((a ++ "/" ++ seqDigest s') :: out, s')) (some ([], s0))
  match r with
  | some (out, _) => ";".intercalate out.reverse
  | none => "bad-op"

def optNat (o : Option Nat) : String := match o with | some v => toString v | none => "err"

def handle (op : String) (args : List String) : String :=
  match op, args with
  | "grid.ijk", [nx, ny, nz, g] =>
    let d : Dims := ⟨nx.toNat!, ny.toNat!, nz.toNat!⟩
    let q := getIJK d g.toNat!
    s!"{q.1} {q.2.1} {q.2.2}"
  | "grid.gidx", [nx, ny, nz, i, j, k] =>
    toString (getGlobalIndex ⟨nx.toNat!, ny.toNat!, nz.toNat!⟩ i.toNat! j.toNat! k.toNat!)
  | "grid.act", [a] =>
    match parseInts a with
    | some act =>
      let m := resetACTNUM act
      let g2a := m.g2a.map fun o => match o with | some v => toString v | none => "-1"
      s!"{m.nactive}|" ++ ",".intercalate g2a ++ "|" ++ ",".intercalate (m.a2g.map toString)
    | none => "bad-op"
  | "grid.zidx", [nx, ny, nz, i, j, k, c] =>
    optNat (zcornIndex ⟨nx.toNat!, ny.toNat!, nz.toNat!⟩ i.toNat! j.toNat! k.toNat! c.toNat!)
  | "grid.zidxg", [nx, ny, nz, g, c] =>
    optNat (zcornIndexG ⟨nx.toNat!, ny.toNat!, nz.toNat!⟩ g.toNat! c.toNat!)
  | "grid.cidx", [nx, ny, i, j, dim, layer] =>
    optNat (coordIndex ⟨nx.toNat!, ny.toNat!, 1⟩ i.toNat! j.toNat! dim.toNat! layer.toNat!)
  | "grid.dtops", [nx, ny, nz, dx, dy, dz, tops] =>
    let d : Dims := ⟨nx.toNat!, ny.toNat!, nz.toNat!⟩
    match parseF64s dx, parseF64s dy, parseF64s dz, parseF64s tops with
    | some dx, some dy, some dz, some tops =>
      let coord := tabulate (6 * (d.nx + 1) * (d.ny + 1)) (coordDTops d (fn dx) (fn dy) (fn dz) (fn tops))
      let zcorn := tabulate (8 * d.size) (zcornDTops d (fn dz) (fn tops))
      let (n, z) := fixupZCORN d zcorn
      s!"{showF64s coord} {showF64s z} {n}"
    | _, _, _, _ => "bad-op"
  | "grid.dtopsv", [nx, ny, nz, dxv, dyv, dzv, tops] =>
    let d : Dims := ⟨nx.toNat!, ny.toNat!, nz.toNat!⟩
    match parseF64s dxv, parseF64s dyv, parseF64s dzv, parseF64s tops with
    | some dxv, some dyv, some dzv, some tops =>
      let dx := scatterDim d 0 (fn dxv)
      let dy := scatterDim d 1 (fn dyv)
      let dz := scatterDim d 2 (fn dzv)
      let coord := tabulate (6 * (d.nx + 1) * (d.ny + 1)) (coordDTops d dx dy dz (fn tops))
      let zcorn := tabulate (8 * d.size) (zcornDTops d dz (fn tops))
      let (n, z) := fixupZCORN d zcorn
      s!"{showF64s coord} {showF64s z} {n}"
    | _, _, _, _ => "bad-op"
  | "grid.depthz", [nx, ny, nz, dxv, dyv, dzv, depthz] =>
    let d : Dims := ⟨nx.toNat!, ny.toNat!, nz.toNat!⟩
    match parseF64s dxv, parseF64s dyv, parseF64s dzv, parseF64s depthz with
    | some dxv, some dyv, some dzv, some depthz =>
      let coord := tabulate (6 * (d.nx + 1) * (d.ny + 1)) (coordDepthz d (fn dxv) (fn dyv) (fn dzv) (fn depthz))
      let zcorn := tabulate (8 * d.size) (zcornDepthz d (fn dzv) (fn depthz))
      let (n, z) := fixupZCORN d zcorn
      s!"{showF64s coord} {showF64s z} {n}"
    | _, _, _, _ => "bad-op"
  | "grid.regular", [nx, ny, nz, dx, dy, dz, top] =>
    let d : Dims := ⟨nx.toNat!, ny.toNat!, nz.toNat!⟩
    match parseF64s (dx ++ dy ++ dz ++ top) with
    | some a =>
      let coord := tabulate (6 * (d.nx + 1) * (d.ny + 1)) (coordRegular d (fn a 0) (fn a 1) (fn a 2))
      let zcorn := tabulate (8 * d.size) (zcornRegular d (fn a 2) (fn a 3))
      s!"{showF64s coord} {showF64s zcorn}"
    | none => "bad-op"
  | "grid.scatter", [nx, ny, nz, dim, dv] =>
    let d : Dims := ⟨nx.toNat!, ny.toNat!, nz.toNat!⟩
    match parseF64s dv with
    | some dv => showF64s (tabulate d.size (scatterDim d dim.toNat! (fn dv)))
    | none => "bad-op"
  | "grid.fixup", [nx, ny, nz, zc] =>
    let d : Dims := ⟨nx.toNat!, ny.toNat!, nz.toNat!⟩
    match parseF64s zc with
    | some z => let (n, z') := fixupZCORN d z; s!"{n} {showF64s z'}"
    | none => "bad-op"
  | "grid.cells", [nx, ny, nz, co, zc] =>
    let d : Dims := ⟨nx.toNat!, ny.toNat!, nz.toNat!⟩
    match parseF64s co, parseF64s zc with
    | some co, some zc =>
      String.join ((List.range d.size).map fun g => cellReport (cellCornersG d (fn co) (fn zc) g))
    | _, _ => "bad-op"
  | "grid.corners", [nx, ny, nz, co, zc, g] =>
    let d : Dims := ⟨nx.toNat!, ny.toNat!, nz.toNat!⟩
    match parseF64s co, parseF64s zc with
    | some co, some zc => showCorners (cellCornersG d (fn co) (fn zc) g.toNat!)
    | _, _ => "bad-op"
  | "grid.vol", [x, y, z] =>
    match parseF64s x, parseF64s y, parseF64s z with
    | some x, some y, some z => f64Hex (cellVolume Float.abs ⟨fn x, fn y, fn z⟩)
    | _, _, _ => "bad-op"
  | "grid.split", [x, y, z] =>
    match parseF64s x, parseF64s y, parseF64s z with
    | some x, some y, some z =>
      let c : Corners Float := ⟨fn x, fn y, fn z⟩
      " ".intercalate ([splitLower c, splitUpper c, splitLowerI c, splitUpperI c, splitLowerJ c, splitUpperJ c].map
        fun h => f64Hex (cellVolume Float.abs h))
    | _, _, _ => "bad-op"
  | "grid.egrid", [nx, ny, nz, unit, ffrom, co, zc, act, mapaxes, mapunits, nnc] =>
    let d : Dims := ⟨nx.toNat!, ny.toNat!, nz.toNat!⟩
    match parseF64s ffrom, parseF64s co, parseF64s zc, parseInts act, parseWords 8 mapaxes, ofHex mapunits, parseNnc nnc with
    | some ff, some co, some zc, some act, some ma, some mu, some nnc =>
      let f := fn ff 0
      let conv : Float → Float32 := fun x => (f * (x - 0.0)).toFloat32
      let mapax := if mapaxes = "-" then none else some (ma.toList.map fun v => Float32.ofBits (UInt32.ofNat v))
      let mapun := if mapunits = "-" then none else some (bytesToString mu)
      toHex (OpmVerif.Ecl.encodeFile (egridArrays d unit (co.toList.map conv) (zc.toList.map conv) act mapax mapun nnc))
    | _, _, _, _, _, _, _ => "bad-op"
  | "grid.load", [feet, cm, file] =>
    match parseF64s (feet ++ cm), ofHex file with
    | some f, some bytes =>
      match OpmVerif.Ecl.decodeFile bytes with
      | .ok as => (loadEgrid (fn f 0) (fn f 1) as).getD "err"
      | .error _ => "err"
    | _, _ => "bad-op"
  | "grid.seq", [nx, ny, nz, kind, co, zc, act, ops] =>
    let d : Dims := ⟨nx.toNat!, ny.toNat!, nz.toNat!⟩
    match parseF64s co, parseF64s zc, parseInts act with
    | some co, some zc, some a =>
      let s0 : GState Float :=
        if kind = "cp" then initCornerPoint fixF d (fn co) (fn zc) (if act = "-" then none else some a)
        else { d := d, coord := fn co, zcorn := fn zc, nfix := 0, actnum := a, maps := resetACTNUM a,
               cache := none, inCoord := none, inZcorn := none }
      seqRun s0 (ops.splitOn ";")
    | _, _, _ => "bad-op"
  | _, _ => "bad-op"

end OpmVerif.Grid
