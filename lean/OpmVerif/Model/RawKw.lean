/-
  Model of the keyword assembly state machine:

    RawKeyword (constructor, addRecord, terminateKeyword, can_complete, isFinished)
                                                  — Parser/raw/RawKeyword.cpp
    the line loop of tryParseKeyword once a keyword has been started (record buffer
    assembled over lines with update_record_buffer, del_after_slash, isTerminator,
    isTerminatedRecordString, the can_complete / isRecognizedKeyword test on
    continuation lines, end of input)            — Parser/Parser.cpp
    ParserKeyword::parse for ordinary (non double-record) keywords
                                                  — Parser/ParserKeyword.cpp

  Lines are the lines of the *cleaned* text.  `update_record_buffer` extends a view inside
  the cleaned buffer, so the record buffer contains the `'\n'` of every line it spans,
  including skipped empty lines (`gap`).  TITLE and SKIP/ENDSKIP between keywords are in
  `Model/Deck.lean`; code keywords (PYINPUT, DYNAMICR) and a SKIP block *inside* the records
  of a keyword (the skipped text becomes part of the record view) are not modelled.

  Core Lean only.
-/
import OpmVerif.Model.Scan

namespace OpmVerif.RawKw
open OpmVerif.Lex OpmVerif.Tok OpmVerif.Scan

inductive SizeType where
  | slashTerminated | fixed | unknown | tableCollection | code | doubleSlash
  deriving DecidableEq, Repr

structure Kw where
  sizeType : SizeType
  raw : Bool
  records : List (List Bytes)
  minSize : Nat
  fixedSize : Nat
  numTables : Nat
  curTables : Nat
  tempFinished : Bool
  finished : Bool
  deriving DecidableEq, Repr

/-- the `RawKeyword` constructor; `none` = `std::logic_error`. -/
def mkKw (st : SizeType) (raw : Bool) (minSize : Option Nat) (sizeArg : Nat) : Option Kw :=
  let base : Kw := { sizeType := st, raw := raw, records := [], minSize := minSize.getD sizeArg,
                     fixedSize := 0, numTables := 0, curTables := 0, tempFinished := false, finished := false }
  match st with
  | .fixed => some { base with fixedSize := sizeArg, finished := sizeArg == 0 }
  | .tableCollection => if sizeArg = 0 then none else some { base with numTables := sizeArg }
  | .slashTerminated => if sizeArg ≠ 0 then none else some base
  | .unknown => if sizeArg ≠ 0 then none else some base
  | .code => if sizeArg ≠ 1 then none else some { base with fixedSize := sizeArg }
  | .doubleSlash => some base

/-- `RawKeyword::terminateKeyword`. -/
def Kw.terminate (k : Kw) : Kw :=
  match k.sizeType with
  | .slashTerminated => { k with finished := true }
  | .doubleSlash => if k.tempFinished then { k with finished := true } else { k with tempFinished := true }
  | .tableCollection =>
    let c := k.curTables + 1
    { k with curTables := c, finished := k.finished || c == k.numTables }
  | .fixed => if k.records.length ≥ k.minSize then { k with finished := true } else k
  | .unknown => { k with finished := true }
  | .code => k

/-- `RawKeyword::addRecord`. -/
def Kw.addRecord (k : Kw) (toks : List Bytes) : Kw :=
  let k1 := if toks.length > 0 then { k with tempFinished := false } else k
  let k2 := { k1 with records := k1.records ++ [toks] }
  if k2.records.length = k2.fixedSize ∧ (k2.sizeType = .fixed ∨ k2.sizeType = .code) then { k2 with finished := true }
  else k2

/-- `RawKeyword::can_complete`. -/
def Kw.canComplete (k : Kw) : Bool :=
  k.sizeType == .unknown || (k.minSize < k.fixedSize && k.records.length ≥ k.minSize)

inductive Step where
  | cont (k : Kw) (buf gap : Bytes)
  | done (k : Kw) (unget : Bool)
  | err
  deriving DecidableEq, Repr

/-- `update_record_buffer`. -/
def extendBuf (buf gap line : Bytes) : Bytes :=
  if buf.isEmpty then line else buf ++ [10] ++ gap ++ line

/-- what happens once the record buffer has been extended. -/
def afterExtend (k : Kw) (buf : Bytes) : Step :=
  let k1 := if isTerminator buf then k.terminate else k
  if isTerminator buf ∧ k1.finished then .done k1 false
  else if isTerminatedRecordString buf then
    match rawRecord buf.dropLast with
    | none => .err
    | some toks =>
      let k2 := k1.addRecord toks
      if k2.finished then .done k2 false else .cont k2 [] []
  else .cont k1 buf []

/-- one line of the loop in `tryParseKeyword` (keyword already started; not TITLE/CODE). -/
def feedLine (recog : Bytes → Bool) (k : Kw) (buf gap line : Bytes) : Step :=
  if line.isEmpty then .cont k buf (if buf.isEmpty then [] else gap ++ [10])
  else if k.canComplete && recog (makeDeckName line) then .done k.terminate true
  else afterExtend k (extendBuf buf gap (delAfterSlash k.raw line 10))

/-- End-of-file marker in the flat list of input lines (second round).  The input stack of
the C++ is modelled as one list of cleaned lines; where an INCLUDE file ends, the marker
stands between its last line and the lines of the including file.  No cleaned line can
equal it (a line holds no '\n').  `ParserState::done()` pops the exhausted file; since fix
d37f2f297 `tryParseKeyword` throws ("Input file ended inside a record.") when that happens
while the record buffer is not empty — the buffer is a view into the closed file's text and
`update_record_buffer` would otherwise measure a distance between two buffers. -/
def eofMark : Bytes := [10]

/-- the loop; result: the raw keyword and the lines not consumed (`none`: exception). -/
def feedLines (recog : Bytes → Bool) : Kw → Bytes → Bytes → List Bytes → Option (Kw × List Bytes)
  | k, _, _, [] =>
    let k' := if k.canComplete then k.terminate else k
    if k'.finished then some (k', []) else none
  | k, buf, gap, line :: rest =>
    if line = eofMark then
      (if buf.isEmpty then feedLines recog k buf gap rest else none)
    else
      match feedLine recog k buf gap line with
      | .cont k' buf' gap' => feedLines recog k' buf' gap' rest
      | .done k' unget => some (k', if unget then line :: rest else rest)
      | .err => none

/-- `ParserKeyword::getRecord(i)`. -/
def schemaOf (schemas : List (List Item)) (alternating : Bool) (i : Nat) : Option (List Item) :=
  match schemas with
  | [] => none
  | _ =>
    if i < schemas.length then schemas[i]?
    else if alternating then schemas[i % schemas.length]? else schemas.getLast?

/-- `ParserKeyword::parse` (not double-record): every raw record with its schema. -/
def parseRecords (cv : Conv) (schemas : List (List Item)) (alternating : Bool) :
    Nat → List (List Bytes) → Option (List (List Vals))
  | _, [] => some []
  | i, toks :: rest =>
    match schemaOf schemas alternating i with
    | none => none      -- "Missing item information" / "Trying to get record from empty keyword"
    | some items =>
      match parseItems cv items toks with
      | none => none
      | some r =>
        match parseRecords cv schemas alternating (i + 1) rest with
        | none => none
        | some rs => some (r :: rs)

/-- `ParserKeyword::parse` for double-record keywords: an empty raw record becomes an empty
DeckRecord and restarts the record numbering. -/
def parseRecordsDouble (cv : Conv) (schemas : List (List Item)) (alternating : Bool) :
    Nat → List (List Bytes) → Option (List (List Vals))
  | _, [] => some []
  | i, toks :: rest =>
    if toks.isEmpty then
      match parseRecordsDouble cv schemas alternating 0 rest with
      | none => none
      | some rs => some ([] :: rs)
    else
      match schemaOf schemas alternating i with
      | none => none
      | some items =>
        match parseItems cv items toks with
        | none => none
        | some r =>
          match parseRecordsDouble cv schemas alternating (i + 1) rest with
          | none => none
          | some rs => some (r :: rs)

/-- text after the keyword line → records of the DeckKeyword and the remaining lines. -/
def parseKeywordText (cv : Conv) (recog : Bytes → Bool) (k0 : Kw) (schemas : List (List Item))
    (alternating double : Bool) (text : Bytes) : Option (List (List Vals) × List Bytes) :=
  let lines := splitLines (fastClean text)
  let res := if k0.finished then some (k0, lines) else feedLines recog k0 [] [] lines
  match res with
  | none => none
  | some (k, rest) =>
    if !k.finished then none
    else
      match (if double then parseRecordsDouble cv schemas alternating 0 k.records
             else parseRecords cv schemas alternating 0 k.records) with
      | none => none
      | some rs => some (rs, rest)

end OpmVerif.RawKw
