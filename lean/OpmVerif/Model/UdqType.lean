/-
  Model of the UDQ "type system" as the parser computes it:
    UDQASTNode constructors / set_left / set_right / update_type   (UDQASTNode.cpp)
    UDQ::coerce, UDQ::targetType                                  (UDQEnums.cpp; tables generated)
    static_type_check and the order of the checks in parseUDQExpression   (UDQParser.cpp)

  `var_type` is NOT a function of the tree: in `parse_mul` / `parse_add` every operator node is
  created with the type of its RIGHT operand (`set_right` on a fresh node), pushed on `nodes`, and
  only after the loop linked by `set_left` from the top down — `curr->set_left(...)` on a node
  that is already somebody's child updates that child, not its parent.  So the top node of a chain
  of three or more operands carries `coerce(type of last operand, type of second-to-last operand)`,
  while the parenthesised `(a + b) + c` (same tree) carries the type of all three.  The typed
  parser below therefore walks the tokens again, function by function like `Model/UdqParse.lean`,
  carrying the type beside each tree; `Proofs/UdqType.lean` shows it builds the same trees.

  Outside the model (answer `unmodelled`): segment and region quantities (selector numbers are
  parsed with `from_chars`).  Connection, aquifer and block quantities make the leaf constructor
  throw.
-/
import OpmVerif.Model.UdqParse

namespace OpmVerif.Udq
open OpmVerif.Gen.UdqEnums

def isNoMix (t : VarT) : Bool := no_mix.contains t

/-- `UDQ::coerce(t1, t2)`; `none` = throws `std::logic_error` -/
def coerce (t1 t2 : VarT) : Option VarT :=
  if t1 = t2 then some t1
  else if isNoMix t1 && isNoMix t2 then none
  else if isNoMix t1 then some t1
  else if isNoMix t2 then some t2
  else if t1 = VarT.none then some t2
  else if t2 = VarT.none then some t1
  else some t1

/-- `UDQASTNode::update_type(arg)` on a node whose current type is `cur` -/
def updateType (cur arg : VarT) : Option VarT := if cur = .none then some arg else coerce cur arg

/-- `init_type(token_type)` -/
def initType (t : TT) : VarT := if t = .number ∨ scalar_func.contains t then .scalar else .none

/-- `UDQ::targetType(keyword)` for a keyword that is not a number -/
def targetType1 (kw : String) : VarT :=
  if kw.isEmpty then .none
  else if kw.take 3 == "TU_" then .table_lookup
  else match target_first_char.lookup (kw.toList.headD ' ') with
    | some t => t
    | none => .none

def selIsSet (sel : List String) : Bool :=
  match sel with
  | [] => true
  | p :: _ => p.toList.contains '*'

inductive Stop where
  | throw        -- an exception leaves the parser (`UDQ::coerce`, unsupported variable type)
  | unmodelled
  deriving DecidableEq, Repr

/-- `UDQ::targetType(keyword, selector)` followed by the test of the leaf constructor -/
def targetType (kw : String) (sel : List String) : Except Stop VarT :=
  match targetType1 kw with
  | .none => .ok .scalar
  | .field_var => .ok .scalar
  | .well_var => .ok (if selIsSet sel then .well_var else .scalar)
  | .group_var => .ok (if selIsSet sel then .group_var else .scalar)
  | .table_lookup => .ok .table_lookup
  | .connection_var => .error .throw
  | .aquifer_var => .error .throw
  | .block_var => .error .throw
  | _ => .error .unmodelled

/-- type of a leaf `UDQASTNode(type, value, selector)` -/
def leafType (t : Tok) : Except Stop VarT :=
  if t.ty = .ecl_expr then
    match t.val with
    | .str name => targetType name t.sel
    | .num _ => .error .unmodelled
  else .ok (initType t.ty)

/-- `UDQASTNode(type, value, left)`: reductions are scalar, elemental functions keep the type -/
def funcType (t : TT) (arg : VarT) : VarT := if scalar_func.contains t then .scalar else arg

inductive TRes where
  | fuel
  | stop (s : Stop)
  | ok (a : Ast) (vt : VarT) (rest : List Tok)
  deriving Repr, Inhabited

/-- `nodes[1..]` reversed: operator, right operand, and the operator node's own type (= the type
of its right operand, `set_right` on a fresh node) -/
abbrev TAcc := List (Head × Ast × VarT)

def eraseAcc (acc : TAcc) : List (Head × Ast) := acc.map fun x => (x.1, x.2.1)

/-- the chain folded from the left: every operator node sees the complete type of its left
operand (`none` = `UDQ::coerce` throws) -/
def buildT (t0 : VarT) : TAcc → Option VarT
  | [] => some t0
  | (_, _, t) :: prev =>
    match buildT t0 prev with
    | none => none
    | some below => updateType t below

def finishChain (n0 : Ast) (t0 : VarT) (acc : TAcc) (rest : List Tok) : TRes :=
  match buildT t0 acc with
  | some v => .ok (build n0 (eraseAcc acc)) v rest
  | none => .stop .throw

/-- `{type, value, left, right}`: `set_left` then `set_right` on a node of type NONE -/
def binNode (c : Tok) (left : Ast) (lvt : VarT) (right : Ast) (rvt : VarT) (rest : List Tok) : TRes :=
  match updateType lvt rvt with
  | some v => .ok (.bin (opHead c) left right) v rest
  | none => .stop .throw

def closeParenT (neg : Bool) (mk : Ast → Ast) (vt : VarT) (inner : Ast) (rest : List Tok) : TRes :=
  match rest with
  | [] => .ok errNode .none []
  | c :: r => if cls c.ty = .rp then .ok ((mk inner).scale neg) vt r else .ok errNode .none rest

mutual

def tFactor : Nat → List Tok → TRes
  | 0, _ => .fuel
  | n + 1, ts =>
    match ts with
    | [] => .ok errNode .none []
    | t :: r =>
      if cls t.ty = .add then tAtom n false r
      else if cls t.ty = .sub then tAtom n true r
      else tAtom n false ts

def tAtom : Nat → Bool → List Tok → TRes
  | 0, _, _ => .fuel
  | n + 1, neg, ts =>
    match ts with
    | [] => .ok errNode .none []
    | c :: r =>
      if cls c.ty = .lp then
        match tSet n r with
        | .fuel => .fuel
        | .stop s => .stop s
        | .ok inner vt rest => closeParenT neg id vt inner rest
      else if cls c.ty = .func then
        match r with
        | [] => .ok errNode .none []
        | c2 :: r2 =>
          if cls c2.ty = .lp then
            match tSet n r2 with
            | .fuel => .fuel
            | .stop s => .stop s
            | .ok arg vt rest => closeParenT neg (Ast.un (opHead c)) (funcType c.ty vt) arg rest
          else .ok errNode .none r
      else if c.ty = .number ∨ c.ty = .ecl_expr then
        match leafType c with
        | .error s => .stop s
        | .ok vt => .ok (.leaf (leafHead c neg)) vt r
      else .ok errNode .none ts

def tPow : Nat → List Tok → TRes
  | 0, _ => .fuel
  | n + 1, ts =>
    match tFactor n ts with
    | .fuel => .fuel
    | .stop s => .stop s
    | .ok left lvt rest =>
      match rest with
      | [] => .ok left lvt []
      | c :: r =>
        if cls c.ty = .pow then
          match r with
          | [] => .ok errNode .none []
          | _ :: _ =>
            match tPow n r with
            | .fuel => .fuel
            | .stop s => .stop s
            | .ok right rvt rest2 => binNode c left lvt right rvt rest2
        else .ok left lvt rest

def tMul : Nat → List Tok → TRes
  | 0, _ => .fuel
  | n + 1, ts =>
    match tPow n ts with
    | .fuel => .fuel
    | .stop s => .stop s
    | .ok a vt rest => tMulLoop n a vt [] rest

def tMulLoop : Nat → Ast → VarT → TAcc → List Tok → TRes
  | 0, _, _, _, _ => .fuel
  | n + 1, n0, t0, acc, rest =>
    match rest with
    | [] => finishChain n0 t0 acc []
    | c :: r =>
      if cls c.ty = .mul ∨ cls c.ty = .div then
        match r with
        | [] => .ok errNode .none []
        | _ :: _ =>
          match tPow n r with
          | .fuel => .fuel
          | .stop s => .stop s
          | .ok b bt rest2 => tMulLoop n n0 t0 ((opHead c, b, bt) :: acc) rest2
      else finishChain n0 t0 acc rest

def tAdd : Nat → List Tok → TRes
  | 0, _ => .fuel
  | n + 1, ts =>
    match tMul n ts with
    | .fuel => .fuel
    | .stop s => .stop s
    | .ok a vt rest => tAddLoop n a vt [] rest

def tAddLoop : Nat → Ast → VarT → TAcc → List Tok → TRes
  | 0, _, _, _, _ => .fuel
  | n + 1, n0, t0, acc, rest =>
    match rest with
    | [] => finishChain n0 t0 acc []
    | c :: r =>
      if cls c.ty = .add ∨ cls c.ty = .sub then
        match r with
        | [] => .ok errNode .none []
        | _ :: _ =>
          match tMul n r with
          | .fuel => .fuel
          | .stop s => .stop s
          | .ok b bt rest2 => tAddLoop n n0 t0 ((opHead c, b, bt) :: acc) rest2
      else if cls c.ty = .rp ∨ cls c.ty = .cmp ∨ cls c.ty = .set then finishChain n0 t0 acc rest
      else .ok errNode .none rest

def tCmp : Nat → List Tok → TRes
  | 0, _ => .fuel
  | n + 1, ts =>
    match tAdd n ts with
    | .fuel => .fuel
    | .stop s => .stop s
    | .ok left lvt rest =>
      match rest with
      | [] => .ok left lvt []
      | c :: r =>
        if cls c.ty = .cmp then
          match r with
          | [] => .ok errNode .none []
          | _ :: _ =>
            match tCmp n r with
            | .fuel => .fuel
            | .stop s => .stop s
            | .ok right rvt rest2 => binNode c left lvt right rvt rest2
        else .ok left lvt rest

def tSet : Nat → List Tok → TRes
  | 0, _ => .fuel
  | n + 1, ts =>
    match tCmp n ts with
    | .fuel => .fuel
    | .stop s => .stop s
    | .ok left lvt rest =>
      match rest with
      | [] => .ok left lvt []
      | c :: r =>
        if cls c.ty = .set then
          match r with
          | [] => .ok errNode .none []
          | _ :: _ =>
            match tSet n r with
            | .fuel => .fuel
            | .stop s => .stop s
            | .ok right rvt rest2 => binNode c left lvt right rvt rest2
        else .ok left lvt rest

end

/-- `static_type_check(lhs, rhs)` of UDQParser.cpp -/
def staticTypeCheck (lhs rhs : VarT) : Bool :=
  lhs == rhs || rhs == .scalar ||
  (rhs == .table_lookup && (lhs == .well_var || lhs == .field_var || lhs == .segment_var || lhs == .group_var))

/-- outcome of `parseUDQExpression(…, target_type, …)` -/
inductive TParsed where
  | ast (a : Ast) (vt : VarT)
  | extra
  | invalid
  | typeError       -- "Invalid type conversion detected"
  | noType          -- "Could not determine expression type"
  | stop (s : Stop)
  | fuel
  deriving DecidableEq, Repr

def parseTyped (target : VarT) (ts : List Tok) : TParsed :=
  match tSet (fuelFor ts) ts with
  | .fuel => .fuel
  | .stop s => .stop s
  | .ok _ _ (_ :: _) => .extra
  | .ok a vt [] =>
    if !a.valid then .invalid
    else if !staticTypeCheck target vt then .typeError
    else if vt = .none then .noType
    else .ast a vt

end OpmVerif.Udq
